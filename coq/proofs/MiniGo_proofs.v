(* Equivalence of the executable checker of MiniGoM.v with the declarative
   typing rules of MiniGoSpec.v. *)
From Coq Require Import Lia.
From Verif Require Import MiniGoM MiniGoSpec.

(* ------------------------------------------------------------- small tools *)

Ltac inv H := inversion H; subst; clear H.

(* destruct the scrutinee of a match in hypothesis H *)
Ltac dmatch H :=
  match type of H with
  | context [match ?x with _ => _ end] => destruct x eqn:?; try discriminate H
  | context [if ?x then _ else _] => destruct x eqn:?; try discriminate H
  end.

Lemma basic_eqb_spec a b : basic_eqb a b = true <-> a = b.
Proof. split; [destruct a, b; simpl; congruence | intros ->; destruct b; reflexivity]. Qed.

Lemma ty_eqb_spec a b : ty_eqb a b = true <-> a = b.
Proof.
  split.
  - destruct a as [x|n x], b as [y|m y]; simpl; try discriminate.
    + intros H. apply basic_eqb_spec in H. congruence.
    + intros H. apply andb_prop in H. destruct H as [H1 H2].
      apply N.eqb_eq in H1. apply basic_eqb_spec in H2. congruence.
  - intros ->. destruct b as [y|m y]; simpl.
    + apply basic_eqb_spec; reflexivity.
    + rewrite N.eqb_refl. apply basic_eqb_spec; reflexivity.
Qed.

Lemma ty_eqb_refl t : ty_eqb t t = true.
Proof. apply ty_eqb_spec; reflexivity. Qed.

Lemma bclass_eqb_spec a b : bclass_eqb a b = true <-> a = b.
Proof. split; [destruct a, b; simpl; congruence | intros ->; destruct b; reflexivity]. Qed.

Lemma is_numeric_spec k : is_numeric k = true <-> Numeric k.
Proof. unfold Numeric. destruct k; simpl; split; intros H; try discriminate; auto; destruct H; discriminate. Qed.

Lemma is_numeric_false k : is_numeric k = false <-> ~ Numeric k.
Proof.
  split.
  - intros H N. apply is_numeric_spec in N. congruence.
  - intros H. destruct (is_numeric k) eqn:E; [|reflexivity]. apply is_numeric_spec in E. contradiction.
Qed.

Lemma memN_spec x l : memN x l = true <-> In x l.
Proof.
  unfold memN. rewrite existsb_exists. split.
  - intros [y [H1 H2]]. apply N.eqb_eq in H2. subst. assumption.
  - intros H. exists x. split; [assumption|apply N.eqb_refl].
Qed.

(* --------------------------------------------------------- representability *)

Lemma Qred_inject_Z z : Qred (inject_Z z) = inject_Z z.
Proof.
  unfold inject_Z, Qred.
  pose proof (Z.ggcd_gcd z 1) as Hg.
  pose proof (Z.ggcd_correct_divisors z 1) as Hd.
  destruct (Z.ggcd z 1) as [g [aa bb]]. simpl in *.
  rewrite Z.gcd_1_r in Hg. subst g.
  destruct Hd as [H1 H2].
  rewrite Z.mul_1_l in H1, H2. subst aa bb. reflexivity.
Qed.

Lemma qint_spec q z : qint q = Some z <-> Qeq q (inject_Z z).
Proof.
  unfold qint. split.
  - intros H. destruct (Pos.eqb_spec (Qden (Qred q)) 1) as [E|E]; [|discriminate].
    inv H. rewrite <- (Qred_correct q) at 1.
    destruct (Qred q) as [n d]. simpl in *. subst d. reflexivity.
  - intros H. apply Qred_complete in H. rewrite Qred_inject_Z in H. rewrite H. reflexivity.
Qed.

Lemma qint_qz z : qint (qz z) = Some z.
Proof. apply qint_spec. reflexivity. Qed.

Lemma const_fits_spec q b : const_fits q b = true <-> Representable q b.
Proof.
  unfold const_fits. split.
  - intros H. destruct (int_range b) as [[lo hi]|] eqn:R.
    + destruct (qint q) as [z|] eqn:Q; [|discriminate].
      apply andb_prop in H. destruct H as [H1 H2].
      apply Z.leb_le in H1. apply Z.leb_le in H2.
      apply qint_spec in Q. eapply Rep_int; eauto.
    + destruct b; try discriminate. unfold q_abs_le in H.
      apply andb_prop in H. destruct H as [H1 H2].
      apply Qle_bool_iff in H1. apply Qle_bool_iff in H2. apply Rep_float; assumption.
  - intros H. inv H.
    + rewrite H0. apply qint_spec in H1. rewrite H1.
      apply andb_true_intro. split; apply Z.leb_le; lia.
    + simpl. unfold q_abs_le. apply andb_true_intro. split; apply Qle_bool_iff; assumption.
Qed.

Lemma const_fits_false q b : const_fits q b = false <-> ~ Representable q b.
Proof.
  split.
  - intros H R. apply const_fits_spec in R. congruence.
  - intros H. destruct (const_fits q b) eqn:E; [|reflexivity]. apply const_fits_spec in E. contradiction.
Qed.

(* -------------------------------------------- implicit conversion, assignment *)

Lemma conv_untyped_spec k c t r :
  conv_untyped k c t = Some r <-> (ConvUntyped k c t /\ r = EVal (VT t) c).
Proof.
  unfold conv_untyped. split.
  - intros H.
    destruct k; simpl in H; destruct (class_of (under t)) eqn:C; try discriminate;
      try (inv H; split; [constructor; assumption|reflexivity]);
      destruct c as [[q|]|]; try discriminate;
      destruct (const_fits q (under t)) eqn:F; try discriminate; inv H;
      (split; [|reflexivity]); apply const_fits_spec in F;
      apply CU_num; unfold Numeric; simpl; auto; rewrite C; auto.
  - intros [H ->]. inv H.
    + simpl. rewrite H0. reflexivity.
    + simpl. rewrite H0. reflexivity.
    + apply const_fits_spec in H2. unfold Numeric in H0, H1.
      destruct H0 as [K|K], H1 as [C|C]; rewrite K, C, H2; reflexivity.
Qed.

Lemma conv_untyped_none k c t : conv_untyped k c t = None <-> ~ ConvUntyped k c t.
Proof.
  split.
  - intros H C. assert (conv_untyped k c t = Some (EVal (VT t) c)) by (apply conv_untyped_spec; auto). congruence.
  - intros H. destruct (conv_untyped k c t) eqn:E; [|reflexivity].
    apply conv_untyped_spec in E. destruct E. contradiction.
Qed.

Lemma assign_to_spec e t : assign_to e t = true <-> Assignable e t.
Proof.
  unfold assign_to. split.
  - intros H. destruct e as [[t'|k] c|ts]; try discriminate.
    + apply ty_eqb_spec in H. subst. constructor.
    + destruct (conv_untyped k c t) eqn:E; [|discriminate].
      apply conv_untyped_spec in E. destruct E. constructor. assumption.
  - intros H. inv H.
    + apply ty_eqb_refl.
    + assert (E: conv_untyped k c t = Some (EVal (VT t) c)) by (apply conv_untyped_spec; auto).
      rewrite E. reflexivity.
Qed.

Lemma default_of_spec e t : default_of e = Some t <-> DefaultOf e t.
Proof.
  unfold default_of. split.
  - intros H. destruct e as [[t'|k] c|ts]; try discriminate.
    + inv H. constructor.
    + destruct (conv_untyped k c (default_ty k)) eqn:E; [|discriminate]. inv H.
      apply conv_untyped_spec in E. destruct E. constructor. assumption.
  - intros H. inv H.
    + reflexivity.
    + assert (E: conv_untyped k c (default_ty k) = Some (EVal (VT (default_ty k)) c)) by (apply conv_untyped_spec; auto).
      rewrite E. reflexivity.
Qed.

(* ------------------------------------------------------------------ operands *)

Lemma match_types_spec a b v c1 c2 :
  match_types a b = Some (v, c1, c2) <-> Operands a b v c1 c2.
Proof.
  unfold match_types. split.
  - intros H. destruct a as [[t1|k1] ca|?], b as [[t2|k2] cb|?]; try discriminate.
    + destruct (ty_eqb t1 t2) eqn:E; [|discriminate]. apply ty_eqb_spec in E. subst. inv H. constructor.
    + destruct (conv_untyped k2 cb t1) eqn:E; [|discriminate]. inv H.
      apply conv_untyped_spec in E. destruct E. constructor. assumption.
    + destruct (conv_untyped k1 ca t2) eqn:E; [|discriminate]. inv H.
      apply conv_untyped_spec in E. destruct E. constructor. assumption.
    + destruct (is_numeric (kind_class k1) && is_numeric (kind_class k2)) eqn:E.
      * inv H. apply andb_prop in E. destruct E as [E1 E2].
        apply is_numeric_spec in E1. apply is_numeric_spec in E2.
        apply Op_untyped_numeric; assumption.
      * destruct (bclass_eqb (kind_class k1) (kind_class k2)) eqn:E'; [|discriminate]. inv H.
        apply bclass_eqb_spec in E'. apply Op_untyped_same; [|assumption].
        intros [N1 N2]. apply is_numeric_spec in N1. apply is_numeric_spec in N2.
        rewrite N1, N2 in E. discriminate.
  - intros H. inv H.
    + rewrite ty_eqb_refl. reflexivity.
    + assert (E: conv_untyped k c2 t = Some (EVal (VT t) c2)) by (apply conv_untyped_spec; auto).
      rewrite E. reflexivity.
    + assert (E: conv_untyped k c1 t = Some (EVal (VT t) c1)) by (apply conv_untyped_spec; auto).
      rewrite E. reflexivity.
    + apply is_numeric_spec in H0. apply is_numeric_spec in H1. rewrite H0, H1. reflexivity.
    + destruct (is_numeric (kind_class k1) && is_numeric (kind_class k2)) eqn:E.
      * exfalso. apply H0. apply andb_prop in E. destruct E. split; apply is_numeric_spec; assumption.
      * rewrite H1. assert (bclass_eqb (kind_class k2) (kind_class k2) = true) by (apply bclass_eqb_spec; reflexivity).
        rewrite H. reflexivity.
Qed.

Lemma op_defined_spec o k : op_defined o k = true <-> OpDefined o k.
Proof.
  split.
  - intros H. destruct o; simpl in H; try discriminate;
      try (apply is_numeric_spec in H; constructor; assumption);
      try (apply bclass_eqb_spec in H; subst; constructor).
    constructor. destruct k; try discriminate; congruence.
  - intros H. inv H; simpl; try reflexivity; try (apply is_numeric_spec; assumption).
    destruct k; congruence.
Qed.

Lemma div_zero_spec o k c1 c2 : div_zero_b o k c1 c2 = true <-> DivByZero o k c1 c2.
Proof.
  unfold div_zero_b, DivByZero. split.
  - intros H. apply andb_prop in H. destruct H as [H H3]. apply andb_prop in H. destruct H as [H1 H2].
    split; [destruct o; try discriminate; auto|]. split.
    + destruct c2 as [[q|]|]; try discriminate. exists q. split; [reflexivity|].
      simpl in H2. unfold q_is_zero in H2. apply Z.eqb_eq in H2. assumption.
    + apply orb_prop in H3. destruct H3 as [H3|H3].
      * left. destruct c1; [eauto|discriminate].
      * right. apply bclass_eqb_spec. assumption.
  - intros [H1 [[q [Hc H2]] H3]]. subst c2.
    apply andb_true_intro. split; [apply andb_true_intro; split|].
    + destruct H1; subst; reflexivity.
    + simpl. unfold q_is_zero. apply Z.eqb_eq. assumption.
    + apply orb_true_intro. destruct H3 as [[c Hc] | Hk]; subst; [left|right]; reflexivity.
Qed.

Lemma div_zero_false o k c1 c2 : div_zero_b o k c1 c2 = false <-> ~ DivByZero o k c1 c2.
Proof.
  split.
  - intros H D. apply div_zero_spec in D. congruence.
  - intros H. destruct (div_zero_b o k c1 c2) eqn:E; [|reflexivity]. apply div_zero_spec in E. contradiction.
Qed.

Lemma const_ok_spec v c : const_ok v c = true <-> ConstOK v c.
Proof.
  unfold const_ok. split.
  - intros H. destruct v as [t|k]; [|constructor]. destruct c as [q|]; [|constructor].
    constructor. apply const_fits_spec. assumption.
  - intros H. inv H; try reflexivity. apply const_fits_spec. assumption.
Qed.

Lemma mk_const_spec v c r : mk_const v c = Some r <-> (ConstOK v c /\ r = EVal v (Some c)).
Proof.
  unfold mk_const. split.
  - intros H. destruct (const_ok v c) eqn:E; [|discriminate]. inv H. split; [apply const_ok_spec; assumption|reflexivity].
  - intros [H ->]. apply const_ok_spec in H. rewrite H. reflexivity.
Qed.

(* -------------------------------------------------------------------- shifts *)

Lemma shift_count_spec vb cb : shift_count_ok vb cb = true <-> ShiftCount vb cb.
Proof.
  unfold shift_count_ok. split.
  - intros H. destruct vb as [t|k], cb as [[q|]|]; try discriminate.
    + apply andb_prop in H. destruct H as [H1 H2]. apply bclass_eqb_spec in H1.
      destruct (qint q) as [z|] eqn:Q; [|discriminate]. apply Z.leb_le in H2. apply qint_spec in Q.
      eapply SC_typed_const; eauto.
    + apply bclass_eqb_spec in H. constructor; assumption.
    + apply andb_prop in H. destruct H as [H1 H2]. apply is_numeric_spec in H1.
      apply const_fits_spec in H2. constructor; assumption.
  - intros H. inv H.
    + apply bclass_eqb_spec; assumption.
    + apply qint_spec in H1. rewrite H1. apply andb_true_intro; split;
        [apply bclass_eqb_spec; assumption | apply Z.leb_le; assumption].
    + apply andb_true_intro; split; [apply is_numeric_spec | apply const_fits_spec]; assumption.
Qed.

Lemma tc_shift_sound o a b r : tc_shift o a b = Some r -> Shift o a b r.
Proof.
  unfold tc_shift. intros H.
  destruct a as [va ca|?], b as [vb cb|?]; try discriminate.
  destruct (shift_count_ok vb cb) eqn:SC; simpl in H; [|discriminate].
  apply shift_count_spec in SC.
  destruct va as [t|k], ca as [[q|]|]; try discriminate.
  - (* typed constant *)
    destruct (bclass_eqb (class_of (under t)) KInt) eqn:L; [|discriminate].
    apply bclass_eqb_spec in L.
    destruct (qint q) as [x|] eqn:Qx; [|discriminate]. apply qint_spec in Qx.
    destruct cb as [[qs|]|].
    + destruct (qint qs) as [s|] eqn:Qs; [|discriminate]. apply qint_spec in Qs.
      destruct (Z.leb s max_shift) eqn:M; [|discriminate]. apply Z.leb_le in M.
      apply mk_const_spec in H. destruct H as [H1 ->].
      eapply Sh_const with (x := x) (s := s); eauto.
    + inv SC.
    + inv H. eapply Sh_typed_const_var; eauto.
  - (* typed variable *)
    destruct (bclass_eqb (class_of (under t)) KInt) eqn:L; [|discriminate].
    apply bclass_eqb_spec in L. inv H. apply Sh_var; assumption.
  - (* untyped constant *)
    destruct (is_numeric (kind_class k)) eqn:L; [|discriminate].
    apply is_numeric_spec in L.
    destruct (qint q) as [x|] eqn:Qx; [|discriminate]. apply qint_spec in Qx.
    destruct cb as [[qs|]|].
    + destruct (qint qs) as [s|] eqn:Qs; [|discriminate]. apply qint_spec in Qs.
      destruct (Z.leb s max_shift) eqn:M; [|discriminate]. apply Z.leb_le in M.
      apply mk_const_spec in H. destruct H as [H1 ->].
      eapply Sh_const with (x := x) (s := s); eauto.
    + inv SC.
    + destruct (const_fits q BInt) eqn:F; [|discriminate]. inv H.
      apply const_fits_spec in F. eapply Sh_untyped_const_var; eauto.
Qed.

Lemma tc_shift_complete o a b r : Shift o a b r -> tc_shift o a b = Some r.
Proof.
  intros H. inv H; unfold tc_shift.
  - apply shift_count_spec in H0. rewrite H0. simpl.
    apply bclass_eqb_spec in H1. rewrite H1. reflexivity.
  - apply shift_count_spec in H0. rewrite H0. simpl.
    apply qint_spec in H2. apply qint_spec in H3. apply Z.leb_le in H4.
    assert (M: mk_const (shift_result_vty va) (CNum (qz (shift_value o x s)))
               = Some (EVal (shift_result_vty va) (Some (CNum (qz (shift_value o x s))))))
      by (apply mk_const_spec; auto).
    destruct va as [t|k].
    + apply bclass_eqb_spec in H1. rewrite H1, H2, H3, H4. exact M.
    + apply is_numeric_spec in H1. rewrite H1, H2, H3, H4. exact M.
  - apply shift_count_spec in H0. rewrite H0. simpl.
    apply bclass_eqb_spec in H1. apply qint_spec in H2. rewrite H1, H2. reflexivity.
  - apply shift_count_spec in H0. rewrite H0. simpl.
    apply is_numeric_spec in H1. apply qint_spec in H2. apply const_fits_spec in H3.
    rewrite H1, H2, H3. reflexivity.
Qed.

Lemma tc_shift_spec o a b r : tc_shift o a b = Some r <-> Shift o a b r.
Proof. split; [apply tc_shift_sound | apply tc_shift_complete]. Qed.

(* ---------------------------------------------------------- binary operators *)

Lemma comparison_not_shift o : is_comparison o = true -> is_shift o = false.
Proof. destruct o; cbv; congruence. Qed.

Lemma tc_binary_sound o a b r : tc_binary o a b = Some r -> Binary o a b r.
Proof.
  unfold tc_binary. intros H.
  destruct (is_shift o) eqn:S.
  - apply B_shift; [assumption|apply tc_shift_sound; assumption].
  - destruct (match_types a b) as [[[v c1] c2]|] eqn:M; [|discriminate].
    apply match_types_spec in M.
    destruct (is_comparison o) eqn:C.
    + destruct (is_order o && bclass_eqb (vty_class v) KBool) eqn:OB; [discriminate|]. inv H.
      eapply B_compare; eauto. intros Ho Hk. rewrite Ho, Hk in OB. discriminate.
    + destruct (op_defined o (vty_class v)) eqn:D; simpl in H; [|discriminate].
      destruct (div_zero_b o (vty_class v) c1 c2) eqn:Z; [discriminate|].
      apply op_defined_spec in D. apply div_zero_false in Z.
      destruct c1 as [[q1|]|], c2 as [[q2|]|].
      * destruct (qbin o (vty_class v) q1 q2) as [q|] eqn:Qb; [|discriminate].
        apply mk_const_spec in H. destruct H as [H1 ->]. eapply B_const_num; eauto.
      * inv H. eapply B_const_other; eauto.
      * inv H. eapply B_value; eauto.
      * inv H. eapply B_const_other; eauto.
      * inv H. eapply B_const_other; eauto.
      * inv H. eapply B_value; eauto.
      * inv H. eapply B_value; eauto.
      * inv H. eapply B_value; eauto.
      * inv H. eapply B_value; eauto.
Qed.

Lemma tc_binary_complete o a b r : Binary o a b r -> tc_binary o a b = Some r.
Proof.
  intros H. inv H; unfold tc_binary.
  - rewrite H0. apply tc_shift_complete. assumption.
  - rewrite (comparison_not_shift _ H0). apply match_types_spec in H1. rewrite H1, H0.
    destruct (is_order o) eqn:Ho; simpl; [|reflexivity].
    destruct (bclass_eqb (vty_class v) KBool) eqn:K; [|reflexivity].
    apply bclass_eqb_spec in K. exfalso. apply H2; auto.
  - rewrite H0. apply match_types_spec in H2. rewrite H2, H1.
    apply op_defined_spec in H3. rewrite H3. simpl.
    apply div_zero_false in H4. rewrite H4.
    destruct c1 as [[?|]|], c2 as [[?|]|]; simpl in H5; try discriminate; reflexivity.
  - rewrite H0. apply match_types_spec in H2. rewrite H2, H1.
    apply op_defined_spec in H3. rewrite H3. simpl.
    apply div_zero_false in H4. rewrite H4, H5.
    apply mk_const_spec. auto.
  - rewrite H0. apply match_types_spec in H2. rewrite H2, H1.
    apply op_defined_spec in H3. rewrite H3. simpl.
    apply div_zero_false in H4. rewrite H4.
    destruct H5; subst; [|destruct c1]; reflexivity.
Qed.

Lemma tc_binary_spec o a b r : tc_binary o a b = Some r <-> Binary o a b r.
Proof. split; [apply tc_binary_sound | apply tc_binary_complete]. Qed.

(* ----------------------------------------------------------- unary operators *)

Lemma un_defined_spec o k : un_defined o k = true <-> UnDefined o k.
Proof.
  split.
  - intros H. destruct o; simpl in H.
    + apply is_numeric_spec in H. constructor; assumption.
    + apply is_numeric_spec in H. constructor; assumption.
    + apply bclass_eqb_spec in H. subst. constructor.
    + apply bclass_eqb_spec in H. subst. constructor.
  - intros H. inv H; simpl; try reflexivity; apply is_numeric_spec; assumption.
Qed.

Lemma tc_unary_sound o a r : tc_unary o a = Some r -> Unary o a r.
Proof.
  unfold tc_unary. intros H. destruct a as [v c|?]; [|discriminate].
  destruct (un_defined o (vty_class v)) eqn:D; simpl in H; [|discriminate].
  apply un_defined_spec in D.
  destruct c as [[q|]|].
  - destruct o.
    + inv H. constructor; assumption.
    + apply mk_const_spec in H. destruct H as [H1 ->]. constructor; assumption.
    + discriminate.
    + destruct (qint q) as [x|] eqn:Q; [|discriminate]. apply qint_spec in Q.
      apply mk_const_spec in H. destruct H as [H1 ->]. eapply Un_compl; eauto.
  - inv H. constructor; assumption.
  - inv H. constructor; assumption.
Qed.

Lemma tc_unary_complete o a r : Unary o a r -> tc_unary o a = Some r.
Proof.
  intros H. inv H; unfold tc_unary;
    match goal with D : UnDefined _ _ |- _ => apply un_defined_spec in D; rewrite D; simpl end;
    try reflexivity.
  - apply mk_const_spec. auto.
  - apply qint_spec in H1. rewrite H1. apply mk_const_spec. auto.
Qed.

Lemma tc_unary_spec o a r : tc_unary o a = Some r <-> Unary o a r.
Proof. split; [apply tc_unary_sound | apply tc_unary_complete]. Qed.

(* --------------------------------------------------------------- conversions *)

Lemma tc_convert_sound t a r : tc_convert t a = Some r -> Convert t a r.
Proof.
  unfold tc_convert. intros H. destruct a as [v [c|]|?]; [| |discriminate].
  - assert (H' : match vty_class v, class_of (under t), c with
                 | (KInt | KFloat), (KInt | KFloat), CNum q =>
                   if const_fits q (under t) then Some (EVal (VT t) (Some c)) else None
                 | KInt, KStr, CNum _ => Some (EVal (VT t) (Some COther))
                 | KStr, KStr, COther | KBool, KBool, COther => Some (EVal (VT t) (Some COther))
                 | _, _, _ => None
                 end = Some r) by (destruct v; exact H).
    clear H. rename H' into H.
    destruct c as [q|].
    + destruct (vty_class v) eqn:Kv; destruct (class_of (under t)) eqn:Kt; try discriminate;
        first [ inv H; apply Cv_const_int_string; assumption
              | destruct (const_fits q (under t)) eqn:F; [|discriminate]; inv H;
                apply const_fits_spec in F; apply Cv_const_num; unfold Numeric; auto; rewrite ?Kv, ?Kt; auto ].
    + destruct (vty_class v) eqn:Kv; destruct (class_of (under t)) eqn:Kt; try discriminate;
        (inv H; apply Cv_const_same; [rewrite Kv; auto | congruence]).
  - destruct v as [t'|k'].
    + destruct (basic_eqb (under t') (under t) || is_numeric (class_of (under t')) && is_numeric (class_of (under t))
                || bclass_eqb (class_of (under t')) KInt && bclass_eqb (class_of (under t)) KStr) eqn:E; [|discriminate].
      inv H. apply Cv_value.
      apply orb_prop in E. destruct E as [E|E]; [apply orb_prop in E; destruct E as [E|E]|].
      * left. apply basic_eqb_spec. assumption.
      * right. left. apply andb_prop in E. destruct E. split; apply is_numeric_spec; assumption.
      * right. right. apply andb_prop in E. destruct E. split; apply bclass_eqb_spec; assumption.
    + destruct (bclass_eqb (kind_class k') KBool && bclass_eqb (class_of (under t)) KBool) eqn:E; [|discriminate].
      inv H. apply andb_prop in E. destruct E. apply Cv_untyped_bool; apply bclass_eqb_spec; assumption.
Qed.

Lemma tc_convert_complete t a r : Convert t a r -> tc_convert t a = Some r.
Proof.
  intros H. inv H; unfold tc_convert.
  - apply const_fits_spec in H2. unfold Numeric in H0, H1.
    destruct v; simpl in *; destruct H0 as [K|K], H1 as [C|C]; rewrite K, C, H2; reflexivity.
  - destruct v; simpl in *; rewrite H0, H1; reflexivity.
  - destruct v; simpl in *; rewrite H1; destruct H0 as [K|K]; rewrite K; reflexivity.
  - destruct H0 as [E|[[N1 N2]|[K1 K2]]].
    + apply basic_eqb_spec in E. rewrite E. reflexivity.
    + apply is_numeric_spec in N1. apply is_numeric_spec in N2. rewrite N1, N2.
      rewrite orb_true_r. reflexivity.
    + rewrite K1, K2. simpl. rewrite !orb_true_r. reflexivity.
  - rewrite H0, H1. reflexivity.
Qed.

Lemma tc_convert_spec t a r : tc_convert t a = Some r <-> Convert t a r.
Proof. split; [apply tc_convert_sound | apply tc_convert_complete]. Qed.

(* --------------------------------------------------------------- expressions *)

Scheme expr_mut := Induction for expr Sort Prop
  with exprs_mut := Induction for exprs Sort Prop.
Combined Scheme expr_exprs_ind from expr_mut, exprs_mut.

Lemma args_ok_spec tas ps : args_ok tas ps = true <-> Forall2 Assignable tas ps.
Proof.
  revert ps. induction tas as [|a tas IH]; intros [|p ps]; simpl; split; intros H;
    try discriminate; try constructor; try (inv H; fail).
  - apply andb_prop in H. destruct H as [H1 H2]. apply assign_to_spec. assumption.
  - apply andb_prop in H. destruct H as [H1 H2]. apply IH. assumption.
  - inv H. apply andb_true_intro. split; [apply assign_to_spec; assumption | apply IH; assumption].
Qed.

Lemma tc_expr_sound G E :
  (forall e te, tc_expr G E e = Some te -> has_type G E e te) /\
  (forall es tes, tc_exprs G E es = Some tes -> has_types G E es tes).
Proof.
  apply expr_exprs_ind; simpl; intros.
  - inv H. constructor.
  - inv H. constructor.
  - inv H. constructor.
  - inv H. constructor.
  - inv H. constructor.
  - discriminate.
  - destruct (N.eqb_spec x blank) as [B|B]; [discriminate|].
    destruct (lookup E x) as [[t|c|ps rs]|] eqn:L; try discriminate.
    + inv H. apply T_Var; assumption.
    + inv H. apply T_Const; assumption.
  - destruct (tc_expr G E e) as [ta|] eqn:A; [|discriminate].
    eapply T_Un; [apply H; reflexivity | apply tc_unary_sound; assumption].
  - destruct (tc_expr G E a) as [ta|] eqn:A; [|discriminate].
    destruct (tc_expr G E b) as [tb|] eqn:B; [|discriminate].
    eapply T_Bin; [apply H; reflexivity | apply H0; reflexivity | apply tc_binary_sound; assumption].
  - destruct (tc_expr G E e) as [ta|] eqn:A; [|discriminate].
    eapply T_Conv; [apply H; reflexivity | apply tc_convert_sound; assumption].
  - destruct (lookup E f) as [[t|c|ps rs]|] eqn:L; try discriminate.
    destruct (tc_exprs G E args) as [tas|] eqn:A; [|discriminate].
    destruct (args_ok tas ps) eqn:O; [|discriminate]. inv H0.
    eapply T_Call; [eassumption | apply H; reflexivity | apply args_ok_spec; assumption].
  - destruct (memN p G) eqn:M; simpl in H0; [|discriminate]. apply memN_spec in M.
    destruct (pkg_sig p f) as [[ps rs]|] eqn:S; [|discriminate].
    destruct (tc_exprs G E args) as [tas|] eqn:A; [|discriminate].
    destruct (args_ok tas ps) eqn:O; [|discriminate]. inv H0.
    eapply T_Pkg; [assumption | eassumption | apply H; reflexivity | apply args_ok_spec; assumption].
  - inv H. constructor.
  - destruct (tc_expr G E e) as [t|] eqn:A; [|discriminate].
    destruct (tc_exprs G E r) as [ts|] eqn:B; [|discriminate]. inv H1.
    constructor; [apply H | apply H0]; reflexivity.
Qed.

Ltac use_ih := repeat match goal with
  | IH : forall te, has_type _ _ ?e te -> _ = Some te, Hx : has_type _ _ ?e _ |- _ => rewrite (IH _ Hx); clear Hx
  | IH : forall tes, has_types _ _ ?e tes -> _ = Some tes, Hx : has_types _ _ ?e _ |- _ => rewrite (IH _ Hx); clear Hx
  end.

Lemma tc_expr_complete G E :
  (forall e te, has_type G E e te -> tc_expr G E e = Some te) /\
  (forall es tes, has_types G E es tes -> tc_exprs G E es = Some tes).
Proof.
  apply expr_exprs_ind; simpl; intros.
  - inv H. reflexivity.
  - inv H. reflexivity.
  - inv H. reflexivity.
  - inv H. reflexivity.
  - inv H. reflexivity.
  - inv H.
  - inv H; (destruct (N.eqb_spec x blank) as [B|B]; [contradiction|]);
      match goal with L : lookup _ _ = _ |- _ => rewrite L end; reflexivity.
  - inv H0. use_ih. apply tc_unary_complete. assumption.
  - inv H1. use_ih. apply tc_binary_complete. assumption.
  - inv H0. use_ih. apply tc_convert_complete. assumption.
  - inv H0. use_ih. match goal with L : lookup _ _ = _ |- _ => rewrite L end.
    match goal with A : Forall2 _ _ _ |- _ => apply args_ok_spec in A; rewrite A end. reflexivity.
  - inv H0. use_ih. match goal with M : In _ _ |- _ => apply memN_spec in M; rewrite M end. simpl.
    match goal with L : pkg_sig _ _ = _ |- _ => rewrite L end.
    match goal with A : Forall2 _ _ _ |- _ => apply args_ok_spec in A; rewrite A end. reflexivity.
  - inv H. reflexivity.
  - inv H1. use_ih. reflexivity.
Qed.

Theorem tc_expr_iff G E e te : tc_expr G E e = Some te <-> has_type G E e te.
Proof. split; [apply tc_expr_sound | apply tc_expr_complete]. Qed.

Theorem tc_exprs_iff G E es tes : tc_exprs G E es = Some tes <-> has_types G E es tes.
Proof. split; [apply tc_expr_sound | apply tc_expr_complete]. Qed.
