(* Equivalence of the executable checker of MiniGoM.v with the declarative
   typing rules of MiniGoSpec.v. *)
From Coq Require Import Lia.
From Verif Require Import MiniGoM MiniGoSpec.

(* ------------------------------------------------------------- small tools *)

Ltac inv H := inversion H; subst; clear H.

(* destruct the scrutinee of a match in hypothesis H *)
Ltac dmatch H :=
  match type of H with
  | context [match ?x with _ => _ end] => destruct x eqn:?; try discriminate H
  | context [if ?x then _ else _] => destruct x eqn:?; try discriminate H
  end.

Lemma basic_eqb_spec a b : basic_eqb a b = true <-> a = b.
Proof. split; [destruct a, b; simpl; congruence | intros ->; destruct b; reflexivity]. Qed.

Lemma ty_eqb_spec a b : ty_eqb a b = true <-> a = b.
Proof.
  split.
  - destruct a as [x|n x], b as [y|m y]; simpl; try discriminate.
    + intros H. apply basic_eqb_spec in H. congruence.
    + intros H. apply andb_prop in H. destruct H as [H1 H2].
      apply N.eqb_eq in H1. apply basic_eqb_spec in H2. congruence.
  - intros ->. destruct b as [y|m y]; simpl.
    + apply basic_eqb_spec; reflexivity.
    + rewrite N.eqb_refl. apply basic_eqb_spec; reflexivity.
Qed.

Lemma ty_eqb_refl t : ty_eqb t t = true.
Proof. apply ty_eqb_spec; reflexivity. Qed.

Lemma bclass_eqb_spec a b : bclass_eqb a b = true <-> a = b.
Proof. split; [destruct a, b; simpl; congruence | intros ->; destruct b; reflexivity]. Qed.

Lemma is_numeric_spec k : is_numeric k = true <-> Numeric k.
Proof. unfold Numeric. destruct k; simpl; split; intros H; try discriminate; auto; destruct H; discriminate. Qed.

Lemma is_numeric_false k : is_numeric k = false <-> ~ Numeric k.
Proof.
  split.
  - intros H N. apply is_numeric_spec in N. congruence.
  - intros H. destruct (is_numeric k) eqn:E; [|reflexivity]. apply is_numeric_spec in E. contradiction.
Qed.

Lemma memN_spec x l : memN x l = true <-> In x l.
Proof.
  unfold memN. rewrite existsb_exists. split.
  - intros [y [H1 H2]]. apply N.eqb_eq in H2. subst. assumption.
  - intros H. exists x. split; [assumption|apply N.eqb_refl].
Qed.

(* --------------------------------------------------------- representability *)

Lemma Qred_inject_Z z : Qred (inject_Z z) = inject_Z z.
Proof.
  unfold inject_Z, Qred.
  pose proof (Z.ggcd_gcd z 1) as Hg.
  pose proof (Z.ggcd_correct_divisors z 1) as Hd.
  destruct (Z.ggcd z 1) as [g [aa bb]]. simpl in *.
  rewrite Z.gcd_1_r in Hg. subst g.
  destruct Hd as [H1 H2].
  rewrite Z.mul_1_l in H1, H2. subst aa bb. reflexivity.
Qed.

Lemma qint_spec q z : qint q = Some z <-> Qeq q (inject_Z z).
Proof.
  unfold qint. split.
  - intros H. destruct (Pos.eqb_spec (Qden (Qred q)) 1) as [E|E]; [|discriminate].
    inv H. rewrite <- (Qred_correct q) at 1.
    destruct (Qred q) as [n d]. simpl in *. subst d. reflexivity.
  - intros H. apply Qred_complete in H. rewrite Qred_inject_Z in H. rewrite H. reflexivity.
Qed.

Lemma qint_qz z : qint (qz z) = Some z.
Proof. apply qint_spec. reflexivity. Qed.

Lemma const_fits_spec q b : const_fits q b = true <-> Representable q b.
Proof.
  unfold const_fits. split.
  - intros H. destruct (int_range b) as [[lo hi]|] eqn:R.
    + destruct (qint q) as [z|] eqn:Q; [|discriminate].
      apply andb_prop in H. destruct H as [H1 H2].
      apply Z.leb_le in H1. apply Z.leb_le in H2.
      apply qint_spec in Q. eapply Rep_int; eauto.
    + destruct b; try discriminate. unfold q_abs_le in H.
      apply andb_prop in H. destruct H as [H1 H2].
      apply Qle_bool_iff in H1. apply Qle_bool_iff in H2. apply Rep_float; assumption.
  - intros H. inv H.
    + rewrite H0. apply qint_spec in H1. rewrite H1.
      apply andb_true_intro. split; apply Z.leb_le; lia.
    + simpl. unfold q_abs_le. apply andb_true_intro. split; apply Qle_bool_iff; assumption.
Qed.

Lemma const_fits_false q b : const_fits q b = false <-> ~ Representable q b.
Proof.
  split.
  - intros H R. apply const_fits_spec in R. congruence.
  - intros H. destruct (const_fits q b) eqn:E; [|reflexivity]. apply const_fits_spec in E. contradiction.
Qed.

(* -------------------------------------------- implicit conversion, assignment *)

Lemma conv_untyped_spec k c t r :
  conv_untyped k c t = Some r <-> (ConvUntyped k c t /\ r = EVal (VT t) c).
Proof.
  unfold conv_untyped. split.
  - intros H.
    destruct k; simpl in H; destruct (class_of (under t)) eqn:C; try discriminate;
      try (inv H; split; [constructor; assumption|reflexivity]);
      destruct c as [[q|]|]; try discriminate;
      destruct (const_fits q (under t)) eqn:F; try discriminate; inv H;
      (split; [|reflexivity]); apply const_fits_spec in F;
      apply CU_num; unfold Numeric; simpl; auto; rewrite C; auto.
  - intros [H ->]. inv H.
    + simpl. rewrite H0. reflexivity.
    + simpl. rewrite H0. reflexivity.
    + apply const_fits_spec in H2. unfold Numeric in H0, H1.
      destruct H0 as [K|K], H1 as [C|C]; rewrite K, C, H2; reflexivity.
Qed.

Lemma conv_untyped_none k c t : conv_untyped k c t = None <-> ~ ConvUntyped k c t.
Proof.
  split.
  - intros H C. assert (conv_untyped k c t = Some (EVal (VT t) c)) by (apply conv_untyped_spec; auto). congruence.
  - intros H. destruct (conv_untyped k c t) eqn:E; [|reflexivity].
    apply conv_untyped_spec in E. destruct E. contradiction.
Qed.

Lemma assign_to_spec e t : assign_to e t = true <-> Assignable e t.
Proof.
  unfold assign_to. split.
  - intros H. destruct e as [[t'|k] c|ts]; try discriminate.
    + apply ty_eqb_spec in H. subst. constructor.
    + destruct (conv_untyped k c t) eqn:E; [|discriminate].
      apply conv_untyped_spec in E. destruct E. constructor. assumption.
  - intros H. inv H.
    + apply ty_eqb_refl.
    + assert (E: conv_untyped k c t = Some (EVal (VT t) c)) by (apply conv_untyped_spec; auto).
      rewrite E. reflexivity.
Qed.

Lemma default_of_spec e t : default_of e = Some t <-> DefaultOf e t.
Proof.
  unfold default_of. split.
  - intros H. destruct e as [[t'|k] c|ts]; try discriminate.
    + inv H. constructor.
    + destruct (conv_untyped k c (default_ty k)) eqn:E; [|discriminate]. inv H.
      apply conv_untyped_spec in E. destruct E. constructor. assumption.
  - intros H. inv H.
    + reflexivity.
    + assert (E: conv_untyped k c (default_ty k) = Some (EVal (VT (default_ty k)) c)) by (apply conv_untyped_spec; auto).
      rewrite E. reflexivity.
Qed.

(* ------------------------------------------------------------------ operands *)

Lemma match_types_spec a b v c1 c2 :
  match_types a b = Some (v, c1, c2) <-> Operands a b v c1 c2.
Proof.
  unfold match_types. split.
  - intros H. destruct a as [[t1|k1] ca|?], b as [[t2|k2] cb|?]; try discriminate.
    + destruct (ty_eqb t1 t2) eqn:E; [|discriminate]. apply ty_eqb_spec in E. subst. inv H. constructor.
    + destruct (conv_untyped k2 cb t1) eqn:E; [|discriminate]. inv H.
      apply conv_untyped_spec in E. destruct E. constructor. assumption.
    + destruct (conv_untyped k1 ca t2) eqn:E; [|discriminate]. inv H.
      apply conv_untyped_spec in E. destruct E. constructor. assumption.
    + destruct (is_numeric (kind_class k1) && is_numeric (kind_class k2)) eqn:E.
      * inv H. apply andb_prop in E. destruct E as [E1 E2].
        apply is_numeric_spec in E1. apply is_numeric_spec in E2.
        apply Op_untyped_numeric; assumption.
      * destruct (bclass_eqb (kind_class k1) (kind_class k2)) eqn:E'; [|discriminate]. inv H.
        apply bclass_eqb_spec in E'. apply Op_untyped_same; [|assumption].
        intros [N1 N2]. apply is_numeric_spec in N1. apply is_numeric_spec in N2.
        rewrite N1, N2 in E. discriminate.
  - intros H. inv H.
    + rewrite ty_eqb_refl. reflexivity.
    + assert (E: conv_untyped k c2 t = Some (EVal (VT t) c2)) by (apply conv_untyped_spec; auto).
      rewrite E. reflexivity.
    + assert (E: conv_untyped k c1 t = Some (EVal (VT t) c1)) by (apply conv_untyped_spec; auto).
      rewrite E. reflexivity.
    + apply is_numeric_spec in H0. apply is_numeric_spec in H1. rewrite H0, H1. reflexivity.
    + destruct (is_numeric (kind_class k1) && is_numeric (kind_class k2)) eqn:E.
      * exfalso. apply H0. apply andb_prop in E. destruct E. split; apply is_numeric_spec; assumption.
      * rewrite H1. assert (bclass_eqb (kind_class k2) (kind_class k2) = true) by (apply bclass_eqb_spec; reflexivity).
        rewrite H. reflexivity.
Qed.

Lemma op_defined_spec o k : op_defined o k = true <-> OpDefined o k.
Proof.
  split.
  - intros H. destruct o; simpl in H; try discriminate;
      try (apply is_numeric_spec in H; constructor; assumption);
      try (apply bclass_eqb_spec in H; subst; constructor).
    constructor. destruct k; try discriminate; congruence.
  - intros H. inv H; simpl; try reflexivity; try (apply is_numeric_spec; assumption).
    destruct k; congruence.
Qed.

Lemma div_zero_spec o k c1 c2 : div_zero_b o k c1 c2 = true <-> DivByZero o k c1 c2.
Proof.
  unfold div_zero_b, DivByZero. split.
  - intros H. apply andb_prop in H. destruct H as [H H3]. apply andb_prop in H. destruct H as [H1 H2].
    split; [destruct o; try discriminate; auto|]. split.
    + destruct c2 as [[q|]|]; try discriminate. exists q. split; [reflexivity|].
      simpl in H2. unfold q_is_zero in H2. apply Z.eqb_eq in H2. assumption.
    + apply orb_prop in H3. destruct H3 as [H3|H3].
      * left. destruct c1; [eauto|discriminate].
      * right. apply bclass_eqb_spec. assumption.
  - intros [H1 [[q [Hc H2]] H3]]. subst c2.
    apply andb_true_intro. split; [apply andb_true_intro; split|].
    + destruct H1; subst; reflexivity.
    + simpl. unfold q_is_zero. apply Z.eqb_eq. assumption.
    + apply orb_true_intro. destruct H3 as [[c Hc] | Hk]; subst; [left|right]; reflexivity.
Qed.

Lemma div_zero_false o k c1 c2 : div_zero_b o k c1 c2 = false <-> ~ DivByZero o k c1 c2.
Proof.
  split.
  - intros H D. apply div_zero_spec in D. congruence.
  - intros H. destruct (div_zero_b o k c1 c2) eqn:E; [|reflexivity]. apply div_zero_spec in E. contradiction.
Qed.

Lemma const_ok_spec v c : const_ok v c = true <-> ConstOK v c.
Proof.
  unfold const_ok. split.
  - intros H. destruct v as [t|k]; [|constructor]. destruct c as [q|]; [|constructor].
    constructor. apply const_fits_spec. assumption.
  - intros H. inv H; try reflexivity. apply const_fits_spec. assumption.
Qed.

Lemma mk_const_spec v c r : mk_const v c = Some r <-> (ConstOK v c /\ r = EVal v (Some c)).
Proof.
  unfold mk_const. split.
  - intros H. destruct (const_ok v c) eqn:E; [|discriminate]. inv H. split; [apply const_ok_spec; assumption|reflexivity].
  - intros [H ->]. apply const_ok_spec in H. rewrite H. reflexivity.
Qed.

(* -------------------------------------------------------------------- shifts *)

Lemma shift_count_spec vb cb : shift_count_ok vb cb = true <-> ShiftCount vb cb.
Proof.
  unfold shift_count_ok. split.
  - intros H. destruct vb as [t|k], cb as [[q|]|]; try discriminate.
    + apply andb_prop in H. destruct H as [H1 H2]. apply bclass_eqb_spec in H1.
      destruct (qint q) as [z|] eqn:Q; [|discriminate]. apply Z.leb_le in H2. apply qint_spec in Q.
      eapply SC_typed_const; eauto.
    + apply bclass_eqb_spec in H. constructor; assumption.
    + apply andb_prop in H. destruct H as [H1 H2]. apply is_numeric_spec in H1.
      apply const_fits_spec in H2. constructor; assumption.
  - intros H. inv H.
    + apply bclass_eqb_spec; assumption.
    + apply qint_spec in H1. rewrite H1. apply andb_true_intro; split;
        [apply bclass_eqb_spec; assumption | apply Z.leb_le; assumption].
    + apply andb_true_intro; split; [apply is_numeric_spec | apply const_fits_spec]; assumption.
Qed.

Lemma tc_shift_sound o a b r : tc_shift o a b = Some r -> Shift o a b r.
Proof.
  unfold tc_shift. intros H.
  destruct a as [va ca|?], b as [vb cb|?]; try discriminate.
  destruct (shift_count_ok vb cb) eqn:SC; simpl in H; [|discriminate].
  apply shift_count_spec in SC.
  destruct va as [t|k], ca as [[q|]|]; try discriminate.
  - (* typed constant *)
    destruct (bclass_eqb (class_of (under t)) KInt) eqn:L; [|discriminate].
    apply bclass_eqb_spec in L.
    destruct (qint q) as [x|] eqn:Qx; [|discriminate]. apply qint_spec in Qx.
    destruct cb as [[qs|]|].
    + destruct (qint qs) as [s|] eqn:Qs; [|discriminate]. apply qint_spec in Qs.
      destruct (Z.leb s max_shift) eqn:M; [|discriminate]. apply Z.leb_le in M.
      apply mk_const_spec in H. destruct H as [H1 ->].
      eapply Sh_const with (x := x) (s := s); eauto.
    + inv SC.
    + inv H. eapply Sh_typed_const_var; eauto.
  - (* typed variable *)
    destruct (bclass_eqb (class_of (under t)) KInt) eqn:L; [|discriminate].
    apply bclass_eqb_spec in L. inv H. apply Sh_var; assumption.
  - (* untyped constant *)
    destruct (is_numeric (kind_class k)) eqn:L; [|discriminate].
    apply is_numeric_spec in L.
    destruct (qint q) as [x|] eqn:Qx; [|discriminate]. apply qint_spec in Qx.
    destruct cb as [[qs|]|].
    + destruct (qint qs) as [s|] eqn:Qs; [|discriminate]. apply qint_spec in Qs.
      destruct (Z.leb s max_shift) eqn:M; [|discriminate]. apply Z.leb_le in M.
      apply mk_const_spec in H. destruct H as [H1 ->].
      eapply Sh_const with (x := x) (s := s); eauto.
    + inv SC.
    + destruct (const_fits q BInt) eqn:F; [|discriminate]. inv H.
      apply const_fits_spec in F. eapply Sh_untyped_const_var; eauto.
Qed.

Lemma tc_shift_complete o a b r : Shift o a b r -> tc_shift o a b = Some r.
Proof.
  intros H. inv H; unfold tc_shift.
  - apply shift_count_spec in H0. rewrite H0. simpl.
    apply bclass_eqb_spec in H1. rewrite H1. reflexivity.
  - apply shift_count_spec in H0. rewrite H0. simpl.
    apply qint_spec in H2. apply qint_spec in H3. apply Z.leb_le in H4.
    assert (M: mk_const (shift_result_vty va) (CNum (qz (shift_value o x s)))
               = Some (EVal (shift_result_vty va) (Some (CNum (qz (shift_value o x s))))))
      by (apply mk_const_spec; auto).
    destruct va as [t|k].
    + apply bclass_eqb_spec in H1. rewrite H1, H2, H3, H4. exact M.
    + apply is_numeric_spec in H1. rewrite H1, H2, H3, H4. exact M.
  - apply shift_count_spec in H0. rewrite H0. simpl.
    apply bclass_eqb_spec in H1. apply qint_spec in H2. rewrite H1, H2. reflexivity.
  - apply shift_count_spec in H0. rewrite H0. simpl.
    apply is_numeric_spec in H1. apply qint_spec in H2. apply const_fits_spec in H3.
    rewrite H1, H2, H3. reflexivity.
Qed.

Lemma tc_shift_spec o a b r : tc_shift o a b = Some r <-> Shift o a b r.
Proof. split; [apply tc_shift_sound | apply tc_shift_complete]. Qed.

(* ---------------------------------------------------------- binary operators *)

Lemma comparison_not_shift o : is_comparison o = true -> is_shift o = false.
Proof. destruct o; cbv; congruence. Qed.

Lemma tc_binary_sound o a b r : tc_binary o a b = Some r -> Binary o a b r.
Proof.
  unfold tc_binary. intros H.
  destruct (is_shift o) eqn:S.
  - apply B_shift; [assumption|apply tc_shift_sound; assumption].
  - destruct (match_types a b) as [[[v c1] c2]|] eqn:M; [|discriminate].
    apply match_types_spec in M.
    destruct (is_comparison o) eqn:C.
    + destruct (is_order o && bclass_eqb (vty_class v) KBool) eqn:OB; [discriminate|]. inv H.
      eapply B_compare; eauto. intros Ho Hk. rewrite Ho, Hk in OB. discriminate.
    + destruct (op_defined o (vty_class v)) eqn:D; simpl in H; [|discriminate].
      destruct (div_zero_b o (vty_class v) c1 c2) eqn:Z; [discriminate|].
      apply op_defined_spec in D. apply div_zero_false in Z.
      destruct c1 as [[q1|]|], c2 as [[q2|]|].
      * destruct (qbin o (vty_class v) q1 q2) as [q|] eqn:Qb; [|discriminate].
        apply mk_const_spec in H. destruct H as [H1 ->]. eapply B_const_num; eauto.
      * inv H. eapply B_const_other; eauto.
      * inv H. eapply B_value; eauto.
      * inv H. eapply B_const_other; eauto.
      * inv H. eapply B_const_other; eauto.
      * inv H. eapply B_value; eauto.
      * inv H. eapply B_value; eauto.
      * inv H. eapply B_value; eauto.
      * inv H. eapply B_value; eauto.
Qed.

Lemma tc_binary_complete o a b r : Binary o a b r -> tc_binary o a b = Some r.
Proof.
  intros H. inv H; unfold tc_binary.
  - rewrite H0. apply tc_shift_complete. assumption.
  - rewrite (comparison_not_shift _ H0). apply match_types_spec in H1. rewrite H1, H0.
    destruct (is_order o) eqn:Ho; simpl; [|reflexivity].
    destruct (bclass_eqb (vty_class v) KBool) eqn:K; [|reflexivity].
    apply bclass_eqb_spec in K. exfalso. apply H2; auto.
  - rewrite H0. apply match_types_spec in H2. rewrite H2, H1.
    apply op_defined_spec in H3. rewrite H3. simpl.
    apply div_zero_false in H4. rewrite H4.
    destruct c1 as [[?|]|], c2 as [[?|]|]; simpl in H5; try discriminate; reflexivity.
  - rewrite H0. apply match_types_spec in H2. rewrite H2, H1.
    apply op_defined_spec in H3. rewrite H3. simpl.
    apply div_zero_false in H4. rewrite H4, H5.
    apply mk_const_spec. auto.
  - rewrite H0. apply match_types_spec in H2. rewrite H2, H1.
    apply op_defined_spec in H3. rewrite H3. simpl.
    apply div_zero_false in H4. rewrite H4.
    destruct H5; subst; [|destruct c1]; reflexivity.
Qed.

Lemma tc_binary_spec o a b r : tc_binary o a b = Some r <-> Binary o a b r.
Proof. split; [apply tc_binary_sound | apply tc_binary_complete]. Qed.

(* ----------------------------------------------------------- unary operators *)

Lemma un_defined_spec o k : un_defined o k = true <-> UnDefined o k.
Proof.
  split.
  - intros H. destruct o; simpl in H.
    + apply is_numeric_spec in H. constructor; assumption.
    + apply is_numeric_spec in H. constructor; assumption.
    + apply bclass_eqb_spec in H. subst. constructor.
    + apply bclass_eqb_spec in H. subst. constructor.
  - intros H. inv H; simpl; try reflexivity; apply is_numeric_spec; assumption.
Qed.

Lemma tc_unary_sound o a r : tc_unary o a = Some r -> Unary o a r.
Proof.
  unfold tc_unary. intros H. destruct a as [v c|?]; [|discriminate].
  destruct (un_defined o (vty_class v)) eqn:D; simpl in H; [|discriminate].
  apply un_defined_spec in D.
  destruct c as [[q|]|].
  - destruct o.
    + inv H. constructor; assumption.
    + apply mk_const_spec in H. destruct H as [H1 ->]. constructor; assumption.
    + discriminate.
    + destruct (qint q) as [x|] eqn:Q; [|discriminate]. apply qint_spec in Q.
      apply mk_const_spec in H. destruct H as [H1 ->]. eapply Un_compl; eauto.
  - inv H. constructor; assumption.
  - inv H. constructor; assumption.
Qed.

Lemma tc_unary_complete o a r : Unary o a r -> tc_unary o a = Some r.
Proof.
  intros H. inv H; unfold tc_unary;
    match goal with D : UnDefined _ _ |- _ => apply un_defined_spec in D; rewrite D; simpl end;
    try reflexivity.
  - apply mk_const_spec. auto.
  - apply qint_spec in H1. rewrite H1. apply mk_const_spec. auto.
Qed.

Lemma tc_unary_spec o a r : tc_unary o a = Some r <-> Unary o a r.
Proof. split; [apply tc_unary_sound | apply tc_unary_complete]. Qed.

(* --------------------------------------------------------------- conversions *)

Lemma tc_convert_sound t a r : tc_convert t a = Some r -> Convert t a r.
Proof.
  unfold tc_convert. intros H. destruct a as [v [c|]|?]; [| |discriminate].
  - assert (H' : match vty_class v, class_of (under t), c with
                 | (KInt | KFloat), (KInt | KFloat), CNum q =>
                   if const_fits q (under t) then Some (EVal (VT t) (Some c)) else None
                 | KInt, KStr, CNum _ => Some (EVal (VT t) (Some COther))
                 | KStr, KStr, COther | KBool, KBool, COther => Some (EVal (VT t) (Some COther))
                 | _, _, _ => None
                 end = Some r) by (destruct v; exact H).
    clear H. rename H' into H.
    destruct c as [q|].
    + destruct (vty_class v) eqn:Kv; destruct (class_of (under t)) eqn:Kt; try discriminate;
        first [ inv H; apply Cv_const_int_string; assumption
              | destruct (const_fits q (under t)) eqn:F; [|discriminate]; inv H;
                apply const_fits_spec in F; apply Cv_const_num; unfold Numeric; auto; rewrite ?Kv, ?Kt; auto ].
    + destruct (vty_class v) eqn:Kv; destruct (class_of (under t)) eqn:Kt; try discriminate;
        (inv H; apply Cv_const_same; [rewrite Kv; auto | congruence]).
  - destruct v as [t'|k'].
    + destruct (basic_eqb (under t') (under t) || is_numeric (class_of (under t')) && is_numeric (class_of (under t))
                || bclass_eqb (class_of (under t')) KInt && bclass_eqb (class_of (under t)) KStr) eqn:E; [|discriminate].
      inv H. apply Cv_value.
      apply orb_prop in E. destruct E as [E|E]; [apply orb_prop in E; destruct E as [E|E]|].
      * left. apply basic_eqb_spec. assumption.
      * right. left. apply andb_prop in E. destruct E. split; apply is_numeric_spec; assumption.
      * right. right. apply andb_prop in E. destruct E. split; apply bclass_eqb_spec; assumption.
    + destruct (bclass_eqb (kind_class k') KBool && bclass_eqb (class_of (under t)) KBool) eqn:E; [|discriminate].
      inv H. apply andb_prop in E. destruct E. apply Cv_untyped_bool; apply bclass_eqb_spec; assumption.
Qed.

Lemma tc_convert_complete t a r : Convert t a r -> tc_convert t a = Some r.
Proof.
  intros H. inv H; unfold tc_convert.
  - apply const_fits_spec in H2. unfold Numeric in H0, H1.
    destruct v; simpl in *; destruct H0 as [K|K], H1 as [C|C]; rewrite K, C, H2; reflexivity.
  - destruct v; simpl in *; rewrite H0, H1; reflexivity.
  - destruct v; simpl in *; rewrite H1; destruct H0 as [K|K]; rewrite K; reflexivity.
  - destruct H0 as [E|[[N1 N2]|[K1 K2]]].
    + apply basic_eqb_spec in E. rewrite E. reflexivity.
    + apply is_numeric_spec in N1. apply is_numeric_spec in N2. rewrite N1, N2.
      rewrite orb_true_r. reflexivity.
    + rewrite K1, K2. simpl. rewrite !orb_true_r. reflexivity.
  - rewrite H0, H1. reflexivity.
Qed.

Lemma tc_convert_spec t a r : tc_convert t a = Some r <-> Convert t a r.
Proof. split; [apply tc_convert_sound | apply tc_convert_complete]. Qed.

(* --------------------------------------------------------------- expressions *)

Scheme expr_mut := Induction for expr Sort Prop
  with exprs_mut := Induction for exprs Sort Prop.
Combined Scheme expr_exprs_ind from expr_mut, exprs_mut.

Lemma args_ok_spec tas ps : args_ok tas ps = true <-> Forall2 Assignable tas ps.
Proof.
  revert ps. induction tas as [|a tas IH]; intros [|p ps]; simpl; split; intros H;
    try discriminate; try constructor; try (inv H; fail).
  - apply andb_prop in H. destruct H as [H1 H2]. apply assign_to_spec. assumption.
  - apply andb_prop in H. destruct H as [H1 H2]. apply IH. assumption.
  - inv H. apply andb_true_intro. split; [apply assign_to_spec; assumption | apply IH; assumption].
Qed.

Lemma tc_expr_sound G E :
  (forall e te, tc_expr G E e = Some te -> has_type G E e te) /\
  (forall es tes, tc_exprs G E es = Some tes -> has_types G E es tes).
Proof.
  apply expr_exprs_ind; simpl; intros.
  - inv H. constructor.
  - inv H. constructor.
  - inv H. constructor.
  - inv H. constructor.
  - inv H. constructor.
  - discriminate.
  - destruct (N.eqb_spec x blank) as [B|B]; [discriminate|].
    destruct (lookup E x) as [[t|c|ps rs]|] eqn:L; try discriminate.
    + inv H. apply T_Var; assumption.
    + inv H. apply T_Const; assumption.
  - destruct (tc_expr G E e) as [ta|] eqn:A; [|discriminate].
    eapply T_Un; [apply H; reflexivity | apply tc_unary_sound; assumption].
  - destruct (tc_expr G E a) as [ta|] eqn:A; [|discriminate].
    destruct (tc_expr G E b) as [tb|] eqn:B; [|discriminate].
    eapply T_Bin; [apply H; reflexivity | apply H0; reflexivity | apply tc_binary_sound; assumption].
  - destruct (tc_expr G E e) as [ta|] eqn:A; [|discriminate].
    eapply T_Conv; [apply H; reflexivity | apply tc_convert_sound; assumption].
  - destruct (lookup E f) as [[t|c|ps rs]|] eqn:L; try discriminate.
    destruct (tc_exprs G E args) as [tas|] eqn:A; [|discriminate].
    destruct (args_ok tas ps) eqn:O; [|discriminate]. inv H0.
    eapply T_Call; [eassumption | apply H; reflexivity | apply args_ok_spec; assumption].
  - destruct (memN p G) eqn:M; simpl in H0; [|discriminate]. apply memN_spec in M.
    destruct (pkg_sig p f) as [[ps rs]|] eqn:S; [|discriminate].
    destruct (tc_exprs G E args) as [tas|] eqn:A; [|discriminate].
    destruct (args_ok tas ps) eqn:O; [|discriminate]. inv H0.
    eapply T_Pkg; [assumption | eassumption | apply H; reflexivity | apply args_ok_spec; assumption].
  - inv H. constructor.
  - destruct (tc_expr G E e) as [t|] eqn:A; [|discriminate].
    destruct (tc_exprs G E r) as [ts|] eqn:B; [|discriminate]. inv H1.
    constructor; [apply H | apply H0]; reflexivity.
Qed.

Ltac use_ih := repeat match goal with
  | IH : forall te, has_type _ _ ?e te -> _ = Some te, Hx : has_type _ _ ?e _ |- _ => rewrite (IH _ Hx); clear Hx
  | IH : forall tes, has_types _ _ ?e tes -> _ = Some tes, Hx : has_types _ _ ?e _ |- _ => rewrite (IH _ Hx); clear Hx
  end.

Lemma tc_expr_complete G E :
  (forall e te, has_type G E e te -> tc_expr G E e = Some te) /\
  (forall es tes, has_types G E es tes -> tc_exprs G E es = Some tes).
Proof.
  apply expr_exprs_ind; simpl; intros.
  - inv H. reflexivity.
  - inv H. reflexivity.
  - inv H. reflexivity.
  - inv H. reflexivity.
  - inv H. reflexivity.
  - inv H.
  - inv H; (destruct (N.eqb_spec x blank) as [B|B]; [contradiction|]);
      match goal with L : lookup _ _ = _ |- _ => rewrite L end; reflexivity.
  - inv H0. use_ih. apply tc_unary_complete. assumption.
  - inv H1. use_ih. apply tc_binary_complete. assumption.
  - inv H0. use_ih. apply tc_convert_complete. assumption.
  - inv H0. use_ih. match goal with L : lookup _ _ = _ |- _ => rewrite L end.
    match goal with A : Forall2 _ _ _ |- _ => apply args_ok_spec in A; rewrite A end. reflexivity.
  - inv H0. use_ih. match goal with M : In _ _ |- _ => apply memN_spec in M; rewrite M end. simpl.
    match goal with L : pkg_sig _ _ = _ |- _ => rewrite L end.
    match goal with A : Forall2 _ _ _ |- _ => apply args_ok_spec in A; rewrite A end. reflexivity.
  - inv H. reflexivity.
  - inv H1. use_ih. reflexivity.
Qed.

Theorem tc_expr_iff G E e te : tc_expr G E e = Some te <-> has_type G E e te.
Proof. split; [apply tc_expr_sound | apply tc_expr_complete]. Qed.

Theorem tc_exprs_iff G E es tes : tc_exprs G E es = Some tes <-> has_types G E es tes.
Proof. split; [apply tc_expr_sound | apply tc_expr_complete]. Qed.

(* ---------------------------------------------------------------- statements *)

Scheme stmt_mut := Induction for stmt Sort Prop
  with block_mut := Induction for block Sort Prop
  with clauses_mut := Induction for clauses Sort Prop.
Combined Scheme stmt_block_clauses_ind from stmt_mut, block_mut, clauses_mut.

Lemma nodup_names_spec xs : nodup_names xs = true <-> NoDupNames xs.
Proof.
  induction xs as [|x r IH]; simpl; split; intros H.
  - constructor.
  - reflexivity.
  - apply andb_prop in H. destruct H as [H1 H2]. apply IH in H2.
    destruct (N.eqb_spec x blank) as [B|B].
    + subst. constructor. assumption.
    + simpl in H1. apply ND_cons; [assumption| |assumption].
      intros I. apply memN_spec in I. rewrite I in H1. discriminate.
  - inv H.
    + rewrite N.eqb_refl. simpl. apply IH. assumption.
    + apply andb_true_intro. split; [|apply IH; assumption].
      apply orb_true_intro. right. destruct (memN x r) eqn:M; [|reflexivity].
      apply memN_spec in M. contradiction.
Qed.

Lemma in_head_spec E x : in_head E x = true <-> InHead E x.
Proof.
  unfold in_head, InHead. destruct (scope_get (head_scope E) x) as [e|]; split; intros H; eauto; try discriminate.
  destruct H as [e H]. discriminate.
Qed.

Lemma in_head_false E x : in_head E x = false <-> ~ InHead E x.
Proof.
  split.
  - intros H I. apply in_head_spec in I. congruence.
  - intros H. destruct (in_head E x) eqn:I; [|reflexivity]. apply in_head_spec in I. contradiction.
Qed.

Lemma all_fresh_spec E xs :
  all_fresh E xs = true <-> (forall x, In x xs -> x <> blank -> ~ InHead E x).
Proof.
  unfold all_fresh. rewrite forallb_forall. split.
  - intros H x I B. specialize (H x I). apply orb_prop in H. destruct H as [H|H].
    + apply N.eqb_eq in H. contradiction.
    + apply in_head_false. destruct (in_head E x); [discriminate|reflexivity].
  - intros H x I. destruct (N.eqb_spec x blank) as [B|B]; [reflexivity|]. simpl.
    specialize (H x I B). apply in_head_false in H. rewrite H. reflexivity.
Qed.

Definition is_val (v : etype) : bool := match v with EVal _ _ => true | ETuple _ => false end.

Lemma forallb_is_val_map ts : forallb is_val (map (fun t => EVal (VT t) None) ts) = true.
Proof. induction ts; simpl; auto. Qed.

Lemma forallb_is_val_spec l : forallb is_val l = true <-> Forall (fun te => exists v c, te = EVal v c) l.
Proof.
  induction l as [|a l IH]; simpl; split; intros H; auto.
  - apply andb_prop in H. destruct H as [H1 H2]. constructor; [|apply IH; assumption].
    destruct a; [eauto|discriminate].
  - inv H. destruct H2 as [v [c ->]]. simpl. apply IH. assumption.
Qed.

Lemma tuple_or_values_spec tes n vs : tuple_or_values tes n = Some vs <-> Values tes n vs.
Proof.
  unfold tuple_or_values. fold is_val. split.
  - intros H.
    destruct (Nat.eqb (length (rhs_values tes)) n) eqn:L; [|discriminate]. apply Nat.eqb_eq in L.
    destruct (forallb is_val (rhs_values tes)) eqn:F; [|discriminate]. inv H.
    apply forallb_is_val_spec in F.
    destruct tes as [|[v c|ts] [|b r]]; try (apply V_each; exact F).
    simpl. rewrite map_length. apply V_call.
  - intros H. inv H.
    + simpl. rewrite map_length, Nat.eqb_refl, forallb_is_val_map. reflexivity.
    + assert (R: rhs_values vs = vs).
      { destruct vs as [|[v c|ts] [|b r]]; try reflexivity. inv H0. destruct H2 as [v [c H2]]. discriminate. }
      rewrite R, Nat.eqb_refl. apply forallb_is_val_spec in H0. rewrite H0. reflexivity.
Qed.

Lemma Values_length tes n vs : Values tes n vs -> length vs = n.
Proof. intros H. inv H; [apply map_length|reflexivity]. Qed.

Lemma all_assign_spec vs ts : all_assign vs ts = true <-> Forall2 Assignable vs ts.
Proof.
  revert ts. induction vs as [|v vs IH]; intros [|t ts]; simpl; split; intros H;
    try discriminate; try constructor; try (inv H; fail).
  - apply andb_prop in H. destruct H. apply assign_to_spec. assumption.
  - apply andb_prop in H. destruct H. apply IH. assumption.
  - inv H. apply andb_true_intro. split; [apply assign_to_spec; assumption | apply IH; assumption].
Qed.

Lemma Forall2_const_map {A B} (P : A -> ty -> Prop) (vs : list A) (xs : list B) t :
  length vs = length xs ->
  (Forall2 P vs (map (fun _ => t) xs) <-> Forall (fun v => P v t) vs).
Proof.
  revert xs. induction vs as [|v vs IH]; intros [|x xs] L; simpl in *; try discriminate; split; intros H;
    try constructor; try (inv H; assumption).
  - inv H. apply (IH xs); [congruence|assumption].
  - inv H. apply (IH xs); [congruence|assumption].
Qed.

Lemma defaults_of_spec vs ts : defaults_of vs = Some ts <-> Forall2 DefaultOf vs ts.
Proof.
  revert ts. induction vs as [|v vs IH]; intros ts; simpl; split; intros H.
  - inv H. constructor.
  - inv H. reflexivity.
  - destruct (default_of v) as [t|] eqn:D; [|discriminate].
    destruct (defaults_of vs) as [ts'|] eqn:Ds; [|discriminate]. inv H.
    constructor; [apply default_of_spec; assumption | apply IH; reflexivity].
  - inv H. apply default_of_spec in H2. rewrite H2.
    apply IH in H4. rewrite H4. reflexivity.
Qed.

Lemma assign_targets_spec E xs vs : assign_targets E xs vs = true <-> AssignTargets E xs vs.
Proof.
  revert vs. induction xs as [|x xs IH]; intros [|v vs]; simpl; split; intros H;
    try discriminate; try constructor; try (inv H; fail).
  - apply andb_prop in H. destruct H as [H1 H2]. apply IH in H2.
    destruct (N.eqb_spec x blank) as [B|B].
    + subst. destruct (default_of v) as [t|] eqn:D; [|discriminate].
      apply default_of_spec in D. eapply AT_blank; eauto.
    + destruct (lookup E x) as [[t|?|? ?]|] eqn:L; try discriminate.
      apply assign_to_spec in H1. eapply AT_var; eauto.
  - inv H.
    + rewrite N.eqb_refl.
      match goal with D : DefaultOf _ _ |- _ => apply default_of_spec in D; rewrite D end.
      simpl. apply IH. assumption.
    + destruct (N.eqb_spec x blank) as [B|B]; [contradiction|].
      match goal with L : lookup _ _ = _ |- _ => rewrite L end.
      match goal with A : Assignable _ _ |- _ => apply assign_to_spec in A; rewrite A end.
      simpl. apply IH. assumption.
Qed.

Lemma short_targets_spec E xs vs news : short_targets E xs vs = Some news <-> ShortTargets E xs vs news.
Proof.
  revert vs news. induction xs as [|x xs IH]; intros [|v vs] news; simpl; split; intros H;
    try discriminate; try (inv H; fail).
  - inv H. constructor.
  - inv H. reflexivity.
  - destruct (short_targets E xs vs) as [n0|] eqn:S; [|discriminate].
    assert (S' : ShortTargets E xs vs n0) by (apply IH; assumption).
    destruct (N.eqb_spec x blank) as [B|B].
    + subst. destruct (default_of v) as [t|] eqn:D; [|discriminate]. inv H.
      apply default_of_spec in D. eapply ST_blank; eauto.
    + destruct (scope_get (head_scope E) x) as [[t|?|? ?]|] eqn:L; try discriminate.
      * destruct (assign_to v t) eqn:A; [|discriminate]. inv H.
        apply assign_to_spec in A. eapply ST_old; eauto.
      * destruct (default_of v) as [t|] eqn:D; [|discriminate]. inv H.
        apply default_of_spec in D. eapply ST_new; eauto.
  - inv H;
      match goal with S : ShortTargets _ _ _ _ |- _ => apply IH in S; rewrite S end.
    + rewrite N.eqb_refl.
      match goal with D : DefaultOf _ _ |- _ => apply default_of_spec in D; rewrite D end. reflexivity.
    + destruct (N.eqb_spec x blank) as [B|B]; [contradiction|].
      match goal with L : scope_get _ _ = _ |- _ => rewrite L end.
      match goal with A : Assignable _ _ |- _ => apply assign_to_spec in A; rewrite A end. reflexivity.
    + destruct (N.eqb_spec x blank) as [B|B]; [contradiction|].
      match goal with L : scope_get _ _ = _ |- _ => rewrite L end.
      match goal with D : DefaultOf _ _ |- _ => apply default_of_spec in D; rewrite D end. reflexivity.
Qed.

Lemma is_bool_cond_spec e : is_bool_cond e = true <-> BoolCond e.
Proof.
  unfold is_bool_cond, BoolCond. destruct e as [v c|ts]; split; intros H.
  - apply bclass_eqb_spec in H. eauto.
  - destruct H as [v' [c' [E K]]]. inv E. apply bclass_eqb_spec. assumption.
  - discriminate.
  - destruct H as [v' [c' [E K]]]. discriminate.
Qed.

Lemma cases_ok_spec tagv tes :
  cases_ok tagv tes = true <-> Forall (fun te => exists res, Binary OEq tagv te res) tes.
Proof.
  induction tes as [|te r IH]; simpl; split; intros H; auto.
  - apply andb_prop in H. destruct H as [H1 H2]. constructor; [|apply IH; assumption].
    destruct (tc_binary OEq tagv te) as [res|] eqn:B; [|discriminate].
    exists res. apply tc_binary_sound. assumption.
  - inv H. destruct H2 as [res B]. apply tc_binary_complete in B. rewrite B. simpl. apply IH. assumption.
Qed.

Lemma decls_used_spec E s r :
  forallb (fun x => memN x (fu_block (decl_stmt (scope_names (head_scope E)) s ++ scope_names (head_scope E)) r))
          (var_decls (scope_names (head_scope E)) s) = true <-> DeclsUsed E s r.
Proof.
  unfold DeclsUsed. rewrite forallb_forall. split; intros H x I; apply memN_spec; apply H; assumption.
Qed.

Lemma some_new_spec E xs :
  forallb (fun x => N.eqb x blank || in_head E x) xs = false <->
  (exists x, In x xs /\ x <> blank /\ ~ InHead E x).
Proof.
  induction xs as [|x r IH]; simpl; split; intros H.
  - discriminate.
  - destruct H as [x [[] _]].
  - apply andb_false_iff in H. destruct H as [H|H].
    + apply orb_false_elim in H. destruct H as [H1 H2]. exists x. split; [auto|].
      split; [apply N.eqb_neq; assumption | apply in_head_false; assumption].
    + apply IH in H. destruct H as [y [I R]]. exists y. split; [right; assumption|assumption].
  - destruct H as [y [[->|I] [B F]]].
    + apply andb_false_iff. left. apply N.eqb_neq in B. apply in_head_false in F. rewrite B, F. reflexivity.
    + apply andb_false_iff. right. apply IH. exists y. auto.
Qed.

Ltac sinv H := match type of H with Some ?a = Some ?b => let Q := fresh in assert (Q : a = b) by congruence; clear H; subst end.

Lemma tc_stmt_sound G :
  (forall s cx E E', tc_stmt G cx E s = Some E' -> stmt_ok G cx E s E') /\
  (forall b cx E, tc_block G cx E b = true -> block_ok G cx E b) /\
  (forall cs cx E tagv, tc_clauses G cx E tagv cs = true -> clauses_ok G cx E tagv cs).
Proof.
  apply stmt_block_clauses_ind.
  - (* SVar *)
    intros xs t es cx E E' H. cbn [tc_stmt] in H.
    destruct (nodup_names xs && all_fresh E xs) eqn:NF; cbn [negb] in H; [|discriminate].
    apply andb_prop in NF. destruct NF as [ND AF].
    apply nodup_names_spec in ND. pose proof (proj1 (all_fresh_spec E xs) AF) as FR.
    destruct xs as [|x xs']; [discriminate|].
    assert (NE : x :: xs' <> []) by discriminate.
    destruct es as [|e r].
    + destruct t as [t|]; [|discriminate]. sinv H. apply S_VarZero; assumption.
    + assert (NN : ECons e r <> ENone) by discriminate.
      assert (H' : match tc_exprs G E (ECons e r) with
                   | Some tes =>
                     match tuple_or_values tes (length (x :: xs')) with
                     | Some vs =>
                       match t with
                       | Some t0 => if all_assign vs (map (fun _ => t0) (x :: xs'))
                                    then Some (declare_vars E (x :: xs') (map (fun _ => t0) (x :: xs'))) else None
                       | None => match defaults_of vs with
                                 | Some ts => Some (declare_vars E (x :: xs') ts)
                                 | None => None
                                 end
                       end
                     | None => None
                     end
                   | None => None
                   end = Some E') by (destruct t; exact H).
      clear H. rename H' into H.
      destruct (tc_exprs G E (ECons e r)) as [tes|] eqn:TE; [|discriminate].
      apply tc_exprs_iff in TE.
      destruct (tuple_or_values tes (length (x :: xs'))) as [vs|] eqn:TV; [|discriminate].
      apply tuple_or_values_spec in TV.
      destruct t as [t|].
      * destruct (all_assign vs (map (fun _ => t) (x :: xs'))) eqn:AA; [|discriminate]. sinv H.
        apply all_assign_spec in AA. apply Forall2_const_map in AA; [|eapply Values_length; eassumption].
        eapply S_VarTyped; eassumption.
      * destruct (defaults_of vs) as [ts|] eqn:DF; [|discriminate]. sinv H.
        apply defaults_of_spec in DF. eapply S_VarInfer; eassumption.
  - (* SConst *)
    intros x t e cx E E' H. cbn [tc_stmt] in H.
    destruct (negb (N.eqb x blank) && in_head E x) eqn:F; [discriminate|].
    assert (FR : x <> blank -> ~ InHead E x).
    { intros B. apply in_head_false. destruct (N.eqb_spec x blank); [contradiction|]. exact F. }
    destruct (tc_expr G E e) as [[v [c|]|?]|] eqn:TE; try discriminate. apply tc_expr_iff in TE.
    destruct t as [t|].
    + destruct v as [t'|k].
      * destruct (ty_eqb t' t) eqn:Q; [|discriminate]. apply ty_eqb_spec in Q. subst. sinv H.
        apply S_ConstTyped; assumption.
      * destruct (conv_untyped k (Some c) t) as [r|] eqn:CU; [|discriminate].
        apply conv_untyped_spec in CU. destruct CU as [CU ->]. sinv H. eapply S_ConstConv; eauto.
    + sinv H. apply S_ConstInfer; assumption.
  - (* SShort *)
    intros xs es cx E E' H. cbn [tc_stmt] in H.
    destruct (nodup_names xs) eqn:ND; cbn [negb] in H; [|discriminate]. apply nodup_names_spec in ND.
    destruct (forallb (fun x => N.eqb x blank || in_head E x) xs) eqn:NN; [discriminate|].
    apply some_new_spec in NN.
    destruct (tc_exprs G E es) as [tes|] eqn:TE; [|discriminate]. apply tc_exprs_iff in TE.
    destruct (tuple_or_values tes (length xs)) as [vs|] eqn:TV; [|discriminate]. apply tuple_or_values_spec in TV.
    destruct (short_targets E xs vs) as [news|] eqn:ST; [|discriminate]. apply short_targets_spec in ST.
    sinv H. eapply S_Short; eassumption.
  - (* SAssign *)
    intros xs es cx E E' H. cbn [tc_stmt] in H.
    destruct xs as [|x xs']; [discriminate|].
    destruct (tc_exprs G E es) as [tes|] eqn:TE; [|discriminate]. apply tc_exprs_iff in TE.
    destruct (tuple_or_values tes (length (x :: xs'))) as [vs|] eqn:TV; [|discriminate]. apply tuple_or_values_spec in TV.
    destruct (assign_targets E (x :: xs') vs) eqn:AT; [|discriminate]. apply assign_targets_spec in AT.
    sinv H. eapply S_Assign; try eassumption. discriminate.
  - (* SOpAssign *)
    intros x o e cx E E' H. cbn [tc_stmt] in H.
    destruct (negb (is_arith o) || N.eqb x blank) eqn:F; [discriminate|].
    apply orb_false_elim in F. destruct F as [F1 F2]. apply N.eqb_neq in F2.
    unfold is_arith in F1.
    destruct (is_comparison o) eqn:C; [discriminate|]. destruct (is_logical o) eqn:L; [discriminate|].
    destruct (lookup E x) as [[t|?|? ?]|] eqn:LK; try discriminate.
    destruct (tc_expr G E e) as [te|] eqn:TE; [|discriminate]. apply tc_expr_iff in TE.
    destruct (tc_binary o (EVal (VT t) None) te) as [[[t'|?] c'|?]|] eqn:B; try discriminate.
    destruct (ty_eqb t' t) eqn:Q; [|discriminate]. apply ty_eqb_spec in Q. subst.
    apply tc_binary_sound in B. sinv H. eapply S_OpAssign; eassumption.
  - (* SIncDec *)
    intros x cx E E' H. cbn [tc_stmt] in H.
    destruct (N.eqb_spec x blank) as [B|B]; [discriminate|].
    destruct (lookup E x) as [[t|?|? ?]|] eqn:LK; try discriminate.
    destruct (is_numeric (class_of (under t))) eqn:N; [|discriminate]. apply is_numeric_spec in N.
    sinv H. eapply S_IncDec; eassumption.
  - (* SExpr *)
    intros e cx E E' H. cbn [tc_stmt] in H.
    destruct (is_call e) eqn:C; [|discriminate].
    destruct (tc_expr G E e) as [te|] eqn:TE; [|discriminate]. apply tc_expr_iff in TE.
    sinv H. eapply S_Expr; eassumption.
  - (* SIf *)
    intros c th IHth el IHel cx E E' H. cbn [tc_stmt] in H.
    destruct (tc_expr G E c) as [tcnd|] eqn:TE; [|discriminate]. apply tc_expr_iff in TE.
    destruct (is_bool_cond tcnd && tc_block G cx ([] :: E) th && tc_block G cx ([] :: E) el) eqn:F; [|discriminate].
    apply andb_prop in F. destruct F as [F F3]. apply andb_prop in F. destruct F as [F1 F2].
    apply is_bool_cond_spec in F1. sinv H. eapply S_If; eauto.
  - (* SFor *)
    intros c b IHb cx E E' H. cbn [tc_stmt] in H.
    destruct (tc_expr G E c) as [tcnd|] eqn:TE; [|discriminate]. apply tc_expr_iff in TE.
    destruct (is_bool_cond tcnd && tc_block G (in_loop cx) ([] :: E) b) eqn:F; [|discriminate].
    apply andb_prop in F. destruct F as [F1 F2].
    apply is_bool_cond_spec in F1. sinv H. eapply S_For; eauto.
  - (* SLoop *)
    intros b IHb cx E E' H. cbn [tc_stmt] in H.
    destruct (tc_block G (in_loop cx) ([] :: E) b) eqn:F; [|discriminate].
    sinv H. apply S_Loop; auto.
  - (* SSwitch *)
    intros tag cs IHcs d IHd cx E E' H. cbn [tc_stmt] in H.
    destruct (tc_expr G E tag) as [ttag|] eqn:TE; [|discriminate]. apply tc_expr_iff in TE.
    destruct (default_of ttag) as [t|] eqn:D; [|discriminate]. apply default_of_spec in D.
    destruct (tc_clauses G (in_switch cx) E (EVal (VT t) None) cs && tc_block G (in_switch cx) ([] :: E) d) eqn:F; [|discriminate].
    apply andb_prop in F. destruct F as [F1 F2].
    sinv H. eapply S_Switch; eauto.
  - (* SReturn *)
    intros es cx E E' H. cbn [tc_stmt] in H.
    destruct (tc_exprs G E es) as [tes|] eqn:TE; [|discriminate]. apply tc_exprs_iff in TE.
    destruct (tuple_or_values tes (length (cx_results cx))) as [vs|] eqn:TV; [|discriminate]. apply tuple_or_values_spec in TV.
    destruct (all_assign vs (cx_results cx)) eqn:AA; [|discriminate]. apply all_assign_spec in AA.
    sinv H. eapply S_Return; eassumption.
  - (* SBreak *)
    intros cx E E' H. cbn [tc_stmt] in H. destruct (cx_brk cx) eqn:B; [|discriminate]. sinv H. apply S_Break; assumption.
  - (* SContinue *)
    intros cx E E' H. cbn [tc_stmt] in H. destruct (cx_loop cx) eqn:B; [|discriminate]. sinv H. apply S_Continue; assumption.
  - (* SBlock *)
    intros b IHb cx E E' H. cbn [tc_stmt] in H.
    destruct (tc_block G cx ([] :: E) b) eqn:F; [|discriminate]. sinv H. apply S_Block; auto.
  - (* BNil *)
    intros. constructor.
  - (* BCons *)
    intros s IHs r IHr cx E H. cbn [tc_block] in H.
    destruct (tc_stmt G cx E s) as [E'|] eqn:TS; [|discriminate].
    apply andb_prop in H. destruct H as [H1 H2]. apply decls_used_spec in H1.
    eapply Bk_cons; eauto.
  - (* CNil *)
    intros. constructor.
  - (* CCons *)
    intros es b IHb r IHr cx E tagv H. cbn [tc_clauses] in H.
    destruct (tc_exprs G E es) as [tes|] eqn:TE; [|discriminate]. apply tc_exprs_iff in TE.
    apply andb_prop in H. destruct H as [H H3]. apply andb_prop in H. destruct H as [H1 H2].
    apply cases_ok_spec in H1. eapply Cl_cons; eauto.
Qed.

Lemma is_arith_true o : is_comparison o = false -> is_logical o = false -> is_arith o = true.
Proof. unfold is_arith. intros -> ->. reflexivity. Qed.

Ltac rw_nodup := match goal with ND : NoDupNames _ |- _ => apply nodup_names_spec in ND; rewrite ND; clear ND end.
Ltac rw_fresh := match goal with FR : forall x, In x _ -> x <> blank -> ~ InHead _ x |- _ =>
                                 apply all_fresh_spec in FR; rewrite FR; clear FR end.
Ltac rw_exprs := match goal with T : has_types _ _ _ _ |- _ => apply tc_exprs_iff in T; rewrite T; clear T end.
Ltac rw_expr := match goal with T : has_type _ _ _ _ |- _ => apply tc_expr_iff in T; rewrite T; clear T end.
Ltac rw_values := match goal with V : Values _ _ _ |- _ => apply tuple_or_values_spec in V; rewrite V; clear V end.
Ltac rw_lookup := match goal with L : lookup _ _ = _ |- _ => rewrite L; clear L end.
Ltac rw_notblank := match goal with B : ?x <> blank |- _ =>
                      let Q := fresh in assert (Q : N.eqb x blank = false) by (apply N.eqb_neq; exact B); rewrite Q; clear Q end.

Lemma tc_stmt_complete G :
  (forall s cx E E', stmt_ok G cx E s E' -> tc_stmt G cx E s = Some E') /\
  (forall b cx E, block_ok G cx E b -> tc_block G cx E b = true) /\
  (forall cs cx E tagv, clauses_ok G cx E tagv cs -> tc_clauses G cx E tagv cs = true).
Proof.
  apply stmt_block_clauses_ind.
  - (* SVar *)
    intros xs t es cx E E' H.
    inv H; (destruct xs as [|x xs']; [contradiction|]).
    + cbn [tc_stmt]. rw_nodup. rw_fresh. reflexivity.
    + destruct es as [|e r]; [contradiction|].
      cbn [tc_stmt]. rw_nodup. rw_fresh. cbn [andb negb]. rw_exprs.
      match goal with V : Values _ _ _ |- _ => pose proof (Values_length _ _ _ V) as LEN end.
      rw_values.
      match goal with A : Forall _ vs |- _ =>
        apply (Forall2_const_map Assignable vs (x :: xs') t0 LEN) in A; apply all_assign_spec in A; rewrite A end.
      reflexivity.
    + destruct es as [|e r]; [contradiction|].
      cbn [tc_stmt]. rw_nodup. rw_fresh. cbn [andb negb]. rw_exprs. rw_values.
      match goal with D : Forall2 DefaultOf _ _ |- _ => apply defaults_of_spec in D; rewrite D end.
      reflexivity.
  - (* SConst *)
    intros x t e cx E E' H. cbn [tc_stmt].
    assert (FR : forall P : Prop, (x <> blank -> ~ InHead E x) -> negb (N.eqb x blank) && in_head E x = false).
    { intros _ F. destruct (N.eqb_spec x blank) as [B|B]; [reflexivity|]. apply in_head_false. auto. }
    inv H; (rewrite (FR True); [|assumption]); rw_expr.
    + reflexivity.
    + rewrite ty_eqb_refl. reflexivity.
    + match goal with C : ConvUntyped _ _ _ |- _ =>
        assert (CU : conv_untyped k (Some c) t0 = Some (EVal (VT t0) (Some c))) by (apply conv_untyped_spec; auto) end.
      rewrite CU. reflexivity.
  - (* SShort *)
    intros xs es cx E E' H. cbn [tc_stmt]. inv H. rw_nodup. cbn [negb].
    match goal with N : exists x, _ |- _ => apply some_new_spec in N; rewrite N end.
    rw_exprs. rw_values.
    match goal with S : ShortTargets _ _ _ _ |- _ => apply short_targets_spec in S; rewrite S end.
    reflexivity.
  - (* SAssign *)
    intros xs es cx E E' H. inv H. destruct xs as [|x xs']; [contradiction|]. cbn [tc_stmt].
    rw_exprs. rw_values.
    match goal with A : AssignTargets _ _ _ |- _ => apply assign_targets_spec in A; rewrite A end.
    reflexivity.
  - (* SOpAssign *)
    intros x o e cx E E' H. cbn [tc_stmt]. inv H.
    rewrite is_arith_true by assumption. rw_notblank. cbn [negb orb]. rw_lookup. rw_expr.
    match goal with B : Binary _ _ _ _ |- _ => apply tc_binary_complete in B; rewrite B end.
    rewrite ty_eqb_refl. reflexivity.
  - (* SIncDec *)
    intros x cx E E' H. cbn [tc_stmt]. inv H. rw_notblank. rw_lookup.
    match goal with N : Numeric _ |- _ => apply is_numeric_spec in N; rewrite N end. reflexivity.
  - (* SExpr *)
    intros e cx E E' H. cbn [tc_stmt]. inv H.
    match goal with C : is_call _ = true |- _ => rewrite C end. rw_expr. reflexivity.
  - (* SIf *)
    intros c th IHth el IHel cx E E' H. cbn [tc_stmt]. inv H. rw_expr.
    match goal with B : BoolCond _ |- _ => apply is_bool_cond_spec in B; rewrite B end.
    rewrite IHth by assumption. rewrite IHel by assumption. reflexivity.
  - (* SFor *)
    intros c b IHb cx E E' H. cbn [tc_stmt]. inv H. rw_expr.
    match goal with B : BoolCond _ |- _ => apply is_bool_cond_spec in B; rewrite B end.
    rewrite IHb by assumption. reflexivity.
  - (* SLoop *)
    intros b IHb cx E E' H. cbn [tc_stmt]. inv H. rewrite IHb by assumption. reflexivity.
  - (* SSwitch *)
    intros tag cs IHcs d IHd cx E E' H. cbn [tc_stmt]. inv H. rw_expr.
    match goal with D : DefaultOf _ _ |- _ => apply default_of_spec in D; rewrite D end.
    rewrite IHcs by assumption. rewrite IHd by assumption. reflexivity.
  - (* SReturn *)
    intros es cx E E' H. cbn [tc_stmt]. inv H. rw_exprs. rw_values.
    match goal with A : Forall2 Assignable _ _ |- _ => apply all_assign_spec in A; rewrite A end.
    reflexivity.
  - (* SBreak *)
    intros cx E E' H. cbn [tc_stmt]. inv H. match goal with B : cx_brk _ = true |- _ => rewrite B end. reflexivity.
  - (* SContinue *)
    intros cx E E' H. cbn [tc_stmt]. inv H. match goal with B : cx_loop _ = true |- _ => rewrite B end. reflexivity.
  - (* SBlock *)
    intros b IHb cx E E' H. cbn [tc_stmt]. inv H. rewrite IHb by assumption. reflexivity.
  - (* BNil *)
    intros. reflexivity.
  - (* BCons *)
    intros s IHs r IHr cx E H. cbn [tc_block]. inv H.
    match goal with S : stmt_ok _ _ _ _ _ |- _ => rewrite (IHs _ _ _ S) end.
    match goal with D : DeclsUsed _ _ _ |- _ => apply decls_used_spec in D; rewrite D end.
    apply IHr. assumption.
  - (* CNil *)
    intros. reflexivity.
  - (* CCons *)
    intros es b IHb r IHr cx E tagv H. cbn [tc_clauses]. inv H. rw_exprs.
    match goal with C : Forall _ tes |- _ => apply cases_ok_spec in C; rewrite C end.
    rewrite IHb by assumption. rewrite IHr by assumption. reflexivity.
Qed.

Theorem tc_stmt_iff G cx E s E' : tc_stmt G cx E s = Some E' <-> stmt_ok G cx E s E'.
Proof. split; [apply tc_stmt_sound | apply tc_stmt_complete]. Qed.

Theorem tc_block_iff G cx E b : tc_block G cx E b = true <-> block_ok G cx E b.
Proof. split; [apply tc_stmt_sound | apply tc_stmt_complete]. Qed.

(* ----------------------------------------------------- terminating statements *)

Lemma hb_spec :
  (forall s, hb_stmt s = true <-> BreakInStmt s) /\
  (forall b, hb_block b = true <-> BreakIn b) /\
  (forall cs : clauses, True).
Proof.
  apply stmt_block_clauses_ind; intros; auto; cbn [hb_stmt hb_block];
    try (split; intros X; [discriminate | inv X]; fail).
  - (* SIf *) split; intros X.
    + apply orb_prop in X. destruct X as [X|X]; [apply Br_then; apply H | apply Br_else; apply H0]; assumption.
    + inv X; apply orb_true_intro; [left; apply H | right; apply H0]; assumption.
  - (* SBreak *) split; intros; [constructor | reflexivity].
  - (* SBlock *) split; intros X; [apply Br_block; apply H; assumption | inv X; apply H; assumption].
  - (* BCons *) split; intros X.
    + apply orb_prop in X. destruct X as [X|X]; [apply Bi_here; apply H | apply Bi_later; apply H0]; assumption.
    + inv X; apply orb_true_intro; [left; apply H | right; apply H0]; assumption.
Qed.

Lemma hb_block_false b : hb_block b = false <-> ~ BreakIn b.
Proof.
  destruct hb_spec as [_ [H _]]. split.
  - intros E B. apply H in B. congruence.
  - intros N. destruct (hb_block b) eqn:E; [|reflexivity]. apply H in E. contradiction.
Qed.

Lemma term_spec :
  (forall s, term_stmt s = true <-> Terminating s) /\
  (forall b, term_block b = true <-> TerminatingList b) /\
  (forall cs, term_clauses cs = true <-> TerminatingClauses cs).
Proof.
  apply stmt_block_clauses_ind; intros; cbn [term_stmt term_block term_clauses];
    try (split; intros X; [discriminate | inv X]; fail).
  - (* SIf *) split; intros X.
    + apply andb_prop in X. destruct X. apply Tm_if; [apply H | apply H0]; assumption.
    + inv X. apply andb_true_intro. split; [apply H | apply H0]; assumption.
  - (* SLoop *) split; intros X.
    + apply Tm_loop. apply hb_block_false. destruct (hb_block body); [discriminate|reflexivity].
    + inv X. apply hb_block_false in H1. rewrite H1. reflexivity.
  - (* SSwitch *) split; intros X.
    + apply andb_prop in X. destruct X as [X X3]. apply andb_prop in X. destruct X as [X1 X2].
      apply Tm_switch; [apply H0; assumption | apply hb_block_false; destruct (hb_block d); [discriminate|reflexivity] | apply H; assumption].
    + inv X. apply andb_true_intro. split; [apply andb_true_intro; split|].
      * apply H0. assumption.
      * apply hb_block_false in H5. rewrite H5. reflexivity.
      * apply H. assumption.
  - (* SReturn *) split; intros; [constructor | reflexivity].
  - (* SBlock *) split; intros X; [apply Tm_block; apply H; assumption | inv X; apply H; assumption].
  - (* BCons *) destruct r as [|s' r'].
    + split; intros X; [apply Tl_last; apply H; assumption | inv X; apply H; assumption].
    + split; intros X; [apply Tl_cons; apply H0; assumption | inv X; apply H0; assumption].
  - (* CNil *) split; intros; [constructor | reflexivity].
  - (* CCons *) split; intros X.
    + apply andb_prop in X. destruct X as [X X3]. apply andb_prop in X. destruct X as [X1 X2].
      apply Tc_cons; [apply H; assumption | apply hb_block_false; destruct (hb_block b); [discriminate|reflexivity] | apply H0; assumption].
    + inv X. apply andb_true_intro. split; [apply andb_true_intro; split|].
      * apply H. assumption.
      * apply hb_block_false in H5. rewrite H5. reflexivity.
      * apply H0. assumption.
Qed.

Lemma term_block_iff b : term_block b = true <-> TerminatingList b.
Proof. apply term_spec. Qed.

(* ------------------------------------------------------------------ programs *)

Lemma tc_globals_iff G gs : forall E E', tc_globals G E gs = Some E' <-> globals_ok G E gs E'.
Proof.
  induction gs as [|g r IH]; intros E E'; cbn [tc_globals]; split; intros H.
  - inv H. constructor.
  - inv H. reflexivity.
  - destruct g as [x t e|x t e]; destruct (N.eqb_spec x blank) as [B|B]; try discriminate.
    + destruct (tc_stmt G {| cx_results := []; cx_loop := false; cx_brk := false |} E (SConst x t e)) as [E1|] eqn:S; [|discriminate].
      apply tc_stmt_iff in S. apply IH in H. eapply GO_const; eauto.
    + destruct (tc_stmt G {| cx_results := []; cx_loop := false; cx_brk := false |} E (SVar [x] t (ECons e ENone))) as [E1|] eqn:S; [|discriminate].
      apply tc_stmt_iff in S. apply IH in H. eapply GO_var; eauto.
  - inv H; (destruct (N.eqb_spec x blank) as [B|B]; [contradiction|]).
    + match goal with S : stmt_ok _ _ _ _ _ |- _ => apply tc_stmt_iff in S; unfold top_ctx in S; rewrite S end.
      apply IH. assumption.
    + match goal with S : stmt_ok _ _ _ _ _ |- _ => apply tc_stmt_iff in S; unfold top_ctx in S; rewrite S end.
      apply IH. assumption.
Qed.

Lemma declare_funcs_iff fs : forall E E', declare_funcs E fs = Some E' <-> funcs_declared E fs E'.
Proof.
  induction fs as [|f r IH]; intros E E'; simpl; split; intros H.
  - inv H. constructor.
  - inv H. reflexivity.
  - destruct (N.eqb (fn_name f) blank || in_head E (fn_name f)) eqn:F; [discriminate|].
    apply orb_false_elim in F. destruct F as [F1 F2].
    apply N.eqb_neq in F1. apply in_head_false in F2. apply IH in H. constructor; assumption.
  - inv H.
    match goal with B : fn_name f <> blank |- _ => apply N.eqb_neq in B; rewrite B end.
    match goal with I : ~ InHead _ _ |- _ => apply in_head_false in I; rewrite I end.
    simpl. apply IH. assumption.
Qed.

Lemma tc_func_iff G E f : tc_func G E f = true <-> func_ok G E f.
Proof.
  unfold tc_func, func_ok. split.
  - intros H. apply andb_prop in H. destruct H as [H1 H]. apply andb_prop in H. destruct H as [H2 H3].
    split; [apply nodup_names_spec; assumption|]. split; [apply tc_block_iff; assumption|].
    intros NE. apply term_block_iff. destruct (fn_results f); [contradiction|assumption].
  - intros [H1 [H2 H3]]. apply nodup_names_spec in H1. apply tc_block_iff in H2. rewrite H1, H2. simpl.
    destruct (fn_results f); [reflexivity|]. apply term_block_iff. apply H3. discriminate.
Qed.

Lemma nodupN_spec l : nodupN l = true <-> NoDup l.
Proof.
  induction l as [|x r IH]; simpl; split; intros H.
  - constructor.
  - reflexivity.
  - apply andb_prop in H. destruct H as [H1 H2]. constructor; [|apply IH; assumption].
    intros I. apply memN_spec in I. rewrite I in H1. discriminate.
  - inv H. apply andb_true_intro. split; [|apply IH; assumption].
    destruct (memN x r) eqn:M; [|reflexivity]. apply memN_spec in M. contradiction.
Qed.

Theorem tc_sound p : tc p = true -> prog_ok p.
Proof.
  unfold tc, prog_ok. intros H.
  apply andb_prop in H. destruct H as [H H4]. apply andb_prop in H. destruct H as [H H3].
  apply andb_prop in H. destruct H as [H1 H2].
  rewrite forallb_forall in H1. apply nodupN_spec in H2. rewrite forallb_forall in H3.
  split; [assumption|]. split; [assumption|].
  split; [intros q I; apply memN_spec; apply H3; assumption|].
  destruct (tc_globals (p_imports p) [[]] (p_globals p)) as [E1|] eqn:TG; [|discriminate].
  destruct (declare_funcs E1 (p_funcs p)) as [E2|] eqn:DF; [|discriminate].
  apply andb_prop in H4. destruct H4 as [H5 H6]. rewrite forallb_forall in H5.
  exists E1, E2. split; [apply tc_globals_iff; assumption|]. split; [apply declare_funcs_iff; assumption|].
  split; [intros f I; apply tc_func_iff; apply H5; assumption | apply tc_func_iff; exact H6].
Qed.

Theorem tc_complete p : prog_ok p -> tc p = true.
Proof.
  unfold tc, prog_ok. intros [H1 [H2 [H3 [E1 [E2 [HG [HD [HF HM]]]]]]]].
  apply andb_true_intro. split; [apply andb_true_intro; split; [apply andb_true_intro; split|]|].
  - apply forallb_forall. assumption.
  - apply nodupN_spec. assumption.
  - apply forallb_forall. intros q I. apply memN_spec. apply H3. assumption.
  - apply tc_globals_iff in HG. rewrite HG. apply declare_funcs_iff in HD. rewrite HD.
    apply andb_true_intro. split.
    + apply forallb_forall. intros f I. apply tc_func_iff. apply HF. assumption.
    + apply tc_func_iff in HM. exact HM.
Qed.

Theorem tc_iff p : tc p = true <-> prog_ok p.
Proof. split; [apply tc_sound | apply tc_complete]. Qed.
