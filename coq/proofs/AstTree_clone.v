(* clone driven by selectors that agree with the schema returns an equal tree
   made of fresh, pairwise distinct identities. *)
From Coq Require Import List NArith Bool Lia Arith.
From Verif Require Import Bytes AstSchema AstTreeM AstTreeSpec AstTree_base.
Import ListNotations.
Open Scope N_scope.

Definition in_range (a b : N) (l : list N) : Prop := Forall (fun i => a <= i /\ i < b) l.

Lemma in_range_weaken a b a' b' l : in_range a b l -> a' <= a -> b <= b' -> in_range a' b' l.
Proof. intros h h1 h2. eapply Forall_impl; [|exact h]. cbn. intros; lia. Qed.

Lemma in_range_app a b l1 l2 : in_range a b l1 -> in_range a b l2 -> in_range a b (l1 ++ l2).
Proof. intros. apply Forall_app. split; assumption. Qed.

Lemma nodup_app_range a b c l1 l2 :
  NoDup l1 -> NoDup l2 -> in_range a b l1 -> in_range b c l2 -> NoDup (l1 ++ l2).
Proof.
  intros n1 n2 r1 r2. induction l1 as [|x r IH]; [exact n2|].
  cbn [app]. inversion n1 as [|y z hy hz]. subst. inversion r1 as [|y z hx hr]. subst.
  constructor; [|auto].
  intros hin. apply in_app_or in hin. destruct hin as [h|h]; [contradiction|].
  unfold in_range in r2. rewrite Forall_forall in r2. specialize (r2 _ h). lia.
Qed.

(* the good result of a clone of t from counter nx *)
Definition good_res (r : res (N * tree)) (nx : N) (t : tree) : Prop :=
  exists nx' t', r = Ok (nx', t') /\ erase t' = erase t /\ nx < nx' /\
                 in_range nx nx' (ids t') /\ NoDup (ids t').

Definition good_list (r : res (N * list tree)) (nx : N) (cs : list tree) : Prop :=
  exists nx' cs', r = Ok (nx', cs') /\ map erase cs' = map erase cs /\ nx <= nx' /\
                  in_range nx nx' (flat_map ids cs') /\ NoDup (flat_map ids cs').

Section CloneProof.
Variable schema : list kind_decl.
Variable required : list (N * N).
Variable consts : list ((N * N) * (N * list (N * bytes))).
Variable edge_scal : list ((N * N) * list (N * bytes)).
Variable table : list ((N * N) * ccase).
Variable exc : list N.
Variable nd : list (N * N).
Hypothesis good : clone_table_good schema required consts edge_scal table exc nd = true.

Definition sconst_ok (cs : ccase) (t : tree) : Prop :=
  forall s v, In (s, SConst v) (c_scal cs) -> scal_of (t_scal t) s = v.

Lemma good_parts :
  schema_ok schema = true /\
  forallb (memp nd) (croots schema exc) = true /\
  forallb (cpair_good schema required consts edge_scal table exc nd) nd = true /\
  forallb (fun p => match lookup2 table (fst p) (snd p) with Some cs => no_sconst cs | None => false end)
          (croots schema exc) = true.
Proof.
  pose proof good as g. unfold clone_table_good in g.
  apply andb_prop in g. destruct g as [g g4]. apply andb_prop in g. destruct g as [g g3].
  apply andb_prop in g. destruct g as [g1 g2]. auto.
Qed.

Lemma good_schema : schema_ok schema = true.
Proof. apply good_parts. Qed.

Lemma good_nd p : In p nd -> cpair_good schema required consts edge_scal table exc nd p = true.
Proof.
  intros h. destruct good_parts as [_ [_ [g _]]]. rewrite forallb_forall in g. auto.
Qed.

Lemma fields_nodup k : NoDup (map f_id (fields_of schema k)).
Proof.
  pose proof good_schema as h. unfold schema_ok in h. apply andb_prop in h. destruct h as [h _].
  unfold fields_of, decl_of. destruct (find (fun d => k_id d =? k) schema) eqn:e; [|constructor].
  apply find_some in e. destruct e as [e _]. rewrite forallb_forall in h. apply nodupb_nodup. auto.
Qed.

Lemma nodup_map_filter {A} (f : A -> N) (p : A -> bool) l : NoDup (map f l) -> NoDup (map f (filter p l)).
Proof.
  induction l as [|a r IH]; cbn [map filter]; intros h; [constructor|].
  inversion h as [|x y hx hy]. subst. destruct (p a); cbn [map]; [|auto].
  constructor; [|auto]. intros hin. apply hx. apply in_map_iff in hin. destruct hin as [z [e hz]].
  apply filter_In in hz. destruct hz as [hz _]. apply in_map_iff. exists z. auto.
Qed.

Lemma child_fields_nodup k : NoDup (map f_id (child_fields schema k)).
Proof. apply nodup_map_filter, fields_nodup. Qed.
Lemma scalar_fields_nodup k : NoDup (map f_id (scalar_fields schema k)).
Proof. apply nodup_map_filter, fields_nodup. Qed.

(* ---- scalars ---- *)
Lemma eval_svals_good scall : forall sc flds es,
  map fst sc = map f_id flds -> forallb2 sval_good flds es = true ->
  (forall f v, In (f, v) sc -> scal_of scall f = v) ->
  (forall s v, In (s, SConst v) es -> scal_of scall s = v) ->
  eval_svals scall es = Some sc.
Proof.
  induction sc as [|[f v] r IH]; intros flds es hm hg hs hc.
  - destruct flds; [|discriminate]. destruct es; [reflexivity|discriminate].
  - destruct flds as [|fld fr]; [discriminate|]. destruct es as [|[g sv] er]; [discriminate|].
    cbn [map fst] in hm. inversion hm as [[e1 e2]]. cbn [forallb2] in hg.
    apply andb_prop in hg. destruct hg as [hg1 hg2]. unfold sval_good in hg1. cbn [fst snd] in hg1.
    apply andb_prop in hg1. destruct hg1 as [hga hgb]. apply N.eqb_eq in hga. subst g.
    cbn [eval_svals].
    rewrite (IH fr er e2 hg2).
    + destruct sv as [f0|f0|v0|]; try discriminate.
      * apply N.eqb_eq in hgb. subst f0. cbn [eval_sval].
        rewrite (hs (f_id fld) v); [reflexivity | left; rewrite e1; reflexivity].
      * cbn [eval_sval]. rewrite <- (hc (f_id fld) v0); [|left; reflexivity].
        rewrite (hs (f_id fld) v); [reflexivity | left; rewrite e1; reflexivity].
    + intros f' v' h. apply hs. right. exact h.
    + intros s' v' h. apply hc. right. exact h.
Qed.

Lemma scal_of_nodup (sc : list (N * bytes)) f v : NoDup (map fst sc) -> In (f, v) sc -> scal_of sc f = v.
Proof. intros h1 h2. unfold scal_of. rewrite (assoc_get_nodup sc f v h1 h2). reflexivity. Qed.

Lemma kids_of_nodup (kd : list (N * list tree)) f cs : NoDup (map fst kd) -> In (f, cs) kd -> kids_of kd f = cs.
Proof. intros h1 h2. unfold kids_of. rewrite (assoc_get_nodup kd f cs h1 h2). reflexivity. Qed.

(* ---- lists of children ---- *)
Lemma map_st_good (rec : N -> tree -> res (N * tree)) : forall cs nx,
  (forall ch nx0, In ch cs -> good_res (rec nx0 ch) nx0 ch) ->
  good_list (map_st rec nx cs) nx cs.
Proof.
  induction cs as [|c r IH]; intros nx h.
  - exists nx, []. cbn. repeat split; try constructor. lia.
  - cbn [map_st]. destruct (h c nx (or_introl eq_refl)) as [nx1 [c' [e1 [e2 [e3 [e4 e5]]]]]].
    rewrite e1. destruct (IH nx1 (fun ch nx0 hin => h ch nx0 (or_intror hin))) as [nx2 [r' [f1 [f2 [f3 [f4 f5]]]]]].
    rewrite f1. exists nx2, (c' :: r'). split; [reflexivity|]. cbn [map flat_map].
    split; [rewrite e2, f2; reflexivity|]. split; [lia|]. split.
    + apply in_range_app; [eapply in_range_weaken; [exact e4|lia|lia] | eapply in_range_weaken; [exact f4|lia|lia]].
    + eapply nodup_app_range; eassumption.
Qed.

Definition kd_ids (kd : list (N * list tree)) : list N := flat_map (fun fl => flat_map ids (snd fl)) kd.
Definition kd_erase (kd : list (N * list tree)) := map (fun fl => (fst fl, map erase (snd fl))) kd.

Lemma find_nodup (l : list field) fld :
  NoDup (map f_id l) -> In fld l -> find (fun x => f_id x =? f_id fld) l = Some fld.
Proof.
  induction l as [|a r IH]; cbn [map In find]; [tauto|].
  intros hnd [e|hin].
  - subst. rewrite N.eqb_refl. reflexivity.
  - inversion hnd as [|x y hx hy]. subst.
    destruct (N.eqb_spec (f_id a) (f_id fld)) as [e|ne].
    + exfalso. apply hx. rewrite e. apply in_map. exact hin.
    + auto.
Qed.

Lemma field_of_child k fld : In fld (child_fields schema k) -> field_of schema k (f_id fld) = Some fld.
Proof.
  intros h. unfold field_of. apply find_nodup; [apply fields_nodup|].
  unfold child_fields in h. apply filter_In in h. tauto.
Qed.

Lemma class_of_child k fld : In fld (child_fields schema k) -> class_of schema k (f_id fld) = f_class fld.
Proof. intros h. unfold class_of. rewrite (field_of_child k fld h). reflexivity. Qed.
Lemma static_of_child k fld : In fld (child_fields schema k) -> static_of schema k (f_id fld) = f_static fld.
Proof. intros h. unfold static_of. rewrite (field_of_child k fld h). reflexivity. Qed.

Section Fields.
Variable fu : nat.
Variable k : N.
Variable kdall : list (N * list tree).
Let rec := clone schema table fu.

(* what the main induction provides for the children *)
Hypothesis Hrec : forall ch ctx nx, (height ch < fu)%nat ->
  hyp schema required consts edge_scal ch = true -> no_kind exc ch = true ->
  In (ctx, t_kind ch) nd ->
  (forall cs, lookup2 table ctx (t_kind ch) = Some cs -> sconst_ok cs ch) ->
  good_res (rec ctx nx ch) nx ch.

Definition field_res (r : res (N * list tree)) (nx : N) (cs : list tree) : Prop :=
  exists nx1 cs', r = Ok (nx1, cs') /\ map erase cs' = map erase cs /\ nx <= nx1 /\
                  in_range nx nx1 (flat_map ids cs') /\ NoDup (flat_map ids cs').

Lemma clone_field_good fld cv cs nx :
  In fld (child_fields schema k) ->
  cval_good required consts edge_scal table k fld (f_id fld, cv) = true ->
  kids_of kdall (f_id fld) = cs ->
  field_ok schema required consts edge_scal k (f_id fld, cs) = true ->
  (forall ch, In ch cs ->
     (height ch < fu)%nat /\ hyp schema required consts edge_scal ch = true /\ no_kind exc ch = true) ->
  match cv with
  | CVia f c _ => forall k', In k' (static_of schema k f) -> ~ In k' exc -> In (c, k') nd
  | _ => True end ->
  field_res (clone_field schema rec k kdall nx cv) nx cs.
Proof.
  intros hfld hg hkf hfo hch hsucc.
  unfold cval_good in hg. cbn [fst snd] in hg. apply andb_prop in hg. destruct hg as [_ hgb].
  unfold field_ok in hfo. cbn [fst snd] in hfo.
  apply andb_prop in hfo. destruct hfo as [hfo hfo5]. apply andb_prop in hfo. destruct hfo as [hfo hfo4].
  apply andb_prop in hfo. destruct hfo as [hfo hfo3]. apply andb_prop in hfo. destruct hfo as [hfo1 hfo2].
  rewrite (static_of_child k fld hfld) in hfo2.
  destruct cv as [|f0 c ns|f0|c k'|]; try discriminate.
  - (* CVia *)
    apply andb_prop in hgb. destruct hgb as [hgb hconst]. apply andb_prop in hgb. destruct hgb as [hf0 hns].
    apply N.eqb_eq in hf0. subst f0. cbn [clone_field]. rewrite hkf.
    destruct cs as [|c0 cr].
    + assert (hsafe : negb ns && is_single schema k (f_id fld) = false).
      { destruct ns; [reflexivity|]. cbn [negb andb orb] in hns.
        unfold is_single. rewrite (class_of_child k fld hfld).
        apply orb_prop in hns. destruct hns as [hns|hns].
        - apply negb_true_iff in hns. exact hns.
        - rewrite hns in hfo3. cbn in hfo3. discriminate. }
      rewrite hsafe. exists nx, []. cbn. repeat split; try constructor. lia.
    + assert (hml : good_list (map_st (rec c) nx (c0 :: cr)) nx (c0 :: cr)).
      { apply map_st_good. intros ch nx0 hinch.
        destruct (hch ch hinch) as [h1 [h2 h3]].
        rewrite forallb_forall in hfo2. pose proof (hfo2 ch hinch) as hst. apply mem_in in hst.
        assert (hne : ~ In (t_kind ch) exc).
        { unfold no_kind in h3. rewrite forallb_forall in h3. specialize (h3 ch (subtrees_self ch)).
          intros hi. apply mem_in in hi. rewrite hi in h3. discriminate. }
        apply Hrec; auto.
        { apply hsucc; [|exact hne]. rewrite (static_of_child k fld hfld). exact hst. }
        intros cs0 hl s v hsv.
        rewrite forallb_forall in hconst.
        specialize (hconst _ hst). rewrite hl in hconst. rewrite forallb_forall in hconst.
        specialize (hconst _ hsv). cbn [snd fst] in hconst. apply existsb_exists in hconst.
        destruct hconst as [[s' v'] [hin' heq']]. cbn [fst snd] in heq'. apply andb_prop in heq'.
        destruct heq' as [q1 q2]. apply N.eqb_eq in q1. apply bytes_eqb_eq in q2. subst s' v'.
        rewrite forallb_forall in hfo5. specialize (hfo5 ch hinch). rewrite forallb_forall in hfo5.
        specialize (hfo5 _ hin'). cbn [fst snd] in hfo5. apply bytes_eqb_eq in hfo5. exact hfo5. }
      destruct hml as [nx1 [cs' [m1 [m2 [m3 [m4 m5]]]]]]. exists nx1, cs'. auto.
  - (* CNew: a constant record; the tree holds the same constant *)
    apply andb_prop in hgb. destruct hgb as [_ hgb].
    destruct (assocp consts (k, f_id fld)) as [[ck csc]|] eqn:ec; [|discriminate].
    apply andb_prop in hgb. destruct hgb as [hck hgb]. apply N.eqb_eq in hck. subst ck.
    destruct (lookup2 table c k') as [cs0|] eqn:el; [|discriminate].
    apply andb_prop in hgb. destruct hgb as [hgb hev]. apply andb_prop in hgb. destruct hgb as [hk0 hnil].
    apply N.eqb_eq in hk0.
    destruct (eval_svals [] (c_scal cs0)) as [v|] eqn:eev; [|discriminate].
    apply scal_eqb_eq in hev. subst v.
    destruct cs as [|[i0 k0 sc0 [|? ?]] [|? ?]]; try discriminate.
    apply andb_prop in hfo4. destruct hfo4 as [hk1 hsc]. apply N.eqb_eq in hk1. apply scal_eqb_eq in hsc. subst k0 sc0.
    destruct (hch _ (or_introl eq_refl)) as [hh _]. rewrite height_eq in hh. cbn in hh.
    cbn [clone_field]. unfold rec. destruct fu as [|fu']; [lia|].
    cbn [clone]. rewrite el, eev.
    destruct (c_kids cs0); [|discriminate]. cbn [clone_fields]. rewrite hk0.
    exists (nx + 1), [T nx k' csc []]. split; [reflexivity|]. cbn [map flat_map].
    rewrite !erase_eq, !ids_eq. cbn. split; [reflexivity|]. split; [lia|]. split.
    + constructor; [lia|constructor].
    + constructor; [intros []|constructor].
Qed.

Lemma clone_fields_good : forall flds es kdsuf nx,
  map fst kdsuf = map f_id flds ->
  forallb2 (cval_good required consts edge_scal table k) flds es = true ->
  (forall fld, In fld flds -> In fld (child_fields schema k)) ->
  (forall fl, In fl kdsuf -> kids_of kdall (fst fl) = snd fl) ->
  (forall fl, In fl kdsuf -> field_ok schema required consts edge_scal k fl = true) ->
  (forall fl ch, In fl kdsuf -> In ch (snd fl) ->
     (height ch < fu)%nat /\ hyp schema required consts edge_scal ch = true /\ no_kind exc ch = true) ->
  (forall e, In e es -> match snd e with
                        | CVia f c _ => forall k', In k' (static_of schema k f) -> ~ In k' exc -> In (c, k') nd
                        | _ => True end) ->
  exists nx' kd', clone_fields schema rec k kdall nx es = Ok (nx', kd') /\
    kd_erase kd' = kd_erase kdsuf /\ nx <= nx' /\ in_range nx nx' (kd_ids kd') /\ NoDup (kd_ids kd').
Proof.
  induction flds as [|fld fr IH]; intros es kdsuf nx hm hg hin hk hf hch hsucc.
  - destruct kdsuf; [|discriminate]. destruct es; [|discriminate].
    exists nx, []. cbn. repeat split; try constructor. lia.
  - destruct kdsuf as [|[f cs] kr]; [discriminate|]. destruct es as [|[g cv] er]; [discriminate|].
    cbn [map fst] in hm. inversion hm as [[e1 e2]]. cbn [forallb2] in hg.
    apply andb_prop in hg. destruct hg as [hg1 hg2].
    assert (hgid : g = f_id fld).
    { unfold cval_good in hg1. cbn [fst] in hg1. apply andb_prop in hg1. destruct hg1 as [q _]. apply N.eqb_eq in q. exact q. }
    subst g f.
    pose proof (hk (f_id fld, cs) (or_introl eq_refl)) as hkf. cbn [fst snd] in hkf.
    destruct (clone_field_good fld cv cs nx (hin fld (or_introl eq_refl)) hg1 hkf
                (hf _ (or_introl eq_refl))
                (fun ch h => hch _ ch (or_introl eq_refl) h)
                (hsucc (f_id fld, cv) (or_introl eq_refl))) as [nx1 [cs' [c1 [c2 [c3 [c4 c5]]]]]].
    cbn [clone_fields]. rewrite c1.
    destruct (IH er kr nx1 e2 hg2) as [nx2 [kd' [d1 [d2 [d3 [d4 d5]]]]]].
    + intros x h. apply hin. right. exact h.
    + intros fl h. apply hk. right. exact h.
    + intros fl h. apply hf. right. exact h.
    + intros fl ch h. apply hch. right. exact h.
    + intros e h. apply hsucc. right. exact h.
    + rewrite d1. exists nx2, ((f_id fld, cs') :: kd'). split; [reflexivity|].
      unfold kd_erase, kd_ids in *. cbn [map flat_map fst snd]. split; [rewrite c2, d2; reflexivity|].
      split; [lia|]. split.
      * apply in_range_app; [eapply in_range_weaken; [exact c4|lia|lia] | eapply in_range_weaken; [exact d4|lia|lia]].
      * eapply nodup_app_range; eassumption.
Qed.

End Fields.

(* ---- the main induction ---- *)
Lemma hyp_child i k sc kd fl c :
  hyp schema required consts edge_scal (T i k sc kd) = true -> In fl kd -> In c (snd fl) ->
  hyp schema required consts edge_scal c = true.
Proof.
  unfold hyp. rewrite !forallb_forall. intros h hfl hc x hx. apply h.
  eapply subtrees_child; eassumption.
Qed.

Lemma no_kind_child i k sc kd fl c :
  no_kind exc (T i k sc kd) = true -> In fl kd -> In c (snd fl) -> no_kind exc c = true.
Proof.
  unfold no_kind. rewrite !forallb_forall. intros h hfl hc x hx. apply h.
  eapply subtrees_child; eassumption.
Qed.

Lemma csuccs_in k cs e f c ns k' :
  In e (c_kids cs) -> snd e = CVia f c ns -> In k' (static_of schema k f) -> ~ In k' exc ->
  In (c, k') (csuccs schema exc k cs).
Proof.
  intros he hs hk hn. unfold csuccs. apply in_flat_map. exists e. split; [exact he|].
  rewrite hs. apply in_map. apply filter_In. split; [exact hk|].
  apply negb_true_iff. destruct (mem exc k') eqn:em; [|reflexivity].
  apply mem_in in em. contradiction.
Qed.

Lemma clone_good : forall fuel ctx nx t,
  (height t < fuel)%nat ->
  hyp schema required consts edge_scal t = true -> no_kind exc t = true ->
  In (ctx, t_kind t) nd ->
  (forall cs, lookup2 table ctx (t_kind t) = Some cs -> sconst_ok cs t) ->
  good_res (clone schema table fuel ctx nx t) nx t.
Proof.
  induction fuel as [|fu IH]; intros ctx nx t hh hhyp hno hin hsc; [lia|].
  destruct t as [i k sc kd]. cbn [t_kind] in *.
  pose proof (good_nd _ hin) as hg. unfold cpair_good in hg. cbn [fst snd] in hg.
  destruct (lookup2 table ctx k) as [cs|] eqn:el; [|discriminate].
  apply andb_prop in hg. destruct hg as [hcg hsucc].
  unfold case_good in hcg. apply andb_prop in hcg. destruct hcg as [hcg hsg].
  apply andb_prop in hcg. destruct hcg as [hck hkg]. apply N.eqb_eq in hck.
  (* this record is an instance of its kind *)
  pose proof hhyp as hnode. unfold hyp in hnode. rewrite forallb_forall in hnode.
  specialize (hnode _ (subtrees_self _)). cbn [node_ok] in hnode.
  apply andb_prop in hnode. destruct hnode as [hnode hfok]. apply andb_prop in hnode. destruct hnode as [hnode hkm].
  apply andb_prop in hnode. destruct hnode as [_ hsm].
  apply list_eqb_eq in hkm. apply list_eqb_eq in hsm.
  cbn [clone]. rewrite el.
  (* scalars *)
  assert (hnds : NoDup (map fst sc)) by (rewrite hsm; apply scalar_fields_nodup).
  assert (hndk : NoDup (map fst kd)) by (rewrite hkm; apply child_fields_nodup).
  rewrite (eval_svals_good sc sc (scalar_fields schema k) (c_scal cs) hsm hsg).
  2:{ intros f v h. apply scal_of_nodup; assumption. }
  2:{ intros s v h. apply (hsc cs eq_refl s v h). }
  (* children *)
  rewrite forallb_forall in hfok. rewrite forallb_forall in hsucc.
  destruct (clone_fields_good fu k kd (fun ch ctx0 nx0 h1 h2 h3 h4 h5 => IH ctx0 nx0 ch h1 h2 h3 h4 h5)
              (child_fields schema k) (c_kids cs) kd (nx + 1) hkm hkg) as [nx' [kd' [d1 [d2 [d3 [d4 d5]]]]]].
  - auto.
  - intros [f cs0] h. cbn [fst snd]. apply kids_of_nodup; assumption.
  - intros fl h. apply hfok. exact h.
  - intros fl ch h1 h2. split; [|split].
    + pose proof (height_child i k sc kd fl ch h1 h2). lia.
    + eapply hyp_child; eassumption.
    + eapply no_kind_child; eassumption.
  - intros e he. destruct (snd e) as [|f c ns|f|c k'|] eqn:es; try exact I.
    intros k' hk' hn. apply memp_in. apply hsucc. eapply csuccs_in; eassumption.
  - rewrite d1. exists nx', (T nx (c_kind cs) sc kd'). split; [reflexivity|].
    rewrite !erase_eq, hck. fold (kd_erase kd'). fold (kd_erase kd). rewrite d2.
    split; [reflexivity|]. split; [lia|]. rewrite ids_eq. fold (kd_ids kd'). split.
    + constructor; [lia|]. eapply in_range_weaken; [exact d4|lia|lia].
    + constructor; [|exact d5]. intros hi. unfold in_range in d4. rewrite Forall_forall in d4.
      specialize (d4 _ hi). lia.
Qed.

(* max_id bounds every identity *)
Lemma max_id_ge l x : In x l -> x <= max_id l.
Proof.
  induction l as [|a r IH]; cbn [In max_id]; [tauto|].
  intros [->|h]; [lia|]. specialize (IH h). lia.
Qed.

(* The C28 clone theorem over the model: for every tree that is an instance
   of the schema and contains none of the listed exception kinds, clone
   (entered through CloneNode, context 0) does not panic, is structurally
   equal to the original, and is made of pairwise distinct identities none of
   which occurs in the original. *)
Theorem clone_equal_disjoint : forall t,
  hyp schema required consts edge_scal t = true -> no_kind exc t = true ->
  is_node schema (t_kind t) = true ->
  exists nx' t', clone_top schema table 0 t = Ok (nx', t') /\
    erase t' = erase t /\
    NoDup (ids t') /\
    (forall x, In x (ids t') -> ~ In x (ids t)).
Proof.
  intros t hh hn hnode. unfold clone_top.
  assert (hroot : In (0, t_kind t) nd).
  { destruct good_parts as [_ [g _]]. rewrite forallb_forall in g. apply memp_in. apply g.
    unfold croots. apply in_map_iff.
    unfold is_node, decl_of in hnode. destruct (find (fun d => k_id d =? t_kind t) schema) as [d|] eqn:ef; [|discriminate].
    apply find_some in ef. destruct ef as [hd he]. apply N.eqb_eq in he. exists d. split; [rewrite he; reflexivity|].
    apply filter_In. split; [exact hd|]. rewrite hnode. cbn [andb].
    unfold no_kind in hn. rewrite forallb_forall in hn. specialize (hn _ (subtrees_self t)). rewrite he. exact hn. }
  destruct (clone_good (S (height t)) 0 (max_id (ids t) + 1) t) as [nx' [t' [e1 [e2 [e3 [e4 e5]]]]]]; auto.
  { intros cs hl s v hsv. exfalso.
    destruct good_parts as [_ [_ [_ g]]]. rewrite forallb_forall in g.
    assert (hr : In (0, t_kind t) (croots schema exc)).
    { unfold croots. apply in_map_iff.
      unfold is_node, decl_of in hnode. destruct (find (fun d => k_id d =? t_kind t) schema) as [d|] eqn:ef; [|discriminate].
      apply find_some in ef. destruct ef as [hd he]. apply N.eqb_eq in he. exists d. split; [rewrite he; reflexivity|].
      apply filter_In. split; [exact hd|]. rewrite hnode. cbn [andb].
      unfold no_kind in hn. rewrite forallb_forall in hn. specialize (hn _ (subtrees_self t)). rewrite he. exact hn. }
    specialize (g _ hr). cbn [fst snd] in g. rewrite hl in g. unfold no_sconst in g. rewrite forallb_forall in g.
    specialize (g _ hsv). cbn [snd] in g. discriminate. }
  exists nx', t'. split; [exact e1|]. split; [exact e2|]. split; [exact e5|].
  intros x hx hx'. unfold in_range in e4. rewrite Forall_forall in e4. specialize (e4 _ hx).
  pose proof (max_id_ge _ _ hx'). lia.
Qed.

End CloneProof.
