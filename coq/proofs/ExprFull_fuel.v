(* C27 over the primary-expression grammar: the fuel that parse_top gives the
   parser (8 units per token) is more than the parse of a printable expression
   takes. *)
From Coq Require Import List NArith Bool Lia Arith.
From Verif Require Import Bytes ExprFullM ExprFullOk ExprFull_base ExprFull_eqs ExprFull_main.
Import ListNotations.
Open Scope N_scope.

Section Fuel.
Variable op_string : list (N * bytes).
Variable bin_prec : list (N * N).
Variable un_prec : N.
Variable unary_tokens : list (bytes * N).
Variable binary_tokens : list (bytes * N).
Variable op_receive op_pointer op_extended_not op_not_contains : N.
Variable lit_string : N.
Variable dir_none dir_recv dir_send : N.
Variable kw_text : kwd -> bytes.
Variable sym_arrow sym_mul sym_not sym_contains : bytes.
Variable name_ident name_lbrack : bytes.
Variable result_start : list bytes.
Variable macro_results : list bytes.
Variable quote : bytes -> bytes.
Variable valid_path : bytes -> bool.
Variable expanded : bool.
Variable tmpl : bool.

Notation pp := (pp op_string bin_prec un_prec op_receive op_pointer op_extended_not lit_string dir_recv dir_send sym_arrow quote expanded).
Notation ok := (ok op_string bin_prec un_prec unary_tokens binary_tokens op_receive op_pointer op_extended_not op_not_contains lit_string dir_none dir_recv dir_send sym_arrow sym_mul sym_not sym_contains name_ident name_lbrack kw_text result_start macro_results quote valid_path expanded tmpl).
Notation cost := (cost bin_prec un_prec op_receive op_pointer).
Notation need := (need bin_prec un_prec op_receive op_pointer expanded).
Notation full := (full bin_prec un_prec op_receive op_pointer expanded).
Notation np_un := (np_un bin_prec un_prec op_receive).
Notation np_bin := (np_bin bin_prec un_prec).
Notation np_call := (np_call op_receive op_pointer).
Notation wrapped_un := (wrapped_un bin_prec un_prec op_receive).
Notation wrapped_bin := (wrapped_bin bin_prec un_prec).
Notation spell := (spell op_string).
Notation xun_ok := (xun_ok op_string unary_tokens op_receive sym_arrow).

Definition nt (ps : list pc) : nat := length (toks ps).

Lemma nt_app a b : nt (a ++ b) = (nt a + nt b)%nat.
Proof. unfold nt. rewrite toks_app, app_length. reflexivity. Qed.

Lemma nt_wrapp b ps : nt (wrapp b ps) = (nt ps + if b then 2 else 0)%nat.
Proof. unfold nt. rewrite toks_wrapp. destruct b; [cbn [length]; rewrite app_length; cbn [length]; lia|lia]. Qed.

Lemma nt_sep_ge sep ls : (fold_right (fun l a => nt l + a)%nat 0%nat ls <= nt (sep_by sep ls))%nat.
Proof.
  induction ls as [|x r IH]; [cbn; lia|]. rewrite sep_by_cons. destruct r as [|y r'].
  - cbn [fold_right]. lia.
  - rewrite !nt_app. cbn [fold_right] in *. lia.
Qed.

(* a sum over a list printed with separators *)
Lemma fold_bound {A} (w : A -> nat) (f : A -> option (list pc)) sep (c0 : nat) : forall l ls,
  Forall2 (fun a q => f a = Some q) l ls ->
  (forall a q, In a l -> f a = Some q -> (w a <= 8 * nt q)%nat) ->
  (fold_right (fun a acc => w a + acc)%nat c0 l <= c0 + 8 * nt (sep_by sep ls))%nat.
Proof.
  intros l ls hF hw.
  assert (h : (fold_right (fun a acc => w a + acc)%nat c0 l <= c0 + 8 * fold_right (fun l a => nt l + a)%nat 0%nat ls)%nat).
  { induction hF as [|a q l ls hq hr IH]; [cbn; lia|]. cbn [fold_right].
    pose proof (hw a q (or_introl eq_refl) hq). 
    assert (fold_right (fun a acc => w a + acc)%nat c0 l <= c0 + 8 * fold_right (fun l a => nt l + a)%nat 0%nat ls)%nat.
    { apply IH. intros a' q' hin. apply hw. right. exact hin. }
    lia. }
  pose proof (nt_sep_ge sep ls). lia.
Qed.

Ltac inv_pp h :=
  repeat match type of h with
  | match ?x with _ => _ end = Some _ => let e := fresh "e" in destruct x eqn:e; try discriminate h
  | (if ?x then _ else _) = Some _ => let e := fresh "e" in destruct x eqn:e; try discriminate h
  | Some _ = Some _ => injection h as h
  end.

Definition Bd (e : ex) : Prop :=
  forall ty el nxt ps, ok ty el e nxt = true -> pp e = Some ps -> (cost ty e + need ty e + 6 <= 8 * nt ps)%nat.

Lemma nt_T t : nt (ExprFullM.T t) = 1%nat.
Proof. reflexivity. Qed.

Lemma nt_op_un s : is_nil s = false -> no_byte 32 s = true -> nt (op_pieces s) = 1%nat.
Proof. intros h1 h2. unfold nt. rewrite (op_pieces_one s h1 h2). reflexivity. Qed.

Lemma nt_consT t r : nt (PcT t :: r) = S (nt r).
Proof. reflexivity. Qed.
Lemma nt_consS r : nt (PcS :: r) = nt r.
Proof. reflexivity. Qed.
Lemma nt_nil : nt [] = 0%nat.
Proof. reflexivity. Qed.

Ltac ntsimp := repeat (progress (rewrite ?nt_app, ?nt_wrapp, ?nt_T, ?nt_consT, ?nt_consS, ?nt_nil)).

Lemma Bd_opt (o : option ex) : Qo Bd o -> forall ty el nxt po,
  match o with Some a => ok ty el a nxt = true | None => True end -> opt_pieces (omap pp o) = Some po ->
  (fullo (full ty) o + 3 <= 8 * nt po + 6)%nat.
Proof.
  intros hB ty el nxt po hok hpp. destruct o as [a|]; cbn [omap opt_pieces Qo ExprFull_base.fullo] in *.
  - pose proof (hB ty el nxt po hok hpp). unfold ExprFull_base.full. lia.
  - lia.
Qed.

Lemma Bd_un p op x : Bd x -> Bd (XUn p op x).
Proof.
  intros IHx ty el nxt ps hok hpp. cbn [ExprFullOk.ok] in hok.
  apply andb_prop in hok. destruct hok as [hok hch].
  apply andb_prop in hok. destruct hok as [hok _].
  apply andb_prop in hok. destruct hok as [hun _].
  cbn [ExprFullM.pp] in hpp.
  destruct (spell op) as [s|] eqn:es; [|discriminate].
  destruct (np_un op x) as [b|] eqn:enp; [|discriminate].
  destruct (pp x) as [px|] eqn:epx; [|discriminate]. injection hpp as <-.
  unfold ExprFullOk.xun_ok in hun. rewrite es in hun.
  apply andb_prop in hun. destruct hun as [hun _]. apply andb_prop in hun. destruct hun as [hne hsp]. apply negb_true_iff in hne.
  cbn [ExprFull_base.cost ExprFull_base.need]. rewrite (wrapped_un_eq _ _ _ _ _ _ enp).
  rewrite !nt_app, nt_wrapp, (nt_op_un s hne hsp).
  destruct b.
  - pose proof (IHx ty false (Some KRP) px hch epx). unfold ExprFull_base.full. lia.
  - apply andb_prop in hch. destruct hch as [_ hch]. pose proof (IHx ty el nxt px hch epx). lia.
Qed.

Lemma Bd_bin p op l r : Bd l -> Bd r -> Bd (XBin p op l r).
Proof.
  intros IHl IHr ty el nxt ps hok hpp. cbn [ExprFullOk.ok] in hok. destruct ty; [discriminate|]. cbn [negb andb] in hok.
  apply andb_prop in hok. destruct hok as [hok hch].
  cbn [ExprFullM.pp] in hpp.
  destruct (np_bin op l) as [bl|] eqn:enl; [|discriminate].
  destruct (pp l) as [pl|] eqn:epl; [|discriminate].
  destruct (spell op) as [s|] eqn:es; [|discriminate].
  destruct (np_bin op r) as [br|] eqn:enr; [|discriminate].
  destruct (pp r) as [pr|] eqn:epr; [|discriminate]. injection hpp as <-.
  apply andb_prop in hch. destruct hch as [hcl hcr].
  cbn [ExprFull_base.cost ExprFull_base.need]. rewrite (wrapped_bin_eq _ _ _ _ _ enl), (wrapped_bin_eq _ _ _ _ _ enr).
  change (PcS :: op_pieces s ++ PcS :: wrapp br pr) with ([PcS] ++ op_pieces s ++ [PcS] ++ wrapp br pr).
  rewrite !nt_app, !nt_wrapp. unfold ExprFull_base.full.
  assert (hl : (cost false l + need false l + 6 <= 8 * nt pl)%nat) by (destruct bl; eapply IHl; eassumption).
  assert (hr : (cost false r + need false r + 6 <= 8 * nt pr)%nat) by (destruct br; eapply IHr; eassumption).
  destruct bl, br; lia.
Qed.

Ltac leafB := intros ty el nxt ps hok hpp; cbn [ExprFullM.pp] in hpp; injection hpp as <-;
  cbn [ExprFull_base.cost ExprFull_base.need]; ntsimp; try lia.

Lemma Bd_ident p a : Bd (XIdent p a). Proof. leafB. Qed.
Lemma Bd_lit p k s : Bd (XLit p k s). Proof. leafB. Qed.
Lemma Bd_interface p : Bd (XInterface p). Proof. leafB. Qed.
Lemma Bd_render p s : Bd (XRender p s). Proof. leafB. Qed.
Lemma Bd_funclit p : Bd (XFuncLit p). Proof. intros ty el nxt ps hok. cbn [ExprFullOk.ok] in hok. discriminate. Qed.

(* the operand of a postfix form *)
Ltac post_split h hx := apply andb_prop in h; destruct h as [h hx]; apply andb_prop in h; destruct h as [_ _].

Lemma Bd_index p x i : Bd x -> Bd i -> Bd (XIndex p x i).
Proof.
  intros IHx IHi ty el nxt ps hok hpp. cbn [ExprFullOk.ok] in hok. destruct ty; [discriminate|]. cbn [negb andb] in hok.
  apply andb_prop in hok. destruct hok as [hok hi]. apply andb_prop in hok. destruct hok as [_ hx].
  cbn [ExprFullM.pp] in hpp. inv_pp hpp. subst ps.
  cbn [ExprFull_base.cost ExprFull_base.need]. ntsimp. unfold ExprFull_base.full.
  match goal with h1 : pp x = Some ?a, h2 : pp i = Some ?b |- _ =>
    pose proof (IHx false el _ a hx h1); pose proof (IHi false false _ b hi h2) end. lia.
Qed.

Lemma Bd_sel p x name : Bd x -> Bd (XSel p x name).
Proof.
  intros IHx ty el nxt ps hok hpp. cbn [ExprFullOk.ok] in hok. cbn [ExprFullM.pp] in hpp. inv_pp hpp. subst ps.
  cbn [ExprFull_base.cost ExprFull_base.need]. ntsimp. destruct ty.
  - lia.
  - apply andb_prop in hok. destruct hok as [_ hx].
    match goal with h1 : pp x = Some ?a |- _ => pose proof (IHx false el _ a hx h1) end. lia.
Qed.

Lemma Bd_typeassert p x t : Bd x -> Qo Bd t -> Bd (XTypeAssert p x t).
Proof.
  intros IHx IHt ty el nxt ps hok hpp. cbn [ExprFullOk.ok] in hok. destruct ty; [discriminate|]. cbn [negb andb] in hok.
  apply andb_prop in hok. destruct hok as [hok ht]. apply andb_prop in hok. destruct hok as [_ hx].
  destruct t as [t'|]; [|discriminate]. cbn [Qo] in IHt. apply andb_prop in ht. destruct ht as [ht _].
  cbn [ExprFullM.pp omap opt_pieces] in hpp. inv_pp hpp. subst ps.
  cbn [ExprFull_base.cost ExprFull_base.need ExprFull_base.fullo]. ntsimp. unfold ExprFull_base.full.
  match goal with h1 : pp x = Some ?a, h2 : pp t' = Some ?b |- _ =>
    pose proof (IHx false el _ a hx h1); pose proof (IHt true false _ b ht h2) end. lia.
Qed.

Lemma Bd_default p l r : Bd l -> Bd r -> Bd (XDefault p l r).
Proof.
  intros IHl IHr ty el nxt ps hok hpp. cbn [ExprFullOk.ok] in hok. destruct ty; [discriminate|]. cbn [negb andb] in hok.
  apply andb_prop in hok. destruct hok as [hok _]. apply andb_prop in hok. destruct hok as [hok hr].
  apply andb_prop in hok. destruct hok as [_ hl].
  cbn [ExprFullM.pp] in hpp. inv_pp hpp. subst ps.
  cbn [ExprFull_base.cost ExprFull_base.need]. ntsimp. unfold ExprFull_base.full.
  match goal with h1 : pp l = Some ?a, h2 : pp r = Some ?b |- _ =>
    pose proof (IHl false el _ a hl h1); pose proof (IHr false false _ b hr h2) end.
  lia.
Qed.

Lemma Bd_slicing p x lo hi mx fl : Bd x -> Qo Bd lo -> Qo Bd hi -> Qo Bd mx -> Bd (XSlicing p x lo hi mx fl).
Proof.
  intros IHx IHlo IHhi IHmx ty el nxt ps hok hpp. cbn [ExprFullOk.ok] in hok. destruct ty; [discriminate|]. cbn [negb andb] in hok.
  apply andb_prop in hok. destruct hok as [hok hmx].
  apply andb_prop in hok. destruct hok as [hok hhi].
  apply andb_prop in hok. destruct hok as [hok hlo].
  apply andb_prop in hok. destruct hok as [hok _].
  apply andb_prop in hok. destruct hok as [_ hx].
  cbn [ExprFullM.pp] in hpp.
  destruct (pp x) as [px|] eqn:epx; [|discriminate].
  destruct (opt_pieces (omap pp lo)) as [pl|] eqn:epl; [|discriminate].
  destruct (opt_pieces (omap pp hi)) as [ph|] eqn:eph; [|discriminate].
  destruct (opt_pieces (omap pp mx)) as [pm|] eqn:epm; [|discriminate]. injection hpp as <-.
  cbn [ExprFull_base.cost ExprFull_base.need]. 
  pose proof (IHx false el _ px hx epx).
  pose proof (Bd_opt lo IHlo false false (Some KColon) pl ltac:(destruct lo; [exact hlo|exact I]) epl).
  pose proof (Bd_opt hi IHhi false false _ ph ltac:(destruct hi; [exact hhi|exact I]) eph).
  pose proof (Bd_opt mx IHmx false false (Some KRBrack) pm ltac:(destruct mx; [exact hmx|exact I]) epm).
  ntsimp. destruct lo, hi, mx; cbn [ExprFull_base.fullo] in *; unfold ExprFull_base.full in *; ntsimp; lia.
Qed.

Lemma Bd_slice p e' : Bd e' -> Bd (XSlice p e').
Proof.
  intros IHe ty el nxt ps hok hpp. cbn [ExprFullOk.ok] in hok. cbn [ExprFullM.pp] in hpp. inv_pp hpp. subst ps.
  cbn [ExprFull_base.cost ExprFull_base.need]. ntsimp. unfold ExprFull_base.full.
  match goal with h1 : pp e' = Some ?a |- _ => pose proof (IHe true false _ a hok h1) end. lia.
Qed.

Lemma Bd_chan p d e' : Bd e' -> Bd (XChan p d e').
Proof.
  intros IHe ty el nxt ps hok hpp. cbn [ExprFullOk.ok] in hok. apply andb_prop in hok. destruct hok as [_ hok].
  cbn [ExprFullM.pp] in hpp. inv_pp hpp. subst ps.
  cbn [ExprFull_base.cost ExprFull_base.need]. ntsimp. unfold ExprFull_base.full.
  match goal with h1 : pp e' = Some ?a |- _ => pose proof (IHe true false _ a hok h1) end.
  destruct (d =? dir_recv), (d =? dir_send); ntsimp; lia.
Qed.

Lemma Bd_map p k v : Qo Bd k -> Bd v -> Bd (XMap p k v).
Proof.
  intros IHk IHv ty el nxt ps hok hpp. cbn [ExprFullOk.ok] in hok. destruct k as [k'|]; [|discriminate]. cbn [Qo] in IHk.
  apply andb_prop in hok. destruct hok as [hk hv].
  cbn [ExprFullM.pp] in hpp. inv_pp hpp. subst ps.
  cbn [ExprFull_base.cost ExprFull_base.need ExprFull_base.fullo]. ntsimp. unfold ExprFull_base.full.
  match goal with h1 : pp k' = Some ?a, h2 : pp v = Some ?b |- _ =>
    pose proof (IHk true false _ a hk h1); pose proof (IHv true false _ b hv h2) end. lia.
Qed.

Lemma Bd_array p l e' : Qo Bd l -> Bd e' -> Bd (XArray p l e').
Proof.
  intros IHl IHe ty el nxt ps hok hpp. cbn [ExprFullOk.ok] in hok. apply andb_prop in hok. destruct hok as [hl he].
  cbn [ExprFullM.pp] in hpp.
  destruct (opt_pieces (omap pp l)) as [pl|] eqn:epl; [|discriminate].
  destruct (pp e') as [pe|] eqn:epe; [|discriminate]. injection hpp as <-.
  cbn [ExprFull_base.cost ExprFull_base.need].
  pose proof (IHe true false _ pe he epe).
  pose proof (Bd_opt l IHl false false (Some KRBrack) pl ltac:(destruct l; [exact hl|exact I]) epl).
  ntsimp. destruct l; cbn [ExprFull_base.fullo] in *; unfold ExprFull_base.full in *; ntsimp; lia.
Qed.

(* the elements of lists *)
Lemma fold_ext {A} (f g : A -> nat -> nat) c l : (forall a acc, f a acc = g a acc) -> fold_right f c l = fold_right g c l.
Proof. intros h. induction l as [|a r IH]; [reflexivity|]. cbn [fold_right]. rewrite IH. apply h. Qed.

Definition okargs' (fin : tk) : list ex -> bool :=
  fix go (l : list ex) : bool :=
    match l with
    | [] => true
    | a :: r => ok false false a (sep_next (is_nil r) KComma fin) && go r
    end.

Lemma okargs_in fin : forall l, okargs' fin l = true -> forall a, In a l -> exists nxt, ok false false a nxt = true.
Proof.
  induction l as [|x r IH]; intros h a hin; [contradiction|]. cbn [okargs'] in h. apply andb_prop in h. destruct h as [h1 h2].
  destruct hin as [<- | hin]; [eexists; exact h1|apply (IH h2 a hin)].
Qed.

Lemma Bd_call p f args v : Bd f -> Forall Bd args -> Bd (XCall p f args v).
Proof.
  intros IHf IHargs ty el nxt ps hok hpp. cbn [ExprFullOk.ok] in hok. destruct ty; [discriminate|]. cbn [negb andb] in hok.
  apply andb_prop in hok. destruct hok as [hok hargs]. apply andb_prop in hok. destruct hok as [hf _].
  change (okargs' (if v then KEllipsis else KRP) args = true) in hargs.
  cbn [ExprFullM.pp] in hpp.
  destruct (pp f) as [pf|] eqn:epf; [|discriminate].
  destruct (join_opt comma_sp (map pp args)) as [pa|] eqn:epa; [|discriminate]. injection hpp as <-.
  destruct (join_opt_F2 _ _ _ _ epa) as [ls [hF2 ->]].
  assert (hfb : (cost false f + need false f + 6 <= 8 * nt pf)%nat).
  { destruct (np_call f); [apply (IHf false false (Some KRP) pf hf epf)|].
    apply andb_prop in hf. destruct hf as [_ hf]. apply (IHf false el (Some KLP) pf hf epf). }
  assert (hab : (fold_right (fun a acc => S (full false a) + acc)%nat 3%nat args <= 3 + 8 * nt (sep_by comma_sp ls))%nat).
  { apply (fold_bound (fun a => S (full false a)) pp comma_sp 3 args ls hF2).
    intros a q hin hq. destruct (okargs_in _ args hargs a hin) as [nx hx].
    rewrite Forall_forall in IHargs. pose proof (IHargs a hin false false nx q hx hq). unfold ExprFull_base.full. lia. }
  cbn [ExprFull_base.cost ExprFull_base.need].
  replace (fold_right (fun a acc => S (cost false a + need false a + 2 + acc)) 3%nat args)
    with (fold_right (fun a acc => S (full false a) + acc)%nat 3%nat args) by (apply fold_ext; intros; reflexivity).
  ntsimp. unfold ExprFull_base.full in *. destruct (np_call f), v; ntsimp; lia.
Qed.

Lemma if_le (b : bool) (x y z : nat) : (b = true -> (x <= z)%nat) -> (b = false -> (y <= z)%nat) -> ((if b then x else y) <= z)%nat.
Proof. destruct b; auto. Qed.

Lemma if_true_eq (b : bool) {A} (x y : A) : b = true -> (if b then x else y) = x.
Proof. intros ->. reflexivity. Qed.
Lemma if_false_eq (b : bool) {A} (x y : A) : b = false -> (if b then x else y) = y.
Proof. intros ->. reflexivity. Qed.

Definition kvp (kv : option ex * ex) : option (list pc) :=
  match fst kv with
  | None => pp (snd kv)
  | Some k => match pp k, pp (snd kv) with
              | Some pk, Some pv => Some (pk ++ [PcT KColon; PcS] ++ pv)
              | _, _ => None
              end
  end.

Definition okelems' : list (option ex * ex) -> bool :=
  fix go (l : list (option ex * ex)) : bool :=
    match l with
    | [] => true
    | (k, v) :: r =>
      (match k with Some k' => ok false true k' (Some KColon) | None => true end) &&
      ok false true v (sep_next (is_nil r) KComma KRBrace) && go r
    end.

Lemma okelems_in : forall l, okelems' l = true -> forall kv, In kv l ->
  (match fst kv with Some k => exists nxt, ok false true k nxt = true | None => True end) /\ exists nxt, ok false true (snd kv) nxt = true.
Proof.
  induction l as [|[k v] r IH]; intros h kv hin; [contradiction|]. cbn [okelems'] in h.
  apply andb_prop in h. destruct h as [h h3]. apply andb_prop in h. destruct h as [h1 h2].
  destruct hin as [<- | hin]; [|apply (IH h3 kv hin)]. cbn [fst snd]. split; [destruct k; [eexists; exact h1|exact I]|eexists; exact h2].
Qed.

Lemma Bd_complit p t kvs : Qo Bd t -> Forall (fun kv => Qo Bd (fst kv) /\ Bd (snd kv)) kvs -> Bd (XCompLit p t kvs).
Proof.
  intros IHt IHkvs ty el nxt ps hok hpp. cbn [ExprFullOk.ok] in hok. destruct ty; [discriminate|]. cbn [negb andb] in hok.
  apply andb_prop in hok. destruct hok as [hok hkvs]. apply andb_prop in hok. destruct hok as [hexp ht].
  change (okelems' kvs = true) in hkvs.
  cbn [ExprFullM.pp] in hpp.
  destruct (opt_pieces (omap pp t)) as [pt|] eqn:ept; [|discriminate].
  assert (htb : (match t with Some t' => cost false t' + need false t' + 6 | None => 0 end <= 8 * nt pt + 0)%nat).
  { destruct t as [t'|]; cbn [omap opt_pieces Qo] in *; [|lia].
    apply andb_prop in ht. destruct ht as [_ ht]. pose proof (IHt false el _ pt ht ept). lia. }
  assert (hel : exists pk, (nt ps = nt pt + 2 + nt pk)%nat /\
            ((if expanded then fold_right (fun (kv : option ex * ex) acc =>
                   S (match fst kv with Some k => full false k | None => 0 end + full false (snd kv) + acc)) 3%nat kvs else 3) <= 3 + 8 * nt pk)%nat).
  { apply if_split in hpp. destruct hpp as [[hx hpp]|[hx hpp]].
    - destruct (join_opt comma_sp _) as [pk|] eqn:epk; [|discriminate]. injection hpp as <-.
      destruct (join_opt_F2 comma_sp kvp kvs pk epk) as [ls [hF2 ->]]. exists (sep_by comma_sp ls). split; [ntsimp; lia|].
      rewrite (if_true_eq expanded _ _ hx).
      replace (fold_right (fun (kv : option ex * ex) acc =>
                 S (match fst kv with Some k => full false k | None => 0 end + full false (snd kv) + acc)) 3%nat kvs)
        with (fold_right (fun kv acc => S (match fst kv with Some k => full false k | None => 0 end + full false (snd kv)) + acc)%nat 3%nat kvs)
        by (apply fold_ext; intros; reflexivity).
      apply (fold_bound (fun kv => S (match fst kv with Some k => full false k | None => 0 end + full false (snd kv))) kvp comma_sp 3 kvs ls hF2).
      intros kv q hin hq. destruct (okelems_in kvs hkvs kv hin) as [hk [nv hv]].
      rewrite Forall_forall in IHkvs. destruct (IHkvs kv hin) as [IHk IHv].
      unfold kvp in hq. destruct kv as [[k|] v]; cbn [fst snd] in *.
      + destruct hk as [nk hk]. destruct (pp k) as [pk'|] eqn:epk'; [|discriminate]. destruct (pp v) as [pv|] eqn:epv; [|discriminate].
        injection hq as <-. pose proof (IHk false true nk pk' hk epk'). pose proof (IHv false true nv pv hv epv).
        unfold ExprFull_base.full. ntsimp. lia.
      + pose proof (IHv false true nv q hv hq). unfold ExprFull_base.full. lia.
    - exists []. rewrite (if_false_eq expanded _ _ hx). split; [|ntsimp; lia]. rewrite hx in hexp. cbn [orb] in hexp.
      destruct kvs; [|discriminate]. injection hpp as <-. ntsimp. lia. }
  destruct hel as [pk [hnt hb]].
  cbn [ExprFull_base.cost ExprFull_base.need]. rewrite hnt. unfold ExprFull_base.full in *.
  destruct t as [t'|]; lia.
Qed.

(* a sum over a list related to its printed pieces *)
Lemma fold_bound_R {A} (w : A -> nat) (R : A -> list pc -> Prop) sep (c0 : nat) : forall l ls,
  Forall2 R l ls -> (forall a q, In a l -> R a q -> (w a <= 8 * nt q)%nat) ->
  (fold_right (fun a acc => w a + acc)%nat c0 l <= c0 + 8 * nt (sep_by sep ls))%nat.
Proof.
  intros l ls hF hw.
  assert (h : (fold_right (fun a acc => w a + acc)%nat c0 l <= c0 + 8 * fold_right (fun l a => nt l + a)%nat 0%nat ls)%nat).
  { induction hF as [|a q l ls hq hr IH]; [cbn; lia|]. cbn [fold_right].
    pose proof (hw a q (or_introl eq_refl) hq).
    assert (fold_right (fun a acc => w a + acc)%nat c0 l <= c0 + 8 * fold_right (fun l a => nt l + a)%nat 0%nat ls)%nat.
    { apply IH. intros a' q' hin. apply hw. right. exact hin. }
    lia. }
  pose proof (nt_sep_ge sep ls). lia.
Qed.

(* struct types *)
Definition fldp (fd : field) : option (list pc) :=
  match pp (snd (fst fd)) with
  | Some pt =>
    Some (sep_by [PcT KComma; PcS] (map (fun a => ExprFullM.T (KIdent (ident_text a))) (fst (fst fd))) ++
          (match fst (fst fd) with [] => [] | _ :: _ => [PcS] end) ++ pt ++
          (match snd fd with [] => [] | _ :: _ => [PcS; PcT (KLit lit_string (backquote (snd fd)))] end))
  | None => None
  end.

Notation embedded_ok := (embedded_ok op_string op_pointer sym_mul).

Definition okfields' : list field -> bool :=
  fix go (l : list field) : bool :=
    match l with
    | [] => true
    | (names, t, tag) :: r =>
      let after := if is_nil tag then (if is_nil r then KRBrace else KSemi)
                   else KLit lit_string (backquote tag) in
      forallb (fun a => negb (has_prefix itea a)) names &&
      (match names with
       | [] => embedded_ok t
       | _ :: _ => ok true false t (Some after)
       end) && go r
    end.

Lemma okfields_in : forall l, okfields' l = true -> forall fd, In fd l ->
  match fst (fst fd) with [] => embedded_ok (snd (fst fd)) = true | _ :: _ => exists nxt, ok true false (snd (fst fd)) nxt = true end.
Proof.
  induction l as [|[[names t] tag] r IH]; intros h fd hin; [contradiction|]. cbn [okfields'] in h.
  apply andb_prop in h. destruct h as [h h3]. apply andb_prop in h. destruct h as [_ h2].
  destruct hin as [<- | hin]; [|apply (IH h3 fd hin)]. cbn [fst snd]. destruct names; [exact h2|eexists; exact h2].
Qed.

Lemma Bd_struct p fs : Forall (fun fd : field => Bd (snd (fst fd))) fs -> Bd (XStruct p fs).
Proof.
  intros IHfs ty el nxt ps hok hpp. cbn [ExprFullOk.ok] in hok. change (okfields' fs = true) in hok.
  cbn [ExprFullM.pp] in hpp.
  destruct (join_opt [PcT KSemi; PcS] _) as [pf|] eqn:epf; [|discriminate]. injection hpp as <-.
  destruct (join_opt_F2 [PcT KSemi; PcS] fldp fs pf epf) as [ls [hF2 ->]].
  assert (hb : (fold_right (fun (fd : field) acc => (4 + full true (snd (fst fd))) + acc)%nat 0%nat fs <= 0 + 8 * nt (sep_by [PcT KSemi; PcS] ls))%nat).
  { apply (fold_bound (fun fd : field => (4 + full true (snd (fst fd)))%nat) fldp [PcT KSemi; PcS] 0 fs ls hF2).
    intros fd q hin hq. pose proof (okfields_in fs hok fd hin) as hfd.
    rewrite Forall_forall in IHfs. pose proof (IHfs fd hin) as IHt.
    destruct fd as [[names t] tag]. unfold fldp in hq. cbn [fst snd] in *.
    destruct (pp t) as [pt|] eqn:ept; [|discriminate]. injection hq as <-.
    destruct names as [|a bs].
    - (* embedded: T, p.T, *T, *p.T *)
      assert (h : (full true t + 4 <= 8 * nt pt)%nat).
      { unfold ExprFullOk.embedded_ok in hfd. unfold ExprFull_base.full.
        assert (hbase : forall b pb, base_ok b = true -> pp b = Some pb ->
                  is_operator b = false /\ (cost true b + need true b = 1)%nat /\ (1 <= nt pb)%nat).
        { intros b pb hb hpb. destruct b; try discriminate.
          - cbn [ExprFullM.pp] in hpb. injection hpb as <-. repeat split; cbn; lia.
          - destruct b; try discriminate. cbn [ExprFullM.pp] in hpb. injection hpb as <-. repeat split; cbn; lia. }
        destruct (match t with XUn _ _ _ => true | _ => false end) eqn:eun.
        - destruct t as [| |pu op t| | | | | | | | | | | | | | | | |]; try discriminate.
          apply andb_prop in hfd. destruct hfd as [_ hb].
          cbn [ExprFullM.pp] in ept. inv_pp ept. subst pt.
          match goal with h1 : pp t = Some ?pb |- _ => destruct (hbase t pb hb h1) as [hnop [hc hn]] end.
          cbn [ExprFull_base.cost ExprFull_base.need].
          match goal with h1 : np_un op t = Some ?b |- _ => rewrite (wrapped_un_eq _ _ _ _ _ _ h1);
            rewrite (np_un_nonop _ _ _ op t hnop) in h1; injection h1 as <- end.
          ntsimp. lia.
        - assert (hok' : base_ok t = true) by (destruct t; try discriminate eun; exact hfd).
          destruct (hbase t pt hok' ept) as [_ [hc hn]]. lia. }
      ntsimp. lia.
    - destruct hfd as [nx hx]. pose proof (IHt true false nx pt hx ept). unfold ExprFull_base.full. ntsimp. lia. }
  cbn [ExprFull_base.cost ExprFull_base.need].
  replace (fold_right (fun (fd : field) acc => (4 + (cost true (snd (fst fd)) + need true (snd (fst fd)) + 2) + acc)%nat) 0%nat fs)
    with (fold_right (fun (fd : field) acc => (4 + full true (snd (fst fd))) + acc)%nat 0%nat fs) by (apply fold_ext; intros; reflexivity).
  ntsimp. lia.
Qed.

(* function types *)
Definition ppq' (q : param) : option bytes * option (option (list pc)) := (fst q, omap pp (snd q)).

Definition okplist' (nm v : bool) : list param -> bool :=
  fix go (l : list param) : bool :=
    match l with
    | [] => true
    | (name, t) :: r =>
      (if nm then is_some name else negb (is_some name) && is_some t) &&
      (match t with
       | Some t' => ok true false t' (sep_next (is_nil r) KComma KRP)
       | None => negb (is_nil r)
       end) &&
      (match r with
       | [_] => if v then is_some t else true
       | _ => true
       end) &&
      go r
    end.

Lemma okplist_in nm v : forall l, okplist' nm v l = true -> forall q, In q l ->
  match snd q with Some t => exists nxt, ok true false t nxt = true | None => fst q <> None end.
Proof.
  induction l as [|[name t] r IH]; intros h q hin; [contradiction|]. cbn [okplist'] in h.
  apply andb_prop in h. destruct h as [h h4]. apply andb_prop in h. destruct h as [h _]. apply andb_prop in h. destruct h as [h1 h2].
  destruct hin as [<- | hin]; [|apply (IH h4 q hin)]. cbn [fst snd]. destruct t as [t|]; [eexists; exact h2|].
  destruct name; [discriminate|]. exfalso. destruct nm; cbn in h1; discriminate h1.
Qed.

(* the piece of a parameter has the tokens of its type and of its name *)
Definition Rq (q : param) (pc0 : list pc) : Prop :=
  match q with
  | (name, Some t) => exists pt, pp t = Some pt /\ (nt pt + (match name with Some _ => 1 | None => 0 end) <= nt pc0)%nat
  | (Some _, None) => (1 <= nt pc0)%nat
  | (None, None) => False
  end.

Lemma param_pieces_R q pc0 : param_pieces (ppq' q) = Some pc0 -> Rq q pc0.
Proof.
  destruct q as [[a|] [t|]]; unfold ppq'; cbn [fst snd omap param_pieces Rq]; intros h.
  - destruct (pp t) as [pt|]; [|discriminate]. injection h as <-. exists pt. split; [reflexivity|]. ntsimp. lia.
  - injection h as <-. ntsimp. lia.
  - destruct (pp t) as [pt|]; [|discriminate]. injection h as <-. exists pt. split; [reflexivity|]. lia.
  - discriminate.
Qed.

Lemma pieces_R v : forall l ls, seq_opt (params_pieces v (map ppq' l)) = Some ls -> Forall2 Rq l ls.
Proof.
  induction l as [|q l IH]; intros ls hls.
  - cbn [map params_pieces seq_opt] in hls. injection hls as <-. constructor.
  - destruct l as [|q2 l'].
    + cbn [map] in hls. cbn [params_pieces] in hls.
      assert (hone : exists pc0, ls = [pc0] /\ Rq q pc0).
      { destruct v.
        - destruct q as [name [t|]]; unfold ppq' in hls; cbn [fst snd omap] in hls.
          + destruct (pp t) as [pt|] eqn:ept; cbn [seq_opt] in hls; [|discriminate]. injection hls as <-.
            eexists. split; [reflexivity|]. destruct name; unfold Rq; (exists pt; split; [exact ept|]; ntsimp; lia).
          + destruct (param_pieces (name, None)) as [pc0|] eqn:e0; cbn [seq_opt] in hls; [|discriminate]. injection hls as <-.
            eexists. split; [reflexivity|]. apply param_pieces_R. exact e0.
        - destruct (param_pieces (ppq' q)) as [pc0|] eqn:e0; cbn [seq_opt] in hls; [|discriminate]. injection hls as <-.
          eexists. split; [reflexivity|]. apply param_pieces_R. exact e0. }
      destruct hone as [pc0 [-> hr]]. constructor; [exact hr|constructor].
    + change (map ppq' (q :: q2 :: l')) with (ppq' q :: map ppq' (q2 :: l')) in hls.
      change (params_pieces v (ppq' q :: map ppq' (q2 :: l'))) with (param_pieces (ppq' q) :: params_pieces v (map ppq' (q2 :: l'))) in hls.
      cbn [seq_opt] in hls. destruct (param_pieces (ppq' q)) as [pc0|] eqn:e0; [|discriminate].
      destruct (seq_opt (params_pieces v (map ppq' (q2 :: l')))) as [ls'|] eqn:els; [|discriminate]. injection hls as <-.
      constructor; [apply param_pieces_R; exact e0|apply IH; reflexivity].
Qed.

Definition needpl' (l : list param) : nat :=
  fold_right (fun (q : param) (a : nat) => (4 + fullo (full true) (snd q) + a)%nat) 0%nat l.

Lemma needpl_bound nm v l ls : Forall (fun q : param => Qo Bd (snd q)) l ->
  okplist' nm v l = true -> seq_opt (params_pieces v (map ppq' l)) = Some ls ->
  (needpl' l <= 8 * nt (sep_by comma_sp ls))%nat.
Proof.
  intros IH hok hls. pose proof (pieces_R v l ls hls) as hF2.
  pose proof (fold_bound_R (fun q : param => (4 + fullo (full true) (snd q))%nat) Rq comma_sp 0 l ls hF2) as hb.
  unfold needpl'. cbn [Nat.add] in hb. apply hb. clear hb.
  intros q pc0 hin hr. pose proof (okplist_in nm v l hok q hin) as hq.
  rewrite Forall_forall in IH. pose proof (IH q hin) as IHq.
  destruct q as [[a|] [t|]]; unfold Rq in hr; cbn [fst snd ExprFull_base.fullo Qo] in *.
  - destruct hr as [pt [hpt hn]]. destruct hq as [nx hx]. pose proof (IHq true false nx pt hx hpt). unfold ExprFull_base.full. lia.
  - lia.
  - destruct hr as [pt [hpt hn]]. destruct hq as [nx hx]. pose proof (IHq true false nx pt hx hpt). unfold ExprFull_base.full. lia.
  - contradiction.
Qed.

Lemma Bd_func p macro ps rs v :
  Forall (fun q : param => Qo Bd (snd q)) ps -> Forall (fun q : param => Qo Bd (snd q)) rs -> Bd (XFunc p macro ps rs v).
Proof.
  intros IHps IHrs ty el nxt pcs hok hpp. cbn [ExprFullOk.ok] in hok.
  apply andb_prop in hok. destruct hok as [hok hres].
  apply andb_prop in hok. destruct hok as [hok hps]. clear hok.
  change (okplist' (named_of ps) v ps = true) in hps.
  cbn [ExprFullM.pp] in hpp.
  change (map (fun q : option bytes * option ex => (fst q, omap pp (snd q))) ps) with (map ppq' ps) in hpp.
  destruct (join_opt comma_sp (params_pieces v (map ppq' ps))) as [pa|] eqn:epa; [|discriminate].
  assert (hpa : (needpl' ps <= 8 * nt pa)%nat).
  { unfold join_opt in epa. destruct (seq_opt _) as [ls|] eqn:els; [|discriminate]. injection epa as <-.
    apply (needpl_bound (named_of ps) v ps ls IHps hps els). }
  assert (hR : exists pr, nt pcs = (3 + nt pa + nt pr)%nat /\
                 (match rs with [(None, Some t)] => full true t | _ => needpl' rs end <= 8 * nt pr)%nat).
  { assert (hlist : forall pr, join_opt comma_sp (map (fun q : param => param_pieces (fst q, omap pp (snd q))) rs) = Some pr ->
              okplist' (named_of rs) false rs = true -> (needpl' rs <= 8 * nt pr)%nat).
    { intros pr hj hokr. unfold join_opt in hj. destruct (seq_opt _) as [ls|] eqn:els; [|discriminate]. injection hj as <-.
      apply (needpl_bound (named_of rs) false rs ls IHrs hokr).
      rewrite params_pieces_false, map_map. exact els. }
    destruct macro.
    - destruct rs as [|[[a|] [t|]] rs']; try (cbn beta iota in hres; discriminate hres).
      destruct t; try (cbn beta iota in hres; discriminate hres). destruct rs' as [|q rs']; try (cbn beta iota in hres; discriminate hres).
      cbn [ExprFullM.pp omap] in hpp. injection hpp as <-. exists (ExprFullM.T (KIdent (ident_text name))). split; [ntsimp; lia|].
      unfold ExprFull_base.full. cbn [ExprFull_base.cost ExprFull_base.need]. ntsimp. lia.
    - destruct rs as [|[[a|] [t|]] [|q rs']].
      + injection hpp as <-. exists []. split; [ntsimp; lia|]. cbn. lia.
      + destruct (join_opt comma_sp _) as [pr|] eqn:epr in hpp; [|discriminate]. injection hpp as <-.
        exists (ExprFullM.T KLP ++ pr ++ ExprFullM.T KRP). split; [ntsimp; lia|]. pose proof (hlist pr epr hres). ntsimp. lia.
      + destruct (join_opt comma_sp _) as [pr|] eqn:epr in hpp; [|discriminate]. injection hpp as <-.
        exists (ExprFullM.T KLP ++ pr ++ ExprFullM.T KRP). split; [ntsimp; lia|]. pose proof (hlist pr epr hres). ntsimp. lia.
      + destruct (join_opt comma_sp _) as [pr|] eqn:epr in hpp; [|discriminate]. injection hpp as <-.
        exists (ExprFullM.T KLP ++ pr ++ ExprFullM.T KRP). split; [ntsimp; lia|]. pose proof (hlist pr epr hres). ntsimp. lia.
      + destruct (join_opt comma_sp _) as [pr|] eqn:epr in hpp; [|discriminate]. injection hpp as <-.
        exists (ExprFullM.T KLP ++ pr ++ ExprFullM.T KRP). split; [ntsimp; lia|]. pose proof (hlist pr epr hres). ntsimp. lia.
      + apply andb_prop in hres. destruct hres as [_ hokt].
        destruct (pp t) as [pt|] eqn:ept; [|discriminate]. injection hpp as <-.
        inversion IHrs as [|x y hAt _]. subst x y. cbn [snd Qo] in hAt.
        exists pt. split; [ntsimp; lia|]. pose proof (hAt true false nxt pt hokt ept). unfold ExprFull_base.full. lia.
      + destruct (join_opt comma_sp _) as [pr|] eqn:epr in hpp; [|discriminate]. injection hpp as <-.
        exists (ExprFullM.T KLP ++ pr ++ ExprFullM.T KRP). split; [ntsimp; lia|]. pose proof (hlist pr epr hres). ntsimp. lia.
      + discriminate.
      + destruct (join_opt comma_sp _) as [pr|] eqn:epr in hpp; [|discriminate]. injection hpp as <-.
        exists (ExprFullM.T KLP ++ pr ++ ExprFullM.T KRP). split; [ntsimp; lia|]. pose proof (hlist pr epr hres). ntsimp. lia. }
  destruct hR as [pr [hnt hr]].
  assert (hneed : need ty (XFunc p macro ps rs v) = (8 + needpl' ps + match rs with [(None, Some t)] => full true t | _ => needpl' rs end)%nat) by reflexivity.
  rewrite hneed, hnt. cbn [ExprFull_base.cost]. lia.
Qed.

Theorem Bd_all : forall e, Bd e.
Proof.
  apply ex_ind2.
  - apply Bd_ident.
  - apply Bd_lit.
  - apply Bd_un.
  - apply Bd_bin.
  - apply Bd_call.
  - apply Bd_index.
  - apply Bd_slicing.
  - apply Bd_sel.
  - apply Bd_typeassert.
  - apply Bd_complit.
  - apply Bd_map.
  - apply Bd_slice.
  - apply Bd_array.
  - apply Bd_chan.
  - apply Bd_func.
  - apply Bd_struct.
  - apply Bd_interface.
  - apply Bd_default.
  - apply Bd_render.
  - apply Bd_funclit.
Qed.

(* the fuel of parse_top suffices *)
Theorem fuel_enough : forall e ty el nxt ps suffix, ok ty el e nxt = true -> pp e = Some ps ->
  (full ty e <= fuel_of (toks ps ++ suffix))%nat.
Proof.
  intros e ty el nxt ps suffix hok hpp. pose proof (Bd_all e ty el nxt ps hok hpp) as h.
  unfold ExprFull_base.full, fuel_of, nt in *. rewrite app_length. lia.
Qed.

End Fuel.
