(* C27 over the primary-expression grammar: the fuel that parse_top gives the
   parser (8 units per token) is more than the parse of a printable expression
   takes. *)
From Coq Require Import List NArith Bool Lia Arith.
From Verif Require Import Bytes ExprFullM ExprFullOk ExprFull_base ExprFull_eqs ExprFull_main.
Import ListNotations.
Open Scope N_scope.

Section Fuel.
Variable op_string : list (N * bytes).
Variable bin_prec : list (N * N).
Variable un_prec : N.
Variable unary_tokens : list (bytes * N).
Variable binary_tokens : list (bytes * N).
Variable op_receive op_pointer op_extended_not op_not_contains : N.
Variable lit_string : N.
Variable dir_none dir_recv dir_send : N.
Variable kw_text : kwd -> bytes.
Variable sym_arrow sym_mul sym_not sym_contains : bytes.
Variable name_ident name_lbrack : bytes.
Variable result_start : list bytes.
Variable macro_results : list bytes.
Variable quote : bytes -> bytes.
Variable valid_path : bytes -> bool.
Variable expanded : bool.
Variable tmpl : bool.

Notation pp := (pp op_string bin_prec un_prec op_receive op_pointer op_extended_not lit_string dir_recv dir_send sym_arrow quote expanded).
Notation ok := (ok op_string bin_prec un_prec unary_tokens binary_tokens op_receive op_pointer op_extended_not op_not_contains lit_string dir_none dir_recv dir_send sym_arrow sym_mul sym_not sym_contains name_ident name_lbrack kw_text result_start macro_results quote valid_path expanded tmpl).
Notation cost := (cost bin_prec un_prec op_receive op_pointer).
Notation need := (need bin_prec un_prec op_receive op_pointer expanded).
Notation full := (full bin_prec un_prec op_receive op_pointer expanded).
Notation np_un := (np_un bin_prec un_prec op_receive).
Notation np_bin := (np_bin bin_prec un_prec).
Notation np_call := (np_call op_receive op_pointer).
Notation wrapped_un := (wrapped_un bin_prec un_prec op_receive).
Notation wrapped_bin := (wrapped_bin bin_prec un_prec).
Notation spell := (spell op_string).
Notation xun_ok := (xun_ok op_string unary_tokens op_receive sym_arrow).

Definition nt (ps : list pc) : nat := length (toks ps).

Lemma nt_app a b : nt (a ++ b) = (nt a + nt b)%nat.
Proof. unfold nt. rewrite toks_app, app_length. reflexivity. Qed.

Lemma nt_wrapp b ps : nt (wrapp b ps) = (nt ps + if b then 2 else 0)%nat.
Proof. unfold nt. rewrite toks_wrapp. destruct b; [cbn [length]; rewrite app_length; cbn [length]; lia|lia]. Qed.

Lemma nt_sep_ge sep ls : (fold_right (fun l a => nt l + a)%nat 0%nat ls <= nt (sep_by sep ls))%nat.
Proof.
  induction ls as [|x r IH]; [cbn; lia|]. rewrite sep_by_cons. destruct r as [|y r'].
  - cbn [fold_right]. lia.
  - rewrite !nt_app. cbn [fold_right] in *. lia.
Qed.

(* a sum over a list printed with separators *)
Lemma fold_bound {A} (w : A -> nat) (f : A -> option (list pc)) sep (c0 : nat) : forall l ls,
  Forall2 (fun a q => f a = Some q) l ls ->
  (forall a q, In a l -> f a = Some q -> (w a <= 8 * nt q)%nat) ->
  (fold_right (fun a acc => w a + acc)%nat c0 l <= c0 + 8 * nt (sep_by sep ls))%nat.
Proof.
  intros l ls hF hw.
  assert (h : (fold_right (fun a acc => w a + acc)%nat c0 l <= c0 + 8 * fold_right (fun l a => nt l + a)%nat 0%nat ls)%nat).
  { induction hF as [|a q l ls hq hr IH]; [cbn; lia|]. cbn [fold_right].
    pose proof (hw a q (or_introl eq_refl) hq). 
    assert (fold_right (fun a acc => w a + acc)%nat c0 l <= c0 + 8 * fold_right (fun l a => nt l + a)%nat 0%nat ls)%nat.
    { apply IH. intros a' q' hin. apply hw. right. exact hin. }
    lia. }
  pose proof (nt_sep_ge sep ls). lia.
Qed.

Ltac inv_pp h :=
  repeat match type of h with
  | match ?x with _ => _ end = Some _ => let e := fresh "e" in destruct x eqn:e; try discriminate h
  | (if ?x then _ else _) = Some _ => let e := fresh "e" in destruct x eqn:e; try discriminate h
  | Some _ = Some _ => injection h as h
  end.

Definition Bd (e : ex) : Prop :=
  forall ty el nxt ps, ok ty el e nxt = true -> pp e = Some ps -> (cost ty e + need ty e + 6 <= 8 * nt ps)%nat.

Lemma nt_T t : nt (ExprFullM.T t) = 1%nat.
Proof. reflexivity. Qed.

Lemma nt_op_un s : is_nil s = false -> no_byte 32 s = true -> nt (op_pieces s) = 1%nat.
Proof. intros h1 h2. unfold nt. rewrite (op_pieces_one s h1 h2). reflexivity. Qed.

Lemma nt_consT t r : nt (PcT t :: r) = S (nt r).
Proof. reflexivity. Qed.
Lemma nt_consS r : nt (PcS :: r) = nt r.
Proof. reflexivity. Qed.
Lemma nt_nil : nt [] = 0%nat.
Proof. reflexivity. Qed.

Ltac ntsimp := repeat (progress (rewrite ?nt_app, ?nt_wrapp, ?nt_T, ?nt_consT, ?nt_consS, ?nt_nil)).

Lemma Bd_opt (o : option ex) : Qo Bd o -> forall ty el nxt po,
  match o with Some a => ok ty el a nxt = true | None => True end -> opt_pieces (omap pp o) = Some po ->
  (fullo (full ty) o + 3 <= 8 * nt po + 6)%nat.
Proof.
  intros hB ty el nxt po hok hpp. destruct o as [a|]; cbn [omap opt_pieces Qo ExprFull_base.fullo] in *.
  - pose proof (hB ty el nxt po hok hpp). unfold ExprFull_base.full. lia.
  - lia.
Qed.

Lemma Bd_un p op x : Bd x -> Bd (XUn p op x).
Proof.
  intros IHx ty el nxt ps hok hpp. cbn [ExprFullOk.ok] in hok.
  apply andb_prop in hok. destruct hok as [hok hch].
  apply andb_prop in hok. destruct hok as [hok _].
  apply andb_prop in hok. destruct hok as [hun _].
  cbn [ExprFullM.pp] in hpp.
  destruct (spell op) as [s|] eqn:es; [|discriminate].
  destruct (np_un op x) as [b|] eqn:enp; [|discriminate].
  destruct (pp x) as [px|] eqn:epx; [|discriminate]. injection hpp as <-.
  unfold ExprFullOk.xun_ok in hun. rewrite es in hun.
  apply andb_prop in hun. destruct hun as [hun _]. apply andb_prop in hun. destruct hun as [hne hsp]. apply negb_true_iff in hne.
  cbn [ExprFull_base.cost ExprFull_base.need]. rewrite (wrapped_un_eq _ _ _ _ _ _ enp).
  rewrite !nt_app, nt_wrapp, (nt_op_un s hne hsp).
  destruct b.
  - pose proof (IHx ty false (Some KRP) px hch epx). unfold ExprFull_base.full. lia.
  - apply andb_prop in hch. destruct hch as [_ hch]. pose proof (IHx ty el nxt px hch epx). lia.
Qed.

Lemma Bd_bin p op l r : Bd l -> Bd r -> Bd (XBin p op l r).
Proof.
  intros IHl IHr ty el nxt ps hok hpp. cbn [ExprFullOk.ok] in hok. destruct ty; [discriminate|]. cbn [negb andb] in hok.
  apply andb_prop in hok. destruct hok as [hok hch].
  cbn [ExprFullM.pp] in hpp.
  destruct (np_bin op l) as [bl|] eqn:enl; [|discriminate].
  destruct (pp l) as [pl|] eqn:epl; [|discriminate].
  destruct (spell op) as [s|] eqn:es; [|discriminate].
  destruct (np_bin op r) as [br|] eqn:enr; [|discriminate].
  destruct (pp r) as [pr|] eqn:epr; [|discriminate]. injection hpp as <-.
  apply andb_prop in hch. destruct hch as [hcl hcr].
  cbn [ExprFull_base.cost ExprFull_base.need]. rewrite (wrapped_bin_eq _ _ _ _ _ enl), (wrapped_bin_eq _ _ _ _ _ enr).
  change (PcS :: op_pieces s ++ PcS :: wrapp br pr) with ([PcS] ++ op_pieces s ++ [PcS] ++ wrapp br pr).
  rewrite !nt_app, !nt_wrapp. unfold ExprFull_base.full.
  assert (hl : (cost false l + need false l + 6 <= 8 * nt pl)%nat) by (destruct bl; eapply IHl; eassumption).
  assert (hr : (cost false r + need false r + 6 <= 8 * nt pr)%nat) by (destruct br; eapply IHr; eassumption).
  destruct bl, br; lia.
Qed.

Ltac leafB := intros ty el nxt ps hok hpp; cbn [ExprFullM.pp] in hpp; injection hpp as <-;
  cbn [ExprFull_base.cost ExprFull_base.need]; ntsimp; try lia.

Lemma Bd_ident p a : Bd (XIdent p a). Proof. leafB. Qed.
Lemma Bd_lit p k s : Bd (XLit p k s). Proof. leafB. Qed.
Lemma Bd_interface p : Bd (XInterface p). Proof. leafB. Qed.
Lemma Bd_render p s : Bd (XRender p s). Proof. leafB. Qed.
Lemma Bd_funclit p : Bd (XFuncLit p). Proof. intros ty el nxt ps hok. cbn [ExprFullOk.ok] in hok. discriminate. Qed.

(* the operand of a postfix form *)
Ltac post_split h hx := apply andb_prop in h; destruct h as [h hx]; apply andb_prop in h; destruct h as [_ _].

Lemma Bd_index p x i : Bd x -> Bd i -> Bd (XIndex p x i).
Proof.
  intros IHx IHi ty el nxt ps hok hpp. cbn [ExprFullOk.ok] in hok. destruct ty; [discriminate|]. cbn [negb andb] in hok.
  apply andb_prop in hok. destruct hok as [hok hi]. apply andb_prop in hok. destruct hok as [_ hx].
  cbn [ExprFullM.pp] in hpp. inv_pp hpp. subst ps.
  cbn [ExprFull_base.cost ExprFull_base.need]. ntsimp. unfold ExprFull_base.full.
  match goal with h1 : pp x = Some ?a, h2 : pp i = Some ?b |- _ =>
    pose proof (IHx false el _ a hx h1); pose proof (IHi false false _ b hi h2) end. lia.
Qed.

Lemma Bd_sel p x name : Bd x -> Bd (XSel p x name).
Proof.
  intros IHx ty el nxt ps hok hpp. cbn [ExprFullOk.ok] in hok. cbn [ExprFullM.pp] in hpp. inv_pp hpp. subst ps.
  cbn [ExprFull_base.cost ExprFull_base.need]. ntsimp. destruct ty.
  - lia.
  - apply andb_prop in hok. destruct hok as [_ hx].
    match goal with h1 : pp x = Some ?a |- _ => pose proof (IHx false el _ a hx h1) end. lia.
Qed.

Lemma Bd_typeassert p x t : Bd x -> Qo Bd t -> Bd (XTypeAssert p x t).
Proof.
  intros IHx IHt ty el nxt ps hok hpp. cbn [ExprFullOk.ok] in hok. destruct ty; [discriminate|]. cbn [negb andb] in hok.
  apply andb_prop in hok. destruct hok as [hok ht]. apply andb_prop in hok. destruct hok as [_ hx].
  destruct t as [t'|]; [|discriminate]. cbn [Qo] in IHt. apply andb_prop in ht. destruct ht as [ht _].
  cbn [ExprFullM.pp omap opt_pieces] in hpp. inv_pp hpp. subst ps.
  cbn [ExprFull_base.cost ExprFull_base.need ExprFull_base.fullo]. ntsimp. unfold ExprFull_base.full.
  match goal with h1 : pp x = Some ?a, h2 : pp t' = Some ?b |- _ =>
    pose proof (IHx false el _ a hx h1); pose proof (IHt true false _ b ht h2) end. lia.
Qed.

Lemma Bd_default p l r : Bd l -> Bd r -> Bd (XDefault p l r).
Proof.
  intros IHl IHr ty el nxt ps hok hpp. cbn [ExprFullOk.ok] in hok. destruct ty; [discriminate|]. cbn [negb andb] in hok.
  apply andb_prop in hok. destruct hok as [hok _]. apply andb_prop in hok. destruct hok as [hok hr].
  apply andb_prop in hok. destruct hok as [_ hl].
  cbn [ExprFullM.pp] in hpp. inv_pp hpp. subst ps.
  cbn [ExprFull_base.cost ExprFull_base.need]. ntsimp. unfold ExprFull_base.full.
  match goal with h1 : pp l = Some ?a, h2 : pp r = Some ?b |- _ =>
    pose proof (IHl false el _ a hl h1); pose proof (IHr false false _ b hr h2) end.
  lia.
Qed.

Lemma Bd_slicing p x lo hi mx fl : Bd x -> Qo Bd lo -> Qo Bd hi -> Qo Bd mx -> Bd (XSlicing p x lo hi mx fl).
Proof.
  intros IHx IHlo IHhi IHmx ty el nxt ps hok hpp. cbn [ExprFullOk.ok] in hok. destruct ty; [discriminate|]. cbn [negb andb] in hok.
  apply andb_prop in hok. destruct hok as [hok hmx].
  apply andb_prop in hok. destruct hok as [hok hhi].
  apply andb_prop in hok. destruct hok as [hok hlo].
  apply andb_prop in hok. destruct hok as [hok _].
  apply andb_prop in hok. destruct hok as [_ hx].
  cbn [ExprFullM.pp] in hpp.
  destruct (pp x) as [px|] eqn:epx; [|discriminate].
  destruct (opt_pieces (omap pp lo)) as [pl|] eqn:epl; [|discriminate].
  destruct (opt_pieces (omap pp hi)) as [ph|] eqn:eph; [|discriminate].
  destruct (opt_pieces (omap pp mx)) as [pm|] eqn:epm; [|discriminate]. injection hpp as <-.
  cbn [ExprFull_base.cost ExprFull_base.need]. 
  pose proof (IHx false el _ px hx epx).
  pose proof (Bd_opt lo IHlo false false (Some KColon) pl ltac:(destruct lo; [exact hlo|exact I]) epl).
  pose proof (Bd_opt hi IHhi false false _ ph ltac:(destruct hi; [exact hhi|exact I]) eph).
  pose proof (Bd_opt mx IHmx false false (Some KRBrack) pm ltac:(destruct mx; [exact hmx|exact I]) epm).
  ntsimp. destruct lo, hi, mx; cbn [ExprFull_base.fullo] in *; unfold ExprFull_base.full in *; ntsimp; lia.
Qed.

Lemma Bd_slice p e' : Bd e' -> Bd (XSlice p e').
Proof.
  intros IHe ty el nxt ps hok hpp. cbn [ExprFullOk.ok] in hok. cbn [ExprFullM.pp] in hpp. inv_pp hpp. subst ps.
  cbn [ExprFull_base.cost ExprFull_base.need]. ntsimp. unfold ExprFull_base.full.
  match goal with h1 : pp e' = Some ?a |- _ => pose proof (IHe true false _ a hok h1) end. lia.
Qed.

Lemma Bd_chan p d e' : Bd e' -> Bd (XChan p d e').
Proof.
  intros IHe ty el nxt ps hok hpp. cbn [ExprFullOk.ok] in hok. apply andb_prop in hok. destruct hok as [_ hok].
  cbn [ExprFullM.pp] in hpp. inv_pp hpp. subst ps.
  cbn [ExprFull_base.cost ExprFull_base.need]. ntsimp. unfold ExprFull_base.full.
  match goal with h1 : pp e' = Some ?a |- _ => pose proof (IHe true false _ a hok h1) end.
  destruct (d =? dir_recv), (d =? dir_send); ntsimp; lia.
Qed.

Lemma Bd_map p k v : Qo Bd k -> Bd v -> Bd (XMap p k v).
Proof.
  intros IHk IHv ty el nxt ps hok hpp. cbn [ExprFullOk.ok] in hok. destruct k as [k'|]; [|discriminate]. cbn [Qo] in IHk.
  apply andb_prop in hok. destruct hok as [hk hv].
  cbn [ExprFullM.pp] in hpp. inv_pp hpp. subst ps.
  cbn [ExprFull_base.cost ExprFull_base.need ExprFull_base.fullo]. ntsimp. unfold ExprFull_base.full.
  match goal with h1 : pp k' = Some ?a, h2 : pp v = Some ?b |- _ =>
    pose proof (IHk true false _ a hk h1); pose proof (IHv true false _ b hv h2) end. lia.
Qed.

Lemma Bd_array p l e' : Qo Bd l -> Bd e' -> Bd (XArray p l e').
Proof.
  intros IHl IHe ty el nxt ps hok hpp. cbn [ExprFullOk.ok] in hok. apply andb_prop in hok. destruct hok as [hl he].
  cbn [ExprFullM.pp] in hpp.
  destruct (opt_pieces (omap pp l)) as [pl|] eqn:epl; [|discriminate].
  destruct (pp e') as [pe|] eqn:epe; [|discriminate]. injection hpp as <-.
  cbn [ExprFull_base.cost ExprFull_base.need].
  pose proof (IHe true false _ pe he epe).
  pose proof (Bd_opt l IHl false false (Some KRBrack) pl ltac:(destruct l; [exact hl|exact I]) epl).
  ntsimp. destruct l; cbn [ExprFull_base.fullo] in *; unfold ExprFull_base.full in *; ntsimp; lia.
Qed.

(* the elements of lists *)
Lemma fold_ext {A} (f g : A -> nat -> nat) c l : (forall a acc, f a acc = g a acc) -> fold_right f c l = fold_right g c l.
Proof. intros h. induction l as [|a r IH]; [reflexivity|]. cbn [fold_right]. rewrite IH. apply h. Qed.

Definition okargs' (fin : tk) : list ex -> bool :=
  fix go (l : list ex) : bool :=
    match l with
    | [] => true
    | a :: r => ok false false a (sep_next (is_nil r) KComma fin) && go r
    end.

Lemma okargs_in fin : forall l, okargs' fin l = true -> forall a, In a l -> exists nxt, ok false false a nxt = true.
Proof.
  induction l as [|x r IH]; intros h a hin; [contradiction|]. cbn [okargs'] in h. apply andb_prop in h. destruct h as [h1 h2].
  destruct hin as [<- | hin]; [eexists; exact h1|apply (IH h2 a hin)].
Qed.

Lemma Bd_call p f args v : Bd f -> Forall Bd args -> Bd (XCall p f args v).
Proof.
  intros IHf IHargs ty el nxt ps hok hpp. cbn [ExprFullOk.ok] in hok. destruct ty; [discriminate|]. cbn [negb andb] in hok.
  apply andb_prop in hok. destruct hok as [hok hargs]. apply andb_prop in hok. destruct hok as [hf _].
  change (okargs' (if v then KEllipsis else KRP) args = true) in hargs.
  cbn [ExprFullM.pp] in hpp.
  destruct (pp f) as [pf|] eqn:epf; [|discriminate].
  destruct (join_opt comma_sp (map pp args)) as [pa|] eqn:epa; [|discriminate]. injection hpp as <-.
  destruct (join_opt_F2 _ _ _ _ epa) as [ls [hF2 ->]].
  assert (hfb : (cost false f + need false f + 6 <= 8 * nt pf)%nat).
  { destruct (np_call f); [apply (IHf false false (Some KRP) pf hf epf)|].
    apply andb_prop in hf. destruct hf as [_ hf]. apply (IHf false el (Some KLP) pf hf epf). }
  assert (hab : (fold_right (fun a acc => S (full false a) + acc)%nat 3%nat args <= 3 + 8 * nt (sep_by comma_sp ls))%nat).
  { apply (fold_bound (fun a => S (full false a)) pp comma_sp 3 args ls hF2).
    intros a q hin hq. destruct (okargs_in _ args hargs a hin) as [nx hx].
    rewrite Forall_forall in IHargs. pose proof (IHargs a hin false false nx q hx hq). unfold ExprFull_base.full. lia. }
  cbn [ExprFull_base.cost ExprFull_base.need].
  replace (fold_right (fun a acc => S (cost false a + need false a + 2 + acc)) 3%nat args)
    with (fold_right (fun a acc => S (full false a) + acc)%nat 3%nat args) by (apply fold_ext; intros; reflexivity).
  ntsimp. unfold ExprFull_base.full in *. destruct (np_call f), v; ntsimp; lia.
Qed.

End Fuel.
