(* Proofs about the run loop outcome algebra (C05 part 2). *)
From Verif Require Import Bytes Facts_render RunLoopM.
Open Scope N_scope.

Definition acceptable (r : run_res) : bool :=
  match r with
  | RRHostPanicGo | RRStuck => false
  | _ => true
  end.

Lemma convert_no_fault b op cn p : convert b op cn p <> CFault.
Proof.
  unfold convert. destruct (p_kind p); try discriminate; cbv zeta;
  repeat match goal with |- context [if ?b then _ else _] => destruct b end; discriminate.
Qed.

Lemma finish_ok c d ch : finish c d ch <> FConvertFault /\ finish c d ch <> FOutOfSegments.
Proof. unfold finish. destruct (c && d); [split; discriminate|]. destruct ch; split; discriminate. Qed.

Lemma run_func_ok c d segs : forall fn_nil chain,
  ends segs = true ->
  run_func c d fn_nil chain segs <> FConvertFault /\ run_func c d fn_nil chain segs <> FOutOfSegments.
Proof.
  induction segs as [|s r IH]; intros fn_nil chain He; [discriminate|].
  destruct s as [rec| |inn op cn p frames]; cbn [run_func].
  - apply finish_ok.
  - apply finish_ok.
  - assert (NF := convert_no_fault (fn_nil && inn) op cn p).
    destruct (convert (fn_nil && inn) op cn p) as [e|out|wr|e|]; try (split; discriminate); [|congruence].
    simpl in He. destruct (Nat.eqb frames 0); [apply finish_ok|]. simpl in He. apply IH; assumption.
Qed.

(* run_outcome: for every stream of instruction results (also when a deferred
   native call panics while a panic unwinds: repaired by 6756254), Run returns nil,
   a PanicError, the error of the output, the context error, the Stop error or
   the error of a go statement, or it panics with the message of a fatalError:
   it never panics with a Go runtime error of its own. *)
Theorem run_outcome : forall has_ctx done_at_end segs,
  ends segs = true ->
  acceptable (vm_run has_ctx done_at_end segs) = true.
Proof.
  intros c d segs He. unfold vm_run.
  destruct (run_func_ok c d segs false [] He) as [A B].
  destruct (run_func c d false [] segs) as [|[e|]| |e|wr|e| |]; try reflexivity; congruence.
Qed.

(* the context error is returned only with a context, and Run panics only
   through a fatalError: a direct reading of the classification *)
Theorem run_outcome_classes : forall has_ctx done_at_end segs,
  ends segs = true ->
  match vm_run has_ctx done_at_end segs with
  | RRCtx => has_ctx = true
  | RRHostPanicGo | RRStuck => False
  | _ => True
  end.
Proof.
  intros c d segs He. pose proof (run_outcome c d segs He) as H. unfold vm_run in *.
  assert (G : forall fn ch sg, run_func c d fn ch sg = FCtx -> c = true).
  { intros fn ch sg. revert fn ch. induction sg as [|s r IH]; intros fn ch; [discriminate|].
    destruct s as [rec| |inn op cn p frames]; cbn [run_func].
    - unfold finish. destruct c; [reflexivity|]. simpl. destruct (skipn rec ch); discriminate.
    - unfold finish. destruct c; [reflexivity|]. simpl. destruct ch; discriminate.
    - destruct (convert (fn && inn) op cn p); try discriminate.
      destruct (Nat.eqb frames 0); [|apply IH].
      unfold finish. destruct c; [reflexivity|]. simpl. discriminate. }
  destruct (run_func c d false [] segs) as [|[e|]| |e|wr|e| |] eqn:E; try exact I; try discriminate H.
  eapply G. exact E.
Qed.

(* the former refutation: a panic, then a deferred native function that panics
   while it unwinds (convertPanic dereferenced vm.fn == nil); and a deferred
   native function that panics when the function returns (the value was wrapped
   in a fatalError): both are PanicErrors now *)
Lemma unwinding_native_panic_repaired :
  vm_run false false
    [SgRaise false gen_OpPanic false (mkP KOther [] 0) 1;
     SgRaise true gen_OpCallNative true (mkP KString [110] 0) 0] = RRPanicError /\
  vm_run false false [SgRaise true gen_OpReturn false (mkP KString [110] 0) 0] = RRPanicError.
Proof. vm_compute. split; reflexivity. Qed.

(* examples of the table: division by zero becomes a PanicError, a Go runtime
   error inside native code a fatalError, env.Fatal passes, a failed write is unwrapped *)
Definition msg_divzero : bytes :=
  [114;117;110;116;105;109;101;32;101;114;114;111;114;58;32;105;110;116;101;103;101;114;32;100;105;118;105;100;101;32;98;121;32;122;101;114;111].
Lemma table_examples :
  vm_run false false [SgRaise false gen_OpDivInt false (mkP KGoRuntime msg_divzero 0) 0] = RRPanicError /\
  vm_run false false [SgRaise false gen_OpCallNative true (mkP KGoRuntime msg_divzero 0) 0] = RRHostPanicFatal true /\
  vm_run false false [SgRaise false gen_OpCallNative true (mkP KFatal [] 0) 0] = RRHostPanicFatal false /\
  vm_run false false [SgRaise false gen_OpText false (mkP KOut [] 7) 0] = RROutError 7 /\
  vm_run false false [SgRaise false gen_OpCallNative true (mkP KStop [] 9) 3] = RRStop 9 /\
  vm_run false false [SgRaise false gen_OpAdd false (mkP KGoRuntime msg_divzero 0) 0] = RRHostPanicFatal true /\
  vm_run true true [SgReturn 0] = RRCtx /\
  vm_run false false [SgRaise false gen_OpPanic false (mkP KOther [] 0) 2; SgReturn 1] = RRNil.
Proof. vm_compute. repeat split; reflexivity. Qed.
