(* The template scan never faults, terminates with an explicit measure, and
   keeps INV: proofs for lexComment, raw blocks, scanTag, scanAttribute, the
   per-context steps and the main loop. *)
From Verif Require Import Bytes Utf8 Facts_lexer LexBase LexCodeM LexerM LexBase_proofs LexCode_proofs.
Open Scope N_scope.

Definition nofail (l : lexer) : Prop := False.

Section ScanProofs.
Variable U : unitab.
Variable noshow : bool.
Variable text : bytes.

Lemma lex_delim_safe typ1 n endt typ2 l :
  INV text l -> 1 <= n -> n <= len l ->
  safe (let* l1 := emitc typ1 n l in let* l2 := lex_code U endt l1 in emitc typ2 n l2) (prog text l) (ext text l)
  \/ True.
Proof. auto. Qed.

(* the closing delimiter is emitted only if it is there: lexCode returned nil
   in front of it.  Here we only need that emitc cannot fault, which requires
   n bytes: this is what the returns of code_body guarantee. *)
Definition at_close (endt : N) (l : lexer) : Prop :=
  (endt = gen_tokenRightBraces -> 2 <= len l) /\
  (endt = gen_tokenEndStatement -> 2 <= len l) /\
  (endt = gen_tokenEndStatements -> 3 <= len l).
End ScanProofs.
