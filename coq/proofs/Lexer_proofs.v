(* The template scan never faults, terminates with an explicit measure, and
   keeps INV: proofs for lexComment, raw blocks, scanTag, scanAttribute, the
   per-context steps and the main loop. *)
From Verif Require Import Bytes Utf8 Facts_lexer LexBase LexCodeM LexerM LexBase_proofs LexTile_proofs LexCode_proofs.
Open Scope N_scope.

Definition nofail (l : lexer) : Prop := False.

Ltac fin := b2p; gs; unfold len in *; lia.
Ltac sstep :=
  match goal with
  | |- safe (bind (idx ?l ?i) _) _ _ => apply idx_safe; [b2p; gs; try lia | intros ?c ?Hc]
  | |- safe (bind (idx_is ?l ?i ?c) _) _ _ => apply idx_is_safe; [b2p; gs; try lia | intros ?x ?Hx]
  | |- safe (bind (andm ?a _) _) _ _ => apply andm_safe; intros ?Ha
  | |- safe (bind (orm ?a _) _) _ _ => apply orm_safe; intros ?Ha
  | |- safe (bind (bind _ _) _) _ _ => rewrite bind_assoc
  | |- safe (bind (Ok _) _) _ _ => rewrite bind_ok
  | |- safe (bind (if ?b then _ else _) _) _ _ => destruct b eqn:?
  | |- safe (if ?b then _ else _) _ _ => destruct b eqn:?
  | |- safe (bind (Err _) _) _ _ => simpl
  end.

Section ScanProofs.
Variable U : unitab.
Variable noshow : bool.
Variable text : bytes.

Lemma INV_eq l l' :
  l_src l' = l_src l -> l_base l' = l_base l -> l_out l' = l_out l -> INV text l -> INV text l'.
Proof.
  intros Hs Hb Ho [[pre [Ht Hp]] Hout]. split; [exists pre; rewrite Hs, Hb; auto|rewrite Hb, Ho; exact Hout].
Qed.

(* outside a block of code: the invariant of the text scan *)
Definition INVS (l : lexer) : Prop := INV text l /\ out_block l.
Definition progS (l l' : lexer) : Prop := INVS l' /\ (l_base l < l_base l' /\ l_tidx l' <= l_tidx l).
Lemma same_core_INVS l l' : same_core l l' -> INVS l -> INVS l'.
Proof. intros Hs [H1 H2]. split; [eapply same_core_INV; eauto|eapply same_core_ob; eauto]. Qed.
Lemma INVS_len l : INVS l -> l_base l + len l = nlen text.
Proof. intros [H _]. apply INV_len, H. Qed.
Lemma emit_at_specS line col cd ld typ n l :
  INVS l -> n <= len l -> n = 0 \/ is_open typ = false ->
  exists l', emit_at line col cd ld typ n l = Ok l' /\ INVS l' /\ (l_base l' = l_base l + n /\ l_tidx l' = l_tidx l - n)
             /\ l_src l' = drop n (l_src l) /\ len l' = len l - n
             /\ l_line l' = l_line l /\ l_col l' = l_col l /\ l_cdev l' = l_cdev l /\ l_ldev l' = l_ldev l
             /\ l_ctx l' = l_ctx l /\ l_ctxs l' = l_ctxs l.
Proof.
  intros [Hi Hb] Hn Hc. destruct (emit_at_spec text line col cd ld typ n l Hi Hn) as (l' & He & Hi' & R).
  exists l'. split; [exact He|]. split; [split; [exact Hi'|exact (ob_emit text _ _ _ _ _ _ _ _ Hi Hb He Hc)]|exact R].
Qed.
Lemma emitc_inv typ n l l' : emitc typ n l = Ok l' -> exists l0, emit typ n l = Ok l0 /\ same_core l0 l'.
Proof.
  unfold emitc. destruct (emit typ n l) as [l0| | |]; simpl; try discriminate.
  intros H; injection H as <-. exists l0. split; [reflexivity|auto with sc].
Qed.

Lemma INVS_eq l l' :
  l_src l' = l_src l -> l_base l' = l_base l -> l_out l' = l_out l -> INVS l -> INVS l'.
Proof.
  intros Hs Hb Ho [Hi Hob]. split; [eapply INV_eq; eauto|]. unfold out_block. rewrite Ho. exact Hob.
Qed.

Lemma closing_len endt l n :
  endt = gen_tokenEOF \/ closing endt l ->
  (endt = gen_tokenRightBraces /\ n = 2) \/ (endt = gen_tokenEndStatement /\ n = 2) \/ (endt = gen_tokenEndStatements /\ n = 3) ->
  n <= len l.
Proof.
  intros [He|Hc] H.
  - subst. destruct H as [[H _]|[[H _]|[H _]]]; discriminate.
  - unfold closing in Hc. destruct H as [[-> ->]|[[-> ->]|[-> ->]]]; exact Hc.
Qed.

Lemma lex_delim_safe typ1 n endt typ2 l :
  (endt = gen_tokenRightBraces /\ n = 2) \/ (endt = gen_tokenEndStatement /\ n = 2) \/ (endt = gen_tokenEndStatements /\ n = 3) ->
  is_open typ1 = true -> is_close typ2 = true ->
  INVS l -> n <= len l ->
  safe (let* l1 := emitc typ1 n l in let* l2 := lex_code U endt l1 in emitc typ2 n l2) (progS l) (ext text l).
Proof.
  intros Hn Hop Hcl [Hi Hob] Hl. assert (Hn1 : 1 <= n) by (destruct Hn as [[_ ->]|[[_ ->]|[_ ->]]]; lia).
  destruct (emitc_spec text typ1 n l Hi Hl) as (l1 & H1 & Hi1 & Hb1 & _).
  destruct (emitc_inv _ _ _ _ H1) as (l0 & He0 & Hs0).
  assert (Hib1 : in_block l1) by (eapply same_core_ib; [exact Hs0|]; apply (ob_open text _ _ _ _ _ _ _ _ Hi Hob He0); [lia|exact Hop]).
  rewrite H1, bind_ok.
  eapply safe_bind.
  - eapply safe_mono; [apply lex_code_safeB; split; [exact Hi1|exact Hib1]|intros a Ha; exact Ha|].
    intros l2 [[Hi2 _] He2]. split; [exact Hi2|lia].
  - intros l2 [[[Hi2 Hib2] He2] Hc2]. pose proof (closing_len endt l2 n Hc2 Hn) as Hl2.
    destruct (emitc_spec text typ2 n l2 Hi2 Hl2) as (l3 & H3 & Hi3 & Hb3 & _).
    destruct (emitc_inv _ _ _ _ H3) as (l4 & He4 & Hs4).
    rewrite H3. simpl.
    split; [split; [exact Hi3|eapply same_core_ob; [exact Hs4|]; apply (ib_close _ _ _ _ _ _ _ _ Hib2 He4); [lia|exact Hcl]]|]. lia.
Qed.

Lemma lex_show_safe l : INVS l -> 2 <= len l -> safe (lex_show U l) (progS l) (ext text l).
Proof. intros. apply lex_delim_safe; auto. Qed.
Lemma lex_statement_safe l : INVS l -> 2 <= len l -> safe (lex_statement U l) (progS l) (ext text l).
Proof. intros. apply lex_delim_safe; auto. Qed.
Lemma lex_statements_safe l : INVS l -> 3 <= len l -> safe (lex_statements U l) (progS l) (ext text l).
Proof. intros. apply lex_delim_safe; auto. Qed.

(* counting lines and columns over a range of the source *)
Lemma count_range_ok n i l :
  i + N.of_nat n <= len l -> exists l', count_range n i l = Ok l' /\ same_core l l'.
Proof.
  revert i l. induction n as [|n IH]; intros i l H; [exists l; split; [reflexivity|auto with sc]|].
  simpl. destruct (idx_ok l i ltac:(lia)) as (c & Hc & _). rewrite Hc, bind_ok.
  set (l1 := if c =? 10 then newline l else if isStartChar c then addcol 1 l else l).
  assert (Hs : same_core l l1) by (unfold l1; destruct (c =? 10); [|destruct (isStartChar c)]; auto with sc).
  destruct (IH (i + 1) l1) as (l' & H' & Hs'); [rewrite (same_core_len _ _ Hs); lia|].
  exists l'. split; [exact H'|eapply same_core_trans; eauto].
Qed.

(* ---- comments ---- *)
Lemma lex_comment_safe l : INVS l -> 2 <= len l -> safe (lex_comment l) (progS l) (ext text l).
Proof.
  intros HiS Hl. pose proof (proj1 HiS) as Hi. assert (He : ext text l l) by (apply ext_refl; exact Hi). unfold lex_comment.
  eapply safe_bind.
  - apply (safe_loop (comment_body l) (fun st => 2 <= snd st /\ snd st <= len l)
             (fun st => N.to_nat (len l - snd st)) (fun st => 2 <= snd st /\ snd st <= len l)) with (E := ext text l).
    + intros [nest1 p] [H1 H2]. simpl in H1, H2. unfold comment_body.
      destruct (nest1 =? 0); [simpl; lia|].
      destruct (N.ltb_spec (len l) p); [lia|].
      destruct (index_byte (drop p (l_src l)) 35) as [i|] eqn:Ei; [|simpl; exact He].
      pose proof (index_byte_bound _ _ _ Ei) as Hib. rewrite nlen_drop in Hib. fold (len l) in Hib.
      repeat sstep; simpl; b2p; lia.
    + simpl. lia.
    + apply len_fuel.
  - intros [nest1 p] [H1 H2]. simpl in H1, H2.
    assert (Hia : INV text (addcol 4 l)) by (eapply same_core_INV; [|exact Hi]; auto with sc).
    destruct (count_range_ok (N.to_nat (p - 2 - 2)) 2 (addcol 4 l)) as (l2 & Hc & Hs2).
    { change (len (addcol 4 l)) with (len l). lia. }
    rewrite Hc, bind_ok.
    set (l3 := if l_line l2 =? l_line (addcol 4 l) then l2 else mark_cdev l2).
    assert (Hs3 : same_core l l3).
    { eapply same_core_trans; [apply sc_addcol|]. eapply same_core_trans; [exact Hs2|].
      unfold l3. destruct (_ =? _); auto with sc. }
    assert (Hi3 : INVS l3) by (eapply same_core_INVS; eauto).
    destruct (emit_at_specS (l_line l) (l_col l) (l_cdev l) (l_ldev l) gen_tokenComment p l3 Hi3) as (l4 & H4 & Hi4 & Hb4 & _); [|right; reflexivity|].
    { rewrite (same_core_len _ _ Hs3). exact H2. }
    rewrite H4. simpl. split; [exact Hi4|]. destruct Hs3 as (_ & Hb3 & _). lia.
Qed.

(* ---- raw blocks ---- *)
Lemma sget_safe s i {B} (k : N -> res B) Q E :
  i < nlen s -> (forall c, get s i = Some c -> safe (k c) Q E) -> safe (bind (sget s i) k) Q E.
Proof.
  intros Hi Hk. unfold sget. destruct (get_lt _ _ Hi) as [c Hc]. rewrite Hc. simpl. apply Hk, Hc.
Qed.
Lemma sget_is_safe s i c {B} (k : bool -> res B) Q E :
  i < nlen s -> (forall b, safe (k b) Q E) -> safe (bind (sget_is s i c) k) Q E.
Proof.
  intros Hi Hk. unfold sget_is. rewrite bind_assoc. apply sget_safe; [exact Hi|]. intros x _. simpl. apply Hk.
Qed.

Lemma skip_raw_spaces_safe s p :
  p <= nlen s -> safe (skip_raw_spaces U s p) (fun q => p <= q /\ q <= nlen s) nofail.
Proof.
  intros Hp. unfold skip_raw_spaces.
  apply (safe_loop (raw_space_body U s) (fun q => p <= q /\ q <= nlen s) (fun q => N.to_nat (nlen s - q))
           (fun q => p <= q /\ q <= nlen s)).
  - intros q [H1 H2]. unfold raw_space_body. destruct (N.ltb_spec q (nlen s)); [|simpl; lia].
    destruct (decode_rune (drop q s)) as [r w] eqn:Hd.
    destruct (decode_rune_width _ _ _ (drop_nonempty _ _ H) Hd) as [Hw1 Hw2].
    assert (N.of_nat (length (drop q s)) = nlen s - q) by (rewrite <- nlen_eq; apply nlen_drop).
    match goal with |- context [if ?b then _ else _] => destruct b end; simpl; lia.
  - lia.
  - rewrite nlen_eq. lia.
Qed.

Ltac rstep :=
  match goal with
  | |- safe (bind (sget_is ?s ?i ?c) _) _ _ => apply sget_is_safe; [b2p; try lia | intros ?b]
  | |- safe (bind (sget ?s ?i) _) _ _ => apply sget_safe; [b2p; try lia | intros ?c ?Hc]
  | |- safe (bind (skip_raw_spaces _ ?s ?p) _) _ _ =>
      eapply safe_bind; [apply skip_raw_spaces_safe; b2p; try lia | intros ?i [?Hi1 ?Hi2]]
  | _ => sstep
  end.

Lemma end_raw_body_safe s marker st :
  fst st <= nlen s ->
  safe (end_raw_body U s marker st)
       (fun r => match r with
                 | Again s' => fst st < fst s' /\ fst s' <= nlen s
                 | Stop s' => match snd s' with Some p => p < nlen s | None => True end end) nofail.
Proof.
  destruct st as [i0 o]. simpl. intros H0. unfold end_raw_body.
  destruct (N.ltb_spec i0 (nlen s)); cbn [negb]; [|simpl; exact I].
  destruct (index_byte (drop i0 s) 123) as [j|] eqn:Ej; [|simpl; exact I].
  pose proof (index_byte_bound _ _ _ Ej) as Hj. rewrite nlen_drop in Hj.
  assert (Hp : i0 + j < nlen s) by lia.
  assert (Hnext : safe (Ok (Again (i0 + j + 1, @None N)))
     (fun r : step (N * option N) => match r with
                 | Again s' => i0 < fst s' /\ fst s' <= nlen s
                 | Stop s' => match snd s' with Some p => p < nlen s | None => True end end) nofail) by (simpl; lia).
  cbv zeta.
  repeat (first [rstep | progress cbn beta iota]; try exact Hnext; try (exfalso; b2p; lia)).
  all: try (simpl; b2p; lia).
Qed.

Lemma end_raw_index_safe s marker :
  safe (end_raw_index U s marker) (fun r => match r with Some p => p < nlen s | None => True end) nofail.
Proof.
  unfold end_raw_index. eapply safe_bind.
  - apply (safe_loop (end_raw_body U s marker) (fun st => fst st <= nlen s) (fun st => N.to_nat (nlen s - fst st))
             (fun st => match snd st with Some p => p < nlen s | None => True end)).
    + intros st Hst. eapply safe_mono; [apply end_raw_body_safe; exact Hst| |auto].
      intros [s'|s']; [intros [H1 H2]; split; [exact H2|lia]|auto].
    + simpl. lia.
    + simpl. rewrite nlen_eq. lia.
  - intros [i r] Hr. simpl. exact Hr.
Qed.

Lemma skip_raw_content_safe l m :
  l_raw l = Some m ->
  safe (skip_raw_content U l) (fun r => same_core l (fst r) /\ snd r <= len l) nofail.
Proof.
  intros Hm. unfold skip_raw_content. rewrite Hm.
  eapply safe_bind; [apply end_raw_index_safe|]. intros [p|] Hp.
  - destruct (p =? 0); [simpl; split; [auto with sc|lia]|].
    destruct (count_range_ok (N.to_nat p) 0 l) as (l1 & H1 & Hs1); [unfold len; lia|].
    rewrite H1. simpl. split; [exact Hs1|unfold len; lia].
  - destruct (count_range_ok (length (l_src l)) 0 l) as (l1 & H1 & Hs1); [unfold len; rewrite nlen_eq; lia|].
    rewrite H1. simpl. split; [exact Hs1|lia].
Qed.

(* ---- Markdown code blocks ---- *)
Lemma scan_code_block_safe l p :
  p <= len l -> safe (scan_code_block l p) (fun r => p <= fst r /\ fst r <= len l) nofail.
Proof.
  intros Hp. unfold scan_code_block. repeat sstep; simpl; b2p; lia.
Qed.

Lemma apply_code_block_safe l p :
  p <= len l -> safe (apply_code_block l p) (fun r => same_core l (fst r) /\ p <= snd r /\ snd r <= len l) nofail.
Proof.
  intros Hp. unfold apply_code_block. eapply safe_bind; [apply scan_code_block_safe; exact Hp|].
  intros [q cx] [H1 H2]. simpl in *. split; [|lia]. destruct (p <? q); repeat split.
Qed.

(* ---- tags ---- *)
Lemma scan_tag_safe l p :
  p <= len l ->
  safe (scan_tag U l p) (fun r => same_core l (fst (fst r)) /\ p <= snd r /\ snd r <= len l) nofail.
Proof.
  intros Hp. unfold scan_tag.
  eapply safe_bind with (Q' := fun isa => isa = true -> p < len l).
  - destruct (N.eqb_spec p (len l)); [simpl; discriminate|]. sstep. simpl. intros _. lia.
  - intros isa Hisa. destruct isa; cbn [negb]; [|simpl; split; [auto with sc|lia]].
    specialize (Hisa eq_refl). eapply safe_bind.
    + apply (safe_loop tag_body (fun st => same_core l (fst st) /\ p < snd st /\ snd st <= len l)
               (fun st => N.to_nat (len l - snd st)) (fun st => same_core l (fst st) /\ p < snd st /\ snd st <= len l)).
      * intros [l1 q] (Hs & H1 & H2). simpl in Hs, H1, H2. unfold tag_body.
        pose proof (same_core_len _ _ Hs) as Hl1.
        destruct (N.ltb_spec q (len l1)); cbn [negb]; [|simpl; auto].
        sstep. destruct ((c =? 62) || (c =? 47) || isASCIISpace c || (c =? 123)); [simpl; auto|].
        destruct (c <? 128).
        { simpl. split; [split; [eapply same_core_trans; [exact Hs|auto with sc]|lia]|lia]. }
        destruct (decode_rune (drop q (l_src (addcol 1 l1)))) as [r w] eqn:Hd.
        assert (Hq : q < len (addcol 1 l1)) by (change (len (addcol 1 l1)) with (len l1); lia).
        destruct (decode_at _ q r w Hq Hd) as [Hw1 Hw2]. change (len (addcol 1 l1)) with (len l1) in Hw2.
        simpl. split; [split; [|lia]|lia].
        eapply same_core_trans; [exact Hs|]. destruct (isStartChar c); repeat split.
      * simpl. split; [auto with sc|lia].
      * simpl. change (len (addcol 1 l)) with (len l). apply len_fuel.
    + intros [l1 q] (Hs & H1 & H2). simpl in Hs, H1, H2.
      destruct (N.ltb_spec (len l) q); [lia|]. simpl. split; [exact Hs|lia].
Qed.

(* ---- attributes ---- *)
Definition attrI (l : lexer) (p : N) (l1 : lexer) (q : N) : Prop := same_core l l1 /\ p <= q /\ q <= len l.

Lemma attr_name_body_safe l p st :
  attrI l p (fst (fst st)) (snd (fst st)) ->
  safe (attr_name_body U st)
    (fun r => match r with
              | Again s' => attrI l p (fst (fst s')) (snd (fst s')) /\ snd (fst st) < snd (fst s')
              | Stop s' => attrI l p (fst (fst s')) (snd (fst s')) end) nofail.
Proof.
  destruct st as [[l1 q] b]. simpl. intros (Hs & H1 & H2). unfold attr_name_body.
  pose proof (same_core_len _ _ Hs) as Hl1.
  assert (HI : attrI l p l1 q) by (repeat split; auto; apply Hs).
  destruct (N.ltb_spec q (len l1)); cbn [negb]; [|simpl; exact HI].
  sstep. destruct ((c =? 61) || isASCIISpace c); [simpl; exact HI|].
  match goal with |- context [if ?b then Ok (Stop (l1, q, true)) else _] => destruct b end; [simpl; exact HI|].
  eapply safe_bind with (Q' := fun r => match r with Some p1 => q <= p1 /\ p1 < len l1 | None => True end).
  - destruct (128 <=? c); [|simpl; lia].
    destruct (decode_rune (drop q (l_src l1))) as [r w] eqn:Hd.
    destruct (decode_at _ q r w H Hd) as [Hw1 Hw2].
    destruct ((r =? rune_error) && Nat.eqb w 1); [simpl; exact I|].
    destruct (((127 <=? r) && (r <=? 159)) || u_nonchar U r); simpl; [exact I|lia].
  - intros [p1|] Hp1; [|simpl; exact HI]. destruct Hp1 as [Hq1 Hq2].
    assert (HI1 : attrI l p l1 p1) by (unfold attrI; repeat split; try apply Hs; lia).
    repeat sstep; simpl; try exact HI1.
    all: split; [|lia]; unfold attrI; split; [eapply same_core_trans; [exact Hs|auto with sc]|lia].
Qed.

Lemma attr_sp_body_safe mode l p st :
  attrI l p (fst (fst st)) (snd (fst st)) ->
  safe (attr_sp_body mode st)
    (fun r => match r with
              | Again s' => attrI l p (fst (fst s')) (snd (fst s')) /\ snd (fst st) < snd (fst s')
              | Stop s' => attrI l p (fst (fst s')) (snd (fst s')) end) nofail.
Proof.
  destruct st as [[l1 q] b]. simpl. intros (Hs & H1 & H2). unfold attr_sp_body.
  pose proof (same_core_len _ _ Hs) as Hl1.
  assert (HI : attrI l p l1 q) by (repeat split; auto; apply Hs).
  destruct (N.ltb_spec q (len l1)); cbn [negb]; [|simpl; exact HI].
  sstep.
  repeat match goal with |- context [if ?b then Ok _ else _] => destruct b end; simpl; try exact HI.
  - unfold attrI. split; [eapply same_core_trans; [exact Hs|auto with sc]|lia].
  - split; [|lia]. unfold attrI. split; [eapply same_core_trans; [exact Hs|]|lia]. destruct (c =? 10); auto with sc.
Qed.

Lemma attr_loop_safe {T} (body : lexer * N * T -> res (step (lexer * N * T))) l p (b0 : T) l1 q :
  (forall st, attrI l p (fst (fst st)) (snd (fst st)) ->
     safe (body st)
       (fun r => match r with
              | Again s' => attrI l p (fst (fst s')) (snd (fst s')) /\ snd (fst st) < snd (fst s')
              | Stop s' => attrI l p (fst (fst s')) (snd (fst s')) end) nofail) ->
  attrI l p l1 q ->
  safe (loop (S (length (l_src l))) body (l1, q, b0)) (fun s' => attrI l p (fst (fst s')) (snd (fst s'))) nofail.
Proof.
  intros Hb HI.
  apply (safe_loop body (fun st => attrI l p (fst (fst st)) (snd (fst st)))
           (fun st => N.to_nat (len l - snd (fst st)))).
  - intros st Hst. eapply safe_mono; [apply Hb; exact Hst| |auto].
    intros [s'|s']; [|auto]. intros [Ha Hlt]. split; [exact Ha|]. destruct Ha as (_ & _ & Ha). destruct Hst as (_ & _ & Hst). lia.
  - exact HI.
  - simpl. apply len_fuel.
Qed.

Lemma scan_attribute_safe l p :
  p <= len l ->
  safe (scan_attribute U l p) (fun r => same_core l (fst (fst r)) /\ p <= snd r /\ snd r <= len l) nofail.
Proof.
  intros Hp. unfold scan_attribute. cbv zeta.
  eapply safe_bind; [apply (attr_loop_safe (attr_name_body U) l p); [apply attr_name_body_safe|repeat split; auto; lia]|].
  intros [[l1 p1] ret] HI1. simpl in HI1. destruct ret; [simpl; exact HI1|].
  destruct ((p1 =? p) || (p1 =? len l)); [simpl; exact HI1|].
  destruct (N.ltb_spec (len l) p1); [destruct HI1 as (_ & _ & ?); lia|].
  eapply safe_bind; [apply (attr_loop_safe (attr_sp_body 0) l p); [apply attr_sp_body_safe|exact HI1]|].
  intros [[l2 p2] k2] HI2. simpl in HI2. destruct (k2 =? 2); [simpl; exact HI2|].
  eapply safe_bind; [apply (attr_loop_safe (attr_sp_body 1) l p); [apply attr_sp_body_safe|exact HI2]|].
  intros [[l3 p3] k3] HI3. simpl in HI3. destruct (k3 =? 2); [simpl; exact HI3|].
  destruct (p3 =? len l); simpl; exact HI3.
Qed.

(* ---- the main loop ---- *)
Definition MI (st : mst) : Prop :=
  INVS (m_l st) /\ m_p st <= len (m_l st) /\ l_tidx (m_l st) <= m_p st.
(* absolute position of the scan *)
Definition apos (st : mst) : N := l_base (m_l st) + m_p st.
Definition is_attr (cx : N) : bool := (cx =? gen_ContextQuotedAttr) || (cx =? gen_ContextUnquotedAttr).
(* the measure: twice the bytes left, plus one while inside an attribute value *)
Definition mu (st : mst) : N :=
  2 * (nlen text - apos st) + (if is_attr (l_ctx (m_l st)) then 1 else 0).

Lemma MI_apos st : MI st -> apos st <= nlen text.
Proof. intros (Hi & Hp & _). pose proof (INVS_len _ Hi). unfold apos. lia. Qed.

(* outcome of the context specific part of an iteration *)
Definition swpost (st : mst) (r : mst * bool) : Prop :=
  MI (fst r) /\
  if snd r then apos st < apos (fst r)
                \/ (apos (fst r) = apos st /\ is_attr (l_ctx (m_l st)) = true /\ is_attr (l_ctx (m_l (fst r))) = false)
  else apos st <= apos (fst r) /\ m_p (fst r) < len (m_l (fst r)).

Lemma MI_same st l' p' :
  MI st -> same_core (m_l st) l' -> m_p st <= p' -> p' <= len l' -> MI (mset_lp l' p' st).
Proof.
  intros (Hi & Hp & Ht) Hs H1 H2. unfold MI. cbn. split; [eapply same_core_INVS; eauto|].
  destruct Hs as (_ & Hb & _). split; lia.
Qed.

Lemma emit_text_spec st l :
  INVS l -> m_p st <= len l ->
  exists l1, emit_text st l = Ok l1 /\ INVS l1 /\ (l_base l1 = l_base l + m_p st /\ l_tidx l1 = l_tidx l - m_p st)
             /\ len l1 = len l - m_p st /\ l_ctx l1 = l_ctx l /\ l_src l1 = drop (m_p st) (l_src l).
Proof.
  intros Hi Hp. unfold emit_text.
  destruct (emit_at_specS (m_lin st) (m_col st) (m_lcd st) (m_lld st) gen_tokenText (m_p st) l Hi Hp (or_intror eq_refl))
    as (l1 & H1 & Hi1 & Hb1 & Hs1 & Hl1 & _ & _ & _ & _ & Hc1 & _).
  exists l1. auto 10.
Qed.

Lemma flush_text_spec st :
  MI st ->
  exists l1, flush_text st = Ok l1 /\ INVS l1 /\ (l_base l1 = apos st /\ l_tidx l1 = 0)
             /\ len l1 = len (m_l st) - m_p st /\ l_ctx l1 = l_ctx (m_l st)
             /\ l_src l1 = drop (m_p st) (l_src (m_l st)).
Proof.
  intros (Hi & Hp & Ht). unfold flush_text, apos. destruct (N.ltb_spec 0 (m_p st)).
  - destruct (emit_text_spec st (m_l st) Hi Hp) as (l1 & H1 & Hi1 & Hb1 & Hl1 & Hc1 & Hs1).
    exists l1. split; [exact H1|]. split; [exact Hi1|]. split; [lia|]. split; [exact Hl1|split; [exact Hc1|exact Hs1]].
  - exists (m_l st). split; [reflexivity|]. split; [exact Hi|]. split; [lia|]. split; [lia|split; [reflexivity|]].
    replace (m_p st) with 0 by lia. reflexivity.
Qed.

Lemma MI_resync st0 l : INVS l -> l_tidx l = 0 -> MI (resync l st0).
Proof. intros Hi Ht. unfold MI. cbn. split; [exact Hi|lia]. Qed.

Lemma emit0_spec typ l :
  INVS l -> exists l1, emit typ 0 l = Ok l1 /\ INVS l1 /\ (l_base l1 = l_base l /\ l_tidx l1 = l_tidx l)
                             /\ len l1 = len l /\ l_ctx l1 = l_ctx l /\ l_src l1 = l_src l.
Proof.
  intros Hi. destruct (emit_at_specS (l_line l) (l_col l) (l_cdev l) (l_ldev l) typ 0 l Hi ltac:(lia) (or_introl eq_refl)) as (l1 & H1 & Hi1 & Hb1 & Hs1 & Hl1 & _ & _ & _ & _ & Hc1 & _).
  exists l1. split; [exact H1|]. split; [exact Hi1|]. split; [lia|]. split; [lia|split; [exact Hc1|exact Hs1]].
Qed.

(* Markdown URLs *)
Lemma md_url_safe st :
  MI st -> m_p st < len (m_l st) -> safe (md_url st) (swpost st) nofail.
Proof.
  intros HM Hp. pose proof HM as (Hi & Hp' & Ht). unfold md_url.
  assert (Hstay : swpost st (st, false)) by (split; [exact HM|simpl; lia]).
  destruct (m_url st).
  - destruct (isMarkdownEndURL (drop (m_p st) (l_src (m_l st)))); [|simpl; exact Hstay].
    destruct (flush_text_spec st HM) as (l1 & H1 & Hi1 & Hb1 & Hl1 & Hc1 & Hs1). rewrite H1, bind_ok.
    destruct (emit0_spec gen_tokenEndURL l1 Hi1) as (l2 & H2 & Hi2 & Hb2 & Hl2 & Hc2 & Hs2). rewrite H2. simpl.
    split; [apply MI_resync; [exact Hi2|lia]|]. unfold apos in *. cbn. lia.
  - eapply safe_bind with (Q' := fun _ => True).
    { destruct (m_p st =? 0); [simpl; exact I|]. sstep. simpl. exact I. }
    intros okprev _.
    destruct (okprev && isMarkdownStartURL (drop (m_p st) (l_src (m_l st)))) eqn:Eok; [|simpl; exact Hstay].
    apply andb_prop in Eok. destruct Eok as [_ Eok].
    assert (Hlen : 7 <= len (m_l st) - m_p st).
    { unfold isMarkdownStartURL in Eok. apply orb_prop in Eok.
      destruct Eok as [E|E]; apply has_prefix_len in E; rewrite nlen_drop in E; fold (len (m_l st)) in E;
        [change (nlen gen_lex_https) with 8 in E|change (nlen gen_lex_http) with 7 in E]; lia. }
    destruct (flush_text_spec st HM) as (l1 & H1 & Hi1 & Hb1 & Hl1 & Hc1 & Hs1). rewrite H1, bind_ok.
    destruct (emit0_spec gen_tokenStartURL l1 Hi1) as (l2 & H2 & Hi2 & Hb2 & Hl2 & Hc2 & Hs2). rewrite H2, bind_ok.
    sstep.
    assert (H8 : c = 115 -> 8 <= len (m_l st) - m_p st).
    { intros ->. unfold isMarkdownStartURL in Eok. apply orb_prop in Eok. destruct Eok as [E|E].
      - apply has_prefix_len in E. rewrite nlen_drop in E. exact E.
      - exfalso. rewrite Hs2, Hs1 in Hc. revert E Hc. generalize (drop (m_p st) (l_src (m_l st))). intros s0.
        destruct s0 as [|a0 [|a1 [|a2 [|a3 [|a4 s5]]]]]; try discriminate.
        unfold get. simpl. intros E Hc. injection Hc as ->. repeat (apply andb_prop in E; destruct E as [? E]). discriminate. }
    simpl. split.
    + unfold MI. cbn. split; [eapply same_core_INVS; [|exact Hi2]; auto with sc|].
      change (len (mark_cdev l2)) with (len l2). destruct (N.eqb_spec c 115); [specialize (H8 e)|]; lia.
    + left. unfold apos in *. cbn. destruct (c =? 115); lia.
Qed.

Lemma swpost_stay st : MI st -> m_p st < len (m_l st) -> swpost st (st, false).
Proof. intros HM Hp. split; [exact HM|simpl; lia]. Qed.

(* the same without the attribute case *)
Definition swpost1 (st : mst) (r : mst * bool) : Prop :=
  MI (fst r) /\
  if snd r then apos st < apos (fst r) else apos st <= apos (fst r) /\ m_p (fst r) < len (m_l (fst r)).
Lemma swpost1_sw st r : swpost1 st r -> swpost st r.
Proof. destruct r as [s b]. intros [H1 H2]. split; [exact H1|]. destruct b; simpl in *; auto. Qed.
Lemma swpost1_stay st : MI st -> m_p st < len (m_l st) -> swpost1 st (st, false).
Proof. intros HM Hp. split; [exact HM|simpl; lia]. Qed.

(* '<' in HTML and Markdown *)
Lemma html_lt_safe st c :
  MI st -> m_p st < len (m_l st) -> safe (html_lt U st c) (swpost1 st) nofail.
Proof.
  intros HM Hp. pose proof HM as (Hi & Hp' & Ht). unfold html_lt.
  destruct (negb (c =? 60)); [simpl; apply swpost1_stay; assumption|]. cbv zeta.
  sstep; [sstep; destruct (_ && has_prefix _ _) eqn:Ecd|cbn [andb]].
  1: (* CDATA *)
    set (p6 := m_p st + 6); set (l6 := addcol 6 (m_l st));
    set (t := match index (drop p6 (l_src l6)) gen_lex_cdataEnd with None => len l6 | Some i => p6 + i + 2 end);
    assert (Ht6 : t <= len (m_l st)) by
      (unfold t; change (len l6) with (len (m_l st));
       destruct (index (drop p6 (l_src l6)) gen_lex_cdataEnd) eqn:Ei; [|lia];
       apply index_bound in Ei; rewrite nlen_drop in Ei; change (nlen gen_lex_cdataEnd) with 3 in Ei;
       change (nlen (l_src l6)) with (len (m_l st)) in Ei; b2p; lia);
    destruct (count_range_ok (N.to_nat (t - p6)) p6 l6) as (l1 & H1 & Hs1);
      [change (len l6) with (len (m_l st)); b2p; unfold p6 in *; lia|];
    rewrite H1; simpl; b2p; split;
      [apply MI_same; [exact HM|eapply same_core_trans; [apply sc_addcol|exact Hs1]| |
         rewrite (same_core_len _ _ Hs1); change (len l6) with (len (m_l st))]; unfold p6 in *; lia
      |unfold apos; cbn; destruct Hs1 as (_ & Hb & _); cbn in Hb; unfold p6 in *; lia].
  all: (eapply safe_bind; [apply scan_tag_safe; change (len (addcol 1 (m_l st))) with (len (m_l st)); lia|]);
    intros [[l1 name] q] (Hs & H1 & H2); simpl in Hs, H1, H2;
    change (len (addcol 1 (m_l st))) with (len (m_l st)) in H2;
    match goal with |- context [mset_lp ?l3 _ _] => set (L3 := l3) end;
    (assert (Hs3 : same_core (m_l st) L3) by
       (eapply same_core_trans; [apply sc_addcol|]; eapply same_core_trans; [exact Hs|];
        unfold L3; destruct (nonempty name); [destruct (bytes_eqb name s_script); [|destruct (bytes_eqb name s_style)]|];
        repeat split));
    simpl; split; [apply MI_same; [exact HM|exact Hs3|lia|rewrite (same_core_len _ _ Hs3); lia]
                  |unfold apos; cbn; destruct Hs3 as (_ & Hb & _); lia].
Qed.

(* inside a tag *)
Lemma tag_ctx_safe fc st c :
  MI st -> get (l_src (m_l st)) (m_p st) = Some c -> safe (tag_ctx U fc st c) (swpost st) nofail.
Proof.
  intros HM Hgc. pose proof (get_some _ _ _ Hgc) as Hp. fold (len (m_l st)) in Hp.
  pose proof HM as (Hi & Hp' & Ht). unfold tag_ctx. cbv zeta.
  eapply safe_bind with (Q' := fun e => e = true -> c = 62).
  { unfold orm, andm. destruct (N.eqb_spec c 62); [simpl; auto|].
    destruct (c =? 47); [|simpl; discriminate]. destruct (m_p st <? len (m_l st)); [|simpl; discriminate].
    unfold idx_is, idx. rewrite Hgc. simpl. destruct (N.eqb_spec c 62); [contradiction|discriminate]. }
  intros endtag He. destruct endtag.
  { set (l1 := set_tctx fc (set_tag [] (set_ctx (l_tctx (m_l st)) (m_l st)))).
    assert (Hs1 : same_core (m_l st) l1) by (unfold l1; repeat split).
    rewrite (He eq_refl). change (62 =? 47) with false. simpl.
    { split; [apply MI_same; [exact HM|exact Hs1|lia|rewrite (same_core_len _ _ Hs1); lia]|].
      unfold apos; cbn. rewrite (same_core_len _ _ Hs1). lia. } }
  destruct (negb (isASCIISpace c)); [|simpl; apply swpost_stay; assumption].
  eapply safe_bind; [apply scan_attribute_safe; lia|].
  intros [[l1 attr] next] (Hs & H1 & H2). simpl in Hs, H1, H2.
  pose proof (same_core_len _ _ Hs) as Hl1.
  set (l1a := set_att attr l1). assert (Hsa : same_core (m_l st) l1a) by (eapply same_core_trans; [exact Hs|repeat split]).
  assert (Hla : len l1a = len (m_l st)) by (apply same_core_len; exact Hsa). clearbody l1a.
  destruct (N.ltb_spec (m_p st) next).
  2:{ simpl. split; [apply MI_same; [exact HM|exact Hsa|lia|lia]|]. unfold apos; cbn. destruct Hsa as (_ & Hb & _). unfold len in *. lia. }
  destruct (nonempty attr && (next <? len l1a)) eqn:Ene.
  2:{ simpl. split; [apply MI_same; [exact HM|exact Hsa|lia|lia]|]. left. unfold apos; cbn. destruct Hsa as (_ & Hb & _). lia. }
  b2p. sstep. cbv zeta.
  set (isq := (c0 =? 34) || (c0 =? 39)).
  set (l2 := if isq then addcol 1 l1a else l1a).
  set (p2 := if isq then next + 1 else next).
  assert (Hs2 : same_core (m_l st) l2) by (unfold l2; destruct isq; [eapply same_core_trans; [exact Hsa|auto with sc]|exact Hsa]).
  assert (Hl2 : len l2 = len (m_l st)) by (apply same_core_len; exact Hs2).
  assert (Hp2 : next <= p2 /\ p2 <= len (m_l st)) by (unfold p2; destruct isq; lia).
  assert (Hi2 : INVS l2) by (eapply same_core_INVS; eauto).
  destruct (containsURL (l_tag l2) attr).
  - destruct (emit_text_spec (mset_lp l2 p2 st) l2 Hi2) as (l3 & He3 & Hi3 & Hb3 & Hl3 & Hc3 & Hs3); [cbn; lia|].
    rewrite He3, bind_ok. cbn in Hb3, Hl3.
    set (l4 := set_ctx _ l3). assert (Hi4 : INVS l4) by (eapply same_core_INVS; [|exact Hi3]; repeat split).
    destruct (emit0_spec gen_tokenStartURL l4 Hi4) as (l5 & H5 & Hi5 & Hb5 & Hl5 & Hc5 & Hs5). rewrite H5. simpl.
    destruct Hs2 as (_ & Hb2 & _). cbn in Hb5.
    split; [apply MI_resync; [exact Hi5|lia]|]. left. unfold apos; cbn. lia.
  - simpl. split.
    + unfold MI. cbn. split; [eapply INVS_eq; [| | |exact Hi2]; reflexivity|].
      change (len (set_ctx _ (set_tidx p2 l2))) with (len l2). lia.
    + left. unfold apos; cbn. destruct Hs2 as (_ & Hb2 & _). lia.
Qed.

(* end of an attribute value *)
Lemma attr_value_safe l p : l_tidx l <= p -> p <= len l -> exists v, attr_value l p = Ok v.
Proof.
  intros H1 H2. unfold attr_value.
  assert (E : (p <? l_tidx l) || (len l <? p) = false) by (apply orb_false_intro; apply N.ltb_ge; lia).
  rewrite E. eauto.
Qed.

Lemma attr_ctx_safe fc st c :
  MI st -> m_p st < len (m_l st) -> is_attr (l_ctx (m_l st)) = true ->
  safe (attr_ctx U fc st c) (swpost st) nofail.
Proof.
  intros HM Hp Hattr. pose proof HM as (Hi & Hp' & Ht). unfold attr_ctx. cbv zeta.
  match goal with |- context [if negb ?b then _ else _] => destruct b end; cbn [negb];
    [|simpl; apply swpost_stay; assumption].
  set (st0 := mset_quote 0 st).
  assert (HM0 : MI st0) by exact HM.
  eapply safe_bind with (Q' := fun st1 => MI st1 /\ apos st1 = apos st /\ m_p st1 < len (m_l st1)).
  - destruct (m_url st0).
    + destruct (flush_text_spec st0 HM0) as (l1 & H1 & Hi1 & Hb1 & Hl1 & Hc1 & Hs1). rewrite H1, bind_ok.
      destruct (emit0_spec gen_tokenEndURL l1 Hi1) as (l2 & H2 & Hi2 & Hb2 & Hl2 & Hc2 & Hs2). rewrite H2. simpl.
      split; [apply MI_resync; [exact Hi2|lia]|]. unfold apos in *. cbn in *. lia.
    + assert (Hsame : MI st0 /\ apos st0 = apos st /\ m_p st0 < len (m_l st0)) by (split; [exact HM0|split; [reflexivity|exact Hp]]).
      assert (Hset : forall v, MI (mset_lp (set_tctx v (m_l st)) (m_p st) st0) /\
                     apos (mset_lp (set_tctx v (m_l st)) (m_p st) st0) = apos st /\
                     m_p (mset_lp (set_tctx v (m_l st)) (m_p st) st0) < len (m_l (mset_lp (set_tctx v (m_l st)) (m_p st) st0))).
      { intros v. split; [apply MI_same; [exact HM0|repeat split|cbn; lia|cbn; exact Hp']|split; [reflexivity|exact Hp]]. }
      destruct (bytes_eqb (l_att (m_l st)) s_type); [|simpl; exact Hsame].
      destruct (bytes_eqb (l_tag (m_l st)) s_script).
      { destruct (attr_value_safe (m_l st) (m_p st) Ht Hp') as [v Hv]. rewrite Hv, bind_ok.
        destruct (bytes_eqb v gen_lex_moduleType); [simpl; exact Hsame|].
        destruct (nonempty (trim_space U v)); [|simpl; exact Hsame].
        destruct (equal_fold U (trim_space U v) gen_lex_jsonLDMimeType); [simpl; apply Hset|].
        destruct (negb (equal_fold U (trim_space U v) gen_lex_jsMimeType)); simpl; [apply Hset|exact Hsame]. }
      destruct (bytes_eqb (l_tag (m_l st)) s_style); [|simpl; exact Hsame].
      destruct (attr_value_safe (m_l st) (m_p st) Ht Hp') as [v Hv]. rewrite Hv, bind_ok.
      destruct (nonempty (trim_space U v) && negb (equal_fold U (trim_space U v) gen_lex_cssMimeType)); simpl;
        [apply Hset|exact Hsame].
  - intros st1 (HM1 & Ha1 & Hp1). simpl. pose proof HM1 as (Hi1 & Hp1' & Ht1).
    split.
    + unfold MI. cbn. split; [eapply INVS_eq; [| | |exact Hi1]; reflexivity|].
      change (len (set_tidx 0 (set_att [] (set_ctx gen_ContextTag (m_l st1))))) with (len (m_l st1)). lia.
    + cbn [fst snd]. destruct (c =? 62).
      * right. split; [exact Ha1|]. split; [exact Hattr|]. reflexivity.
      * split; [unfold apos in *; cbn; lia|].
        change (len _) with (len (m_l st1)). exact Hp1.
Qed.

(* obligations on the generated facts: the closing tags are longer than the skips *)
Lemma isEndScript_len s : isEndScript s = true -> 9 <= nlen s.
Proof.
  unfold isEndScript. intros H. apply andb_prop in H. destruct H as [H _].
  assert (G : (9 <=? gen_isEndScript_len) = true) by reflexivity. b2p. lia.
Qed.
Lemma isEndStyle_len s : isEndStyle s = true -> 8 <= nlen s.
Proof.
  unfold isEndStyle. intros H. apply andb_prop in H. destruct H as [H _].
  assert (G : (8 <=? gen_isEndStyle_len) = true) by reflexivity. b2p. lia.
Qed.

Lemma sc_mark_if_nl l i : same_core l (mark_if_nl l i).
Proof. unfold mark_if_nl. destruct (get (l_src l) i); [destruct (_ =? 10)|]; repeat split. Qed.

(* a step that moves p forward by k inside the current source and keeps the core *)
Lemma sw_move st l' k :
  MI st -> same_core (m_l st) l' -> m_p st + k < len (m_l st) ->
  forall st', m_l st' = l' -> m_p st' = m_p st + k -> swpost st (st', false).
Proof.
  intros (Hi & Hp & Ht) Hs Hk st' Hl' Hp'. pose proof (same_core_len _ _ Hs) as Hlen.
  destruct Hs as (Hs1 & Hb & Hs3).
  split; [unfold MI; cbn [fst]; rewrite Hl', Hp'; split; [eapply INVS_eq; [exact Hs1|apply Hb|exact Hs3|exact Hi]|lia]|].
  cbn [fst snd]. unfold apos. rewrite Hl', Hp'. lia.
Qed.

Lemma css_ctx_safe fc isHTML st c :
  MI st -> m_p st < len (m_l st) -> swpost st (css_ctx fc isHTML st c, false).
Proof.
  intros HM Hp. unfold css_ctx. cbv zeta.
  destruct (isHTML && (c =? 60) && isEndStyle (drop (m_p st) (l_src (m_l st)))) eqn:E.
  - apply andb_prop in E. destruct E as [_ E]. apply isEndStyle_len in E. rewrite nlen_drop in E. fold (len (m_l st)) in E.
    eapply (sw_move st _ 7); [exact HM| |lia|reflexivity|reflexivity].
    eapply same_core_trans; [apply sc_mark_if_nl|]. repeat split.
  - destruct ((c =? 34) || (c =? 39)); [|apply swpost_stay; assumption].
    eapply (sw_move st _ 0); [exact HM| |lia|reflexivity|cbn; lia]. repeat split.
Qed.

Lemma json_ctx_safe fc isHTML st c :
  MI st -> m_p st < len (m_l st) -> swpost st (json_ctx fc isHTML st c, false).
Proof.
  intros HM Hp. unfold json_ctx. cbv zeta.
  destruct (isHTML && (c =? 60) && isEndScript (drop (m_p st) (l_src (m_l st)))) eqn:E.
  - apply andb_prop in E. destruct E as [_ E]. apply isEndScript_len in E. rewrite nlen_drop in E. fold (len (m_l st)) in E.
    eapply (sw_move st _ 8); [exact HM| |lia|reflexivity|reflexivity].
    eapply same_core_trans; [apply sc_mark_if_nl|]. repeat split.
  - destruct (c =? 34); [|apply swpost_stay; assumption].
    eapply (sw_move st _ 0); [exact HM| |lia|reflexivity|cbn; lia]. repeat split.
Qed.

Lemma str_ctx_safe fc isHTML back quote json isend skip st c :
  (forall s, isend s = true -> skip + 1 <= nlen s) ->
  MI st -> m_p st < len (m_l st) ->
  safe (str_ctx fc isHTML back quote json isend skip st c) (fun s => swpost st (s, false)) nofail.
Proof.
  intros Hend HM Hp. unfold str_ctx. cbv zeta.
  destruct (c =? 92).
  { repeat sstep; simpl; try (apply swpost_stay; assumption).
    eapply (sw_move st _ 1); [exact HM| |b2p; lia|reflexivity|reflexivity]. repeat split. }
  destruct (c =? quote).
  { simpl. eapply (sw_move st _ 0); [exact HM| |lia|reflexivity|cbn; lia]. repeat split. }
  destruct (c =? 60); [|simpl; apply swpost_stay; assumption].
  destruct (isHTML && isend (drop (m_p st) (l_src (m_l st)))) eqn:E; [|simpl; apply swpost_stay; assumption].
  apply andb_prop in E. destruct E as [_ E]. apply Hend in E. rewrite nlen_drop in E. fold (len (m_l st)) in E.
  simpl. eapply (sw_move st _ skip); [exact HM| |lia|reflexivity|reflexivity].
  eapply same_core_trans; [apply sc_mark_if_nl|]. repeat split.
Qed.

Lemma js_ctx_safe fc isHTML st c :
  MI st -> m_p st < len (m_l st) -> safe (js_ctx fc isHTML st c) (fun s => swpost st (s, false)) nofail.
Proof.
  intros HM Hp. unfold js_ctx. cbv zeta.
  destruct (isHTML && (c =? 60) && isEndScript (drop (m_p st) (l_src (m_l st)))) eqn:E.
  { apply andb_prop in E. destruct E as [_ E]. apply isEndScript_len in E. rewrite nlen_drop in E. fold (len (m_l st)) in E.
    simpl. eapply (sw_move st _ 8); [exact HM| |lia|reflexivity|reflexivity].
    eapply same_core_trans; [apply sc_mark_if_nl|]. repeat split. }
  assert (H0 : forall st', m_l st' = m_l st -> m_p st' = m_p st -> swpost st (st', false)).
  { intros st' H1 H2. eapply (sw_move st (m_l st) 0); [exact HM|auto with sc|lia|exact H1|lia]. }
  assert (H1 : forall st', m_p st + 1 < len (m_l st) -> m_l st' = addcol 1 (m_l st) -> m_p st' = m_p st + 1 -> swpost st (st', false)).
  { intros st' Hlt Ha Hb. eapply (sw_move st _ 1); [exact HM|apply sc_addcol|exact Hlt|exact Ha|exact Hb]. }
  destruct (m_jsc st =? 1).
  { simpl. destruct ((c =? 10) || (c =? 13)); apply H0; reflexivity. }
  destruct (m_jsc st =? 2).
  { repeat sstep; simpl; try (apply H0; reflexivity). apply H1; [b2p; lia|reflexivity|reflexivity]. }
  destruct ((c =? 47) && (m_p st + 1 <? len (m_l st))) eqn:E2.
  { b2p. sstep. destruct (c0 =? 47); [simpl; apply H1; [lia|reflexivity|reflexivity]|].
    destruct (c0 =? 42); simpl; [apply H1; [lia|reflexivity|reflexivity]|apply H0; reflexivity]. }
  destruct ((c =? 34) || (c =? 39)); simpl; [|apply H0; reflexivity].
  eapply (sw_move st _ 0); [exact HM| |lia|reflexivity|cbn; lia]. repeat split.
Qed.

Lemma ctx_switch_safe fc isHTML st c :
  MI st -> get (l_src (m_l st)) (m_p st) = Some c ->
  safe (ctx_switch U fc isHTML st c) (swpost st) nofail.
Proof.
  intros HM Hgc. pose proof (get_some _ _ _ Hgc) as Hp. fold (len (m_l st)) in Hp.
  unfold ctx_switch. cbv zeta.
  destruct (l_ctx (m_l st) =? gen_ContextMarkdown) eqn:Emd.
  { eapply safe_bind; [apply md_url_safe; assumption|]. intros [st1 cont] [HM1 H1]. simpl in HM1, H1.
    destruct cont; [simpl; split; [exact HM1|exact H1]|]. destruct H1 as [H1 H2].
    eapply safe_mono; [apply html_lt_safe; assumption| |auto].
    intros [s b] [Hs1 Hs2]. split; [exact Hs1|]. simpl in *. destruct b; [left|]; lia. }
  destruct (l_ctx (m_l st) =? gen_ContextHTML).
  { eapply safe_mono; [apply html_lt_safe; assumption|apply swpost1_sw|auto]. }
  destruct (l_ctx (m_l st) =? gen_ContextTag); [apply tag_ctx_safe; assumption|].
  destruct ((l_ctx (m_l st) =? gen_ContextQuotedAttr) || (l_ctx (m_l st) =? gen_ContextUnquotedAttr)) eqn:Eat;
    [apply attr_ctx_safe; assumption|].
  destruct (l_ctx (m_l st) =? gen_ContextCSS); [simpl; apply css_ctx_safe; assumption|].
  destruct (l_ctx (m_l st) =? gen_ContextCSSString).
  { eapply safe_bind; [apply str_ctx_safe; [intros s0 Hs0; apply isEndStyle_len in Hs0; lia|assumption|assumption]|].
    intros s0 Hs0. exact Hs0. }
  destruct (l_ctx (m_l st) =? gen_ContextJS).
  { eapply safe_bind; [apply js_ctx_safe; assumption|]. intros s0 Hs0. exact Hs0. }
  destruct (l_ctx (m_l st) =? gen_ContextJSString).
  { eapply safe_bind; [apply str_ctx_safe; [intros s0 Hs0; apply isEndScript_len in Hs0; lia|assumption|assumption]|].
    intros s0 Hs0. exact Hs0. }
  destruct (l_ctx (m_l st) =? gen_ContextJSON); [simpl; apply json_ctx_safe; assumption|].
  destruct (l_ctx (m_l st) =? gen_ContextJSONString).
  { eapply safe_bind; [apply str_ctx_safe; [intros s0 Hs0; apply isEndScript_len in Hs0; lia|assumption|assumption]|].
    intros s0 Hs0. exact Hs0. }
  simpl. apply swpost_stay; assumption.
Qed.

Lemma bottom_safe st c :
  MI st -> m_p st < len (m_l st) ->
  safe (bottom st c) (fun r => match r with Again s' => MI s' /\ apos st < apos s' | Stop _ => False end) nofail.
Proof.
  intros HM Hp. pose proof HM as (Hi & Hp' & Ht). unfold bottom. cbv zeta.
  assert (Hmv : forall l' p' st', same_core (m_l st) l' -> m_p st < p' -> p' <= len (m_l st) ->
                 m_l st' = l' -> m_p st' = p' -> MI st' /\ apos st < apos st').
  { intros l' p' st' Hs H1 H2 Hl' Hp2. pose proof (same_core_len _ _ Hs) as Hlen. destruct Hs as (Hs1 & Hb & Hs3).
    split; [unfold MI; rewrite Hl', Hp2; split; [eapply INVS_eq; [exact Hs1|apply Hb|exact Hs3|exact Hi]|lia]|].
    unfold apos. rewrite Hl', Hp2. lia. }
  destruct (c =? 10).
  2:{ simpl. apply (Hmv (if isStartChar c then addcol 1 (m_l st) else m_l st) (m_p st + 1));
        [destruct (isStartChar c); auto with sc|lia|lia|reflexivity|reflexivity]. }
  sstep; [sstep|].
  all: try (change (len (newline (m_l st))) with (len (m_l st)); b2p; lia).
  all: match goal with |- context [apply_code_block ?l ?p] => set (L := l); set (P := p) end.
  all: assert (HsL : same_core (m_l st) L) by (unfold L; try destruct (x =? 13); repeat split).
  all: assert (HP : m_p st < P /\ P <= len (m_l st)) by (unfold P; try destruct (x =? 13); b2p; gs; unfold len in *; cbn [l_src newline set_cdev set_col set_line] in *; lia).
  all: pose proof (same_core_len _ _ HsL) as HlL.
  all: assert (Hacb : safe (let* (l1, q) := apply_code_block L P in Ok (Again (mset_lp l1 q st)))
            (fun r => match r with Again s' => MI s' /\ apos st < apos s' | Stop _ => False end) nofail) by
    (eapply safe_bind; [apply apply_code_block_safe; lia|]; intros [l1 q] (Hs1 & H1 & H2); simpl in *;
     apply (Hmv l1 q); [eapply same_core_trans; [exact HsL|exact Hs1]|lia|lia|reflexivity|reflexivity]).
  all: destruct ((l_ctx L =? gen_ContextTabCodeBlock) || (l_ctx L =? gen_ContextSpacesCodeBlock)); [exact Hacb|].
  all: destruct (l_ctx L =? gen_ContextMarkdown); [destruct (m_sol st); [exact Hacb|]|].
  all: simpl; apply (Hmv L P); [exact HsL|lia|lia|reflexivity|reflexivity].
Qed.

Lemma mu_decr st st' : MI st' -> apos st < apos st' -> mu st' < mu st.
Proof.
  intros HM H. pose proof (MI_apos _ HM). unfold mu.
  destruct (is_attr (l_ctx (m_l st'))); destruct (is_attr (l_ctx (m_l st))); lia.
Qed.

Definition bodypost (st : mst) (r : step mst) : Prop :=
  match r with
  | Again s' => MI s' /\ mu s' < mu st
  | Stop s' => s' = st /\ len (m_l st) <= m_p st
  end.

Lemma scan_body_safe fc isHTML st :
  MI st -> safe (scan_body U noshow fc isHTML st) (bodypost st) (INV text).
Proof.
  intros HM. pose proof HM as (Hi & Hp' & Ht). unfold scan_body. cbv zeta.
  destruct (N.ltb_spec (m_p st) (len (m_l st))) as [Hp|Hp]; cbn [negb]; [|simpl; split; [reflexivity|exact Hp]].
  sstep.
  set (st1 := if l_ctx (m_l st) =? gen_ContextMarkdown then mset_sol (m_sol st && isSpace c) st else st).
  assert (Hst1 : m_l st1 = m_l st /\ m_p st1 = m_p st /\ (forall l p, mset_lp l p st1 = mset_sol (m_sol st1) (mset_lp l p st)) ) by
    (unfold st1; destruct (_ =? gen_ContextMarkdown); repeat split).
  assert (HM1 : MI st1) by (unfold st1; destruct (_ =? gen_ContextMarkdown); exact HM).
  assert (Ha1 : apos st1 = apos st) by (unfold st1; destruct (_ =? gen_ContextMarkdown); reflexivity).
  assert (Hmu1 : mu st1 = mu st) by (unfold st1; destruct (_ =? gen_ContextMarkdown); reflexivity).
  assert (Hl1 : m_l st1 = m_l st) by apply Hst1. assert (Hp1 : m_p st1 = m_p st) by apply Hst1.
  clearbody st1.
  assert (Hadv : forall l' p' s', same_core (m_l st) l' -> m_p st < p' -> p' <= len (m_l st) ->
                   m_l s' = l' -> m_p s' = p' -> bodypost st (Again s')).
  { intros l' p' s' Hs H1 H2 Hl' Hp2. pose proof (same_core_len _ _ Hs) as Hlen. destruct Hs as (Hs1 & Hb & Hs3).
    assert (HMs : MI s') by
      (unfold MI; rewrite Hl', Hp2; split; [eapply INVS_eq; [exact Hs1|apply Hb|exact Hs3|exact Hi]|lia]).
    split; [exact HMs|]. apply mu_decr; [exact HMs|]. unfold apos. rewrite Hl', Hp2. lia. }
  destruct ((l_ctx (m_l st) =? gen_ContextMarkdown) && (c =? 92)).
  { (* Markdown backslash *)
    change (len (addcol 1 (m_l st))) with (len (m_l st)).
    sstep; [rewrite bind_assoc; sstep|].
    all: try (change (len (addcol 1 (m_l st))) with (len (m_l st)); b2p; lia).
    1: rewrite bind_ok; match goal with |- context [if ?b then _ else _] => destruct b end.
    2,3: simpl; apply (Hadv (addcol 1 (m_l st)) (m_p st + 1)); [auto with sc|b2p; lia|b2p; lia|reflexivity|reflexivity].
    destruct (decode_rune (drop (m_p st + 1) (l_src (addcol 1 (m_l st))))) as [r w] eqn:Hd.
    assert (Hq : m_p st + 1 < len (addcol 1 (m_l st))) by (change (len (addcol 1 (m_l st))) with (len (m_l st)); b2p; lia).
    destruct (decode_at (addcol 1 (m_l st)) (m_p st + 1) r w Hq Hd) as [Hw1 Hw2]. change (len (addcol 1 (m_l st))) with (len (m_l st)) in Hw2.
    simpl. match goal with |- context [mset_lp ?l3 _ _] => apply (Hadv l3 (m_p st + 1 + N.of_nat w)) end;
      [|lia|lia|reflexivity|reflexivity].
    destruct (get (l_src (m_l st)) (m_p st + 1)) as [d0|]; [destruct (isStartChar d0)|]; repeat split. }
  eapply safe_bind with (Q' := fun d => match d with Some _ => m_p st + 1 < len (m_l st) | None => True end).
  { destruct ((c =? 123) && (m_p st + 1 <? len (m_l st))) eqn:E; [|simpl; exact I]. b2p. sstep. simpl. lia. }
  intros d Hd.
  assert (Hdelim : forall (f : lexer -> res lexer) (k : lexer -> res (step mst)),
            d <> None ->
            (forall l1, INVS l1 -> 2 <= len l1 -> safe (f l1) (progS l1) (ext text l1)) ->
            (forall l1 l2, l_tidx l1 = 0 -> l_base l1 = apos st -> progS l1 l2 -> safe (k l2) (bodypost st) (INV text)) ->
            safe (let* l1 := flush_text st1 in let* l2 := f l1 in k l2) (bodypost st) (INV text)).
  { intros f k Hdn Hf Hk. destruct d as [x|]; [|congruence].
    destruct (flush_text_spec st1 HM1) as (l1 & H1 & Hi1 & Hb1 & Hl1' & Hc1 & Hs1). rewrite H1, bind_ok.
    eapply safe_bind.
    - eapply safe_mono; [apply Hf; [exact Hi1|rewrite Hl1', Hl1, Hp1; lia]|intros a Ha; exact Ha|intros l' [Hl' _]; exact Hl'].
    - intros l2 Hp2. apply (Hk l1 l2); [apply Hb1|rewrite <- Ha1; apply Hb1|exact Hp2]. }
  assert (Hres : forall l1 l2, l_tidx l1 = 0 -> l_base l1 = apos st -> progS l1 l2 -> bodypost st (Again (resync l2 st1))).
  { intros l1 l2 Ht1 Hb1 [Hi2 Hp2]. assert (HMr : MI (resync l2 st1)) by (apply MI_resync; [exact Hi2|lia]).
    split; [exact HMr|]. apply mu_decr; [exact HMr|]. unfold apos at 2. cbn. lia. }
  destruct (oeq d 123 && negb noshow) eqn:E1.
  { apply (Hdelim (lex_show U) (fun l2 => Ok (Again (resync l2 st1)))).
    - destruct d; [discriminate|discriminate].
    - intros; apply lex_show_safe; assumption.
    - intros l1 l2 H1 H2 H3. simpl. apply (Hres l1); assumption. }
  destruct (oeq d 37) eqn:E2.
  { destruct d as [x|]; [|discriminate].
    destruct (flush_text_spec st1 HM1) as (l1 & H1 & Hi1 & Hb1 & Hl1' & Hc1 & Hs1). rewrite H1, bind_ok.
    assert (H2l : 2 <= len l1) by (rewrite Hl1', Hl1, Hp1; lia).
    eapply safe_bind with (Q' := fun three => three = true -> 3 <= len l1).
    { unfold andm. destruct (N.ltb_spec 2 (len l1)); [|simpl; discriminate].
      destruct (idx_ok l1 2 H) as (x2 & Hx2 & _). unfold idx_is. rewrite Hx2. simpl. intros _. lia. }
    intros three H3.
    eapply safe_bind with (Q' := progS l1).
    - eapply safe_mono with (E := ext text l1); [|intros a Ha; exact Ha|intros l' [Hl' _]; exact Hl'].
      destruct three; [apply lex_statements_safe; [exact Hi1|apply H3; reflexivity]|apply lex_statement_safe; assumption].
    - intros l2 Hp2. pose proof (Hres l1 l2 (proj2 Hb1) ltac:(rewrite <- Ha1; apply Hb1) Hp2) as Hr.
      destruct (l_raw l2) as [m|] eqn:Er; [|simpl; exact Hr].
      eapply safe_bind; [eapply safe_mono; [apply (skip_raw_content_safe l2 m Er)|intros a Ha; exact Ha|intros ? []]|].
      intros [l3 q] [Hs3 Hq]. simpl in Hs3, Hq. simpl.
      destruct Hr as [HMr Hmr]. destruct Hp2 as [Hi2 Hp2].
      pose proof (same_core_len _ _ Hs3) as Hl3. destruct Hs3 as (Hs31 & Hb3 & Hs33).
      assert (HMq : MI (mset_lp l3 q (resync l2 st1))).
      { unfold MI. cbn. split; [eapply INVS_eq; [exact Hs31|apply Hb3|exact Hs33|exact Hi2]|lia]. }
      split; [exact HMq|]. apply mu_decr; [exact HMq|]. unfold apos at 2. cbn. lia. }
  destruct (oeq d 35) eqn:E3.
  { apply (Hdelim lex_comment (fun l2 => Ok (Again (resync l2 st1)))).
    - destruct d; discriminate.
    - intros; apply lex_comment_safe; assumption.
    - intros l1 l2 H1 H2 H3. simpl. apply (Hres l1); assumption. }
  sstep; [sstep; [sstep|]|].
  all: try match goal with |- safe (if ?b then _ else _) _ _ => destruct b end.
  all: try (simpl; destruct (0 <? m_p st); [eapply INV_eq; [| | |exact (proj1 Hi)]; reflexivity|exact (proj1 Hi)]; fail).
  all: rewrite ?bind_ok; cbn iota.
  all: (eapply safe_bind;
    [eapply safe_mono; [apply (ctx_switch_safe fc isHTML st1 c); [exact HM1|rewrite Hl1, Hp1; exact Hc]|intros a Haa; exact Haa|intros ? []]|]).
  all: intros [st2 cont] [HM2 H2]; simpl in HM2, H2; rewrite Ha1 in H2.
  all: destruct cont.
  all: try (simpl; split; [exact HM2|]; destruct H2 as [H2|(H21 & H22 & H23)]; [apply mu_decr; assumption|];
            unfold mu; rewrite H21, H23; rewrite Hl1 in H22; rewrite H22; lia).
  all: destruct H2 as [H21 H22];
       (eapply safe_mono; [apply bottom_safe; assumption| |intros ? []]);
       intros [s'|s']; [|intros []]; intros [HMs Has]; split; [exact HMs|apply mu_decr; [exact HMs|lia]].
Qed.

Lemma INV_start fmt : INVS (scan_start fmt text).
Proof.
  split; [|exists 0; reflexivity]. split; [exists []; split; reflexivity|]. split; [constructor|].
  exists 0, false. split; [reflexivity|reflexivity].
Qed.

Lemma shebang_safe l : INVS l -> l_tidx l = 0 -> safe (shebang l) (fun l' => INVS l' /\ l_tidx l' = 0) nofail.
Proof.
  intros Hi Ht. unfold shebang. destruct (N.ltb_spec 1 (len l)); [|simpl; auto].
  sstep. sstep; [sstep|simpl; auto]. destruct (x =? 33); [|simpl; auto].
  set (t := match index_byte (l_src l) 10 with Some t => t | None => len l - 1 end).
  assert (Htl : t + 1 <= len l).
  { unfold t. destruct (index_byte (l_src l) 10) eqn:E; [apply index_byte_bound in E; unfold len; lia|lia]. }
  destruct (emit_at_specS (l_line l) (l_col l) (l_cdev l) (l_ldev l) gen_tokenShebangLine (t + 1) l Hi Htl (or_intror eq_refl)) as (l1 & H1 & Hi1 & Hb1 & _).
  unfold emit. rewrite H1, bind_ok. simpl.
  split; [eapply INVS_eq; [| | |exact Hi1]; destruct (index_byte (l_src l) 10); reflexivity|].
  destruct (index_byte (l_src l) 10); cbn; lia.
Qed.

Theorem scan_run_safe fmt : safe (scan_run U noshow fmt text) (fun l => INVS l /\ len l = 0) (INV text).
Proof.
  unfold scan_run.
  eapply safe_bind; [eapply safe_mono; [apply shebang_safe; [apply INV_start|reflexivity]|intros a Ha; exact Ha|intros ? []]|].
  intros l1 [Hi1 Ht1]. cbv zeta.
  eapply safe_bind with (Q' := fun r => same_core l1 (fst r) /\ snd r <= len l1).
  { destruct (l_ctx l1 =? gen_ContextMarkdown); [|simpl; split; [auto with sc|lia]].
    eapply safe_mono; [apply apply_code_block_safe; lia| |intros ? []]. intros [l2 q] (H1 & H2 & H3). auto. }
  intros [l2 p0] [Hs2 Hp0]. simpl in Hs2, Hp0.
  pose proof (same_core_len _ _ Hs2) as Hl2.
  assert (HM0 : MI (mkM l2 p0 (l_line l1) (l_col l1) (l_cdev l1) (l_ldev l1) 0 false 0 true)).
  { unfold MI. cbn. split; [eapply same_core_INVS; eauto|]. destruct Hs2 as (_ & Hb & _). lia. }
  eapply safe_bind.
  - apply (safe_loop _ MI (fun st => N.to_nat (mu st)) (fun st => MI st /\ len (m_l st) <= m_p st)) with (E := INV text).
    + intros st HM. eapply safe_mono; [apply scan_body_safe; exact HM| |auto].
      intros [s'|s']; simpl; [intros [H1 H2]; split; [exact H1|lia]|intros [-> H]; auto].
    + exact HM0.
    + unfold mu, scan_fuel, apos. cbn [m_l m_p]. destruct (is_attr (l_ctx l2)); rewrite nlen_eq; lia.
  - intros st [HM Hend]. pose proof HM as (Hi & Hp & Ht).
    assert (Hpe : m_p st = len (m_l st)) by lia.
    eapply safe_bind with (Q' := fun l3 => INVS l3 /\ len l3 = 0).
    { destruct (N.ltb_spec 0 (len (m_l st))); [|simpl; split; [exact Hi|lia]].
      destruct (emit_text_spec st (m_l st) Hi Hp) as (l3 & H3 & Hi3 & _ & Hl3 & _). rewrite H3. simpl. split; [exact Hi3|lia]. }
    intros l3 [Hi3 Hl3]. eapply safe_bind with (Q' := fun l4 => INVS l4 /\ len l4 = 0).
    { destruct ((l_ctx l3 =? gen_ContextMarkdown) && m_url st); [|simpl; auto].
      destruct (emit0_spec gen_tokenEndURL l3 Hi3) as (l4 & H4 & Hi4 & _ & Hl4 & _). rewrite H4. simpl. split; [exact Hi4|lia]. }
    intros l4 [Hi4 Hl4]. destruct (emit0_spec gen_tokenEOF l4 Hi4) as (l5 & H5 & Hi5 & _ & Hl5 & _). rewrite H5. simpl. split; [exact Hi5|lia].
Qed.
End ScanProofs.
