(* The io/fs contract of a read-only file system built from a map of names to
   contents, written as predicates over observations (specification side of
   property C23; definitions only). *)
From Verif Require Import Bytes FilesFSM Paths_proofs.
From Coq Require Import Sorted.
Open Scope N_scope.

(* ---- what the map says ---- *)

(* name is a file with the given content *)
Definition is_file (fs : files) (name data : bytes) : Prop := In (name, data) fs.

(* name is a directory: the root, or some file lies below it *)
Definition is_dir (fs : files) (name : bytes) : Prop :=
  name = [dot] \/ exists key t, In key (map fst fs) /\ key = name ++ slash :: t.

(* the path of the child c of directory dir *)
Definition join (dir c : bytes) : bytes := dir_prefix dir ++ c.

(* c is the name of a child of dir: a file dir/c, or a directory dir/c with something below *)
Definition child_of (fs : files) (dir c : bytes) : Prop :=
  c <> [] /\ noslash c /\
  exists key, In key (map fst fs) /\ (key = join dir c \/ exists t, key = join dir c ++ slash :: t).

(* ---- Open ---- *)

Definition open_ok (fs : files) (name : bytes) (r : out) : Prop :=
  (forall data, is_file fs name data -> r = OutOpened false) /\
  (is_dir fs name -> r = OutOpened true) /\
  ((forall data, ~ is_file fs name data) -> ~ is_dir fs name -> r = OutNotExist) /\
  (valid_path name = false -> r = OutNotExist).

(* ---- Stat ---- *)

Definition file_info (name data : bytes) : info :=
  mkInfo (base_name name) (N.of_nat (length data)) 0 false.
Definition dir_info (name : bytes) : info :=
  mkInfo (base_name name) 0 mode_dir true.

(* ---- ReadDir ---- *)

(* L is the listing of directory dir: sorted by name, each child exactly once,
   IsDir/Type/Info consistent with each other and with the map, and Info equal
   to the Stat of the child opened by its path *)
Record listing_ok (fs : files) (dir : bytes) (L : list dirent) : Prop := {
  lo_sorted : Sorted le_name (map de_name L);
  lo_nodup : NoDup (map de_name L);
  lo_names : forall c, In c (map de_name L) <-> child_of fs dir c;
  lo_entry : forall e, In e L ->
    de_isdir e = i_isdir (de_info e) /\
    de_type e = i_mode (de_info e) /\
    i_name (de_info e) = de_name e /\
    i_mode (de_info e) = (if de_isdir e then mode_dir else 0) /\
    (de_isdir e = true <-> is_dir fs (join dir (de_name e))) /\
    (forall data, is_file fs (join dir (de_name e)) data -> de_info e = file_info (join dir (de_name e)) data) /\
    exists h, files_open fs (join dir (de_name e)) = Some h /\ stat h = de_info e /\ h_dir h = de_isdir e
}.

(* the entries returned by ReadDir(n) when cur entries of L were returned before *)
Definition page (L : list dirent) (cur : nat) (n : Z) : list dirent :=
  let rest := skipn cur L in
  if (0 <? n)%Z then firstn (Z.to_nat n) rest else rest.
Definition page_err (L : list dirent) (cur : nat) (n : Z) : rderr :=
  if ((0 <? n)%Z && (length L <=? cur)%nat)%bool then REOF else RNil.

(* ---- histories ---- *)

(* what a client has observed of an open file: its name, whether it is a
   directory, how many bytes the Reads returned so far, whether Close was
   called, how many entries the ReadDirs returned so far *)
Record hspec := mkHspec {
  hs_name : bytes; hs_isdir : bool; hs_pos : nat; hs_closed : bool; hs_cur : nat
}.

Inductive hop := HStat | HRead (k : nat) | HReadDir (n : Z) | HClose.

Definition step_ok (fs : files) (a : hspec) (o : hop) (r : out) : Prop :=
  match o with
  | HStat =>
    if hs_isdir a then r = OutStat (dir_info (hs_name a))
    else exists data, is_file fs (hs_name a) data /\ r = OutStat (file_info (hs_name a) data)
  | HRead k =>
    if hs_closed a then r = OutRead [] EInvalid
    else if hs_isdir a then r = OutRead [] EEOF
    else exists data, is_file fs (hs_name a) data /\
         (* the next min(k, remaining) bytes; EOF exactly when nothing remains *)
         r = OutRead (firstn k (skipn (hs_pos a) data))
                     (if (hs_pos a =? length data)%nat then EEOF else ENil)
  | HReadDir n =>
    if hs_isdir a then
      exists L, listing_ok fs (hs_name a) L /\
                r = OutReadDir (page L (hs_cur a) n) (page_err L (hs_cur a) n)
    else r = OutNoReadDir
  | HClose => r = OutClosed
  end.

Definition advance (a : hspec) (r : out) : hspec :=
  match r with
  | OutRead d _ => mkHspec (hs_name a) (hs_isdir a) (hs_pos a + length d) (hs_closed a) (hs_cur a)
  | OutReadDir l _ => mkHspec (hs_name a) (hs_isdir a) (hs_pos a) (hs_closed a) (hs_cur a + length l)
  | OutClosed => mkHspec (hs_name a) (hs_isdir a) (hs_pos a) true (hs_cur a)
  | _ => a
  end.

Definition on_handle (o : op) : option (nat * hop) :=
  match o with
  | OpOpen _ => None
  | OpStat i => Some (i, HStat)
  | OpRead i k => Some (i, HRead k)
  | OpReadDir i n => Some (i, HReadDir n)
  | OpClose i => Some (i, HClose)
  end.

(* the observations outs of the operations ops satisfy the contract, abs being
   what was observed before on each open file *)
Fixpoint hist_ok (fs : files) (abs : list hspec) (ops : list op) (outs : list out) : Prop :=
  match ops, outs with
  | [], [] => True
  | o :: ops1, r :: outs1 =>
    match o with
    | OpOpen name =>
      open_ok fs name r /\
      hist_ok fs (match r with OutOpened d => abs ++ [mkHspec name d 0 false 0] | _ => abs end) ops1 outs1
    | _ =>
      match on_handle o with
      | Some (i, ho) =>
        match nth_error abs i with
        | Some a => step_ok fs a ho r /\ hist_ok fs (set_nth abs i (advance a r)) ops1 outs1
        | None => r = OutBadHandle /\ hist_ok fs abs ops1 outs1
        end
      | None => False
      end
    end
  | _, _ => False
  end.
