(* Obligations on the facts regenerated from linkdestination.go and goldmark/util
   (Facts_linkscan): the byte classes, names and constants the model is built
   from are the ones the theorems were proved for, and the grid evaluations of
   the loop-free decisions (fence start / close, indented code, the guard of
   parseReferenceDefinition, the switch on the constructs that start with
   "<!" or "<?") agree with the formulas used by the model. *)
From Verif Require Import Bytes IndexM Facts_linkscan LinkDestM LinkScanM.
From Coq Require Import ZArith List.
Local Open Scope N_scope.

Definition ascii_punct : list N :=
  [33; 34; 35; 36; 37; 38; 39; 40; 41; 42; 43; 44; 45; 46; 47; 58; 59; 60; 61; 62; 63; 64; 91; 92; 93; 94; 95; 96; 123; 124; 125; 126].

Definition in_range (lo hi c : N) : bool := (lo <=? c) && (c <=? hi).
Definition spec_alpha (c : N) : bool := in_range 97 122 c || in_range 65 90 c.
Definition spec_tagname (c : N) : bool := spec_alpha c || in_range 48 57 c || (c =? 45).

Fixpoint strs_eqb (a b : list bytes) : bool :=
  match a, b with
  | [], [] => true
  | x :: a', y :: b' => bytes_eqb x y && strs_eqb a' b'
  | _, _ => false
  end.

Definition ascii (s : list N) : bytes := s.

Definition spec_void : list bytes :=
  [[97; 114; 101; 97]; [98; 97; 115; 101]; [98; 114]; [99; 111; 108]; [101; 109; 98; 101; 100]; [104; 114]; [105; 109; 103];
   [105; 110; 112; 117; 116]; [108; 105; 110; 107]; [109; 101; 116; 97]; [112; 97; 114; 97; 109]; [115; 111; 117; 114; 99; 101];
   [116; 114; 97; 99; 107]; [119; 98; 114]].
Definition spec_rawtext : list bytes := [[115; 99; 114; 105; 112; 116]; [115; 116; 121; 108; 101]; [116; 101; 120; 116; 97; 114; 101; 97]].

(* "<!--" "-->", "<![CDATA[" "]]>", "<?" "?>", "<!" ">" in this order *)
Definition spec_special : list (bytes * bytes) :=
  [([60; 33; 45; 45], [45; 45; 62]); ([60; 33; 91; 67; 68; 65; 84; 65; 91], [93; 93; 62]); ([60; 63], [63; 62]); ([60; 33], [62])].

Fixpoint special_eqb (a b : list (bytes * bytes)) : bool :=
  match a, b with
  | [], [] => true
  | (p, c) :: a', (q, d) :: b' => bytes_eqb p q && bytes_eqb c d && special_eqb a' b'
  | _, _ => false
  end.

Definition fact_linkscan : bool :=
  bytes_eqb gen_ls_punct ascii_punct
  && bytes_eqb gen_ls_space [9; 10; 13; 32]
  && forallb (fun c => Bool.eqb (mem gen_ls_alpha c) (spec_alpha c)) all_bytes
  && forallb (fun c => Bool.eqb (mem gen_ls_tagname c) (spec_tagname c)) all_bytes
  && forallb (fun k => k <? 256) gen_ls_alpha && forallb (fun k => k <? 256) gen_ls_tagname
  && strs_eqb gen_ls_void spec_void && strs_eqb gen_ls_rawtext spec_rawtext
  && (gen_ls_tab_base =? 4)%Z && (gen_ls_tab_mod =? 4)%Z
  && bytes_eqb gen_ls_indent_space [32] && bytes_eqb gen_ls_indent_tab [9]
  && (gen_ls_max_indent =? 3)%Z && (gen_ls_code_indent =? 4)%Z && (gen_ls_fence_min =? 3)%Z
  && bytes_eqb gen_ls_fence_chars [96; 126] && (gen_ls_fence_noinfo =? 96) && (gen_ls_fence_noinfo_search =? 96)
  && special_eqb gen_ls_special spec_special
  && gen_ls_fence_start_ok && gen_ls_fence_close_ok && gen_ls_indented_ok && gen_ls_refdef_guard_ok && gen_ls_special_ok.

Lemma fact_linkscan_ok : fact_linkscan = true.
Proof. vm_compute. reflexivity. Qed.
