(* parse (tokens (print e)) = e up to parenthesis counts, for every operator
   expression: the operator-path algorithm inverts the parenthesisation rule
   of the String methods. *)
From Coq Require Import List NArith Bool Lia.
From Verif Require Import Bytes ExprPrintParseM AstTree_base.
Import ListNotations.
Open Scope N_scope.

Section Proof.
Variable op_string : list (N * bytes).
Variable bin_prec : list (N * N).
Variable un_prec : N.
Variable unary_tokens : list (bytes * N).
Variable binary_tokens : list (bytes * N).
Variable op_receive : N.

Notation pr := (pr op_string bin_prec un_prec op_receive).
Notation np_un := (np_un bin_prec un_prec op_receive).
Notation np_bin := (np_bin bin_prec un_prec).
Notation oprec := (oprec bin_prec un_prec).
Notation bprec := (bprec bin_prec).
Notation fprec := (fprec bin_prec un_prec).
Notation reduce := (reduce bin_prec un_prec).
Notation step := (step bin_prec un_prec unary_tokens binary_tokens).
Notation run := (run bin_prec un_prec unary_tokens binary_tokens).
Notation parse := (parse bin_prec un_prec unary_tokens binary_tokens).
Notation wf := (wf op_string bin_prec unary_tokens binary_tokens).

Definition wrapped_un (op : N) (x : expr) : bool := match np_un op x with Some b => b | None => false end.
Definition wrapped_bin (op : N) (x : expr) : bool := match np_bin op x with Some b => b | None => false end.

(* the tree that the parser builds from the printed form: counts re-derived *)
Fixpoint norm (e : expr) : expr :=
  match e with
  | Atom _ a => Atom 0 a
  | Un _ op x => Un 0 op (if wrapped_un op x then add_paren (norm x) else norm x)
  | Bin _ op l r =>
    Bin 0 op (if wrapped_bin op l then add_paren (norm l) else norm l)
             (if wrapped_bin op r then add_paren (norm r) else norm r)
  end.

Fixpoint spine (e : expr) : list frame :=
  match e with
  | Atom _ _ => []
  | Un _ op x => (if wrapped_un op x then [] else spine x) ++ [FUn op]
  | Bin _ op l r =>
    (if wrapped_bin op r then [] else spine r) ++
    [FBin op (if wrapped_bin op l then add_paren (norm l) else norm l)]
  end.

Fixpoint lastop (e : expr) : expr :=
  match e with
  | Atom _ a => Atom 0 a
  | Un _ op x => if wrapped_un op x then add_paren (norm x) else lastop x
  | Bin _ op l r => if wrapped_bin op r then add_paren (norm r) else lastop r
  end.

Lemma close_app A B o : close (A ++ B) o = close B (close A o).
Proof. revert o. induction A as [|f r IH]; intros o; [reflexivity|]. cbn [app close]. apply IH. Qed.

Lemma close_spine e : close (spine e) (lastop e) = norm e.
Proof.
  induction e as [p a|p op x IH|p op l IHl r IHr]; [reflexivity| |].
  - cbn [spine lastop norm]. rewrite close_app. destruct (wrapped_un op x); cbn [close apply_frame]; [reflexivity|].
    rewrite IH. reflexivity.
  - cbn [spine lastop norm]. rewrite close_app. destruct (wrapped_bin op r); cbn [close apply_frame]; [reflexivity|].
    rewrite IHr. reflexivity.
Qed.

Lemma erase_add_paren e : erase_parens (add_paren e) = erase_parens e.
Proof. destruct e; reflexivity. Qed.

Lemma erase_norm e : erase_parens (norm e) = erase_parens e.
Proof.
  induction e as [p a|p op x IH|p op l IHl r IHr]; [reflexivity| |]; cbn [norm erase_parens].
  - destruct (wrapped_un op x); rewrite ?erase_add_paren, IH; reflexivity.
  - destruct (wrapped_bin op l), (wrapped_bin op r); rewrite ?erase_add_paren, IHl, IHr; reflexivity.
Qed.

Lemma run_app st a b :
  run st (a ++ b) = match run st a with Some st' => run st' b | None => None end.
Proof.
  revert st. induction a as [|t r IH]; intros st; [reflexivity|].
  cbn [app ExprPrintParseM.run]. destruct (step st t); [apply IH|reflexivity].
Qed.

(* e is an operator of precedence above pb, or not an operator *)
Definition above (pb : N) (e : expr) : Prop :=
  match e with
  | Atom _ _ => True
  | _ => exists pe, oprec e = Some pe /\ pb < pe
  end.

Definition head_ok (P : list frame) (e : expr) : Prop :=
  match P with
  | [] => True
  | f :: _ => exists pf, fprec f = Some pf /\ above pf e
  end.

Lemma above_trans pb pb' e : pb' <= pb -> above pb e -> above pb' e.
Proof. destruct e; cbn; auto; intros h [pe [h1 h2]]; exists pe; split; auto; lia. Qed.

(* not wrapped under a binary operator: an atom, or of higher precedence *)
Lemma unwrapped_bin_above op c pp :
  np_bin op c = Some false -> bprec op = Some pp -> above pp c.
Proof.
  destruct c as [p a|p o x|p o l r]; cbn [ExprPrintParseM.np_bin above]; auto.
  - intros h hp. rewrite hp in h. cbn [ExprPrintParseM.oprec] in *. inversion h as [h1].
    exists un_prec. split; [reflexivity|]. apply N.leb_gt in h1. exact h1.
  - intros h hp. rewrite hp in h. cbn [ExprPrintParseM.oprec] in *.
    destruct (ExprPrintParseM.bprec bin_prec o) as [pc|]; [|discriminate]. inversion h as [h1].
    exists pc. split; [reflexivity|]. apply N.leb_gt in h1. exact h1.
Qed.

Lemma unwrapped_un_above op c :
  np_un op c = Some false -> above un_prec c.
Proof.
  destruct c as [p a|p o x|p o l r]; cbn [ExprPrintParseM.np_un above]; auto.
  - destruct (op =? op_receive); [discriminate|]. cbn [ExprPrintParseM.oprec]. intros h. inversion h as [h1].
    exists un_prec. split; [reflexivity|]. apply N.leb_gt in h1. exact h1.
  - destruct (op =? op_receive); [discriminate|]. cbn [ExprPrintParseM.oprec].
    destruct (ExprPrintParseM.bprec bin_prec o) as [pc|]; [|discriminate]. intros h. inversion h as [h1].
    exists pc. split; [reflexivity|]. apply N.leb_gt in h1. exact h1.
Qed.

(* every frame of the spine of e has a precedence not below pb, when e is above pb *)
Lemma spine_ge : forall e ts pb, pr e = Some ts -> above pb e ->
  Forall (fun f => exists pf, fprec f = Some pf /\ pb <= pf) (spine e).
Proof.
  induction e as [p a|p op x IH|p op l IHl r IHr]; intros ts pb hpr hab; [constructor| |].
  - cbn [ExprPrintParseM.pr] in hpr.
    destruct (spell op_string op) as [s|]; [|discriminate].
    destruct (np_un op x) as [b|] eqn:enp; [|discriminate].
    destruct (pr x) as [tx|] eqn:epx; [|discriminate].
    cbn [spine]. unfold wrapped_un. rewrite enp.
    destruct hab as [pe [h1 h2]]. cbn [ExprPrintParseM.oprec] in h1. inversion h1. subst pe.
    apply Forall_app. split.
    + destruct b; [constructor|]. apply (IH tx pb eq_refl).
      eapply above_trans; [|apply (unwrapped_un_above op x enp)]. lia.
    + constructor; [|constructor]. exists un_prec. split; [reflexivity|lia].
  - cbn [ExprPrintParseM.pr] in hpr.
    destruct (np_bin op l) as [bl|] eqn:enl; [|discriminate].
    destruct (pr l) as [tl|] eqn:epl; [|discriminate].
    destruct (spell op_string op) as [s|]; [|discriminate].
    destruct (np_bin op r) as [br|] eqn:enr; [|discriminate].
    destruct (pr r) as [tr|] eqn:epr; [|discriminate].
    cbn [spine]. unfold wrapped_bin at 1. rewrite enr.
    destruct hab as [pe [h1 h2]]. cbn [ExprPrintParseM.oprec] in h1.
    apply Forall_app. split.
    + destruct br; [constructor|]. apply (IHr tr pb eq_refl).
      eapply above_trans; [|apply (unwrapped_bin_above op r pe enr h1)]. lia.
    + constructor; [|constructor]. exists pe. split; [exact h1|lia].
Qed.

Lemma reduce_spine : forall A P pb o,
  Forall (fun f => exists pf, fprec f = Some pf /\ pb <= pf) A ->
  match P with [] => True | f :: _ => exists pf, fprec f = Some pf /\ pf < pb end ->
  reduce (A ++ P) pb o = Some (P, close A o).
Proof.
  induction A as [|f r IH]; intros P pb o hA hP.
  - cbn [app close]. destruct P as [|f r]; [reflexivity|]. destruct hP as [pf [h1 h2]].
    cbn [ExprPrintParseM.reduce]. rewrite h1. apply N.leb_gt in h2. rewrite h2. reflexivity.
  - inversion hA as [|x y [pf [h1 h2]] hr]. subst. cbn [app ExprPrintParseM.reduce close]. rewrite h1.
    apply N.leb_le in h2. rewrite h2. apply IH; assumption.
Qed.

(* a child printed with or without parentheses *)
Lemma child_run (c : expr) (b : bool) (tc : list token) :
  (forall cs P rest, head_ok P c ->
     run (SOperand cs P) (tc ++ rest) = run (SAfter cs (spine c ++ P) (lastop c)) rest) ->
  forall cs P rest, (b = false -> head_ok P c) ->
    run (SOperand cs P) (wrap b tc ++ rest) =
    run (SAfter cs ((if b then [] else spine c) ++ P) (if b then add_paren (norm c) else lastop c)) rest.
Proof.
  intros IH cs P rest hh. destruct b; cbn [wrap].
  - cbn [app ExprPrintParseM.run ExprPrintParseM.step]. rewrite <- app_assoc.
    rewrite (IH (P :: cs) [] ([TRP] ++ rest) I). cbn [app ExprPrintParseM.run ExprPrintParseM.step].
    rewrite app_nil_r, close_spine. reflexivity.
  - apply IH. auto.
Qed.

Lemma lookupb_un op s :
  un_ok op_string unary_tokens op = true -> spell op_string op = Some s -> lookupb unary_tokens s = Some op.
Proof.
  unfold un_ok. intros h hs. rewrite hs in h. destruct (lookupb unary_tokens s) as [u|]; [|discriminate].
  apply N.eqb_eq in h. subst. reflexivity.
Qed.

Lemma lookupb_bin op s :
  bin_ok op_string bin_prec binary_tokens op = true -> spell op_string op = Some s ->
  lookupb binary_tokens s = Some op /\ exists pb, bprec op = Some pb.
Proof.
  unfold bin_ok. intros h hs. rewrite hs in h.
  destruct (ExprPrintParseM.bprec bin_prec op) as [pb|]; [|discriminate].
  destruct (lookupb binary_tokens s) as [u|]; [|discriminate].
  apply N.eqb_eq in h. subst. split; [reflexivity|]. exists pb. reflexivity.
Qed.

Lemma match_list_same {A B} (l : list A) (x : B) : match l with [] => x | _ :: _ => x end = x.
Proof. destruct l; reflexivity. Qed.

Lemma main : forall e, wf e = true -> forall ts, pr e = Some ts ->
  forall cs P rest, head_ok P e ->
    run (SOperand cs P) (ts ++ rest) = run (SAfter cs (spine e ++ P) (lastop e)) rest.
Proof.
  induction e as [p a|p op x IH|p op l IHl r IHr]; intros hwf ts hpr cs P rest hh.
  - cbn [ExprPrintParseM.pr] in hpr. inversion hpr. subst. reflexivity.
  - cbn [ExprPrintParseM.wf] in hwf. apply andb_prop in hwf. destruct hwf as [hop hwx].
    cbn [ExprPrintParseM.pr] in hpr.
    destruct (spell op_string op) as [s|] eqn:es; [|discriminate].
    destruct (np_un op x) as [b|] eqn:enp; [|discriminate].
    destruct (pr x) as [tx|] eqn:epx; [|discriminate].
    inversion hpr. subst ts. cbn [app ExprPrintParseM.run ExprPrintParseM.step].
    rewrite (lookupb_un op s hop es).
    rewrite (child_run x b tx (fun cs0 P0 rest0 h0 => IH hwx tx eq_refl cs0 P0 rest0 h0)).
    + cbn [spine lastop]. unfold wrapped_un. rewrite enp. rewrite <- app_assoc. reflexivity.
    + intros eb. subst b. cbn [head_ok]. exists un_prec. split; [reflexivity|].
      apply (unwrapped_un_above op x enp).
  - cbn [ExprPrintParseM.wf] in hwf. apply andb_prop in hwf. destruct hwf as [hwf hwr].
    apply andb_prop in hwf. destruct hwf as [hop hwl].
    cbn [ExprPrintParseM.pr] in hpr.
    destruct (np_bin op l) as [bl|] eqn:enl; [|discriminate].
    destruct (pr l) as [tl|] eqn:epl; [|discriminate].
    destruct (spell op_string op) as [s|] eqn:es; [|discriminate].
    destruct (np_bin op r) as [br|] eqn:enr; [|discriminate].
    destruct (pr r) as [tr|] eqn:epr; [|discriminate].
    inversion hpr. subst ts.
    destruct (lookupb_bin op s hop es) as [hlk [pb hpb]].
    rewrite <- app_assoc.
    rewrite (child_run l bl tl (fun cs0 P0 rest0 h0 => IHl hwl tl eq_refl cs0 P0 rest0 h0)).
    2:{ intros eb. subst bl. destruct P as [|f P']; [exact I|]. cbn [head_ok] in *.
        destruct hh as [pf [h1 [pe [h2 h3]]]]. exists pf. split; [exact h1|].
        cbn [ExprPrintParseM.oprec] in h2. rewrite hpb in h2. inversion h2. subst pe.
        eapply above_trans; [|apply (unwrapped_bin_above op l pb enl hpb)]. lia. }
    cbn [app ExprPrintParseM.run ExprPrintParseM.step]. rewrite hlk, hpb.
    rewrite (reduce_spine (if bl then [] else spine l) P pb (if bl then add_paren (norm l) else lastop l)).
    2:{ destruct bl; [constructor|]. apply (spine_ge l tl pb epl). apply (unwrapped_bin_above op l pb enl hpb). }
    2:{ destruct P as [|f P']; [exact I|]. cbn [head_ok] in hh. destruct hh as [pf [h1 [pe [h2 h3]]]].
        cbn [ExprPrintParseM.oprec] in h2. rewrite hpb in h2. inversion h2. subst pe. exists pf. auto. }
    assert (hnl : close (if bl then [] else spine l) (if bl then add_paren (norm l) else lastop l)
                  = (if wrapped_bin op l then add_paren (norm l) else norm l)).
    { unfold wrapped_bin. rewrite enl. destruct bl; [reflexivity|apply close_spine]. }
    rewrite hnl. rewrite match_list_same.
    rewrite (child_run r br tr (fun cs0 P0 rest0 h0 => IHr hwr tr eq_refl cs0 P0 rest0 h0)).
    + cbn [spine lastop].
      assert (ew : wrapped_bin op r = br) by (unfold wrapped_bin; rewrite enr; reflexivity).
      rewrite ew. rewrite <- app_assoc. reflexivity.
    + intros eb. subst br. cbn [head_ok ExprPrintParseM.fprec]. exists pb. split; [exact hpb|].
      apply (unwrapped_bin_above op r pb enr hpb).
Qed.

(* printing never panics on well-formed expressions *)
Lemma pr_total : forall e, wf e = true -> exists ts, pr e = Some ts.
Proof.
  induction e as [p a|p op x IH|p op l IHl r IHr]; intros hwf.
  - eexists. reflexivity.
  - cbn [ExprPrintParseM.wf] in hwf. apply andb_prop in hwf. destruct hwf as [hop hwx].
    destruct (IH hwx) as [tx ex]. cbn [ExprPrintParseM.pr]. rewrite ex.
    unfold un_ok in hop. destruct (spell op_string op) as [s|]; [|discriminate].
    assert (hnp : exists b, np_un op x = Some b).
    { destruct x as [p' a|p' o y|p' o y z]; cbn [ExprPrintParseM.np_un]; [eexists; reflexivity| |].
      - destruct (op =? op_receive); eexists; reflexivity.
      - destruct (op =? op_receive); [eexists; reflexivity|]. cbn [ExprPrintParseM.oprec].
        cbn [ExprPrintParseM.wf] in hwx. apply andb_prop in hwx. destruct hwx as [hwx _].
        apply andb_prop in hwx. destruct hwx as [hb _]. unfold bin_ok in hb.
        destruct (spell op_string o); [|discriminate].
        destruct (ExprPrintParseM.bprec bin_prec o); [eexists; reflexivity|discriminate]. }
    destruct hnp as [b eb]. rewrite eb. eexists. reflexivity.
  - cbn [ExprPrintParseM.wf] in hwf. apply andb_prop in hwf. destruct hwf as [hwf hwr].
    apply andb_prop in hwf. destruct hwf as [hop hwl].
    destruct (IHl hwl) as [tl el]. destruct (IHr hwr) as [tr er]. cbn [ExprPrintParseM.pr]. rewrite el, er.
    unfold bin_ok in hop. destruct (spell op_string op) as [s|]; [|discriminate].
    destruct (ExprPrintParseM.bprec bin_prec op) as [pp|] eqn:epp; [|discriminate].
    assert (hnp : forall c, wf c = true -> exists b, np_bin op c = Some b).
    { intros c hc. destruct c as [p' a|p' o y|p' o y z]; cbn [ExprPrintParseM.np_bin]; [eexists; reflexivity| |].
      - cbn [ExprPrintParseM.oprec]. rewrite epp. eexists. reflexivity.
      - cbn [ExprPrintParseM.oprec]. cbn [ExprPrintParseM.wf] in hc. apply andb_prop in hc. destruct hc as [hc _].
        apply andb_prop in hc. destruct hc as [hb _]. unfold bin_ok in hb.
        destruct (spell op_string o); [|discriminate].
        destruct (ExprPrintParseM.bprec bin_prec o); [|discriminate]. rewrite epp. eexists. reflexivity. }
    destruct (hnp l hwl) as [bl ebl]. destruct (hnp r hwr) as [br ebr]. rewrite ebl, ebr.
    eexists. reflexivity.
Qed.

(* C27 over the model: for every well-formed operator expression, with any
   parenthesis counts, printing does not panic, the printed tokens parse, and
   the parsed tree is the original up to the parenthesis counts. *)
Theorem parse_print : forall e, wf e = true ->
  exists ts e', pr e = Some ts /\ parse ts = Some e' /\ erase_parens e' = erase_parens e.
Proof.
  intros e hwf. destruct (pr_total e hwf) as [ts hts]. exists ts, (norm e).
  split; [exact hts|]. split; [|apply erase_norm].
  unfold ExprPrintParseM.parse.
  pose proof (main e hwf ts hts [] [] [] I) as h. rewrite !app_nil_r in h. rewrite h.
  cbn [ExprPrintParseM.run]. rewrite close_spine. reflexivity.
Qed.

End Proof.
