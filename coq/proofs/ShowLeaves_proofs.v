(* The computed leaves are well formed literals: an escaped string is the body
   of a string literal (proved from the generated table of jsStringEscape),
   base64 text too, and the decimal text of an integer is a JSON number. *)
From Coq Require Import List NArith ZArith Bool Lia.
From Verif Require Import Bytes Facts_escapers ShowTree Facts_show ShowTypesM ShowJsonM ShowLeavesM Json Json_proofs.
Import ListNotations.
Open Scope N_scope.

(* ---- string bodies ---- *)

Definition plain (c : N) : bool := negb (c =? 34) && negb (c =? 92) && negb (c <? 32).

(* one unit of a string body: a plain character or a complete escape *)
Definition chunk_ok (e : bytes) : bool :=
  match e with
  | [c] => plain c
  | [c; x] => (c =? 92) && is_simple_escape x
  | [c; u; h1; h2; h3; h4] => (c =? 92) && (u =? 117) && negb (is_simple_escape u) && is_hex h1 && is_hex h2 && is_hex h3 && is_hex h4
  | _ => false
  end.

Lemma body_ok_chunk e r : chunk_ok e = true -> body_ok (e ++ r) = body_ok r.
Proof.
  intro H. destruct e as [| c [| x [| h1 [| h2 [| h3 [| h4 [| z e]]]]]]]; try discriminate H; cbn [chunk_ok] in H.
  - unfold plain in H. apply andb_true_iff in H. destruct H as [H H3]. apply andb_true_iff in H. destruct H as [H1 H2].
    apply negb_true_iff in H1. apply negb_true_iff in H2. apply negb_true_iff in H3.
    cbn [app body_ok]. rewrite H1, H2, H3. reflexivity.
  - apply andb_true_iff in H. destruct H as [H1 H2]. apply N.eqb_eq in H1. subst c.
    cbn [app body_ok]. change (92 =? 34) with false. change (92 =? 92) with true. cbn iota. rewrite H2. reflexivity.
  - repeat (apply andb_true_iff in H; destruct H as [H ?Hx]).
    apply N.eqb_eq in H. subst c. apply negb_true_iff in Hx3.
    cbn [app body_ok]. change (92 =? 34) with false. change (92 =? 92) with true. cbn iota.
    rewrite Hx3, Hx4, Hx2, Hx1, Hx0, Hx. reflexivity.
Qed.

(* obligation over the generated table: every escape of an ASCII byte, and those of U+2028, U+2029, is one unit *)
Definition escapes_ok : bool :=
  forallb (fun c => chunk_ok (esc_byte c)) (map N.of_nat (seq 0 128)) &&
  chunk_ok (esc_rune 8232 [226; 128; 168]) && chunk_ok (esc_rune 8233 [226; 128; 169]).

Lemma escapes_ok_true : escapes_ok = true.
Proof. vm_compute. reflexivity. Qed.

Lemma esc_byte_chunk c : chunk_ok (esc_byte c) = true.
Proof.
  destruct (c <? 128) eqn:E.
  - pose proof escapes_ok_true as H. unfold escapes_ok in H.
    apply andb_true_iff in H. destruct H as [H _]. apply andb_true_iff in H. destruct H as [H _].
    rewrite forallb_forall in H. apply H. apply N.ltb_lt in E.
    apply in_map_iff. exists (N.to_nat c). split; [apply Nnat.N2Nat.id | apply in_seq; lia].
  - unfold esc_byte. rewrite E. cbn [chunk_ok]. unfold plain. apply N.ltb_ge in E.
    repeat (apply andb_true_iff; split); apply negb_true_iff; try (apply N.eqb_neq; lia). apply N.ltb_ge. lia.
Qed.

Lemma js_escape_body : forall n s, (length s < n)%nat -> body_ok (js_escape s) = true.
Proof.
  pose proof escapes_ok_true as HE. unfold escapes_ok in HE.
  apply andb_true_iff in HE. destruct HE as [HE H29]. apply andb_true_iff in HE. destruct HE as [_ H28].
  induction n as [| n IH]; intros s Hn; [lia |].
  destruct s as [| c r]; [reflexivity |]. cbn [js_escape].
  destruct r as [| c2 [| c3 r']].
  - rewrite body_ok_chunk; [reflexivity | apply esc_byte_chunk].
  - rewrite body_ok_chunk; [| apply esc_byte_chunk]. apply IH. simpl in *. lia.
  - destruct ((c =? 226) && (c2 =? 128) && (c3 =? 168)) eqn:E1.
    + apply andb_true_iff in E1. destruct E1 as [E1 E13]. apply andb_true_iff in E1. destruct E1 as [E11 E12].
      apply N.eqb_eq in E11. apply N.eqb_eq in E12. apply N.eqb_eq in E13. subst.
      rewrite body_ok_chunk; [| exact H28]. apply IH. simpl in *. lia.
    + destruct ((c =? 226) && (c2 =? 128) && (c3 =? 169)) eqn:E2.
      * apply andb_true_iff in E2. destruct E2 as [E2 E23]. apply andb_true_iff in E2. destruct E2 as [E21 E22].
        apply N.eqb_eq in E21. apply N.eqb_eq in E22. apply N.eqb_eq in E23. subst.
        rewrite body_ok_chunk; [| exact H29]. apply IH. simpl in *. lia.
      * rewrite body_ok_chunk; [| apply esc_byte_chunk]. apply IH. simpl in *. lia.
Qed.

Lemma js_escape_ok s : body_ok (js_escape s) = true.
Proof. apply (js_escape_body (S (length s))). lia. Qed.

Lemma body_ok_plain l : forallb plain l = true -> body_ok l = true.
Proof.
  induction l as [| c r IH]; [reflexivity |]. cbn [forallb]. intro H. apply andb_true_iff in H. destruct H as [Hc Hr].
  change (c :: r) with ([c] ++ r). rewrite body_ok_chunk; [apply IH; exact Hr | exact Hc].
Qed.

Lemma plain_b64 i : plain (b64_char i) = true.
Proof.
  unfold b64_char, plain.
  destruct (i <? 26) eqn:E1; [apply N.ltb_lt in E1 |
  destruct (i <? 52) eqn:E2; [apply N.ltb_lt in E2; apply N.ltb_ge in E1 |
  destruct (i <? 62) eqn:E3; [apply N.ltb_lt in E3; apply N.ltb_ge in E2 |
  destruct (i =? 62) eqn:E4; [| ]]]];
  try reflexivity;
  repeat (apply andb_true_iff; split); apply negb_true_iff; try (apply N.eqb_neq; lia); apply N.ltb_ge; lia.
Qed.

Lemma base64_plain : forall n s, (length s < n)%nat -> forallb plain (base64 s) = true.
Proof.
  induction n as [| n IH]; intros s Hn; [lia |].
  destruct s as [| a [| b [| c r]]]; cbn [base64 forallb app]; rewrite ?plain_b64; cbn [andb]; try reflexivity.
  apply IH. simpl in *. lia.
Qed.

Lemma base64_ok s : body_ok (base64 s) = true.
Proof. apply body_ok_plain. apply (base64_plain (S (length s))). lia. Qed.

(* ---- decimal numbers ---- *)

Lemma digits_dfa3 r : forallb is_digit r = true -> num_dfa 3 r = true.
Proof.
  induction r as [| c r IH]; [reflexivity |]. cbn [forallb]. intro H. apply andb_true_iff in H. destruct H as [Hc Hr].
  cbn [num_dfa]. change (3 =? 0) with false. change (3 =? 1) with false. change (3 =? 2) with false. change (3 =? 3) with true.
  cbn iota. rewrite Hc. apply IH. exact Hr.
Qed.

Lemma digits_number d r : is_digit d = true -> d <> 48 -> forallb is_digit r = true -> is_number (d :: r) = true.
Proof.
  intros Hd Hz Hr. unfold is_number. cbn [num_dfa]. change (0 =? 0) with true. cbn iota.
  assert (E1 : (d =? 45) = false).
  { unfold is_digit in Hd. apply andb_true_iff in Hd. destruct Hd as [H1 H2]. apply N.leb_le in H1. apply N.eqb_neq. lia. }
  assert (E2 : (d =? 48) = false) by (apply N.eqb_neq; exact Hz).
  rewrite E1, E2, Hd. apply digits_dfa3. exact Hr.
Qed.

Lemma size_le_of_lt m k : m < 2 ^ k -> N.size m <= k.
Proof.
  intro H. pose proof (N.size_le m) as H1. rewrite N.succ_double_spec in H1.
  assert (H2 : 2 ^ N.size m < 2 ^ (k + 1)).
  { rewrite N.pow_add_r. change (2 ^ 1) with 2. lia. }
  apply N.pow_lt_mono_r_iff in H2; lia.
Qed.

Lemma size_div10 n : n / 10 <> 0 -> N.size (n / 10) < N.size n.
Proof.
  intro H. assert (Hn : 10 <= n).
  { destruct (N.lt_ge_cases n 10) as [Hl | Hl]; [| exact Hl]. rewrite (N.div_small n 10 Hl) in H. contradiction. }
  pose proof (N.size_gt n) as Hg.
  assert (Hs : N.size n <> 0) by (destruct n; simpl; [lia | discriminate]).
  assert (Hp : 2 ^ N.size n = 2 * 2 ^ (N.size n - 1)).
  { replace (N.size n) with (N.succ (N.size n - 1)) at 1 by lia. apply N.pow_succ_r'. }
  assert (Hd : n / 10 < 2 ^ (N.size n - 1)).
  { apply N.div_lt_upper_bound; lia. }
  pose proof (size_le_of_lt _ _ Hd). lia.
Qed.

Lemma dec_digits_S fuel n acc :
  dec_digits (S fuel) n acc =
    if n / 10 =? 0 then (48 + n mod 10) :: acc else dec_digits fuel (n / 10) ((48 + n mod 10) :: acc).
Proof. reflexivity. Qed.

Lemma dec_digits_spec : forall fuel n acc, n <> 0 -> (N.to_nat (N.size n) <= fuel)%nat ->
  exists d r, dec_digits (S fuel) n acc = d :: r ++ acc /\ is_digit d = true /\ d <> 48 /\ forallb is_digit r = true.
Proof.
  induction fuel as [| fuel IH]; intros n acc Hn Hf.
  - exfalso. destruct n; [contradiction | simpl in Hf; lia].
  - rewrite dec_digits_S.
    assert (Hm : n mod 10 < 10) by (apply N.mod_lt; discriminate).
    assert (Hdig : is_digit (48 + n mod 10) = true).
    { unfold is_digit. generalize dependent (n mod 10). intros m Hm. apply andb_true_iff. split; apply N.leb_le; lia. }
    destruct (n / 10 =? 0) eqn:E.
    + apply N.eqb_eq in E. exists (48 + n mod 10), []. split; [reflexivity |]. split; [exact Hdig |]. split; [| reflexivity].
      assert (Hlt : n < 10) by (apply N.div_small_iff in E; [exact E | discriminate]).
      rewrite N.mod_small by assumption. intro Hc. apply Hn. clear - Hc Hlt. lia.
    + apply N.eqb_neq in E.
      destruct (IH (n / 10) ((48 + n mod 10) :: acc) E) as [d [r [Hr [Hd [Hz Hds]]]]].
      { pose proof (size_div10 n E). lia. }
      exists d, (r ++ [48 + n mod 10]). split; [rewrite Hr, <- app_assoc; reflexivity |].
      split; [exact Hd |]. split; [exact Hz |]. rewrite forallb_app, Hds. cbn [forallb]. rewrite Hdig. reflexivity.
Qed.

Lemma dec_of_N_number n : is_number (dec_of_N n) = true.
Proof.
  unfold dec_of_N. destruct (N.eq_dec n 0) as [E | E].
  - subst. reflexivity.
  - destruct (dec_digits_spec (N.to_nat (N.size n)) n [] E (le_n _)) as [d [r [Hr [Hd [Hz Hds]]]]].
    rewrite Hr, app_nil_r. apply digits_number; assumption.
Qed.

Lemma dec_of_Z_number z : is_number (dec_of_Z z) = true.
Proof.
  destruct z; cbn [dec_of_Z].
  - reflexivity.
  - apply dec_of_N_number.
  - unfold dec_of_N.
    destruct (dec_digits_spec (N.to_nat (N.size (N.pos p))) (N.pos p) [] ltac:(discriminate) (le_n _)) as [d [r [Hr [Hd [Hz Hds]]]]].
    rewrite Hr, app_nil_r. unfold is_number. cbn [num_dfa]. change (0 =? 0) with true. change (45 =? 45) with true. cbn iota.
    change (1 =? 0) with false. change (1 =? 1) with true. cbn iota.
    assert (E2 : (d =? 48) = false) by (apply N.eqb_neq; exact Hz).
    rewrite E2, Hd. apply digits_dfa3. exact Hds.
Qed.
