(* C07, URL attributes, decoder side: a query escaped string placed in the
   query of a URL attribute value is given back verbatim by the reference
   decoder (UrlRefM.url_ref_decode), inside one key or one value, and the rest
   of the decoded URL does not depend on it. *)
From Coq Require Import List NArith Bool Lia.
From Verif Require Import Bytes Utf8 Facts_escapers Facts_esc EscapersM HtmlDecode Decoders
  Trans_proofs HtmlDecode_proofs Escapers_proofs Roundtrip_proofs UrlRefM.
Import ListNotations.
Open Scope N_scope.

(* ---------------------------------------------------------------- splitting *)

Lemma mem_false_not_in s c : mem s c = false -> ~ In c s.
Proof.
  unfold mem. induction s as [|x r IH]; cbn [existsb]; intros H Hin; [exact Hin|].
  apply orb_false_elim in H. destruct H as [Hx Hr]. destruct Hin as [->|Hin].
  - rewrite N.eqb_refl in Hx. discriminate.
  - exact (IH Hr Hin).
Qed.

Lemma not_in_mem_false s c : ~ In c s -> mem s c = false.
Proof.
  unfold mem. induction s as [|x r IH]; cbn [existsb]; intros H; [reflexivity|].
  apply orb_false_intro.
  - apply N.eqb_neq. intros ->. apply H. left. reflexivity.
  - apply IH. intros Hin. apply H. right. exact Hin.
Qed.

Lemma split_first_no c a b :
  ~ In c a -> split_first c (a ++ b) = let '(x, y) := split_first c b in (a ++ x, y).
Proof.
  induction a as [|x a IH]; intros H; cbn [app split_first].
  - destruct (split_first c b). reflexivity.
  - destruct (N.eqb_spec x c) as [->|Hx]; [exfalso; apply H; left; reflexivity|].
    rewrite IH by (intros Hin; apply H; right; exact Hin).
    destruct (split_first c b). reflexivity.
Qed.

Lemma split_first_yes c a x y b :
  split_first c a = (x, Some y) -> split_first c (a ++ b) = (x, Some (y ++ b)).
Proof.
  revert x y. induction a as [|z a IH]; intros x y H; cbn [app split_first] in *; [discriminate|].
  destruct (N.eqb_spec z c) as [->|Hz].
  - injection H as <- <-. reflexivity.
  - destruct (split_first c a) as [x' y'] eqn:E. injection H as <- ->.
    rewrite (IH x' y eq_refl). reflexivity.
Qed.

Lemma split_first_none c a x : split_first c a = (x, None) -> ~ In c a /\ x = a.
Proof.
  revert x. induction a as [|z a IH]; intros x H; cbn [split_first] in H.
  - injection H as <-. split; [intros []|reflexivity].
  - destruct (N.eqb_spec z c) as [->|Hz]; [discriminate|].
    destruct (split_first c a) as [x' y'] eqn:E. injection H as <- ->.
    destruct (IH x' eq_refl) as [Hn ->]. split; [|reflexivity].
    intros [->|Hin]; [congruence|exact (Hn Hin)].
Qed.

Lemma split_first_some_in c a x y : split_first c a = (x, Some y) -> In c a.
Proof.
  revert x. induction a as [|z a IH]; intros x H; cbn [split_first] in H; [discriminate|].
  destruct (N.eqb_spec z c) as [->|Hz]; [left; reflexivity|].
  destruct (split_first c a) as [x' y'] eqn:E. injection H as <- ->. right. exact (IH x' eq_refl).
Qed.

Lemma split_all_nonempty c s : split_all c s <> [].
Proof.
  induction s as [|x r IH]; cbn [split_all]; [discriminate|].
  destruct (x =? c); [discriminate|]. destruct (split_all c r); [congruence|discriminate].
Qed.

Lemma split_all_no c m : ~ In c m -> split_all c m = [m].
Proof.
  induction m as [|x m IH]; intros H; cbn [split_all]; [reflexivity|].
  destruct (N.eqb_spec x c) as [->|Hx]; [exfalso; apply H; left; reflexivity|].
  rewrite IH by (intros Hin; apply H; right; exact Hin). reflexivity.
Qed.

(* the components of a ++ b: those of a but the last, the last of a joined with the first of b, the others of b *)
Lemma split_all_app c a b :
  split_all c (a ++ b) =
  removelast (split_all c a) ++ [last (split_all c a) [] ++ hd [] (split_all c b)] ++ tl (split_all c b).
Proof.
  induction a as [|x a IH]; cbn [app].
  - cbn [split_all removelast last app]. pose proof (split_all_nonempty c b) as Hb.
    destruct (split_all c b) as [|h t]; [congruence|reflexivity].
  - cbn [split_all]. destruct (N.eqb_spec x c) as [->|Hx].
    + rewrite IH. pose proof (split_all_nonempty c a) as Ha.
      destruct (split_all c a) as [|h t] eqn:E; [congruence|]. reflexivity.
    + rewrite IH. pose proof (split_all_nonempty c a) as Ha.
      destruct (split_all c a) as [|h t] eqn:E; [congruence|].
      destruct t as [|h2 t2]; reflexivity.
Qed.

Lemma removelast_last {A} (l : list A) d : l <> [] -> l = removelast l ++ [last l d].
Proof. intros H. apply app_removelast_last. exact H. Qed.

(* a separator free text m between a and b: one component holds it *)
Lemma split_all_mid c a m b :
  ~ In c m ->
  split_all c (a ++ m ++ b) =
  removelast (split_all c a) ++ [last (split_all c a) [] ++ m ++ hd [] (split_all c b)] ++ tl (split_all c b).
Proof.
  intros Hm. rewrite split_all_app. rewrite (split_all_app c m b), (split_all_no c m Hm).
  cbn [removelast last app hd tl]. reflexivity.
Qed.

(* ---------------------------------------------------------------- the output of queryEscape *)

Definition sep_free (x : N) : bool :=
  negb ((x =? c_amp) || (x =? c_eq) || (x =? c_hash) || (x =? c_qm)).

Definition query_block_check (c : N) : bool := forallb sep_free (esc_or_self gen_queryEscape_tbl c).

(* T1 obligation on the generated table: no byte is written as itself or inside
   its escape that is an ampersand, an equals sign, a number sign or a question mark *)
Lemma fact_query_sep_free : forallb query_block_check all_bytes = true.
Proof. vm_compute. reflexivity. Qed.

Lemma query_block_sep_free c : forallb sep_free (esc_or_self gen_queryEscape_tbl c) = true.
Proof.
  destruct (N.lt_ge_cases c 256) as [Hc|Hc].
  - exact (forall_bytes _ fact_query_sep_free c Hc).
  - rewrite esc_or_self_oob by (assumption || exact fact_query_keys).
    cbn [forallb]. unfold sep_free, c_amp, c_eq, c_hash, c_qm.
    destruct (N.eqb_spec c 38); [lia|]. destruct (N.eqb_spec c 61); [lia|].
    destruct (N.eqb_spec c 35); [lia|]. destruct (N.eqb_spec c 63); [lia|]. reflexivity.
Qed.

Lemma query_sep_free s : forallb sep_free (flat (queryEscape s)) = true.
Proof.
  rewrite queryEscape_flat. induction s as [|c r IH]; cbn [flat_map]; [reflexivity|].
  rewrite forallb_app, query_block_sep_free, IH. reflexivity.
Qed.

Lemma sep_free_not_in l c :
  forallb sep_free l = true -> c = c_amp \/ c = c_eq \/ c = c_hash \/ c = c_qm -> ~ In c l.
Proof.
  intros H Hc Hin. rewrite forallb_forall in H. specialize (H c Hin). unfold sep_free in H.
  destruct Hc as [ -> | [ -> | [ -> | -> ] ] ]; rewrite N.eqb_refl in H; cbn in H;
    repeat rewrite orb_true_r in H; discriminate.
Qed.

(* ---------------------------------------------------------------- HTML decoding around the slot *)

Lemma hrun_plain s : ~ In 38 s -> hrun HData s = (HData, s).
Proof.
  induction s as [|c r IH]; intros H; cbn [hrun]; [reflexivity|].
  rewrite hstep_data_plain by (intros ->; apply H; left; reflexivity).
  rewrite IH by (intros Hin; apply H; right; exact Hin). reflexivity.
Qed.

(* pre leaves the decoder in the data state: no character reference is open where the slot begins *)
Definition html_closed (pre : bytes) : Prop := fst (hrun HData pre) = HData.

Lemma html_decode_around pre m post :
  html_closed pre -> ~ In 38 m ->
  html_decode (pre ++ m ++ post) = snd (hrun HData pre) ++ m ++ html_decode post.
Proof.
  unfold html_closed, html_decode. intros Hc Hm. rewrite hrun_app.
  destruct (hrun HData pre) as [st o]. cbn [fst snd] in *. subst st.
  rewrite hrun_app, (hrun_plain m Hm). destruct (hrun HData post) as [st2 o2].
  rewrite <- !app_assoc. reflexivity.
Qed.

(* ---------------------------------------------------------------- percent decoding around the slot *)

(* a leaves the percent decoder in the data state: no percent escape is open where the slot begins *)
Definition pct_closed (a : bytes) : Prop := fst (prun true PData a) = PData.

Lemma query_decode_around a s b :
  pct_closed a ->
  query_decode (a ++ flat (queryEscape s) ++ b) = query_decode a ++ s ++ query_decode b.
Proof.
  unfold pct_closed, query_decode, pct_decode_gen, prun. intros Ha.
  rewrite trun_app. destruct (trun (pstep true) PData a) as [st o] eqn:E. cbn [fst] in Ha. subst st.
  rewrite queryEscape_flat.
  rewrite (trun_prefix (pstep true) PData _ s b) by (apply trun_blocks; intros c; apply query_block).
  destruct (trun (pstep true) PData b) as [st2 o2]. unfold prepend. cbn [fst snd pfinish].
  rewrite app_nil_r, <- !app_assoc. reflexivity.
Qed.

(* ---------------------------------------------------------------- the slot theorem *)

(* s appears verbatim, between fixed texts, in the key or in the value of the pair *)
Definition plugs (f : bytes -> pair) : Prop :=
  (exists a b vo, forall s, f s = (a ++ s ++ b, vo)) \/
  (exists k a b, forall s, f s = (k, Some (a ++ s ++ b))).

(* what precedes the slot inside its key or value: the text after the last
   separator of the query so far *)
Definition slot_prefix (q : bytes) : bytes :=
  let lastc := last (split_all c_amp q) [] in
  match split_first c_eq lastc with
  | (_, Some v) => v
  | (k, None) => k
  end.

Theorem url_query_slot pre post :
  html_closed pre ->
  (forall path q, split_first c_qm (snd (hrun HData pre)) = (path, Some q) ->
     ~ In c_hash (snd (hrun HData pre)) -> pct_closed (slot_prefix q)) ->
  In c_qm (snd (hrun HData pre)) -> ~ In c_hash (snd (hrun HData pre)) ->
  exists path before after frag (plug : bytes -> pair),
    plugs plug /\
    forall s, url_ref_decode (pre ++ flat (queryEscape s) ++ post)
              = mkUrl path (Some (before ++ [plug s] ++ after)) frag.
Proof.
  intros Hc Hp Hq Hh. set (P := snd (hrun HData pre)) in *.
  destruct (split_first c_qm P) as [path0 q0] eqn:Eq.
  destruct q0 as [Q|]; [|exfalso; destruct (split_first_none _ _ _ Eq) as [Hn _]; exact (Hn Hq)].
  specialize (Hp path0 Q eq_refl Hh).
  set (R := html_decode post).
  destruct (split_first c_hash R) as [R1 frag0] eqn:Ef.
  (* the pair that holds the slot *)
  set (lastQ := last (split_all c_amp Q) []) in *.
  set (firstR := hd [] (split_all c_amp R1)).
  assert (Hsafe : forall s c, c = c_amp \/ c = c_eq \/ c = c_hash \/ c = c_qm -> ~ In c (flat (queryEscape s))).
  { intros s c Hc'. apply sep_free_not_in; [apply query_sep_free|exact Hc']. }
  (* the shape of the decoded URL for every s *)
  assert (Shape : forall s,
    url_ref_decode (pre ++ flat (queryEscape s) ++ post) =
    mkUrl (pct_decode path0)
          (Some (map decode_pair (removelast (split_all c_amp Q)) ++
                 [decode_pair (lastQ ++ flat (queryEscape s) ++ firstR)] ++
                 map decode_pair (tl (split_all c_amp R1))))
          (match frag0 with Some f => Some (pct_decode f) | None => None end)).
  { intros s. unfold url_ref_decode.
    rewrite (html_decode_around pre (flat (queryEscape s)) post Hc) by (apply (Hsafe s 38); left; reflexivity).
    fold P. fold R. unfold url_parse.
    (* the fragment starts in R *)
    rewrite (split_first_no c_hash P _ Hh).
    rewrite (split_first_no c_hash (flat (queryEscape s)) R) by (apply Hsafe; right; right; left; reflexivity).
    rewrite Ef.
    (* the query starts in P *)
    rewrite (split_first_yes c_qm P path0 Q _ Eq).
    f_equal. f_equal.
    rewrite (split_all_mid c_amp Q (flat (queryEscape s)) R1) by (apply Hsafe; left; reflexivity).
    rewrite !map_app. reflexivity. }
  unfold slot_prefix in Hp. fold lastQ in Hp.
  destruct (split_first c_eq lastQ) as [k0 v0] eqn:Ek. destruct v0 as [v1|].
  - (* the slot is in the value *)
    exists (pct_decode path0), (map decode_pair (removelast (split_all c_amp Q))),
           (map decode_pair (tl (split_all c_amp R1))),
           (match frag0 with Some f => Some (pct_decode f) | None => None end),
           (fun s => (query_decode k0, Some (query_decode v1 ++ s ++ query_decode firstR))).
    split.
    + right. exists (query_decode k0), (query_decode v1), (query_decode firstR). intros s. reflexivity.
    + intros s. rewrite Shape. f_equal. f_equal. f_equal. f_equal. unfold decode_pair.
      rewrite (split_first_yes c_eq lastQ k0 v1 _ Ek).
      rewrite (query_decode_around v1 s firstR Hp). reflexivity.
  - (* the slot is in the key (up to an equals sign of the following text, if any) *)
    destruct (split_first_none _ _ _ Ek) as [Hne ->].
    destruct (split_first c_eq firstR) as [a0 b0] eqn:Ea.
    exists (pct_decode path0), (map decode_pair (removelast (split_all c_amp Q))),
           (map decode_pair (tl (split_all c_amp R1))),
           (match frag0 with Some f => Some (pct_decode f) | None => None end),
           (fun s => (query_decode lastQ ++ s ++ query_decode a0,
                      match b0 with Some v' => Some (query_decode v') | None => None end)).
    split.
    + left. exists (query_decode lastQ), (query_decode a0),
        (match b0 with Some v' => Some (query_decode v') | None => None end). intros s. reflexivity.
    + intros s. rewrite Shape. f_equal. f_equal. f_equal. f_equal. unfold decode_pair.
      rewrite (split_first_no c_eq lastQ _ Hne).
      rewrite (split_first_no c_eq (flat (queryEscape s)) firstR) by (apply Hsafe; right; left; reflexivity).
      rewrite Ea.
      (* query_decode (lastQ ++ qe s ++ a0) *)
      assert (E : lastQ ++ flat (queryEscape s) ++ a0 = lastQ ++ flat (queryEscape s) ++ a0) by reflexivity.
      rewrite (query_decode_around lastQ s a0 Hp). reflexivity.
Qed.

(* in the fragment: the text after the number sign is percent decoded as a whole *)
Theorem url_fragment_slot pre post :
  html_closed pre ->
  forall pq f, split_first c_hash (snd (hrun HData pre)) = (pq, Some f) ->
  fst (prun false PData f) = PData ->
  exists u, forall s,
    u_frag (url_ref_decode (pre ++ flat (queryEscape s) ++ post))
    = Some (pct_decode f ++ s ++ pct_decode (html_decode post)) /\
    u_path (url_ref_decode (pre ++ flat (queryEscape s) ++ post)) = u_path u /\
    u_query (url_ref_decode (pre ++ flat (queryEscape s) ++ post)) = u_query u.
Proof.
  intros Hc pq f Ef Hp.
  exists (url_parse (snd (hrun HData pre))). intros s. unfold url_ref_decode.
  rewrite (html_decode_around pre (flat (queryEscape s)) post Hc)
    by (apply sep_free_not_in; [apply query_sep_free|left; reflexivity]).
  unfold url_parse. rewrite (split_first_yes c_hash _ pq f _ Ef), Ef.
  destruct (split_first c_qm pq) as [path q]. cbn [u_frag u_path u_query]. split; [|split; reflexivity].
  f_equal. unfold pct_decode, pct_decode_gen, prun in *.
  rewrite trun_app. destruct (trun (pstep false) PData f) as [st o] eqn:E. cbn [fst] in Hp. subst st.
  rewrite queryEscape_flat.
  rewrite (trun_prefix (pstep false) PData _ s (html_decode post)) by (apply trun_blocks; intros c; apply query_block).
  destruct (trun (pstep false) PData (html_decode post)) as [st2 o2]. unfold prepend. cbn [fst snd pfinish].
  rewrite app_nil_r, <- !app_assoc. reflexivity.
Qed.

(* non vacuity: <a href="/s?l=en&amp;q={{ s }}&amp;z=1#f"> *)
Example url_query_slot_example :
  let pre := [47; 115; 63; 108; 61; 101; 110; 38; 97; 109; 112; 59; 113; 61] in
  let post := [38; 97; 109; 112; 59; 122; 61; 49; 35; 102] in
  html_closed pre /\ In c_qm (snd (hrun HData pre)) /\ ~ In c_hash (snd (hrun HData pre)) /\
  pct_closed (slot_prefix [108; 61; 101; 110; 38; 113; 61]) /\
  url_ref_decode (pre ++ flat (queryEscape [97; 38; 98; 61; 32; 43]) ++ post)
  = mkUrl [47; 115] (Some [([108], Some [101; 110]); ([113], Some [97; 38; 98; 61; 32; 43]); ([122], Some [49])]) (Some [102]).
Proof.
  cbv zeta. split; [reflexivity|]. split; [vm_compute; tauto|]. split.
  - apply mem_false_not_in. vm_compute. reflexivity.
  - split; vm_compute; reflexivity.
Qed.
