(* Proofs about the model of constant.go (ConstsM.v): the integer core. *)
From Coq Require Import ZArith List Bool Lia Znumtheory.
From Verif Require Import Facts_consts ConstsM.
Import ListNotations.
Open Scope Z_scope.

(* ------------------------------------------------------------------ ranges *)

Definition in64 (z : Z) : Prop := min64 <= z <= max64.

Ltac unfold64 :=
  unfold in64, is_int64, is_uint64, wrap64, min64, max64, maxu64 in *;
  change (2 ^ 63) with 9223372036854775808 in *;
  change (2 ^ 64) with 18446744073709551616 in *.

Lemma is_int64_spec z : is_int64 z = true <-> in64 z.
Proof. unfold64. rewrite andb_true_iff, !Z.leb_le. lia. Qed.

Lemma is_int64_false z : is_int64 z = false <-> ~ in64 z.
Proof. rewrite <- is_int64_spec. destruct (is_int64 z); split; congruence. Qed.

Lemma wrap64_id z : in64 z -> wrap64 z = z.
Proof. unfold64. intros H. rewrite Z.mod_small; lia. Qed.

Lemma wrap64_hi z : max64 < z <= max64 + 2 ^ 64 -> wrap64 z = z - 2 ^ 64.
Proof.
  unfold64. intros H.
  replace (z + 9223372036854775808) with ((z + 9223372036854775808 - 18446744073709551616) + 1 * 18446744073709551616) by lia.
  rewrite Z_mod_plus_full, Z.mod_small; lia.
Qed.

Lemma wrap64_lo z : min64 - 2 ^ 64 <= z < min64 -> wrap64 z = z + 2 ^ 64.
Proof.
  unfold64. intros H.
  replace (z + 9223372036854775808) with ((z + 9223372036854775808 + 18446744073709551616) + (-1) * 18446744073709551616) by lia.
  rewrite Z_mod_plus_full, Z.mod_small; lia.
Qed.

Lemma wrap64_range z : in64 (wrap64 z).
Proof.
  unfold64. pose proof (Z.mod_pos_bound (z + 9223372036854775808) 18446744073709551616 ltac:(lia)). lia.
Qed.

(* wrap64 z differs from z by a multiple of 2^64 *)
Lemma wrap64_cong z : exists k, wrap64 z = z - k * 2 ^ 64.
Proof.
  unfold64. exists ((z + 9223372036854775808) / 18446744073709551616).
  pose proof (Z.div_mod (z + 9223372036854775808) 18446744073709551616 ltac:(lia)). lia.
Qed.

(* ------------------------------------------------------------------ bit length *)

Lemma bitlen_le z n : 0 <= n -> (bitlen z <= n <-> Z.abs z < 2 ^ n).
Proof.
  intros Hn. unfold bitlen. destruct (Z.eqb_spec z 0) as [->|Hz].
  - simpl. split; intros _; [apply Z.pow_pos_nonneg; lia | lia].
  - assert (0 < Z.abs z) by lia.
    split; intros H1.
    + apply Z.log2_lt_pow2; lia.
    + apply Z.log2_lt_pow2 in H1; lia.
Qed.

Lemma big_overflow_false z : big_overflow z = false <-> Z.abs z < 2 ^ 512.
Proof.
  unfold big_overflow. change gen_int_maxbits with 512.
  rewrite Z.ltb_ge. apply bitlen_le. lia.
Qed.

Lemma big_overflow_true z : big_overflow z = true <-> 2 ^ 512 <= Z.abs z.
Proof.
  pose proof (big_overflow_false z) as H. destruct (big_overflow z).
  - split; [intros _|reflexivity].
    destruct (Z.lt_ge_cases (Z.abs z) (2 ^ 512)) as [L|G]; [apply H in L; discriminate|exact G].
  - split; [discriminate|]. intros G. destruct H as [H _]. specialize (H eq_refl). lia.
Qed.

Lemma in64_abs z : in64 z -> Z.abs z <= 2 ^ 63.
Proof. unfold64. lia. Qed.

Lemma pow512_big : 2 ^ 130 < 2 ^ 512.
Proof. apply Z.pow_lt_mono_r; lia. Qed.

Lemma small_no_overflow z : Z.abs z <= 2 ^ 128 -> big_overflow z = false.
Proof.
  intros H. apply big_overflow_false.
  assert (2 ^ 128 < 2 ^ 130) by (apply Z.pow_lt_mono_r; lia).
  pose proof pow512_big. lia.
Qed.

(* the normal form produced by the fast paths *)
Definition int_norm (z : Z) : rc := if is_int64 z then I64 z else Big z.

(* ------------------------------------------------------------------ int64 fast paths *)

Theorem i64_add_exact a b : in64 a -> in64 b ->
  bin_i64 OAdd a b = Ok (Num (int_norm (a + b))).
Proof.
  intros Ha Hb. unfold bin_i64, int_norm.
  destruct (is_int64 (a + b)) eqn:Hr.
  - apply is_int64_spec in Hr. rewrite (wrap64_id _ Hr).
    replace (a + b <? a) with (b <? 0) by (destruct (Z.ltb_spec b 0), (Z.ltb_spec (a + b) a); lia).
    rewrite Bool.eqb_reflx. reflexivity.
  - apply is_int64_false in Hr.
    assert (Hov : big_overflow (a + b) = false).
    { apply small_no_overflow. pose proof (in64_abs _ Ha). pose proof (in64_abs _ Hb).
      assert (2 ^ 63 + 2 ^ 63 <= 2 ^ 128) by (change (2^63 + 2^63) with (2^64); apply Z.pow_le_mono_r; lia). lia. }
    destruct (Z.lt_ge_cases max64 (a + b)) as [Hhi|Hlo].
    + rewrite wrap64_hi by (unfold64; lia).
      replace (a + b - 2 ^ 64 <? a) with true by (symmetry; apply Z.ltb_lt; unfold64; lia).
      replace (b <? 0) with false by (symmetry; apply Z.ltb_ge; unfold64; lia).
      simpl. rewrite Hov. reflexivity.
    + assert (a + b < min64) by (unfold64; lia).
      rewrite wrap64_lo by (unfold64; lia).
      replace (a + b + 2 ^ 64 <? a) with false by (symmetry; apply Z.ltb_ge; unfold64; lia).
      replace (b <? 0) with true by (symmetry; apply Z.ltb_lt; unfold64; lia).
      simpl. rewrite Hov. reflexivity.
Qed.

Theorem i64_sub_exact a b : in64 a -> in64 b ->
  bin_i64 OSub a b = Ok (Num (int_norm (a - b))).
Proof.
  intros Ha Hb. unfold bin_i64, int_norm.
  destruct (is_int64 (a - b)) eqn:Hr.
  - apply is_int64_spec in Hr. rewrite (wrap64_id _ Hr).
    replace (a - b <? a) with (0 <? b) by (destruct (Z.ltb_spec 0 b), (Z.ltb_spec (a - b) a); lia).
    rewrite Bool.eqb_reflx. reflexivity.
  - apply is_int64_false in Hr.
    assert (Hov : big_overflow (a - b) = false).
    { apply small_no_overflow. pose proof (in64_abs _ Ha). pose proof (in64_abs _ Hb).
      assert (2 ^ 63 + 2 ^ 63 <= 2 ^ 128) by (change (2^63 + 2^63) with (2^64); apply Z.pow_le_mono_r; lia). lia. }
    destruct (Z.lt_ge_cases max64 (a - b)) as [Hhi|Hlo].
    + rewrite wrap64_hi by (unfold64; lia).
      replace (a - b - 2 ^ 64 <? a) with true by (symmetry; apply Z.ltb_lt; unfold64; lia).
      replace (0 <? b) with false by (symmetry; apply Z.ltb_ge; unfold64; lia).
      simpl. rewrite Hov. reflexivity.
    + assert (a - b < min64) by (unfold64; lia).
      rewrite wrap64_lo by (unfold64; lia).
      replace (a - b + 2 ^ 64 <? a) with false by (symmetry; apply Z.ltb_ge; unfold64; lia).
      replace (0 <? b) with true by (symmetry; apply Z.ltb_lt; unfold64; lia).
      simpl. rewrite Hov. reflexivity.
Qed.

Lemma mul_sign_test a b : a <> 0 -> b <> 0 ->
  (a * b <? 0) = negb (Bool.eqb (a <? 0) (b <? 0)).
Proof.
  intros Ha Hb.
  destruct (Z.ltb_spec a 0), (Z.ltb_spec b 0), (Z.ltb_spec (a * b) 0); simpl; try reflexivity; exfalso; nia.
Qed.

Lemma in64_mul_small a b : in64 a -> in64 b -> big_overflow (a * b) = false.
Proof.
  intros Ha Hb. apply small_no_overflow.
  pose proof (in64_abs _ Ha). pose proof (in64_abs _ Hb).
  rewrite Z.abs_mul.
  assert (Z.abs a * Z.abs b <= 2 ^ 63 * 2 ^ 63) by (apply Z.mul_le_mono_nonneg; lia).
  change (2 ^ 63 * 2 ^ 63) with (2 ^ 126) in *.
  assert (2 ^ 126 <= 2 ^ 128) by (apply Z.pow_le_mono_r; lia). lia.
Qed.

(* the multiplication test of the fast path accepts only exact products *)
Lemma mul_test_sound a b : in64 a -> in64 b -> a <> 0 -> b <> 0 ->
  let n := wrap64 (a * b) in
  negb (Bool.eqb (n <? 0) (negb (Bool.eqb (a <? 0) (b <? 0)))) || negb (wrap64 (Z.quot n b) =? a) = false ->
  n = a * b.
Proof.
  intros Ha Hb Ha0 Hb0 n T.
  apply orb_false_iff in T. destruct T as [T1 T2].
  apply negb_false_iff in T1. apply negb_false_iff in T2. apply Z.eqb_eq in T2.
  destruct (wrap64_cong (a * b)) as [k Hk]. fold n in Hk.
  pose proof (wrap64_range (a * b)) as Hn. fold n in Hn.
  set (q := Z.quot n b) in *.
  destruct (wrap64_cong q) as [j Hj]. rewrite T2 in Hj.
  pose proof (Z.quot_rem' n b) as Hqr. fold q in Hqr.
  pose proof (Z.rem_bound_abs n b Hb0) as Hrb.
  set (r := Z.rem n b) in *.
  set (P := a * b) in *.
  assert (HM : b * q = P + (b * j) * 2 ^ 64) by (unfold P; replace q with (a + j * 2 ^ 64) by lia; ring).
  set (M := b * j) in *.
  assert (Hr0 : r = 0).
  { unfold64. lia. }
  assert (HnM : n = b * q) by lia.
  assert (Hq : Z.abs q <= Z.abs n) by (rewrite HnM, Z.abs_mul; nia).
  assert (Hj0 : j = 0 \/ (j = 1 /\ q = 2 ^ 63 /\ a = min64)) by (unfold64; lia).
  destruct Hj0 as [-> | (-> & Hq63 & Hamin)].
  - assert (q = a) by lia. unfold P. rewrite HnM, H. ring.
  - exfalso.
    assert (Hb1 : b = 1 \/ b = -1) by (unfold64; nia).
    destruct Hb1 as [-> | ->].
    + unfold64. lia.
    + assert (n = min64) by (unfold64; lia).
      rewrite H, Hamin in T1. vm_compute in T1. discriminate.
Qed.

Theorem i64_mul_exact a b : in64 a -> in64 b ->
  bin_i64 OMul a b = Ok (Num (int_norm (a * b))).
Proof.
  intros Ha Hb. unfold bin_i64.
  destruct (Z.eqb_spec a 0) as [->|Ha0]; [reflexivity|].
  destruct (Z.eqb_spec b 0) as [->|Hb0]; [rewrite Z.mul_0_r; reflexivity|].
  cbn [orb].
  destruct (negb (Bool.eqb (wrap64 (a * b) <? 0) (negb (Bool.eqb (a <? 0) (b <? 0))))
            || negb (wrap64 (Z.quot (wrap64 (a * b)) b) =? a)) eqn:T.
  - (* delegated to the big representation *)
    unfold bin_big. rewrite (in64_mul_small _ _ Ha Hb).
    unfold int_norm. destruct (is_int64 (a * b)) eqn:Hr; [|reflexivity].
    exfalso. apply is_int64_spec in Hr.
    rewrite (wrap64_id _ Hr) in T.
    rewrite (mul_sign_test _ _ Ha0 Hb0), Bool.eqb_reflx in T. cbn [negb orb] in T.
    rewrite Z.quot_mul in T by assumption. rewrite (wrap64_id _ Ha), Z.eqb_refl in T. discriminate.
  - pose proof (mul_test_sound a b Ha Hb Ha0 Hb0 T) as Hn.
    rewrite Hn. unfold int_norm.
    assert (in64 (a * b)) by (rewrite <- Hn; apply wrap64_range).
    apply is_int64_spec in H. rewrite H. reflexivity.
Qed.

(* ------------------------------------------------------------------ division and remainder *)

(* Go's integer division truncates toward zero: Z.quot and Z.rem are that
   division (a = b*q + r, |r| < |b|, r has the sign of a). *)
Lemma trunc_div_spec a b : b <> 0 ->
  a = b * Z.quot a b + Z.rem a b /\ Z.abs (Z.rem a b) < Z.abs b /\ 0 <= Z.rem a b * a.
Proof.
  intros Hb. split; [apply Z.quot_rem'|]. split; [apply Z.rem_bound_abs; assumption|].
  apply Z.rem_sign_mul. assumption.
Qed.

Lemma quot_abs_le a b : b <> 0 -> Z.abs (Z.quot a b) <= Z.abs a.
Proof.
  intros Hb. destruct (trunc_div_spec a b Hb) as (H1 & H2 & H3).
  set (q := Z.quot a b) in *. set (r := Z.rem a b) in *. nia.
Qed.

Theorem i64_div_exact a b : in64 a -> in64 b -> b <> 0 ->
  bin_i64 ODiv a b = Ok (Num (int_norm (Z.quot a b))).
Proof.
  intros Ha Hb Hb0. unfold bin_i64.
  destruct (Z.eqb_spec b 0); [contradiction|].
  destruct (Z.eqb_spec a min64) as [->|Hm]; cbn [andb].
  - destruct (Z.eqb_spec b (-1)) as [->|Hb1].
    + reflexivity.
    + pose proof (quot_abs_le min64 b Hb0).
      assert (Hq : in64 (Z.quot min64 b)).
      { destruct (trunc_div_spec min64 b Hb0) as (H1 & H2 & H3).
        set (q := Z.quot min64 b) in *. set (r := Z.rem min64 b) in *. unfold64. nia. }
      rewrite (wrap64_id _ Hq). unfold int_norm. apply is_int64_spec in Hq. rewrite Hq. reflexivity.
  - pose proof (quot_abs_le a b Hb0).
    assert (Hq : in64 (Z.quot a b)) by (unfold64; lia).
    rewrite (wrap64_id _ Hq). unfold int_norm. apply is_int64_spec in Hq. rewrite Hq. reflexivity.
Qed.

Theorem i64_div_by_zero a o : (o = ODiv \/ o = OMod) -> bin_i64 o a 0 = Err EDiv0.
Proof. intros [-> | ->]; reflexivity. Qed.

Theorem i64_rem_exact a b : in64 a -> in64 b -> b <> 0 ->
  bin_i64 OMod a b = Ok (Num (I64 (Z.rem a b))) /\ in64 (Z.rem a b).
Proof.
  intros Ha Hb Hb0. unfold bin_i64. destruct (Z.eqb_spec b 0); [contradiction|].
  split; [reflexivity|].
  pose proof (Z.rem_bound_abs a b Hb0). unfold64. lia.
Qed.

Theorem big_div_exact a b : b <> 0 ->
  bin_big ODiv a b = Ok (Num (Big (Z.quot a b))) /\ bin_big OMod a b = Ok (Num (Big (Z.rem a b))).
Proof. intros Hb. unfold bin_big. destruct (Z.eqb_spec b 0); [contradiction|]. split; reflexivity. Qed.

Theorem big_div_by_zero a o : (o = ODiv \/ o = OMod) -> bin_big o a 0 = Err EDiv0.
Proof. intros [-> | ->]; reflexivity. Qed.

(* ------------------------------------------------------------------ big integers *)

Theorem big_add_exact a b :
  bin_big OAdd a b = if Z.abs (a + b) <? 2 ^ 512 then Ok (Num (Big (a + b))) else Err EAddOverflow.
Proof.
  unfold bin_big. destruct (Z.ltb_spec (Z.abs (a + b)) (2 ^ 512)) as [H|H].
  - apply big_overflow_false in H. rewrite H. reflexivity.
  - apply big_overflow_true in H. rewrite H. reflexivity.
Qed.

Theorem big_sub_exact a b :
  bin_big OSub a b = if Z.abs (a - b) <? 2 ^ 512 then Ok (Num (Big (a - b))) else Err ESubOverflow.
Proof.
  unfold bin_big. destruct (Z.ltb_spec (Z.abs (a - b)) (2 ^ 512)) as [H|H].
  - apply big_overflow_false in H. rewrite H. reflexivity.
  - apply big_overflow_true in H. rewrite H. reflexivity.
Qed.

Theorem big_mul_exact a b :
  bin_big OMul a b = if Z.abs (a * b) <? 2 ^ 512 then Ok (Num (Big (a * b))) else Err EMulOverflow.
Proof.
  unfold bin_big. destruct (Z.ltb_spec (Z.abs (a * b)) (2 ^ 512)) as [H|H].
  - apply big_overflow_false in H. rewrite H. reflexivity.
  - apply big_overflow_true in H. rewrite H. reflexivity.
Qed.

(* ------------------------------------------------------------------ negation and complement *)

Theorem neg_i64 z k : in64 z ->
  unary_rc OSub k (I64 z) = Ok (int_norm (- z)).
Proof.
  intros Hz. unfold unary_rc, int_norm.
  destruct (Z.eqb_spec z min64) as [->|Hm]; [reflexivity|].
  assert (H : in64 (- z)) by (unfold64; lia). apply is_int64_spec in H. rewrite H. reflexivity.
Qed.

Theorem neg_min64 k : unary_rc OSub k (I64 min64) = Ok (Big (2 ^ 63)).
Proof. reflexivity. Qed.

Theorem neg_big z k : unary_rc OSub k (Big z) = Ok (Big (- z)).
Proof. reflexivity. Qed.

(* ^x on a signed kind is -x-1 *)
Theorem xor_signed z k : is_signed_kind k = true ->
  unary_rc OXor (Some k) (I64 z) = Ok (I64 (- z - 1)) /\
  unary_rc OXor (Some k) (Big z) = Ok (Big (- z - 1)).
Proof.
  intros Hk. unfold unary_rc. rewrite Hk. unfold Z.lnot.
  replace (Z.lxor (-1) z) with (Z.lnot z) by (rewrite Z.lxor_comm; symmetry; apply Z.lxor_m1_r).
  unfold Z.lnot. split; f_equal; f_equal; lia.
Qed.

(* the all-ones mask of w bits xored with x in [0, 2^w) is 2^w - 1 - x *)
Lemma lxor_ones w x : 0 <= w -> 0 <= x < 2 ^ w -> Z.lxor (2 ^ w - 1) x = 2 ^ w - 1 - x.
Proof.
  intros Hw Hx.
  replace (2 ^ w - 1) with (Z.ones w) by (rewrite Z.ones_equiv; lia).
  assert (Hl : Z.ldiff x (Z.ones w) = 0).
  { destruct (Z.eq_dec x 0) as [->|Hx0]; [apply Z.ldiff_0_l|].
    apply Z.ldiff_ones_r_low; [lia|apply Z.log2_lt_pow2; lia]. }
  rewrite (Z.sub_nocarry_ldiff _ _ Hl).
  apply Z.bits_inj'. intros n Hn.
  rewrite Z.lxor_spec, Z.ldiff_spec.
  assert (Hb : Z.testbit x n = true -> Z.testbit (Z.ones w) n = true).
  { intros Hxn. assert (Z.testbit (Z.ldiff x (Z.ones w)) n = false) by (rewrite Hl; apply Z.bits_0).
    rewrite Z.ldiff_spec, Hxn in H. destruct (Z.testbit (Z.ones w) n); [reflexivity|discriminate]. }
  destruct (Z.testbit x n); [rewrite Hb by reflexivity; reflexivity|destruct (Z.testbit (Z.ones w) n); reflexivity].
Qed.

Definition kind_bits (k : kind) : Z :=
  match k with
  | KInt8 | KUint8 => 8 | KInt16 | KUint16 => 16 | KInt32 | KUint32 => 32
  | KInt | KInt64 | KUint | KUint64 | KUintptr => 64
  | _ => 0
  end.

(* the range of an integer kind, from its width *)
Definition kind_min (k : kind) : Z := if is_signed_kind k then - 2 ^ (kind_bits k - 1) else 0.
Definition kind_max (k : kind) : Z :=
  if is_signed_kind k then 2 ^ (kind_bits k - 1) - 1 else 2 ^ kind_bits k - 1.

(* the generated tables hold the maximum of every unsigned kind *)
Lemma gen_max_unsigned k : is_unsigned_kind k = true ->
  nth_Z gen_maxUnsignedValues (kind_num k - gen_kind_Uint) = Some (kind_max k) /\
  nth_Z gen_maxBigUnsignedValues (kind_num k - gen_kind_Uint) = Some (kind_max k).
Proof. destruct k; simpl; intros H; try discriminate; split; reflexivity. Qed.

(* ^x on an unsigned kind is max - x, for every x of the kind *)
Theorem xor_unsigned z k : is_unsigned_kind k = true -> 0 <= z <= kind_max k ->
  (in64 z -> unary_rc OXor (Some k) (I64 z) = Ok (int_norm (kind_max k - z))) /\
  unary_rc OXor (Some k) (Big z) = Ok (Big (kind_max k - z)).
Proof.
  intros Hk Hz.
  assert (Hs : is_signed_kind k = false) by (destruct k; try discriminate; reflexivity).
  destruct (gen_max_unsigned k Hk) as [G1 G2].
  assert (Hw : 0 <= kind_bits k) by (destruct k; simpl; lia).
  assert (Hmx : kind_max k = 2 ^ kind_bits k - 1) by (unfold kind_max; rewrite Hs; reflexivity).
  assert (Hle : 2 ^ kind_bits k <= 2 ^ 64) by (apply Z.pow_le_mono_r; destruct k; simpl; lia).
  assert (Hx : Z.lxor (kind_max k) z = kind_max k - z) by (rewrite Hmx; apply lxor_ones; lia).
  split.
  - intros Hz64. unfold unary_rc. rewrite Hs, G1, G2.
    rewrite Z.mod_small by (change (2 ^ 64) with 18446744073709551616 in *; lia).
    rewrite Hx. change gen_maxInt64 with max64. unfold int_norm.
    destruct (Z.ltb_spec max64 (kind_max k - z)) as [Hgt|Hle2].
    + replace (is_int64 (kind_max k - z)) with false; [reflexivity|].
      symmetry. apply is_int64_false. unfold64. lia.
    + replace (is_int64 (kind_max k - z)) with true; [reflexivity|].
      symmetry. apply is_int64_spec. unfold64. lia.
  - unfold unary_rc. rewrite Hs, G2, Hx. reflexivity.
Qed.

(* ------------------------------------------------------------------ representedBy for the integer kinds *)

Definition fits (k : kind) (z : Z) : bool := (kind_min k <=? z) && (z <=? kind_max k).

Ltac norm_kind k :=
  let a := eval vm_compute in (kind_min k) in
  let b := eval vm_compute in (kind_max k) in
  change (kind_min k) with a in *; change (kind_max k) with b in *.

Ltac split_cmps :=
  repeat match goal with
         | |- context [Z.leb ?a ?b] => destruct (Z.leb_spec a b)
         | |- context [Z.ltb ?a ?b] => destruct (Z.ltb_spec a b)
         end.

Ltac kind_cases k :=
  destruct k; try discriminate;
  match goal with |- context [fits ?k0 _] => unfold fits; norm_kind k0 end.

(* int64Const.representedBy accepts exactly the values of the kind; the
   condition is the one generated from the code (gen_repr_i64) *)
Theorem repr_i64_int k z : is_integer_kind k = true -> in64 z ->
  repr_i64 k z = if fits k z then Ok (I64 z) else Err EOverflows.
Proof.
  intros Hk Hz.
  pose proof (Z.mod_pos_bound z 18446744073709551616 ltac:(lia)) as Hmod.
  kind_cases k; unfold repr_i64, gen_repr_i64, kind_num,
    gen_kind_Int, gen_kind_Int8, gen_kind_Int16, gen_kind_Int32, gen_kind_Int64,
    gen_kind_Uint, gen_kind_Uint8, gen_kind_Uint16, gen_kind_Uint32, gen_kind_Uint64, gen_kind_Uintptr;
  cbn -[Z.leb Z.ltb Z.modulo]; unfold64; split_cmps; cbn; try reflexivity; exfalso; lia.
Qed.

(* intConst.representedBy, for every integer z *)
Theorem repr_big_int k z : is_integer_kind k = true ->
  repr_big k z = if fits k z then Ok (int_norm z) else Err EOverflows.
Proof.
  intros Hk. unfold repr_big, int_norm.
  destruct (is_int64 z) eqn:H64.
  - apply is_int64_spec in H64. apply repr_i64_int; assumption.
  - apply is_int64_false in H64. rewrite Hk.
    change gen_intsize with 64. unfold is_uint64.
    kind_cases k; cbn -[Z.leb]; unfold64; split_cmps; cbn; try reflexivity; exfalso; lia.
Qed.

Corollary representedBy_int_iff k z : is_integer_kind k = true ->
  (exists c, repr_rc k (Big z) = Ok c) <-> kind_min k <= z <= kind_max k.
Proof.
  intros Hk. cbn [repr_rc]. rewrite (repr_big_int k z Hk). unfold fits.
  destruct (Z.leb_spec (kind_min k) z), (Z.leb_spec z (kind_max k)); cbn; split;
    try (intros [c Hc]; discriminate); try lia; intros _; eexists; reflexivity.
Qed.

(* ------------------------------------------------------------------ shifts *)

Lemma shr_spec z sc : 0 <= sc -> shr z sc = z / 2 ^ sc.
Proof.
  intros Hsc. unfold shr. destruct (Z.leb_spec (bitlen z) sc) as [Hb|Hb].
  - apply bitlen_le in Hb; [|assumption].
    assert (0 < 2 ^ sc) by (apply Z.pow_pos_nonneg; lia).
    destruct (Z.ltb_spec z 0).
    + apply (Z.div_unique z (2 ^ sc) (-1) (z + 2 ^ sc)); lia.
    + symmetry. apply Z.div_small. lia.
  - apply Z.shiftr_div_pow2. assumption.
Qed.

Lemma repr_uint_i64 n : in64 n ->
  repr KUint (Num (I64 n)) = if 0 <=? n then Ok (Num (I64 n)) else Err EOverflows.
Proof.
  intros Hn. cbn [repr repr_rc]. rewrite repr_i64_int by (reflexivity || assumption).
  unfold fits. norm_kind KUint. unfold64. split_cmps; cbn; try reflexivity; exfalso; lia.
Qed.

(* shiftConstError for an integer count in the int64 representation: counts
   above 1074 are rejected for both shifts, left shift counts from 512 on
   unless the left operand is zero *)
Definition count_error (o : op) (zero1 : bool) (n : Z) : option err :=
  if (match o with OShl => negb zero1 | _ => false end) && (512 <=? n) then Some EShiftLarge
  else if 1074 <? n then Some EShiftLarge
  else None.

Theorem shift_count_i64 o zero1 n : in64 n ->
  shift_const_error o zero1 (Num (I64 n)) =
    if n <? 0 then Some EShiftNeg else count_error o zero1 n.
Proof.
  intros Hn. unfold shift_const_error. rewrite (repr_uint_i64 n Hn).
  destruct (Z.leb_spec 0 n), (Z.ltb_spec n 0); try lia; reflexivity.
Qed.

(* a count that does not fit uint *)
Theorem shift_count_big o zero1 n :
  shift_const_error o zero1 (Num (Big n)) =
    if n <? 0 then Some EShiftNeg
    else if maxu64 <? n then Some EShiftOvfUint
    else count_error o zero1 n.
Proof.
  unfold shift_const_error. cbn [repr repr_rc]. rewrite repr_big_int by reflexivity.
  unfold fits. norm_kind KUint. unfold int_norm. change maxu64 with 18446744073709551615.
  destruct (Z.ltb_spec n 0); [replace (0 <=? n) with false by (symmetry; apply Z.leb_gt; lia); reflexivity|].
  replace (0 <=? n) with true by (symmetry; apply Z.leb_le; lia). cbn [andb].
  destruct (Z.ltb_spec 18446744073709551615 n).
  - replace (n <=? 18446744073709551615) with false by (symmetry; apply Z.leb_gt; lia). reflexivity.
  - replace (n <=? 18446744073709551615) with true by (symmetry; apply Z.leb_le; lia).
    cbn [bind]. destruct (is_int64 n); reflexivity.
Qed.

Lemma count_error_small o zero1 n : n < 512 -> count_error o zero1 n = None.
Proof.
  intros H. unfold count_error.
  replace (512 <=? n) with false by (symmetry; apply Z.leb_gt; lia).
  replace (1074 <? n) with false by (symmetry; apply Z.ltb_ge; lia).
  rewrite andb_false_r. reflexivity.
Qed.

Theorem shl_exact small z n : 0 <= n < 512 ->
  shift_int OShl small z (Num (I64 n)) =
    if Z.abs (z * 2 ^ n) <? 2 ^ 512 then Ok (Num (Big (z * 2 ^ n))) else Err EShlOverflow.
Proof.
  intros Hn. unfold shift_int. rewrite shift_count_i64 by (unfold64; lia).
  replace (n <? 0) with false by (symmetry; apply Z.ltb_ge; lia).
  rewrite count_error_small by lia.
  cbn [cst_uint rc_uint].
  destruct (Z.ltb_spec (Z.abs (z * 2 ^ n)) (2 ^ 512)) as [H|H].
  - apply big_overflow_false in H. rewrite H. reflexivity.
  - apply big_overflow_true in H. rewrite H. reflexivity.
Qed.

(* a non-zero value shifted left by 512 or more: the count is rejected *)
Theorem shl_count_limit small z n : z <> 0 -> 512 <= n -> in64 n ->
  shift_int OShl small z (Num (I64 n)) = Err EShiftLarge.
Proof.
  intros Hz Hn H64. unfold shift_int. rewrite shift_count_i64 by assumption.
  replace (n <? 0) with false by (symmetry; apply Z.ltb_ge; lia).
  unfold count_error. replace (z =? 0) with false by (symmetry; apply Z.eqb_neq; assumption).
  replace (512 <=? n) with true by (symmetry; apply Z.leb_le; lia). reflexivity.
Qed.

(* zero shifted left: every count up to 1074 is accepted and gives zero,
   larger counts are rejected (0 << 512 was rejected before fix d3683c7) *)
Theorem shl_zero small n : 0 <= n -> in64 n ->
  shift_int OShl small 0 (Num (I64 n)) =
    if n <=? 1074 then Ok (Num (Big 0)) else Err EShiftLarge.
Proof.
  intros Hn H64. unfold shift_int. rewrite shift_count_i64 by assumption.
  replace (n <? 0) with false by (symmetry; apply Z.ltb_ge; lia).
  unfold count_error. cbn [Z.eqb negb andb].
  destruct (Z.leb_spec n 1074).
  - replace (1074 <? n) with false by (symmetry; apply Z.ltb_ge; lia). reflexivity.
  - replace (1074 <? n) with true by (symmetry; apply Z.ltb_lt; lia). reflexivity.
Qed.

(* for every shift a count above 1074 is rejected (1 >> 2000 was accepted before fix d3683c7) *)
Theorem shift_count_max o small z n : is_shift o = true -> 1074 < n -> in64 n ->
  shift_int o small z (Num (I64 n)) = Err EShiftLarge.
Proof.
  intros Ho Hn H64. unfold shift_int. rewrite shift_count_i64 by assumption.
  replace (n <? 0) with false by (symmetry; apply Z.ltb_ge; lia).
  unfold count_error.
  replace (1074 <? n) with true by (symmetry; apply Z.ltb_lt; lia).
  destruct (_ && _); reflexivity.
Qed.

Theorem shift_negative_count o small z n : is_shift o = true -> n < 0 -> in64 n ->
  shift_int o small z (Num (I64 n)) = Err EShiftNeg.
Proof.
  intros Ho Hn H64. unfold shift_int. rewrite shift_count_i64 by assumption.
  replace (n <? 0) with true by (symmetry; apply Z.ltb_lt; lia). reflexivity.
Qed.

(* >> is the floor division by 2^n, for every count that fits uint; the
   result of the big representation is rejected beyond 512 bits (only
   possible when the operand itself, a float or rational constant with an
   integer value, is beyond 512 bits) *)
Theorem shr_exact small z n : 0 <= n <= 1074 ->
  shift_int OShr small z (Num (I64 n)) =
    if small then Ok (Num (I64 (z / 2 ^ n)))
    else if Z.abs (z / 2 ^ n) <? 2 ^ 512 then Ok (Num (Big (z / 2 ^ n))) else Err EShlOverflow.
Proof.
  intros Hn. unfold shift_int. rewrite shift_count_i64 by (unfold64; lia).
  replace (n <? 0) with false by (symmetry; apply Z.ltb_ge; lia).
  unfold count_error. cbn [andb].
  replace (1074 <? n) with false by (symmetry; apply Z.ltb_ge; lia).
  cbn [cst_uint rc_uint]. rewrite shr_spec by lia. destruct small; [reflexivity|].
  destruct (Z.ltb_spec (Z.abs (z / 2 ^ n)) (2 ^ 512)) as [H|H].
  - apply big_overflow_false in H. rewrite H. reflexivity.
  - apply big_overflow_true in H. rewrite H. reflexivity.
Qed.

(* an operand below 512 bits is never rejected by >> *)
Theorem shr_no_overflow z n : 0 <= n <= 1074 -> Z.abs z < 2 ^ 512 ->
  shift_int OShr false z (Num (I64 n)) = Ok (Num (Big (z / 2 ^ n))).
Proof.
  intros Hn Hz. rewrite shr_exact by assumption.
  assert (0 < 2 ^ n) by (apply Z.pow_pos_nonneg; lia).
  replace (Z.abs (z / 2 ^ n) <? 2 ^ 512) with true; [reflexivity|].
  symmetry. apply Z.ltb_lt.
  assert (- 2 ^ 512 < z / 2 ^ n < 2 ^ 512); [|lia].
  split.
  - apply Z.lt_le_trans with (m := - 2 ^ 512 + 1); [lia|].
    apply Z.div_le_lower_bound; [lia|]. nia.
  - apply Z.div_lt_upper_bound; [lia|]. nia.
Qed.

Lemma shr_in64 z n : 0 <= n -> in64 z -> in64 (z / 2 ^ n).
Proof.
  intros Hn Hz. assert (0 < 2 ^ n) by (apply Z.pow_pos_nonneg; lia).
  assert (1 <= 2 ^ n) by lia.
  unfold64. split.
  - apply Z.div_le_lower_bound; [lia|]. nia.
  - apply Z.div_le_upper_bound; [lia|]. nia.
Qed.
