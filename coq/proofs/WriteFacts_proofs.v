(* C13, T1: escapeBytes as the translator executes it (gen/Facts_writes.v:
   the code of escapers.go run by the partial evaluator of gofacts with a
   simulated writer failing at its k-th call, for every k) makes no call after
   the failing one and returns its error; and the hand model of WriteProgM
   makes the same number of calls and returns the same class of result on each
   of these runs. *)
From Coq Require Import List NArith Bool.
From Verif Require Import Bytes Facts_render Facts_writes RendererM WriteProgM.
Import ListNotations.
Open Scope N_scope.

Definition run_row_ok (r : bool * bool * N * N * N * N) : bool :=
  match r with
  | (_, _, k, calls, after, res) =>
    (after =? 0) && (if k =? 0 then res =? 0 else (calls =? k) && (res =? 1))
  end.

(* recomputed from the code on every run *)
Lemma fact_escapeBytes_runs : forallb run_row_ok gen_escapeBytes_runs = true.
Proof. vm_compute. reflexivity. Qed.

(* every failure position of every configuration is among the runs: 2 + 3 + 4 + 5 rows *)
Lemma fact_escapeBytes_runs_complete :
  forallb (fun qc : bool * bool =>
             let '(q, cw) := qc in
             let n := (if q then 2 else 0) + 1 + (if cw then 1 else 0) in
             forallb (fun k => existsb (fun r => match r with (q', cw', k', _, _, _) =>
                                 Bool.eqb q q' && Bool.eqb cw cw' && (k =? k') end) gen_escapeBytes_runs)
                     (map N.of_nat (seq 0 (S (N.to_nat n)))))
          [(false, false); (false, true); (true, false); (true, true)] = true.
Proof. vm_compute. reflexivity. Qed.

(* the hand model on the same runs: three bytes are one block and nothing at
   Close, four bytes one block and one call at Close *)
Definition fail_from (k : N) : writer := fun j => if (0 <? k) && (k <=? j) then Some 7 else None.

Definition model_row_ok (r : bool * bool * N * N * N * N) : bool :=
  match r with
  | (q, cw, k, calls, _, res) =>
    let b := if cw then [1; 2; 3; 4] else [1; 2; 3] in
    let '(ws, x) := escapeBytes q b (fail_from k) w0 in
    (w_calls ws =? calls) &&
    match x with
    | ROk => res =? 0
    | RErr e => (res =? 1) && (e =? 7)
    | RFault => false
    end
  end.

Lemma fact_escapeBytes_model_agrees : forallb model_row_ok gen_escapeBytes_runs = true.
Proof. vm_compute. reflexivity. Qed.
