(* C07, URL attributes, renderer side: the URL state machine of renderer.go
   (RendererM: inURL / query / addAmpersand / removeQuestionMark) over the
   texts and shown strings of one URL attribute.  Which escaper a shown string
   gets is characterised by UrlRefM.query_position; in a query position the
   attribute value is pre ++ queryEscape s ++ post with pre and post
   independent of s; with UrlRef_proofs.url_query_slot the reference decoder
   gives s back verbatim in its slot. *)
From Coq Require Import List NArith Bool Lia.
From Verif Require Import Bytes Facts_render Facts_escapers Facts_esc RendererM Renderer_proofs TCalcM TCalc_proofs
  HtmlDecode Decoders UrlRefM Trans_proofs HtmlDecode_proofs Roundtrip_proofs UrlRef_proofs.
From Verif Require EscapersM Escapers_proofs.
Import ListNotations.
Open Scope N_scope.

(* ---------------------------------------------------------------- the operations of one attribute *)

(* render context byte of a shown value in a quoted / unquoted URL attribute: ContextQuotedAttr | 0x80, ContextUnquotedAttr | 0x80 *)
Definition attr_ctx (q : bool) : N := if q then 135 else 136.

Definition op_of (q : bool) (i : item) : op :=
  match i with
  | UText t => OText t true false
  | UShow s => OShow (attr_ctx q) (mkShown [] None (Some s))
  end.

Definition attr_ops (q : bool) (items : list item) : list op := map (op_of q) items.

(* the emitter never emits an empty Text *)
Definition item_ok (i : item) : bool := match i with UText [] => false | _ => true end.

(* T1: the generated decodeRenderContext on the two context bytes *)
Lemma decode_attr_ctx q : decode_ctx (attr_ctx q) = Some (if q then gen_ContextQuotedAttr else gen_ContextUnquotedAttr, true, false).
Proof. destruct q; vm_compute; reflexivity. Qed.

Lemma quoted_flag (q : bool) : ((if q then gen_ContextQuotedAttr else gen_ContextUnquotedAttr) =? gen_ContextQuotedAttr) = q.
Proof. destruct q; vm_compute; reflexivity. Qed.

(* ---------------------------------------------------------------- one operation with a writer that never fails *)

Lemma inURL_switch st : inURL (url_switch st true) = true.
Proof. unfold url_switch. destruct (inURL st) eqn:E; cbn [Bool.eqb]; [exact E|reflexivity]. Qed.

Lemma query_switch st : query (url_switch st true) = query st.
Proof. unfold url_switch. destruct (inURL st); reflexivity. Qed.
Lemma remQ_switch st : remQ (url_switch st true) = remQ st.
Proof. unfold url_switch. destruct (inURL st); reflexivity. Qed.
Lemma addAmp_switch st : addAmp (url_switch st true) = addAmp st.
Proof. unfold url_switch. destruct (inURL st); reflexivity. Qed.
Lemma switch_idem st : url_switch (url_switch st true) true = url_switch st true.
Proof. unfold url_switch at 1. rewrite inURL_switch. reflexivity. Qed.

(* Text inside the attribute: the new state and the chunks written *)
Definition text_step (st0 : rstate) (txt : bytes) : rstate * list bytes :=
  let st := url_switch st0 true in
  if query st then
    let txt' := if remQ st then match txt with c :: r => if c =? 63 then r else txt | [] => txt end else txt in
    let need := addAmp st && match txt' with [] => false | c :: _ => negb (c =? 38) end in
    (mkR (inURL st) (query st) false false, (if need then [amp_entity] else []) ++ [txt'])
  else (mkR (inURL st) (mem txt 63 || mem txt 35) (addAmp st) (remQ st), [txt]).

Definition add_chunks (ws : wst) (cs : list bytes) : wst := mkW (w_calls ws + nlen cs) (w_out ws ++ cs).

Lemma add_chunks_nil ws : add_chunks ws [] = ws.
Proof. unfold add_chunks. rewrite nlen_nil, N.add_0_r, app_nil_r. destruct ws; reflexivity. Qed.

Lemma add_chunks_app ws a b : add_chunks (add_chunks ws a) b = add_chunks ws (a ++ b).
Proof. unfold add_chunks. cbn [w_calls w_out]. rewrite nlen_app, <- app_assoc, N.add_assoc. reflexivity. Qed.

Lemma wr_never_add ws c : wr never ws c = (add_chunks ws [c], None).
Proof. rewrite wr_never. unfold add_chunks. rewrite nlen_cons, nlen_nil. reflexivity. Qed.

Lemma r_text_never st ws txt :
  txt <> [] ->
  r_text never st ws txt true false = (fst (text_step st txt), add_chunks ws (snd (text_step st txt)), ROk).
Proof.
  intros Hne. unfold r_text, text_step. cbn [andb].
  set (s1 := url_switch st true).
  destruct (query s1) eqn:Q.
  - destruct txt as [|c r]; [congruence|].
    destruct (remQ s1) eqn:RQ.
    + destruct (N.eqb_spec c 63) as [->|Hc]; cbn [N.eqb].
      * destruct (addAmp s1 && match r with [] => false | c0 :: _ => negb (c0 =? 38) end) eqn:A.
        -- rewrite !wr_never_add, add_chunks_app. reflexivity.
        -- rewrite wr_never_add. reflexivity.
      * replace (c =? 63) with false by (symmetry; apply N.eqb_neq; exact Hc).
        destruct (addAmp s1 && negb (c =? 38)) eqn:A.
        -- rewrite !wr_never_add, add_chunks_app. reflexivity.
        -- rewrite wr_never_add. reflexivity.
    + destruct (addAmp s1 && negb (c =? 38)) eqn:A.
      * rewrite !wr_never_add, add_chunks_app. reflexivity.
      * rewrite wr_never_add. reflexivity.
  - rewrite wr_never_add. reflexivity.
Qed.

(* a value shown inside the attribute *)
Definition show_step (q : bool) (st0 : rstate) (s : bytes) : rstate * list bytes :=
  let '(st', sc) := r_show_url (url_switch st0 true) s q in (st', script_chunks sc).

Lemma nlen_script_chunks sc : script_ok sc = true -> nlen (script_chunks sc) = nlen sc.
Proof.
  induction sc as [|a r IH]; intros H; [reflexivity|]. destruct a as [c|]; [|discriminate].
  cbn [script_chunks script_ok] in *. rewrite !nlen_cons, IH by exact H. reflexivity.
Qed.

Lemma run_script_never_add sc ws :
  script_ok sc = true -> run_script never ws sc = (add_chunks ws (script_chunks sc), ROk).
Proof.
  intros H. unfold never. rewrite (run_script_all sc ws H). unfold add_chunks.
  rewrite (nlen_script_chunks sc H). reflexivity.
Qed.

Lemma r_show_never q st ws s :
  r_show never st ws (attr_ctx q) (mkShown [] None (Some s))
  = (fst (show_step q st s), add_chunks ws (snd (show_step q st s)), ROk).
Proof.
  unfold r_show, show_step. rewrite decode_attr_ctx. cbn [sv_url]. rewrite quoted_flag.
  pose proof (r_show_url_ok (url_switch st true) s q) as Hok.
  destruct (r_show_url (url_switch st true) s q) as [st' sc]. cbn [snd fst] in *.
  rewrite (run_script_never_add sc ws Hok). reflexivity.
Qed.

(* ---------------------------------------------------------------- the whole attribute *)

Definition step (q : bool) (st : rstate) (i : item) : rstate * list bytes :=
  match i with
  | UText t => text_step st t
  | UShow s => show_step q st s
  end.

Fixpoint run_items (q : bool) (st : rstate) (items : list item) : rstate * list bytes :=
  match items with
  | [] => (st, [])
  | i :: r =>
    let '(st1, c1) := step q st i in
    let '(st2, c2) := run_items q st1 r in
    (st2, c1 ++ c2)
  end.

(* the tie with the operational model: r_run of RendererM on the operations of the attribute *)
Theorem r_run_items q items : forall st ws,
  forallb item_ok items = true ->
  r_run never st ws (attr_ops q items)
  = (fst (run_items q st items), add_chunks ws (snd (run_items q st items)), repeat ROk (length items)).
Proof.
  induction items as [|i r IH]; intros st ws Hok.
  - cbn. rewrite add_chunks_nil. reflexivity.
  - cbn [forallb] in Hok. apply andb_prop in Hok. destruct Hok as [Hi Hr].
    cbn [attr_ops map r_run run_items length repeat]. fold (attr_ops q r).
    assert (E : r_op never st ws (op_of q i) = (fst (step q st i), add_chunks ws (snd (step q st i)), ROk)).
    { destruct i as [t|s]; cbn [op_of r_op step].
      - apply r_text_never. destruct t; [discriminate Hi|discriminate].
      - apply r_show_never. }
    rewrite E. destruct (step q st i) as [st1 c1]. cbn [fst snd].
    rewrite (IH st1 (add_chunks ws c1) Hr). destruct (run_items q st1 r) as [st2 c2]. cbn [fst snd].
    rewrite add_chunks_app. reflexivity.
Qed.

Lemma run_items_app q a : forall b st,
  run_items q st (a ++ b) =
  let '(st1, c1) := run_items q st a in let '(st2, c2) := run_items q st1 b in (st2, c1 ++ c2).
Proof.
  induction a as [|i r IH]; intros b st; cbn [app run_items].
  - destruct (run_items q st b). reflexivity.
  - destruct (step q st i) as [st1 c1]. rewrite IH.
    destruct (run_items q st1 r) as [st2 c2]. destruct (run_items q st2 b) as [st3 c3].
    rewrite app_assoc. reflexivity.
Qed.

(* the attribute value written for the items *)
Definition attr_out (q : bool) (items : list item) : bytes := concat (snd (run_items q r0 items)).

(* ---------------------------------------------------------------- the state is the scan of the items *)

Definition Inv (st : rstate) (mark qtext : bool) : Prop :=
  query st = mark /\ remQ st = mark && negb qtext /\ (qtext = true -> mark = true).

Lemma Inv_switch st m t : Inv st m t -> Inv (url_switch st true) m t.
Proof. unfold Inv. rewrite query_switch, remQ_switch. auto. Qed.

Lemma step_inv q st i mark qtext :
  Inv st mark qtext ->
  Inv (fst (step q st i)) (fst (scan [i] mark qtext)) (snd (scan [i] mark qtext)).
Proof.
  intros I. apply Inv_switch in I. destruct I as [Hq [Hr Hm]].
  assert (Fin : forall (x y z : Prop), x -> y -> z -> x /\ y /\ z) by tauto.
  unfold Inv. destruct i as [t|s]; cbn [step scan fst snd].
  - unfold text_step. rewrite Hq. destruct mark; cbn [orb].
    + cbn [fst query remQ]. apply Fin; [reflexivity|reflexivity|auto].
    + cbn [fst query remQ]. rewrite Hr. cbn [andb]. unfold has_mark_text, c_qm, c_hash.
      destruct (mem t 63 || mem t 35); apply Fin; try reflexivity; auto.
  - unfold show_step, r_show_url. rewrite Hq, Hr. unfold c_qm. destruct mark; cbn [orb andb].
    + destruct qtext; cbn [negb fst].
      * cbn [query remQ]. rewrite Hq, Hr. apply Fin; try reflexivity; auto.
      * destruct (last_opt s); cbn [fst query remQ]; rewrite ?Hq, ?Hr; apply Fin; try reflexivity; auto.
    + assert (qtext = false) by (destruct qtext; [specialize (Hm eq_refl); discriminate|reflexivity]). subst qtext.
      destruct (mem s 63) eqn:M.
      * destruct (last_opt s); cbn [fst query remQ]; apply Fin; try reflexivity; intros; discriminate.
      * cbn [fst]. rewrite Hq, Hr. apply Fin; try reflexivity; intros; discriminate.
Qed.

Lemma scan_app a : forall b m t, scan (a ++ b) m t = scan b (fst (scan a m t)) (snd (scan a m t)).
Proof.
  induction a as [|i r IH]; intros b m t; [reflexivity|]. destruct i as [x|x]; cbn [app scan]; apply IH.
Qed.

Lemma run_items_inv q items : forall st mark qtext,
  Inv st mark qtext ->
  Inv (fst (run_items q st items)) (fst (scan items mark qtext)) (snd (scan items mark qtext)).
Proof.
  induction items as [|i r IH]; intros st mark qtext I; [exact I|].
  cbn [run_items]. pose proof (step_inv q st i mark qtext I) as I1.
  destruct (step q st i) as [st1 c1]. cbn [fst] in I1.
  specialize (IH st1 _ _ I1). destruct (run_items q st1 r) as [st2 c2]. cbn [fst] in *.
  change (i :: r) with ([i] ++ r). rewrite scan_app. exact IH.
Qed.

Lemma Inv_r0 : Inv r0 false false.
Proof. repeat split; try reflexivity. intros; discriminate. Qed.

(* ---------------------------------------------------------------- which escaper a shown string gets *)

Theorem show_escaper_choice q before s :
  let st := fst (run_items q r0 before) in
  snd (r_show_url (url_switch st true) s q)
  = (if query_position before then RendererM.queryEscape s else RendererM.pathEscape q s)
  /\ (query_position before = true -> fst (r_show_url (url_switch st true) s q) = url_switch st true).
Proof.
  cbv zeta. pose proof (run_items_inv q before r0 false false Inv_r0) as I.
  apply Inv_switch in I. unfold query_position.
  destruct (scan before false false) as [mark qtext]. cbn [fst snd] in *.
  destruct I as [Hq [Hr Hm]]. unfold r_show_url. rewrite Hq, Hr.
  destruct qtext.
  - rewrite (Hm eq_refl). cbn [andb negb]. split; [reflexivity|intros _; reflexivity].
  - destruct mark; cbn [andb negb].
    + split; [destruct (last_opt s); reflexivity|intros; discriminate].
    + split; [|intros; discriminate]. destruct (mem s 63) eqn:M; [|reflexivity].
      destruct (last_opt s) eqn:L; [reflexivity|]. exfalso. exact (last_opt_mem _ _ M L).
Qed.

(* the two copies of the table of queryEscape (Facts_render, Facts_esc) agree *)
Definition opt_bytes_eqb (a b : option (list N)) : bool :=
  match a, b with
  | Some x, Some y => bytes_eqb x y
  | None, None => true
  | _, _ => false
  end.

Lemma fact_query_tables_agree :
  forallb (fun c => opt_bytes_eqb (assoc_get gen_queryEscape c) (assoc_get gen_queryEscape_tbl c)) all_bytes = true.
Proof. vm_compute. reflexivity. Qed.

Lemma query_tables_agree c : assoc_get gen_queryEscape c = assoc_get gen_queryEscape_tbl c.
Proof.
  destruct (N.lt_ge_cases c 256) as [Hc|Hc].
  - pose proof (forall_bytes _ fact_query_tables_agree c Hc) as H. cbv beta in H.
    destruct (assoc_get gen_queryEscape c), (assoc_get gen_queryEscape_tbl c); cbn [opt_bytes_eqb] in H; try discriminate.
    + apply bytes_eqb_eq in H. subst. reflexivity.
    + reflexivity.
  - rewrite (assoc_get_oob gen_queryEscape c qe_tbl_keys Hc).
    rewrite (assoc_get_oob gen_queryEscape_tbl c fact_query_keys Hc). reflexivity.
Qed.

Lemma qe_flat_esc s : qe_flat s = EscapersM.flat (EscapersM.queryEscape s).
Proof.
  rewrite Escapers_proofs.queryEscape_flat. induction s as [|c r IH]; cbn [qe_flat flat_map]; [reflexivity|].
  rewrite query_tables_agree, IH.
  destruct (assoc_get gen_queryEscape_tbl c) as [e|] eqn:E.
  - rewrite (Escapers_proofs.esc_or_self_some gen_queryEscape_tbl c e E). reflexivity.
  - rewrite (Escapers_proofs.esc_or_self_none gen_queryEscape_tbl c E). reflexivity.
Qed.

Lemma query_script_bytes s : concat (script_chunks (RendererM.queryEscape s)) = EscapersM.flat (EscapersM.queryEscape s).
Proof.
  pose proof (qe_loop_bytes s []) as H. unfold script_bytes in H. unfold RendererM.queryEscape.
  rewrite H. cbn [app]. apply qe_flat_esc.
Qed.

(* ---------------------------------------------------------------- the slot of a string shown in a query position *)

Theorem attr_query_slot q before after :
  query_position before = true ->
  exists post, forall s,
    attr_out q (before ++ UShow s :: after)
    = attr_out q before ++ EscapersM.flat (EscapersM.queryEscape s) ++ post.
Proof.
  intros Hq. unfold attr_out.
  destruct (run_items q r0 before) as [st cb] eqn:Eb.
  exists (concat (snd (run_items q (url_switch st true) after))). intros s.
  rewrite run_items_app, Eb. cbn [run_items step]. unfold show_step.
  destruct (show_escaper_choice q before s) as [Hsc Hst]. cbv zeta in Hsc, Hst. rewrite Eb in Hsc, Hst.
  cbn [fst] in Hsc, Hst. rewrite Hq in Hsc. specialize (Hst Hq).
  destruct (r_show_url (url_switch st true) s q) as [st' sc]. cbn [fst snd] in *. subst st' sc.
  destruct (run_items q (url_switch st true) after) as [st2 c2]. cbn [snd].
  rewrite !concat_app, query_script_bytes. reflexivity.
Qed.

(* the decoded URL: with the hypotheses of url_query_slot on the text written
   before the slot, the reference decoder gives the shown string back verbatim
   in one key or value, whatever the string *)
Theorem url_attribute_roundtrip q before after :
  query_position before = true ->
  let pre := attr_out q before in
  html_closed pre ->
  (forall path qs, split_first c_qm (snd (hrun HData pre)) = (path, Some qs) ->
     ~ In c_hash (snd (hrun HData pre)) -> pct_closed (slot_prefix qs)) ->
  In c_qm (snd (hrun HData pre)) -> ~ In c_hash (snd (hrun HData pre)) ->
  exists path bq aq frag (plug : bytes -> pair),
    plugs plug /\
    forall s, url_ref_decode (attr_out q (before ++ UShow s :: after))
              = mkUrl path (Some (bq ++ [plug s] ++ aq)) frag.
Proof.
  intros Hq pre Hc Hp Hin Hh. destruct (attr_query_slot q before after Hq) as [post Hpost].
  destruct (url_query_slot pre post Hc Hp Hin Hh) as [path [bq [aq [frag [plug [Hpl Hdec]]]]]].
  exists path, bq, aq, frag, plug. split; [exact Hpl|]. intros s. rewrite Hpost. apply Hdec.
Qed.

(* ---------------------------------------------------------------- what does not hold (the unchanged code) *)

(* a string shown right after a shown string that brought the question mark is
   written with pathEscape although it lies in the query: an ampersand and an
   equals sign of the string split the pair *)
Lemma consecutive_shows_refuted :
  let items := [UShow [47; 115; 63; 113; 61]; UShow [97; 38; 98; 61; 99]] in
  query_position [UShow [47; 115; 63; 113; 61]] = false /\
  url_ref_decode (attr_out true items)
  = mkUrl [47; 115] (Some [([113], Some [97]); ([98], Some [99])]) None.
Proof. vm_compute. split; reflexivity. Qed.

(* a string shown in the path keeps its percent triples: no round trip there (by design of pathEscape) *)
Lemma path_position_refuted :
  query_position [UText [47; 112; 47]] = false /\
  u_path (url_ref_decode (attr_out true [UText [47; 112; 47]; UShow [37; 52; 49]])) = [47; 112; 47; 65].
Proof. vm_compute. split; reflexivity. Qed.

(* a set attribute (srcset): a text with a comma starts a new URL after its
   last comma, whose query state comes from what follows that comma (repaired
   by c46d17c: the state was cleared even when a question mark followed the
   comma in the same text, and the value shown next was written with
   pathEscape in a query position).
   srcset = a.png, /img?w={{ s }} with s = 1&h=2 *)
Lemma srcset_comma_example :
  let ops := [OText [97; 46; 112; 110; 103; 44; 32; 47; 105; 109; 103; 63; 119; 61] true true;
              OShow 199 (mkShown [] None (Some [49; 38; 104; 61; 50]))] in
  concat (w_out (snd (fst (r_run never r0 w0 ops))))
  = [97; 46; 112; 110; 103; 44; 32; 47; 105; 109; 103; 63; 119; 61] ++ [49; 37; 50; 54; 104; 37; 51; 100; 50].
Proof. vm_compute. reflexivity. Qed.

(* non vacuity of the hypotheses: <a href="{{ base }}&amp;q={{ s }}#f"> with base = /s?l=en *)
Example url_attribute_example :
  let before := [UShow [47; 115; 63; 108; 61; 101; 110]; UText [38; 97; 109; 112; 59; 113; 61]] in
  let after := [UText [35; 102]] in
  query_position before = true /\
  html_closed (attr_out true before) /\
  In c_qm (snd (hrun HData (attr_out true before))) /\ ~ In c_hash (snd (hrun HData (attr_out true before))) /\
  pct_closed (slot_prefix [108; 61; 101; 110; 38; 113; 61]) /\
  url_ref_decode (attr_out true (before ++ UShow [97; 38; 98; 32; 43; 37; 52; 49] :: after))
  = mkUrl [47; 115] (Some [([108], Some [101; 110]); ([113], Some [97; 38; 98; 32; 43; 37; 52; 49])]) (Some [102]).
Proof.
  cbv zeta. split; [reflexivity|]. split; [vm_compute; reflexivity|]. split; [vm_compute; tauto|]. split.
  - apply mem_false_not_in. vm_compute. reflexivity.
  - split; vm_compute; reflexivity.
Qed.
