(* Facts about Utf8.decode_rune (Go's DecodeRune) used by the model of
   jsStringEscape: the shape of the bytes consumed for each width. *)
From Verif Require Import Bytes Utf8.
Open Scope N_scope.

Inductive rune_shape (b0 : N) (r : bytes) : N -> nat -> Prop :=
| RS_ascii : b0 < 128 -> rune_shape b0 r b0 1%nat
| RS_invalid : 128 <= b0 -> rune_shape b0 r rune_error 1%nat
| RS_two b1 r1 : r = b1 :: r1 -> 194 <= b0 < 224 -> 128 <= b1 < 192 ->
    rune_shape b0 r ((b0 - 192) * 64 + (b1 - 128)) 2%nat
| RS_three b1 b2 r2 : r = b1 :: b2 :: r2 -> 224 <= b0 < 240 -> 128 <= b1 < 192 -> 128 <= b2 < 192 ->
    (b0 = 224 -> 160 <= b1) ->
    rune_shape b0 r ((b0 - 224) * 4096 + (b1 - 128) * 64 + (b2 - 128)) 3%nat
| RS_four b1 b2 b3 r3 c : r = b1 :: b2 :: b3 :: r3 -> 240 <= b0 -> 128 <= b1 < 192 -> 128 <= b2 < 192 -> 128 <= b3 < 192 ->
    65536 <= c -> rune_shape b0 r c 4%nat.

Lemma is_cont_spec b : is_cont b = true <-> 128 <= b < 192.
Proof.
  unfold is_cont. rewrite andb_true_iff, N.leb_le, N.ltb_lt. tauto.
Qed.

Lemma decode_rune_shape b0 r :
  rune_shape b0 r (fst (decode_rune (b0 :: r))) (snd (decode_rune (b0 :: r))).
Proof.
  unfold decode_rune.
  destruct (N.ltb_spec b0 128) as [H1|H1]; [apply RS_ascii; assumption|].
  destruct (N.ltb_spec b0 194) as [H2|H2]; [apply RS_invalid; assumption|].
  destruct (N.ltb_spec b0 224) as [H3|H3].
  { destruct r as [|b1 r1]; [apply RS_invalid; assumption|].
    destruct (is_cont b1) eqn:Hc; [|apply RS_invalid; assumption].
    apply is_cont_spec in Hc. cbn [fst snd]. eapply RS_two; [reflexivity|lia|lia]. }
  destruct (N.ltb_spec b0 240) as [H4|H4].
  { destruct r as [|b1 [|b2 r2]]; try (apply RS_invalid; assumption).
    match goal with |- context [if ?b then _ else _] => destruct b eqn:Hc end; [|apply RS_invalid; assumption].
    apply andb_prop in Hc. destruct Hc as [Hc Hc2]. apply andb_prop in Hc. destruct Hc as [Hlo Hhi].
    apply is_cont_spec in Hc2. apply N.leb_le in Hlo, Hhi. cbn [fst snd].
    eapply RS_three; [reflexivity|lia| |lia|].
    - destruct (N.eqb_spec b0 224), (N.eqb_spec b0 237); lia.
    - intros ->. cbn in Hlo. exact Hlo. }
  destruct (N.ltb_spec b0 245) as [H5|H5]; [|apply RS_invalid; assumption].
  destruct r as [|b1 [|b2 [|b3 r3]]]; try (apply RS_invalid; assumption).
  match goal with |- context [if ?b then _ else _] => destruct b eqn:Hc end; [|apply RS_invalid; assumption].
  apply andb_prop in Hc. destruct Hc as [Hc Hc3]. apply andb_prop in Hc. destruct Hc as [Hc Hc2].
  apply andb_prop in Hc. destruct Hc as [Hlo Hhi].
  apply is_cont_spec in Hc2, Hc3. apply N.leb_le in Hlo, Hhi. cbn [fst snd].
  assert (Hb1 : 128 <= b1 < 192) by (destruct (N.eqb_spec b0 240), (N.eqb_spec b0 244); lia).
  eapply RS_four; [reflexivity|lia|exact Hb1|lia|lia|].
  destruct (N.eqb_spec b0 240) as [->|Hn]; [lia|]. lia.
Qed.

(* the width never exceeds the input *)
Lemma rune_shape_len b0 r c sz : rune_shape b0 r c sz -> (1 <= sz <= length (b0 :: r))%nat.
Proof. intros H; destruct H; subst; cbn [length]; lia. Qed.

(* U+2028 and U+2029 are decoded from exactly E2 80 A8 / E2 80 A9 *)
Lemma rune_shape_ls b0 r c sz :
  rune_shape b0 r c sz -> c = 8232 \/ c = 8233 ->
  exists b2 r2, b0 = 226 /\ r = 128 :: b2 :: r2 /\ sz = 3%nat /\ c = 8064 + b2 /\ (b2 = 168 \/ b2 = 169).
Proof.
  intros H Hc. destruct H as [H|H|b1 r1 Hr H0 H1|b1 b2 r2 Hr H0 H1 H2 Hov|b1 b2 b3 r3 c Hr H0 H1 H2 H3 Hc4];
    try (unfold rune_error in *; lia).
  exists b2, r2. subst r.
  assert (b0 = 226 /\ b1 = 128 /\ (b2 = 168 \/ b2 = 169)) as (-> & -> & Hb2) by lia.
  repeat split; try reflexivity; try assumption. lia.
Qed.
