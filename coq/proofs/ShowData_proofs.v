(* C08, data clause: what showInJSON / showInJS write for a value of an accepted
   type is the print of json_of (the data the property expects): field
   selection and naming by json tags, omitempty, map entries sorted by key
   text, pointees, dynamic values of interfaces. Instance of the induction of
   Show_js_proofs with the predicate `is the print of the spec data`. *)
From Coq Require Import List NArith ZArith Bool Lia.
From Verif Require Import Bytes ShowTree Facts_show ShowTypesM ShowJsonM ShowLeavesM Json ShowSpecM
  ShowTree_proofs Show_flat_proofs Show_js_checks Show_js_proofs Show_c09_proofs Json_proofs ShowLeaves_proofs ShowJson_proofs.
Import ListNotations.
Open Scope N_scope.

Local Opaque gen_checkShow_tbl gen_checkShowJS_tbl gen_checkShowJSON_tbl gen_checkShowJS_field gen_checkShowJSON_field
  gen_toString_tbl gen_Show_tbl gen_showInJS_tbl gen_showInJSON_tbl gen_showInJS_mapkey_tbl gen_showInJSON_mapkey_tbl.

(* isEmptyValue (routed by the generated table) is the emptiness of the spec, on typed values *)
Lemma is_empty_spec O e t v :
  has_typeb e t v = true -> wf_tyb t = true -> is_empty (concrete O) t v = Some (empty_spec O t v).
Proof.
  intros H Hw. destruct t.
  - cbn [wf_tyb] in Hw. apply N.ltb_lt in Hw. pose proof (typed_leaf e k fl v Hw H) as Hs. clear H.
    enum_kind k Hw; destruct v; try contradiction; try (vm_compute in Hs; discriminate Hs);
      try (repeat (destruct Hs as [Hs | Hs]; try discriminate Hs); fail);
      try (destruct s); vm_compute; reflexivity.
  - destruct v; cbn [has_typeb] in H; apply andb_true_iff in H; destruct H as [_ H]; try discriminate H; destruct xs; vm_compute; reflexivity.
  - destruct v; cbn [has_typeb] in H; apply andb_true_iff in H; destruct H as [_ H];
      destruct (flag (TSlice fl t) w_ByteSlice); try discriminate H; try (destruct s); try (destruct xs); vm_compute; reflexivity.
  - destruct v; cbn [has_typeb] in H; apply andb_true_iff in H; destruct H as [_ H]; try discriminate H; vm_compute; reflexivity.
  - destruct v; cbn [has_typeb] in H; apply andb_true_iff in H; destruct H as [_ H]; try discriminate H; try (destruct kvs); vm_compute; reflexivity.
  - destruct v; cbn [has_typeb] in H; apply andb_true_iff in H; destruct H as [_ H];
      destruct (flag (TStruct fl fs) w_Time); try discriminate H; vm_compute; reflexivity.
  - destruct v; cbn [has_typeb] in H; rewrite andb_false_r in H; discriminate H.
Qed.

Lemma head_plain_facts f t : head_case f t = HPlain -> trusted_case f t = None /\ flag t w_Time = false /\ flag t i_Error = false.
Proof.
  unfold head_case. destruct (trusted_case f t); [discriminate |].
  destruct (flag t w_Time); [discriminate |]. destruct (flag t i_Error); [discriminate |]. auto.
Qed.

Lemma head_error_facts f t : head_case f t = HError -> trusted_case f t = None /\ flag t w_Time = false /\ flag t i_Error = true.
Proof.
  unfold head_case. destruct (trusted_case f t); [discriminate |].
  destruct (flag t w_Time); [discriminate |]. destruct (flag t i_Error); [auto | discriminate].
Qed.

Lemma head_time_facts f t : head_case f t = HTime -> trusted_case f t = None /\ flag t w_Time = true.
Proof.
  unfold head_case. destruct (trusted_case f t); [discriminate |].
  destruct (flag t w_Time); [auto |]. destruct (flag t i_Error); discriminate.
Qed.

Lemma head_trusted_facts f t c : head_case f t = HTrusted c -> trusted_case f t = Some c.
Proof.
  unfold head_case. destruct (trusted_case f t) as [c' |]; [intro H; inversion H; reflexivity |].
  destruct (flag t w_Time); [discriminate |]. destruct (flag t i_Error); discriminate.
Qed.

Lemma date_body_spec b : date_body (t_date_open ++ b ++ t_date_close) = b.
Proof.
  unfold date_body, t_date_open, t_date_close. cbn [app skipn].
  rewrite app_length. cbn [length]. replace (length b + 2 - 2)%nat with (length b) by lia.
  rewrite firstn_app. rewrite Nat.sub_diag. cbn [firstn]. rewrite app_nil_r. apply firstn_all.
Qed.

(* sorting by key text keeps two lists with the same keys in step *)
Lemma insert_kv_Forall2 {A B} (R : A -> B -> Prop) k a b (l1 : list (bytes * A)) (l2 : list (bytes * B)) :
  R a b -> Forall2 (fun x y => fst x = fst y /\ R (snd x) (snd y)) l1 l2 ->
  Forall2 (fun x y => fst x = fst y /\ R (snd x) (snd y)) (insert_kv k a l1) (insert_kv k b l2).
Proof.
  intros Hab H. induction H as [| [k1 a1] [k2 b2] l1 l2 [Hk Hr] Hl IH]; cbn [insert_kv].
  - constructor; [split; [reflexivity | exact Hab] | constructor].
  - cbn [fst snd] in *. subst k2. destruct (bytes_ltb k1 k).
    + constructor; [split; [reflexivity | exact Hr] | exact IH].
    + constructor; [split; [reflexivity | exact Hab] |]. constructor; [split; [reflexivity | exact Hr] | exact Hl].
Qed.

Lemma sort_kv_Forall2 {A B} (R : A -> B -> Prop) (l1 : list (bytes * A)) (l2 : list (bytes * B)) :
  Forall2 (fun x y => fst x = fst y /\ R (snd x) (snd y)) l1 l2 ->
  Forall2 (fun x y => fst x = fst y /\ R (snd x) (snd y)) (sort_kv l1) (sort_kv l2).
Proof.
  intro H. induction H as [| [k1 a1] [k2 b2] l1 l2 [Hk Hr] Hl IH]; cbn [sort_kv]; [constructor |].
  cbn [fst snd] in *. subst k2. apply insert_kv_Forall2; assumption.
Qed.

Section Data.
  Variable O : leaves.
  Variable f : showfn.
  Hypothesis HO : oracle_ok O.
  (* showTimeInJS does not panic: the years are within its range (JavaScript only) *)
  Hypothesis HT : is_js f = true -> forall x, lf_time_js O x <> None.

  Let L := concrete O.
  Let js := is_js f.

  Definition data (env : list ty) (t : ty) (v : value) (r : result) : Prop :=
    exists j, json_of O f env t v = Some j /\ wf_json js j = true /\ r = ROk (json_print j).

  Definition data_at (env : list ty) (tc : ty) (x : value) (r : result) : Prop :=
    exists j, json_at_with (json_of O f) env tc x = Some j /\ wf_json js j = true /\ r = ROk (json_print j).

  Lemma json_of_plain env t v : head_case f t = HPlain ->
    json_of O f env t v =
      match v with
      | VBool b => Some (JBool b)
      | VInt z => Some (JNum (dec_of_Z z))
      | VUint n => Some (JNum (dec_of_N n))
      | VFloat x => Some (JNum (lf_float O (kind_of t) x))
      | VStr s => Some (JStr (js_escape s))
      | VBytes b => Some (JStr (base64 b))
      | VNilRef => Some JNull
      | VSeq xs =>
        match t with
        | TSlice _ e | TArr _ e =>
          match all_some (map (json_at_with (json_of O f) (t :: env) e) xs) with
          | Some js => Some (JArr js)
          | None => None
          end
        | _ => None
        end
      | VPtr x =>
        match t with
        | TPtr _ e => json_at_with (json_of O f) (t :: env) e x
        | _ => None
        end
      | VMap kvs =>
        match t with
        | TMap _ tk te =>
          match all_some (map (fun kx : value * value =>
                                 match key_at_spec O (t :: env) tk (fst kx), json_at_with (json_of O f) (t :: env) te (snd kx) with
                                 | Some k, Some j => Some (k, j)
                                 | _, _ => None
                                 end) kvs) with
          | Some ms => Some (JObj (map (fun m : bytes * json => (js_escape (fst m), snd m)) (sort_kv ms)))
          | None => None
          end
        | _ => None
        end
      | VStruct vs =>
        match t with
        | TStruct _ fs =>
          match spec_members O (json_at_with (json_of O f) (t :: env))
                             (fun ft => match resolve (t :: env) ft with Some (_, t') => Some t' | None => None end) fs vs with
          | Some ms => Some (JObj ms)
          | None => None
          end
        | _ => None
        end
      | _ => None
      end.
  Proof.
    intro Hp. destruct (head_plain_facts f t Hp) as [H1 [H2 H3]].
    destruct v; cbn [json_of]; rewrite H1, H2, H3; reflexivity.
  Qed.

  (* ---- arrays ---- *)

  Lemma elems_data env e xs :
    (forall x, In x xs -> data_at env e x (show_at_with f (show_val L f) env e x)) ->
    forall first, exists js',
      all_some (map (json_at_with (json_of O f) env e) xs) = Some js' /\ forallb (wf_json js) js' = true /\
      join_results (map (show_at_with f (show_val L f) env e) xs) first = ROk (print_elems json_print js' first).
  Proof.
    induction xs as [| x xs IH]; intros H first.
    - exists []. split; [reflexivity | split; reflexivity].
    - destruct (H x (or_introl eq_refl)) as [j [Hj [Hw Hr]]].
      destruct (IH (fun y Hy => H y (or_intror Hy)) false) as [js' [Hall [Hws Hjoin]]].
      exists (j :: js'). cbn [map all_some]. rewrite Hj, Hall. split; [reflexivity |].
      split; [cbn [forallb]; rewrite Hw, Hws; reflexivity |].
      cbn [join_results]. rewrite Hr. cbn [bind]. rewrite Hjoin. cbn [bind]. reflexivity.
  Qed.

  (* ---- objects ---- *)

  Definition member_rel (m : bytes * result) (x : bytes * json) : Prop :=
    fst x = js_escape (fst m) /\ wf_json js (snd x) = true /\ snd m = ROk (json_print (snd x)).

  Lemma members_join ms jm :
    Forall2 member_rel ms jm -> forall first,
    join_members L f ms first = ROk (print_members json_print jm first) /\
    forallb (fun m : bytes * json => body_ok (fst m) && wf_json js (snd m)) jm = true.
  Proof.
    intro H. induction H as [| [name r] [k j] ms jm [Hk [Hw Hr]] Hrest IH]; intro first.
    - split; reflexivity.
    - cbn [fst snd] in *. subst k r. destruct (IH false) as [Hj Hws].
      cbn [join_members bind]. rewrite Hj. cbn [bind]. split.
      + cbn [print_members]. unfold L. cbn [lf_string concrete]. destruct first; cbn [app]; rewrite <- ?app_assoc; reflexivity.
      + cbn [forallb fst snd]. rewrite (js_escape_ok name), Hw, Hws. reflexivity.
  Qed.

  Lemma object_data ms jm : Forall2 member_rel ms jm ->
    object_lit L f ms = ROk (json_print (JObj jm)) /\ wf_json js (JObj jm) = true.
  Proof.
    intro H. destruct (members_join ms jm H true) as [Hj Hw]. unfold object_lit. rewrite Hj. cbn [bind]. split; [reflexivity | exact Hw].
  Qed.

  (* ---- structs ---- *)

  Lemma struct_data env t fs vs :
    Forall2 (fun (p : finfo * ty) (fv : value) =>
               at_of env t (snd p) fv = true /\
               (forall e' t', resolve (t :: env) (snd p) = Some (e', t') -> wf_tyb t' = true) /\
               (f_exported (fst p) = true -> data_at (t :: env) (snd p) fv (show_at_with f (show_val L f) (t :: env) (snd p) fv))) fs vs ->
    exists ms jm,
      struct_members (fun fi ft fv =>
        field_member L fi (match resolve (t :: env) ft with Some (_, t') => Some t' | None => None end) fv
                     (show_at_with f (show_val L f) (t :: env) ft fv)) fs vs = Some ms /\
      spec_members O (json_at_with (json_of O f) (t :: env))
                   (fun ft => match resolve (t :: env) ft with Some (_, t') => Some t' | None => None end) fs vs = Some jm /\
      Forall2 member_rel ms jm.
  Proof.
    intro H. induction H as [| [fi ft] fv fs' vs' [Hty [Hwf Hshow]] Hrest IH].
    - exists [], []. split; [reflexivity | split; [reflexivity | constructor]].
    - destruct IH as [ms [jm [Hms [Hjm Hrel]]]]. cbn [fst snd] in *.
      cbn [struct_members spec_members].
      fold (struct_members (fun fi ft fv =>
        field_member L fi (match resolve (t :: env) ft with Some (_, t') => Some t' | None => None end) fv
                     (show_at_with f (show_val L f) (t :: env) ft fv))) in *.
      fold (spec_members O (json_at_with (json_of O f) (t :: env))
                   (fun ft => match resolve (t :: env) ft with Some (_, t') => Some t' | None => None end)) in *.
      rewrite Hms, Hjm. unfold field_member.
      destruct (f_exported fi) eqn:Hexp; cbn [negb]; [| exists ms, jm; auto].
      destruct (Hshow eq_refl) as [j [Hj [Hw Hr]]].
      destruct (f_tag fi) as [| c tag] eqn:Etag.
      + cbn [bytes_eqb andb]. rewrite Hj.
        eexists; eexists. split; [reflexivity | split; [reflexivity |]].
        constructor; [| exact Hrel]. split; [reflexivity | split; [exact Hw | exact Hr]].
      + destruct (bytes_eqb (c :: tag) [45]); [exists ms, jm; auto |].
        destruct (parse_tag (c :: tag)) as [tname omit].
        unfold at_of in Hty. destruct (resolve (t :: env) ft) as [[e' t'] |] eqn:R; [| discriminate Hty].
        unfold L. rewrite (is_empty_spec O e' t' fv Hty (Hwf e' t' eq_refl)). fold L.
        destruct omit; cbn [andb].
        * destruct (empty_spec O t' fv); [exists ms, jm; auto |].
          rewrite Hj. eexists; eexists. split; [reflexivity | split; [reflexivity |]].
          constructor; [| exact Hrel]. split; [reflexivity | split; [exact Hw | exact Hr]].
        * rewrite Hj. eexists; eexists. split; [reflexivity | split; [reflexivity |]].
          constructor; [| exact Hrel]. split; [reflexivity | split; [exact Hw | exact Hr]].
  Qed.

  (* ---- map keys ---- *)

  Lemma key_string_text d k b : key_string L f d k = ROk b -> key_text O d k = Some b.
  Proof.
    unfold key_string, key_text.
    destruct (eval_tree (dyn_val false d) (tree_assoc (mapkey_tbl f) (dyn_kind d))); try discriminate.
    destruct d as [t |]; [| intro H; inversion H; reflexivity].
    unfold L. cbn [lf_key_text lf_float lf_complex concrete].
    destruct (flag t i_Stringer || flag t i_EnvStringer); [intro H; inversion H; reflexivity |].
    destruct k; intro H; try discriminate H; inversion H; reflexivity.
  Qed.

  Lemma key_at_text env tk k b : key_at L f env tk k = ROk b -> key_at_spec O env tk k = Some b.
  Proof.
    unfold key_at, key_at_spec. destruct (resolve env tk) as [[e' tk'] |]; [| discriminate].
    destruct (is_iface tk'); [destruct k; try discriminate |]; apply key_string_text.
  Qed.

  Lemma entries_data env tk te kvs :
    (forall kx, In kx kvs -> exists b, key_at L f env tk (fst kx) = ROk b) ->
    (forall kx : value * value, In kx kvs -> data_at env te (snd kx) (show_at_with f (show_val L f) env te (snd kx))) ->
    exists pairs,
      all_some (map (fun kx : value * value =>
                       match key_at_spec O env tk (fst kx), json_at_with (json_of O f) env te (snd kx) with
                       | Some k, Some j => Some (k, j)
                       | _, _ => None
                       end) kvs) = Some pairs /\
      Forall2 (fun (x : bytes * result) (y : bytes * json) =>
                 fst x = fst y /\ (wf_json js (snd y) = true /\ snd x = ROk (json_print (snd y))))
              (map (fun kr : result * result => (key_of (fst kr), snd kr))
                   (map (fun kx : value * value => (key_at L f env tk (fst kx), show_at_with f (show_val L f) env te (snd kx))) kvs))
              pairs.
  Proof.
    induction kvs as [| kx r IH]; intros Hk Hv.
    - exists []. split; [reflexivity | constructor].
    - destruct (Hk kx (or_introl eq_refl)) as [b Hb]. destruct (Hv kx (or_introl eq_refl)) as [j [Hj [Hw Hr]]].
      destruct (IH (fun y Hy => Hk y (or_intror Hy)) (fun y Hy => Hv y (or_intror Hy))) as [pairs [Hall Hrel]].
      exists ((b, j) :: pairs). cbn [map all_some]. rewrite (key_at_text _ _ _ _ Hb), Hj, Hall. split; [reflexivity |].
      constructor; [| exact Hrel]. cbn [fst snd]. rewrite Hb. cbn [key_of]. auto.
  Qed.

  (* ---- the instance ---- *)

  Theorem show_val_data : forall n, P L f data n.
  Proof.
    apply (show_val_good L f data data_at).
    - (* nil at an interface position *)
      intros env tc e' t' R Hi. exists JNull. unfold json_at_with. rewrite R, Hi. split; [reflexivity | split; reflexivity].
    - intros env tc e' t' d x r R Hi Hd Hr [j [Hj [Hw Hres]]]. exists j. unfold json_at_with. rewrite R, Hi, Hd, Hr. cbn [orb]. auto.
    - intros env tc e' t' x r R Hi [j [Hj [Hw Hres]]]. exists j. unfold json_at_with. rewrite R, Hi. auto.
    - (* bool *)
      intros env t b Hp. exists (JBool b). rewrite (json_of_plain env t _ Hp). split; [reflexivity | split; [reflexivity |]]. destruct b; reflexivity.
    - intros env t z Hp. exists (JNum (dec_of_Z z)). rewrite (json_of_plain env t _ Hp). split; [reflexivity | split; [apply dec_of_Z_number | reflexivity]].
    - intros env t n Hp. exists (JNum (dec_of_N n)). rewrite (json_of_plain env t _ Hp). split; [reflexivity | split; [apply dec_of_N_number | reflexivity]].
    - intros env t x Hp. exists (JNum (lf_float O (kind_of t) x)). rewrite (json_of_plain env t _ Hp).
      split; [reflexivity | split; [apply (o_float O HO) | reflexivity]].
    - intros env t s Hp. exists (JStr (js_escape s)). rewrite (json_of_plain env t _ Hp).
      split; [reflexivity | split; [apply js_escape_ok | reflexivity]].
    - intros env t b Hp. exists (JStr (base64 b)). rewrite (json_of_plain env t _ Hp).
      split; [reflexivity | split; [apply base64_ok | reflexivity]].
    - intros env t Hp. exists JNull. rewrite (json_of_plain env t _ Hp). split; [reflexivity | split; reflexivity].
    - (* error *)
      intros env t v He. destruct (head_error_facts f t He) as [H1 [H2 H3]].
      exists (JStr (js_escape (lf_error_text O t v))). split; [| split; [apply js_escape_ok | reflexivity]].
      destruct v; cbn [json_of]; rewrite H1, H2, H3; reflexivity.
    - (* time *)
      intros env t x Ht. destruct (head_time_facts f t Ht) as [H1 H2]. unfold data.
      cbn [json_of]. rewrite H1, H2. unfold L, js. cbn [lf_time_js lf_time_json concrete].
      destruct f; cbn [is_js].
      + pose proof (o_time_js O HO x) as Hx. destruct (lf_time_js O x) as [txt |] eqn:E; [| exfalso; apply (HT eq_refl x E)].
        destruct Hx as [b [Hb Htxt]]. subst txt. rewrite date_body_spec.
        exists (JDate b). split; [reflexivity | split; [exact Hb | reflexivity]].
      + exists (JStr (lf_time_json O x)). split; [reflexivity | split; [apply (o_time_json O HO) | reflexivity]].
    - (* trusted *)
      intros env t v c Hc. pose proof (head_trusted_facts f t c Hc) as H1.
      destruct (o_trusted O HO f c t v) as [j [Hw Hj]]. exists j.
      split; [| split; [exact Hw | unfold L; cbn [lf_trusted concrete]; rewrite Hj; reflexivity]].
      assert (Hpj : trusted_json O f c t v = Some j).
      { unfold trusted_json. rewrite Hj. unfold js, is_js in *. destruct f; apply parse_print; exact Hw. }
      destruct v; cbn [json_of]; rewrite H1; exact Hpj.
    - (* arrays and slices *)
      intros env t e xs Hp [fl Ht] Hx.
      destruct (elems_data (t :: env) e xs Hx true) as [js' [Hall [Hws Hjoin]]].
      exists (JArr js'). rewrite (json_of_plain env t _ Hp).
      split; [destruct Ht as [Ht | Ht]; subst t; rewrite Hall; reflexivity |]. split; [exact Hws |].
      unfold array_lit. destruct xs as [| x xs'].
      + cbn [map all_some] in Hall. inversion Hall. reflexivity.
      + cbn [map] in *. rewrite Hjoin. cbn [bind]. reflexivity.
    - (* pointers *)
      intros env fl e x Hp [j [Hj [Hw Hr]]]. exists j. rewrite (json_of_plain env _ _ Hp). auto.
    - (* structs *)
      intros env fl fs vs Hp HF.
      destruct (struct_data env (TStruct fl fs) fs vs HF) as [ms [jm [Hms [Hjm Hrel]]]].
      destruct (object_data ms jm Hrel) as [Hobj Hw].
      exists (JObj jm). rewrite (json_of_plain env _ _ Hp). rewrite Hjm, Hms. auto.
    - (* maps *)
      intros env fl tk te kvs Hp Hk Hv.
      destruct (entries_data (TMap fl tk te :: env) tk te kvs Hk Hv) as [pairs [Hall Hrel]].
      pose proof (sort_kv_Forall2 (fun (r : result) (j : json) => wf_json js j = true /\ r = ROk (json_print j)) _ _ Hrel) as Hsorted.
      set (jm := map (fun m : bytes * json => (js_escape (fst m), snd m)) (sort_kv pairs)).
      assert (Hmr : Forall2 member_rel
                      (sort_kv (map (fun kr : result * result => (key_of (fst kr), snd kr))
                         (map (fun kx : value * value => (key_at L f (TMap fl tk te :: env) tk (fst kx),
                                                          show_at_with f (show_val L f) (TMap fl tk te :: env) te (snd kx))) kvs))) jm).
      { unfold jm. clear - Hsorted. induction Hsorted as [| x y l1 l2 [Hk [Hw Hr]] Hl IH]; cbn [map]; constructor; [| exact IH].
        split; [cbn [fst]; rewrite Hk; reflexivity | split; [exact Hw | exact Hr]]. }
      destruct (object_data _ jm Hmr) as [Hobj Hw].
      exists (JObj jm). rewrite (json_of_plain env _ _ Hp). rewrite Hall. auto.
  Qed.
End Data.

(* ---- C08: the data ---- *)

Lemma show_any_data O f conv t v :
  oracle_ok O -> (is_js f = true -> forall x, lf_time_js O x <> None) ->
  is_rec t = false -> is_iface t = false -> wf_tyb t = true -> flag t w_EmptyInterface = false ->
  static_ok (ctx_of f) t = OOk -> has_typeb [] t v = true -> boxed_okb f v = true ->
  exists out j, show_any (concrete O) conv (ctx_of f) false t v = ROk out /\
                json_of_top O f t v = Some j /\ wf_json (is_js f) j = true /\ out = json_print j.
Proof.
  intros HO HT Hr Hi Hw Hemp Hs Hty Hbox.
  pose proof (kind_lt_of_wf t Hr Hw) as Hk.
  unfold show_any, dyn_type. rewrite Hi. rewrite (dispatch_js conv f (Some t) Hk).
  assert (Hd : data O f [] t v (show_val (concrete O) f [] t v)).
  { apply (show_val_data O f HO HT (S (vsize v))); try assumption; try lia; try apply env_ok_nil.
    apply static_js; assumption. }
  destruct Hd as [j [Hj [Hwj Hres]]].
  exists (json_print j), j.
  split; [unfold show_top; destruct t; try discriminate Hr; rewrite Hi; exact Hres |].
  split; [| split; [exact Hwj | reflexivity]].
  unfold json_of_top, json_at_with. destruct t; try discriminate Hr; cbn [resolve]; rewrite Hi; exact Hj.
Qed.

(* JSON: the text decodes (parser of Json.v) to the data of the value *)
Theorem show_json_data :
  forall (O : leaves) (conv : bool) (t : ty) (v : value),
    oracle_ok O ->
    is_rec t = false -> is_iface t = false -> wf_tyb t = true -> flag t w_EmptyInterface = false ->
    static_ok ctx_JSON t = OOk -> has_typeb [] t v = true -> boxed_okb FJSON v = true ->
    exists out j, show_any (concrete O) conv ctx_JSON false t v = ROk out /\
                  json_parse out = Some j /\ json_of_top O FJSON t v = Some j.
Proof.
  intros O conv t v HO Hr Hi Hw Hemp Hs Hty Hbox.
  destruct (show_any_data O FJSON conv t v HO ltac:(discriminate) Hr Hi Hw Hemp Hs Hty Hbox) as [out [j [H1 [H2 [H3 H4]]]]].
  exists out, j. split; [exact H1 | split; [| exact H2]]. subst out. apply (parse_print false j H3).
Qed.

(* JavaScript: the literal reads as the data of the value, when showTimeInJS does not panic *)
Theorem show_js_data :
  forall (O : leaves) (conv : bool) (t : ty) (v : value),
    oracle_ok O -> (forall x, lf_time_js O x <> None) ->
    is_rec t = false -> is_iface t = false -> wf_tyb t = true -> flag t w_EmptyInterface = false ->
    static_ok ctx_JS t = OOk -> has_typeb [] t v = true -> boxed_okb FJS v = true ->
    exists out j, show_any (concrete O) conv ctx_JS false t v = ROk out /\
                  js_parse out = Some j /\ json_of_top O FJS t v = Some j.
Proof.
  intros O conv t v HO HT Hr Hi Hw Hemp Hs Hty Hbox.
  destruct (show_any_data O FJS conv t v HO (fun _ => HT) Hr Hi Hw Hemp Hs Hty Hbox) as [out [j [H1 [H2 [H3 H4]]]]].
  exists out, j. split; [exact H1 | split; [| exact H2]]. subst out. apply (parse_print true j H3).
Qed.
