(* Walk driven by selectors that agree with the schema (up to the listed
   skipped and transparent fields) produces exactly the structural pre-order
   of the nodes. *)
From Coq Require Import List NArith Bool Lia Arith.
From Verif Require Import Bytes AstSchema AstTreeM AstTreeSpec AstTree_base AstTree_clone.
Import ListNotations.
Open Scope N_scope.

Section WalkProof.
Variable schema : list kind_decl.
Variable required : list (N * N).
Variable consts : list ((N * N) * (N * list (N * bytes))).
Variable edge_scal : list ((N * N) * list (N * bytes)).
Variable wtable : list ((N * N) * wcase).
Variable prune : N -> bool.
Variable skip : list (N * N).
Variable transparent : list (N * N).
Variable nd : list (N * N).
Hypothesis good : walk_table_good schema required wtable skip transparent nd = true.

Notation ev := (events_v schema prune skip transparent).

Definition field_events (k : N) (fl : N * list tree) : list event :=
  if memp skip (k, fst fl) then []
  else flat_map (fun c => ev (vflag schema transparent k (fst fl) (t_kind c)) c) (snd fl).

Lemma events_v_eq v i k sc kd :
  ev v (T i k sc kd) =
  let inner := flat_map (field_events k) kd in
  if v then (if prune k then [Enter i] else Enter i :: inner ++ [Leave]) else inner.
Proof. reflexivity. Qed.

Lemma wgood_parts :
  schema_ok schema = true /\
  forallb (memp nd) (wroots schema) = true /\
  forallb (fun p => match lookup2 wtable (fst p) (snd p) with Some wc => w_visit wc | None => false end) (wroots schema) = true /\
  forallb (wpair_good schema required wtable skip transparent nd) nd = true.
Proof.
  pose proof good as g. unfold walk_table_good in g.
  apply andb_prop in g. destruct g as [g g4]. apply andb_prop in g. destruct g as [g g3].
  apply andb_prop in g. destruct g as [g1 g2]. auto.
Qed.

Lemma wfields_nodup k : NoDup (map f_id (fields_of schema k)).
Proof.
  destruct wgood_parts as [h _]. unfold schema_ok in h. apply andb_prop in h. destruct h as [h _].
  unfold fields_of, decl_of. destruct (find (fun d => k_id d =? k) schema) eqn:e; [|constructor].
  apply find_some in e. destruct e as [e _]. rewrite forallb_forall in h. apply nodupb_nodup. auto.
Qed.

Lemma wchild_fields_nodup k : NoDup (map f_id (child_fields schema k)).
Proof. apply nodup_map_filter, wfields_nodup. Qed.

Lemma wfield_of_child k fld : In fld (child_fields schema k) -> field_of schema k (f_id fld) = Some fld.
Proof.
  intros h. unfold field_of. apply find_nodup; [apply wfields_nodup|].
  unfold child_fields in h. apply filter_In in h. tauto.
Qed.
Lemma wclass_of_child k fld : In fld (child_fields schema k) -> class_of schema k (f_id fld) = f_class fld.
Proof. intros h. unfold class_of. rewrite (wfield_of_child k fld h). reflexivity. Qed.
Lemma wstatic_of_child k fld : In fld (child_fields schema k) -> static_of schema k (f_id fld) = f_static fld.
Proof. intros h. unfold static_of. rewrite (wfield_of_child k fld h). reflexivity. Qed.

Lemma concat_res_ok {A} (f : A -> res (list event)) (g : A -> list event) l :
  (forall x, In x l -> f x = Ok (g x)) -> concat_res (map f l) = Ok (flat_map g l).
Proof.
  induction l as [|a r IH]; intros h; [reflexivity|].
  cbn [map concat_res flat_map]. rewrite (h a (or_introl eq_refl)).
  rewrite IH; [reflexivity|]. intros x hx. apply h. right. exact hx.
Qed.

(* a record of an inert kind (not a node, no child fields) produces no event *)
Lemma inert_no_events c :
  node_ok schema required consts edge_scal c = true -> inert schema (t_kind c) = true ->
  forall f k, ev (vflag schema transparent k f (t_kind c)) c = [].
Proof.
  intros hn hi f k. destruct c as [i kc sc kd]. cbn [t_kind] in *.
  unfold inert in hi. apply andb_prop in hi. destruct hi as [h1 h2]. apply negb_true_iff in h1.
  unfold vflag. rewrite h1. cbn [andb]. rewrite events_v_eq. cbn zeta.
  cbn [node_ok] in hn. apply andb_prop in hn. destruct hn as [hn _]. apply andb_prop in hn. destruct hn as [_ hkm].
  apply list_eqb_eq in hkm. destruct (child_fields schema kc); [|discriminate].
  destruct kd; [reflexivity|discriminate].
Qed.

Section Items.
Variable fu : nat.
Variable k : N.
Variable kdall : list (N * list tree).
Let rec := walk schema wtable prune fu.

Hypothesis Hrec : forall ch ctx wc, (height ch < fu)%nat ->
  hyp schema required consts edge_scal ch = true ->
  In (ctx, t_kind ch) nd -> lookup2 wtable ctx (t_kind ch) = Some wc ->
  rec ctx ch = Ok (ev (w_visit wc) ch).

Lemma walk_items_good : forall flds items kdsuf,
  map fst kdsuf = map f_id flds ->
  walign schema required wtable skip transparent k flds items = true ->
  (forall fld, In fld flds -> In fld (child_fields schema k)) ->
  (forall fl, In fl kdsuf -> kids_of kdall (fst fl) = snd fl) ->
  (forall fl, In fl kdsuf -> field_ok schema required consts edge_scal k fl = true) ->
  (forall fl ch, In fl kdsuf -> In ch (snd fl) ->
     (height ch < fu)%nat /\ hyp schema required consts edge_scal ch = true) ->
  (forall it, In it items -> match it with WVia f c _ => forall k', In k' (static_of schema k f) -> In (c, k') nd end) ->
  concat_res (map (walk_item schema wtable rec k kdall) items) = Ok (flat_map (field_events k) kdsuf).
Proof.
  induction flds as [|fld fr IH]; intros items kdsuf hm hal hin hk hf hch hsucc.
  - destruct kdsuf; [|discriminate]. cbn [walign] in hal. destruct items; [reflexivity|discriminate].
  - destruct kdsuf as [|[f cs] kr]; [discriminate|].
    cbn [map fst] in hm. inversion hm as [[e1 e2]]. subst f.
    pose proof (hin fld (or_introl eq_refl)) as hfld.
    pose proof (hf _ (or_introl eq_refl)) as hfo. unfold field_ok in hfo. cbn [fst snd] in hfo.
    apply andb_prop in hfo. destruct hfo as [hfo hfo5]. apply andb_prop in hfo. destruct hfo as [hfo hfo4].
    apply andb_prop in hfo. destruct hfo as [hfo hfo3]. apply andb_prop in hfo. destruct hfo as [hfo1 hfo2].
    rewrite (wstatic_of_child k fld hfld) in hfo2. rewrite forallb_forall in hfo2.
    cbn [walign] in hal. cbn [flat_map].
    destruct (inert_field schema fld || memp skip (k, f_id fld)) eqn:eskip.
    + (* nothing to walk in this field *)
      assert (hnone : field_events k (f_id fld, cs) = []).
      { unfold field_events. cbn [fst snd]. destruct (memp skip (k, f_id fld)) eqn:es; [reflexivity|].
        rewrite orb_false_r in eskip. unfold inert_field in eskip. rewrite forallb_forall in eskip.
        assert (hall : forall c, In c cs -> ev (vflag schema transparent k (f_id fld) (t_kind c)) c = []).
        { intros c hc. apply inert_no_events.
          - destruct (hch _ c (or_introl eq_refl) hc) as [_ hh].
            unfold hyp in hh. rewrite forallb_forall in hh. apply hh. apply subtrees_self.
          - apply eskip. apply mem_in. apply hfo2. exact hc. }
        clear - hall. induction cs as [|c cr IHc]; [reflexivity|]. cbn [flat_map].
        rewrite (hall c (or_introl eq_refl)). apply IHc. intros x hx. apply hall. right. exact hx. }
      rewrite hnone. cbn [app].
      apply (IH items kr e2 hal).
      * intros x h. apply hin. right. exact h.
      * intros fl h. apply hk. right. exact h.
      * intros fl h. apply hf. right. exact h.
      * intros fl ch h. apply hch. right. exact h.
      * exact hsucc.
    + apply orb_false_elim in eskip. destruct eskip as [_ enskip].
      destruct items as [|[f0 c ns] ir]; [discriminate|].
      apply andb_prop in hal. destruct hal as [hal hal4]. apply andb_prop in hal. destruct hal as [hal hal3].
      apply andb_prop in hal. destruct hal as [hal1 hal2]. apply N.eqb_eq in hal1. subst f0.
      cbn [map concat_res].
      assert (hitem : walk_item schema wtable rec k kdall (WVia (f_id fld) c ns) = Ok (field_events k (f_id fld, cs))).
      { pose proof (hk _ (or_introl eq_refl)) as hkf. cbn [fst snd] in hkf.
        cbn [walk_item]. rewrite hkf.
        unfold field_events. cbn [fst snd]. rewrite enskip.
        destruct cs as [|c0 cr].
        - assert (hsafe : negb ns && is_single schema k (f_id fld) = false).
          { destruct ns; [reflexivity|]. cbn [negb andb orb] in hal2.
            unfold is_single. rewrite (wclass_of_child k fld hfld).
            apply orb_prop in hal2. destruct hal2 as [h|h].
            - apply negb_true_iff in h. exact h.
            - rewrite h in hfo3. cbn in hfo3. discriminate. }
          rewrite hsafe. reflexivity.
        - apply concat_res_ok. intros ch hinch.
          destruct (hch _ ch (or_introl eq_refl) hinch) as [h1 h2].
          pose proof (hfo2 ch hinch) as hst. apply mem_in in hst.
          rewrite forallb_forall in hal3. specialize (hal3 _ hst).
          destruct (lookup2 wtable c (t_kind ch)) as [wc'|] eqn:el; [|discriminate].
          apply eqb_prop in hal3. rewrite <- hal3.
          apply Hrec; auto.
          pose proof (hsucc _ (or_introl eq_refl)) as hs. cbn in hs. apply hs.
          rewrite (wstatic_of_child k fld hfld). exact hst. }
      rewrite hitem.
      rewrite (IH ir kr e2 hal4); [reflexivity| | | | |].
      * intros x h. apply hin. right. exact h.
      * intros fl h. apply hk. right. exact h.
      * intros fl h. apply hf. right. exact h.
      * intros fl ch h. apply hch. right. exact h.
      * intros it h. apply hsucc. right. exact h.
Qed.

End Items.

Lemma wgood_nd p : In p nd -> wpair_good schema required wtable skip transparent nd p = true.
Proof. intros h. destruct wgood_parts as [_ [_ [_ g]]]. rewrite forallb_forall in g. auto. Qed.

Lemma wsuccs_in k wc f c ns k' :
  In (WVia f c ns) (w_items wc) -> In k' (static_of schema k f) -> In (c, k') (wsuccs schema k wc).
Proof.
  intros h1 h2. unfold wsuccs. apply in_flat_map. exists (WVia f c ns). split; [exact h1|].
  apply in_map. exact h2.
Qed.

Lemma walk_good : forall fuel ctx t wc,
  (height t < fuel)%nat -> hyp schema required consts edge_scal t = true ->
  In (ctx, t_kind t) nd -> lookup2 wtable ctx (t_kind t) = Some wc ->
  walk schema wtable prune fuel ctx t = Ok (ev (w_visit wc) t).
Proof.
  induction fuel as [|fu IH]; intros ctx t wc hh hhyp hin hl; [lia|].
  destruct t as [i k sc kd]. cbn [t_kind] in *.
  pose proof (wgood_nd _ hin) as hg. unfold wpair_good in hg. cbn [fst snd] in hg. rewrite hl in hg.
  apply andb_prop in hg. destruct hg as [hal hsucc].
  pose proof hhyp as hnode. unfold hyp in hnode. rewrite forallb_forall in hnode.
  specialize (hnode _ (subtrees_self _)). cbn [node_ok] in hnode.
  apply andb_prop in hnode. destruct hnode as [hnode hfok]. apply andb_prop in hnode. destruct hnode as [_ hkm].
  apply list_eqb_eq in hkm.
  assert (hndk : NoDup (map fst kd)) by (rewrite hkm; apply wchild_fields_nodup).
  cbn [walk]. rewrite hl. rewrite events_v_eq. cbn zeta.
  destruct (w_visit wc && prune k) eqn:evp.
  { apply andb_prop in evp. destruct evp as [e1 e2]. rewrite e1, e2. reflexivity. }
  rewrite forallb_forall in hfok. rewrite forallb_forall in hsucc.
  rewrite (walk_items_good fu k kd (fun ch ctx0 wc0 h1 h2 h3 h4 => IH ctx0 ch wc0 h1 h2 h3 h4)
             (child_fields schema k) (w_items wc) kd hkm hal).
  - destruct (w_visit wc) eqn:ev1; [|reflexivity]. cbn [andb] in evp. rewrite evp. reflexivity.
  - auto.
  - intros [f cs0] h. cbn [fst snd]. apply kids_of_nodup; assumption.
  - intros fl h. apply hfok. exact h.
  - intros fl ch h1 h2. split.
    + pose proof (height_child i k sc kd fl ch h1 h2). lia.
    + eapply hyp_child; eassumption.
  - intros [f c ns] hit k' hk'. apply memp_in. apply hsucc. eapply wsuccs_in; eassumption.
Qed.

(* Walk from a node: exactly the structural pre-order *)
Theorem walk_exact : forall t,
  hyp schema required consts edge_scal t = true -> is_node schema (t_kind t) = true ->
  walk_top schema wtable prune t = Ok (events schema prune skip transparent t).
Proof.
  intros t hh hnode. unfold walk_top, events.
  assert (hr : In (0, t_kind t) (wroots schema)).
  { unfold wroots. apply in_map_iff.
    unfold is_node, decl_of in hnode. destruct (find (fun d => k_id d =? t_kind t) schema) as [d|] eqn:ef; [|discriminate].
    apply find_some in ef. destruct ef as [hd he]. apply N.eqb_eq in he. exists d. split; [rewrite he; reflexivity|].
    apply filter_In. split; [exact hd|exact hnode]. }
  destruct wgood_parts as [_ [g1 [g2 _]]]. rewrite forallb_forall in g1, g2.
  pose proof (g1 _ hr) as hin. apply memp_in in hin.
  pose proof (g2 _ hr) as hv. cbn [fst snd] in hv.
  destruct (lookup2 wtable 0 (t_kind t)) as [wc|] eqn:el; [|discriminate].
  rewrite (walk_good (S (height t)) 0 t wc); auto. rewrite hv, hnode. reflexivity.
Qed.

(* ---- the visit list is the enumeration of all nodes, when no listed deviation is populated ---- *)

Definition no_dev_node (n : tree) : bool :=
  match n with
  | T _ k _ kd => forallb (fun fl => negb (memp (skip ++ transparent) (k, fst fl)) || is_nil (snd fl)) kd
  end.
Definition no_dev (t : tree) : bool := forallb no_dev_node (subtrees t).

Lemma enters_app a b : enters (a ++ b) = enters a ++ enters b.
Proof.
  induction a as [|e r IH]; [reflexivity|]. destruct e; cbn [app enters]; rewrite IH; reflexivity.
Qed.

Lemma node_ids_eq i k sc kd :
  node_ids schema (T i k sc kd) =
  (if is_node schema k then [i] else []) ++ flat_map (fun fl => flat_map (node_ids schema) (snd fl)) kd.
Proof.
  unfold node_ids. rewrite subtrees_eq. cbn [filter t_kind].
  assert (h : map t_id (filter (fun n => is_node schema (t_kind n)) (flat_map (fun fl => flat_map subtrees (snd fl)) kd))
              = flat_map (fun fl => flat_map (node_ids schema) (snd fl)) kd).
  { induction kd as [|fl r IH]; [reflexivity|]. cbn [flat_map]. rewrite filter_app, map_app, IH. f_equal.
    induction (snd fl) as [|c r2 IH2]; [reflexivity|]. cbn [flat_map]. rewrite filter_app, map_app, IH2. reflexivity. }
  destruct (is_node schema k); cbn [map t_id app]; rewrite h; reflexivity.
Qed.

End WalkProof.

Section WalkOnce.
Variable schema : list kind_decl.
Variable skip : list (N * N).
Variable transparent : list (N * N).

Notation ev0 := (events_v schema (fun _ => false) skip transparent).

Lemma no_dev_child i k sc kd fl c :
  no_dev skip transparent (T i k sc kd) = true -> In fl kd -> In c (snd fl) -> no_dev skip transparent c = true.
Proof.
  unfold no_dev. rewrite !forallb_forall. intros h hfl hc x hx. apply h.
  eapply subtrees_child; eassumption.
Qed.

Lemma enters_events : forall t,
  no_dev skip transparent t = true ->
  enters (ev0 (is_node schema (t_kind t)) t) = node_ids schema t.
Proof.
  induction t as [i k sc kd IH] using tree_ind2. intros hnd. cbn [t_kind].
  rewrite node_ids_eq.
  assert (hinner : enters (flat_map (field_events schema (fun _ => false) skip transparent k) kd)
                   = flat_map (fun fl => flat_map (node_ids schema) (snd fl)) kd).
  { pose proof hnd as hn0. unfold no_dev in hn0. rewrite forallb_forall in hn0.
    specialize (hn0 _ (subtrees_self _)). cbn [no_dev_node] in hn0. rewrite forallb_forall in hn0.
    assert (hk : forall fl, In fl kd ->
              enters (field_events schema (fun _ => false) skip transparent k fl) = flat_map (node_ids schema) (snd fl)).
    { intros fl hfl. specialize (hn0 fl hfl). unfold field_events.
      destruct (memp (skip ++ transparent) (k, fst fl)) eqn:em.
      - cbn [negb orb] in hn0. destruct (snd fl); [|discriminate]. destruct (memp skip (k, fst fl)); reflexivity.
      - assert (e1 : memp skip (k, fst fl) = false).
        { destruct (memp skip (k, fst fl)) eqn:e; [|reflexivity]. apply memp_in in e.
          assert (In (k, fst fl) (skip ++ transparent)) by (apply in_or_app; left; exact e).
          apply memp_in in H. rewrite H in em. discriminate. }
        assert (e2 : memp transparent (k, fst fl) = false).
        { destruct (memp transparent (k, fst fl)) eqn:e; [|reflexivity]. apply memp_in in e.
          assert (In (k, fst fl) (skip ++ transparent)) by (apply in_or_app; right; exact e).
          apply memp_in in H. rewrite H in em. discriminate. }
        rewrite e1.
        assert (hc : forall c, In c (snd fl) ->
                  enters (ev0 (vflag schema transparent k (fst fl) (t_kind c)) c) = node_ids schema c).
        { intros c hc. unfold vflag. rewrite e2. cbn [negb]. rewrite andb_true_r.
          apply (IH fl c hfl hc). eapply no_dev_child; eassumption. }
        clear - hc. induction (snd fl) as [|c r IHr]; [reflexivity|]. cbn [flat_map].
        rewrite enters_app, (hc c (or_introl eq_refl)). f_equal. apply IHr. intros x hx. apply hc. right. exact hx. }
    clear - hk. induction kd as [|fl r IHr]; [reflexivity|]. cbn [flat_map].
    rewrite enters_app, (hk fl (or_introl eq_refl)). f_equal. apply IHr. intros x hx. apply hk. right. exact hx. }
  rewrite events_v_eq. cbn zeta.
  destruct (is_node schema k).
  - cbn [enters app]. rewrite enters_app, hinner. cbn [enters]. rewrite app_nil_r. reflexivity.
  - cbn [app]. exact hinner.
Qed.

Lemma nodup_map_filter_gen {A} (f : A -> N) (p : A -> bool) l : NoDup (map f l) -> NoDup (map f (filter p l)).
Proof. apply nodup_map_filter. Qed.

End WalkOnce.
