(* Proofs about the table of template globals (C17): every reference site
   designates the one global of its variable, whatever the order of emission. *)
From Verif Require Import Bytes Facts_vars VarsM VarsSpec.
Open Scope N_scope.

(* ---------- obligations on the generated facts ---------- *)

(* The checker names the package of an upvar as the package of the globals,
   and Template.Run binds the variables of that package. *)
Lemma fact_pkgs :
  gen_upvar_NativePkg = gen_globals_PackageName /\ gen_globals_PackageName = gen_init_pkg /\
  gen_upvar_NativeName_is_ident = true.
Proof. repeat split; reflexivity. Qed.

Definition main_pkg : bytes := gen_globals_PackageName.

(* induction principle for the nested type *)
Section ItemInd.
  Variable P : item -> Prop.
  Hypothesis Href : forall s v, P (IRef s v).
  Hypothesis Hlit : forall ups body, Forall P body -> P (ILit ups body).
  Fixpoint item_ind' (it : item) : P it :=
    match it with
    | IRef s v => Href s v
    | ILit ups body =>
      Hlit ups body ((fix go (l : list item) : Forall P l :=
                        match l with
                        | [] => Forall_nil P
                        | x :: r => Forall_cons x (item_ind' x) (go r)
                        end) body)
    end.
End ItemInd.

Section Wf.
  Variable decls : list (var * decl).

  Definition declared (v : var) : Prop := assocb decls v <> None.

  (* What the type checker guarantees. env = None: the item is in the body of
     a package-level function; env = Some us: in the body of a literal whose
     native upvars are us. A global used inside a literal is an upvar of that
     literal and of every enclosing literal, once. *)
  Fixpoint wf_item (env : option (list var)) (it : item) : Prop :=
    match it with
    | IRef _ v => declared v /\ match env with None => True | Some us => In v us end
    | ILit ups body =>
      NoDup (natives ups) /\
      (forall u, In u (natives ups) -> declared u /\ match env with None => True | Some us => In u us end) /\
      (fix all (l : list item) : Prop :=
         match l with
         | [] => True
         | x :: r => wf_item (Some (natives ups)) x /\ all r
         end) body
    end.

  Definition wf_body (env : option (list var)) (body : list item) : Prop := Forall (wf_item env) body.

  Lemma wf_lit_body env ups body : wf_item env (ILit ups body) -> wf_body (Some (natives ups)) body.
  Proof.
    cbn [wf_item]. intros (_ & _ & H). unfold wf_body. induction body as [|x r IH]; constructor.
    - apply H.
    - apply IH. apply H.
  Qed.

  Definition wf_prog (tops : list (list item)) : Prop := Forall (wf_body None) tops.
End Wf.

(* ---------- lookups ---------- *)

Lemma bytes_eqb_refl x : bytes_eqb x x = true.
Proof. apply bytes_eqb_eq. reflexivity. Qed.

Lemma bytes_eqb_neq x y : x <> y -> bytes_eqb x y = false.
Proof. intros H. destruct (bytes_eqb x y) eqn:E; [apply bytes_eqb_eq in E; contradiction|reflexivity]. Qed.

Lemma ref_lookup_In l f v i : ref_lookup l f v = Some i -> In ((f, v), i) l.
Proof.
  induction l as [|[[f' v'] j] l IH]; cbn [ref_lookup]; [discriminate|].
  destruct (Nat.eqb f' f && bytes_eqb v' v) eqn:E.
  - intros H. injection H as <-. apply andb_prop in E. destruct E as [E1 E2].
    apply Nat.eqb_eq in E1. apply bytes_eqb_eq in E2. subst. left. reflexivity.
  - intros H. right. auto.
Qed.

Lemma ref_lookup_cons_other l f v f' v' j :
  (f', v') <> (f, v) -> ref_lookup (((f', v'), j) :: l) f v = ref_lookup l f v.
Proof.
  intros H. cbn [ref_lookup]. destruct (Nat.eqb f' f && bytes_eqb v' v) eqn:E; [|reflexivity].
  apply andb_prop in E. destruct E as [E1 E2]. apply Nat.eqb_eq in E1. apply bytes_eqb_eq in E2.
  subst. congruence.
Qed.

Lemma ref_lookup_cons_same l f v j : ref_lookup (((f, v), j) :: l) f v = Some j.
Proof. cbn [ref_lookup]. rewrite Nat.eqb_refl, bytes_eqb_refl. reflexivity. Qed.

Lemma find_top_Some ps l v i : find_top ps l v = Some i -> exists f, is_top ps f = true /\ In ((f, v), i) l.
Proof.
  induction l as [|[[f v'] j] l IH]; cbn [find_top]; [discriminate|].
  destruct (bytes_eqb v' v && is_top ps f) eqn:E.
  - intros H. injection H as <-. apply andb_prop in E. destruct E as [E1 E2].
    apply bytes_eqb_eq in E1. subst. exists f. split; [assumption|left; reflexivity].
  - intros H. destruct (IH H) as (f0 & H1 & H2). exists f0. split; [assumption|right; assumption].
Qed.

Lemma find_top_None ps l v : find_top ps l v = None -> forall f i, In ((f, v), i) l -> is_top ps f = false.
Proof.
  induction l as [|[[f' v'] j] l IH]; cbn [find_top]; intros H f i Hin; [destruct Hin|].
  destruct (bytes_eqb v' v && is_top ps f') eqn:E; [discriminate|].
  destruct Hin as [Heq|Hin]; [|eapply IH; eassumption].
  injection Heq as -> -> ->. rewrite bytes_eqb_refl in E. exact E.
Qed.

Lemma assoc_get_NoDup {A} (l : list (N * A)) s x : NoDup (map fst l) -> In (s, x) l -> assoc_get l s = Some x.
Proof.
  induction l as [|[k v] l IH]; intros Hnd Hin; [destruct Hin|].
  cbn [map fst] in Hnd. inversion Hnd as [|? ? Hn Hnd']; subst.
  unfold assoc_get. fold (@assoc_get A). destruct Hin as [Heq|Hin].
  - injection Heq as -> ->. rewrite N.eqb_refl. reflexivity.
  - destruct (N.eqb_spec k s) as [->|_].
    + exfalso. apply Hn. apply in_map_iff. exists (s, x). auto.
    + apply IH; assumption.
Qed.

(* ---------- resolution as a relation ---------- *)

Inductive R (st : est) : fnid -> nat -> nat -> Prop :=
| R_top f i : assocn (parents st) f = Some None -> R st f i i
| R_lit f p l i j k :
    assocn (parents st) f = Some (Some p) -> assocn (varrefs st) f = Some l ->
    nth_error l i = Some (Some j) -> R st p j k -> R st f i k.

Definition parents_ok (st : est) : Prop :=
  forall f op, assocn (parents st) f = Some op ->
               (f < nextfn st)%nat /\ forall p, op = Some p -> (p < f)%nat.

Lemma R_resolve st f i k : parents_ok st -> R st f i k ->
  forall fuel, (fuel > f)%nat -> resolve fuel st f i = Some k.
Proof.
  intros Hok H. induction H as [f i Hp|f p l i j k Hp Hv Hn _ IH]; intros fuel Hf.
  - destruct fuel; [lia|]. cbn [resolve]. rewrite Hp. reflexivity.
  - destruct fuel; [lia|]. cbn [resolve]. rewrite Hp, Hv, Hn. apply IH.
    destruct (Hok _ _ Hp) as [_ Hlt]. specialize (Hlt p eq_refl). lia.
Qed.

Lemma R_top_inv st f i k : assocn (parents st) f = Some None -> R st f i k -> k = i.
Proof. intros Hp H. inversion H; subst; [reflexivity|congruence]. Qed.

(* ---------- states that extend one another ---------- *)

Record ext (st st' : est) : Prop := {
  e_globals : exists more, globals st' = globals st ++ more;
  e_parents : forall f, assocn (parents st) f <> None -> assocn (parents st') f = assocn (parents st) f;
  e_varrefs : forall f, assocn (varrefs st) f <> None -> assocn (varrefs st') f = assocn (varrefs st) f;
  e_lookup : forall f u, ref_lookup (refs st) f u <> None -> ref_lookup (refs st') f u <> None;
  e_refs : incl (refs st) (refs st');
  e_sites : incl (sites st) (sites st');
  e_next : (nextfn st <= nextfn st')%nat
}.

Lemma ext_refl st : ext st st.
Proof.
  constructor; auto using incl_refl. exists []. rewrite app_nil_r. reflexivity.
Qed.

Lemma ext_trans a b c : ext a b -> ext b c -> ext a c.
Proof.
  intros [[m1 G1] P1 V1 L1 R1 S1 N1] [[m2 G2] P2 V2 L2 R2 S2 N2]. constructor.
  - exists (m1 ++ m2). rewrite G2, G1, app_assoc. reflexivity.
  - intros f H. rewrite P2; [apply P1; assumption|]. rewrite P1; assumption.
  - intros f H. rewrite V2; [apply V1; assumption|]. rewrite V1; assumption.
  - auto.
  - eapply incl_tran; eassumption.
  - eapply incl_tran; eassumption.
  - lia.
Qed.

Lemma R_ext st st' f i k : ext st st' -> R st f i k -> R st' f i k.
Proof.
  intros He H. induction H as [f i Hp|f p l i j k Hp Hv Hn _ IH].
  - apply R_top. rewrite (e_parents _ _ He); [assumption|congruence].
  - eapply R_lit; try eassumption.
    + rewrite (e_parents _ _ He); [assumption|congruence].
    + rewrite (e_varrefs _ _ He); [assumption|congruence].
Qed.

Lemma is_top_ext st st' f : ext st st' -> is_top (parents st) f = true -> is_top (parents st') f = true.
Proof.
  intros He. unfold is_top. destruct (assocn (parents st) f) as [[p|]|] eqn:E; try discriminate.
  intros _. rewrite (e_parents _ _ He); [rewrite E; reflexivity|congruence].
Qed.

Lemma NoDup_app_iff_local {A} (l : list A) x : NoDup l -> ~ In x l -> NoDup (l ++ [x]).
Proof.
  intros H1 H2. induction l as [|y l IH]; cbn [app]; [constructor; [intros []|constructor]|].
  inversion H1; subst. constructor.
  - intros Hin. apply in_app_or in Hin. destruct Hin as [Hin|[<-|[]]]; [contradiction|]. apply H2. left. reflexivity.
  - apply IH; [assumption|]. intros Hin. apply H2. right. assumption.
Qed.

Lemma nth_error_map_local {A B} (f : A -> B) l k : nth_error (map f l) k = option_map f (nth_error l k).
Proof. revert k. induction l as [|a l IH]; intros [|k]; cbn; auto. Qed.

Lemma nth_error_app_l {A} (l m : list A) k x : nth_error l k = Some x -> nth_error (l ++ m) k = Some x.
Proof.
  intros H. rewrite nth_error_app1; [assumption|]. apply nth_error_Some. congruence.
Qed.

Section Emission.
  Variable decls : list (var * decl).

  Definition global_of (v : var) : global :=
    let d := decl_of decls v in mkglobal main_pkg v (d_type d) (d_zero d) (d_addr d).

  Definition complete (st : est) (f : fnid) : Prop :=
    assocn (parents st) f = Some None \/
    exists p l, assocn (parents st) f = Some (Some p) /\ assocn (varrefs st) f = Some l.

  (* the operand i in the function f designates the global of v *)
  Definition points (st : est) (f : fnid) (i : nat) (v : var) : Prop :=
    exists k, R st f i k /\ nth_error (globals st) k = Some (global_of v).

  Lemma points_ext st st' f i v : ext st st' -> points st f i v -> points st' f i v.
  Proof.
    intros He (k & H1 & H2). exists k. split; [eapply R_ext; eassumption|].
    destruct (e_globals _ _ He) as [m ->]. apply nth_error_app_l. assumption.
  Qed.

  (* pend: the literal whose VarRefs are being computed, if any *)
  Record Inv (pend : option fnid) (st : est) : Prop := {
    i_parents : parents_ok st;
    i_pend : forall f, pend = Some f -> exists p, assocn (parents st) f = Some (Some p);
    i_varrefs : forall f l, assocn (varrefs st) f = Some l -> (f < nextfn st)%nat;
    i_complete : forall f, (f < nextfn st)%nat -> Some f <> pend -> complete st f;
    i_refs : forall f v i, In ((f, v), i) (refs st) ->
                           (f < nextfn st)%nat /\ (Some f <> pend -> points st f i v);
    i_names : NoDup (map g_name (globals st));
    i_globals : forall g, In g (globals st) -> g = global_of (g_name g);
    i_tops : forall k g, nth_error (globals st) k = Some g ->
                         exists f, is_top (parents st) f = true /\ In ((f, g_name g), k) (refs st)
  }.

  Definition env_ok (st : est) (cur : fnid) (v : var) : Prop :=
    is_top (parents st) cur = true \/ ref_lookup (refs st) cur v <> None.

  Lemma env_ok_ext st st' cur v : ext st st' -> env_ok st cur v -> env_ok st' cur v.
  Proof.
    intros He [H|H]; [left; eapply is_top_ext; eassumption|right; apply (e_lookup _ _ He); assumption].
  Qed.

  Lemma is_top_parent ps f : is_top ps f = true <-> assocn ps f = Some None.
  Proof.
    unfold is_top. destruct (assocn ps f) as [[p|]|]; split; congruence.
  Qed.

  (* ---------- predefVarIndex ---------- *)

  Lemma pvi_spec pend st cur v pkg st' i :
    pkg = main_pkg -> Inv pend st -> (cur < nextfn st)%nat -> Some cur <> pend ->
    env_ok st cur v ->
    predef_var_index true decls st cur v pkg = (st', i) ->
    Inv pend st' /\ ext st st' /\ points st' cur i v /\
    parents st' = parents st /\ varrefs st' = varrefs st /\ sites st' = sites st /\ nextfn st' = nextfn st /\
    (forall g, In g (globals st') -> In g (globals st) \/ g_name g = v) /\
    (forall f u j, In ((f, u), j) (refs st') -> In ((f, u), j) (refs st) \/ f = cur).
  Proof.
    intros -> HI Hcur Hpend Henv E. unfold predef_var_index in E.
    destruct (ref_lookup (refs st) cur v) as [i0|] eqn:El.
    { injection E as <- <-. apply ref_lookup_In in El.
      destruct (i_refs _ _ HI _ _ _ El) as [_ Hp].
      split; [assumption|]. split; [apply ext_refl|]. split; [auto|].
      repeat (split; [reflexivity|]). split; intros; left; assumption. }
    destruct Henv as [Htop|Hne]; [|congruence].
    apply is_top_parent in Htop.
    destruct (find_top (parents st) (refs st) v) as [i0|] eqn:Ef.
    { injection E as <- <-. apply find_top_Some in Ef. destruct Ef as (f & Hf & Hin).
      apply is_top_parent in Hf.
      destruct (i_refs _ _ HI _ _ _ Hin) as [Hlt Hp].
      assert (Some f <> pend) as Hfp.
      { intros Heq. destruct (i_pend _ _ HI f (eq_sym Heq)) as [p Hpp]. congruence. }
      split; [assumption|]. split; [apply ext_refl|]. split.
      { destruct (Hp Hfp) as (k & HR & Hn). apply (R_top_inv _ _ _ _ Hf) in HR. subst k.
        exists i0. split; [apply R_top; assumption|assumption]. }
      repeat (split; [reflexivity|]). split; intros; left; assumption. }
    injection E as <- <-.
    set (gnew := mkglobal main_pkg v (d_type (decl_of decls v)) (d_zero (decl_of decls v)) (d_addr (decl_of decls v))).
    change gnew with (global_of v).
    set (st' := mkest (globals st ++ [global_of v]) (((cur, v), length (globals st)) :: refs st)
                      (parents st) (varrefs st) (sites st) (nextfn st)).
    assert (ext st st') as He.
    { constructor; cbn [st' globals parents varrefs refs sites nextfn]; auto using incl_refl, incl_tl.
      - eexists. reflexivity.
      - intros f u H. destruct (ref_lookup (((cur, v), length (globals st)) :: refs st) f u) eqn:E2; [discriminate|].
        cbn [ref_lookup] in E2. destruct (Nat.eqb cur f && bytes_eqb v u); [discriminate|congruence]. }
    assert (~ In v (map g_name (globals st))) as Hfresh.
    { intros Hin. apply in_map_iff in Hin. destruct Hin as (g & Hg & Hin).
      apply In_nth_error in Hin. destruct Hin as [k Hk].
      destruct (i_tops _ _ HI _ _ Hk) as (f & Hf & Hfin). rewrite Hg in Hfin.
      pose proof (find_top_None _ _ _ Ef _ _ Hfin). congruence. }
    assert (points st' cur (length (globals st)) v) as Hpt.
    { exists (length (globals st)). split; [apply R_top; exact Htop|].
      cbn [st' globals]. rewrite nth_error_app2 by lia. rewrite Nat.sub_diag. reflexivity. }
    split; [|split; [exact He|split; [exact Hpt|repeat (split; [reflexivity|]); split]]].
    - constructor; cbn [st' globals parents varrefs refs sites nextfn].
      + exact (i_parents _ _ HI).
      + exact (i_pend _ _ HI).
      + exact (i_varrefs _ _ HI).
      + exact (i_complete _ _ HI).
      + intros f u j [Heq|Hin].
        * injection Heq as <- <- <-. split; [assumption|]. intros _. exact Hpt.
        * destruct (i_refs _ _ HI _ _ _ Hin) as [H1 H2]. split; [assumption|].
          intros Hf. eapply points_ext; [exact He|auto].
      + rewrite map_app. cbn [map g_name global_of]. apply NoDup_app_iff_local; [exact (i_names _ _ HI)|exact Hfresh].
      + intros g Hin. apply in_app_or in Hin. destruct Hin as [Hin|[<-|[]]]; [apply (i_globals _ _ HI); assumption|reflexivity].
      + intros k g Hk. destruct (Nat.lt_ge_cases k (length (globals st))) as [Hlt|Hge].
        * rewrite nth_error_app1 in Hk by assumption.
          destruct (i_tops _ _ HI _ _ Hk) as (f & Hf & Hfin). exists f. split; [assumption|right; assumption].
        * rewrite nth_error_app2 in Hk by assumption.
          destruct (k - length (globals st))%nat as [|m] eqn:Ek; [|destruct m; discriminate].
          injection Hk as <-. exists cur. split; [apply is_top_parent; assumption|]. left.
          cbn [g_name global_of]. f_equal. lia.
    - intros g Hin. cbn [st' globals] in Hin. apply in_app_or in Hin.
      destruct Hin as [Hin|[<-|[]]]; [left; assumption|right; reflexivity].
    - intros f u j [Heq|Hin]; [right; congruence|left; assumption].
  Qed.

  (* ---------- new functions ---------- *)

  Lemma assocn_cons_other {A} (l : list (nat * A)) k v x : k <> x -> assocn ((k, v) :: l) x = assocn l x.
  Proof. intros H. cbn [assocn]. destruct (Nat.eqb_spec k x); [contradiction|reflexivity]. Qed.

  Lemma assocn_cons_same {A} (l : list (nat * A)) k v : assocn ((k, v) :: l) k = Some v.
  Proof. cbn [assocn]. rewrite Nat.eqb_refl. reflexivity. Qed.

  Lemma new_fn_ext st par st' f : parents_ok st -> new_fn st par = (st', f) -> ext st st'.
  Proof.
    intros Hok E. unfold new_fn in E. injection E as <- <-.
    constructor; cbn [globals parents varrefs refs sites nextfn]; auto using incl_refl.
    - exists []. rewrite app_nil_r. reflexivity.
    - intros f H. apply assocn_cons_other. destruct (assocn (parents st) f) as [op|] eqn:E; [|congruence].
      destruct (Hok _ _ E) as [Hlt _]. lia.
  Qed.

  Lemma new_fn_Inv st par st' f :
    Inv None st -> (forall p, par = Some p -> (p < nextfn st)%nat) ->
    new_fn st par = (st', f) ->
    f = nextfn st /\ nextfn st' = S f /\ refs st' = refs st /\ globals st' = globals st /\
    sites st' = sites st /\ varrefs st' = varrefs st /\
    assocn (parents st') f = Some par /\ assocn (varrefs st') f = None /\
    Inv (match par with Some _ => Some f | None => None end) st'.
  Proof.
    intros HI Hpar E. pose proof (new_fn_ext _ _ _ _ (i_parents _ _ HI) E) as He.
    unfold new_fn in E. injection E as <- <-.
    assert (assocn (varrefs st) (nextfn st) = None) as Hvn.
    { destruct (assocn (varrefs st) (nextfn st)) as [l|] eqn:Ev; [|reflexivity].
      exfalso. pose proof (i_varrefs _ _ HI _ _ Ev). lia. }
    repeat (split; [reflexivity|]).
    split; [apply assocn_cons_same|]. split; [exact Hvn|].
    set (st' := mkest (globals st) (refs st) ((nextfn st, par) :: parents st) (varrefs st) (sites st) (S (nextfn st))) in *.
    constructor; subst st'; cbn [globals parents varrefs refs sites nextfn].
    - unfold parents_ok. cbn [parents nextfn]. intros f op H. cbn [assocn] in H. destruct (Nat.eqb_spec (nextfn st) f) as [<-|Hne].
      + injection H as <-. split; [lia|]. intros p Hp. apply Hpar. assumption.
      + destruct (i_parents _ _ HI _ _ H) as [H1 H2]. split; [lia|assumption].
    - intros f Hf. destruct par as [p|]; [|discriminate]. injection Hf as <-. exists p. apply assocn_cons_same.
    - intros f l H. pose proof (i_varrefs _ _ HI _ _ H). lia.
    - unfold complete. cbn [parents varrefs nextfn]. intros f Hf Hp. destruct (Nat.eq_dec f (nextfn st)) as [->|Hne].
      + destruct par as [p|]; [exfalso; apply Hp; reflexivity|]. left. apply assocn_cons_same.
      + assert (f < nextfn st)%nat as Hlt by lia.
        destruct (i_complete _ _ HI f Hlt) as [Hc|(p & l & Hc1 & Hc2)]; [discriminate| |].
        * left. rewrite assocn_cons_other by lia. assumption.
        * right. exists p, l. rewrite assocn_cons_other by lia. auto.
    - intros f v i Hin. destruct (i_refs _ _ HI _ _ _ Hin) as [H1 H2]. split; [lia|].
      intros _. eapply points_ext; [exact He|]. apply H2. discriminate.
    - exact (i_names _ _ HI).
    - exact (i_globals _ _ HI).
    - intros k g Hk. destruct (i_tops _ _ HI _ _ Hk) as (f & Hf & Hin). exists f. split; [|assumption].
      apply (is_top_ext _ _ _ He Hf).
  Qed.

  (* ---------- setFunctionVarRefs ---------- *)

  Lemma set_ref_ext st f v i : ext st (set_ref st f v i).
  Proof.
    constructor; cbn [set_ref globals parents varrefs refs sites nextfn]; auto using incl_refl, incl_tl.
    - exists []. rewrite app_nil_r. reflexivity.
    - intros g u H. cbn [ref_lookup]. destruct (Nat.eqb f g && bytes_eqb v u); [discriminate|assumption].
  Qed.

  Lemma nth_error_snoc_lt {A} (l : list A) x j : (j < length l)%nat -> nth_error (l ++ [x]) j = nth_error l j.
  Proof. intros H. apply nth_error_app1. assumption. Qed.

  Lemma sfvr_spec cur f : forall ups st i acc st' l,
    Inv (Some f) st -> (cur < f)%nat -> (f < nextfn st)%nat ->
    assocn (parents st) f = Some (Some cur) ->
    length acc = i ->
    (forall u j, In ((f, u), j) (refs st) ->
                 (j < i)%nat /\ exists idx, nth_error (rev acc) j = Some (Some idx) /\ points st cur idx u) ->
    (forall u, In u (natives ups) -> env_ok st cur u) ->
    NoDup (natives ups) -> (forall u j, In u (natives ups) -> ~ In ((f, u), j) (refs st)) ->
    sfvr_loop true decls st cur f ups i acc = (st', l) ->
    Inv (Some f) st' /\ ext st st' /\
    parents st' = parents st /\ varrefs st' = varrefs st /\ sites st' = sites st /\ nextfn st' = nextfn st /\
    (forall u j, In ((f, u), j) (refs st') ->
                 exists idx, nth_error l j = Some (Some idx) /\ points st' cur idx u) /\
    (forall u, In u (natives ups) -> ref_lookup (refs st') f u <> None) /\
    (forall g, In g (globals st') -> In g (globals st) \/ In (g_name g) (natives ups)) /\
    (forall u, In u (natives ups) -> In u (map g_name (globals st'))).
  Proof.
    induction ups as [|[v|] ups IH]; intros st i acc st' l HI Hcf Hf Hpar Hlen Hent Henv Hnd Hfresh E.
    - cbn [sfvr_loop] in E. injection E as <- <-.
      split; [assumption|]. split; [apply ext_refl|]. repeat (split; [reflexivity|]).
      split; [|split; [intros u []|split; [intros g Hg; left; assumption|intros u []]]].
      intros u j Hin. destruct (Hent _ _ Hin) as [_ H]. exact H.
    - cbn [sfvr_loop] in E.
      destruct (predef_var_index true decls st cur v gen_upvar_NativePkg) as [st1 idx] eqn:Ep.
      assert (gen_upvar_NativePkg = main_pkg) as Hpkg by (apply fact_pkgs).
      assert (Some cur <> Some f) as Hcp by (intros H; injection H as H; lia).
      assert (cur < nextfn st)%nat as Hcn by lia.
      assert (env_ok st cur v) as Hev by (apply Henv; left; reflexivity).
      destruct (pvi_spec _ _ _ _ _ _ _ Hpkg HI Hcn Hcp Hev Ep)
        as (HI1 & He1 & Hpt & Hp1 & Hv1 & Hs1 & Hn1 & Hg1 & Hr1).
      set (st2 := set_ref st1 f v i) in *.
      assert (ext st1 st2) as He2 by apply set_ref_ext.
      assert (Inv (Some f) st2) as HI2.
      { destruct HI1 as [A1 A2 A2' A3 A4 A5 A6 A7].
        constructor; cbn [st2 set_ref globals parents varrefs refs sites nextfn]; try assumption.
        - intros g u j [Heq|Hin].
          + injection Heq as <- <- <-. split; [lia|]. intros Hx. congruence.
          + destruct (A4 _ _ _ Hin) as [H1 H2]. split; [assumption|]. intros Hx.
            eapply points_ext; [exact He2|auto].
        - intros k g Hk. destruct (A7 _ _ Hk) as (g0 & H1 & H2). exists g0. split; [assumption|right; assumption]. }
      cbn [natives flat_map app] in Hnd, Henv, Hfresh. inversion Hnd as [|? ? Hnv Hnd']; subst.
      specialize (IH st2 (S (length acc)) (Some idx :: acc) st' l HI2 Hcf).
      assert (f < nextfn st2)%nat as Hf2 by (cbn [st2 set_ref nextfn]; lia).
      assert (assocn (parents st2) f = Some (Some cur)) as Hpar2 by (cbn [st2 set_ref parents]; congruence).
      destruct (IH Hf2 Hpar2 eq_refl) as (HI' & He' & Hp' & Hv' & Hs' & Hn' & Hent' & Hlk' & Hg' & Hnm'); try assumption.
      + (* entries of f *)
        intros u j [Heq|Hin].
        * injection Heq as <- <-. split; [lia|]. exists idx. cbn [rev].
          split; [rewrite nth_error_app2 by (rewrite rev_length; lia); rewrite rev_length, Nat.sub_diag; reflexivity|].
          eapply points_ext; eassumption.
        * destruct (Hr1 _ _ _ Hin) as [Hin0|Hx]; [|lia].
          destruct (Hent _ _ Hin0) as [Hj (idx0 & Hn0 & Hp0)]. split; [lia|]. exists idx0. cbn [rev].
          split; [rewrite nth_error_snoc_lt by (rewrite rev_length; lia); assumption|].
          eapply points_ext; [exact He2|]. eapply points_ext; eassumption.
      + intros u Hu. eapply env_ok_ext; [exact He2|]. eapply env_ok_ext; [exact He1|]. apply Henv. right. assumption.
      + intros u j Hu [Heq|Hin].
        * injection Heq as -> _. contradiction.
        * destruct (Hr1 _ _ _ Hin) as [Hin0|Hx]; [|lia]. eapply Hfresh; [right; exact Hu|exact Hin0].
      + split; [assumption|]. split; [eapply ext_trans; [exact He1|eapply ext_trans; eassumption]|].
        split; [cbn [st2 set_ref parents] in Hp'; congruence|].
        split; [cbn [st2 set_ref varrefs] in Hv'; congruence|].
        split; [cbn [st2 set_ref sites] in Hs'; congruence|].
        split; [cbn [st2 set_ref nextfn] in Hn'; congruence|].
        split; [assumption|]. split; [|split].
        * intros u [<-|Hu]; [|auto]. apply (e_lookup _ _ He').
          cbn [st2 set_ref refs]. rewrite ref_lookup_cons_same. discriminate.
        * intros g Hg. destruct (Hg' _ Hg) as [Hg2|Hg2]; [|right; right; assumption].
          cbn [st2 set_ref globals] in Hg2. destruct (Hg1 _ Hg2) as [Hg3|Hg3]; [left; assumption|right; left; auto].
        * intros u [<-|Hu]; [|auto].
          destruct Hpt as (k & _ & Hk). apply nth_error_In in Hk.
          destruct (e_globals _ _ He') as [more Hm]. rewrite Hm. rewrite map_app. apply in_or_app. left.
          cbn [st2 set_ref globals]. apply in_map_iff. exists (global_of v). split; [reflexivity|assumption].
    - cbn [sfvr_loop] in E. cbn [natives flat_map app] in Hnd, Henv, Hfresh. subst i.
      eapply (IH st (S (length acc)) (None :: acc)); try eassumption; try reflexivity.
      intros u j Hin. destruct (Hent _ _ Hin) as [Hj (idx0 & Hn0 & Hp0)]. split; [lia|]. exists idx0. cbn [rev].
      split; [rewrite nth_error_snoc_lt by (rewrite rev_length; lia); assumption|assumption].
  Qed.

  Lemma sfvr_done st cur f ups st' :
    Inv (Some f) st -> (cur < f)%nat -> (f < nextfn st)%nat ->
    assocn (parents st) f = Some (Some cur) -> assocn (varrefs st) f = None ->
    (forall u j, ~ In ((f, u), j) (refs st)) ->
    (forall u, In u (natives ups) -> env_ok st cur u) -> NoDup (natives ups) ->
    set_function_var_refs true decls st cur f ups = st' ->
    Inv None st' /\ ext st st' /\ parents st' = parents st /\ sites st' = sites st /\ nextfn st' = nextfn st /\
    (forall u, In u (natives ups) -> ref_lookup (refs st') f u <> None) /\
    (forall g, In g (globals st') -> In g (globals st) \/ In (g_name g) (natives ups)) /\
    (forall u, In u (natives ups) -> In u (map g_name (globals st'))).
  Proof.
    intros HI Hcf Hf Hpar Hvn Hnone Henv Hnd E. unfold set_function_var_refs in E.
    destruct (sfvr_loop true decls st cur f ups 0 []) as [st1 l] eqn:El.
    assert (forall u j, In ((f, u), j) (refs st) ->
              (j < 0)%nat /\ exists idx, nth_error (rev (@nil (option nat))) j = Some (Some idx) /\ points st cur idx u) as Hent0.
    { intros u j Hin. exfalso. eapply Hnone. eassumption. }
    assert (forall u j, In u (natives ups) -> ~ In ((f, u), j) (refs st)) as Hfresh by (intros; apply Hnone).
    destruct (sfvr_spec cur f ups st 0%nat [] st1 l HI Hcf Hf Hpar eq_refl Hent0 Henv Hnd Hfresh El)
      as (HI1 & He1 & Hp1 & Hv1 & Hs1 & Hn1 & Hent & Hlk & Hg & Hnm).
    subst st'.
    set (st2 := mkest (globals st1) (refs st1) (parents st1) ((f, l) :: varrefs st1) (sites st1) (nextfn st1)).
    assert (assocn (varrefs st1) f = None) as Hvn1 by congruence.
    assert (ext st1 st2) as He2.
    { constructor; cbn [globals parents varrefs refs sites nextfn]; auto using incl_refl.
      - exists []. rewrite app_nil_r. reflexivity.
      - intros g H. apply assocn_cons_other. congruence. }
    split; [|split; [eapply ext_trans; eassumption|
      split; [exact Hp1|split; [exact Hs1|split; [exact Hn1|split; [exact Hlk|split; [exact Hg|exact Hnm]]]]]]].
    destruct HI1 as [A1 A2 A2' A3 A4 A5 A6 A7]. rewrite <- Hp1 in Hpar.
    subst st2. constructor.
    - exact A1.
    - discriminate.
    - cbn [varrefs nextfn]. intros g l0 H. cbn [assocn] in H. destruct (Nat.eqb_spec f g) as [<-|Hne]; [lia|eauto].
    - unfold complete. cbn [parents varrefs nextfn]. intros g Hglt _.
      destruct (Nat.eq_dec g f) as [->|Hne].
      + right. exists cur, l. split; [exact Hpar|apply assocn_cons_same].
      + assert (Some g <> Some f) as Hgf by congruence.
        destruct (A3 g Hglt Hgf) as [Hc|(p & l0 & Hc1 & Hc2)]; [left; assumption|].
        right. exists p, l0. rewrite assocn_cons_other by congruence. auto.
    - cbn [refs nextfn]. intros g v i Hin. destruct (A4 _ _ _ Hin) as [H1 H2]. split; [assumption|]. intros _.
      destruct (Nat.eq_dec g f) as [->|Hne].
      + destruct (Hent _ _ Hin) as (idx & Hn & (k & HR & Hk)). exists k. split; [|exact Hk].
        eapply R_lit with (p := cur) (l := l) (j := idx).
        * cbn [parents]. exact Hpar.
        * cbn [varrefs]. apply assocn_cons_same.
        * exact Hn.
        * eapply R_ext; eassumption.
      + eapply points_ext; [exact He2|]. apply H2. congruence.
    - exact A5.
    - exact A6.
    - exact A7.
  Qed.

  (* ---------- emission of items ---------- *)

  Definition site_ok (st : est) (s : N) (v : var) : Prop :=
    exists f i, In (s, (f, i)) (sites st) /\ points st f i v.

  Lemma site_ok_ext st st' s v : ext st st' -> site_ok st s v -> site_ok st' s v.
  Proof.
    intros He (f & i & H1 & H2). exists f, i. split; [apply (e_sites _ _ He); assumption|eapply points_ext; eassumption].
  Qed.

  Definition env_match (st : est) (cur : fnid) (env : option (list var)) : Prop :=
    match env with
    | None => is_top (parents st) cur = true
    | Some us => forall u, In u us -> ref_lookup (refs st) cur u <> None
    end.

  Lemma env_match_ext st st' cur env : ext st st' -> env_match st cur env -> env_match st' cur env.
  Proof.
    intros He. destruct env as [us|]; cbn [env_match].
    - intros H u Hu. apply (e_lookup _ _ He). auto.
    - apply is_top_ext. assumption.
  Qed.

  Definition emit_post (st st' : est) (ss : list (N * var)) (vs : list var) : Prop :=
    Inv None st' /\ ext st st' /\
    (forall s v, In (s, v) ss -> site_ok st' s v) /\
    (forall g, In g (globals st') -> In g (globals st) \/ In (g_name g) vs) /\
    (forall v, In v vs -> In v (map g_name (globals st'))) /\
    map fst (sites st') = rev (map fst ss) ++ map fst (sites st).

  Lemma emit_post_refl st : Inv None st -> emit_post st st [] [].
  Proof.
    intros HI. split; [assumption|]. split; [apply ext_refl|]. split; [intros s v []|].
    split; [intros g Hg; left; assumption|]. split; [intros v []|reflexivity].
  Qed.

  Lemma names_ext st st' v : ext st st' -> In v (map g_name (globals st)) -> In v (map g_name (globals st')).
  Proof.
    intros He H. destruct (e_globals _ _ He) as [m ->]. rewrite map_app. apply in_or_app. left. assumption.
  Qed.

  Lemma emit_post_trans a b c s1 v1 s2 v2 :
    emit_post a b s1 v1 -> emit_post b c s2 v2 -> emit_post a c (s1 ++ s2) (v1 ++ v2).
  Proof.
    intros (I1 & E1 & S1 & G1 & N1 & M1) (I2 & E2 & S2 & G2 & N2 & M2).
    split; [assumption|]. split; [eapply ext_trans; eassumption|]. split; [|split; [|split]].
    - intros s v Hin. apply in_app_or in Hin. destruct Hin as [Hin|Hin]; [eapply site_ok_ext; eauto|auto].
    - intros g Hg. destruct (G2 _ Hg) as [Hg1|Hg1]; [|right; apply in_or_app; right; assumption].
      destruct (G1 _ Hg1) as [Hg0|Hg0]; [left; assumption|right; apply in_or_app; left; assumption].
    - intros v Hin. apply in_app_or in Hin. destruct Hin as [Hin|Hin]; [eapply names_ext; eauto|auto].
    - rewrite M2, M1, map_app, rev_app_distr, app_assoc. reflexivity.
  Qed.

  Definition item_spec (it : item) : Prop :=
    forall cur st env,
      Inv None st -> (cur < nextfn st)%nat -> wf_item decls env it -> env_match st cur env ->
      emit_post st (emit_item true decls cur st it) (item_sites it) (item_vars it).

  Lemma fold_spec body : Forall item_spec body ->
    forall cur env st,
      Inv None st -> (cur < nextfn st)%nat -> wf_body decls env body -> env_match st cur env ->
      emit_post st (fold_left (emit_item true decls cur) body st) (flat_map item_sites body) (flat_map item_vars body).
  Proof.
    induction 1 as [|it body Hit _ IH]; intros cur env st HI Hcur Hwf Hem.
    - cbn. apply emit_post_refl. assumption.
    - inversion Hwf as [|? ? Hw1 Hw2]; subst. cbn [fold_left flat_map].
      pose proof (Hit cur st env HI Hcur Hw1 Hem) as Hp1.
      destruct Hp1 as (I1 & E1 & Hrest).
      eapply emit_post_trans; [split; [exact I1|split; [exact E1|exact Hrest]]|].
      apply (IH cur env); [assumption|pose proof (e_next _ _ E1); lia|assumption|eapply env_match_ext; eassumption].
  Qed.

  Lemma Inv_sites pend st s f i : Inv pend st -> Inv pend (add_site st s f i).
  Proof.
    intros [A1 A2 A2' A3 A4 A5 A6 A7].
    assert (ext st (add_site st s f i)) as He.
    { constructor; cbn [add_site globals parents varrefs refs sites nextfn]; auto using incl_refl, incl_tl.
      exists []. rewrite app_nil_r. reflexivity. }
    constructor; try assumption.
    intros g v j Hin. destruct (A4 _ _ _ Hin) as [H1 H2]. split; [assumption|].
    intros Hp. eapply points_ext; [exact He|auto].
  Qed.

  Lemma item_spec_all it : item_spec it.
  Proof.
    induction it as [s v|ups body IH] using item_ind'; intros cur st env HI Hcur Hwf Hem.
    - (* a reference *)
      cbn [emit_item item_sites item_vars]. cbn [wf_item] in Hwf. destruct Hwf as [Hd Hin].
      destruct (predef_var_index true decls st cur v gen_globals_PackageName) as [st1 i] eqn:Ep.
      assert (env_ok st cur v) as Hev.
      { destruct env as [us|]; [right; apply Hem; assumption|left; exact Hem]. }
      assert (Some cur <> None) as Hcp by discriminate.
      destruct (pvi_spec None st cur v _ st1 i eq_refl HI Hcur Hcp Hev Ep)
        as (HI1 & He1 & Hpt & Hp1 & Hv1 & Hs1 & Hn1 & Hg1 & Hr1).
      assert (ext st1 (add_site st1 s cur i)) as He2.
      { constructor; cbn [add_site globals parents varrefs refs sites nextfn]; auto using incl_refl, incl_tl.
        exists []. rewrite app_nil_r. reflexivity. }
      split; [apply Inv_sites; assumption|]. split; [eapply ext_trans; eassumption|].
      split; [|split; [|split]].
      + intros s' v' [Heq|[]]. injection Heq as <- <-. exists cur, i. split; [left; reflexivity|].
        eapply points_ext; eassumption.
      + intros g Hg. cbn [add_site globals] in Hg. destruct (Hg1 _ Hg) as [H|H]; [left; assumption|right; left; auto].
      + intros v' [<-|[]]. cbn [add_site globals]. destruct Hpt as (k & _ & Hk). apply nth_error_In in Hk.
        apply in_map_iff. exists (global_of v). split; [reflexivity|assumption].
      + cbn [add_site sites map fst rev app]. rewrite Hs1. reflexivity.
    - (* a function literal *)
      cbn [item_sites item_vars].
      change (emit_item true decls cur st (ILit ups body))
        with (let '(st1, f) := new_fn st (Some cur) in
              fold_left (emit_item true decls f) body (set_function_var_refs true decls st1 cur f ups)).
      destruct (new_fn st (Some cur)) as [st1 f] eqn:En.
      assert (forall p, Some cur = Some p -> (p < nextfn st)%nat) as Hparlt by (intros p Hp; injection Hp as <-; assumption).
      destruct (new_fn_Inv st (Some cur) st1 f HI Hparlt En)
        as (Hf & Hn1 & Hr1 & Hg1 & Hs1 & Hv1 & Hpf & Hvf & HI1).
      pose proof (new_fn_ext _ _ _ _ (i_parents _ _ HI) En) as He1.
      cbn [wf_item] in Hwf. destruct Hwf as (Hnd & Hups & Hbody).
      assert (wf_body decls (Some (natives ups)) body) as Hwb.
      { unfold wf_body. clear - Hbody. induction body as [|x r IHr]; constructor; [apply Hbody|apply IHr; apply Hbody]. }
      set (st2 := set_function_var_refs true decls st1 cur f ups).
      assert (forall u j, ~ In ((f, u), j) (refs st1)) as Hnone.
      { intros u j Hin. rewrite Hr1 in Hin. destruct (i_refs _ _ HI _ _ _ Hin) as [Hlt _]. lia. }
      assert (forall u, In u (natives ups) -> env_ok st1 cur u) as Henv.
      { intros u Hu. destruct (Hups u Hu) as [_ Hin]. destruct env as [us|].
        - right. rewrite Hr1. apply Hem. assumption.
        - left. eapply is_top_ext; [exact He1|exact Hem]. }
      destruct (sfvr_done st1 cur f ups st2 HI1) as (HI2 & He2 & Hp2 & Hs2 & Hn2 & Hlk & Hg2 & Hnm2);
        try assumption; try lia; try reflexivity.
      assert (emit_post st st2 [] (natives ups)) as Hpost1.
      { split; [assumption|]. split; [eapply ext_trans; eassumption|]. split; [intros s v []|].
        split; [|split].
        - intros g Hg. destruct (Hg2 _ Hg) as [H|H]; [left; rewrite <- Hg1; assumption|right; assumption].
        - assumption.
        - cbn [map rev app]. rewrite Hs2, Hs1. reflexivity. }
      change (item_sites (ILit ups body)) with (flat_map item_sites body).
      change (flat_map item_sites body) with ([] ++ flat_map item_sites body).
      eapply emit_post_trans; [exact Hpost1|].
      apply (fold_spec body IH f (Some (natives ups))); [assumption|lia|assumption|exact Hlk].
  Qed.

  (* ---------- package-level functions and the program ---------- *)

  Lemma top_spec body st :
    Inv None st -> wf_body decls None body ->
    emit_post st (emit_top true decls st body) (flat_map item_sites body) (flat_map item_vars body).
  Proof.
    intros HI Hwf. unfold emit_top.
    destruct (new_fn st None) as [st1 f] eqn:En.
    assert (forall p, @None fnid = Some p -> (p < nextfn st)%nat) as Hparlt by discriminate.
    destruct (new_fn_Inv st None st1 f HI Hparlt En) as (Hf & Hn1 & Hr1 & Hg1 & Hs1 & Hv1 & Hpf & Hvf & HI1).
    pose proof (new_fn_ext _ _ _ _ (i_parents _ _ HI) En) as He1.
    assert (emit_post st st1 [] []) as Hp0.
    { split; [assumption|]. split; [assumption|]. split; [intros s v []|].
      split; [intros g Hg; left; rewrite <- Hg1; assumption|]. split; [intros v []|].
      cbn [map rev app]. rewrite Hs1. reflexivity. }
    change (flat_map item_sites body) with ([] ++ flat_map item_sites body).
    change (flat_map item_vars body) with ([] ++ flat_map item_vars body).
    eapply emit_post_trans; [exact Hp0|].
    apply (fold_spec body) with (env := None); try assumption.
    - apply Forall_forall. intros it _. apply item_spec_all.
    - lia.
    - cbn [env_match]. apply is_top_parent. assumption.
  Qed.

  Lemma prog_spec tops : forall st,
    Inv None st -> wf_prog decls tops ->
    emit_post st (fold_left (emit_top true decls) tops st) (prog_sites tops) (prog_vars tops).
  Proof.
    induction tops as [|body tops IH]; intros st HI Hwf.
    - apply emit_post_refl. assumption.
    - inversion Hwf as [|? ? Hw1 Hw2]; subst. cbn [fold_left]. unfold prog_sites, prog_vars. cbn [flat_map].
      pose proof (top_spec body st HI Hw1) as Hp1.
      eapply emit_post_trans; [exact Hp1|]. apply IH; [apply Hp1|assumption].
  Qed.

  Lemma Inv_init : Inv None init_est.
  Proof.
    constructor; cbn.
    - intros f op H. discriminate.
    - discriminate.
    - intros f l H. discriminate.
    - intros f H. lia.
    - intros f v i [].
    - constructor.
    - intros g [].
    - intros k g H. destruct k; discriminate.
  Qed.

  (* Every reference site designates the global of its variable; there is one
     global per used variable, in the package of the globals. *)
  Theorem emit_correct tops :
    wf_prog decls tops -> NoDup (map fst (prog_sites tops)) ->
    let st := emit_prog true decls tops in
    (forall s v, In (s, v) (prog_sites tops) ->
                 exists k, resolve_site st s = Some k /\ nth_error (globals st) k = Some (global_of v)) /\
    NoDup (map g_name (globals st)) /\
    (forall g, In g (globals st) -> g = global_of (g_name g)) /\
    (forall v, In v (map g_name (globals st)) <-> In v (prog_vars tops)).
  Proof.
    intros Hwf Hnd st.
    destruct (prog_spec tops init_est Inv_init Hwf) as (HI & He & Hs & Hg & Hn & Hm).
    fold (emit_prog true decls tops) in HI, He, Hs, Hg, Hn, Hm. fold st in HI, He, Hs, Hg, Hn, Hm.
    cbn [init_est sites map app globals] in Hm, Hg. rewrite app_nil_r in Hm.
    split; [|split; [exact (i_names _ _ HI)|split; [exact (i_globals _ _ HI)|]]].
    - intros s v Hin. destruct (Hs s v Hin) as (f & i & Hsi & (k & HR & Hk)).
      exists k. split; [|exact Hk]. unfold resolve_site.
      rewrite (assoc_get_NoDup (sites st) s (f, i)); [|rewrite Hm; apply NoDup_rev; exact Hnd|exact Hsi].
      apply R_resolve; [exact (i_parents _ _ HI)|exact HR|].
      assert (f < nextfn st)%nat; [|lia].
      inversion HR as [? ? Hp|? ? ? ? ? ? Hp]; subst; apply (i_parents _ _ HI _ _ Hp).
    - intros v. split; [|apply Hn]. intros Hin. apply in_map_iff in Hin. destruct Hin as (g & <- & Hin).
      destruct (Hg g Hin) as [[]|H]. exact H.
  Qed.
End Emission.
