(* C12: the frame machine refines GoSpec (simulation).  For every action tree
   in which `recover down` occurs only as the whole body of a deferred
   function (what the emitter produces for `defer recover()`) and every
   panicking instruction has an entry in the debug table of its function, the
   machine ends with the result of GoSpec: same trace, same values of
   recover(), same outcome of Run with the same chain (messages, recovered
   flags, lines).  The proof follows the recursion of GoSpec: one lemma per
   function of GoSpec, each saying to which machine state the run of the
   corresponding piece leads.

   Correspondence of the two worlds.  Below the running activation the call
   stack of the VM is, per activation from the outermost to the innermost,
   its pending deferred frames followed by one control frame: started (it
   called the next activation), returned (it runs its deferred calls after a
   return), panicked / recovered (it runs them because of a panic, which the
   deferred call has not / has recovered).  The chain of the VM, followed by
   the chains of the suspended VMs, is the list of panics of GoSpec; to every
   panicked or recovered frame, from the top, corresponds the next record that
   is not aborted (shape). *)
From Coq Require Import List NArith Bool Arith Lia.
Import ListNotations.
From Verif Require Import FramesM Frames_lifo.

(* ------------------------------------------------------------------ *)
(* The trees of the theorem                                             *)

Definition is_rec_down (b : list instr) : bool :=
  match b with
  | [IRecover true] => true
  | _ => false
  end.

Definition has_line (inf : list (nat * N)) (pc : nat) : bool :=
  match info_get inf pc with Some _ => true | None => false end.

(* inf: the debug table of the function the instruction belongs to; pc: its address *)
Fixpoint ok_instr (inf : list (nat * N)) (pc : nat) (i : instr) : bool :=
  match i with
  | IPanic _ | INat (NPanic _) => has_line inf pc
  | IRecover down => negb down
  | ICall b inf' | ICallback b inf' =>
      (fix all (l : list instr) (pc : nat) : bool :=
         match l with [] => true | x :: r => ok_instr inf' pc x && all r (S pc) end) b 0
  | IDeferFn b inf' =>
      is_rec_down b ||
      (fix all (l : list instr) (pc : nat) : bool :=
         match l with [] => true | x :: r => ok_instr inf' pc x && all r (S pc) end) b 0
  | _ => true
  end.

Definition ok_body (inf : list (nat * N)) : list instr -> nat -> bool :=
  fix all (l : list instr) (pc : nat) : bool :=
    match l with [] => true | x :: r => ok_instr inf pc x && all r (S pc) end.

Lemma ok_body_cons inf x r pc : ok_body inf (x :: r) pc = ok_instr inf pc x && ok_body inf r (S pc).
Proof. reflexivity. Qed.

Definition ok_fn (f : func) : bool := ok_body (finfo f) (fbody f) 0.

(* the trees of the theorem *)
Definition tree_ok (f : func) : bool := ok_fn f.

Lemma ok_instr_call inf pc b inf' : ok_instr inf pc (ICall b inf') = ok_fn (mkfunc b inf').
Proof. reflexivity. Qed.
Lemma ok_instr_callback inf pc b inf' : ok_instr inf pc (ICallback b inf') = ok_fn (mkfunc b inf').
Proof. reflexivity. Qed.
Lemma ok_instr_defer inf pc b inf' :
  ok_instr inf pc (IDeferFn b inf') = is_rec_down b || ok_fn (mkfunc b inf').
Proof. reflexivity. Qed.

Definition ok_callee (c : callee) : Prop :=
  match c with
  | CFn h => is_rec_down (fbody h) = true \/ ok_fn h = true
  | CNat _ => True
  | CNone => False
  end.

(* ------------------------------------------------------------------ *)
(* Records and chains                                                   *)

Definition gv (p : prec) : grec := mkgrec (pmsg p) (precovered p) (paborted p) (ppos p).

Definition ab (p : prec) : Prop := paborted p = true.

Definition set_recovered (p : prec) : prec := mkprec (pmsg p) true (paborted p) (ppos p) (pser p).

Definition abort_all (c : list prec) : list prec := map set_aborted c.

Lemma abort_all_app a b : abort_all (a ++ b) = abort_all a ++ abort_all b.
Proof. apply map_app. Qed.

Lemma abort_all_ab c : Forall ab c -> abort_all c = c.
Proof.
  induction 1 as [|p r Hp _ IH]; [reflexivity|]. simpl. rewrite IH. f_equal.
  destruct p. unfold ab in Hp. simpl in Hp. subst. reflexivity.
Qed.

Lemma abort_all_Forall c : Forall ab (abort_all c).
Proof. induction c; constructor; [reflexivity|assumption]. Qed.

Lemma drop_ab_app a b : Forall ab a -> drop_ab (a ++ b) = drop_ab b.
Proof. induction 1 as [|p r Hp _ IH]; [reflexivity|]. simpl. unfold ab in Hp. rewrite Hp. exact IH. Qed.

Lemma drop_aborted_app (a : list prec) l : Forall ab a -> drop_aborted (map gv a ++ l) = drop_aborted l.
Proof. induction 1 as [|p r Hp _ IH]; [reflexivity|]. simpl. unfold ab in Hp. rewrite Hp. exact IH. Qed.

Lemma drop_ab_live p r : paborted p = false -> drop_ab (p :: r) = p :: r.
Proof. intros H. simpl. rewrite H. reflexivity. Qed.

Lemma drop_aborted_live p r : gaborted p = false -> drop_aborted (p :: r) = p :: r.
Proof. intros H. simpl. rewrite H. reflexivity. Qed.

(* the first record, if any, is not aborted *)
Definition head_live (c : list prec) : Prop :=
  match c with [] => True | p :: _ => paborted p = false end.

Lemma drop_ab_head_live c : head_live c -> drop_ab c = c.
Proof. destruct c as [|p r]; [reflexivity|]. simpl. intros ->. reflexivity. Qed.

Lemma drop_aborted_head_live c : head_live c -> drop_aborted (map gv c) = map gv c.
Proof. destruct c as [|p r]; [reflexivity|]. simpl. intros ->. reflexivity. Qed.

Lemma mark_next_skip Z q r :
  Forall ab Z -> paborted q = false -> mark_next (Z ++ q :: r) = Some (Z ++ [set_aborted q], r).
Proof.
  intros HZ Hq. induction HZ as [|p Z Hp _ IH]; simpl.
  - rewrite Hq. reflexivity.
  - unfold ab in Hp. rewrite Hp, IH. reflexivity.
Qed.

Lemma mark_aborted_at (l1 : list grec) p l2 :
  mark_aborted (l1 ++ p :: l2) (length l1) = l1 ++ mkgrec (gmsg p) (grecovered p) true (gpos p) :: l2.
Proof. induction l1 as [|x l1 IH]; simpl; [reflexivity|]. rewrite IH. reflexivity. Qed.

Lemma gv_set_aborted q : gv (set_aborted q) = mkgrec (gmsg (gv q)) (grecovered (gv q)) true (gpos (gv q)).
Proof. reflexivity. Qed.

(* ------------------------------------------------------------------ *)
(* Frames                                                               *)

Definition ctl_frame (fr : frame) : Prop :=
  fstat fr = Started \/ fstat fr = Returned \/ fstat fr = Panicked \/ fstat fr = Recovered.

(* l: frames from the top; every panicked / recovered frame owns the next
   record that is not aborted, which is recovered iff the frame is, followed
   by aborted records *)
Fixpoint shape (l : list frame) (c : list prec) : Prop :=
  match l with
  | [] => c = []
  | fr :: r =>
      match fstat fr with
      | Panicked =>
          exists q A c', c = q :: A ++ c' /\ paborted q = false /\ precovered q = false /\ Forall ab A /\ shape r c'
      | Recovered =>
          exists q A c', c = q :: A ++ c' /\ paborted q = false /\ precovered q = true /\ Forall ab A /\ shape r c'
      | _ => shape r c
      end
  end.

Lemma shape_head_live l : forall c, shape l c -> head_live c.
Proof.
  induction l as [|fr r IH]; intros c H; simpl in H.
  - subst. exact I.
  - destruct (fstat fr); try (apply IH; exact H);
      destruct H as [q [A [c' [-> [Hq _]]]]]; exact Hq.
Qed.

Lemma shape_app l1 : forall l2 c,
  shape (l1 ++ l2) c <-> exists c1 c2, c = c1 ++ c2 /\ shape l1 c1 /\ shape l2 c2.
Proof.
  induction l1 as [|fr r IH]; intros l2 c; simpl.
  - split.
    + intros H. exists [], c. auto.
    + intros [c1 [c2 [-> [-> H]]]]. exact H.
  - destruct (fstat fr); try apply IH.
    + split.
      * intros [q [A [c' [-> [H1 [H2 [H3 H4]]]]]]]. apply IH in H4. destruct H4 as [c1 [c2 [-> [H5 H6]]]].
        exists (q :: A ++ c1), c2. split; [simpl; rewrite <- app_assoc; reflexivity|].
        split; [|exact H6]. exists q, A, c1. auto.
      * intros [c1 [c2 [-> [[q [A [c' [-> [H1 [H2 [H3 H4]]]]]]] H6]]]].
        exists q, A, (c' ++ c2). split; [simpl; rewrite <- app_assoc; reflexivity|].
        repeat split; try assumption. apply IH. exists c', c2. auto.
    + split.
      * intros [q [A [c' [-> [H1 [H2 [H3 H4]]]]]]]. apply IH in H4. destruct H4 as [c1 [c2 [-> [H5 H6]]]].
        exists (q :: A ++ c1), c2. split; [simpl; rewrite <- app_assoc; reflexivity|].
        split; [|exact H6]. exists q, A, c1. auto.
      * intros [c1 [c2 [-> [[q [A [c' [-> [H1 [H2 [H3 H4]]]]]]] H6]]]].
        exists q, A, (c' ++ c2). split; [simpl; rewrite <- app_assoc; reflexivity|].
        repeat split; try assumption. apply IH. exists c', c2. auto.
Qed.

Lemma shape_dfr ds : shape (rev (dfr ds)) [].
Proof.
  unfold dfr. rewrite <- map_rev, rev_involutive. induction ds; simpl; [reflexivity|assumption].
Qed.

(* deferred frames own no record *)
Lemma shape_skip_dfr base ds c : shape (rev (base ++ dfr ds)) c <-> shape (rev base) c.
Proof.
  rewrite rev_app_distr, shape_app. split.
  - intros [c1 [c2 [-> [H1 H2]]]].
    assert (c1 = []).
    { clear - H1. unfold dfr in H1. rewrite <- map_rev, rev_involutive in H1.
      induction ds; simpl in H1; [exact H1|auto]. }
    subst. exact H2.
  - intros H. exists [], c. split; [reflexivity|]. split; [apply shape_dfr|exact H].
Qed.

Lemma shape_snoc_plain base fr c :
  fstat fr <> Panicked -> fstat fr <> Recovered ->
  (shape (rev (base ++ [fr])) c <-> shape (rev base) c).
Proof.
  intros H1 H2. rewrite rev_app_distr. simpl. destruct (fstat fr); try reflexivity; contradiction.
Qed.

(* ------------------------------------------------------------------ *)
(* Results of steps                                                     *)

Definition sleads (x : sres) (t : state) : Prop :=
  match x with Next s => leads s t | Fin _ _ => False end.

(* s ends as x does *)
Definition leads_res (s : state) (x : sres) : Prop :=
  match x with
  | Next t => leads s t
  | Fin o tr => exists m, run m s = Some (o, rev tr)
  end.

Definition ends (s : state) (o : outcome) (tr : list event) : Prop := exists m, run m s = Some (o, rev tr).

Lemma step_leads_res t0 x : step t0 = x -> leads_res t0 x.
Proof.
  intros H. destruct x as [s|o tr]; simpl.
  - apply leads_step. exact H.
  - exists 1. simpl. rewrite H. reflexivity.
Qed.

Lemma leads_res_trans s t x : leads s t -> leads_res t x -> leads_res s x.
Proof.
  intros H1 H2. destruct x as [u|o tr]; simpl in *.
  - eapply leads_trans; eassumption.
  - destruct H2 as [m Hm]. exact (H1 m _ Hm).
Qed.

Lemma leads_ends s t o tr : leads s t -> ends t o tr -> ends s o tr.
Proof. intros H1 [m Hm]. exact (H1 m _ Hm). Qed.

Lemma step_ends t0 o tr : step t0 = Fin o tr -> ends t0 o tr.
Proof. intros H. exists 1. simpl. rewrite H. reflexivity. Qed.

Lemma step_next_ends t0 s o tr : step t0 = Next s -> ends s o tr -> ends t0 o tr.
Proof. intros H1 H2. eapply leads_ends; [apply leads_step; exact H1|exact H2]. Qed.

(* ------------------------------------------------------------------ *)
(* Machine states at the boundaries of an activation                    *)

(* the loop of nextCall is about to examine the top of base *)
Definition ret_st (base : list frame) (c : list prec) (tr : list event) (o : list saved) (t : state) : Prop :=
  smode t = MNext (length base) /\ (exists junk, scalls t = base ++ junk) /\
  schain t = c /\ str t = tr /\ souter t = o.

(* a panic (record N) unwinds: the loop of nextCall is at the panicked frame
   pfr; the frames mid between X and pfr are the control frames of the
   activations the panic has left, whose records cmid are not yet marked as
   aborted in the VM (GoSpec has marked them: G) *)
Definition pan_st (X : list frame) (c' cout : list prec) (G : list grec) (tr : list event) (o : list saved)
    (t : state) : Prop :=
  exists mid pfr junk N A0 cmid,
    smode t = MNext (S (length (X ++ mid))) /\ scalls t = X ++ mid ++ pfr :: junk /\ fstat pfr = Panicked /\
    Forall ctl_frame mid /\
    schain t = N :: A0 ++ cmid ++ c' /\ paborted N = false /\ precovered N = false /\ Forall ab A0 /\
    shape (rev mid) cmid /\
    G = map gv (N :: A0 ++ abort_all cmid ++ c' ++ cout) /\ str t = tr /\ souter t = o.

(* the panic leaves a VM that has no call frame: the calling VMs take it over *)
Definition exits (s : state) (o : list saved) (cout : list prec) (G : list grec) (tr : list event) : Prop :=
  exists N A0 r',
    paborted N = false /\ precovered N = false /\ Forall ab A0 /\ G = map gv (N :: A0 ++ cout) /\
    leads_res s (end_panic_out o (N :: A0) tr r').

(* ------------------------------------------------------------------ *)
(* The search of case panicked through the frames a panic has left      *)

Lemma nth_error_app3 {A} (X mid : list A) fr R :
  nth_error (X ++ (mid ++ [fr]) ++ R) (length (X ++ mid)) = Some fr.
Proof.
  replace (X ++ (mid ++ [fr]) ++ R) with ((X ++ mid) ++ fr :: R)
    by (repeat rewrite <- app_assoc; reflexivity).
  apply nth_error_mid.
Qed.

Lemma scan_mid : forall mid X R pre Z cmid after,
  Forall ctl_frame mid -> Forall ab Z -> shape (rev mid) cmid ->
  exists W Z', W ++ Z' = Z ++ abort_all cmid /\ Forall ab Z' /\
    scan_panicked (X ++ mid ++ R) (length (X ++ mid)) pre (Z ++ cmid ++ after)
    = scan_panicked (X ++ mid ++ R) (length X) (pre ++ W) (Z' ++ after).
Proof.
  intros mid. induction mid as [|fr mid IH] using rev_ind; intros X R pre Z cmid after Hctl HZ Hsh.
  - simpl in Hsh. subst cmid. exists [], Z. simpl. rewrite !app_nil_r. auto.
  - apply Forall_app in Hctl. destruct Hctl as [Hctl Hfr]. inversion Hfr as [|? ? Hf _]; subst.
    rewrite rev_app_distr in Hsh. simpl in Hsh.
    replace (length (X ++ mid ++ [fr])) with (S (length (X ++ mid)))
      by (rewrite !app_length; simpl; lia).
    cbn [scan_panicked]. rewrite nth_error_app3.
    assert (Hplain : shape (rev mid) cmid ->
      exists W Z', W ++ Z' = Z ++ abort_all cmid /\ Forall ab Z' /\
        scan_panicked (X ++ (mid ++ [fr]) ++ R) (length (X ++ mid)) pre (Z ++ cmid ++ after)
        = scan_panicked (X ++ (mid ++ [fr]) ++ R) (length X) (pre ++ W) (Z' ++ after)).
    { intros Hs. replace (X ++ (mid ++ [fr]) ++ R) with (X ++ mid ++ (fr :: R))
        by (repeat rewrite <- app_assoc; reflexivity).
      apply IH; assumption. }
    assert (Hmark : forall q A c', cmid = q :: A ++ c' -> paborted q = false -> Forall ab A -> shape (rev mid) c' ->
      exists W Z', W ++ Z' = Z ++ abort_all cmid /\ Forall ab Z' /\
        match mark_next (Z ++ cmid ++ after) with
        | Some (done, rest) => scan_panicked (X ++ (mid ++ [fr]) ++ R) (length (X ++ mid)) (pre ++ done) rest
        | None => None
        end = scan_panicked (X ++ (mid ++ [fr]) ++ R) (length X) (pre ++ W) (Z' ++ after)).
    { intros q A c' -> Hq HA Hs.
      replace (Z ++ (q :: A ++ c') ++ after) with (Z ++ q :: (A ++ c' ++ after))
        by (simpl; rewrite <- app_assoc; reflexivity).
      rewrite (mark_next_skip Z q _ HZ Hq).
      replace (X ++ (mid ++ [fr]) ++ R) with (X ++ mid ++ (fr :: R))
        by (repeat rewrite <- app_assoc; reflexivity).
      destruct (IH X (fr :: R) (pre ++ Z ++ [set_aborted q]) A c' after Hctl HA Hs) as [W1 [Z1 [HW [HZ1 Heq]]]].
      exists (Z ++ [set_aborted q] ++ W1), Z1. split; [|split; [exact HZ1|]].
      - rewrite <- !app_assoc. f_equal. simpl. f_equal.
        change (map set_aborted (A ++ c')) with (abort_all (A ++ c')).
        rewrite abort_all_app, (abort_all_ab A HA). exact HW.
      - rewrite Heq. f_equal. rewrite <- !app_assoc. reflexivity. }
    destruct Hf as [Hf|[Hf|[Hf|Hf]]]; rewrite Hf in *.
    + apply Hplain. exact Hsh.
    + apply Hplain. exact Hsh.
    + destruct Hsh as [q [A [c' [E [H1 [H2 [H3 H4]]]]]]]. eapply Hmark; eassumption.
    + destruct Hsh as [q [A [c' [E [H1 [H2 [H3 H4]]]]]]]. eapply Hmark; eassumption.
Qed.

(* the step at the panicked frame when the frame below the frames left is a deferred one *)
Lemma step_pan_found t X0 d c' cout G tr o :
  pan_st (X0 ++ [mkframe d 0 Deferred]) c' cout G tr o t ->
  exists s1 owner N A,
    step t = after_switch s1 (mkframe d 0 Deferred) (S (length X0)) /\
    firstn (S (length X0)) (scalls s1) = X0 ++ [owner] /\ fstat owner = Panicked /\
    schain s1 = N :: A ++ c' /\ paborted N = false /\ precovered N = false /\ Forall ab A /\
    G = map gv (N :: A ++ c' ++ cout) /\
    str s1 = tr /\ souter s1 = o /\ sfn s1 = sfn t /\ sraised s1 = sraised t.
Proof.
  intros [mid [pfr [junk [N [A0 [cmid [Hm [Hc [Hp [Hctl [Hch [HN1 [HN2 [HA0 [Hsh [HG [Htr Ho]]]]]]]]]]]]]]]]].
  set (X := X0 ++ [mkframe d 0 Deferred]) in *.
  unfold step. rewrite Hm. unfold step_next.
  assert (Hnth : nth_error (scalls t) (length (X ++ mid)) = Some pfr).
  { rewrite Hc. replace (X ++ mid ++ pfr :: junk) with ((X ++ mid) ++ pfr :: junk) by (rewrite <- app_assoc; reflexivity).
    apply nth_error_mid. }
  rewrite Hnth, Hp, Hch. cbn [chain_split fst snd].
  destruct (scan_mid mid X (pfr :: junk) [N] A0 cmid c' Hctl HA0 Hsh) as [W [Z' [HW [HZ' Hscan]]]].
  rewrite Hc, Hscan.
  (* the deferred frame on top of X *)
  unfold X at 2. rewrite app_length. simpl length. replace (length X0 + 1) with (S (length X0)) by lia.
  cbn [scan_panicked].
  assert (Hd : nth_error (X ++ mid ++ pfr :: junk) (length X0) = Some (mkframe d 0 Deferred)).
  { unfold X. rewrite <- app_assoc. simpl. apply nth_error_mid. }
  rewrite Hd. cbn [fstat].
  (* the owner *)
  assert (Hab : exists above rest2, mid ++ pfr :: junk = above :: rest2).
  { destruct mid as [|m0 mid']; simpl; eauto. }
  destruct Hab as [above [rest2 Hab]].
  assert (Hown : nth_error (X ++ mid ++ pfr :: junk) (S (length X0)) = Some above).
  { rewrite Hab. unfold X.
    replace (S (length X0)) with (length (X0 ++ [mkframe d 0 Deferred])) by (rewrite app_length; simpl; lia).
    apply nth_error_mid. }
  rewrite Hown.
  eexists _, (set_status above Panicked), N, (A0 ++ abort_all cmid).
  split; [reflexivity|].
  cbn [scalls schain str souter sfn sraised set_chain set_calls].
  split.
  { rewrite Hab. unfold X. rewrite <- app_assoc. simpl. rewrite set_nth_mid. apply firstn_snoc. }
  split; [reflexivity|].
  split.
  { simpl. f_equal. rewrite <- !app_assoc. rewrite (app_assoc W Z'), HW, <- app_assoc. reflexivity. }
  split; [exact HN1|]. split; [exact HN2|].
  split; [apply Forall_app; split; [exact HA0|apply abort_all_Forall]|].
  split; [rewrite HG; rewrite <- !app_assoc; reflexivity|].
  repeat split; assumption.
Qed.

(* the same step when no frame is left below: the loop ends *)
Lemma step_pan_none t c' cout G tr o :
  pan_st [] c' cout G tr o t ->
  exists t' N A,
    step t = Next t' /\ smode t' = MNext 0 /\ schain t' = N :: A ++ c' /\
    paborted N = false /\ precovered N = false /\ Forall ab A /\
    G = map gv (N :: A ++ c' ++ cout) /\ str t' = tr /\ souter t' = o /\ sraised t' = sraised t.
Proof.
  intros [mid [pfr [junk [N [A0 [cmid [Hm [Hc [Hp [Hctl [Hch [HN1 [HN2 [HA0 [Hsh [HG [Htr Ho]]]]]]]]]]]]]]]]].
  simpl in Hm, Hc.
  unfold step. rewrite Hm. unfold step_next.
  assert (Hnth : nth_error (scalls t) (length mid) = Some pfr) by (rewrite Hc; apply nth_error_mid).
  rewrite Hnth, Hp, Hch. cbn [chain_split fst snd].
  destruct (scan_mid mid [] (pfr :: junk) [N] A0 cmid c' Hctl HA0 Hsh) as [W [Z' [HW [HZ' Hscan]]]].
  simpl app in Hscan. rewrite Hc, Hscan. cbn [length scan_panicked].
  eexists _, N, (A0 ++ abort_all cmid). split; [reflexivity|].
  cbn [smode schain str souter sraised set_mode set_chain].
  split; [reflexivity|]. split.
  { simpl. f_equal. rewrite <- !app_assoc. rewrite (app_assoc W Z'), HW, <- app_assoc. reflexivity. }
  split; [exact HN1|]. split; [exact HN2|].
  split; [apply Forall_app; split; [exact HA0|apply abort_all_Forall]|].
  split; [rewrite HG; rewrite <- !app_assoc; reflexivity|].
  repeat split; assumption.
Qed.

(* ------------------------------------------------------------------ *)
(* The context of an activation                                         *)

(* the top of the frames below an activation that is (bp) / is not run by the panic sequence *)
Definition top_ok (bp : bool) (base : list frame) : Prop :=
  if bp then exists B x, base = B ++ [x] /\ (fstat x = Panicked \/ fstat x = Recovered)
  else top_sr base.

Record ctx (bp : bool) (base : list frame) (c cout : list prec) : Prop := mkctx {
  ctx_top : top_ok bp base;
  ctx_shape : shape (rev base) c;
  ctx_out : head_live cout
}.

Lemma ctx_head_live bp base c cout : ctx bp base c cout -> head_live (c ++ cout).
Proof.
  intros [_ Hs Ho]. apply shape_head_live in Hs. destruct c; [exact Ho|exact Hs].
Qed.

(* what a callee can change below itself: recover() in a function run by the
   panic sequence turns the panicked frame on top into a recovered one and
   sets the flag of the first record *)
Inductive upd (bp : bool) (base : list frame) (c : list prec) : list frame -> list prec -> Prop :=
| upd_same : upd bp base c base c
| upd_rec B x q rest :
    bp = true -> base = B ++ [x] -> fstat x = Panicked -> c = q :: rest ->
    upd bp base c (B ++ [set_status x Recovered]) (set_recovered q :: rest).

Lemma upd_false base c base' c' : upd false base c base' c' -> base' = base /\ c' = c.
Proof. inversion 1; [auto|discriminate]. Qed.

Lemma upd_length bp base c base' c' : upd bp base c base' c' -> length base' = length base.
Proof. inversion 1; subst; [reflexivity|]. rewrite !app_length. reflexivity. Qed.

Lemma upd_trans bp base c b1 c1 b2 c2 :
  upd bp base c b1 c1 -> upd bp b1 c1 b2 c2 -> upd bp base c b2 c2.
Proof.
  intros H1 H2. inversion H1; subst; [exact H2|]. inversion H2; subst; [exact H1|].
  exfalso.
  match goal with H : _ ++ [_] = _ ++ [_] |- _ => apply app_inj_tail in H; destruct H as [_ E] end.
  subst. match goal with H : fstat (set_status _ Recovered) = Panicked |- _ => simpl in H; discriminate end.
Qed.

Lemma set_status_same fr : set_status fr (fstat fr) = fr.
Proof. destruct fr; reflexivity. Qed.

Lemma shape_snoc_top B x c :
  shape (rev (B ++ [x])) c =
  match fstat x with
  | Panicked => exists q A c', c = q :: A ++ c' /\ paborted q = false /\ precovered q = false /\ Forall ab A /\ shape (rev B) c'
  | Recovered => exists q A c', c = q :: A ++ c' /\ paborted q = false /\ precovered q = true /\ Forall ab A /\ shape (rev B) c'
  | _ => shape (rev B) c
  end.
Proof. rewrite rev_app_distr. reflexivity. Qed.

Lemma upd_ctx bp base c cout base' c' :
  ctx bp base c cout -> upd bp base c base' c' -> ctx bp base' c' cout.
Proof.
  intros Hc Hu. inversion Hu; subst; [exact Hc|]. destruct Hc as [Ht Hs Ho]. constructor; [| |exact Ho].
  - simpl. exists B, (set_status x Recovered). split; [reflexivity|]. right. reflexivity.
  - rewrite shape_snoc_top in *.
    match goal with H : fstat x = Panicked |- _ => rewrite H in Hs end. simpl.
    destruct Hs as [q0 [A [c' [E [H3 [H4 [H5 H6]]]]]]]. inversion E; subst.
    exists (set_recovered q0), A, c'. auto.
Qed.

Lemma top_sr_not_def base : top_sr base -> top_not_deferred base.
Proof. apply top_sr_nd. Qed.

Lemma top_ok_nd bp base : top_ok bp base -> top_not_deferred base.
Proof.
  destruct bp; simpl; [|apply top_sr_nd].
  intros [B [x [-> Hx]]] y Hy. rewrite app_length in Hy. simpl in Hy.
  replace (pred (length B + 1)) with (length B) in Hy by lia. rewrite nth_error_mid in Hy.
  inversion Hy; subst. destruct Hx as [Hx|Hx]; rewrite Hx; discriminate.
Qed.

(* ------------------------------------------------------------------ *)
(* Moving the boundary of a panicking state one control frame down      *)

Lemma pan_st_shift_plain X fr c' cout G tr o t :
  pan_st (X ++ [fr]) c' cout G tr o t ->
  (fstat fr = Started \/ fstat fr = Returned) ->
  pan_st X c' cout G tr o t.
Proof.
  intros [mid [pfr [junk [N [A0 [cmid [Hm [Hc [Hp [Hctl [Hch [HN1 [HN2 [HA0 [Hsh [HG [Htr Ho]]]]]]]]]]]]]]]]] Hf.
  exists (fr :: mid), pfr, junk, N, A0, cmid.
  rewrite <- app_assoc in Hm, Hc. simpl in Hm, Hc.
  repeat split; try assumption.
  - constructor; [|exact Hctl]. destruct Hf as [Hf|Hf]; [left|right; left]; exact Hf.
  - simpl. rewrite shape_app. exists cmid, []. rewrite app_nil_r. split; [reflexivity|]. split; [exact Hsh|].
    simpl. destruct Hf as [Hf|Hf]; rewrite Hf; reflexivity.
Qed.

Lemma pan_st_shift_mark X fr q Aq c'' cout G tr o t :
  pan_st (X ++ [fr]) (q :: Aq ++ c'') cout G tr o t ->
  (fstat fr = Panicked /\ precovered q = false \/ fstat fr = Recovered /\ precovered q = true) ->
  paborted q = false -> Forall ab Aq ->
  pan_st X c'' cout (mark_aborted G (length G - length (q :: Aq ++ c'' ++ cout))) tr o t.
Proof.
  intros [mid [pfr [junk [N [A0 [cmid [Hm [Hc [Hp [Hctl [Hch [HN1 [HN2 [HA0 [Hsh [HG [Htr Ho]]]]]]]]]]]]]]]]] Hf Hq HAq.
  exists (fr :: mid), pfr, junk, N, A0, (cmid ++ q :: Aq).
  rewrite <- app_assoc in Hm, Hc. simpl in Hm, Hc.
  repeat split; try assumption.
  - constructor; [|exact Hctl]. destruct Hf as [[Hf _]|[Hf _]]; [right; right; left|right; right; right]; exact Hf.
  - rewrite Hch. f_equal. f_equal. rewrite <- !app_assoc. reflexivity.
  - simpl. rewrite shape_app. exists cmid, (q :: Aq). split; [reflexivity|]. split; [exact Hsh|].
    simpl. destruct Hf as [[Hf Hr]|[Hf Hr]]; rewrite Hf; exists q, Aq, []; rewrite app_nil_r; auto.
  - rewrite HG.
    remember (map gv (N :: A0 ++ abort_all cmid)) as L1 eqn:HL1.
    assert (E : map gv (N :: A0 ++ abort_all cmid ++ (q :: Aq ++ c'') ++ cout)
                = L1 ++ gv q :: map gv (Aq ++ c'' ++ cout)).
    { subst L1. simpl. f_equal. rewrite !map_app. rewrite <- !app_assoc. simpl. rewrite !map_app. reflexivity. }
    rewrite E.
    replace (length (L1 ++ gv q :: map gv (Aq ++ c'' ++ cout)) - length (q :: Aq ++ c'' ++ cout)) with (length L1).
    2:{ rewrite app_length. cbn [length]. rewrite map_length. lia. }
    rewrite mark_aborted_at. subst L1. simpl. f_equal.
    rewrite abort_all_app, !map_app. simpl. rewrite (abort_all_ab Aq HAq).
    rewrite <- !app_assoc. reflexivity.
Qed.

(* ------------------------------------------------------------------ *)
(* OpRecover on the stacks of the correspondence                        *)

Lemma recover_search_prefix l r : forall k, k <= length l -> recover_search (l ++ r) k = recover_search l k.
Proof.
  induction k; intros Hk; [reflexivity|]. simpl. rewrite nth_error_prefix by lia.
  destruct (nth_error l k) as [fr|]; [|reflexivity]. destruct (fstat fr); try reflexivity. apply IHk. lia.
Qed.

Lemma recover_search_skip_dfr base ds :
  recover_search (base ++ dfr ds) (length (base ++ dfr ds)) = recover_search base (length base).
Proof.
  induction ds as [|c ds IH].
  - unfold dfr. simpl. rewrite app_nil_r. reflexivity.
  - rewrite dfr_cons, app_assoc, app_length. simpl.
    replace (length (base ++ dfr ds) + 1) with (S (length (base ++ dfr ds))) by lia.
    simpl. rewrite nth_error_mid. simpl. rewrite recover_search_prefix by lia. exact IH.
Qed.

(* what the search finds at the top of the frames below the activation *)
Definition top_panicked (base : list frame) : option nat :=
  match rev base with
  | x :: r => match fstat x with Panicked => Some (length r) | _ => None end
  | [] => None
  end.

Lemma recover_search_top bp base : top_ok bp base -> recover_search base (length base) = top_panicked base.
Proof.
  intros Ht. unfold top_panicked.
  destruct (rev base) as [|x r] eqn:Hr.
  - apply (f_equal (@rev frame)) in Hr. rewrite rev_involutive in Hr. subst. reflexivity.
  - apply (f_equal (@rev frame)) in Hr. rewrite rev_involutive in Hr. simpl in Hr. subst base.
    rewrite app_length, rev_length. simpl. replace (length r + 1) with (S (length r)) by lia.
    simpl. rewrite <- (rev_length r), nth_error_mid.
    destruct bp; simpl in Ht.
    + destruct Ht as [B [y [E Hy]]]. apply app_inj_tail in E. destruct E as [_ <-].
      destruct Hy as [Hy|Hy]; rewrite Hy; reflexivity.
    + specialize (Ht x). rewrite app_length in Ht. simpl in Ht.
      replace (pred (length (rev r) + 1)) with (length (rev r)) in Ht by lia.
      rewrite nth_error_mid in Ht. destruct (Ht eq_refl) as [[Hs _]|Hs]; rewrite Hs; reflexivity.
Qed.

Lemma top_panicked_some base i : top_panicked base = Some i ->
  exists B x, base = B ++ [x] /\ fstat x = Panicked /\ i = length B.
Proof.
  unfold top_panicked. destruct (rev base) as [|x r] eqn:Hr; [discriminate|].
  apply (f_equal (@rev frame)) in Hr. rewrite rev_involutive in Hr. simpl in Hr.
  destruct (fstat x) eqn:Hx; try discriminate. intros H. inversion H.
  exists (rev r), x. rewrite rev_length. auto.
Qed.

Lemma top_panicked_none bp base : top_ok bp base -> top_panicked base = None ->
  bp = false \/ exists B x, base = B ++ [x] /\ fstat x = Recovered.
Proof.
  destruct bp; [|auto]. intros [B [x [-> Hx]]] H. right. exists B, x. split; [reflexivity|].
  unfold top_panicked in H. rewrite rev_app_distr in H. simpl in H.
  destruct Hx as [Hx|Hx]; [rewrite Hx in H; discriminate|exact Hx].
Qed.

Lemma mark_recovered_top B x rest :
  fstat x = Panicked -> mark_recovered (B ++ x :: rest) (length B) = B ++ set_status x Recovered :: rest.
Proof. intros _. unfold mark_recovered. rewrite nth_error_mid, set_nth_mid. reflexivity. Qed.

(* ------------------------------------------------------------------ *)
(* Steps of nextCall on the stacks of the correspondence                *)

Lemma after_switch_start s1 d i :
  after_switch s1 (mkframe d 0 Deferred) i =
  match d with
  | CFn h => Next (mkstate MExec (Some h) 0 (firstn i (scalls s1)) (schain s1) (str s1) (sraised s1) (souter s1))
  | CNat (NBody n) =>
      Next (mkstate (MNext i) (sfn s1) (spc s1) (firstn i (scalls s1)) (schain s1) (EBody n :: str s1) (sraised s1) (souter s1))
  | CNat (NStop e) => Fin (OStop e) (EStop e :: str s1)
  | CNat (NFatal v) => Fin (ORunPanics v) (EFatal v :: str s1)
  | CNat (NPanic v) =>
      raise_with (set_calls s1 (firstn i (scalls s1))) (match sfn s1 with Some f => CFn f | None => CNone end) None v
  | CNone => Fin OCrash (str s1)
  end.
Proof. destruct d as [h|[n|e|v|v]|]; reflexivity. Qed.

(* the loop of nextCall at the control frame of an activation that runs its
   deferred calls and is not (or no longer) panicking; c0 is the chain after
   the recovered panic, if any, has left it *)
Definition rdn_state (A : list frame) (ctl : frame) (c0 : list prec) (tr : list event) (o : list saved)
    (t : state) : Prop :=
  smode t = MNext (S (length A)) /\ (exists junk, scalls t = A ++ ctl :: junk) /\ str t = tr /\ souter t = o /\
  ((fstat ctl = Returned /\ schain t = c0) \/
   (fstat ctl = Recovered /\ exists q Aab, schain t = q :: Aab ++ c0 /\ Forall ab Aab /\ head_live c0)).

Lemma rdn_trim A ctl c0 tr o t :
  rdn_state A ctl c0 tr o t ->
  (if status_eqb (fstat ctl) Recovered then trim t else Some t) = Some (set_chain t c0) /\
  (if status_eqb (fstat ctl) Recovered then set_status ctl Returned else ctl) = set_status ctl Returned.
Proof.
  intros [_ [_ [_ [_ [[Hs Hc]|[Hs [q [Aab [Hc [Ha Hl]]]]]]]]]]; rewrite Hs.
  - change (status_eqb Returned Recovered) with false. cbv iota. split.
    + f_equal. destruct t; simpl in *. subst. reflexivity.
    + rewrite <- Hs. symmetry. apply set_status_same.
  - change (status_eqb Recovered Recovered) with true. cbv iota. split; [|reflexivity].
    unfold trim. rewrite Hc. f_equal. f_equal. rewrite drop_ab_app by exact Ha. apply drop_ab_head_live. exact Hl.
Qed.

(* no deferred call is left below the control frame *)
Lemma rdn_step_last A ctl c0 tr o t :
  rdn_state A ctl c0 tr o t -> top_not_deferred A ->
  exists t', step t = Next t' /\ ret_st A c0 tr o t' /\ sraised t' = sraised t.
Proof.
  intros Hst Htop. destruct (rdn_trim _ _ _ _ _ _ Hst) as [Htrim _].
  destruct Hst as [Hm [[junk Hc] [Htr [Ho Hs]]]].
  assert (Hk : fstat ctl = Returned \/ fstat ctl = Recovered) by (destruct Hs as [[H _]|[H _]]; auto).
  unfold step. rewrite Hm. unfold step_next. rewrite Hc, nth_error_mid.
  assert (G : match (if status_eqb (fstat ctl) Recovered then trim t else Some t) with
              | Some s0 =>
                  match prev_deferred (scalls s0) (length A) with
                  | Some (j, prev) =>
                      after_switch (set_calls s0 (set_nth (scalls s0) j
                        (if status_eqb (fstat ctl) Recovered then set_status ctl Returned else ctl))) prev (length A)
                  | None => Next (set_mode s0 (MNext (length A)))
                  end
              | None => Fin OCrash (str t)
              end = Next (set_mode (set_chain t c0) (MNext (length A)))).
  { rewrite Htrim. cbn [scalls set_chain]. rewrite Hc, prev_deferred_none by exact Htop. reflexivity. }
  exists (set_mode (set_chain t c0) (MNext (length A))). split.
  - destruct Hk as [Hk|Hk]; rewrite Hk in *; exact G.
  - split; [|reflexivity]. repeat split; cbn [smode scalls schain str souter set_mode set_chain]; try assumption.
    exists (ctl :: junk). exact Hc.
Qed.

(* the next deferred call of the activation is run *)
Lemma rdn_step_deferred A0 d ctl c0 tr o t :
  rdn_state (A0 ++ [mkframe d 0 Deferred]) ctl c0 tr o t ->
  exists s1, step t = after_switch s1 (mkframe d 0 Deferred) (S (length A0)) /\
    firstn (S (length A0)) (scalls s1) = A0 ++ [set_status ctl Returned] /\
    schain s1 = c0 /\ str s1 = tr /\ souter s1 = o /\ sraised s1 = sraised t.
Proof.
  intros Hst. destruct (rdn_trim _ _ _ _ _ _ Hst) as [Htrim Hcall].
  destruct Hst as [Hm [[junk Hc] [Htr [Ho Hs]]]].
  assert (Hk : fstat ctl = Returned \/ fstat ctl = Recovered) by (destruct Hs as [[H _]|[H _]]; auto).
  set (A := A0 ++ [mkframe d 0 Deferred]) in *.
  assert (HlA : length A = S (length A0)) by (unfold A; rewrite app_length; simpl; lia).
  unfold step. rewrite Hm. unfold step_next. rewrite Hc, nth_error_mid.
  assert (Hprev : prev_deferred (A ++ ctl :: junk) (length A) = Some (length A0, mkframe d 0 Deferred)).
  { rewrite HlA. unfold prev_deferred, A. rewrite <- app_assoc. simpl. rewrite nth_error_mid. reflexivity. }
  assert (G : match (if status_eqb (fstat ctl) Recovered then trim t else Some t) with
              | Some s0 =>
                  match prev_deferred (scalls s0) (length A) with
                  | Some (j, prev) =>
                      after_switch (set_calls s0 (set_nth (scalls s0) j
                        (if status_eqb (fstat ctl) Recovered then set_status ctl Returned else ctl))) prev (length A)
                  | None => Next (set_mode s0 (MNext (length A)))
                  end
              | None => Fin OCrash (str t)
              end = after_switch (set_calls (set_chain t c0)
                       (A0 ++ set_status ctl Returned :: ctl :: junk)) (mkframe d 0 Deferred) (S (length A0))).
  { rewrite Htrim, Hcall. cbn [scalls set_chain]. rewrite Hc, Hprev. rewrite HlA.
    unfold A. rewrite <- app_assoc. simpl. rewrite set_nth_mid. reflexivity. }
  eexists. split.
  - destruct Hk as [Hk|Hk]; rewrite Hk in *; exact G.
  - cbn [scalls schain str souter sraised set_calls set_chain]. rewrite firstn_snoc. repeat split; assumption.
Qed.

(* OpReturn of an activation of f whose pending deferred calls are d :: ds' *)
Lemma ret_entry_deferred f pc A0 d c tr r o :
  fetch f pc = Some IReturn ->
  exists u s1,
    step (mkstate MExec (Some f) pc (A0 ++ [mkframe d 0 Deferred]) c tr r o) = Next u /\
    step u = after_switch s1 (mkframe d 0 Deferred) (S (length A0)) /\
    firstn (S (length A0)) (scalls s1) = A0 ++ [mkframe (CFn f) 0 Returned] /\
    schain s1 = c /\ str s1 = tr /\ souter s1 = o.
Proof.
  intros Hfe.
  set (s := mkstate MExec (Some f) pc (A0 ++ [mkframe d 0 Deferred]) c tr r o).
  assert (Hstep := step_exec_at s f IReturn eq_refl eq_refl Hfe).
  unfold s in Hstep at 2. cbv zeta in Hstep. proj_in Hstep.
  rewrite app_length in Hstep. simpl in Hstep. replace (length A0 + 1) with (S (length A0)) in Hstep by lia.
  rewrite nth_error_mid in Hstep. simpl in Hstep.
  match type of Hstep with _ = Next ?u0 => set (u := u0) in * end.
  exists u. eexists. split; [exact Hstep|].
  split; [apply (step_deferred_top u A0 (mkframe d 0 Deferred) [] f eq_refl eq_refl eq_refl eq_refl)|].
  cbn [scalls schain str souter set_calls]. rewrite firstn_snoc. auto.
Qed.

(* OpReturn of an activation without pending deferred calls *)
Lemma ret_entry_none bp f pc base c tr r o :
  fetch f pc = Some IReturn -> top_ok bp base ->
  exists t, leads (mkstate MExec (Some f) pc base c tr r o) t /\ ret_st base c tr o t.
Proof.
  intros Hfe Htop.
  set (s := mkstate MExec (Some f) pc base c tr r o).
  assert (Hstep := step_exec_at s f IReturn eq_refl eq_refl Hfe).
  unfold s in Hstep at 2. cbv zeta in Hstep. proj_in Hstep.
  destruct (length base) as [|i] eqn:Hl.
  - destruct base; [|discriminate].
    exists (mkstate (MNext 0) (Some f) (S pc) [] c tr r o). split.
    + apply leads_same_step. rewrite Hstep. reflexivity.
    + repeat split. exists []. reflexivity.
  - assert (Hb : exists A fr, base = A ++ [fr] /\ length A = i).
    { destruct (exists_last (l := base)) as [A [fr ->]]; [intros ->; discriminate|].
      exists A, fr. split; [reflexivity|]. rewrite app_length in Hl. simpl in Hl. lia. }
    destruct Hb as [A [fr [-> Hi]]]. subst i.
    rewrite nth_error_mid in Hstep.
    destruct (fstat fr) eqn:Hst.
    + (* a started frame: the direct return; the state of the loop that does the same *)
      assert (Hg : exists g, fcl fr = CFn g).
      { destruct bp; simpl in Htop.
        - destruct Htop as [B [x [E Hx]]]. apply app_inj_tail in E. destruct E as [_ <-].
          destruct Hx as [Hx|Hx]; rewrite Hx in Hst; discriminate.
        - specialize (Htop fr). rewrite app_length in Htop. simpl in Htop.
          replace (pred (length A + 1)) with (length A) in Htop by lia. rewrite nth_error_mid in Htop.
          destruct (Htop eq_refl) as [[_ Hg]|Hr]; [exact Hg|rewrite Hr in Hst; discriminate]. }
      destruct Hg as [g Hg]. rewrite Hg in Hstep. simpl in Hstep. rewrite firstn_exact in Hstep.
      exists (mkstate (MNext (length (A ++ [fr]))) (Some f) (S pc) (A ++ [fr]) c tr r o). split.
      * apply leads_same_step. rewrite Hstep. symmetry.
        rewrite app_length. simpl. replace (length A + 1) with (S (length A)) by lia.
        erewrite step_started; [reflexivity|reflexivity|reflexivity|exact Hst|exact Hg].
      * repeat split. exists []. rewrite app_nil_r. reflexivity.
    + exfalso. destruct bp; simpl in Htop.
      * destruct Htop as [B [x [E Hx]]]. apply app_inj_tail in E. destruct E as [_ <-].
        destruct Hx as [Hx|Hx]; rewrite Hx in Hst; discriminate.
      * specialize (Htop fr). rewrite app_length in Htop. simpl in Htop.
        replace (pred (length A + 1)) with (length A) in Htop by lia. rewrite nth_error_mid in Htop.
        destruct (Htop eq_refl) as [[Hr _]|Hr]; rewrite Hr in Hst; discriminate.
    + simpl in Hstep. eexists. split; [apply leads_step; exact Hstep|].
      repeat split; proj; try reflexivity.
      * rewrite app_length. simpl. f_equal. lia.
      * exists []. rewrite app_nil_r. reflexivity.
    + exfalso. apply (top_ok_nd bp _ Htop fr); [|exact Hst].
      rewrite app_length. simpl. replace (pred (length A + 1)) with (length A) by lia. apply nth_error_mid.
    + simpl in Hstep. eexists. split; [apply leads_step; exact Hstep|].
      repeat split; proj; try reflexivity.
      * rewrite app_length. simpl. f_equal. lia.
      * exists []. rewrite app_nil_r. reflexivity.
    + simpl in Hstep. eexists. split; [apply leads_step; exact Hstep|].
      repeat split; proj; try reflexivity.
      * rewrite app_length. simpl. f_equal. lia.
      * exists []. rewrite app_nil_r. reflexivity.
Qed.
