(* C12: the frame machine refines GoSpec (simulation).  For every action tree
   in which `recover down` occurs only as the whole body of a deferred
   function (what the emitter produces for `defer recover()`) and every
   panicking instruction has an entry in the debug table of its function, the
   machine ends with the result of GoSpec: same trace, same values of
   recover(), same outcome of Run with the same chain (messages, recovered
   flags, lines).  The proof follows the recursion of GoSpec: one lemma per
   function of GoSpec, each saying to which machine state the run of the
   corresponding piece leads.

   Correspondence of the two worlds.  Below the running activation the call
   stack of the VM is, per activation from the outermost to the innermost,
   its pending deferred frames followed by one control frame: started (it
   called the next activation), returned (it runs its deferred calls after a
   return), panicked / recovered (it runs them because of a panic, which the
   deferred call has not / has recovered).  The chain of the VM, followed by
   the chains of the suspended VMs, is the list of panics of GoSpec; to every
   panicked or recovered frame, from the top, corresponds the next record that
   is not aborted (shape). *)
From Coq Require Import List NArith Bool Arith Lia.
Import ListNotations.
From Verif Require Import FramesM Frames_lifo.

(* ------------------------------------------------------------------ *)
(* The trees of the theorem                                             *)

Definition is_rec_down (b : list instr) : bool :=
  match b with
  | [IRecover true] => true
  | _ => false
  end.

Definition has_line (inf : list (nat * N)) (pc : nat) : bool :=
  match info_get inf pc with Some _ => true | None => false end.

(* inf: the debug table of the function the instruction belongs to; pc: its address *)
Fixpoint ok_instr (inf : list (nat * N)) (pc : nat) (i : instr) : bool :=
  match i with
  | IPanic _ | INat (NPanic _) => has_line inf pc
  | IRecover down => negb down
  | ICall b inf' | ICallback b inf' =>
      (fix all (l : list instr) (pc : nat) : bool :=
         match l with [] => true | x :: r => ok_instr inf' pc x && all r (S pc) end) b 0
  | IDeferFn b inf' =>
      is_rec_down b ||
      (fix all (l : list instr) (pc : nat) : bool :=
         match l with [] => true | x :: r => ok_instr inf' pc x && all r (S pc) end) b 0
  | _ => true
  end.

Definition ok_body (inf : list (nat * N)) : list instr -> nat -> bool :=
  fix all (l : list instr) (pc : nat) : bool :=
    match l with [] => true | x :: r => ok_instr inf pc x && all r (S pc) end.

Lemma ok_body_cons inf x r pc : ok_body inf (x :: r) pc = ok_instr inf pc x && ok_body inf r (S pc).
Proof. reflexivity. Qed.

Definition ok_fn (f : func) : bool := ok_body (finfo f) (fbody f) 0.

(* the trees of the theorem *)
Definition tree_ok (f : func) : bool := ok_fn f.

Lemma ok_instr_call inf pc b inf' : ok_instr inf pc (ICall b inf') = ok_fn (mkfunc b inf').
Proof. reflexivity. Qed.
Lemma ok_instr_callback inf pc b inf' : ok_instr inf pc (ICallback b inf') = ok_fn (mkfunc b inf').
Proof. reflexivity. Qed.
Lemma ok_instr_defer inf pc b inf' :
  ok_instr inf pc (IDeferFn b inf') = is_rec_down b || ok_fn (mkfunc b inf').
Proof. reflexivity. Qed.

Definition ok_callee (c : callee) : Prop :=
  match c with
  | CFn h => is_rec_down (fbody h) = true \/ ok_fn h = true
  | CNat _ => True
  | CNone => False
  end.

(* ------------------------------------------------------------------ *)
(* Records and chains                                                   *)

Definition gv (p : prec) : grec := mkgrec (pmsg p) (precovered p) (paborted p) (ppos p).

Definition ab (p : prec) : Prop := paborted p = true.

Definition set_recovered (p : prec) : prec := mkprec (pmsg p) true (paborted p) (ppos p) (pser p).

Definition abort_all (c : list prec) : list prec := map set_aborted c.

Lemma abort_all_app a b : abort_all (a ++ b) = abort_all a ++ abort_all b.
Proof. apply map_app. Qed.

Lemma abort_all_ab c : Forall ab c -> abort_all c = c.
Proof.
  induction 1 as [|p r Hp _ IH]; [reflexivity|]. simpl. rewrite IH. f_equal.
  destruct p. unfold ab in Hp. simpl in Hp. subst. reflexivity.
Qed.

Lemma abort_all_Forall c : Forall ab (abort_all c).
Proof. induction c; constructor; [reflexivity|assumption]. Qed.

Lemma drop_ab_app a b : Forall ab a -> drop_ab (a ++ b) = drop_ab b.
Proof. induction 1 as [|p r Hp _ IH]; [reflexivity|]. simpl. unfold ab in Hp. rewrite Hp. exact IH. Qed.

Lemma drop_aborted_app (a : list prec) l : Forall ab a -> drop_aborted (map gv a ++ l) = drop_aborted l.
Proof. induction 1 as [|p r Hp _ IH]; [reflexivity|]. simpl. unfold ab in Hp. rewrite Hp. exact IH. Qed.

Lemma drop_ab_live p r : paborted p = false -> drop_ab (p :: r) = p :: r.
Proof. intros H. simpl. rewrite H. reflexivity. Qed.

Lemma drop_aborted_live p r : gaborted p = false -> drop_aborted (p :: r) = p :: r.
Proof. intros H. simpl. rewrite H. reflexivity. Qed.

(* the first record, if any, is not aborted *)
Definition head_live (c : list prec) : Prop :=
  match c with [] => True | p :: _ => paborted p = false end.

Lemma drop_ab_head_live c : head_live c -> drop_ab c = c.
Proof. destruct c as [|p r]; [reflexivity|]. simpl. intros ->. reflexivity. Qed.

Lemma drop_aborted_head_live c : head_live c -> drop_aborted (map gv c) = map gv c.
Proof. destruct c as [|p r]; [reflexivity|]. simpl. intros ->. reflexivity. Qed.

Lemma mark_next_skip Z q r :
  Forall ab Z -> paborted q = false -> mark_next (Z ++ q :: r) = Some (Z ++ [set_aborted q], r).
Proof.
  intros HZ Hq. induction HZ as [|p Z Hp _ IH]; simpl.
  - rewrite Hq. reflexivity.
  - unfold ab in Hp. rewrite Hp, IH. reflexivity.
Qed.

Lemma mark_aborted_at (l1 : list grec) p l2 :
  mark_aborted (l1 ++ p :: l2) (length l1) = l1 ++ mkgrec (gmsg p) (grecovered p) true (gpos p) :: l2.
Proof. induction l1 as [|x l1 IH]; simpl; [reflexivity|]. rewrite IH. reflexivity. Qed.

Lemma gv_set_aborted q : gv (set_aborted q) = mkgrec (gmsg (gv q)) (grecovered (gv q)) true (gpos (gv q)).
Proof. reflexivity. Qed.

(* ------------------------------------------------------------------ *)
(* Frames                                                               *)

Definition ctl_frame (fr : frame) : Prop :=
  fstat fr = Started \/ fstat fr = Returned \/ fstat fr = Panicked \/ fstat fr = Recovered.

(* l: frames from the top; every panicked / recovered frame owns the next
   record that is not aborted, which is recovered iff the frame is, followed
   by aborted records *)
Fixpoint shape (l : list frame) (c : list prec) : Prop :=
  match l with
  | [] => c = []
  | fr :: r =>
      match fstat fr with
      | Panicked =>
          exists q A c', c = q :: A ++ c' /\ paborted q = false /\ precovered q = false /\ Forall ab A /\ shape r c'
      | Recovered =>
          exists q A c', c = q :: A ++ c' /\ paborted q = false /\ precovered q = true /\ Forall ab A /\ shape r c'
      | _ => shape r c
      end
  end.

Lemma shape_head_live l : forall c, shape l c -> head_live c.
Proof.
  induction l as [|fr r IH]; intros c H; simpl in H.
  - subst. exact I.
  - destruct (fstat fr); try (apply IH; exact H);
      destruct H as [q [A [c' [-> [Hq _]]]]]; exact Hq.
Qed.

Lemma shape_app l1 : forall l2 c,
  shape (l1 ++ l2) c <-> exists c1 c2, c = c1 ++ c2 /\ shape l1 c1 /\ shape l2 c2.
Proof.
  induction l1 as [|fr r IH]; intros l2 c; simpl.
  - split.
    + intros H. exists [], c. auto.
    + intros [c1 [c2 [-> [-> H]]]]. exact H.
  - destruct (fstat fr); try apply IH.
    + split.
      * intros [q [A [c' [-> [H1 [H2 [H3 H4]]]]]]]. apply IH in H4. destruct H4 as [c1 [c2 [-> [H5 H6]]]].
        exists (q :: A ++ c1), c2. split; [simpl; rewrite <- app_assoc; reflexivity|].
        split; [|exact H6]. exists q, A, c1. auto.
      * intros [c1 [c2 [-> [[q [A [c' [-> [H1 [H2 [H3 H4]]]]]]] H6]]]].
        exists q, A, (c' ++ c2). split; [simpl; rewrite <- app_assoc; reflexivity|].
        repeat split; try assumption. apply IH. exists c', c2. auto.
    + split.
      * intros [q [A [c' [-> [H1 [H2 [H3 H4]]]]]]]. apply IH in H4. destruct H4 as [c1 [c2 [-> [H5 H6]]]].
        exists (q :: A ++ c1), c2. split; [simpl; rewrite <- app_assoc; reflexivity|].
        split; [|exact H6]. exists q, A, c1. auto.
      * intros [c1 [c2 [-> [[q [A [c' [-> [H1 [H2 [H3 H4]]]]]]] H6]]]].
        exists q, A, (c' ++ c2). split; [simpl; rewrite <- app_assoc; reflexivity|].
        repeat split; try assumption. apply IH. exists c', c2. auto.
Qed.

Lemma shape_dfr ds : shape (rev (dfr ds)) [].
Proof.
  unfold dfr. rewrite <- map_rev, rev_involutive. induction ds; simpl; [reflexivity|assumption].
Qed.

(* deferred frames own no record *)
Lemma shape_skip_dfr base ds c : shape (rev (base ++ dfr ds)) c <-> shape (rev base) c.
Proof.
  rewrite rev_app_distr, shape_app. split.
  - intros [c1 [c2 [-> [H1 H2]]]].
    assert (c1 = []).
    { clear - H1. unfold dfr in H1. rewrite <- map_rev, rev_involutive in H1.
      induction ds; simpl in H1; [exact H1|auto]. }
    subst. exact H2.
  - intros H. exists [], c. split; [reflexivity|]. split; [apply shape_dfr|exact H].
Qed.

Lemma shape_snoc_plain base fr c :
  fstat fr <> Panicked -> fstat fr <> Recovered ->
  (shape (rev (base ++ [fr])) c <-> shape (rev base) c).
Proof.
  intros H1 H2. rewrite rev_app_distr. simpl. destruct (fstat fr); try reflexivity; contradiction.
Qed.

(* ------------------------------------------------------------------ *)
(* Results of steps                                                     *)

Definition sleads (x : sres) (t : state) : Prop :=
  match x with Next s => leads s t | Fin _ _ => False end.

(* s ends as x does *)
Definition leads_res (s : state) (x : sres) : Prop :=
  match x with
  | Next t => leads s t
  | Fin o tr => exists m, run m s = Some (o, rev tr)
  end.

Definition ends (s : state) (o : outcome) (tr : list event) : Prop := exists m, run m s = Some (o, rev tr).

Lemma step_leads_res t0 x : step t0 = x -> leads_res t0 x.
Proof.
  intros H. destruct x as [s|o tr]; simpl.
  - apply leads_step. exact H.
  - exists 1. simpl. rewrite H. reflexivity.
Qed.

Lemma leads_res_trans s t x : leads s t -> leads_res t x -> leads_res s x.
Proof.
  intros H1 H2. destruct x as [u|o tr]; simpl in *.
  - eapply leads_trans; eassumption.
  - destruct H2 as [m Hm]. exact (H1 m _ Hm).
Qed.

Lemma leads_ends s t o tr : leads s t -> ends t o tr -> ends s o tr.
Proof. intros H1 [m Hm]. exact (H1 m _ Hm). Qed.

Lemma step_ends t0 o tr : step t0 = Fin o tr -> ends t0 o tr.
Proof. intros H. exists 1. simpl. rewrite H. reflexivity. Qed.

Lemma step_next_ends t0 s o tr : step t0 = Next s -> ends s o tr -> ends t0 o tr.
Proof. intros H1 H2. eapply leads_ends; [apply leads_step; exact H1|exact H2]. Qed.

(* ------------------------------------------------------------------ *)
(* Machine states at the boundaries of an activation                    *)

(* the loop of nextCall is about to examine the top of base *)
Definition ret_st (base : list frame) (c : list prec) (tr : list event) (o : list saved) (t : state) : Prop :=
  smode t = MNext (length base) /\ (exists junk, scalls t = base ++ junk) /\
  schain t = c /\ str t = tr /\ souter t = o.

(* a panic (record N) unwinds: the loop of nextCall is at the panicked frame
   pfr; the frames mid between X and pfr are the control frames of the
   activations the panic has left, whose records cmid are not yet marked as
   aborted in the VM (GoSpec has marked them: G) *)
Definition pan_st (X : list frame) (c' cout : list prec) (G : list grec) (tr : list event) (o : list saved)
    (t : state) : Prop :=
  exists mid pfr junk N A0 cmid,
    smode t = MNext (S (length (X ++ mid))) /\ scalls t = X ++ mid ++ pfr :: junk /\ fstat pfr = Panicked /\
    Forall ctl_frame mid /\
    schain t = N :: A0 ++ cmid ++ c' /\ paborted N = false /\ precovered N = false /\ Forall ab A0 /\
    shape (rev mid) cmid /\
    G = map gv (N :: A0 ++ abort_all cmid ++ c' ++ cout) /\ str t = tr /\ souter t = o.

(* the panic leaves a VM that has no call frame: the calling VMs take it over *)
Definition exits (s : state) (o : list saved) (cout : list prec) (G : list grec) (tr : list event) : Prop :=
  exists N A0 r',
    paborted N = false /\ precovered N = false /\ Forall ab A0 /\ G = map gv (N :: A0 ++ cout) /\
    leads_res s (end_panic_out o (N :: A0) tr r').

(* ------------------------------------------------------------------ *)
(* The search of case panicked through the frames a panic has left      *)

Lemma nth_error_app3 {A} (X mid : list A) fr R :
  nth_error (X ++ (mid ++ [fr]) ++ R) (length (X ++ mid)) = Some fr.
Proof.
  replace (X ++ (mid ++ [fr]) ++ R) with ((X ++ mid) ++ fr :: R)
    by (repeat rewrite <- app_assoc; reflexivity).
  apply nth_error_mid.
Qed.

Lemma scan_mid : forall mid X R pre Z cmid after,
  Forall ctl_frame mid -> Forall ab Z -> shape (rev mid) cmid ->
  exists W Z', W ++ Z' = Z ++ abort_all cmid /\ Forall ab Z' /\
    scan_panicked (X ++ mid ++ R) (length (X ++ mid)) pre (Z ++ cmid ++ after)
    = scan_panicked (X ++ mid ++ R) (length X) (pre ++ W) (Z' ++ after).
Proof.
  intros mid. induction mid as [|fr mid IH] using rev_ind; intros X R pre Z cmid after Hctl HZ Hsh.
  - simpl in Hsh. subst cmid. exists [], Z. simpl. rewrite !app_nil_r. auto.
  - apply Forall_app in Hctl. destruct Hctl as [Hctl Hfr]. inversion Hfr as [|? ? Hf _]; subst.
    rewrite rev_app_distr in Hsh. simpl in Hsh.
    replace (length (X ++ mid ++ [fr])) with (S (length (X ++ mid)))
      by (rewrite !app_length; simpl; lia).
    cbn [scan_panicked]. rewrite nth_error_app3.
    assert (Hplain : shape (rev mid) cmid ->
      exists W Z', W ++ Z' = Z ++ abort_all cmid /\ Forall ab Z' /\
        scan_panicked (X ++ (mid ++ [fr]) ++ R) (length (X ++ mid)) pre (Z ++ cmid ++ after)
        = scan_panicked (X ++ (mid ++ [fr]) ++ R) (length X) (pre ++ W) (Z' ++ after)).
    { intros Hs. replace (X ++ (mid ++ [fr]) ++ R) with (X ++ mid ++ (fr :: R))
        by (repeat rewrite <- app_assoc; reflexivity).
      apply IH; assumption. }
    assert (Hmark : forall q A c', cmid = q :: A ++ c' -> paborted q = false -> Forall ab A -> shape (rev mid) c' ->
      exists W Z', W ++ Z' = Z ++ abort_all cmid /\ Forall ab Z' /\
        match mark_next (Z ++ cmid ++ after) with
        | Some (done, rest) => scan_panicked (X ++ (mid ++ [fr]) ++ R) (length (X ++ mid)) (pre ++ done) rest
        | None => None
        end = scan_panicked (X ++ (mid ++ [fr]) ++ R) (length X) (pre ++ W) (Z' ++ after)).
    { intros q A c' -> Hq HA Hs.
      replace (Z ++ (q :: A ++ c') ++ after) with (Z ++ q :: (A ++ c' ++ after))
        by (simpl; rewrite <- app_assoc; reflexivity).
      rewrite (mark_next_skip Z q _ HZ Hq).
      replace (X ++ (mid ++ [fr]) ++ R) with (X ++ mid ++ (fr :: R))
        by (repeat rewrite <- app_assoc; reflexivity).
      destruct (IH X (fr :: R) (pre ++ Z ++ [set_aborted q]) A c' after Hctl HA Hs) as [W1 [Z1 [HW [HZ1 Heq]]]].
      exists (Z ++ [set_aborted q] ++ W1), Z1. split; [|split; [exact HZ1|]].
      - rewrite <- !app_assoc. f_equal. simpl. f_equal.
        change (map set_aborted (A ++ c')) with (abort_all (A ++ c')).
        rewrite abort_all_app, (abort_all_ab A HA). exact HW.
      - rewrite Heq. f_equal. rewrite <- !app_assoc. reflexivity. }
    destruct Hf as [Hf|[Hf|[Hf|Hf]]]; rewrite Hf in *.
    + apply Hplain. exact Hsh.
    + apply Hplain. exact Hsh.
    + destruct Hsh as [q [A [c' [E [H1 [H2 [H3 H4]]]]]]]. eapply Hmark; eassumption.
    + destruct Hsh as [q [A [c' [E [H1 [H2 [H3 H4]]]]]]]. eapply Hmark; eassumption.
Qed.

(* the step at the panicked frame when the frame below the frames left is a deferred one *)
Lemma step_pan_found t X0 d c' cout G tr o :
  pan_st (X0 ++ [mkframe d 0 Deferred]) c' cout G tr o t ->
  exists s1 owner N A,
    step t = after_switch s1 (mkframe d 0 Deferred) (S (length X0)) /\
    firstn (S (length X0)) (scalls s1) = X0 ++ [owner] /\ fstat owner = Panicked /\
    schain s1 = N :: A ++ c' /\ paborted N = false /\ precovered N = false /\ Forall ab A /\
    G = map gv (N :: A ++ c' ++ cout) /\
    str s1 = tr /\ souter s1 = o /\ sfn s1 = sfn t /\ sraised s1 = sraised t.
Proof.
  intros [mid [pfr [junk [N [A0 [cmid [Hm [Hc [Hp [Hctl [Hch [HN1 [HN2 [HA0 [Hsh [HG [Htr Ho]]]]]]]]]]]]]]]]].
  set (X := X0 ++ [mkframe d 0 Deferred]) in *.
  unfold step. rewrite Hm. unfold step_next.
  assert (Hnth : nth_error (scalls t) (length (X ++ mid)) = Some pfr).
  { rewrite Hc. replace (X ++ mid ++ pfr :: junk) with ((X ++ mid) ++ pfr :: junk) by (rewrite <- app_assoc; reflexivity).
    apply nth_error_mid. }
  rewrite Hnth, Hp, Hch. cbn [chain_split fst snd].
  destruct (scan_mid mid X (pfr :: junk) [N] A0 cmid c' Hctl HA0 Hsh) as [W [Z' [HW [HZ' Hscan]]]].
  rewrite Hc, Hscan.
  (* the deferred frame on top of X *)
  unfold X at 2. rewrite app_length. simpl length. replace (length X0 + 1) with (S (length X0)) by lia.
  cbn [scan_panicked].
  assert (Hd : nth_error (X ++ mid ++ pfr :: junk) (length X0) = Some (mkframe d 0 Deferred)).
  { unfold X. rewrite <- app_assoc. simpl. apply nth_error_mid. }
  rewrite Hd. cbn [fstat].
  (* the owner *)
  assert (Hab : exists above rest2, mid ++ pfr :: junk = above :: rest2).
  { destruct mid as [|m0 mid']; simpl; eauto. }
  destruct Hab as [above [rest2 Hab]].
  assert (Hown : nth_error (X ++ mid ++ pfr :: junk) (S (length X0)) = Some above).
  { rewrite Hab. unfold X.
    replace (S (length X0)) with (length (X0 ++ [mkframe d 0 Deferred])) by (rewrite app_length; simpl; lia).
    apply nth_error_mid. }
  rewrite Hown.
  eexists _, (set_status above Panicked), N, (A0 ++ abort_all cmid).
  split; [reflexivity|].
  cbn [scalls schain str souter sfn sraised set_chain set_calls].
  split.
  { rewrite Hab. unfold X. rewrite <- app_assoc. simpl. rewrite set_nth_mid. apply firstn_snoc. }
  split; [reflexivity|].
  split.
  { simpl. f_equal. rewrite <- !app_assoc. rewrite (app_assoc W Z'), HW, <- app_assoc. reflexivity. }
  split; [exact HN1|]. split; [exact HN2|].
  split; [apply Forall_app; split; [exact HA0|apply abort_all_Forall]|].
  split; [rewrite HG; rewrite <- !app_assoc; reflexivity|].
  repeat split; assumption.
Qed.

(* the same step when no frame is left below: the loop ends *)
Lemma step_pan_none t c' cout G tr o :
  pan_st [] c' cout G tr o t ->
  exists t' N A,
    step t = Next t' /\ smode t' = MNext 0 /\ schain t' = N :: A ++ c' /\
    paborted N = false /\ precovered N = false /\ Forall ab A /\
    G = map gv (N :: A ++ c' ++ cout) /\ str t' = tr /\ souter t' = o /\ sraised t' = sraised t.
Proof.
  intros [mid [pfr [junk [N [A0 [cmid [Hm [Hc [Hp [Hctl [Hch [HN1 [HN2 [HA0 [Hsh [HG [Htr Ho]]]]]]]]]]]]]]]]].
  simpl in Hm, Hc.
  unfold step. rewrite Hm. unfold step_next.
  assert (Hnth : nth_error (scalls t) (length mid) = Some pfr) by (rewrite Hc; apply nth_error_mid).
  rewrite Hnth, Hp, Hch. cbn [chain_split fst snd].
  destruct (scan_mid mid [] (pfr :: junk) [N] A0 cmid c' Hctl HA0 Hsh) as [W [Z' [HW [HZ' Hscan]]]].
  simpl app in Hscan. rewrite Hc, Hscan. cbn [length scan_panicked].
  eexists _, N, (A0 ++ abort_all cmid). split; [reflexivity|].
  cbn [smode schain str souter sraised set_mode set_chain].
  split; [reflexivity|]. split.
  { simpl. f_equal. rewrite <- !app_assoc. rewrite (app_assoc W Z'), HW, <- app_assoc. reflexivity. }
  split; [exact HN1|]. split; [exact HN2|].
  split; [apply Forall_app; split; [exact HA0|apply abort_all_Forall]|].
  split; [rewrite HG; rewrite <- !app_assoc; reflexivity|].
  repeat split; assumption.
Qed.

(* ------------------------------------------------------------------ *)
(* The context of an activation                                         *)

(* the top of the frames below an activation that is (bp) / is not run by the panic sequence *)
Definition top_ok (bp : bool) (base : list frame) : Prop :=
  if bp then exists B x, base = B ++ [x] /\ (fstat x = Panicked \/ fstat x = Recovered)
  else top_sr base.

Record ctx (bp : bool) (base : list frame) (c cout : list prec) : Prop := mkctx {
  ctx_top : top_ok bp base;
  ctx_shape : shape (rev base) c;
  ctx_out : head_live cout
}.

Lemma ctx_head_live bp base c cout : ctx bp base c cout -> head_live (c ++ cout).
Proof.
  intros [_ Hs Ho]. apply shape_head_live in Hs. destruct c; [exact Ho|exact Hs].
Qed.

(* what a callee can change below itself: recover() in a function run by the
   panic sequence turns the panicked frame on top into a recovered one and
   sets the flag of the first record *)
Inductive upd (bp : bool) (base : list frame) (c : list prec) : list frame -> list prec -> Prop :=
| upd_same : upd bp base c base c
| upd_rec B x q rest :
    bp = true -> base = B ++ [x] -> fstat x = Panicked -> c = q :: rest ->
    upd bp base c (B ++ [set_status x Recovered]) (set_recovered q :: rest).

Lemma upd_false base c base' c' : upd false base c base' c' -> base' = base /\ c' = c.
Proof. inversion 1; [auto|discriminate]. Qed.

Lemma upd_length bp base c base' c' : upd bp base c base' c' -> length base' = length base.
Proof. inversion 1; subst; [reflexivity|]. rewrite !app_length. reflexivity. Qed.

Lemma upd_trans bp base c b1 c1 b2 c2 :
  upd bp base c b1 c1 -> upd bp b1 c1 b2 c2 -> upd bp base c b2 c2.
Proof.
  intros H1 H2. inversion H1; subst; [exact H2|]. inversion H2; subst; [exact H1|].
  exfalso.
  match goal with H : _ ++ [_] = _ ++ [_] |- _ => apply app_inj_tail in H; destruct H as [_ E] end.
  subst. match goal with H : fstat (set_status _ Recovered) = Panicked |- _ => simpl in H; discriminate end.
Qed.

Lemma upd_snoc_inv bp A ctl c b' c' :
  upd bp (A ++ [ctl]) c b' c' ->
  (b' = A ++ [ctl] /\ c' = c) \/
  (bp = true /\ fstat ctl = Panicked /\ exists q rest,
     c = q :: rest /\ b' = A ++ [set_status ctl Recovered] /\ c' = set_recovered q :: rest).
Proof.
  inversion 1; subst; [left; auto|]. right.
  match goal with H : _ ++ [_] = _ ++ [_] |- _ => apply app_inj_tail in H; destruct H as [<- <-] end.
  split; [reflexivity|]. split; [assumption|]. eauto.
Qed.

Lemma set_status_same fr : set_status fr (fstat fr) = fr.
Proof. destruct fr; reflexivity. Qed.

Lemma shape_snoc_top B x c :
  shape (rev (B ++ [x])) c =
  match fstat x with
  | Panicked => exists q A c', c = q :: A ++ c' /\ paborted q = false /\ precovered q = false /\ Forall ab A /\ shape (rev B) c'
  | Recovered => exists q A c', c = q :: A ++ c' /\ paborted q = false /\ precovered q = true /\ Forall ab A /\ shape (rev B) c'
  | _ => shape (rev B) c
  end.
Proof. rewrite rev_app_distr. reflexivity. Qed.

Lemma upd_ctx bp base c cout base' c' :
  ctx bp base c cout -> upd bp base c base' c' -> ctx bp base' c' cout.
Proof.
  intros Hc Hu. inversion Hu; subst; [exact Hc|]. destruct Hc as [Ht Hs Ho]. constructor; [| |exact Ho].
  - simpl. exists B, (set_status x Recovered). split; [reflexivity|]. right. reflexivity.
  - rewrite shape_snoc_top in *.
    match goal with H : fstat x = Panicked |- _ => rewrite H in Hs end. simpl.
    destruct Hs as [q0 [A [c' [E [H3 [H4 [H5 H6]]]]]]]. inversion E; subst.
    exists (set_recovered q0), A, c'. auto.
Qed.

Lemma top_sr_not_def base : top_sr base -> top_not_deferred base.
Proof. apply top_sr_nd. Qed.

Lemma top_ok_nd bp base : top_ok bp base -> top_not_deferred base.
Proof.
  destruct bp; simpl; [|apply top_sr_nd].
  intros [B [x [-> Hx]]] y Hy. rewrite app_length in Hy. simpl in Hy.
  replace (pred (length B + 1)) with (length B) in Hy by lia. rewrite nth_error_mid in Hy.
  inversion Hy; subst. destruct Hx as [Hx|Hx]; rewrite Hx; discriminate.
Qed.

(* ------------------------------------------------------------------ *)
(* Moving the boundary of a panicking state one control frame down      *)

Lemma pan_st_shift_plain X fr c' cout G tr o t :
  pan_st (X ++ [fr]) c' cout G tr o t ->
  (fstat fr = Started \/ fstat fr = Returned) ->
  pan_st X c' cout G tr o t.
Proof.
  intros [mid [pfr [junk [N [A0 [cmid [Hm [Hc [Hp [Hctl [Hch [HN1 [HN2 [HA0 [Hsh [HG [Htr Ho]]]]]]]]]]]]]]]]] Hf.
  exists (fr :: mid), pfr, junk, N, A0, cmid.
  rewrite <- app_assoc in Hm, Hc. simpl in Hm, Hc.
  repeat split; try assumption.
  - constructor; [|exact Hctl]. destruct Hf as [Hf|Hf]; [left|right; left]; exact Hf.
  - simpl. rewrite shape_app. exists cmid, []. rewrite app_nil_r. split; [reflexivity|]. split; [exact Hsh|].
    simpl. destruct Hf as [Hf|Hf]; rewrite Hf; reflexivity.
Qed.

Lemma pan_st_shift_mark X fr q Aq c'' cout G tr o t :
  pan_st (X ++ [fr]) (q :: Aq ++ c'') cout G tr o t ->
  (fstat fr = Panicked /\ precovered q = false \/ fstat fr = Recovered /\ precovered q = true) ->
  paborted q = false -> Forall ab Aq ->
  pan_st X c'' cout (mark_aborted G (length G - length (q :: Aq ++ c'' ++ cout))) tr o t.
Proof.
  intros [mid [pfr [junk [N [A0 [cmid [Hm [Hc [Hp [Hctl [Hch [HN1 [HN2 [HA0 [Hsh [HG [Htr Ho]]]]]]]]]]]]]]]]] Hf Hq HAq.
  exists (fr :: mid), pfr, junk, N, A0, (cmid ++ q :: Aq).
  rewrite <- app_assoc in Hm, Hc. simpl in Hm, Hc.
  repeat split; try assumption.
  - constructor; [|exact Hctl]. destruct Hf as [[Hf _]|[Hf _]]; [right; right; left|right; right; right]; exact Hf.
  - rewrite Hch. f_equal. f_equal. rewrite <- !app_assoc. reflexivity.
  - simpl. rewrite shape_app. exists cmid, (q :: Aq). split; [reflexivity|]. split; [exact Hsh|].
    simpl. destruct Hf as [[Hf Hr]|[Hf Hr]]; rewrite Hf; exists q, Aq, []; rewrite app_nil_r; auto.
  - rewrite HG.
    remember (map gv (N :: A0 ++ abort_all cmid)) as L1 eqn:HL1.
    assert (E : map gv (N :: A0 ++ abort_all cmid ++ (q :: Aq ++ c'') ++ cout)
                = L1 ++ gv q :: map gv (Aq ++ c'' ++ cout)).
    { subst L1. simpl. f_equal. rewrite !map_app. rewrite <- !app_assoc. simpl. rewrite !map_app. reflexivity. }
    rewrite E.
    replace (length (L1 ++ gv q :: map gv (Aq ++ c'' ++ cout)) - length (q :: Aq ++ c'' ++ cout)) with (length L1).
    2:{ rewrite app_length. cbn [length]. rewrite map_length. lia. }
    rewrite mark_aborted_at. subst L1. simpl. f_equal.
    rewrite abort_all_app, !map_app. simpl. rewrite (abort_all_ab Aq HAq).
    rewrite <- !app_assoc. reflexivity.
Qed.

(* ------------------------------------------------------------------ *)
(* OpRecover on the stacks of the correspondence                        *)

Lemma recover_search_prefix l r : forall k, k <= length l -> recover_search (l ++ r) k = recover_search l k.
Proof.
  induction k; intros Hk; [reflexivity|]. simpl. rewrite nth_error_prefix by lia.
  destruct (nth_error l k) as [fr|]; [|reflexivity]. destruct (fstat fr); try reflexivity. apply IHk. lia.
Qed.

Lemma recover_search_skip_dfr base ds :
  recover_search (base ++ dfr ds) (length (base ++ dfr ds)) = recover_search base (length base).
Proof.
  induction ds as [|c ds IH].
  - unfold dfr. simpl. rewrite app_nil_r. reflexivity.
  - rewrite dfr_cons, app_assoc, app_length. simpl.
    replace (length (base ++ dfr ds) + 1) with (S (length (base ++ dfr ds))) by lia.
    simpl. rewrite nth_error_mid. simpl. rewrite recover_search_prefix by lia. exact IH.
Qed.

(* what the search finds at the top of the frames below the activation *)
Definition top_panicked (base : list frame) : option nat :=
  match rev base with
  | x :: r => match fstat x with Panicked => Some (length r) | _ => None end
  | [] => None
  end.

Lemma recover_search_top bp base : top_ok bp base -> recover_search base (length base) = top_panicked base.
Proof.
  intros Ht. unfold top_panicked.
  destruct (rev base) as [|x r] eqn:Hr.
  - apply (f_equal (@rev frame)) in Hr. rewrite rev_involutive in Hr. subst. reflexivity.
  - apply (f_equal (@rev frame)) in Hr. rewrite rev_involutive in Hr. simpl in Hr. subst base.
    rewrite app_length, rev_length. simpl. replace (length r + 1) with (S (length r)) by lia.
    simpl. rewrite <- (rev_length r), nth_error_mid.
    destruct bp; simpl in Ht.
    + destruct Ht as [B [y [E Hy]]]. apply app_inj_tail in E. destruct E as [_ <-].
      destruct Hy as [Hy|Hy]; rewrite Hy; reflexivity.
    + specialize (Ht x). rewrite app_length in Ht. simpl in Ht.
      replace (pred (length (rev r) + 1)) with (length (rev r)) in Ht by lia.
      rewrite nth_error_mid in Ht. destruct (Ht eq_refl) as [[Hs _]|Hs]; rewrite Hs; reflexivity.
Qed.

Lemma top_panicked_some base i : top_panicked base = Some i ->
  exists B x, base = B ++ [x] /\ fstat x = Panicked /\ i = length B.
Proof.
  unfold top_panicked. destruct (rev base) as [|x r] eqn:Hr; [discriminate|].
  apply (f_equal (@rev frame)) in Hr. rewrite rev_involutive in Hr. simpl in Hr.
  destruct (fstat x) eqn:Hx; try discriminate. intros H. inversion H.
  exists (rev r), x. rewrite rev_length. auto.
Qed.

Lemma top_panicked_none bp base : top_ok bp base -> top_panicked base = None ->
  bp = false \/ exists B x, base = B ++ [x] /\ fstat x = Recovered.
Proof.
  destruct bp; [|auto]. intros [B [x [-> Hx]]] H. right. exists B, x. split; [reflexivity|].
  unfold top_panicked in H. rewrite rev_app_distr in H. simpl in H.
  destruct Hx as [Hx|Hx]; [rewrite Hx in H; discriminate|exact Hx].
Qed.

Lemma mark_recovered_top B x rest :
  fstat x = Panicked -> mark_recovered (B ++ x :: rest) (length B) = B ++ set_status x Recovered :: rest.
Proof. intros _. unfold mark_recovered. rewrite nth_error_mid, set_nth_mid. reflexivity. Qed.

(* ------------------------------------------------------------------ *)
(* Steps of nextCall on the stacks of the correspondence                *)

Lemma after_switch_start s1 d i :
  after_switch s1 (mkframe d 0 Deferred) i =
  match d with
  | CFn h => Next (mkstate MExec (Some h) 0 (firstn i (scalls s1)) (schain s1) (str s1) (sraised s1) (souter s1))
  | CNat (NBody n) =>
      Next (mkstate (MNext i) (sfn s1) (spc s1) (firstn i (scalls s1)) (schain s1) (EBody n :: str s1) (sraised s1) (souter s1))
  | CNat (NStop e) => Fin (OStop e) (EStop e :: str s1)
  | CNat (NFatal v) => Fin (ORunPanics v) (EFatal v :: str s1)
  | CNat (NPanic v) =>
      raise_with (set_calls s1 (firstn i (scalls s1))) (match sfn s1 with Some f => CFn f | None => CNone end) None v
  | CNone => Fin OCrash (str s1)
  end.
Proof. destruct d as [h|[n|e|v|v]|]; reflexivity. Qed.

(* the loop of nextCall at the control frame of an activation that runs its
   deferred calls and is not (or no longer) panicking; c0 is the chain after
   the recovered panic, if any, has left it *)
Definition rdn_state (A : list frame) (ctl : frame) (c0 : list prec) (tr : list event) (o : list saved)
    (t : state) : Prop :=
  smode t = MNext (S (length A)) /\ (exists junk, scalls t = A ++ ctl :: junk) /\ str t = tr /\ souter t = o /\
  ((fstat ctl = Returned /\ schain t = c0) \/
   (fstat ctl = Recovered /\ exists q Aab, schain t = q :: Aab ++ c0 /\ Forall ab Aab /\ head_live c0)).

Lemma rdn_trim A ctl c0 tr o t :
  rdn_state A ctl c0 tr o t ->
  (if status_eqb (fstat ctl) Recovered then trim t else Some t) = Some (set_chain t c0) /\
  (if status_eqb (fstat ctl) Recovered then set_status ctl Returned else ctl) = set_status ctl Returned.
Proof.
  intros [_ [_ [_ [_ [[Hs Hc]|[Hs [q [Aab [Hc [Ha Hl]]]]]]]]]]; rewrite Hs.
  - change (status_eqb Returned Recovered) with false. cbv iota. split.
    + f_equal. destruct t; simpl in *. subst. reflexivity.
    + rewrite <- Hs. symmetry. apply set_status_same.
  - change (status_eqb Recovered Recovered) with true. cbv iota. split; [|reflexivity].
    unfold trim. rewrite Hc. f_equal. f_equal. rewrite drop_ab_app by exact Ha. apply drop_ab_head_live. exact Hl.
Qed.

(* no deferred call is left below the control frame *)
Lemma rdn_step_last A ctl c0 tr o t :
  rdn_state A ctl c0 tr o t -> top_not_deferred A ->
  exists t', step t = Next t' /\ ret_st A c0 tr o t' /\ sraised t' = sraised t.
Proof.
  intros Hst Htop. destruct (rdn_trim _ _ _ _ _ _ Hst) as [Htrim _].
  destruct Hst as [Hm [[junk Hc] [Htr [Ho Hs]]]].
  assert (Hk : fstat ctl = Returned \/ fstat ctl = Recovered) by (destruct Hs as [[H _]|[H _]]; auto).
  unfold step. rewrite Hm. unfold step_next. rewrite Hc, nth_error_mid.
  assert (G : match (if status_eqb (fstat ctl) Recovered then trim t else Some t) with
              | Some s0 =>
                  match prev_deferred (scalls s0) (length A) with
                  | Some (j, prev) =>
                      after_switch (set_calls s0 (set_nth (scalls s0) j
                        (if status_eqb (fstat ctl) Recovered then set_status ctl Returned else ctl))) prev (length A)
                  | None => Next (set_mode s0 (MNext (length A)))
                  end
              | None => Fin OCrash (str t)
              end = Next (set_mode (set_chain t c0) (MNext (length A)))).
  { rewrite Htrim. cbn [scalls set_chain]. rewrite Hc, prev_deferred_none by exact Htop. reflexivity. }
  exists (set_mode (set_chain t c0) (MNext (length A))). split.
  - destruct Hk as [Hk|Hk]; rewrite Hk in *; exact G.
  - split; [|reflexivity]. repeat split; cbn [smode scalls schain str souter set_mode set_chain]; try assumption.
    exists (ctl :: junk). exact Hc.
Qed.

(* the next deferred call of the activation is run *)
Lemma rdn_step_deferred A0 d ctl c0 tr o t :
  rdn_state (A0 ++ [mkframe d 0 Deferred]) ctl c0 tr o t ->
  exists s1, step t = after_switch s1 (mkframe d 0 Deferred) (S (length A0)) /\
    firstn (S (length A0)) (scalls s1) = A0 ++ [set_status ctl Returned] /\
    schain s1 = c0 /\ str s1 = tr /\ souter s1 = o /\ sraised s1 = sraised t.
Proof.
  intros Hst. destruct (rdn_trim _ _ _ _ _ _ Hst) as [Htrim Hcall].
  destruct Hst as [Hm [[junk Hc] [Htr [Ho Hs]]]].
  assert (Hk : fstat ctl = Returned \/ fstat ctl = Recovered) by (destruct Hs as [[H _]|[H _]]; auto).
  set (A := A0 ++ [mkframe d 0 Deferred]) in *.
  assert (HlA : length A = S (length A0)) by (unfold A; rewrite app_length; simpl; lia).
  unfold step. rewrite Hm. unfold step_next. rewrite Hc, nth_error_mid.
  assert (Hprev : prev_deferred (A ++ ctl :: junk) (length A) = Some (length A0, mkframe d 0 Deferred)).
  { rewrite HlA. unfold prev_deferred, A. rewrite <- app_assoc. simpl. rewrite nth_error_mid. reflexivity. }
  assert (G : match (if status_eqb (fstat ctl) Recovered then trim t else Some t) with
              | Some s0 =>
                  match prev_deferred (scalls s0) (length A) with
                  | Some (j, prev) =>
                      after_switch (set_calls s0 (set_nth (scalls s0) j
                        (if status_eqb (fstat ctl) Recovered then set_status ctl Returned else ctl))) prev (length A)
                  | None => Next (set_mode s0 (MNext (length A)))
                  end
              | None => Fin OCrash (str t)
              end = after_switch (set_calls (set_chain t c0)
                       (A0 ++ set_status ctl Returned :: ctl :: junk)) (mkframe d 0 Deferred) (S (length A0))).
  { rewrite Htrim, Hcall. cbn [scalls set_chain]. rewrite Hc, Hprev. rewrite HlA.
    unfold A. rewrite <- app_assoc. simpl. rewrite set_nth_mid. reflexivity. }
  eexists. split.
  - destruct Hk as [Hk|Hk]; rewrite Hk in *; exact G.
  - cbn [scalls schain str souter sraised set_calls set_chain]. rewrite firstn_snoc. repeat split; assumption.
Qed.

(* OpReturn of an activation of f whose pending deferred calls are d :: ds' *)
Lemma ret_entry_deferred f pc A0 d c tr r o :
  fetch f pc = Some IReturn ->
  exists u s1,
    step (mkstate MExec (Some f) pc (A0 ++ [mkframe d 0 Deferred]) c tr r o) = Next u /\
    step u = after_switch s1 (mkframe d 0 Deferred) (S (length A0)) /\
    firstn (S (length A0)) (scalls s1) = A0 ++ [mkframe (CFn f) 0 Returned] /\
    schain s1 = c /\ str s1 = tr /\ souter s1 = o.
Proof.
  intros Hfe.
  set (s := mkstate MExec (Some f) pc (A0 ++ [mkframe d 0 Deferred]) c tr r o).
  assert (Hstep := step_exec_at s f IReturn eq_refl eq_refl Hfe).
  unfold s in Hstep at 2. cbv zeta in Hstep. proj_in Hstep.
  rewrite app_length in Hstep. simpl in Hstep. replace (length A0 + 1) with (S (length A0)) in Hstep by lia.
  rewrite nth_error_mid in Hstep. simpl in Hstep.
  match type of Hstep with _ = Next ?u0 => set (u := u0) in * end.
  exists u. eexists. split; [exact Hstep|].
  split; [apply (step_deferred_top u A0 (mkframe d 0 Deferred) [] f eq_refl eq_refl eq_refl eq_refl)|].
  cbn [scalls schain str souter set_calls]. rewrite firstn_snoc. auto.
Qed.

(* OpReturn of an activation without pending deferred calls *)
Lemma ret_entry_none bp f pc base c tr r o :
  fetch f pc = Some IReturn -> top_ok bp base ->
  exists t, leads (mkstate MExec (Some f) pc base c tr r o) t /\ ret_st base c tr o t.
Proof.
  intros Hfe Htop.
  set (s := mkstate MExec (Some f) pc base c tr r o).
  assert (Hstep := step_exec_at s f IReturn eq_refl eq_refl Hfe).
  unfold s in Hstep at 2. cbv zeta in Hstep. proj_in Hstep.
  destruct (length base) as [|i] eqn:Hl.
  - destruct base; [|discriminate].
    exists (mkstate (MNext 0) (Some f) (S pc) [] c tr r o). split.
    + apply leads_same_step. rewrite Hstep. reflexivity.
    + repeat split. exists []. reflexivity.
  - assert (Hb : exists A fr, base = A ++ [fr] /\ length A = i).
    { destruct (exists_last (l := base)) as [A [fr ->]]; [intros ->; discriminate|].
      exists A, fr. split; [reflexivity|]. rewrite app_length in Hl. simpl in Hl. lia. }
    destruct Hb as [A [fr [-> Hi]]]. subst i.
    rewrite nth_error_mid in Hstep.
    destruct (fstat fr) eqn:Hst.
    + (* a started frame: the direct return; the state of the loop that does the same *)
      assert (Hg : exists g, fcl fr = CFn g).
      { destruct bp; simpl in Htop.
        - destruct Htop as [B [x [E Hx]]]. apply app_inj_tail in E. destruct E as [_ <-].
          destruct Hx as [Hx|Hx]; rewrite Hx in Hst; discriminate.
        - specialize (Htop fr). rewrite app_length in Htop. simpl in Htop.
          replace (pred (length A + 1)) with (length A) in Htop by lia. rewrite nth_error_mid in Htop.
          destruct (Htop eq_refl) as [[_ Hg]|Hr]; [exact Hg|rewrite Hr in Hst; discriminate]. }
      destruct Hg as [g Hg]. rewrite Hg in Hstep. simpl in Hstep. rewrite firstn_exact in Hstep.
      exists (mkstate (MNext (length (A ++ [fr]))) (Some f) (S pc) (A ++ [fr]) c tr r o). split.
      * apply leads_same_step. rewrite Hstep. symmetry.
        rewrite app_length. simpl. replace (length A + 1) with (S (length A)) by lia.
        erewrite step_started; [reflexivity|reflexivity|reflexivity|exact Hst|exact Hg].
      * repeat split. exists []. rewrite app_nil_r. reflexivity.
    + exfalso. destruct bp; simpl in Htop.
      * destruct Htop as [B [x [E Hx]]]. apply app_inj_tail in E. destruct E as [_ <-].
        destruct Hx as [Hx|Hx]; rewrite Hx in Hst; discriminate.
      * specialize (Htop fr). rewrite app_length in Htop. simpl in Htop.
        replace (pred (length A + 1)) with (length A) in Htop by lia. rewrite nth_error_mid in Htop.
        destruct (Htop eq_refl) as [[Hr _]|Hr]; rewrite Hr in Hst; discriminate.
    + simpl in Hstep. eexists. split; [apply leads_step; exact Hstep|].
      repeat split; proj; try reflexivity.
      * rewrite app_length. simpl. f_equal. lia.
      * exists []. rewrite app_nil_r. reflexivity.
    + exfalso. apply (top_ok_nd bp _ Htop fr); [|exact Hst].
      rewrite app_length. simpl. replace (pred (length A + 1)) with (length A) by lia. apply nth_error_mid.
    + simpl in Hstep. eexists. split; [apply leads_step; exact Hstep|].
      repeat split; proj; try reflexivity.
      * rewrite app_length. simpl. f_equal. lia.
      * exists []. rewrite app_nil_r. reflexivity.
    + simpl in Hstep. eexists. split; [apply leads_step; exact Hstep|].
      repeat split; proj; try reflexivity.
      * rewrite app_length. simpl. f_equal. lia.
      * exists []. rewrite app_nil_r. reflexivity.
Qed.

Lemma raise_with_nonempty s owner line v :
  scalls s <> [] ->
  raise_with s owner line v =
  Next (mkstate (MNext (length (scalls s ++ [mkframe owner 0 Panicked]))) None (spc s)
                (scalls s ++ [mkframe owner 0 Panicked])
                (mkprec v false false line (sraised s) :: schain s) (str s) (N.succ (sraised s)) (souter s)).
Proof. intros H. unfold raise_with. destruct (scalls s); [contradiction|reflexivity]. Qed.

(* a panic raised with the frames X below: the panicking state with nothing left behind yet *)
Lemma pan_st_raised X c cout tr o owner line v ser fn pc r :
  pan_st X c cout (map gv (mkprec v false false line ser :: c ++ cout)) tr o
    (mkstate (MNext (length (X ++ [mkframe owner 0 Panicked]))) fn pc (X ++ [mkframe owner 0 Panicked])
             (mkprec v false false line ser :: c) tr r o).
Proof.
  exists [], (mkframe owner 0 Panicked), [], (mkprec v false false line ser), [], [].
  rewrite !app_nil_r. simpl. repeat split; try reflexivity; try constructor.
  rewrite app_length. simpl. f_equal. lia.
Qed.

(* ------------------------------------------------------------------ *)
(* The simulation, relative to the function that runs the callees       *)

Definition sends (x : sres) (o : outcome) (tr : list event) : Prop :=
  match x with Next s => ends s o tr | Fin o' tr' => o' = o /\ tr' = tr end.

Lemma step_sends t0 x o tr : step t0 = x -> sends x o tr -> ends t0 o tr.
Proof.
  intros H1 H2. destruct x as [s|o' tr']; simpl in H2.
  - eapply step_next_ends; eassumption.
  - destruct H2 as [-> ->]. apply step_ends. exact H1.
Qed.

Lemma step_sleads t0 x t : step t0 = x -> sleads x t -> leads t0 t.
Proof.
  intros H1 H2. destruct x as [s|]; simpl in H2; [|contradiction].
  eapply leads_trans; [apply leads_step; exact H1|exact H2].
Qed.

(* what the run of a piece of GoSpec from the machine state s0 leads to *)
Definition sim_concl (bp : bool) (base : list frame) (c cout : list prec) (o : list saved)
    (s0 : state) (res : gres) : Prop :=
  match res with
  | GNormal g' =>
      exists t base' c', leads s0 t /\ ret_st base' c' (gtr g') o t /\ upd bp base c base' c' /\
                         gpan g' = map gv (c' ++ cout)
  | GPanicking g' =>
      (base <> [] -> exists t base' c', leads s0 t /\ upd bp base c base' c' /\
                                        pan_st base' c' cout (gpan g') (gtr g') o t) /\
      (base = [] -> exits s0 o cout (gpan g') (gtr g'))
  | GExit o' tr' => ends s0 o' tr'
  | GFuel => True
  end.

Lemma sim_concl_leads bp base c cout o s0 s1 res :
  leads s0 s1 -> sim_concl bp base c cout o s1 res -> sim_concl bp base c cout o s0 res.
Proof.
  intros Hl. destruct res as [g'|g'|o' tr'|]; simpl; [| | |auto].
  - intros [t [b' [c' [H1 H2]]]]. exists t, b', c'. split; [eapply leads_trans; eassumption|exact H2].
  - intros [H1 H2]. split.
    + intros Hb. destruct (H1 Hb) as [t [b' [c' [H3 H4]]]]. exists t, b', c'.
      split; [eapply leads_trans; eassumption|exact H4].
    + intros Hb. destruct (H2 Hb) as [N [A0 [r' [H3 [H4 [H5 [H6 H7]]]]]]]. exists N, A0, r'.
      split; [exact H3|]. split; [exact H4|]. split; [exact H5|]. split; [exact H6|].
      eapply leads_res_trans; eassumption.
  - intros H. eapply leads_ends; eassumption.
Qed.

(* the same result seen from frames and a chain that a previous piece has updated *)
Lemma sim_concl_upd bp base c b1 c1 cout o s0 res :
  upd bp base c b1 c1 -> sim_concl bp b1 c1 cout o s0 res -> sim_concl bp base c cout o s0 res.
Proof.
  intros Hu. destruct res as [g'|g'|o' tr'|]; simpl; [| |auto|auto].
  - intros [t [b' [c' [H1 [H2 [H3 H4]]]]]]. exists t, b', c'.
    split; [exact H1|]. split; [exact H2|]. split; [eapply upd_trans; eassumption|exact H4].
  - intros [H1 H2]. assert (Hlen := upd_length _ _ _ _ _ Hu). split.
    + intros Hb. destruct H1 as [t [b' [c' [H3 [H4 H5]]]]].
      { intros ->. destruct base; [contradiction|discriminate]. }
      exists t, b', c'. split; [exact H3|]. split; [eapply upd_trans; eassumption|exact H5].
    + intros ->. apply H2. destruct b1; [reflexivity|discriminate].
Qed.

Section Sim.

Variable rec : func -> bool -> bool -> gst -> gres.

Definition sim_fn (h : func) : Prop :=
  forall bp pp g base c cout r o,
    ctx bp base c cout -> gpan g = map gv (c ++ cout) -> cout = flat_map vchain o ->
    sim_concl bp base c cout o (mkstate MExec (Some h) 0 base c (gtr g) r o) (rec h bp pp g).

Hypothesis rec_sim : forall h, ok_fn h = true -> sim_fn h.

Hypothesis rec_down : forall inf bp pp g,
  rec (mkfunc [IRecover true] inf) bp pp g = GFuel \/
  rec (mkfunc [IRecover true] inf) bp pp g = GNormal (grecover g true (negb bp && pp)).

(* what a deferred call can change below itself: nothing; the control frame
   of the activation that runs it because of a panic (recover() in the
   call); the frame below that activation (`defer recover()` of an activation
   that is itself a deferred call run by the panic sequence) *)
Inductive chg (panicking bpA : bool) (base : list frame) (ctl : frame) (c : list prec)
    : list frame -> frame -> list prec -> Prop :=
| chg_same : chg panicking bpA base ctl c base ctl c
| chg_ctl q rest :
    panicking = true -> c = q :: rest ->
    chg panicking bpA base ctl c base (set_status ctl Recovered) (set_recovered q :: rest)
| chg_base B x q rest :
    panicking = false -> bpA = true -> base = B ++ [x] -> fstat x = Panicked -> c = q :: rest ->
    chg panicking bpA base ctl c (B ++ [set_status x Recovered]) ctl (set_recovered q :: rest).

Lemma chg_true_inv bpA base ctl c base' ctl' c' :
  chg true bpA base ctl c base' ctl' c' ->
  base' = base /\
  ((ctl' = ctl /\ c' = c) \/
   exists q rest, c = q :: rest /\ ctl' = set_status ctl Recovered /\ c' = set_recovered q :: rest).
Proof.
  inversion 1; subst; [auto| |discriminate]. split; [reflexivity|]. right. eauto.
Qed.

Lemma chg_false_inv bpA base ctl c base' ctl' c' :
  chg false bpA base ctl c base' ctl' c' -> ctl' = ctl /\ upd bpA base c base' c'.
Proof.
  inversion 1; subst; [split; [reflexivity|constructor]|discriminate|].
  split; [reflexivity|]. apply upd_rec; auto.
Qed.

(* the result of the deferred call d in GoSpec *)
Definition callee_res (d : callee) (panicking bpA : bool) (g : gst) : gres :=
  match d with
  | CNat (NBody n) => GNormal (gemit g (EBody n))
  | CNat (NStop e) => GExit (OStop e) (EStop e :: gtr g)
  | CNat (NFatal v) => GExit (ORunPanics v) (EFatal v :: gtr g)
  | CNat (NPanic v) => GPanicking (gpush g v None)
  | CNone => GNormal g
  | CFn h => rec h panicking bpA g
  end.

Lemma shape_base_of A base ds' ctl c :
  A = base ++ dfr ds' -> fstat ctl = Returned -> shape (rev (A ++ [ctl])) c -> shape (rev base) c.
Proof.
  intros -> Hc H. rewrite shape_snoc_plain in H by (rewrite Hc; discriminate).
  apply shape_skip_dfr in H. exact H.
Qed.

Lemma run_callee (panicking bpA : bool) base ds' ctl c cout o g d s1 :
  ok_callee d ->
  top_ok bpA base -> shape (rev ((base ++ dfr ds') ++ [ctl])) c -> head_live cout -> cout = flat_map vchain o ->
  fstat ctl = (if panicking then Panicked else Returned) ->
  firstn (S (length (base ++ dfr ds'))) (scalls s1) = (base ++ dfr ds') ++ [ctl] ->
  schain s1 = c -> str s1 = gtr g -> souter s1 = o ->
  gpan g = map gv (c ++ cout) ->
  let x := after_switch s1 (mkframe d 0 Deferred) (S (length (base ++ dfr ds'))) in
  match callee_res d panicking bpA g with
  | GNormal g' =>
      exists t base' ctl' c', sleads x t /\ ret_st ((base' ++ dfr ds') ++ [ctl']) c' (gtr g') o t /\
        chg panicking bpA base ctl c base' ctl' c' /\ gpan g' = map gv (c' ++ cout)
  | GPanicking g' =>
      exists t base' ctl' c', sleads x t /\ chg panicking bpA base ctl c base' ctl' c' /\
        pan_st ((base' ++ dfr ds') ++ [ctl']) c' cout (gpan g') (gtr g') o t
  | GExit o' tr' => sends x o' tr'
  | GFuel => True
  end.
Proof.
  intros Hok Htop Hsh Hout Hco Hctl Hfirst Hch Htr Ho Hg x.
  set (A := base ++ dfr ds') in *.
  assert (HlenA : length (A ++ [ctl]) = S (length A)) by (rewrite app_length; simpl; lia).
  unfold x. rewrite after_switch_start.
  destruct d as [h|[n|e|v|v]|]; cbn [callee_res].
  - (* a Scriggo function *)
    rewrite Hfirst, Hch, Htr, Ho.
    destruct Hok as [Hdown|Hokh].
    + (* defer recover() *)
      destruct h as [hb hinf]. simpl in Hdown.
      destruct hb as [|[| | | | |[|]| |] [|? ?]]; try discriminate. clear Hdown.
      set (h := mkfunc [IRecover true] hinf).
      destruct (rec_down hinf panicking bpA g) as [E|E]; fold h in E; rewrite E; [exact I|].
      set (s_h := mkstate MExec (Some h) 0 (A ++ [ctl]) c (gtr g) (sraised s1) o).
      assert (Hstep := step_exec_at s_h h (IRecover true) eq_refl eq_refl eq_refl).
      unfold s_h in Hstep at 2. cbv zeta in Hstep. unfold do_recover, recover_start in Hstep. proj_in Hstep.
      rewrite HlenA, nth_error_mid in Hstep.
      (* the second step: the Return that fetch appends *)
      assert (Hret : forall b' c' tr' rr, top_ok panicking ((b' ++ dfr ds') ++ [ctl]) ->
                exists t, leads (mkstate MExec (Some h) 1 ((b' ++ dfr ds') ++ [ctl]) c' tr' rr o) t /\
                          ret_st ((b' ++ dfr ds') ++ [ctl]) c' tr' o t).
      { intros b' c' tr' rr Ht. eapply ret_entry_none; [|exact Ht]. reflexivity. }
      assert (Htopc : forall b', top_ok panicking ((b' ++ dfr ds') ++ [ctl])).
      { intros b'. destruct panicking; simpl.
        - exists (b' ++ dfr ds'), ctl. split; [reflexivity|]. left. exact Hctl.
        - apply top_sr_snoc. right. exact Hctl. }
      destruct panicking.
      * (* run by the panic sequence: recover() is not called by a deferred function *)
        rewrite Hctl in Hstep. simpl in Hstep. unfold emit_rec in Hstep. proj_in Hstep.
        destruct (Hret base c (gtr g) (sraised s1) (Htopc base)) as [t [Hl Hr]].
        assert (Eg : grecover g true (negb true && bpA) = g).
        { unfold grecover. simpl. destruct (gpan g); reflexivity. }
        rewrite Eg. exists t, base, ctl, c. split; [|split; [exact Hr|split; [constructor|exact Hg]]].
        simpl. eapply leads_trans; [apply leads_step; exact Hstep|exact Hl].
      * rewrite Hctl in Hstep. simpl in Hstep.
        rewrite recover_search_prefix in Hstep by lia.
        unfold A in Hstep at 1 2. rewrite recover_search_skip_dfr, (recover_search_top bpA base Htop) in Hstep.
        assert (Hshb : shape (rev base) c) by (eapply shape_base_of; [reflexivity|exact Hctl|exact Hsh]).
        destruct (top_panicked base) as [i|] eqn:Htp.
        -- (* the activation is a deferred call run by the panic sequence: its frame below is recovered *)
           destruct (top_panicked_some _ _ Htp) as [B [y [Hb [Hy Hi]]]]. subst i.
           assert (HbpA : bpA = true).
           { destruct bpA; [reflexivity|]. exfalso. simpl in Htop. specialize (Htop y). rewrite Hb in Htop.
             rewrite app_length in Htop. simpl in Htop. replace (pred (length B + 1)) with (length B) in Htop by lia.
             rewrite nth_error_mid in Htop. destruct (Htop eq_refl) as [[Hs _]|Hs]; rewrite Hs in Hy; discriminate. }
           rewrite Hb, shape_snoc_top, Hy in Hshb.
           destruct Hshb as [q [Aq [c'' [Ec [Hq1 [Hq2 [HAq Hsq]]]]]]].
           rewrite Ec in Hstep. unfold emit_rec in Hstep. proj_in Hstep.
           unfold A in Hstep. rewrite Hb in Hstep.
           replace (((B ++ [y]) ++ dfr ds') ++ [ctl]) with (B ++ y :: (dfr ds' ++ [ctl])) in Hstep
             by (repeat rewrite <- app_assoc; reflexivity).
           rewrite mark_recovered_top in Hstep by exact Hy.
           replace (B ++ set_status y Recovered :: dfr ds' ++ [ctl])
             with (((B ++ [set_status y Recovered]) ++ dfr ds') ++ [ctl]) in Hstep
             by (repeat rewrite <- app_assoc; reflexivity).
           destruct (Hret (B ++ [set_status y Recovered]) (set_recovered q :: Aq ++ c'') (gtr g) (sraised s1)
                       (Htopc _)) as [t [Hl Hr]].
           assert (Eg : grecover g true (negb false && bpA)
                        = mkgst (gtr g) (map gv ((set_recovered q :: Aq ++ c'') ++ cout))).
           { unfold grecover. rewrite Hg, Ec, HbpA. simpl. rewrite Hq2. simpl. reflexivity. }
           rewrite Eg. exists t, (B ++ [set_status y Recovered]), ctl, (set_recovered q :: Aq ++ c'').
           split; [|split; [exact Hr|split; [|reflexivity]]].
           ++ simpl. eapply leads_trans; [apply leads_step; exact Hstep|exact Hl].
           ++ rewrite Hb, Ec. apply chg_base; auto.
        -- (* recover() returns nil *)
           unfold emit_rec in Hstep. proj_in Hstep.
           destruct (Hret base c (gtr g) (sraised s1) (Htopc base)) as [t [Hl Hr]].
           assert (Eg : grecover g true (negb false && bpA) = g).
           { unfold grecover. simpl.
             destruct (top_panicked_none _ _ Htop Htp) as [->|[B [y [Hb Hy]]]]; [destruct (gpan g); reflexivity|].
             rewrite Hb, shape_snoc_top, Hy in Hshb.
             destruct Hshb as [q [Aq [c'' [Ec [Hq1 [Hq2 [HAq Hsq]]]]]]].
             rewrite Hg, Ec. simpl. rewrite Hq2. rewrite andb_false_r. reflexivity. }
           rewrite Eg. exists t, base, ctl, c. split; [|split; [exact Hr|split; [constructor|exact Hg]]].
           simpl. eapply leads_trans; [apply leads_step; exact Hstep|exact Hl].
    + (* any other function: the simulation of the callee *)
      assert (Hctx : ctx panicking (A ++ [ctl]) c cout).
      { constructor; [|exact Hsh|exact Hout]. destruct panicking; simpl.
        - exists A, ctl. split; [reflexivity|]. left. exact Hctl.
        - apply top_sr_snoc. right. exact Hctl. }
      assert (Hs := rec_sim h Hokh panicking bpA g (A ++ [ctl]) c cout (sraised s1) o Hctx Hg Hco).
      destruct (rec h panicking bpA g) as [g'|g'|o' tr'|]; simpl in Hs |- *; [| |exact Hs|exact I].
      * destruct Hs as [t [b' [c' [Hl [Hr [Hu Hg']]]]]].
        destruct (upd_snoc_inv _ _ _ _ _ _ Hu) as [[-> ->]|[Hp [Hy [q [rest [Hc [-> ->]]]]]]].
        -- exists t, base, ctl, c. auto using chg_same.
        -- exists t, base, (set_status ctl Recovered), (set_recovered q :: rest).
           split; [exact Hl|]. split; [exact Hr|]. split; [apply chg_ctl; assumption|exact Hg'].
      * destruct Hs as [Hs _]. destruct Hs as [t [b' [c' [Hl [Hu Hp]]]]].
        { intros E. destruct A; discriminate. }
        destruct (upd_snoc_inv _ _ _ _ _ _ Hu) as [[-> ->]|[Hpk [Hy [q [rest [Hc [-> ->]]]]]]].
        -- exists t, base, ctl, c. auto using chg_same.
        -- exists t, base, (set_status ctl Recovered), (set_recovered q :: rest).
           split; [exact Hl|]. split; [apply chg_ctl; assumption|exact Hp].
  - (* a native hook *)
    rewrite Hfirst, Hch, Htr, Ho. eexists _, base, ctl, c. split; [apply leads_refl|].
    split; [|split; [constructor|exact Hg]].
    repeat split; cbn [smode scalls schain str souter]; try reflexivity.
    + fold A. rewrite HlenA. reflexivity.
    + exists []. fold A. rewrite app_nil_r. reflexivity.
  - (* env.Stop *) rewrite Htr. split; reflexivity.
  - (* env.Fatal *) rewrite Htr. split; reflexivity.
  - (* a native function that panics *)
    rewrite raise_with_nonempty by (cbn [scalls set_calls]; rewrite Hfirst; intros E; destruct A; discriminate).
    cbn [scalls schain str souter spc sraised set_calls]. rewrite Hfirst, Hch, Htr, Ho.
    eexists _, base, ctl, c. split; [apply leads_refl|]. split; [constructor|].
    unfold gpush. cbn [gpan gtr]. rewrite Hg.
    apply (pan_st_raised (A ++ [ctl]) c cout (gtr g) o _ None v (sraised s1)).
  - contradiction.
Qed.

Lemma g_rundefers_cons bp d ds' panicking g :
  g_rundefers rec bp (d :: ds') panicking g =
  match callee_res d panicking bp g with
  | GNormal g' =>
      if panicking then
        match gpan g' with
        | p :: ps =>
            if grecovered p then g_rundefers rec bp ds' false (gset_pan g' (drop_aborted ps))
            else g_rundefers rec bp ds' true g'
        | [] => g_rundefers rec bp ds' false g'
        end
      else g_rundefers rec bp ds' false g'
  | GPanicking g' =>
      g_rundefers rec bp ds' true
        (if panicking then gset_pan g' (mark_aborted (gpan g') (length (gpan g') - length (gpan g))) else g')
  | other => other
  end.
Proof.
  destruct d as [h|[n|e|v|v]|]; try reflexivity.
  cbn [g_rundefers callee_res]. destruct (rec h panicking bp g); reflexivity.
Qed.

Lemma ret_st_rdn A ctl c tr o t :
  ret_st (A ++ [ctl]) c tr o t -> fstat ctl = Returned -> rdn_state A ctl c tr o t.
Proof.
  intros [Hm [[junk Hc] [Hch [Htr Ho]]]] Hs.
  split; [rewrite Hm, app_length; simpl; f_equal; lia|].
  split; [exists junk; rewrite Hc, <- app_assoc; reflexivity|].
  split; [exact Htr|]. split; [exact Ho|]. left. auto.
Qed.

Lemma ret_st_rdn_recovered A ctl q Aab c tr o t :
  ret_st (A ++ [ctl]) (q :: Aab ++ c) tr o t -> fstat ctl = Recovered -> Forall ab Aab -> head_live c ->
  rdn_state A ctl c tr o t.
Proof.
  intros [Hm [[junk Hc] [Hch [Htr Ho]]]] Hs Ha Hl.
  split; [rewrite Hm, app_length; simpl; f_equal; lia|].
  split; [exists junk; rewrite Hc, <- app_assoc; reflexivity|].
  split; [exact Htr|]. split; [exact Ho|]. right. split; [exact Hs|]. exists q, Aab. auto.
Qed.

Lemma ret_st_pan A ctl N Aab c cout tr o t :
  ret_st (A ++ [ctl]) (N :: Aab ++ c) tr o t -> fstat ctl = Panicked ->
  paborted N = false -> precovered N = false -> Forall ab Aab ->
  pan_st A c cout (map gv (N :: Aab ++ c ++ cout)) tr o t.
Proof.
  intros [Hm [[junk Hc] [Hch [Htr Ho]]]] Hs H1 H2 Ha.
  exists [], ctl, junk, N, Aab, []. rewrite app_nil_r. simpl.
  split; [rewrite Hm, app_length; simpl; f_equal; lia|].
  split; [rewrite Hc, <- app_assoc; reflexivity|].
  repeat split; try assumption; constructor.
Qed.

Lemma sim_rundefers bp : forall ds panicking g base c cout o t0,
  Forall ok_callee ds -> ctx bp base c cout -> cout = flat_map vchain o ->
  (if panicking : bool
   then pan_st (base ++ dfr ds) c cout (gpan g) (gtr g) o t0
   else exists ctl, rdn_state (base ++ dfr ds) ctl c (gtr g) o t0 /\ gpan g = map gv (c ++ cout)) ->
  sim_concl bp base c cout o t0 (g_rundefers rec bp ds panicking g).
Proof.
  induction ds as [|d ds' IH]; intros panicking g base c cout o t0 Hoks Hctx Hco Hst.
  - (* no deferred call is left *)
    unfold dfr in Hst. simpl in Hst. rewrite app_nil_r in Hst. destruct panicking; simpl.
    + split.
      * intros _. exists t0, base, c. split; [apply leads_refl|]. split; [constructor|exact Hst].
      * intros ->. destruct (step_pan_none _ _ _ _ _ _ Hst) as [t' [N [A [Hs [Hm [Hch [H1 [H2 [H3 [HG [Htr [Ho Hr]]]]]]]]]]]].
        assert (Ec : c = []) by (destruct Hctx as [_ Hs0 _]; exact Hs0). subst c.
        exists N, A, (sraised t'). rewrite app_nil_r in Hch. simpl in HG.
        split; [exact H1|]. split; [exact H2|]. split; [exact H3|]. split; [exact HG|].
        eapply leads_res_trans; [apply leads_step; exact Hs|]. apply step_leads_res.
        unfold step. rewrite Hm. unfold finish, end_panic. rewrite Hch, Ho, Htr. reflexivity.
    + destruct Hst as [ctl [Hst Hg]].
      destruct (rdn_step_last _ _ _ _ _ _ Hst (top_ok_nd _ _ (ctx_top _ _ _ _ Hctx))) as [t' [Hs [Hr _]]].
      exists t', base, c. split; [apply leads_step; exact Hs|]. split; [exact Hr|]. split; [constructor|exact Hg].
  - assert (Hokd : ok_callee d) by (inversion Hoks; assumption).
    assert (Hoks' : Forall ok_callee ds') by (inversion Hoks; assumption).
    rewrite g_rundefers_cons.
    rewrite dfr_cons, app_assoc in Hst. set (A0 := base ++ dfr ds') in *.
    destruct panicking.
    + (* the panic runs the deferred call d *)
      destruct (step_pan_found _ _ _ _ _ _ _ _ Hst)
        as [s1 [owner [N [Aab [Hstep [Hfirst [Hown [Hch [HN1 [HN2 [HAab [HG [Htr [Ho _]]]]]]]]]]]]]].
      assert (Hshc : shape (rev base) c) by (apply (ctx_shape _ _ _ _ Hctx)).
      assert (HshD : shape (rev (A0 ++ [owner])) (N :: Aab ++ c)).
      { rewrite shape_snoc_top, Hown. exists N, Aab, c. repeat split; try assumption.
        unfold A0. apply shape_skip_dfr. exact Hshc. }
      assert (HgD : gpan g = map gv ((N :: Aab ++ c) ++ cout)).
      { rewrite HG. simpl. rewrite <- app_assoc. reflexivity. }
      assert (Hrun := run_callee true bp base ds' owner (N :: Aab ++ c) cout o g d s1 Hokd
                        (ctx_top _ _ _ _ Hctx) HshD (ctx_out _ _ _ _ Hctx) Hco Hown Hfirst Hch Htr Ho HgD).
      cbv zeta in Hrun. fold A0 in Hrun. rewrite <- Hstep in Hrun.
      assert (Hlive : head_live (c ++ cout)) by (eapply ctx_head_live; exact Hctx).
      destruct (callee_res d true bp g) as [g'|g'|o' tr'|].
      * destruct Hrun as [t1 [base1 [ctl' [c1 [Hl [Hr [Hchg Hg']]]]]]].
        assert (Hl1 : leads t0 t1) by (eapply step_sleads; [reflexivity|exact Hl]).
        destruct (chg_true_inv _ _ _ _ _ _ _ Hchg) as [-> [[-> ->]|[q [rest [Hc [-> ->]]]]]].
        -- (* not recovered: the panic goes on with the next deferred call *)
           rewrite Hg'. simpl. rewrite HN2.
           eapply sim_concl_leads; [exact Hl1|]. apply IH; try assumption.
           rewrite Hg'. simpl. rewrite <- app_assoc. eapply ret_st_pan; eassumption.
        -- (* recovered: the recovered panic and the aborted ones after it leave the chain *)
           inversion Hc; subst q rest.
           rewrite Hg'. simpl.
           assert (Ed : drop_aborted (map gv ((Aab ++ c) ++ cout)) = map gv (c ++ cout)).
           { rewrite <- app_assoc, map_app, drop_aborted_app by exact HAab.
             apply drop_aborted_head_live. exact Hlive. }
           rewrite Ed.
           eapply sim_concl_leads; [exact Hl1|]. apply IH; try assumption.
           exists (set_status owner Recovered). split; [|reflexivity].
           cbn [gtr gset_pan]. eapply ret_st_rdn_recovered; [exact Hr|reflexivity|exact HAab|].
           eapply shape_head_live. exact Hshc.
      * destruct Hrun as [t1 [base1 [ctl' [c1 [Hl [Hchg Hp]]]]]].
        assert (Hl1 : leads t0 t1) by (eapply step_sleads; [reflexivity|exact Hl]).
        assert (Hlen : length (gpan g) = length (N :: Aab ++ c ++ cout)).
        { rewrite HG, map_length. reflexivity. }
        rewrite Hlen.
        eapply sim_concl_leads; [exact Hl1|]. apply IH; try assumption. cbn [gpan gtr gset_pan].
        destruct (chg_true_inv _ _ _ _ _ _ _ Hchg) as [-> [[-> ->]|[q [rest [Hc [-> ->]]]]]].
        -- apply (pan_st_shift_mark A0 owner N Aab c cout (gpan g') (gtr g') o t1 Hp); auto.
        -- inversion Hc; subst q rest.
           apply (pan_st_shift_mark A0 (set_status owner Recovered) (set_recovered N) Aab c cout
                    (gpan g') (gtr g') o t1 Hp); auto.
      * eapply step_sends; [reflexivity|exact Hrun].
      * exact I.
    + (* the activation returns: d is called *)
      destruct Hst as [ctl [Hst Hg]].
      destruct (rdn_step_deferred _ _ _ _ _ _ _ Hst) as [s1 [Hstep [Hfirst [Hch [Htr [Ho _]]]]]].
      set (ctl1 := set_status ctl Returned) in *.
      assert (Hshc : shape (rev base) c) by (apply (ctx_shape _ _ _ _ Hctx)).
      assert (HshD : shape (rev (A0 ++ [ctl1])) c).
      { rewrite shape_snoc_plain by (unfold ctl1; simpl; discriminate).
        unfold A0. apply shape_skip_dfr. exact Hshc. }
      assert (Hrun := run_callee false bp base ds' ctl1 c cout o g d s1 Hokd
                        (ctx_top _ _ _ _ Hctx) HshD (ctx_out _ _ _ _ Hctx) Hco eq_refl Hfirst Hch Htr Ho Hg).
      cbv zeta in Hrun. fold A0 in Hrun. rewrite <- Hstep in Hrun.
      destruct (callee_res d false bp g) as [g'|g'|o' tr'|].
      * destruct Hrun as [t1 [base1 [ctl' [c1 [Hl [Hr [Hchg Hg']]]]]]].
        assert (Hl1 : leads t0 t1) by (eapply step_sleads; [reflexivity|exact Hl]).
        destruct (chg_false_inv _ _ _ _ _ _ _ Hchg) as [-> Hu].
        eapply sim_concl_leads; [exact Hl1|]. eapply sim_concl_upd; [exact Hu|].
        apply IH; try assumption; [eapply upd_ctx; eassumption|].
        exists ctl1. split; [|exact Hg']. apply ret_st_rdn; [exact Hr|reflexivity].
      * destruct Hrun as [t1 [base1 [ctl' [c1 [Hl [Hchg Hp]]]]]].
        assert (Hl1 : leads t0 t1) by (eapply step_sleads; [reflexivity|exact Hl]).
        destruct (chg_false_inv _ _ _ _ _ _ _ Hchg) as [-> Hu].
        eapply sim_concl_leads; [exact Hl1|]. eapply sim_concl_upd; [exact Hu|].
        apply IH; try assumption; [eapply upd_ctx; eassumption|].
        apply pan_st_shift_plain with (fr := ctl1); [exact Hp|right; reflexivity].
      * eapply step_sends; [reflexivity|exact Hrun].
      * exact I.
Qed.

(* the first deferred call of an activation that returns (the step that
   starts it comes from OpReturn, not from the loop of nextCall) *)
Lemma sim_first_deferred bp base ds' d ctl1 c cout o g s1 t0 :
  ok_callee d -> Forall ok_callee ds' -> ctx bp base c cout -> cout = flat_map vchain o ->
  fstat ctl1 = Returned ->
  step t0 = after_switch s1 (mkframe d 0 Deferred) (S (length (base ++ dfr ds'))) ->
  firstn (S (length (base ++ dfr ds'))) (scalls s1) = (base ++ dfr ds') ++ [ctl1] ->
  schain s1 = c -> str s1 = gtr g -> souter s1 = o -> gpan g = map gv (c ++ cout) ->
  sim_concl bp base c cout o t0 (g_rundefers rec bp (d :: ds') false g).
Proof.
  intros Hokd Hoks' Hctx Hco Hc1 Hstep Hfirst Hch Htr Ho Hg.
  rewrite g_rundefers_cons. set (A0 := base ++ dfr ds') in *.
  assert (Hshc : shape (rev base) c) by (apply (ctx_shape _ _ _ _ Hctx)).
  assert (HshD : shape (rev (A0 ++ [ctl1])) c).
  { rewrite shape_snoc_plain by (rewrite Hc1; discriminate). unfold A0. apply shape_skip_dfr. exact Hshc. }
  assert (Hrun := run_callee false bp base ds' ctl1 c cout o g d s1 Hokd
                    (ctx_top _ _ _ _ Hctx) HshD (ctx_out _ _ _ _ Hctx) Hco Hc1 Hfirst Hch Htr Ho Hg).
  cbv zeta in Hrun. fold A0 in Hrun. rewrite <- Hstep in Hrun.
  destruct (callee_res d false bp g) as [g'|g'|o' tr'|].
  - destruct Hrun as [t1 [base1 [ctl' [c1 [Hl [Hr [Hchg Hg']]]]]]].
    assert (Hl1 : leads t0 t1) by (eapply step_sleads; [reflexivity|exact Hl]).
    destruct (chg_false_inv _ _ _ _ _ _ _ Hchg) as [-> Hu].
    eapply sim_concl_leads; [exact Hl1|]. eapply sim_concl_upd; [exact Hu|].
    apply sim_rundefers; try assumption; [eapply upd_ctx; eassumption|].
    exists ctl1. split; [|exact Hg']. apply ret_st_rdn; [exact Hr|exact Hc1].
  - destruct Hrun as [t1 [base1 [ctl' [c1 [Hl [Hchg Hp]]]]]].
    assert (Hl1 : leads t0 t1) by (eapply step_sleads; [reflexivity|exact Hl]).
    destruct (chg_false_inv _ _ _ _ _ _ _ Hchg) as [-> Hu].
    eapply sim_concl_leads; [exact Hl1|]. eapply sim_concl_upd; [exact Hu|].
    apply sim_rundefers; try assumption; [eapply upd_ctx; eassumption|].
    apply pan_st_shift_plain with (fr := ctl1); [exact Hp|right; exact Hc1].
  - eapply step_sends; [reflexivity|exact Hrun].
  - exact I.
Qed.

(* OpReturn, or the end of the body *)
Lemma sim_return bp f pc ds g base c cout r o :
  fetch f pc = Some IReturn ->
  Forall ok_callee ds -> ctx bp base c cout -> cout = flat_map vchain o -> gpan g = map gv (c ++ cout) ->
  sim_concl bp base c cout o (mkstate MExec (Some f) pc (base ++ dfr ds) c (gtr g) r o)
    (g_rundefers rec bp ds false g).
Proof.
  intros Hfe Hoks Hctx Hco Hg. destruct ds as [|d ds'].
  - unfold dfr. simpl. rewrite app_nil_r.
    destruct (ret_entry_none bp f pc base c (gtr g) r o Hfe (ctx_top _ _ _ _ Hctx)) as [t [Hl Hr]].
    exists t, base, c. split; [exact Hl|]. split; [exact Hr|]. split; [constructor|exact Hg].
  - rewrite dfr_cons, app_assoc.
    destruct (ret_entry_deferred f pc (base ++ dfr ds') d c (gtr g) r o Hfe)
      as [u [s1 [Hs1 [Hs2 [Hfirst [Hch [Htr Ho]]]]]]].
    eapply sim_concl_leads; [apply leads_step; exact Hs1|].
    eapply sim_first_deferred with (ctl1 := mkframe (CFn f) 0 Returned); try eassumption; try reflexivity.
    + inversion Hoks; assumption.
    + inversion Hoks; assumption.
Qed.

Lemma dfr_nil_inv ds : dfr ds = [] -> ds = [].
Proof. intros H. apply (f_equal (@length frame)) in H. rewrite dfr_length in H. destruct ds; [reflexivity|discriminate]. Qed.

(* a panic raised in the body of an activation of f (OpPanic, a native
   function that panics), or taken over from the VM of a callback *)
Lemma sim_panic_here bp ds base c cout o N A0 g1 tr fn pc r owner :
  Forall ok_callee ds -> ctx bp base c cout -> cout = flat_map vchain o ->
  paborted N = false -> precovered N = false -> Forall ab A0 ->
  gpan g1 = map gv (N :: A0 ++ c ++ cout) -> gtr g1 = tr ->
  base ++ dfr ds <> [] ->
  sim_concl bp base c cout o
    (mkstate (MNext (length ((base ++ dfr ds) ++ [mkframe owner 0 Panicked]))) fn pc
             ((base ++ dfr ds) ++ [mkframe owner 0 Panicked]) (N :: A0 ++ c) tr r o)
    (g_rundefers rec bp ds true g1).
Proof.
  intros Hoks Hctx Hco H1 H2 H3 Hg Htr Hne.
  apply sim_rundefers; try assumption.
  exists [], (mkframe owner 0 Panicked), [], N, A0, []. rewrite !app_nil_r. simpl.
  split; [rewrite app_length; simpl; f_equal; lia|].
  rewrite Hg, Htr. repeat split; try assumption; constructor.
Qed.

Lemma ctx_call bp base ds f pc c cout :
  ctx bp base c cout -> ctx false ((base ++ dfr ds) ++ [mkframe (CFn f) pc Started]) c cout.
Proof.
  intros [Ht Hs Ho]. constructor; [| |exact Ho].
  - simpl. apply top_sr_snoc. left. split; [reflexivity|]. exists f. reflexivity.
  - rewrite shape_snoc_plain by (simpl; discriminate). apply shape_skip_dfr. exact Hs.
Qed.

Lemma has_line_some inf pc : has_line inf pc = true -> exists l, info_get inf pc = Some l.
Proof. unfold has_line. destruct (info_get inf pc); [eauto|discriminate]. Qed.

(* the body of an activation of f from the instruction at pc = length pre on *)
Lemma sim_body f bp pp : forall rest pre ds g base c cout r o,
  fbody f = pre ++ rest -> ok_body (finfo f) rest (length pre) = true ->
  Forall ok_callee ds -> ctx bp base c cout -> cout = flat_map vchain o ->
  gpan g = map gv (c ++ cout) ->
  sim_concl bp base c cout o
    (mkstate MExec (Some f) (length pre) (base ++ dfr ds) c (gtr g) r o)
    (g_body rec f bp pp rest (length pre) ds g).
Proof.
  induction rest as [|x rest IH]; intros pre ds g base c cout r o Hbody Hok Hoks Hctx Hco Hg.
  - (* the end of the body: the Return that fetch appends *)
    rewrite app_nil_r in Hbody. subst pre. simpl g_body.
    apply sim_return; try assumption. apply fetch_return_end.
  - assert (Hfe := fetch_at f pre x rest Hbody).
    set (s := mkstate MExec (Some f) (length pre) (base ++ dfr ds) c (gtr g) r o).
    assert (Hstep := step_exec_at s f x eq_refl eq_refl Hfe).
    unfold s in Hstep at 2. cbv zeta in Hstep. proj_in Hstep. change (spc s) with (length pre) in Hstep.
    assert (Hbody' : fbody f = (pre ++ [x]) ++ rest) by (rewrite <- app_assoc; exact Hbody).
    assert (Hlen : length (pre ++ [x]) = S (length pre)) by (rewrite app_length; simpl; lia).
    rewrite ok_body_cons in Hok. apply andb_prop in Hok. destruct Hok as [Hokx Hokr].
    rewrite <- Hlen in Hokr.
    (* a panic raised by the instruction at pc *)
    assert (Hraise : forall v, has_line (finfo f) (length pre) = true ->
      step s = raise (set_pc s (S (length pre))) f (length pre) v ->
      sim_concl bp base c cout o s
        (g_rundefers rec bp ds true (gpush g v (info_get (finfo f) (length pre))))).
    { intros v Hline Hst. destruct (has_line_some _ _ Hline) as [l Hl].
      unfold raise in Hst. rewrite Hl in Hst.
      destruct (base ++ dfr ds) as [|fr0 X'] eqn:EX.
      - (* no frame at all: the panic leaves the VM *)
        apply app_eq_nil in EX. destruct EX as [-> Ed]. apply dfr_nil_inv in Ed. subst ds.
        assert (Ec : c = []) by (destruct Hctx as [_ Hs0 _]; exact Hs0). subst c.
        simpl g_rundefers. split; [intros H; contradiction|]. intros _.
        exists (mkprec v false false (Some l) r), [], (N.succ r). simpl.
        split; [reflexivity|]. split; [reflexivity|]. split; [constructor|].
        split; [rewrite Hg, Hl; reflexivity|].
        apply step_leads_res. rewrite Hst. reflexivity.
      - eapply sim_concl_leads.
        + apply leads_step. rewrite Hst. apply raise_with_nonempty.
          unfold s. simpl. discriminate.
        + unfold s. cbn [scalls schain str souter spc sraised set_pc]. rewrite <- EX.
          replace (mkprec v false false (Some l) r :: c) with (mkprec v false false (Some l) r :: [] ++ c) by reflexivity.
          apply sim_panic_here; try assumption; try reflexivity; try constructor.
          * unfold gpush. cbn [gpan]. rewrite Hg, Hl. reflexivity.
          * rewrite EX. discriminate. }
    destruct x as [k|b inf|b inf|k|v|down| |b inf].
    + destruct k as [n|e|v|v].
      * (* hook body *)
        simpl g_body. eapply sim_concl_leads; [apply leads_step; exact Hstep|].
        rewrite <- Hlen. apply (IH (pre ++ [INat (NBody n)]) ds (gemit g (EBody n))); assumption.
      * simpl g_body. apply step_ends. exact Hstep.
      * simpl g_body. apply step_ends. exact Hstep.
      * simpl g_body. apply Hraise; [exact Hokx|exact Hstep].
    + (* call *)
      rewrite ok_instr_call in Hokx. set (h := mkfunc b inf) in *.
      set (baseC := (base ++ dfr ds) ++ [mkframe (CFn f) (S (length pre)) Started]).
      assert (HctxC : ctx false baseC c cout) by (apply ctx_call with (bp := bp); exact Hctx).
      assert (Hs := rec_sim h Hokx false false g baseC c cout r o HctxC Hg Hco).
      assert (Egb : g_body rec f bp pp (ICall b inf :: rest) (length pre) ds g =
                    match rec h false false g with
                    | GNormal g' => g_body rec f bp pp rest (S (length pre)) ds g'
                    | GPanicking g' => g_rundefers rec bp ds true g'
                    | other => other
                    end).
      { simpl g_body. fold h. destruct (rec h false false g); reflexivity. }
      rewrite Egb.
      eapply sim_concl_leads; [apply leads_step; exact Hstep|]. fold h baseC.
      destruct (rec h false false g) as [g'|g'|o' tr'|]; simpl in Hs; [| |exact Hs|exact I].
      * destruct Hs as [t [b' [c' [Hl [Hr [Hu Hg']]]]]].
        destruct (upd_false _ _ _ _ Hu) as [-> ->].
        destruct Hr as [Hm [[junk Hc] [Hch [Htr Ho]]]].
        unfold baseC in Hm, Hc. rewrite app_length in Hm. simpl in Hm.
        replace (length (base ++ dfr ds) + 1) with (S (length (base ++ dfr ds))) in Hm by lia.
        rewrite <- app_assoc in Hc. simpl in Hc.
        assert (Hst1 := step_started t (base ++ dfr ds) _ junk f Hm Hc eq_refl eq_refl).
        cbn [fpc] in Hst1. rewrite Hch, Htr, Ho in Hst1.
        eapply sim_concl_leads; [eapply leads_trans; [exact Hl|apply leads_step; exact Hst1]|].
        rewrite <- Hlen. apply (IH (pre ++ [ICall b inf]) ds g'); assumption.
      * destruct Hs as [Hs _]. destruct Hs as [t [b' [c' [Hl [Hu Hp]]]]].
        { unfold baseC. intros E. destruct (base ++ dfr ds); discriminate. }
        destruct (upd_false _ _ _ _ Hu) as [-> ->].
        eapply sim_concl_leads; [exact Hl|].
        apply sim_rundefers; try assumption.
        apply pan_st_shift_plain with (fr := mkframe (CFn f) (S (length pre)) Started); [exact Hp|left; reflexivity].
    + (* defer of a function *)
      rewrite ok_instr_defer in Hokx.
      simpl g_body. eapply sim_concl_leads; [apply leads_step; exact Hstep|].
      cbn [set_calls smode sfn spc scalls schain str sraised souter].
      rewrite <- app_assoc, <- dfr_cons, <- Hlen.
      apply (IH (pre ++ [IDeferFn b inf]) (CFn (mkfunc b inf) :: ds) g); try assumption.
      constructor; [|exact Hoks]. simpl. apply orb_prop in Hokx. exact Hokx.
    + (* defer of a native function *)
      simpl g_body. eapply sim_concl_leads; [apply leads_step; exact Hstep|].
      cbn [set_calls smode sfn spc scalls schain str sraised souter].
      rewrite <- app_assoc, <- dfr_cons, <- Hlen.
      apply (IH (pre ++ [IDeferNat k]) (CNat k :: ds) g); try assumption.
      constructor; [exact I|exact Hoks].
    + (* panic *)
      simpl g_body. apply Hraise; [exact Hokx|exact Hstep].
    + (* recover() *)
      destruct down; [discriminate|].
      unfold do_recover, recover_start in Hstep. proj_in Hstep.
      rewrite recover_search_skip_dfr, (recover_search_top bp base (ctx_top _ _ _ _ Hctx)) in Hstep.
      assert (Hshb : shape (rev base) c) by (apply (ctx_shape _ _ _ _ Hctx)).
      simpl g_body.
      destruct (top_panicked base) as [i|] eqn:Htp.
      * destruct (top_panicked_some _ _ Htp) as [B [y [Hb [Hy Hi]]]]. subst i.
        assert (Hbp : bp = true).
        { destruct bp; [reflexivity|]. exfalso. assert (Ht := ctx_top _ _ _ _ Hctx). simpl in Ht.
          specialize (Ht y). rewrite Hb in Ht. rewrite app_length in Ht. simpl in Ht.
          replace (pred (length B + 1)) with (length B) in Ht by lia. rewrite nth_error_mid in Ht.
          destruct (Ht eq_refl) as [[Hs0 _]|Hs0]; rewrite Hs0 in Hy; discriminate. }
        rewrite Hb, shape_snoc_top, Hy in Hshb.
        destruct Hshb as [q [Aq [c'' [Ec [Hq1 [Hq2 [HAq Hsq]]]]]]].
        rewrite Ec in Hstep. unfold emit_rec in Hstep. proj_in Hstep.
        rewrite Hb in Hstep. rewrite <- app_assoc in Hstep. simpl in Hstep.
        rewrite mark_recovered_top in Hstep by exact Hy.
        replace (B ++ set_status y Recovered :: dfr ds) with ((B ++ [set_status y Recovered]) ++ dfr ds) in Hstep
          by (rewrite <- app_assoc; reflexivity).
        assert (Hu : upd bp base c (B ++ [set_status y Recovered]) (set_recovered q :: Aq ++ c'')).
        { rewrite Ec. apply upd_rec; auto. }
        assert (Eg : grecover g false bp
                     = gemit (mkgst (gtr g) (map gv ((set_recovered q :: Aq ++ c'') ++ cout))) (ERecover (Some (pmsg q)))).
        { unfold grecover. rewrite Hg, Ec, Hbp. simpl. rewrite Hq2. simpl. reflexivity. }
        rewrite Eg.
        eapply sim_concl_leads; [apply leads_step; exact Hstep|].
        eapply sim_concl_upd; [exact Hu|].
        rewrite <- Hlen.
        apply (IH (pre ++ [IRecover false]) ds
                 (gemit (mkgst (gtr g) (map gv ((set_recovered q :: Aq ++ c'') ++ cout))) (ERecover (Some (pmsg q)))));
          try assumption; [eapply upd_ctx; eassumption|reflexivity].
      * unfold emit_rec in Hstep. proj_in Hstep.
        assert (Eg : grecover g false bp = gemit g (ERecover None)).
        { unfold grecover.
          destruct (top_panicked_none _ _ (ctx_top _ _ _ _ Hctx) Htp) as [->|[B [y [Hb Hy]]]];
            [destruct (gpan g); reflexivity|].
          rewrite Hb, shape_snoc_top, Hy in Hshb.
          destruct Hshb as [q [Aq [c'' [Ec [Hq1 [Hq2 [HAq Hsq]]]]]]].
          rewrite Hg, Ec. simpl. rewrite Hq2. rewrite andb_false_r. reflexivity. }
        rewrite Eg.
        eapply sim_concl_leads; [apply leads_step; exact Hstep|].
        rewrite <- Hlen. apply (IH (pre ++ [IRecover false]) ds (gemit g (ERecover None))); assumption.
    + (* return *)
      simpl g_body. apply sim_return; assumption.
    + (* a native function calls back the function: a new VM *)
      rewrite ok_instr_callback in Hokx. set (h := mkfunc b inf) in *.
      set (sv := mksaved f (S (length pre)) (base ++ dfr ds) c).
      assert (Hlive : head_live (c ++ cout)) by (eapply ctx_head_live; exact Hctx).
      assert (HctxC : ctx false [] [] (c ++ cout)).
      { constructor; [|reflexivity|exact Hlive]. intros y Hy. destruct (pred (length (@nil frame))); discriminate. }
      assert (HcoC : c ++ cout = flat_map vchain (sv :: o)) by (simpl; rewrite Hco; reflexivity).
      assert (Hs := rec_sim h Hokx false false g [] [] (c ++ cout) r (sv :: o) HctxC Hg HcoC).
      assert (Egb : g_body rec f bp pp (ICallback b inf :: rest) (length pre) ds g =
                    match rec h false false g with
                    | GNormal g' => g_body rec f bp pp rest (S (length pre)) ds g'
                    | GPanicking g' => g_rundefers rec bp ds true g'
                    | other => other
                    end).
      { simpl g_body. fold h. destruct (rec h false false g); reflexivity. }
      rewrite Egb.
      eapply sim_concl_leads; [apply leads_step; exact Hstep|]. fold h sv.
      destruct (rec h false false g) as [g'|g'|o' tr'|]; simpl in Hs; [| |exact Hs|exact I].
      * (* the callback returns: this VM goes on *)
        destruct Hs as [t [b' [c' [Hl [Hr [Hu Hg']]]]]].
        destruct (upd_false _ _ _ _ Hu) as [-> ->].
        destruct Hr as [Hm [_ [Hch [Htr Ho]]]].
        assert (Hst1 : step t = Next (mkstate MExec (Some f) (S (length pre)) (base ++ dfr ds) c (gtr g') (sraised t) o)).
        { unfold step. rewrite Hm. simpl. unfold finish. rewrite Hch, Ho. unfold resume, sv. simpl.
          rewrite Htr. reflexivity. }
        eapply sim_concl_leads; [eapply leads_trans; [exact Hl|apply leads_step; exact Hst1]|].
        rewrite <- Hlen. apply (IH (pre ++ [ICallback b inf]) ds g'); assumption.
      * (* the panic leaves the callback: this VM takes it over *)
        destruct Hs as [_ Hs]. destruct (Hs eq_refl) as [N [A0 [r' [H1 [H2 [H3 [HG Hl]]]]]]].
        assert (Eout : end_panic_out (sv :: o) (N :: A0) (gtr g') r' =
          match base ++ dfr ds with
          | [] => end_panic_out o ((N :: A0) ++ c) (gtr g') r'
          | _ => Next (mkstate (MNext (length ((base ++ dfr ds) ++ [mkframe (CFn f) 0 Panicked]))) None (S (length pre))
                               ((base ++ dfr ds) ++ [mkframe (CFn f) 0 Panicked]) ((N :: A0) ++ c) (gtr g') r' o)
          end) by reflexivity.
        rewrite Eout in Hl. clear Eout.
        destruct (base ++ dfr ds) as [|fr0 X'] eqn:EX.
        -- apply app_eq_nil in EX. destruct EX as [-> Ed]. apply dfr_nil_inv in Ed. subst ds.
           assert (Ec : c = []) by (destruct Hctx as [_ Hs0 _]; exact Hs0). subst c.
           simpl g_rundefers. split; [intros H; contradiction|]. intros _.
           exists N, A0, r'. rewrite app_nil_r in Hl. simpl in HG. auto.
        -- rewrite <- EX in Hl. simpl in Hl.
           eapply sim_concl_leads; [exact Hl|].
           replace ((N :: A0) ++ c) with (N :: A0 ++ c) by reflexivity.
           apply sim_panic_here; try assumption; try reflexivity.
           rewrite EX. discriminate.
Qed.

(* a whole activation *)
Lemma sim_fn_of_body f : ok_fn f = true ->
  forall bp pp g base c cout r o,
    ctx bp base c cout -> gpan g = map gv (c ++ cout) -> cout = flat_map vchain o ->
    sim_concl bp base c cout o (mkstate MExec (Some f) 0 base c (gtr g) r o)
      (g_body rec f bp pp (fbody f) 0 [] g).
Proof.
  intros Hok bp pp g base c cout r o Hctx Hg Hco.
  assert (H := sim_body f bp pp (fbody f) [] [] g base c cout r o eq_refl Hok (Forall_nil _) Hctx Hco Hg).
  unfold dfr in H. simpl in H. rewrite app_nil_r in H. exact H.
Qed.

End Sim.

(* ------------------------------------------------------------------ *)
(* GoSpec with its fuel                                                 *)

Lemma gfn_sim : forall fuel h, ok_fn h = true -> sim_fn (gfn fuel) h.
Proof.
  induction fuel as [|n IH]; intros h Hok bp pp g base c cout r o Hctx Hg Hco.
  - exact I.
  - simpl gfn. apply sim_fn_of_body; try assumption.
    intros inf bp' pp' g'. destruct n as [|k]; [left; reflexivity|right].
    simpl. unfold grecover. destruct (gpan g') as [|p ps]; [reflexivity|].
    destruct (negb bp' && pp' && negb (grecovered p)); reflexivity.
Qed.

Lemma gchain_view_gv l : gchain_view (map gv l) = chain_view l.
Proof. unfold gchain_view, chain_view. rewrite map_map. reflexivity. Qed.

Lemma run_det n m s a b : run n s = Some a -> run m s = Some b -> a = b.
Proof.
  intros H1 H2.
  assert (H1' := run_mono n s a (Nat.max n m) H1 (Nat.le_max_l _ _)).
  assert (H2' := run_mono m s b (Nat.max n m) H2 (Nat.le_max_r _ _)).
  congruence.
Qed.

(* the machine ends with the result of GoSpec, whatever the fuel given to the two *)
Theorem frames_refine_go f :
  tree_ok f = true ->
  forall n m r1 r2, vm_run n f = Some r1 -> go_run m f = Some r2 -> r1 = r2.
Proof.
  intros Hok n m r1 r2 Hvm Hgo.
  assert (Hctx : ctx false [] [] []).
  { constructor; [|reflexivity|exact I]. intros y Hy. destruct (pred (length (@nil frame))); discriminate. }
  assert (Hs := gfn_sim m f Hok false false (mkgst [] []) [] [] [] 0%N [] Hctx eq_refl eq_refl).
  change (mkstate MExec (Some f) 0 [] [] (gtr (mkgst [] [])) 0%N []) with (init f) in Hs.
  unfold go_run in Hgo. unfold vm_run in Hvm.
  destruct (gfn m f false false (mkgst [] [])) as [g'|g'|o' tr'|]; simpl in Hs; [| | |discriminate].
  - destruct Hs as [t [b' [c' [Hl [Hr [Hu Hg']]]]]].
    destruct (upd_false _ _ _ _ Hu) as [-> ->].
    destruct Hr as [Hm [_ [Hch [Htr Ho]]]].
    assert (Hrun : run 1 t = Some (ONil, rev (gtr g'))).
    { simpl. unfold step. rewrite Hm. simpl. unfold finish. rewrite Hch, Ho, Htr. reflexivity. }
    destruct (Hl 1 _ Hrun) as [k Hk]. inversion Hgo; subst. eapply run_det; eassumption.
  - destruct Hs as [_ Hs]. destruct (Hs eq_refl) as [N [A0 [r' [_ [_ [_ [HG [k Hk]]]]]]]].
    simpl in Hk. inversion Hgo; subst. rewrite HG, app_nil_r, gchain_view_gv.
    eapply run_det; eassumption.
  - destruct Hs as [k Hk]. inversion Hgo; subst. eapply run_det; eassumption.
Qed.

(* ------------------------------------------------------------------ *)
(* GoSpec does not run out of a fuel of fsize f                         *)

Definition rec_nf (n : nat) (rec : func -> bool -> bool -> gst -> gres) : Prop :=
  forall h bp pp g, fsize h <= n -> rec h bp pp g <> GFuel.

Lemma g_rundefers_nf n rec bp : rec_nf n rec ->
  forall ds panicking g, Forall (callee_fits n) ds -> g_rundefers rec bp ds panicking g <> GFuel.
Proof.
  intros Hrec. induction ds as [|d ds IH]; intros panicking g Hfit.
  - simpl. destruct panicking; discriminate.
  - inversion Hfit as [|? ? Hd Hds]; subst. rewrite g_rundefers_cons.
    assert (Hc : callee_res rec d panicking bp g <> GFuel).
    { destruct d as [h|[k|e|v|v]|]; simpl; try discriminate. apply Hrec. exact Hd. }
    destruct (callee_res rec d panicking bp g) as [g'|g'|o' tr'|]; [| |discriminate|contradiction].
    + destruct panicking; [|apply IH; exact Hds].
      destruct (gpan g') as [|p ps]; [apply IH; exact Hds|].
      destruct (grecovered p); apply IH; exact Hds.
    + apply IH. exact Hds.
Qed.

Lemma g_body_nf n rec f bp pp : rec_nf n rec ->
  forall b pc ds g, bsize b <= n -> Forall (callee_fits n) ds -> g_body rec f bp pp b pc ds g <> GFuel.
Proof.
  intros Hrec. induction b as [|x b IH]; intros pc ds g Hsz Hfit.
  - simpl. apply g_rundefers_nf with (n := n); assumption.
  - rewrite bsize_cons in Hsz. assert (Hp := isize_pos x).
    destruct x as [k|b' inf|b' inf|k|v|down| |b' inf].
    + destruct k as [m|e|v|v]; simpl g_body; try discriminate.
      * apply IH; [lia|exact Hfit].
      * apply g_rundefers_nf with (n := n); assumption.
    + rewrite bsize_call in Hsz. simpl g_body.
      assert (Hc : rec (mkfunc b' inf) false false g <> GFuel) by (apply Hrec; unfold fsize; simpl; lia).
      destruct (rec (mkfunc b' inf) false false g) as [g'|g'|o' tr'|]; [| |discriminate|contradiction].
      * apply IH; [lia|exact Hfit].
      * apply g_rundefers_nf with (n := n); assumption.
    + rewrite bsize_defer in Hsz. simpl g_body. apply IH; [lia|].
      constructor; [unfold callee_fits, fsize; simpl; lia|exact Hfit].
    + simpl g_body. apply IH; [lia|]. constructor; [exact I|exact Hfit].
    + simpl g_body. apply g_rundefers_nf with (n := n); assumption.
    + simpl g_body. apply IH; [lia|exact Hfit].
    + simpl g_body. apply g_rundefers_nf with (n := n); assumption.
    + rewrite bsize_callback in Hsz. simpl g_body.
      assert (Hc : rec (mkfunc b' inf) false false g <> GFuel) by (apply Hrec; unfold fsize; simpl; lia).
      destruct (rec (mkfunc b' inf) false false g) as [g'|g'|o' tr'|]; [| |discriminate|contradiction].
      * apply IH; [lia|exact Hfit].
      * apply g_rundefers_nf with (n := n); assumption.
Qed.

Lemma gfn_nf : forall fuel, rec_nf fuel (gfn fuel).
Proof.
  induction fuel as [|n IH]; intros h bp pp g Hsz.
  - unfold fsize in Hsz. lia.
  - simpl gfn. apply g_body_nf with (n := n); [exact IH|unfold fsize in Hsz; lia|constructor].
Qed.

Theorem go_run_total f m : fsize f <= m -> go_run m f <> None.
Proof.
  intros Hm. unfold go_run. assert (H := gfn_nf m f false false (mkgst [] []) Hm).
  destruct (gfn m f false false (mkgst [] [])); try discriminate. contradiction.
Qed.
