(* Lemmas about checked indexing and slicing (IndexM), shared by the proofs of the md engine. *)
From Verif Require Import Bytes IndexM.
Open Scope N_scope.

(* ------------------------------------------------------------------ *)
(* lists, checked indexing and slicing                                  *)

Lemma nlen_nat {A} (l : list A) : N.to_nat (nlen l) = length l.
Proof. rewrite nlen_eq. apply Nat2N.id. Qed.

Lemma get_app_mid (pre : bytes) c post : get (pre ++ c :: post) (nlen pre) = Some c.
Proof.
  unfold get. rewrite nlen_nat. rewrite nth_error_app2 by lia.
  rewrite Nat.sub_diag. reflexivity.
Qed.

Lemma get_lt (s : bytes) i : i < nlen s -> exists c, get s i = Some c.
Proof.
  intros H. unfold get. destruct (nth_error s (N.to_nat i)) eqn:E; [eauto|].
  apply nth_error_None in E. rewrite nlen_eq in H. lia.
Qed.

Lemma get_split (s : bytes) i c :
  get s i = Some c -> exists pre post, s = pre ++ c :: post /\ nlen pre = i.
Proof.
  unfold get. intros H. apply nth_error_split in H. destruct H as (l1 & l2 & -> & Hl).
  exists l1, l2. split; [reflexivity|]. rewrite nlen_eq. lia.
Qed.

Definition seg (s : bytes) (a b : N) : bytes :=
  firstn (N.to_nat (b - a)) (skipn (N.to_nat a) s).

Lemma slice_ok s a b : a <= b -> b <= nlen s -> slice s a b = Some (seg s a b).
Proof.
  intros H1 H2. unfold slice.
  apply N.leb_le in H1. apply N.leb_le in H2. rewrite H1, H2. reflexivity.
Qed.

Lemma seg_same s a : seg s a a = [].
Proof. unfold seg. rewrite N.sub_diag. reflexivity. Qed.

Lemma seg_snoc (pre : bytes) c post last :
  last <= nlen pre ->
  seg (pre ++ c :: post) last (nlen pre + 1) = seg (pre ++ c :: post) last (nlen pre) ++ [c].
Proof.
  intros H. unfold seg. rewrite nlen_eq in *.
  set (a := N.to_nat last). set (n := length pre).
  assert (Ha : (a <= n)%nat) by (unfold a, n; lia).
  replace (N.to_nat (N.of_nat n + 1 - last)) with (S (n - a)) by (unfold a; lia).
  replace (N.to_nat (N.of_nat n - last)) with (n - a)%nat by (unfold a; lia).
  rewrite skipn_app. replace (a - length pre)%nat with O by (fold n; lia).
  cbn [skipn].
  assert (HL : length (skipn a pre) = (n - a)%nat) by (rewrite skipn_length; reflexivity).
  rewrite !firstn_app, HL.
  rewrite (firstn_all2 (n:=S (n - a))) by lia. rewrite (firstn_all2 (n:=(n - a)%nat)) by lia.
  replace (S (n - a) - (n - a))%nat with 1%nat by lia.
  rewrite Nat.sub_diag. cbn [firstn]. rewrite app_nil_r. reflexivity.
Qed.

Definition last_opt (l : bytes) : option N :=
  match rev l with x :: _ => Some x | [] => None end.

Lemma last_opt_snoc l c : last_opt (l ++ [c]) = Some c.
Proof. unfold last_opt. rewrite rev_app_distr. reflexivity. Qed.

Lemma nlen_snoc {A} (l : list A) c : nlen (l ++ [c]) = nlen l + 1.
Proof. rewrite nlen_app, nlen_cons, nlen_nil. lia. Qed.

Lemma get_prev (p : bytes) x post : get ((p ++ [x]) ++ post) (nlen (p ++ [x]) - 1) = Some x.
Proof.
  rewrite nlen_snoc. replace (nlen p + 1 - 1) with (nlen p) by lia.
  rewrite <- app_assoc. apply get_app_mid.
Qed.

Lemma get_next (pre : bytes) c nx r : get (pre ++ c :: nx :: r) (nlen pre + 1) = Some nx.
Proof.
  replace (pre ++ c :: nx :: r) with ((pre ++ [c]) ++ nx :: r) by (rewrite <- app_assoc; reflexivity).
  rewrite <- nlen_snoc with (c := c). apply get_app_mid.
Qed.

Lemma nlen_seg s a b : a <= b -> b <= nlen s -> nlen (seg s a b) = b - a.
Proof.
  intros H1 H2. unfold seg. rewrite nlen_eq in *. rewrite firstn_length, skipn_length. lia.
Qed.

Lemma nlen_firstn_le {A} n (l : list A) : nlen (firstn n l) <= N.of_nat n.
Proof. rewrite nlen_eq. pose proof (firstn_le_length n l). lia. Qed.

