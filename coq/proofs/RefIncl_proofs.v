(* The sub-fragment opt_html of the reference tokenizer (RefTok2) is a part of
   the corrected fragment opt_strict: whenever the reference with opt_html stays
   inside its fragment, the reference with opt_strict does too, with the same
   shows and contexts. *)
From Verif Require Import Bytes Utf8 Facts_lexer LexBase LexCodeM LexerM LexTables RefTok RefTok2 LexBase_proofs LexSim_proofs.
Open Scope N_scope.

Definition special (a : N) : bool := (a =? 123) || (a =? 34) || (a =? 96) || (a =? 39).

Lemma skip_show_eq a s :
  skip_show (a :: s) =
  if (a =? 125) && hd_is s 125 then Some (tl s) else if special a then None else skip_show s.
Proof.
  destruct (N.eqb_spec a 125) as [->|Na].
  - destruct s as [|b r]; [reflexivity|]. cbn [hd_is andb tl].
    destruct (N.eqb_spec b 125) as [->|Nb]; [reflexivity|].
    cbn [skip_show]. 
    destruct b as [|p]; [reflexivity|].
    do 7 (destruct p as [p|p|]; try reflexivity). all: try reflexivity. all: try (exfalso; apply Nb; reflexivity).
  - cbn [andb]. destruct a as [|p]; [reflexivity|].
    do 7 (destruct p as [p|p|]; try reflexivity). all: try reflexivity. all: try (exfalso; apply Na; reflexivity).
Qed.

(* a show of an identifier is a show of the corrected fragment *)
Lemma not_special_ident c : is_ident_char c = true -> special c = false /\ c <> 125 /\ c <> 47.
Proof.
  unfold is_ident_char, is_letter, lower, special. intros H.
  assert (Hr : (65 <= c <= 90 \/ 97 <= c <= 122) \/ c = 95 \/ 48 <= c <= 57).
  { apply orb_prop in H. destruct H as [H|H]; [apply orb_prop in H; destruct H as [H|H]|].
    - left. destruct ((65 <=? c) && (c <=? 90)) eqn:E; b2p; lia.
    - right. left. apply N.eqb_eq in H. exact H.
    - right. right. b2p. lia. }
  split; [|lia]. repeat (apply orb_false_intro); apply N.eqb_neq; lia.
Qed.

(* the bytes skip_show goes over and what is left *)
Lemma skip_show_ident_tail r' : forall s, skip_spaces s = 125 :: 125 :: r' ->
  skip_show s = Some r' /\ existsb (N.eqb 47) (firstn (length s - length r') s) = false.
Proof.
  induction s as [|c t IH]; intros H; [discriminate|]. cbn [skip_spaces] in H.
  destruct (N.eqb_spec c 32) as [->|N32].
  - destruct (IH H) as [A B]. rewrite skip_show_eq. change (32 =? 125) with false. cbn [andb]. change (special 32) with false. cbv iota.
    split; [exact A|]. assert (Hl : (length r' <= length t)%nat).
    { clear -A. revert A. revert r'. induction t as [|a u IHu]; intros r' A; [discriminate|]. rewrite skip_show_eq in A.
      destruct ((a =? 125) && hd_is u 125); [injection A as <-; destruct u; cbn; lia|]. destruct (special a); [discriminate|].
      specialize (IHu _ A). cbn. lia. }
    cbn [length]. replace (S (length t) - length r')%nat with (S (length t - length r')) by lia. cbn [firstn existsb]. exact B.
  - injection H as -> ->. rewrite skip_show_eq. cbn [hd_is tl]. change (125 =? 125) with true. cbn [andb]. split; [reflexivity|].
    cbn [length]. replace (S (S (length r')) - length r')%nat with 2%nat by lia. reflexivity.
Qed.

Lemma skip_show_le s : forall r', skip_show s = Some r' -> (length r' <= length s)%nat.
Proof.
  induction s as [|a u IHu]; intros r' A; [discriminate|]. rewrite skip_show_eq in A.
  destruct ((a =? 125) && hd_is u 125); [injection A as <-; destruct u; cbn; lia|]. destruct (special a); [discriminate|].
  specialize (IHu _ A). cbn. lia.
Qed.

Lemma skip_show_ident_mid r' : forall s, skip_spaces (skip_ident s) = 125 :: 125 :: r' ->
  skip_show s = Some r' /\ existsb (N.eqb 47) (firstn (length s - length r') s) = false.
Proof.
  induction s as [|c t IH]; intros H; [discriminate|]. cbn [skip_ident] in H.
  destruct (is_ident_char c) eqn:Eic.
  - destruct (IH H) as [A B]. destruct (not_special_ident c Eic) as (S1 & S2 & S3).
    rewrite skip_show_eq. apply N.eqb_neq in S2. rewrite S2. cbn [andb]. rewrite S1. split; [exact A|].
    pose proof (skip_show_le _ _ A) as Hl.
    cbn [length]. replace (S (length t) - length r')%nat with (S (length t - length r')) by lia. cbn [firstn existsb].
    apply N.eqb_neq in S3. rewrite (N.eqb_sym 47 c), S3. exact B.
  - apply skip_show_ident_tail. exact H.
Qed.

Lemma skip_show2_incl s r' : skip_show2 opt_html s = Some r' -> skip_show2 opt_strict s = Some r'.
Proof.
  unfold skip_show2. cbn [o_ident o_strict opt_html opt_strict andb].
  assert (G : forall s, match skip_spaces s with
                        | c :: r => if is_ident_start c then match skip_spaces (skip_ident r) with a :: b :: r'0 => if (a =? 125) && (b =? 125) then Some r'0 else None | _ => None end else None
                        | [] => None end = Some r' ->
              skip_show s = Some r' /\ existsb (N.eqb 47) (firstn (length s - length r') s) = false).
  { clear s. induction s as [|c t IH]; intros H; [discriminate|]. cbn [skip_spaces] in H.
    destruct (N.eqb_spec c 32) as [->|N32].
    - destruct (IH H) as [A B]. rewrite skip_show_eq. change (32 =? 125) with false. cbn [andb]. change (special 32) with false. cbv iota.
      split; [exact A|]. pose proof (skip_show_le _ _ A) as Hl.
      cbn [length]. replace (S (length t) - length r')%nat with (S (length t - length r')) by lia. cbn [firstn existsb]. exact B.
    - destruct (is_ident_start c) eqn:Eis; [|discriminate].
      assert (Eic : is_ident_char c = true) by (unfold is_ident_char; unfold is_ident_start in Eis; rewrite Eis; reflexivity).
      assert (Hmid : skip_spaces (skip_ident t) = 125 :: 125 :: r').
      { destruct (skip_spaces (skip_ident t)) as [|a [|b u]]; try discriminate.
        destruct (N.eqb_spec a 125) as [->|]; [|discriminate]. destruct (N.eqb_spec b 125) as [->|]; [|discriminate]. injection H as <-. reflexivity. }
      destruct (skip_show_ident_mid r' t Hmid) as [A B]. destruct (not_special_ident c Eic) as (S1 & S2 & S3).
      rewrite skip_show_eq. apply N.eqb_neq in S2. rewrite S2. cbn [andb]. rewrite S1. split; [exact A|].
      pose proof (skip_show_le _ _ A) as Hl.
      cbn [length]. replace (S (length t) - length r')%nat with (S (length t - length r')) by lia. cbn [firstn existsb].
      apply N.eqb_neq in S3. rewrite (N.eqb_sym 47 c), S3. exact B. }
  intros H. destruct (G s H) as [A B]. rewrite A. rewrite B. reflexivity.
Qed.

(* the proved sub-fragment is a part of the corrected fragment *)
Lemma ref_run2_incl : forall fuel st off s acc w,
  ref_run2 opt_html fuel st off s acc = Some w -> ref_run2 opt_strict fuel st off s acc = Some w.
Proof.
  induction fuel as [|f IH]; intros st off s acc w H; [discriminate|]. cbn [ref_run2] in *.
  destruct s as [|c r]; [exact H|]. destruct st; try discriminate.
  all: destruct ((c =? 123) && hd_is r 123);
    [destruct (ctx_of _) in *; try discriminate;
     (destruct (skip_show2 opt_html (skipn 1 r)) as [r'|] eqn:E; [|discriminate]); rewrite (skip_show2_incl _ _ E); apply IH; exact H|].
  all: destruct ((c =? 123) && (hd_is r 37 || hd_is r 35)); [discriminate|].
  (* the states whose step does not depend on the options *)
  all: cbn [rstep2 o_strict opt_html opt_strict] in *.
  all: try (lazymatch goal with H0 : context [after_tag] |- _ => fail | _ => idtac end;
            try match goal with |- context [if ?b then (ROutside, 0%nat) else _] => destruct b end;
            try match goal with |- context [rstep ?a ?b ?d] => destruct (rstep a b d) as [st' k]; destruct st' end;
            cbv iota beta in *; try (apply IH; exact H); try assumption; try discriminate).
  (* the end tag of a raw text element *)
  all: try (lazymatch goal with H0 : context [end_tag_here] |- _ => idtac end;
            match goal with H1 : context [if ?b then _ else None] |- _ => destruct b; [|discriminate H1] end;
            match goal with H1 : context [if ?b then None else _] |- _ => destruct b; [discriminate H1|] end;
            match goal with H1 : context [index_byte ?r1 62] |- _ => destruct (index_byte r1 62) as [kk|] end;
            match goal with H1 : context [if ?b then None else _] |- _ => destruct b; [discriminate H1|] end;
            first [apply IH; exact H|exact H]).
  (* the states that may meet the end of a start tag *)
  all: unfold after_tag in *; cbn [o_raw opt_html opt_strict] in *.
  - destruct (is_ws c); [apply IH; exact H|]. destruct (c =? 62).
    + destruct (raw_elem name); [discriminate|apply IH; exact H].
    + destruct (is_letter c || (48 <=? c) && (c <=? 57) || (c =? 45)); [apply IH; exact H|discriminate].
  - destruct (is_ws c); [apply IH; exact H|]. destruct (c =? 62).
    + destruct (raw_elem tag); [discriminate|apply IH; exact H].
    + destruct (is_letter c); [apply IH; exact H|discriminate].
  - destruct (raw_elem tag && bytes_eqb attr s_type); [discriminate|]. destruct (c =? 61); [apply IH; exact H|].
    destruct (is_ws c); [apply IH; exact H|]. destruct (c =? 62).
    + destruct (raw_elem tag); [discriminate|apply IH; exact H].
    + destruct (is_letter c || (c =? 45)); [apply IH; exact H|discriminate].
Qed.

Theorem ref_contexts2_incl src w : ref_contexts2 opt_html src = Some w -> ref_contexts2 opt_strict src = Some w.
Proof.
  unfold ref_contexts2. cbn [o_strict opt_html opt_strict andb]. destruct (has_prefix src [35; 33]); [discriminate|]. apply ref_run2_incl.
Qed.

(* the corrected statement holds of every source of the sub-fragment *)
Theorem strict_on_html (src : bytes) w :
  is_bytes src = true -> ref_contexts2 opt_html src = Some w ->
  ref_contexts2 opt_strict src = Some w /\ ctx_sim_ok2 opt_strict src = true.
Proof.
  intros Hb H. pose proof (ref_contexts2_incl src w H) as Hs. split; [exact Hs|].
  pose proof (lexer_ctx_sim_html src Hb) as Hh. unfold ctx_sim_ok2 in *. rewrite H in Hh. rewrite Hs. exact Hh.
Qed.
