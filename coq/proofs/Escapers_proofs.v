(* The chunked write loops of EscapersM.v equal their per-byte views:
   flat (chunks) = concatenation, in order, of one block per input byte
   (per rune prefix for jsStringEscape). *)
From Verif Require Import Bytes Utf8 Facts_escapers Facts_esc EscapersM.
Open Scope N_scope.

Lemma flat_app a b : flat (a ++ b) = flat a ++ flat b.
Proof. unfold flat. apply concat_app. Qed.
Lemma flat_cons c r : flat (c :: r) = c ++ flat r.
Proof. reflexivity. Qed.
Lemma flat_flush pend : flat (flush_pend pend) = rev pend.
Proof. destruct pend as [|c p]; [reflexivity|]. unfold flush_pend, flat. cbn [concat]. apply app_nil_r. Qed.

(* no empty Write: every chunk of the common loop is non-empty when the table has no empty entry *)
Lemma flush_nonempty pend : Forall (fun ch => ch <> []) (flush_pend pend).
Proof.
  destruct pend as [|c p]; [constructor|]. unfold flush_pend. constructor; [|constructor].
  cbn [rev]. intros H. apply app_eq_nil in H. destruct H as [_ H]. discriminate.
Qed.

(* ---------------- the common loop ---------------- *)
Definition esc_or_self (t : tbl) (c : N) : bytes :=
  match assoc_get t c with Some e => e | None => [c] end.

Lemma esc_or_self_none (t : tbl) c : assoc_get t c = None -> esc_or_self t c = [c].
Proof. unfold esc_or_self. intros ->. reflexivity. Qed.
Lemma esc_or_self_some (t : tbl) c e : assoc_get t c = Some e -> esc_or_self t c = e.
Proof. unfold esc_or_self. intros ->. reflexivity. Qed.

Lemma scan_flat t s : forall pend,
  flat (scan_chunks t s pend) = rev pend ++ flat_map (esc_or_self t) s.
Proof.
  induction s as [|c r IH]; intros pend; cbn [scan_chunks flat_map].
  - rewrite flat_flush, app_nil_r. reflexivity.
  - unfold esc_or_self at 1. destruct (assoc_get t c) as [e|].
    + rewrite !flat_app, flat_flush, IH. cbn [flat concat rev app]. rewrite app_nil_r. reflexivity.
    + rewrite IH. cbn [rev]. rewrite <- app_assoc. reflexivity.
Qed.

Lemma scan_nonempty t s : forall pend,
  (forall c e, assoc_get t c = Some e -> e <> []) ->
  Forall (fun ch => ch <> []) (scan_chunks t s pend).
Proof.
  induction s as [|c r IH]; intros pend Ht; cbn [scan_chunks].
  - apply flush_nonempty.
  - match goal with |- context [@assoc_get ?A ?a ?b] => destruct (@assoc_get A a b) as [e|] eqn:He end.
    + apply Forall_app. split; [apply flush_nonempty|]. constructor; [eapply Ht; eassumption|]. apply IH, Ht.
    + apply IH, Ht.
Qed.

Lemma htmlEscape_flat s : flat (htmlEscape s) = flat_map (esc_or_self gen_htmlEscape_tbl) s.
Proof. unfold htmlEscape. rewrite scan_flat. reflexivity. Qed.
Lemma htmlNoEntitiesEscape_flat s : flat (htmlNoEntitiesEscape s) = flat_map (esc_or_self gen_htmlNoEntitiesEscape_tbl) s.
Proof. unfold htmlNoEntitiesEscape. rewrite scan_flat. reflexivity. Qed.
Lemma queryEscape_flat s : flat (queryEscape s) = flat_map (esc_or_self gen_queryEscape_tbl) s.
Proof. unfold queryEscape. rewrite scan_flat. reflexivity. Qed.

(* attributeEscape: the table in force for each pair of flags.  The quoted
   cases hold because the generated callee facts are 1 and 2. *)
Definition attr_tbl (escapeEntities quoted : bool) : tbl :=
  if quoted then (if escapeEntities then gen_htmlEscape_tbl else gen_htmlNoEntitiesEscape_tbl)
  else (if escapeEntities then gen_attrUnquoted_entities_tbl else gen_attrUnquoted_noentities_tbl).

Lemma attr_callee_facts :
  gen_attrQuoted_entities_callee = 1 /\ gen_attrQuoted_noentities_callee = 2.
Proof. split; reflexivity. Qed.

Lemma attributeEscape_flat e q s :
  flat (attributeEscape e q s) = flat_map (esc_or_self (attr_tbl e q)) s.
Proof.
  destruct attr_callee_facts as [H1 H2].
  unfold attributeEscape, attr_tbl, attr_callee. rewrite H1, H2.
  destruct q, e; cbn [N.eqb Pos.eqb]; unfold htmlEscape, htmlNoEntitiesEscape; rewrite scan_flat; reflexivity.
Qed.

(* ---------------- cssStringEscape ---------------- *)
Definition css_esc1 (c : N) (r : bytes) : bytes :=
  match assoc_get gen_cssStringEscape_tbl c with
  | None => [c]
  | Some e => e ++ (if css_space c r then [32] else [])
  end.

Fixpoint css_view (s : bytes) : bytes :=
  match s with
  | [] => []
  | c :: r => css_esc1 c r ++ css_view r
  end.

Lemma css_chunks_flat s : forall pend, flat (css_chunks s pend) = rev pend ++ css_view s.
Proof.
  induction s as [|c r IH]; intros pend; cbn [css_chunks css_view].
  - rewrite flat_flush, app_nil_r. reflexivity.
  - unfold css_esc1. destruct (assoc_get gen_cssStringEscape_tbl c) as [e|].
    + rewrite !flat_app, flat_flush, IH. cbn [rev app].
      destruct (css_space c r); cbn [flat concat app]; rewrite ?app_nil_r, <- ?app_assoc; reflexivity.
    + rewrite IH. cbn [rev]. rewrite <- app_assoc. reflexivity.
Qed.

Lemma cssStringEscape_flat s : flat (cssStringEscape s) = css_view s.
Proof. unfold cssStringEscape. rewrite css_chunks_flat. reflexivity. Qed.

(* ---------------- pathEscape ---------------- *)
Definition path_esc1 (quoted : bool) (c : N) (r : bytes) : bytes :=
  match path_esc quoted c r with Some e => e | None => [c] end.

Fixpoint path_view (quoted : bool) (s : bytes) : bytes :=
  match s with
  | [] => []
  | c :: r => path_esc1 quoted c r ++ path_view quoted r
  end.

Lemma path_chunks_flat q s : forall pend, flat (path_chunks q s pend) = rev pend ++ path_view q s.
Proof.
  induction s as [|c r IH]; intros pend; cbn [path_chunks path_view].
  - rewrite flat_flush, app_nil_r. reflexivity.
  - unfold path_esc1. destruct (path_esc q c r) as [e|].
    + rewrite !flat_app, flat_flush, IH. cbn [flat concat rev app]. rewrite app_nil_r. reflexivity.
    + rewrite IH. cbn [rev]. rewrite <- app_assoc. reflexivity.
Qed.

Lemma pathEscape_flat q s : flat (pathEscape q s) = path_view q s.
Proof. unfold pathEscape. rewrite path_chunks_flat. reflexivity. Qed.

(* ---------------- jsStringEscape ---------------- *)
From Verif Require Import Utf8_proofs.

Lemma assoc_get_In {A} (l : list (N * A)) c e : assoc_get l c = Some e -> In (c, e) l.
Proof.
  induction l as [|[k v] r IH]; [discriminate|].
  change (assoc_get ((k, v) :: r) c) with (if N.eqb k c then Some v else assoc_get r c).
  destruct (N.eqb_spec k c) as [->|_]; intros H.
  - injection H as ->. left. reflexivity.
  - right. apply IH, H.
Qed.

(* per-byte view: a byte below 128 is replaced through the table; the byte
   sequences E2 80 A8 and E2 80 A9 (U+2028, U+2029) are replaced through the
   table entries 8232 and 8233; every other byte is kept *)
Definition js_esc1 (c : N) : bytes :=
  if c <? 128 then esc_or_self gen_jsStringEscape_tbl c else [c].

Fixpoint js_view (s : bytes) : bytes :=
  match s with
  | [] => []
  | b0 :: r =>
    match r with
    | b1 :: b2 :: r' =>
      if (b0 =? 226) && (b1 =? 128) && ((b2 =? 168) || (b2 =? 169)) then
        match assoc_get gen_jsStringEscape_tbl (8064 + b2) with
        | Some e => e ++ js_view r'
        | None => b0 :: js_view r
        end
      else js_esc1 b0 ++ js_view r
    | _ => js_esc1 b0 ++ js_view r
    end
  end.

Lemma js_view_cons b0 r :
  js_view (b0 :: r) =
  match r with
  | b1 :: b2 :: r' =>
    if (b0 =? 226) && (b1 =? 128) && ((b2 =? 168) || (b2 =? 169)) then
      match assoc_get gen_jsStringEscape_tbl (8064 + b2) with
      | Some e => e ++ js_view r'
      | None => b0 :: js_view r
      end
    else js_esc1 b0 ++ js_view r
  | _ => js_esc1 b0 ++ js_view r
  end.
Proof. destruct r as [|b1 [|b2 r']]; reflexivity. Qed.

(* obligations on the generated table *)
Definition js_keys_ok : bool :=
  forallb (fun kv => (fst kv <? 128) || (fst kv =? 8232) || (fst kv =? 8233)) gen_jsStringEscape_tbl.
Lemma js_keys_ok_true : js_keys_ok = true. Proof. vm_compute. reflexivity. Qed.

(* the table (sampled runes) lists exactly the runes found by evaluating every rune 0..0x10FFFF *)
Lemma js_tbl_complete : map fst gen_jsStringEscape_tbl = gen_jsStringEscape_runes.
Proof. vm_compute. reflexivity. Qed.

Lemma js_tbl_key c e : assoc_get gen_jsStringEscape_tbl c = Some e -> c < 128 \/ c = 8232 \/ c = 8233.
Proof.
  intros H. apply assoc_get_In in H.
  pose proof js_keys_ok_true as Hk. unfold js_keys_ok in Hk. rewrite forallb_forall in Hk.
  specialize (Hk _ H). cbn [fst] in Hk.
  apply orb_prop in Hk. destruct Hk as [Hk|Hk]; [apply orb_prop in Hk; destruct Hk as [Hk|Hk]|].
  - left. apply N.ltb_lt, Hk.
  - right. left. apply N.eqb_eq, Hk.
  - right. right. apply N.eqb_eq, Hk.
Qed.

Lemma js_view_hi b x : 128 <= b -> b <> 226 -> js_view (b :: x) = b :: js_view x.
Proof.
  intros H1 H2. rewrite js_view_cons.
  assert (He : js_esc1 b = [b]).
  { unfold js_esc1. destruct (N.ltb_spec b 128); [lia|reflexivity]. }
  destruct x as [|b1 [|b2 r']]; rewrite ?He; try reflexivity.
  destruct (N.eqb_spec b 226); [contradiction|]. cbn [andb]. reflexivity.
Qed.

Lemma js_view_ascii b x : b < 128 -> js_view (b :: x) = esc_or_self gen_jsStringEscape_tbl b ++ js_view x.
Proof.
  intros H1. rewrite js_view_cons.
  assert (He : js_esc1 b = esc_or_self gen_jsStringEscape_tbl b).
  { unfold js_esc1. destruct (N.ltb_spec b 128); [reflexivity|lia]. }
  destruct x as [|b1 [|b2 r']]; rewrite ?He; try reflexivity.
  destruct (N.eqb_spec b 226); [lia|]. cbn [andb]. reflexivity.
Qed.

Lemma js_view_ls b2 r' : b2 = 168 \/ b2 = 169 ->
  js_view (226 :: 128 :: b2 :: r') =
  match assoc_get gen_jsStringEscape_tbl (8064 + b2) with
  | Some e => e ++ js_view r'
  | None => 226 :: 128 :: b2 :: js_view r'
  end.
Proof.
  intros H. rewrite js_view_cons.
  replace ((226 =? 226) && (128 =? 128) && ((b2 =? 168) || (b2 =? 169))) with true
    by (destruct H; subst; reflexivity).
  destruct (assoc_get gen_jsStringEscape_tbl (8064 + b2)); [reflexivity|].
  f_equal. rewrite js_view_hi by lia. rewrite js_view_hi by (destruct H; lia). reflexivity.
Qed.

Lemma decode_rune_226 b2 r2 : 128 <= b2 < 192 -> decode_rune (226 :: 128 :: b2 :: r2) = (8064 + b2, 3%nat).
Proof.
  intros H. unfold decode_rune.
  assert (Hc : is_cont b2 = true) by (apply is_cont_spec; exact H).
  change (226 <? 128) with false. change (226 <? 194) with false. change (226 <? 224) with false.
  change (226 <? 240) with true. change (226 =? 224) with false. change (226 =? 237) with false.
  lazy iota beta.
  change (128 <=? 128) with true. change (128 <=? 191) with true. rewrite Hc. cbn [andb].
  f_equal. lia.
Qed.

(* a rune that is not escaped: its bytes are kept *)
Lemma js_view_pass b0 r c sz :
  decode_rune (b0 :: r) = (c, sz) -> assoc_get gen_jsStringEscape_tbl c = None ->
  js_view (b0 :: r) = firstn sz (b0 :: r) ++ js_view (skipn sz (b0 :: r)).
Proof.
  intros Hd Hn. pose proof (decode_rune_shape b0 r) as Hs. rewrite Hd in Hs. cbn [fst snd] in Hs.
  destruct Hs as [H|H|b1 r1 Hr H0 H1|b1 b2 r2 Hr H0 H1 H2 Hov|b1 b2 b3 r3 c Hr H0 H1 H2 H3 Hc4].
  - cbn [firstn skipn app]. rewrite js_view_ascii by assumption. rewrite (esc_or_self_none _ _ Hn). reflexivity.
  - cbn [firstn skipn app]. destruct (N.eq_dec b0 226) as [->|Hne]; [|apply js_view_hi; assumption].
    destruct r as [|b1 [|b2 r']]; try reflexivity.
    rewrite js_view_cons.
    destruct ((226 =? 226) && (b1 =? 128) && ((b2 =? 168) || (b2 =? 169))) eqn:Hc.
    + exfalso. apply andb_prop in Hc. destruct Hc as [Hc Hc2]. apply andb_prop in Hc. destruct Hc as [_ Hc1].
      apply N.eqb_eq in Hc1. subst b1.
      rewrite decode_rune_226 in Hd.
      * discriminate.
      * apply orb_prop in Hc2. destruct Hc2 as [Hc2|Hc2]; apply N.eqb_eq in Hc2; lia.
    + reflexivity.
  - subst r. cbn [firstn skipn app]. rewrite js_view_hi by lia. rewrite js_view_hi by lia. reflexivity.
  - subst r. cbn [firstn skipn app].
    destruct (N.eq_dec b0 226) as [->|Hne].
    + destruct (N.eq_dec b1 128) as [->|Hne1].
      * destruct (N.eq_dec b2 168) as [->|Hne2]; [rewrite js_view_ls by (left; reflexivity); cbn in Hn; cbn; rewrite Hn; reflexivity|].
        destruct (N.eq_dec b2 169) as [->|Hne3]; [rewrite js_view_ls by (right; reflexivity); cbn in Hn; cbn; rewrite Hn; reflexivity|].
        rewrite js_view_cons.
        replace ((226 =? 226) && (128 =? 128) && ((b2 =? 168) || (b2 =? 169))) with false
          by (destruct (N.eqb_spec b2 168), (N.eqb_spec b2 169); try contradiction; reflexivity).
        cbn [js_esc1 N.ltb N.compare Pos.compare Pos.compare_cont app]. change (js_esc1 226) with [226]. cbn [app].
        rewrite js_view_hi by lia. rewrite js_view_hi by lia. reflexivity.
      * rewrite js_view_cons.
        replace ((226 =? 226) && (b1 =? 128) && ((b2 =? 168) || (b2 =? 169))) with false
          by (destruct (N.eqb_spec b1 128); [contradiction|reflexivity]).
        change (js_esc1 226) with [226]. cbn [app].
        rewrite js_view_hi by lia. rewrite js_view_hi by lia. reflexivity.
    + rewrite js_view_hi by lia. rewrite js_view_hi by lia. rewrite js_view_hi by lia. reflexivity.
  - subst r. cbn [firstn skipn app]. rewrite !js_view_hi by lia. reflexivity.
Qed.

(* a rune that is escaped is a byte below 128, or U+2028 / U+2029 written as three bytes *)
Lemma js_view_esc b0 r c sz e :
  decode_rune (b0 :: r) = (c, sz) -> assoc_get gen_jsStringEscape_tbl c = Some e ->
  (sz = 1%nat /\ js_adv c = 1%nat /\ js_view (b0 :: r) = e ++ js_view r) \/
  (exists b2 r2, r = 128 :: b2 :: r2 /\ sz = 3%nat /\ js_adv c = 3%nat /\ js_view (b0 :: r) = e ++ js_view r2).
Proof.
  intros Hd He. pose proof (decode_rune_shape b0 r) as Hs. rewrite Hd in Hs. cbn [fst snd] in Hs.
  destruct (js_tbl_key _ _ He) as [Hk|Hk].
  - left. destruct Hs as [H|H|b1 r1 Hr H0 H1|b1 b2 r2 Hr H0 H1 H2 Hov|b1 b2 b3 r3 c Hr H0 H1 H2 H3 Hc4];
      try (unfold rune_error in *; lia).
    split; [reflexivity|]. split.
    + unfold js_adv. destruct (N.eqb_spec b0 8232); [lia|]. destruct (N.eqb_spec b0 8233); [lia|]. reflexivity.
    + rewrite js_view_ascii by assumption. rewrite (esc_or_self_some _ _ _ He). reflexivity.
  - right. destruct (rune_shape_ls _ _ _ _ Hs Hk) as (b2 & r2 & -> & -> & -> & Hc & Hb2).
    exists b2, r2. split; [reflexivity|]. split; [reflexivity|]. split.
    + unfold js_adv. destruct Hk as [->| ->]; reflexivity.
    + rewrite js_view_ls by assumption. rewrite <- Hc, He. reflexivity.
Qed.

Lemma js_loop_view fuel : forall s pend, (length s <= fuel)%nat ->
  exists cs, js_loop fuel s pend = Some cs /\ flat cs = rev pend ++ js_view s.
Proof.
  induction fuel as [|f IH]; intros s pend Hl.
  - destruct s; [|cbn [length] in Hl; lia]. exists (flush_pend pend). split; [reflexivity|].
    rewrite flat_flush, app_nil_r. reflexivity.
  - destruct s as [|b0 r].
    { exists (flush_pend pend). split; [reflexivity|]. rewrite flat_flush, app_nil_r. reflexivity. }
    cbn [js_loop]. destruct (decode_rune (b0 :: r)) as [c sz] eqn:Hd.
    pose proof (decode_rune_shape b0 r) as Hs. rewrite Hd in Hs. cbn [fst snd] in Hs.
    pose proof (rune_shape_len _ _ _ _ Hs) as Hsz.
    assert (Hlen : (length (skipn sz (b0 :: r)) <= f)%nat) by (rewrite skipn_length; cbn [length] in *; lia).
    destruct (assoc_get gen_jsStringEscape_tbl c) as [e|] eqn:He.
    + destruct (js_view_esc _ _ _ _ _ Hd He) as [(-> & Ha & Hv)|(b2 & r2 & -> & -> & Ha & Hv)]; rewrite Ha.
      * cbn [Nat.ltb Nat.leb firstn skipn rev].
        destruct (IH r [] ltac:(cbn [length] in Hl; lia)) as (cs & Hcs & Hf).
        rewrite Hcs. eexists. split; [reflexivity|].
        rewrite !flat_app, flat_flush, Hf, Hv. cbn [flat concat rev app]. rewrite app_nil_r. reflexivity.
      * cbn [Nat.ltb Nat.leb firstn skipn rev].
        destruct (IH r2 [] ltac:(cbn [length] in Hl; lia)) as (cs & Hcs & Hf).
        rewrite Hcs. eexists. split; [reflexivity|].
        rewrite !flat_app, flat_flush, Hf, Hv. cbn [flat concat rev app]. rewrite app_nil_r. reflexivity.
    + destruct (IH (skipn sz (b0 :: r)) (rev (firstn sz (b0 :: r)) ++ pend) Hlen) as (cs & Hcs & Hf).
      exists cs. split; [exact Hcs|].
      rewrite Hf, rev_app_distr, rev_involutive, <- app_assoc.
      rewrite (js_view_pass _ _ _ _ Hd He). reflexivity.
Qed.

Theorem jsStringEscape_view s :
  exists cs, jsStringEscape s = Some cs /\ flat cs = js_view s.
Proof.
  unfold jsStringEscape. destruct (js_loop_view (length s) s [] (le_n _)) as (cs & H1 & H2).
  exists cs. split; [exact H1|exact H2].
Qed.
