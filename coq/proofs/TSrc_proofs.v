(* Proofs about the source calculus and its lowering (C16). *)
From Verif Require Import Bytes Facts_render Facts_escapers RendererM Renderer_proofs TCalcM TCalc_proofs TSrcM.
Open Scope N_scope.

(* ---------------------------------------------------------------- generated tables = the formula *)

(* the code as it is: canOptimizeShowMacro has the format condition, the render
   fast path of the Show statement is taken for every format and context
   (recorded finding render-fastpath-format) *)
Lemma fastpath_tables_agree :
  forallb (fun t => match t with (f, c, b) => Bool.eqb b (fast_path f c) end) gen_macro_fastpath = true /\
  forallb (fun t => match t with (f, c, b) => b end) gen_render_fastpath = true.
Proof. vm_compute. auto. Qed.

Lemma tbl_fast_sound tbl from ctx :
  forallb (fun t => match t with (f, c, b) => Bool.eqb b (fast_path f c) end) tbl = true ->
  tbl_fast tbl from ctx = true -> fast_path from ctx = true.
Proof.
  intros H E. unfold tbl_fast in E. apply existsb_exists in E. destruct E as [[[f c] b] [Hin Hb]].
  rewrite forallb_forall in H. specialize (H _ Hin). simpl in H.
  apply andb_prop in Hb. destruct Hb as [Hb1 Hb]. apply andb_prop in Hb1. destruct Hb1 as [Hf Hc].
  apply N.eqb_eq in Hf. apply N.eqb_eq in Hc. subst. apply eqb_prop in H. congruence.
Qed.

(* the numbering of formats is the numbering of the first six contexts: ast.Format(ctx) *)
Lemma format_is_context :
  gen_FormatText = gen_ContextText /\ gen_FormatHTML = gen_ContextHTML /\ gen_FormatCSS = gen_ContextCSS /\
  gen_FormatJS = gen_ContextJS /\ gen_FormatJSON = gen_ContextJSON /\ gen_FormatMarkdown = gen_ContextMarkdown.
Proof. repeat split. Qed.

(* ---------------------------------------------------------------- runs with the writer that never fails: shifting the output *)

Definition shift {S O} (ws : wst) (x : S * wst * O) : S * wst * O :=
  let '(s, b, o) := x in (s, mkW (w_calls ws + w_calls b) (w_out ws ++ w_out b), o).

Lemma shift_w0 {S O} (x : S * wst * O) : shift w0 x = x.
Proof. destruct x as [[s [c o]] r]. reflexivity. Qed.

Lemma run_script_never_all sc ws :
  script_ok sc = true ->
  run_script never ws sc = (mkW (w_calls ws + nlen sc) (w_out ws ++ script_chunks sc), ROk).
Proof. apply run_script_all. Qed.

Lemma run_script_shift2 sc : forall ws,
  run_script never ws sc =
  (mkW (w_calls ws + w_calls (fst (run_script never w0 sc))) (w_out ws ++ w_out (fst (run_script never w0 sc))),
   snd (run_script never w0 sc)).
Proof.
  induction sc as [|a sc IH]; intros ws.
  - simpl. rewrite N.add_0_r, app_nil_r. destruct ws; reflexivity.
  - destruct a as [c|].
    + cbn [run_script]. rewrite !wr_never. rewrite IH. rewrite (IH (mkW (w_calls w0 + 1) (w_out w0 ++ [c]))).
      destruct (run_script never w0 sc) as [b r]. cbn [fst snd w_calls w_out w0].
      f_equal. f_equal; [lia|]. rewrite <- app_assoc. reflexivity.
    + simpl. rewrite N.add_0_r, app_nil_r. destruct ws; reflexivity.
Qed.

Lemma run_script_shift sc ws :
  (tt, fst (run_script never ws sc), snd (run_script never ws sc))
  = shift ws (tt, fst (run_script never w0 sc), snd (run_script never w0 sc)).
Proof. rewrite (run_script_shift2 sc ws). reflexivity. Qed.

Lemma leaf_shift {S} (s1 s2 : S) ws c :
  (match wr never ws c with (ws', None) => (s1, ws', ROk) | (ws', Some e0) => (s2, ws', RErr e0) end)
  = shift ws (match wr never w0 c with (ws', None) => (s1, ws', ROk) | (ws', Some e0) => (s2, ws', RErr e0) end).
Proof. rewrite !wr_never. reflexivity. Qed.

Lemma r_text_shift st ws txt u s :
  r_text never st ws txt u s = shift ws (r_text never st w0 txt u s).
Proof.
  unfold r_text.
  destruct u; [|apply leaf_shift].
  destruct (s && mem txt 44); [apply leaf_shift|].
  destruct (query (url_switch st true)); [|apply leaf_shift].
  set (t1 := if remQ (url_switch st true) then _ else _).
  destruct t1 as [t|]; [|simpl; rewrite N.add_0_r, app_nil_r; destruct ws; reflexivity].
  match goal with |- context [if ?b then wr never ws amp_entity else _] => destruct b end.
  - unfold wr, never. simpl.
    f_equal. f_equal. f_equal; [lia|]. rewrite <- app_assoc. reflexivity.
  - apply leaf_shift.
Qed.

Lemma r_show_shift st ws c v :
  r_show never st ws c v = shift ws (r_show never st w0 c v).
Proof.
  unfold r_show.
  assert (Z : forall (a : rstate) (r : res), (a, ws, r) = shift ws (a, w0, r)).
  { intros. simpl. rewrite N.add_0_r, app_nil_r. destruct ws; reflexivity. }
  destruct (decode_ctx c) as [[[ctx u] s]|]; [|apply Z].
  destruct u.
  - destruct (sv_url v) as [s'|]; [|apply Z].
    destruct (r_show_url (url_switch st true) s' (ctx =? gen_ContextQuotedAttr)) as [st' sc].
    pose proof (run_script_shift sc ws) as H.
    destruct (run_script never ws sc) as [a ra]. destruct (run_script never w0 sc) as [b rb].
    simpl in H. injection H as -> ->. reflexivity.
  - destruct (mem gen_show_known_ctx ctx); [|apply Z].
    pose proof (run_script_shift (map AWrite (sv_chunks v)) ws) as H.
    destruct (run_script never ws (map AWrite (sv_chunks v))) as [a ra].
    destruct (run_script never w0 (map AWrite (sv_chunks v))) as [b rb].
    simpl in H. injection H as -> ->. destruct rb; reflexivity.
Qed.

Section Shift.
  Variable showf : N -> N -> bytes -> shown.
  Variable conv : option (bytes -> list bytes).
  Variable cf : bool.
  Notation xnode := (exec_node showf conv cf).
  Notation xlist := (exec_list showf conv cf).

  Definition node_shift (n : tnode) : Prop := forall st ws, xnode never st ws n = shift ws (xnode never st w0 n).

  Lemma shift_shift {S O} a b (x : S * wst * O) :
    shift a (shift b x) = shift (mkW (w_calls a + w_calls b) (w_out a ++ w_out b)) x.
  Proof. destruct x as [[s [c o]] r]. simpl. f_equal. f_equal. f_equal; [lia|apply app_assoc]. Qed.

  Lemma list_shift body : Forall node_shift body -> forall st ws, xlist never st ws body = shift ws (xlist never st w0 body).
  Proof.
    induction 1 as [|x r Hx Hr IH]; intros st ws.
    - simpl. rewrite N.add_0_r, app_nil_r. destruct ws; reflexivity.
    - cbn [exec_list]. rewrite (Hx st ws). destruct (xnode never st w0 x) as [[s1 b1] o1]. cbn [shift].
      destruct o1; try reflexivity.
      rewrite IH. rewrite (IH s1 b1). rewrite shift_shift. reflexivity.
  Qed.

  Lemma of_res_shift ws (x : rstate * wst * res) :
    (let '(a, b, r) := shift ws x in (a, b, of_res r)) = shift ws (let '(a, b, r) := x in (a, b, of_res r)).
  Proof. destruct x as [[a b] r]. reflexivity. Qed.

  Lemma all_nodes_shift : forall n, node_shift n.
  Proof.
    apply tnode_ind'.
    - intros txt u s st ws. cbn [exec_node]. rewrite r_text_shift. apply of_res_shift.
    - intros c v st ws. cbn [exec_node]. rewrite r_show_shift. apply of_res_shift.
    - intros fmt rec body b IHb st ws. rewrite !exec_call.
      assert (Z : forall (o : outcome), (st, ws, o) = shift ws (st, w0, o)).
      { intros. simpl. rewrite N.add_0_r, app_nil_r. destruct ws; reflexivity. }
      destruct (b =? fmt).
      + rewrite (list_shift body IHb st ws). destruct (xlist never st w0 body) as [[s1 b1] o1].
        destruct o1; try reflexivity. destruct rec; reflexivity.
      + destruct ((fmt =? gen_FormatMarkdown) && (b =? gen_FormatHTML)).
        * destruct (xlist never r0 w0 body) as [[sb bws] ob]. destruct conv as [cv|]; [|apply Z].
          destruct ob; try apply Z; [|destruct rec; apply Z].
          destruct rec; [apply Z|].
          pose proof (run_script_shift (map AWrite (cv (concat (w_out bws)))) ws) as H.
          destruct (run_script never ws (map AWrite (cv (concat (w_out bws))))) as [a ra].
          destruct (run_script never w0 (map AWrite (cv (concat (w_out bws))))) as [b' rb].
          simpl in H. injection H as -> ->. destruct rb; try reflexivity. destruct cf; reflexivity.
        * rewrite (list_shift body IHb r0 ws). destruct (xlist never r0 w0 body) as [[s1 b1] o1].
          destruct o1; try reflexivity. destruct rec; reflexivity.
    - intros fmt rec body c ty native IHb st ws. rewrite !exec_callshow.
      assert (Z : forall (o : outcome), (st, ws, o) = shift ws (st, w0, o)).
      { intros. simpl. rewrite N.add_0_r, app_nil_r. destruct ws; reflexivity. }
      destruct (xlist never r0 w0 body) as [[sb bws] ob].
      destruct ob; try apply Z.
      + cbv zeta. rewrite r_show_shift. apply of_res_shift.
      + destruct rec; [|destruct native; apply Z]. cbv zeta. rewrite r_show_shift. apply of_res_shift.
  Qed.

  Lemma exec_list_shift body st ws : xlist never st ws body = shift ws (xlist never st w0 body).
  Proof. apply list_shift. apply Forall_forall. intros n _. apply all_nodes_shift. Qed.
End Shift.

(* ---------------------------------------------------------------- render = show of the value *)

Lemma script_chunks_map l : script_chunks (map AWrite l) = l.
Proof. induction l as [|x l IH]; simpl; [reflexivity|]. rewrite IH. reflexivity. Qed.
Lemma script_ok_map l : script_ok (map AWrite l) = true.
Proof. induction l; simpl; auto. Qed.

Lemma st_inv_r0 st : st_inv st -> inURL st = false -> st = r0.
Proof.
  intros H E. destruct (H E) as [A [B C]]. destruct st as [i q a r]. simpl in *. subst. reflexivity.
Qed.

Definition bytes_of (ws : wst) : bytes := concat (w_out ws).

(* what the theorems assume about Show of a rendered string (documented
   behaviour of the show functions, validated by the correspondence):
   a value that has the format type of the context is written as it is;
   a Markdown value in HTML is converted *)
Definition showf_same (showf : N -> N -> bytes -> shown) (c ty : N) (s : bytes) : Prop :=
  concat (sv_chunks (showf c ty s)) = s /\ sv_err (showf c ty s) = None.
Definition showf_md (showf : N -> N -> bytes -> shown) (conv : option (bytes -> list bytes)) (c ty : N) (s : bytes) : Prop :=
  exists cv, conv = Some cv /\ sv_chunks (showf c ty s) = cv s /\ sv_err (showf c ty s) = None.

Section RenderValue.
  Variable showf : N -> N -> bytes -> shown.
  Variable conv : option (bytes -> list bytes).
  Variable cf : bool.
  Notation xnode := (exec_node showf conv cf).
  Notation xlist := (exec_list showf conv cf).

  Lemma r_show_plain_never st ws c ctx isSet v :
    decode_ctx c = Some (ctx, false, isSet) -> mem gen_show_known_ctx ctx = true ->
    inURL st = false -> sv_err v = None ->
    r_show never st ws c v = (st, mkW (w_calls ws + nlen (sv_chunks v)) (w_out ws ++ sv_chunks v), ROk).
  Proof.
    intros D K U E. unfold r_show. rewrite D, K. unfold url_switch. rewrite U. simpl.
    rewrite run_script_never_all by apply script_ok_map.
    rewrite E, script_chunks_map, !nlen_eq, map_length. reflexivity.
  Qed.

  (* The call of a macro (or of a rendered file) through the fast path against
     the same call taken as a value and shown, when the fast path applies. *)
  Theorem call_equals_show_of_value :
    forall fmt body c ctx isSet st ws stb bws,
    decode_ctx c = Some (ctx, false, isSet) -> mem gen_show_known_ctx ctx = true ->
    fast_path fmt ctx = true ->
    st_inv st -> inURL st = false ->
    xlist never r0 w0 body = (stb, bws, Done) ->
    (fmt = ctx -> showf_same showf c fmt (bytes_of bws)) ->
    (fmt <> ctx -> showf_md showf conv c fmt (bytes_of bws)) ->
    let x1 := xnode never st ws (TCall (TFunc fmt false body) ctx) in
    let x2 := xnode never st ws (TCallShow (TFunc fmt false body) c fmt false) in
    snd x1 = Done /\ snd x2 = Done /\ bytes_of (snd (fst x1)) = bytes_of (snd (fst x2)).
  Proof.
    intros fmt body c ctx isSet st ws stb bws D K FP Inv U Hb Hsame Hmd x1 x2.
    subst x1 x2. rewrite exec_call, exec_callshow. rewrite Hb.
    pose proof (st_inv_r0 st Inv U) as ->.
    unfold fast_path in FP. apply andb_prop in FP. destruct FP as [_ FP].
    destruct (N.eqb_spec fmt ctx) as [E|NE].
    - subst ctx. rewrite N.eqb_refl.
      rewrite (exec_list_shift showf conv cf body r0 ws), Hb. cbn [shift].
      destruct (Hsame eq_refl) as [S1 S2]. unfold bytes_of in S1, S2. cbv zeta. cbn [andb negb].
      rewrite (r_show_plain_never r0 ws c fmt isSet _ D K eq_refl S2). cbn [of_res fst snd].
      repeat split. unfold bytes_of in *. cbn [w_out]. rewrite !concat_app, S1. reflexivity.
    - simpl in FP. apply andb_prop in FP. destruct FP as [F1 F2].
      apply N.eqb_eq in F1. apply N.eqb_eq in F2. subst fmt ctx.
      destruct (Hmd NE) as [cv [Hc [S1 S2]]]. unfold bytes_of in S1, S2.
      replace (gen_ContextHTML =? gen_FormatMarkdown) with false by reflexivity.
      replace ((gen_FormatMarkdown =? gen_FormatMarkdown) && (gen_ContextHTML =? gen_FormatHTML)) with true by reflexivity.
      rewrite Hc.
      rewrite run_script_never_all by apply script_ok_map.
      cbv zeta. cbn [andb negb].
      rewrite (r_show_plain_never r0 ws c gen_ContextHTML isSet _ D K eq_refl S2). cbn [of_res fst snd].
      repeat split. unfold bytes_of in *. cbn [w_out]. rewrite S1, script_chunks_map. reflexivity.
  Qed.
End RenderValue.

(* ---------------------------------------------------------------- lowering of {{ render p }} and of the value form *)

Section LowerFacts.
  Variable vals : N -> N -> shown.
  Variable fs : fileset.
  Variable mfast rfast : N -> N -> bool.
  Notation lower := (lower_nodes vals fs mfast rfast).

  (* what the callee of render p is *)
  Definition render_callee (fuel : nat) (p : N) : option tfunc :=
    match get_file fs p with
    | Some f =>
      match f_extends f with
      | Some _ => None
      | None =>
        match lower fuel (scope_of fs p false) [] (f_body f) with
        | Some body => Some (TFunc (f_fmt f) (f_rec f) body)
        | None => None
        end
      end
    | None => None
    end.

  Lemma lower_show_render fuel sc params c p :
    lower (S (S fuel)) sc params [SShow c (ERender p)] =
    match render_callee (S fuel) p with
    | Some (TFunc fmt rec body) =>
      Some [if rfast fmt (ctx_of c) then TCall (TFunc fmt rec body) (ctx_of c) else TCallShow (TFunc fmt rec body) c fmt false]
    | None => None
    end.
  Proof.
    assert (Nil : forall k, lower (S k) sc params [] = Some []) by reflexivity.
    unfold render_callee. remember (S fuel) as k eqn:Hk. cbn [lower_nodes].
    destruct (get_file fs p) as [f|]; [|reflexivity].
    destruct (f_extends f); [reflexivity|].
    destruct (lower_nodes vals fs mfast rfast k (scope_of fs p false) [] (f_body f)) as [body|]; [|reflexivity].
    rewrite Hk, Nil. destruct (rfast (f_fmt f) (ctx_of c)); reflexivity.
  Qed.

  Lemma lower_var_render fuel sc params c p :
    lower (S (S fuel)) sc params [SVarShow c (ERender p)] =
    match render_callee (S fuel) p with
    | Some (TFunc fmt rec body) => Some [TCallShow (TFunc fmt rec body) c fmt false]
    | None => None
    end.
  Proof.
    assert (Nil : forall k, lower (S k) sc params [] = Some []) by reflexivity.
    unfold render_callee. remember (S fuel) as k eqn:Hk. cbn [lower_nodes].
    destruct (get_file fs p) as [f|]; [|reflexivity].
    destruct (f_extends f); [reflexivity|].
    destruct (lower_nodes vals fs mfast rfast k (scope_of fs p false) [] (f_body f)) as [body|]; [|reflexivity].
    rewrite Hk, Nil. reflexivity.
  Qed.

  (* running a file on its own is running the callee of its render *)
  Lemma lower_plain_is_callee fuel p :
    lower_plain vals fs mfast rfast fuel p = render_callee fuel p.
  Proof.
    unfold lower_plain, render_callee. destruct (get_file fs p) as [f|]; [|reflexivity].
    destruct (f_extends f); reflexivity.
  Qed.
End LowerFacts.

(* ---------------------------------------------------------------- the four laws *)

Section Laws.
  Variable vals : N -> N -> shown.
  Variable mfast rfast : N -> N -> bool.
  Variable showf : N -> N -> bytes -> shown.
  Variable conv : option (bytes -> list bytes).
  Variable cf : bool.
  Notation xnode := (exec_node showf conv cf).
  Notation xlist := (exec_list showf conv cf).

  (* {{ render p }} produces the same output as {% var v = render p %}{{ v }} *)
  Theorem render_equals_show_of_value_thm :
    forall fs fuel sc params c p n1 n2 fmt body ctx isSet st ws stb bws,
    lower_nodes vals fs mfast rfast (S (S fuel)) sc params [SShow c (ERender p)] = Some [n1] ->
    lower_nodes vals fs mfast rfast (S (S fuel)) sc params [SVarShow c (ERender p)] = Some [n2] ->
    render_callee vals fs mfast rfast (S fuel) p = Some (TFunc fmt false body) ->
    decode_ctx c = Some (ctx, false, isSet) -> mem gen_show_known_ctx ctx = true ->
    st_inv st -> inURL st = false ->
    xlist never r0 w0 body = (stb, bws, Done) ->
    (rfast fmt ctx = true -> fast_path fmt ctx = true) ->
    (fmt = ctx -> showf_same showf c fmt (bytes_of bws)) ->
    (fmt <> ctx -> fast_path fmt ctx = true -> showf_md showf conv c fmt (bytes_of bws)) ->
    snd (xnode never st ws n1) = snd (xnode never st ws n2) /\
    bytes_of (snd (fst (xnode never st ws n1))) = bytes_of (snd (fst (xnode never st ws n2))).
  Proof.
    intros fs fuel sc params c p n1 n2 fmt body ctx isSet st ws stb bws L1 L2 RC D K Inv U Hb rfast_sound Hs Hm.
    rewrite lower_show_render, RC in L1. rewrite lower_var_render, RC in L2.
    injection L2 as <-. assert (Cx : ctx_of c = ctx) by (unfold ctx_of; rewrite D; reflexivity).
    rewrite Cx in L1. destruct (rfast fmt ctx) eqn:RF.
    - injection L1 as <-. pose proof (rfast_sound eq_refl) as FP.
      destruct (call_equals_show_of_value showf conv cf fmt body c ctx isSet st ws stb bws D K FP Inv U Hb Hs
                  (fun ne => Hm ne FP)) as [A [B C]].
      split; [congruence|exact C].
    - injection L1 as <-. split; reflexivity.
  Qed.

  (* a host file of the same format that only renders p runs exactly as p on its own, for every writer *)
  Theorem render_equals_standalone_thm :
    forall fs fuel sc params c p n1 fmt rec body isSet w,
    lower_nodes vals fs mfast rfast (S (S fuel)) sc params [SShow c (ERender p)] = Some [n1] ->
    lower_plain vals fs mfast rfast (S fuel) p = Some (TFunc fmt rec body) ->
    decode_ctx c = Some (fmt, false, isSet) -> rfast fmt fmt = true ->
    run_main showf conv cf w (TFunc fmt false [n1]) = run_main showf conv cf w (TFunc fmt rec body).
  Proof.
    intros fs fuel sc params c p n1 fmt rec body isSet w L1 LP D RF.
    rewrite lower_plain_is_callee in LP. rewrite lower_show_render, LP in L1.
    assert (Cx : ctx_of c = fmt) by (unfold ctx_of; rewrite D; reflexivity).
    rewrite Cx, RF in L1. injection L1 as <-.
    cbn [run_main exec_list]. rewrite exec_call, N.eqb_refl.
    destruct (xlist w r0 w0 body) as [[s1 w1] o1]. destruct o1; try reflexivity.
    destruct rec; reflexivity.
  Qed.
End Laws.

(* ---------------------------------------------------------------- extends *)

Lemma assoc_get_cons {A} (k : N) (v : A) r c : assoc_get ((k, v) :: r) c = if k =? c then Some v else assoc_get r c.
Proof. reflexivity. Qed.

Lemma get_set_same fs p f g : get_file fs p = Some g -> get_file (set_file fs p f) p = Some f.
Proof.
  unfold get_file. induction fs as [|[q h] r IH]; [discriminate|].
  cbn [set_file]. rewrite assoc_get_cons. destruct (N.eqb_spec q p) as [->|NE].
  - intros _. rewrite assoc_get_cons, N.eqb_refl. reflexivity.
  - intros H. rewrite assoc_get_cons. destruct (N.eqb_spec q p); [contradiction|]. apply IH, H.
Qed.

Lemma get_set_other fs p f q : q <> p -> get_file (set_file fs p f) q = get_file fs q.
Proof.
  unfold get_file. intros NE. induction fs as [|[k h] r IH]; [reflexivity|].
  cbn [set_file]. destruct (N.eqb_spec k p) as [->|NE2]; rewrite !assoc_get_cons.
  - destruct (N.eqb_spec p q); [congruence|reflexivity].
  - destruct (N.eqb_spec k q); [reflexivity|apply IH].
Qed.

(* A file p that extends the layout l is lowered as the layout: the function
   has the format of the layout and its body is the body of the layout,
   lowered in the scope made of the macros of the layout, then the macros of p
   (unqualified, as package level declarations), then what the layout imports. *)
Theorem extends_is_layout_with_macros_thm :
  forall vals mfast rfast fs fuel p l f lf,
  get_file fs p = Some f -> f_extends f = Some l ->
  get_file fs l = Some lf -> f_extends lf = None -> f_body f = [] ->
  exists fs',
    swap_extends fs p l = Some fs' /\
    lower_main vals mfast rfast fs fuel p =
      match lower_nodes vals fs' mfast rfast fuel
              (own_entries l lf false
               ++ map (fun m => mkEntry None (m_name m) p false m) (f_macros f)
               ++ flat_map (import_entries fs') (f_imports lf)) [] (f_body lf) with
      | Some body => Some (TFunc (f_fmt lf) (f_rec lf) body)
      | None => None
      end.
Proof.
  intros vals mfast rfast fs fuel p l f lf Gp Ep Gl El Bp.
  assert (NE : p <> l) by (intros ->; rewrite Gp in Gl; injection Gl as ->; congruence).
  unfold lower_main, swap_extends. rewrite Gp, Ep, Gl, El, Bp.
  eexists. split; [reflexivity|].
  set (f' := mkFile (f_fmt f) None (f_imports f) (f_macros f) (f_rec f) []).
  set (lf' := mkFile (f_fmt lf) None (mkImport p None None :: f_imports lf) (f_macros lf) (f_rec lf) (f_body lf)).
  set (fs' := set_file (set_file fs p f') l lf').
  assert (G1 : get_file fs' l = Some lf').
  { unfold fs'. apply (get_set_same _ l lf' lf). rewrite get_set_other by congruence. exact Gl. }
  assert (G2 : get_file fs' p = Some f').
  { unfold fs'. rewrite get_set_other by exact NE. apply (get_set_same _ p f' f). exact Gp. }
  unfold lower_plain, scope_of. rewrite G1. cbn [f_extends lf' f_imports f_fmt f_rec f_body f_macros flat_map].
  unfold import_entries at 1. cbn [i_path i_for i_alias]. rewrite G2. cbn [f_macros f'].
  unfold own_entries. cbn [f_macros lf']. reflexivity.
Qed.

(* ---------------------------------------------------------------- import *)

(* a body without macro calls and renders *)
Definition simple_node (n : snode) : bool :=
  match n with
  | SText _ _ _ => true
  | SShow _ (EVal _) | SShow _ (EParam _) | SVarShow _ (EVal _) | SVarShow _ (EParam _) => true
  | _ => false
  end.

Lemma simple_lower vals mf rf fs1 fs2 ns : forallb simple_node ns = true ->
  forall fuel sc1 sc2 params,
  lower_nodes vals fs1 mf rf fuel sc1 params ns = lower_nodes vals fs2 mf rf fuel sc2 params ns.
Proof.
  induction ns as [|n r IH]; intros S fuel sc1 sc2 params.
  - destruct fuel; reflexivity.
  - simpl in S. apply andb_prop in S. destruct S as [Sn Sr].
    destruct fuel as [|k]; [reflexivity|]. cbn [lower_nodes].
    rewrite (IH Sr k sc1 sc2 params).
    destruct n as [txt u s|c e|c e]; [reflexivity| |]; destruct e; try discriminate; reflexivity.
Qed.

(* An imported macro behaves as if it were declared in the importing file:
   a call that resolves to the macro m imported from another file (a package
   level entry) is lowered to the same function as when the name resolves to
   the same macro declared in the file itself -- for macros whose body is made
   of texts and values, and which no other macro of the file captures. *)
Theorem import_is_local_declaration_thm :
  forall vals mf rf fs1 fs2 fuel sc1 sc2 params c alias name args en1 en2 g2,
  lookup sc1 alias name = Some en1 -> lookup sc2 alias name = Some en2 ->
  e_macro en1 = e_macro en2 -> e_name en1 = e_name en2 ->
  forallb simple_node (m_body (e_macro en1)) = true ->
  e_local en1 = false ->
  get_file fs2 (e_file en2) = Some g2 -> captured g2 (e_name en2) = false ->
  lower_nodes vals fs1 mf rf fuel sc1 params [SShow c (ECall alias name args)] =
  lower_nodes vals fs2 mf rf fuel sc2 params [SShow c (ECall alias name args)]
  /\ lower_nodes vals fs1 mf rf fuel sc1 params [SVarShow c (ECall alias name args)] =
     lower_nodes vals fs2 mf rf fuel sc2 params [SVarShow c (ECall alias name args)].
Proof.
  intros vals mf rf fs1 fs2 fuel sc1 sc2 params c alias name args en1 en2 g2 L1 L2 Em En Sm Loc G2 Cap.
  destruct fuel as [|k]; [split; reflexivity|].
  assert (Nil : lower_nodes vals fs1 mf rf k sc1 params [] = lower_nodes vals fs2 mf rf k sc2 params [])
    by (destruct k; reflexivity).
  cbn [lower_nodes]. rewrite L1, L2, Nil, <- Em.
  destruct (args_ids params args) as [ids|]; [|split; reflexivity].
  destruct (Nat.eqb (length ids) (m_nparams (e_macro en1))); [|split; reflexivity].
  rewrite (simple_lower vals mf rf fs1 fs2 _ Sm k (scope_of fs1 (e_file en1) (negb (e_local en1)))
             (scope_of fs2 (e_file en2) (negb (e_local en2))) ids).
  destruct (lower_nodes vals fs2 mf rf k (scope_of fs2 (e_file en2) (negb (e_local en2))) ids (m_body (e_macro en1))) as [body|];
    [|split; reflexivity].
  rewrite Loc, G2, Cap. cbn [andb negb]. rewrite andb_false_r. cbn [negb]. rewrite !andb_true_r.
  split; reflexivity.
Qed.

(* ---------------------------------------------------------------- the law of render fails for the fast path without the format test *)

Definition demo_vals : N -> N -> shown := fun _ _ => mkShown [] None None.
(* x.txt (format Text) contains the text of a b element; index.html shows render of it *)
Definition demo_fs (node : snode) : fileset :=
  [(0, mkFile gen_FormatHTML None [] [] false [node]);
   (1, mkFile gen_FormatText None [] [] false [SText [60; 98; 62] false false])].

(* with the generated tables (the code as it is) a text file with markup rendered
   into HTML comes out unescaped through {{ render }}, escaped through the value form *)
Lemma render_fastpath_format_refutes :
  let run node := match build_and_run demo_vals (demo_fs node) None 5 0 never with
                  | Some (ws, r) => Some (concat (w_out ws), r)
                  | None => None
                  end in
  run (SShow 1 (ERender 1)) = Some ([60; 98; 62], RunNil) /\
  run (SVarShow 1 (ERender 1)) = Some ([38; 108; 116; 59; 98; 38; 103; 116; 59], RunNil).
Proof. vm_compute. split; reflexivity. Qed.

(* matching formats: both forms give the same output *)
Lemma matching_formats_example :
  let fs node := [(0, mkFile gen_FormatHTML None [] [] false [node]);
                  (1, mkFile gen_FormatHTML None [] [] false [SText [60; 98; 62] false false])] in
  let run node := match build_and_run demo_vals (fs node) None 5 0 never with
                  | Some (ws, r) => Some (concat (w_out ws), r)
                  | None => None
                  end in
  run (SShow 1 (ERender 1)) = Some ([60; 98; 62], RunNil) /\
  run (SVarShow 1 (ERender 1)) = Some ([60; 98; 62], RunNil).
Proof. vm_compute. split; reflexivity. Qed.

(* a file with a deferred call: the value form loses the output (recorded finding) *)
Lemma deferred_call_refutes_value_form :
  let fs node := [(0, mkFile gen_FormatHTML None [] [] false [node]);
                  (1, mkFile gen_FormatHTML None [] [] true [SText [97] false false])] in
  let run node := match build_and_run demo_vals (fs node) None 5 0 never with
                  | Some (ws, r) => Some (concat (w_out ws), r)
                  | None => None
                  end in
  run (SShow 1 (ERender 1)) = Some ([97], RunNil) /\ run (SVarShow 1 (ERender 1)) = Some ([], RunNil).
Proof. vm_compute. split; reflexivity. Qed.
