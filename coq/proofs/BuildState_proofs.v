(* C19 (multi-build histories): obligations over the generated list of the
   package level variables of the compiler and of the sites that can change
   them (gen/Facts_buildstate.v joined with checks/C19_globals.json).  They are
   what justifies `cross := unit` in model/ScopeHistM.v.  All are closed by
   computation on the generated values: a new package level variable of a
   reference type, a new write site, a renamed or vanished one makes one of
   them fail. *)
From Coq Require Import List NArith Bool String.
From Verif Require Import Facts_buildstate.
Import ListNotations.
Open Scope N_scope.

Definition var_key (v : string * bool * N * N) : string := fst (fst (fst v)).
Definition var_ref (v : string * bool * N * N) : bool := snd (fst (fst v)).
Definition var_writes (v : string * bool * N * N) : N := snd (fst v).
Definition var_class (v : string * bool * N * N) : N := snd v.

(* a variable that can change (a write site, or a type that can be changed
   through a reference) is classified *)
Definition var_classified (v : string * bool * N * N) : bool :=
  if var_ref v || negb (var_writes v =? 0) then negb (var_class v =? 0) else true.

(* read-only means that no site writes it *)
Definition var_readonly_ok (v : string * bool * N * N) : bool :=
  if var_class v =? 1 then var_writes v =? 0 else true.

(* no variable carries information from one build to the next *)
Definition var_not_cross (v : string * bool * N * N) : bool := negb (var_class v =? 3).

Definition write_classified (w : string * N) : bool := negb (snd w =? 0).
Definition write_not_cross (w : string * N) : bool := negb (snd w =? 4).

Definition cross_build_vars : list string :=
  map var_key (filter (fun v => var_class v =? 3) gen_package_vars) ++
  map fst (filter (fun w => snd w =? 4) gen_package_var_writes).

Lemma vars_classified_ok : forallb var_classified gen_package_vars = true.
Proof. vm_compute. reflexivity. Qed.

Lemma readonly_vars_have_no_write : forallb var_readonly_ok gen_package_vars = true.
Proof. vm_compute. reflexivity. Qed.

Lemma writes_classified_ok : forallb write_classified gen_package_var_writes = true.
Proof. vm_compute. reflexivity. Qed.

Lemma no_stale_buildstate_entry : gen_stale_buildstate_entries = 0.
Proof. vm_compute. reflexivity. Qed.

Lemma no_cross_build_state : cross_build_vars = [].
Proof. vm_compute. reflexivity. Qed.

(* in list form *)
Lemma every_changeable_var_is_classified v : In v gen_package_vars ->
  (var_ref v = true \/ var_writes v <> 0) -> var_class v <> 0.
Proof.
  intros Hin Hc. pose proof vars_classified_ok as H. rewrite forallb_forall in H. specialize (H v Hin).
  unfold var_classified in H. destruct Hc as [Hr|Hw].
  - rewrite Hr in H. cbn [orb] in H. intros E. rewrite E in H. discriminate.
  - destruct (N.eqb_spec (var_writes v) 0) as [E|_]; [congruence|]. rewrite orb_true_r in H.
    intros E. rewrite E in H. discriminate.
Qed.

Lemma no_var_is_cross_build_state v : In v gen_package_vars -> var_class v <> 3.
Proof.
  intros Hin E. pose proof no_cross_build_state as H. unfold cross_build_vars in H.
  apply app_eq_nil in H. destruct H as [H _]. apply map_eq_nil in H.
  assert (Hf : In v (filter (fun v => var_class v =? 3) gen_package_vars)).
  { apply filter_In. split; [exact Hin|]. rewrite E. reflexivity. }
  rewrite H in Hf. destruct Hf.
Qed.

Lemma no_write_is_cross_build_state w : In w gen_package_var_writes -> snd w <> 0 /\ snd w <> 4.
Proof.
  intros Hin. split.
  - pose proof writes_classified_ok as H. rewrite forallb_forall in H. specialize (H w Hin).
    unfold write_classified in H. intros E. rewrite E in H. discriminate.
  - intros E. pose proof no_cross_build_state as H. unfold cross_build_vars in H.
    apply app_eq_nil in H. destruct H as [_ H]. apply map_eq_nil in H.
    assert (Hf : In w (filter (fun w => snd w =? 4) gen_package_var_writes)).
    { apply filter_In. split; [exact Hin|]. rewrite E. reflexivity. }
    rewrite H in Hf. destruct Hf.
Qed.
