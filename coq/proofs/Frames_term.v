(* C12: the frame machine terminates on every action tree, with an explicit
   bound on the number of steps: a potential that every step decreases.

   The potential of a state counts, with weight 4 per instruction (the Return
   that fetch appends to every body included), the code that can still be
   executed: the rest of the running function, the continuations held by the
   started frames, the bodies of the deferred frames - plus a small constant
   per frame (3 deferred, 2 started, 1 any other) that pays the steps of the
   loop of nextCall, and the same for the VMs suspended in a callback (plus 2
   each).  In the loop of nextCall only the frames below its index count: the
   frames above are behind it. *)
From Coq Require Import List NArith Bool Arith Lia.
Import ListNotations.
From Verif Require Import FramesM.

Fixpoint wi (i : instr) : nat :=
  4 + match i with
      | ICall b _ | IDeferFn b _ | ICallback b _ =>
          (fix ws (l : list instr) : nat := match l with [] => 4 | x :: r => wi x + ws r end) b
      | _ => 0
      end.

(* a body with the Return that fetch appends *)
Fixpoint wbody (l : list instr) : nat := match l with [] => 4 | x :: r => wi x + wbody r end.

Lemma wi_call b inf : wi (ICall b inf) = 4 + wbody b.
Proof. reflexivity. Qed.
Lemma wi_defer b inf : wi (IDeferFn b inf) = 4 + wbody b.
Proof. reflexivity. Qed.
Lemma wi_callback b inf : wi (ICallback b inf) = 4 + wbody b.
Proof. reflexivity. Qed.
Lemma wi_ge i : 4 <= wi i.
Proof. destruct i; simpl; lia. Qed.

(* the code of f from pc on *)
Definition code (f : func) (pc : nat) : nat :=
  if pc <=? length (fbody f) then wbody (skipn pc (fbody f)) else 0.

Lemma code_0 f : code f 0 = wbody (fbody f).
Proof. reflexivity. Qed.

Lemma skipn_nth {A} (l : list A) : forall n x, nth_error l n = Some x -> skipn n l = x :: skipn (S n) l.
Proof.
  induction l as [|y l IH]; intros n x H; destruct n; simpl in *; try discriminate.
  - inversion H. reflexivity.
  - apply IH. exact H.
Qed.

Lemma fetch_code f pc ins : fetch f pc = Some ins -> code f pc = wi ins + code f (S pc).
Proof.
  unfold fetch, code. intros H.
  destruct (Nat.lt_ge_cases pc (length (fbody f))) as [Hlt|Hge].
  - rewrite nth_error_app1 in H by exact Hlt.
    replace (pc <=? length (fbody f)) with true by (symmetry; apply Nat.leb_le; lia).
    replace (S pc <=? length (fbody f)) with true by (symmetry; apply Nat.leb_le; lia).
    rewrite (skipn_nth _ _ _ H). reflexivity.
  - rewrite nth_error_app2 in H by exact Hge.
    destruct (pc - length (fbody f)) as [|k] eqn:Hk.
    + assert (pc = length (fbody f)) by lia. subst pc. simpl in H. inversion H; subst.
      rewrite Nat.leb_refl, skipn_all.
      replace (S (length (fbody f)) <=? length (fbody f)) with false by (symmetry; apply Nat.leb_gt; lia).
      reflexivity.
    + simpl in H. destruct k; discriminate.
Qed.

Definition ccost (cl : callee) (pc : nat) : nat :=
  match cl with CFn g => code g pc | _ => 0 end.

Definition fcost (fr : frame) : nat :=
  match fstat fr with
  | Started => ccost (fcl fr) (fpc fr) + 2
  | Deferred => ccost (fcl fr) (fpc fr) + 3
  | _ => 1
  end.

Fixpoint fall (l : list frame) : nat := match l with [] => 0 | fr :: r => fcost fr + fall r end.

Definition vcost (sv : saved) : nat := code (vfn sv) (vpc sv) + fall (vcalls sv) + 2.

Fixpoint outc (o : list saved) : nat := match o with [] => 0 | sv :: r => vcost sv + outc r end.

Definition pot (s : state) : nat :=
  outc (souter s) +
  match smode s with
  | MExec => match sfn s with Some f => code f (spc s) | None => 0 end + fall (scalls s)
  | MNext i1 => fall (firstn i1 (scalls s))
  end.

Lemma fcost_pos fr : 1 <= fcost fr.
Proof. unfold fcost. destruct (fstat fr); lia. Qed.

Lemma fall_app a b : fall (a ++ b) = fall a + fall b.
Proof. induction a; simpl; [reflexivity|]. rewrite IHa. lia. Qed.

Lemma fall_firstn_le n : forall l, fall (firstn n l) <= fall l.
Proof. induction n; intros l; simpl; [lia|]. destruct l; simpl; [lia|]. specialize (IHn l). lia. Qed.

Lemma firstn_S_nth {A} (l : list A) : forall i x, nth_error l i = Some x -> firstn (S i) l = firstn i l ++ [x].
Proof.
  induction l as [|y l IH]; intros i x H; destruct i; simpl in *; try discriminate.
  - inversion H. reflexivity.
  - f_equal. apply IH. exact H.
Qed.

Lemma fall_firstn_S l i fr : nth_error l i = Some fr -> fall (firstn (S i) l) = fall (firstn i l) + fcost fr.
Proof. intros H. rewrite (firstn_S_nth _ _ _ H), fall_app. simpl. lia. Qed.

Lemma firstn_mono_fall l : forall i j, i <= j -> fall (firstn i l) <= fall (firstn j l).
Proof.
  induction l as [|y l IH]; intros i j H.
  - rewrite !firstn_nil. lia.
  - destruct i; simpl; [lia|]. destruct j; [lia|]. simpl. specialize (IH i j ltac:(lia)). lia.
Qed.

Lemma firstn_set_nth_same {A} (l : list A) j x y :
  nth_error l j = Some y -> firstn j (set_nth l j x) = firstn j l.
Proof.
  intros H. assert (Hlt : j < length l) by (apply nth_error_Some; congruence).
  unfold set_nth. rewrite firstn_app, firstn_firstn, Nat.min_id.
  rewrite firstn_length, Nat.min_l by lia. rewrite Nat.sub_diag. simpl. apply app_nil_r.
Qed.

Lemma firstn_S_set_nth {A} (l : list A) j x y :
  nth_error l j = Some y -> firstn (S j) (set_nth l j x) = firstn j l ++ [x].
Proof.
  intros H. assert (Hlt : j < length l) by (apply nth_error_Some; congruence).
  unfold set_nth. rewrite firstn_app, firstn_firstn, firstn_length.
  rewrite (Nat.min_l j (length l)) by lia. rewrite (Nat.min_r (S j) j) by lia.
  replace (S j - j) with 1 by lia. reflexivity.
Qed.

Lemma fall_mark_recovered c i : fall (mark_recovered c i) <= fall c.
Proof.
  unfold mark_recovered. destruct (nth_error c i) as [fr|] eqn:H; [|lia].
  unfold set_nth. rewrite fall_app. simpl.
  rewrite <- (firstn_skipn i c) at 3. rewrite fall_app.
  rewrite (skipn_nth _ _ _ H). simpl.
  assert (Hc := fcost_pos fr). change (fcost (set_status fr Recovered)) with 1. lia.
Qed.

(* ------------------------------------------------------------------ *)
(* Every step decreases the potential                                   *)

(* the VMs that take over a pending chain *)
Lemma epo_pot outer : forall chain tr r s',
  end_panic_out outer chain tr r = Next s' -> pot s' + 1 <= outc outer.
Proof.
  induction outer as [|sv rest IH]; intros chain tr r s' H; simpl in H; [discriminate|].
  destruct (vcalls sv) as [|fr frs] eqn:Hv.
  - specialize (IH _ _ _ _ H). simpl. lia.
  - inversion H; subst. unfold pot. cbn [souter smode scalls].
    change (S (length (frs ++ [mkframe (CFn (vfn sv)) 0 Panicked])))
      with (length (fr :: frs ++ [mkframe (CFn (vfn sv)) 0 Panicked])).
    rewrite firstn_all. simpl. rewrite fall_app. simpl. unfold vcost. rewrite Hv. simpl. lia.
Qed.

Lemma finish_pot s s' : finish s = Next s' -> pot s' + 1 <= outc (souter s).
Proof.
  unfold finish. destruct (schain s).
  - destruct (souter s) as [|sv rest]; [discriminate|]. intros H. inversion H; subst.
    unfold pot, resume. simpl. unfold vcost. lia.
  - apply epo_pot.
Qed.

Lemma raise_with_pot s owner line v s' :
  raise_with s owner line v = Next s' -> pot s' <= outc (souter s) + fall (scalls s) + 1.
Proof.
  unfold raise_with. destruct (scalls s) as [|fr frs] eqn:Hc.
  - intros H. apply epo_pot in H. simpl. lia.
  - intros H. inversion H; subst. unfold pot. cbn [souter smode scalls].
    change (S (length (frs ++ [mkframe owner 0 Panicked])))
      with (length (fr :: frs ++ [mkframe owner 0 Panicked])).
    rewrite firstn_all. simpl. rewrite fall_app. simpl. lia.
Qed.

(* the part of nextCall after its switch *)
Lemma after_switch_pot s call i s' :
  after_switch s call i = Next s' ->
  pot s' <= outc (souter s) + fall (firstn i (scalls s)) + ccost (fcl call) (fpc call) + 1.
Proof.
  unfold after_switch. destruct (fcl call) as [h|nk|]; [| |discriminate].
  - intros H. inversion H; subst. unfold pot. simpl. lia.
  - destruct nk as [n|e|v|v]; simpl; try discriminate.
    + intros H. inversion H; subst. unfold pot. simpl. rewrite firstn_firstn, Nat.min_id. lia.
    + intros H. apply raise_with_pot in H. simpl in H. lia.
Qed.

Lemma scan_found c : forall i pre post j d ch,
  scan_panicked c i pre post = Some (Some (j, d), ch) ->
  j < i /\ nth_error c j = Some d /\ fstat d = Deferred.
Proof.
  induction i as [|k IH]; intros pre post j d ch H; simpl in H; [discriminate|].
  destruct (nth_error c k) as [fr|] eqn:Hk; [|discriminate].
  destruct (fstat fr) eqn:Hs;
    try (destruct (IH _ _ _ _ _ H) as [H1 H2]; split; [lia|exact H2]).
  - inversion H; subst. auto.
  - destruct (mark_next post) as [[done rest]|]; [|discriminate].
    destruct (IH _ _ _ _ _ H) as [H1 H2]. split; [lia|exact H2].
  - destruct (mark_next post) as [[done rest]|]; [|discriminate].
    destruct (IH _ _ _ _ _ H) as [H1 H2]. split; [lia|exact H2].
Qed.

Lemma prev_deferred_some c i j prev :
  prev_deferred c i = Some (j, prev) -> i = S j /\ nth_error c j = Some prev /\ fstat prev = Deferred.
Proof.
  unfold prev_deferred. destruct i as [|k]; [discriminate|].
  destruct (nth_error c k) as [d|] eqn:Hk; [|discriminate].
  destruct (fstat d) eqn:Hs; simpl; try discriminate.
  intros H. inversion H; subst. auto.
Qed.

Lemma step_next_pot s i s' :
  smode s = MNext (S i) -> step_next s i = Next s' -> pot s' < pot s.
Proof.
  intros Hm. unfold step_next.
  destruct (nth_error (scalls s) i) as [call|] eqn:Hn; [|discriminate].
  assert (Hp : pot s = outc (souter s) + fall (firstn i (scalls s)) + fcost call).
  { unfold pot. rewrite Hm, (fall_firstn_S _ _ _ Hn). lia. }
  destruct (fstat call) eqn:Hst.
  - (* started *)
    intros H. apply after_switch_pot in H. unfold fcost in Hp. rewrite Hst in Hp. lia.
  - (* tailed *)
    intros H. inversion H; subst. unfold pot at 1. simpl. unfold fcost in Hp. rewrite Hst in Hp. lia.
  - (* returned *)
    cbv zeta. change (status_eqb Returned Recovered) with false. cbv iota.
    destruct (prev_deferred (scalls s) i) as [[j prev]|] eqn:Hpd.
    + destruct (prev_deferred_some _ _ _ _ Hpd) as [-> [Hj Hd]].
      intros H. apply after_switch_pot in H. cbn [souter scalls set_calls] in H.
      rewrite (firstn_S_set_nth _ _ _ _ Hj), fall_app in H. simpl in H.
      rewrite (fall_firstn_S _ _ _ Hj) in Hp.
      unfold fcost in Hp at 1. rewrite Hd in Hp.
      assert (fcost call = 1) by (unfold fcost; rewrite Hst; reflexivity).
      lia.
    + intros H. inversion H; subst. unfold pot at 1. simpl.
      assert (fcost call = 1) by (unfold fcost; rewrite Hst; reflexivity). lia.
  - (* deferred *)
    destruct (sfn s) as [f|]; [|discriminate].
    intros H. apply after_switch_pot in H. cbn [souter scalls set_calls] in H.
    rewrite (firstn_S_set_nth _ _ _ _ Hn), fall_app in H. simpl in H.
    unfold fcost in Hp. rewrite Hst in Hp. lia.
  - (* panicked *)
    assert (Hc1 : fcost call = 1) by (unfold fcost; rewrite Hst; reflexivity).
    destruct (scan_panicked (scalls s) i _ _) as [[[[j d]|] chain']|] eqn:Hsc; [| |discriminate].
    + destruct (scan_found _ _ _ _ _ _ _ Hsc) as [Hji [Hj Hd]].
      destruct (nth_error (scalls s) (S j)) as [above|]; [|discriminate].
      intros H. apply after_switch_pot in H. cbn [souter scalls set_calls set_chain] in H.
      rewrite (firstn_S_set_nth _ _ _ _ Hj), fall_app in H. simpl in H.
      assert (Hmono := firstn_mono_fall (scalls s) (S j) i ltac:(lia)).
      rewrite (fall_firstn_S _ _ _ Hj) in Hmono.
      unfold fcost in Hmono at 1. rewrite Hd in Hmono. lia.
    + intros H. inversion H; subst. unfold pot at 1. simpl. lia.
  - (* recovered *)
    cbv zeta. change (status_eqb Recovered Recovered) with true. cbv iota.
    assert (Hc1 : fcost call = 1) by (unfold fcost; rewrite Hst; reflexivity).
    unfold trim. destruct (schain s) as [|p0 r0]; [discriminate|].
    cbn [scalls set_chain].
    destruct (prev_deferred (scalls s) i) as [[j prev]|] eqn:Hpd.
    + destruct (prev_deferred_some _ _ _ _ Hpd) as [-> [Hj Hd]].
      intros H. apply after_switch_pot in H. cbn [souter scalls set_calls set_chain] in H.
      rewrite (firstn_S_set_nth _ _ _ _ Hj), fall_app in H. simpl in H.
      rewrite (fall_firstn_S _ _ _ Hj) in Hp.
      unfold fcost in Hp at 1. rewrite Hd in Hp. lia.
    + intros H. inversion H; subst. unfold pot at 1. simpl. lia.
Qed.

Lemma step_exec_pot s s' : smode s = MExec -> step_exec s = Next s' -> pot s' < pot s.
Proof.
  intros Hm. unfold step_exec.
  destruct (sfn s) as [f|] eqn:Hf; [|discriminate].
  destruct (fetch f (spc s)) as [ins|] eqn:Hfe; [|discriminate].
  assert (Hp : pot s = outc (souter s) + (wi ins + code f (S (spc s))) + fall (scalls s)).
  { unfold pot. rewrite Hm, Hf, (fetch_code _ _ _ Hfe). lia. }
  assert (Hw := wi_ge ins).
  destruct ins as [k|b inf|b inf|k|v|down| |b inf].
  - destruct k as [n|e|v|v]; try discriminate.
    + intros H. inversion H; subst. unfold pot at 1. simpl. rewrite Hm, Hf. lia.
    + intros H. unfold raise in H. apply raise_with_pot in H. simpl in H. lia.
  - intros H. inversion H; subst. unfold pot at 1. simpl. rewrite fall_app. simpl.
    unfold fcost. simpl. rewrite wi_call in Hp. rewrite code_0. simpl. lia.
  - intros H. inversion H; subst. unfold pot at 1. simpl. rewrite Hm, Hf, fall_app. simpl.
    unfold fcost. simpl. rewrite wi_defer in Hp. rewrite code_0. simpl. lia.
  - intros H. inversion H; subst. unfold pot at 1. simpl. rewrite Hm, Hf, fall_app. simpl.
    unfold fcost. simpl. lia.
  - intros H. unfold raise in H. apply raise_with_pot in H. simpl in H. lia.
  - unfold do_recover. cbn [scalls schain set_pc].
    destruct (recover_start (scalls s) down) as [i1|]; [|discriminate].
    destruct (recover_search (scalls s) i1) as [i|].
    + destruct (schain s) as [|p ps]; [discriminate|].
      intros H. inversion H; subst. unfold pot at 1.
      assert (Hmr := fall_mark_recovered (scalls s) i).
      unfold emit_rec. destruct down; simpl; rewrite Hm, Hf; lia.
    + intros H. inversion H; subst. unfold pot at 1.
      unfold emit_rec. destruct down; simpl; rewrite Hm, Hf; lia.
  - simpl. destruct (length (scalls s)) as [|i] eqn:Hl.
    + intros H. apply finish_pot in H. simpl in H. lia.
    + destruct (nth_error (scalls s) i) as [call|] eqn:Hn; [|discriminate].
      assert (Hall : fall (scalls s) = fall (firstn i (scalls s)) + fcost call).
      { rewrite <- (fall_firstn_S _ _ _ Hn). rewrite <- Hl, firstn_all. reflexivity. }
      destruct (status_eqb (fstat call) Started) eqn:Hst.
      * assert (Hs : fstat call = Started) by (destruct (fstat call); try discriminate; reflexivity).
        unfold fcost in Hall. rewrite Hs in Hall.
        destruct (fcl call) as [g|nk|] eqn:Hcl; intros H; inversion H; subst; unfold pot at 1; simpl; simpl in Hall; lia.
      * intros H. inversion H; subst. unfold pot at 1.
        cbn [smode scalls souter set_mode set_pc].
        assert (Hle := fall_firstn_le (S i) (scalls s)). lia.
  - intros H. inversion H; subst. unfold pot at 1. simpl. unfold vcost. simpl.
    rewrite wi_callback in Hp. rewrite code_0. simpl. lia.
Qed.

Theorem step_pot s s' : step s = Next s' -> pot s' < pot s.
Proof.
  unfold step. destruct (smode s) as [|[|i]] eqn:Hm.
  - apply step_exec_pot. exact Hm.
  - intros H. apply finish_pot in H. unfold pot at 2. rewrite Hm. simpl. lia.
  - apply step_next_pot. exact Hm.
Qed.

(* ------------------------------------------------------------------ *)
(* Termination, with the bound                                          *)

Lemma run_terminates : forall n s, pot s < n -> run n s <> None.
Proof.
  induction n; intros s H; [lia|]. simpl.
  destruct (step s) as [s'|o tr] eqn:Hs; [|discriminate].
  apply IHn. apply step_pot in Hs. lia.
Qed.

Lemma wbody_bsize l : wbody l <= 8 * bsize l + 4.
Proof.
  assert (H : forall n l, bsize l < n -> wbody l <= 8 * bsize l + 4).
  { induction n; intros l0 Hn; [lia|].
    destruct l0 as [|x r]; [simpl; lia|].
    cbn [wbody bsize]. cbn [bsize] in Hn.
    assert (Hr : wbody r <= 8 * bsize r + 4).
    { apply IHn. assert (1 <= isize x) by (destruct x; simpl; lia). lia. }
    assert (Hx : wi x <= 8 * isize x).
    { destruct x as [k|b inf|b inf|k|v|down| |b inf];
        try (simpl; lia).
      - rewrite wi_call. change (isize (ICall b inf)) with (S (bsize b)).
        change (isize (ICall b inf)) with (S (bsize b)) in Hn.
        assert (wbody b <= 8 * bsize b + 4) by (apply IHn; lia). lia.
      - rewrite wi_defer. change (isize (IDeferFn b inf)) with (S (bsize b)).
        change (isize (IDeferFn b inf)) with (S (bsize b)) in Hn.
        assert (wbody b <= 8 * bsize b + 4) by (apply IHn; lia). lia.
      - rewrite wi_callback. change (isize (ICallback b inf)) with (S (bsize b)).
        change (isize (ICallback b inf)) with (S (bsize b)) in Hn.
        assert (wbody b <= 8 * bsize b + 4) by (apply IHn; lia). lia. }
    lia. }
  apply (H (S (bsize l))). lia.
Qed.

(* the bound: 8 steps per instruction of the tree *)
Definition vm_bound (f : func) : nat := 8 * fsize f.

Lemma pot_init f : pot (init f) < vm_bound f.
Proof.
  unfold pot, init, vm_bound, fsize. simpl. rewrite code_0.
  assert (H := wbody_bsize (fbody f)). lia.
Qed.

(* the machine never runs out of a fuel of vm_bound f *)
Theorem vm_terminates f : forall n, vm_bound f <= n -> vm_run n f <> None.
Proof.
  intros n Hn. unfold vm_run. apply run_terminates. assert (H := pot_init f). lia.
Qed.

(* the fuel the extracted model is run with (FramesCodec.vm_fuel) is enough *)
From Verif Require FramesCodec.

Lemma vm_fuel_enough f : vm_bound f <= FramesCodec.vm_fuel f.
Proof.
  unfold vm_bound, FramesCodec.vm_fuel.
  destruct (Nat.le_gt_cases (fsize f) 8) as [H|H]; [lia|].
  assert (H1 : 8 * fsize f <= fsize f * fsize f) by (apply Nat.mul_le_mono_r; lia).
  rewrite <- Nat.mul_assoc. lia.
Qed.

Theorem frames_case_fuel f : vm_run (FramesCodec.vm_fuel f) f <> None.
Proof. apply vm_terminates. apply vm_fuel_enough. Qed.
