(* C09, JS and JSON contexts: a value of a type that checkShowJS / checkShowJSON
   accepts is shown by showInJS / showInJSON without a `cannot show` error, for
   every descriptor (recursive types included) and every value of the type,
   provided that the interface values nested in it hold accepted dynamic types. *)
From Coq Require Import List NArith ZArith Bool Lia.
From Verif Require Import Bytes ShowTree Facts_show ShowTypesM ShowJsonM ShowLeavesM Json ShowSpecM ShowTree_proofs Show_js_checks.
Import ListNotations.
Open Scope N_scope.

Local Opaque gen_checkShow_tbl gen_checkShowJS_tbl gen_checkShowJSON_tbl gen_checkShowJS_field gen_checkShowJSON_field
  gen_toString_tbl gen_Show_tbl gen_showInJS_tbl gen_showInJSON_tbl gen_showInJS_mapkey_tbl gen_showInJSON_mapkey_tbl
  gen_isEmptyValue_tbl.

Definition good (r : result) : Prop := r <> RCannotShow /\ r <> RStuck.

Lemma good_ok b : good (ROk b).
Proof. split; discriminate. Qed.

Lemma good_panic : good RPanic.
Proof. split; discriminate. Qed.

Lemma bind_good r k : good r -> (forall b, good (k b)) -> good (bind r k).
Proof.
  intros [H1 H2] Hk. destruct r; simpl; try (split; assumption). apply Hk.
Qed.

Lemma join_results_good rs first : Forall good rs -> good (join_results rs first).
Proof.
  intro H. revert first. induction H as [| r rs Hr Hrs IH]; intro first; simpl.
  - apply good_ok.
  - apply bind_good; [exact Hr |]. intro b. apply bind_good; [apply IH |]. intro b'. apply good_ok.
Qed.

Lemma array_lit_good rs : Forall good rs -> good (array_lit rs).
Proof.
  intro H. unfold array_lit. destruct rs; [apply good_ok |].
  apply bind_good; [apply join_results_good; exact H |]. intro b. apply good_ok.
Qed.

Lemma join_members_good L f ms first :
  Forall (fun m : bytes * result => good (snd m)) ms -> good (join_members L f ms first).
Proof.
  intro H. revert first. induction H as [| [name r] ms Hr Hms IH]; intro first; simpl.
  - apply good_ok.
  - apply bind_good; [exact Hr |]. intro b. apply bind_good; [apply IH |]. intro b'. apply good_ok.
Qed.

Lemma object_lit_good L f ms :
  Forall (fun m : bytes * result => good (snd m)) ms -> good (object_lit L f ms).
Proof.
  intro H. unfold object_lit. apply bind_good; [apply join_members_good; exact H |]. intro b. apply good_ok.
Qed.

Lemma insert_kv_Forall {A} (P : bytes * A -> Prop) k v l : P (k, v) -> Forall P l -> Forall P (insert_kv k v l).
Proof.
  intros Hkv H. induction H as [| [k' v'] l Hx Hl IH]; simpl.
  - constructor; [exact Hkv | constructor].
  - destruct (bytes_ltb k' k).
    + constructor; [exact Hx | exact IH].
    + constructor; [exact Hkv | constructor; [exact Hx | exact Hl]].
Qed.

Lemma sort_kv_Forall {A} (P : bytes * A -> Prop) l : Forall P l -> Forall P (sort_kv l).
Proof.
  intro H. induction H as [| [k v] l Hx Hl IH]; simpl; [constructor |].
  apply insert_kv_Forall; assumption.
Qed.

(* ---- sizes ---- *)

Fixpoint vsize (v : value) : nat :=
  match v with
  | VSeq xs | VStruct xs => S (list_sum (map vsize xs))
  | VPtr x | VIface _ x => S (vsize x)
  | VMap kvs => S (list_sum (map (fun kx : value * value => (vsize (fst kx) + vsize (snd kx))%nat) kvs))
  | _ => 1%nat
  end.

Lemma in_list_sum {A} (g : A -> nat) x xs : In x xs -> (g x <= list_sum (map g xs))%nat.
Proof.
  induction xs as [| y ys IH]; simpl; intro H; [contradiction |].
  destruct H as [H | H]; [subst; lia | specialize (IH H); lia].
Qed.

(* ---- unfolding ---- *)

Definition kids_of L f (env : list ty) (t : ty) (v : value) : kids :=
  match v with
  | VSeq xs =>
    match t with
    | TSlice _ e | TArr _ e => KSeq (map (show_at_with f (show_val L f) (t :: env) e) xs)
    | _ => KNone
    end
  | VPtr x =>
    match t with
    | TPtr _ e => KPtr (show_at_with f (show_val L f) (t :: env) e x)
    | _ => KNone
    end
  | VMap kvs =>
    match t with
    | TMap _ tk te =>
      KMap (map (fun kx : value * value => (key_at L f (t :: env) tk (fst kx), show_at_with f (show_val L f) (t :: env) te (snd kx))) kvs)
    | _ => KNone
    end
  | VStruct vs =>
    match t with
    | TStruct _ fs =>
      KStruct (struct_members (fun fi ft fv =>
        field_member L fi (match resolve (t :: env) ft with Some (_, t') => Some t' | None => None end) fv
                     (show_at_with f (show_val L f) (t :: env) ft fv)) fs vs)
    | _ => KNone
    end
  | _ => KNone
  end.

Lemma show_val_eq L f env t v : show_val L f env t v = show_node L f t v (kids_of L f env t v).
Proof. destruct v; reflexivity. Qed.

Definition at_of (env : list ty) (t tc : ty) (x : value) : bool :=
  match resolve (t :: env) tc with
  | None => false
  | Some (env', t') => has_typeb env' t' x
  end.

(* ---- environments ---- *)

Definition env_ok (f : showfn) (env : list ty) : Prop :=
  forall n t', nth_error env n = Some t' ->
    is_rec t' = false /\ is_iface t' = false /\ wf_tyb t' = true /\ static_rec f (skipn (S n) env) t' = OOk.

Lemma env_ok_nil f : env_ok f [].
Proof. intros n t' H. destruct n; discriminate H. Qed.

Lemma env_ok_cons f env t :
  is_rec t = false -> is_iface t = false -> wf_tyb t = true -> static_rec f env t = OOk -> env_ok f env -> env_ok f (t :: env).
Proof.
  intros H1 H2 H3 H4 He n t' Hn. destruct n as [| n]; simpl in Hn.
  - inversion Hn. subst. simpl. auto.
  - simpl. apply He. exact Hn.
Qed.

Lemma nth_error_skipn' {A} (l : list A) k n : nth_error (skipn k l) n = nth_error l (k + n).
Proof.
  revert l. induction k as [| k IH]; intro l; simpl; [reflexivity |].
  destruct l; simpl; [destruct n; reflexivity | apply IH].
Qed.

Lemma skipn_skipn' {A} (l : list A) a b : skipn a (skipn b l) = skipn (b + a) l.
Proof.
  revert l. induction b as [| b IH]; intro l; simpl; [reflexivity |].
  destruct l; simpl; [destruct a; reflexivity | apply IH].
Qed.

Lemma env_ok_skipn f env k : env_ok f env -> env_ok f (skipn k env).
Proof.
  intros He n t' Hn. rewrite nth_error_skipn' in Hn. specialize (He _ _ Hn).
  rewrite skipn_skipn'. replace (k + S n)%nat with (S (k + n)) by lia. exact He.
Qed.

Lemma kind_lt_of_wf t : is_rec t = false -> wf_tyb t = true -> kind_of t < n_kinds.
Proof.
  destruct t; simpl; intros Hr Hw; try discriminate Hr; try (vm_compute; reflexivity).
  apply N.ltb_lt. exact Hw.
Qed.

(* what a position of static type tc inside t (environment env' = t :: env) resolves to *)
Lemma resolve_facts f env' tc e' t' :
  env_ok f env' -> wf_tyb tc = true ->
  resolve env' tc = Some (e', t') ->
  is_rec t' = false /\ wf_tyb t' = true /\ env_ok f e' /\
  ((is_rec tc = true /\ is_iface t' = false /\ static_rec f e' t' = OOk) \/ (is_rec tc = false /\ e' = env' /\ t' = tc)).
Proof.
  intros He Hw R. destruct tc; unfold resolve in R; try (inversion R; subst; simpl; auto 10; fail).
  destruct (nth_error env' n) as [t0 |] eqn:E; [| discriminate R].
  destruct (is_rec t0) eqn:Er; [discriminate R |].
  assert (Ee : e' = skipn (S n) env') by congruence. assert (Et : t' = t0) by congruence. clear R. subst e' t'.
  destruct (He _ _ E) as [H1 [H2 [H3 H4]]].
  split; [exact H1 | split; [exact H3 | split; [apply env_ok_skipn; exact He | left; split; [reflexivity | split; [exact H2 | exact H4]]]]].
Qed.

(* ---- inversion of the typing of values ---- *)

Ltac enum_kind k H :=
  let Hin := fresh "Hin" in
  pose proof (below_complete n_kinds k H) as Hin; vm_compute in Hin;
  repeat (destruct Hin as [Hin | Hin]; [subst k |]); [.. | contradiction].

Ltac leaf_typed H :=
  cbn [has_typeb] in H; apply andb_true_iff in H; destruct H as [_ H]; simpl in H.

(* the values of the types without components *)
Lemma typed_leaf env k fl v :
  k < n_kinds -> has_typeb env (TLeaf k fl) v = true ->
  match v with
  | VBool _ => k = k_Bool
  | VInt _ => (k_Int <=? k) && (k <=? k_Int64) = true
  | VUint _ => (k_Uint <=? k) && (k <=? k_Uintptr) = true
  | VFloat _ => k = k_Float32 \/ k = k_Float64
  | VComplex _ _ => k = k_Complex64 \/ k = k_Complex128
  | VStr _ => k = k_String
  | VOpaque | VNilRef => k = k_Chan \/ k = k_Func \/ k = k_UnsafePointer
  | VNil | VIface _ _ => k = k_Interface
  | _ => False
  end.
Proof.
  intros Hk H. enum_kind k Hk; destruct v; leaf_typed H; try discriminate H; try reflexivity; auto.
Qed.

Lemma typed_composite_kind env t v :
  has_typeb env t v = true ->
  match t with
  | TLeaf k _ => k <> k_Array /\ k <> k_Slice /\ k <> k_Pointer /\ k <> k_Map /\ k <> k_Struct
  | TRec _ => False
  | _ => True
  end.
Proof.
  intro H. destruct t; try exact I.
  - destruct (k <? n_kinds) eqn:Hk.
    + apply N.ltb_lt in Hk. pose proof (typed_leaf env k fl v Hk H) as Hs.
      repeat split; intro Hc; subst k; destruct v; vm_compute in Hs; try contradiction; try discriminate Hs;
        repeat (destruct Hs as [Hs | Hs]; try discriminate Hs).
    + apply N.ltb_ge in Hk. repeat split; intro Hc; subst k; vm_compute in Hk; apply Hk; reflexivity.
  - destruct v; cbn [has_typeb] in H; rewrite andb_false_r in H; discriminate H.
Qed.

(* ---- the node of a type: what the accepting check knows, where the renderer goes ---- *)

Lemma resolve_self env t : is_rec t = false -> resolve (t :: env) t = Some (t :: env, t).
Proof. destruct t; simpl; intro H; try reflexivity. discriminate H. Qed.

Lemma static_val_shared f env t relem loop a :
  is_rec t = false -> shared a = true -> static_val f env t relem loop a = dyn_val false (Some t) a.
Proof.
  intros Hr Ha. destruct a as [p i | p w | | g p | | | | | n]; simpl in Ha; try discriminate Ha;
    destruct p; try discriminate Ha; cbn [static_val dyn_val]; unfold comp_flag; cbn [comp]; rewrite (resolve_self env t Hr); reflexivity.
Qed.

Lemma dyn_val_total' d a : dyn_atom a = true -> exists b, dyn_val false d a = of_bool b.
Proof.
  destruct a as [p i | p w | | g p | | | | | n]; simpl; try discriminate; intro H.
  - destruct p; try discriminate. destruct d; [eexists; reflexivity | exists false; reflexivity].
  - destruct p; try discriminate. destruct d; [eexists; reflexivity | exists false; reflexivity].
  - destruct d; [exists false | exists true]; reflexivity.
  - exists false; reflexivity.
Qed.

Lemma node_facts f env t relem loop :
  is_rec t = false -> is_iface t = false -> kind_of t < n_kinds -> keykind env t < n_kinds ->
  eval_tree (static_val f env t relem loop) (node_tree f env t) = OOk ->
  exists ss sd,
    agrees (static_val f env t relem loop) ss /\ agrees (dyn_val false (Some t)) sd /\
    q_node f (kind_of t) (keykind env t) ss (sd, eval_tree (dyn_val false (Some t)) (tree_assoc (show_tbl f) (kind_of t))) = true.
Proof.
  intros Hr Hi Hk Hkk Hs.
  pose proof (node_table_ok_true f) as HT. unfold node_table_ok in HT.
  pose proof (forall_below _ _ HT (kind_of t) Hk) as H1. cbv beta in H1.
  pose proof (forall_below _ _ H1 (keykind env t) Hkk) as H2. cbv beta in H2.
  unfold is_iface in Hi. rewrite Hi in H2. cbn [orb] in H2. clear HT H1.
  apply (pair_check_sound _ _ _ H2).
  - intros a Ha. apply static_val_shared; assumption.
  - apply dyn_val_total'.
  - reflexivity.
  - exact Hs.
Qed.

Lemma show_nil_eq f : show_nil f = ROk s_null.
Proof.
  pose proof (nil_shown_ok_true f) as H. unfold nil_shown_ok in H. apply outcome_eqb_eq in H.
  unfold show_nil. rewrite H. reflexivity.
Qed.

(* ---- map keys ---- *)

Lemma key_paths_sound f pre d :
  key_paths_ok f pre (kind_of d) = true -> agrees (dyn_val false (Some d)) pre ->
  eval_tree (dyn_val false (Some d)) (tree_assoc (mapkey_tbl f) (kind_of d)) = OOk.
Proof.
  intros H Hpre. unfold key_paths_ok in H. apply andb_true_iff in H. destruct H as [Hat Hall].
  destruct (eval_path_total (dyn_val false (Some d)) dyn_atom _ Hat (dyn_val_total' (Some d))) as [sd [Hin Hag]].
  rewrite forallb_forall in Hall. specialize (Hall _ Hin). cbn [fst snd] in Hall.
  rewrite (compatible_sound shared _ _ pre sd Hpre Hag (fun a _ => eq_refl)) in Hall.
  rewrite (no_nil_sound _ sd Hag eq_refl) in Hall. cbn [negb orb] in Hall.
  apply outcome_eqb_eq in Hall. exact Hall.
Qed.

Lemma scalar_not_composite t : scalar_kind (kind_of t) = true -> is_rec t = false -> exists k fl, t = TLeaf k fl.
Proof.
  destruct t; intros H Hr; try (vm_compute in H; discriminate H); try discriminate Hr. eexists; eexists; reflexivity.
Qed.

Lemma key_string_ok L f e d k :
  eval_tree (dyn_val false (Some d)) (tree_assoc (mapkey_tbl f) (kind_of d)) = OOk ->
  kind_of d < n_kinds -> is_rec d = false -> has_typeb e d k = true ->
  exists b, key_string L f (Some d) k = ROk b.
Proof.
  intros He Hk Hr Ht. unfold key_string. cbn [dyn_kind]. rewrite He.
  destruct (flag d i_Stringer || flag d i_EnvStringer) eqn:F; [eexists; reflexivity |].
  assert (Hs : scalar_kind (kind_of d) = true).
  { pose proof (key_kind_ok_true f) as HT. unfold key_kind_ok in HT.
    pose proof (forall_below _ _ HT (kind_of d) Hk) as H1. cbv beta in H1. clear HT.
    apply orb_true_iff in H1. destruct H1 as [H1 | H1]; [exact H1 | exfalso].
    destruct (eval_path _ _ _ He) as [sd [Hin Hag]]; try discriminate.
    rewrite forallb_forall in H1. specialize (H1 _ Hin). cbn [fst snd outcome_eqb negb orb] in H1.
    apply orb_false_iff in F. destruct F as [F1 F2].
    apply orb_true_iff in H1. destruct H1 as [H1 | H1];
      pose proof (asg_true_sound _ _ _ Hag H1) as Hv; cbn [dyn_val] in Hv.
    - rewrite F1 in Hv. discriminate Hv.
    - rewrite F2 in Hv. discriminate Hv. }
  destruct (scalar_not_composite d Hs Hr) as [kd [fl Hd]]. subst d. cbn [kind_of] in *.
  pose proof (typed_leaf e kd fl k Hk Ht) as Hsh.
  destruct k; try (eexists; reflexivity); try contradiction; exfalso;
    try (subst kd; vm_compute in Hs; discriminate Hs);
    repeat (destruct Hsh as [Hsh | Hsh]; try (subst kd; vm_compute in Hs; discriminate Hs)).
Qed.

Lemma flags_sub_sound a b i : flags_sub a b = true -> i < n_ifaces -> N.testbit a i = true -> N.testbit b i = true.
Proof.
  intros H Hi Ha. unfold flags_sub in H. rewrite forallb_forall in H.
  assert (Hin : In i iface_ids) by (apply (below_complete n_ifaces i Hi)).
  specialize (H i Hin). rewrite Ha in H. exact H.
Qed.

Lemma agrees_key_asg f env fl tk te relem loop ss e' tk' :
  agrees (static_val f env (TMap fl tk te) relem loop) ss ->
  resolve (TMap fl tk te :: env) tk = Some (e', tk') ->
  agrees (dyn_val false (Some tk')) (key_asg ss).
Proof.
  intros Hag R. unfold agrees in *. induction Hag as [| [a b] ss Hx Hss IH]; simpl; [constructor |].
  destruct a as [p i | p w | | g p | | | | | n]; cbn [fst key_asg flat_map]; try exact IH.
  destruct p; cbn [app]; try exact IH.
  constructor; [| exact IH]. cbn [fst snd static_val dyn_val] in *. unfold comp_flag in Hx. cbn [comp] in Hx.
  rewrite R in Hx. exact Hx.
Qed.

Lemma agrees_key_asg_pos f env fl tk te relem loop ss e' tk' d :
  agrees (static_val f env (TMap fl tk te) relem loop) ss ->
  resolve (TMap fl tk te :: env) tk = Some (e', tk') ->
  flags_sub (flags_of tk') (flags_of d) = true ->
  agrees (dyn_val false (Some d)) (key_asg_pos ss).
Proof.
  intros Hag R Hsub. unfold agrees in *. induction Hag as [| [a b] ss Hx Hss IH]; simpl; [constructor |].
  destruct a as [p i | p w | | g p | | | | | n]; cbn [fst key_asg_pos flat_map]; try exact IH.
  destruct p; cbn [app]; try exact IH.
  cbn [snd]. destruct ((i <? n_ifaces) && b) eqn:E; cbn [app]; [| exact IH].
  apply andb_true_iff in E. destruct E as [Ei Eb]. subst b. apply N.ltb_lt in Ei.
  constructor; [| exact IH]. cbn [fst snd static_val dyn_val of_bool] in *. unfold comp_flag in Hx. cbn [comp] in Hx.
  rewrite R in Hx. unfold flag in *.
  destruct (N.testbit (flags_of tk') i) eqn:Et; [| discriminate Hx].
  rewrite (flags_sub_sound _ _ i Hsub Ei Et). reflexivity.
Qed.

(* the key of an entry of a map of an accepted type always converts *)
Lemma key_at_ok L f env fl tk te relem loop ss k :
  let t := TMap fl tk te in
  agrees (static_val f env t relem loop) ss ->
  key_ok f ss (keykind env t) = true ->
  wf_tyb tk = true -> env_ok f (t :: env) ->
  at_of env t tk k = true ->
  exists b, key_at L f (t :: env) tk k = ROk b.
Proof.
  intros t Hag Hko Hw He Hty. unfold at_of in Hty. unfold key_at.
  destruct (resolve (t :: env) tk) as [[e' tk'] |] eqn:R; [| discriminate Hty].
  destruct (resolve_facts f _ _ _ _ He Hw R) as [Hr' [Hw' [He' _]]].
  assert (Hkk : keykind env t = kind_of tk') by (unfold keykind, t; fold t; rewrite R; reflexivity).
  rewrite Hkk in Hko. unfold key_ok in Hko.
  destruct (is_iface tk') eqn:Hi.
  - unfold is_iface in Hi. rewrite Hi in Hko. apply andb_true_iff in Hko. destruct Hko as [Hall Hnil].
    destruct tk'; try (vm_compute in Hi; discriminate Hi). cbn [kind_of] in Hi. apply N.eqb_eq in Hi. subst k0.
    destruct k; cbn [has_typeb] in Hty; apply andb_true_iff in Hty; destruct Hty as [_ Hty]; simpl in Hty; try discriminate Hty.
    + unfold key_string. cbn [dyn_kind]. unfold nil_key_ok in Hnil. apply outcome_eqb_eq in Hnil. rewrite Hnil. eexists; reflexivity.
    + repeat (apply andb_true_iff in Hty; destruct Hty as [Hty ?Hc]).
      apply negb_true_iff in Hty.
      assert (Hkd : kind_of d < n_kinds) by (apply kind_lt_of_wf; [apply negb_true_iff; assumption | assumption]).
      apply (key_string_ok L f [] d k); try assumption; [| apply negb_true_iff; assumption].
      apply (key_paths_sound f (key_asg_pos ss)).
      * apply (forall_below _ _ Hall _ Hkd).
      * apply (agrees_key_asg_pos f env fl tk te relem loop ss e' (TLeaf k_Interface fl0) d Hag R). assumption.
  - unfold is_iface in Hi. rewrite Hi in Hko.
    apply (key_string_ok L f e' tk' k); try assumption.
    + apply (key_paths_sound f (key_asg ss)); [exact Hko |]. apply (agrees_key_asg f env fl tk te relem loop ss e' tk' Hag R).
    + apply kind_lt_of_wf; assumption.
Qed.

(* ---- struct fields ---- *)

(* isEmptyValue handles every typed value (computed on the generated table for each kind) *)
Lemma is_empty_some L e t v :
  has_typeb e t v = true -> wf_tyb t = true -> is_empty L t v <> None.
Proof.
  intros H Hw. destruct t.
  - cbn [wf_tyb] in Hw. apply N.ltb_lt in Hw. pose proof (typed_leaf e k fl v Hw H) as Hs. clear H.
    enum_kind k Hw; destruct v; try contradiction; try (vm_compute in Hs; discriminate Hs);
      try (repeat (destruct Hs as [Hs | Hs]; try discriminate Hs); fail);
      vm_compute; discriminate.
  - destruct v; cbn [has_typeb] in H; apply andb_true_iff in H; destruct H as [_ H]; try discriminate H; vm_compute; discriminate.
  - destruct v; cbn [has_typeb] in H; apply andb_true_iff in H; destruct H as [_ H];
      destruct (flag (TSlice fl t) w_ByteSlice); try discriminate H; vm_compute; discriminate.
  - destruct v; cbn [has_typeb] in H; apply andb_true_iff in H; destruct H as [_ H]; try discriminate H; vm_compute; discriminate.
  - destruct v; cbn [has_typeb] in H; apply andb_true_iff in H; destruct H as [_ H]; try discriminate H; vm_compute; discriminate.
  - destruct v; cbn [has_typeb] in H; apply andb_true_iff in H; destruct H as [_ H];
      destruct (flag (TStruct fl fs) w_Time); try discriminate H; vm_compute; discriminate.
  - destruct v; cbn [has_typeb] in H; rewrite andb_false_r in H; discriminate H.
Qed.

(* the body of the loop over the fields *)
Lemma field_facts f fi r :
  let o := eval_tree (field_val f fi r) (field_tree f) in
  o <> OOk /\ (o = OContinue -> f_exported fi = true -> r = OOk).
Proof.
  intro o. pose proof (field_ok_true f) as HT. unfold field_ok in HT. rewrite forallb_forall in HT.
  assert (Hcases : (o = OStuck \/ o = OPanic) \/ exists s, In (s, o) (paths (field_tree f)) /\ agrees (field_val f fi r) s).
  { destruct (outcome_eqb o OStuck) eqn:E1; [apply outcome_eqb_eq in E1; auto |].
    destruct (outcome_eqb o OPanic) eqn:E2; [apply outcome_eqb_eq in E2; auto |].
    right. apply eval_path; [reflexivity | |]; intro Hc; rewrite Hc in *; discriminate. }
  destruct Hcases as [[Hc | Hc] | [s [Hin Hag]]].
  - split; intro H; rewrite Hc in H; discriminate H.
  - split; intro H; rewrite Hc in H; discriminate H.
  - specialize (HT _ Hin). cbn [fst snd] in HT. apply andb_true_iff in HT. destruct HT as [H1 H2]. split.
    + intro Hc. rewrite Hc in H1. discriminate H1.
    + intros Hc Hex. rewrite Hc in H2. cbn [outcome_eqb negb orb] in H2. apply orb_true_iff in H2. destruct H2 as [H2 | H2].
      * pose proof (asg_false_sound _ _ _ Hag H2) as Hv. cbn [field_val] in Hv. rewrite Hex in Hv. discriminate Hv.
      * pose proof (asg_true_sound _ _ _ Hag H2) as Hv. cbn [field_val] in Hv.
        assert (Hff : showfn_eqb f f = true) by (destruct f; reflexivity). rewrite Hff in Hv.
        destruct r; try discriminate Hv. reflexivity.
Qed.

(* ---- the main induction ---- *)

Lemma fields_exit_some chk fs o : fields_exit chk fs = Some o -> exists fi ft, o = chk fi ft.
Proof.
  induction fs as [| [fi ft] r IH]; simpl; intro H; [discriminate H |].
  destruct (chk fi ft) eqn:E; try (inversion H; subst; exists fi, ft; symmetry; exact E).
  apply IH. exact H.
Qed.

(* the shape of an accepting static_rec on a type that is not a back reference *)
Lemma static_node f env t :
  is_rec t = false -> static_rec f env t = OOk ->
  exists relem loop,
    eval_tree (static_val f env t relem loop) (node_tree f env t) = OOk /\
    match t with
    | TArr _ e | TSlice _ e | TPtr _ e | TMap _ _ e => relem = Some (static_rec f (t :: env) e)
    | _ => True
    end /\
    match t with
    | TStruct _ fs => loop = VT -> fields_exit (fun fi ft => eval_tree (field_val f fi (static_rec f (t :: env) ft)) (field_tree f)) fs = None
    | _ => True
    end.
Proof.
  intros Hr Hs. destruct t; try discriminate Hr; cbn [static_rec] in Hs.
  - exists None, VStuck. auto.
  - eexists; exists VStuck. split; [exact Hs | auto].
  - eexists; exists VStuck. split; [exact Hs | auto].
  - eexists; exists VStuck. split; [exact Hs | auto].
  - eexists; exists VStuck. split; [exact Hs | auto].
  - set (chk := fun fi ft => eval_tree (field_val f fi (static_rec f (TStruct fl fs :: env) ft)) (field_tree f)) in *.
    destruct (fields_exit chk fs) as [o |] eqn:Ex.
    + exists None, VF. split; [| split; [exact I | intro Hc; discriminate Hc]].
      destruct (eval_tree (static_val f env (TStruct fl fs) None VF) (node_tree f env (TStruct fl fs))) eqn:Ev; try discriminate Hs; try reflexivity.
      exfalso. subst o. destruct (fields_exit_some _ _ _ Ex) as [fi [ft Ho]].
      pose proof (field_facts f fi (static_rec f (TStruct fl fs :: env) ft)) as [Hne _]. apply Hne. unfold chk in Ho. symmetry. exact Ho.
    + exists None, VT. split; [| split; [exact I | intros _; reflexivity]].
      destruct (eval_tree (static_val f env (TStruct fl fs) None VT) (node_tree f env (TStruct fl fs))) eqn:Ev; try discriminate Hs; reflexivity.
Qed.

(* the head of the spec is the one the run time path took *)
Lemma head_is_sound f t sd h :
  agrees (dyn_val false (Some t)) sd -> head_is f sd h = true -> head_case f t = h.
Proof.
  intros Hag H. unfold head_is in H.
  assert (Hflag : forall p i b, asg_get sd (AImpl p i) = Some b -> p = PSelf -> flag t i = b).
  { intros p i b E Hp. subst p. pose proof (agrees_get _ _ _ _ Hag E) as Hv. cbn [dyn_val] in Hv. apply of_bool_inj in Hv. exact Hv. }
  assert (Hflag2 : forall p i b, asg_get sd (AIs p i) = Some b -> p = PSelf -> flag t i = b).
  { intros p i b E Hp. subst p. pose proof (agrees_get _ _ _ _ Hag E) as Hv. cbn [dyn_val] in Hv. apply of_bool_inj in Hv. exact Hv. }
  unfold head_case, trusted_case.
  destruct f; cbn [head_atoms head_walk] in H;
    repeat match type of H with
    | context [match asg_get ?s ?a with _ => _ end] =>
      let E := fresh "E" in destruct (asg_get s a) as [[|] |] eqn:E; [| | discriminate H];
      first [apply Hflag in E; [| reflexivity] | apply Hflag2 in E; [| reflexivity]]; rewrite E
    end;
    cbn [hcase_eqb] in H; destruct h; try discriminate H; try reflexivity;
    apply N.eqb_eq in H; subst; reflexivity.
Qed.

(* the members of a struct, when every exported field is shown with a result in G0 *)
Lemma struct_members_all L f (G0 : result -> Prop) env t :
  forall fs vs,
    Forall2 (fun (p : finfo * ty) (fv : value) =>
               at_of env t (snd p) fv = true /\
               (forall e' t', resolve (t :: env) (snd p) = Some (e', t') -> wf_tyb t' = true) /\
               (f_exported (fst p) = true -> G0 (show_at_with f (show_val L f) (t :: env) (snd p) fv))) fs vs ->
    exists ms,
      struct_members (fun fi ft fv =>
        field_member L fi (match resolve (t :: env) ft with Some (_, t') => Some t' | None => None end) fv
                     (show_at_with f (show_val L f) (t :: env) ft fv)) fs vs = Some ms /\
      Forall (fun m : bytes * result => G0 (snd m)) ms.
Proof.
  intros fs vs H. induction H as [| [fi ft] fv fs' vs' [Hty [Hwf Hshow]] Hrest IH].
  - exists []. split; [reflexivity | constructor].
  - destruct IH as [ms [Hms Hgood]]. cbn [fst snd] in *.
    cbn [struct_members]. fold (struct_members (fun fi ft fv =>
        field_member L fi (match resolve (t :: env) ft with Some (_, t') => Some t' | None => None end) fv
                     (show_at_with f (show_val L f) (t :: env) ft fv))) in *.
    rewrite Hms.
    unfold field_member. destruct (f_exported fi) eqn:Hexp; [| exists ms; split; [reflexivity | exact Hgood]].
    specialize (Hshow eq_refl).
    destruct (f_tag fi) as [| c tag]; [eexists; split; [reflexivity | constructor; [exact Hshow | exact Hgood]] |].
    destruct (bytes_eqb (c :: tag) [45]); [exists ms; split; [reflexivity | exact Hgood] |].
    destruct (parse_tag (c :: tag)) as [tname omit].
    destruct omit; [| eexists; split; [reflexivity | constructor; [exact Hshow | exact Hgood]]].
    unfold at_of in Hty. destruct (resolve (t :: env) ft) as [[e' t'] |] eqn:R; [| discriminate Hty].
    pose proof (is_empty_some L e' t' fv Hty (Hwf e' t' eq_refl)) as Hne.
    destruct (is_empty L t' fv) as [[|] |]; [exists ms; split; [reflexivity | exact Hgood] | | contradiction].
    eexists; split; [reflexivity | constructor; [exact Hshow | exact Hgood]].
Qed.

Section Main.
  Variable L : leaves.
  Variable f : showfn.

  (* The property that is established: G env t v r relates the value v of dynamic type t
     (met inside the composites env) with the result r of showing it; Gat does the same for a
     position of static type tc (an interface position holds the nil interface or a dynamic
     value). The hypotheses say that G holds of the leaves and is preserved by the array,
     pointer, object constructions. *)
  Variable G : list ty -> ty -> value -> result -> Prop.
  Variable Gat : list ty -> ty -> value -> result -> Prop.

  Hypothesis Hat_nil : forall env tc e' t',
    resolve env tc = Some (e', t') -> is_iface t' = true -> Gat env tc VNil (ROk s_null).
  Hypothesis Hat_iface : forall env tc e' t' d x r,
    resolve env tc = Some (e', t') -> is_iface t' = true -> is_iface d = false -> is_rec d = false ->
    G [] d x r -> Gat env tc (VIface d x) r.
  Hypothesis Hat_plain : forall env tc e' t' x r,
    resolve env tc = Some (e', t') -> is_iface t' = false -> G e' t' x r -> Gat env tc x r.

  Hypothesis Hbool : forall env t (b : bool), head_case f t = HPlain -> G env t (VBool b) (ROk (if b then s_true else s_false)).
  Hypothesis HZ : forall env t z, head_case f t = HPlain -> G env t (VInt z) (ROk (dec_of_Z z)).
  Hypothesis HN : forall env t n, head_case f t = HPlain -> G env t (VUint n) (ROk (dec_of_N n)).
  Hypothesis Hfloat : forall env t x, head_case f t = HPlain -> G env t (VFloat x) (ROk (lf_float L (kind_of t) x)).
  Hypothesis Hstr : forall env t s, head_case f t = HPlain -> G env t (VStr s) (ROk (quoted L f s)).
  Hypothesis Hb64 : forall env t b, head_case f t = HPlain -> G env t (VBytes b) (ROk (q :: lf_base64 L b ++ [q])).
  Hypothesis Hnilref : forall env t, head_case f t = HPlain -> G env t VNilRef (ROk s_null).
  Hypothesis Herr : forall env t v, head_case f t = HError -> G env t v (ROk (quoted L f (lf_error_text L t v))).
  Hypothesis Htime : forall env t x, head_case f t = HTime ->
    G env t (VTime x)
      (match f with
       | FJS => match lf_time_js L x with Some b => ROk b | None => RPanic end
       | FJSON => ROk (q :: lf_time_json L x ++ [q])
       end).
  Hypothesis Htrusted : forall env t v c, head_case f t = HTrusted c -> G env t v (ROk (lf_trusted L f c t v)).
  Hypothesis Harray : forall env t e xs,
    head_case f t = HPlain -> (exists fl, t = TSlice fl e \/ t = TArr fl e) ->
    (forall x, In x xs -> Gat (t :: env) e x (show_at_with f (show_val L f) (t :: env) e x)) ->
    G env t (VSeq xs) (array_lit (map (show_at_with f (show_val L f) (t :: env) e) xs)).
  Hypothesis Hptr : forall env fl e x,
    head_case f (TPtr fl e) = HPlain ->
    Gat (TPtr fl e :: env) e x (show_at_with f (show_val L f) (TPtr fl e :: env) e x) ->
    G env (TPtr fl e) (VPtr x) (show_at_with f (show_val L f) (TPtr fl e :: env) e x).
  Hypothesis Hstruct : forall env fl fs vs,
    head_case f (TStruct fl fs) = HPlain ->
    Forall2 (fun (p : finfo * ty) (fv : value) =>
               at_of env (TStruct fl fs) (snd p) fv = true /\
               (forall e' t', resolve (TStruct fl fs :: env) (snd p) = Some (e', t') -> wf_tyb t' = true) /\
               (f_exported (fst p) = true ->
                Gat (TStruct fl fs :: env) (snd p) fv (show_at_with f (show_val L f) (TStruct fl fs :: env) (snd p) fv))) fs vs ->
    G env (TStruct fl fs) (VStruct vs)
      (match struct_members (fun fi ft fv =>
               field_member L fi (match resolve (TStruct fl fs :: env) ft with Some (_, t') => Some t' | None => None end) fv
                            (show_at_with f (show_val L f) (TStruct fl fs :: env) ft fv)) fs vs with
       | Some ms => object_lit L f ms
       | None => RStuck
       end).
  Hypothesis Hmap : forall env fl tk te kvs,
    head_case f (TMap fl tk te) = HPlain ->
    (forall kx, In kx kvs -> exists b, key_at L f (TMap fl tk te :: env) tk (fst kx) = ROk b) ->
    (forall kx : value * value, In kx kvs ->
       Gat (TMap fl tk te :: env) te (snd kx) (show_at_with f (show_val L f) (TMap fl tk te :: env) te (snd kx))) ->
    G env (TMap fl tk te) (VMap kvs)
      (object_lit L f (sort_kv (map (fun kr : result * result => (key_of (fst kr), snd kr))
         (map (fun kx : value * value => (key_at L f (TMap fl tk te :: env) tk (fst kx),
                                          show_at_with f (show_val L f) (TMap fl tk te :: env) te (snd kx))) kvs)))).

  Definition P (n : nat) : Prop :=
    forall v env t, (vsize v < n)%nat ->
      is_rec t = false -> is_iface t = false -> wf_tyb t = true -> env_ok f env ->
      static_rec f env t = OOk -> has_typeb env t v = true -> boxed_okb f v = true ->
      G env t v (show_val L f env t v).

  (* a position of static type tc inside a composite (environment env') *)
  Lemma show_at_good n env' tc x :
    P n -> env_ok f env' -> wf_tyb tc = true ->
    (is_rec tc = true \/ static_rec f env' tc = OOk) ->
    match resolve env' tc with Some (e', t') => has_typeb e' t' x | None => false end = true ->
    boxed_okb f x = true -> (vsize x < n)%nat ->
    Gat env' tc x (show_at_with f (show_val L f) env' tc x).
  Proof.
    intros HP He Hw Hst Hty Hbox Hsz. unfold show_at_with.
    destruct (resolve env' tc) as [[e' t'] |] eqn:R; [| discriminate Hty].
    destruct (resolve_facts f _ _ _ _ He Hw R) as [Hr' [Hw' [He' Hcase]]].
    destruct (is_iface t') eqn:Hi.
    - (* an interface position: the dynamic value *)
      pose proof Hi as Hi0.
      destruct t'; try (vm_compute in Hi; discriminate Hi). unfold is_iface in Hi. cbn [kind_of] in Hi.
      destruct x; cbn [has_typeb] in Hty; apply andb_true_iff in Hty; destruct Hty as [_ Hty]; rewrite Hi in Hty; try discriminate Hty.
      + rewrite show_nil_eq. apply (Hat_nil _ _ _ _ R Hi0).
      + repeat (apply andb_true_iff in Hty; destruct Hty as [Hty ?Hc]).
        apply negb_true_iff in Hty. apply negb_true_iff in Hc3. rewrite Hty, Hc3. cbn [orb].
        cbn [boxed_okb] in Hbox. apply andb_true_iff in Hbox. destruct Hbox as [Hb1 Hb2]. apply outcome_eqb_eq in Hb1.
        apply (Hat_iface _ _ _ _ _ _ _ R Hi0 Hty Hc3).
        apply HP; try assumption; [cbn [vsize] in Hsz; lia | apply env_ok_nil].
    - apply (Hat_plain _ _ _ _ _ _ R Hi).
      destruct Hcase as [[Hrc [_ Hs']] | [Hrc [Ee Et]]].
      + apply HP; assumption.
      + subst e' t'. destruct Hst as [Hst | Hst]; [rewrite Hst in Hrc; discriminate Hrc |].
        apply HP; assumption.
  Qed.

  (* the facts about the fields of a struct whose loop over the fields completed *)
  Lemma struct_fields_rel n env t :
    P n -> env_ok f (t :: env) ->
    forall fs vs,
      forallb (fun p : finfo * ty => wf_tyb (snd p)) fs = true ->
      fields_exit (fun fi ft => eval_tree (field_val f fi (static_rec f (t :: env) ft)) (field_tree f)) fs = None ->
      typed_fields (at_of env t) fs vs = true ->
      forallb (boxed_okb f) vs = true -> (list_sum (map vsize vs) < n)%nat ->
      Forall2 (fun (p : finfo * ty) (fv : value) =>
                 at_of env t (snd p) fv = true /\
                 (forall e' t', resolve (t :: env) (snd p) = Some (e', t') -> wf_tyb t' = true) /\
                 (f_exported (fst p) = true -> Gat (t :: env) (snd p) fv (show_at_with f (show_val L f) (t :: env) (snd p) fv))) fs vs.
  Proof.
    intros HP He fs. induction fs as [| [fi ft] fs' IH]; intros vs Hw Hex Hty Hbox Hsz; destruct vs as [| fv vs']; cbn [typed_fields] in Hty; try discriminate Hty.
    - constructor.
    - cbn [forallb snd] in Hw. apply andb_true_iff in Hw. destruct Hw as [Hw1 Hw2].
      cbn [fields_exit] in Hex.
      destruct (eval_tree (field_val f fi (static_rec f (t :: env) ft)) (field_tree f)) eqn:Echk; try discriminate Hex.
      apply andb_true_iff in Hty. destruct Hty as [Hty1 Hty2].
      cbn [forallb] in Hbox. apply andb_true_iff in Hbox. destruct Hbox as [Hb1 Hb2].
      simpl in Hsz.
      constructor; [| apply IH; try assumption; lia].
      cbn [fst snd]. split; [exact Hty1 |]. split.
      + intros e' t' R. destruct (resolve_facts f _ _ _ _ He Hw1 R) as [_ [Hw' _]]. exact Hw'.
      + intro Hexp.
        pose proof (field_facts f fi (static_rec f (t :: env) ft)) as [_ Hc]. cbv zeta in Hc.
        specialize (Hc Echk Hexp).
        apply (show_at_good n); try assumption; [right; exact Hc | lia].
  Qed.

  Lemma keykind_lt env t : wf_tyb t = true -> env_ok f (t :: env) -> keykind env t < n_kinds.
  Proof.
    intros Hw He. destruct t; try (vm_compute; reflexivity). unfold keykind.
    destruct (resolve (TMap fl t1 t2 :: env) t1) as [[e' k'] |] eqn:R; [| vm_compute; reflexivity].
    cbn [wf_tyb] in Hw. apply andb_true_iff in Hw. destruct Hw as [Hw1 _].
    destruct (resolve_facts f _ _ _ _ He Hw1 R) as [Hr' [Hw' _]]. apply kind_lt_of_wf; assumption.
  Qed.

  Ltac gleaf Hp := solve [apply Hbool; exact Hp | apply HZ; exact Hp | apply HN; exact Hp | apply Hfloat; exact Hp
                         | apply Hstr; exact Hp | apply Hb64; exact Hp | apply Hnilref; exact Hp].

  Theorem show_val_good : forall n, P n.
  Proof.
    induction n as [| n IHn]; intros v env t Hsz Hr Hi Hw He Hs Hty Hbox; [lia |].
    assert (He' : env_ok f (t :: env)) by (apply env_ok_cons; assumption).
    destruct (static_node f env t Hr Hs) as [relem [loop [Hev [Hrelem Hloop]]]].
    destruct (node_facts f env t relem loop Hr Hi (kind_lt_of_wf t Hr Hw) (keykind_lt env t Hw He') Hev) as [ss [sd [Hss [Hsd HQ]]]].
    rewrite show_val_eq. unfold show_node.
    unfold q_node in HQ. cbn [fst snd] in HQ.
    apply orb_true_iff in HQ. destruct HQ as [HQ | HQ].
    { pose proof (asg_true_sound _ _ _ Hss HQ) as Hv. cbn [static_val] in Hv. discriminate Hv. }
    destruct (eval_tree (dyn_val false (Some t)) (tree_assoc (show_tbl f) (kind_of t))) as [ | | | | | g | c str | c | ] eqn:Eo; try discriminate HQ.
    - (* the kind switch *)
      destruct str.
      + apply andb_true_iff in HQ. destruct HQ as [HQ Hhd]. rewrite HQ. apply Herr. apply (head_is_sound f t sd _ Hsd Hhd).
      + apply andb_true_iff in HQ. destruct HQ as [HQ Hhd].
        pose proof (head_is_sound f t sd _ Hsd Hhd) as Hp. clear Hhd.
        unfold class_req in HQ.
        destruct (c =? k_Bool) eqn:E1.
        { apply N.eqb_eq in HQ. destruct t; try (vm_compute in HQ; discriminate HQ). cbn [kind_of] in HQ. subst k.
          pose proof (typed_leaf env k_Bool fl v ltac:(vm_compute; reflexivity) Hty) as Hsh.
          destruct v; try gleaf Hp; try contradiction; try discriminate Hsh; try (vm_compute in Hsh; discriminate Hsh);
            repeat (destruct Hsh as [Hsh | Hsh]; try discriminate Hsh). }
        destruct (c =? k_Int) eqn:E2.
        { destruct t; try (vm_compute in HQ; discriminate HQ). cbn [kind_of wf_tyb] in *. apply N.ltb_lt in Hw.
          pose proof (typed_leaf env _ fl v Hw Hty) as Hsh.
          enum_kind k Hw; try (vm_compute in HQ; discriminate HQ);
            destruct v; try gleaf Hp; exfalso; vm_compute in Hsh; try contradiction; try discriminate Hsh;
            repeat (destruct Hsh as [Hsh | Hsh]; try discriminate Hsh). }
        destruct (c =? k_Uint) eqn:E3.
        { destruct t; try (vm_compute in HQ; discriminate HQ). cbn [kind_of wf_tyb] in *. apply N.ltb_lt in Hw.
          pose proof (typed_leaf env _ fl v Hw Hty) as Hsh.
          enum_kind k Hw; try (vm_compute in HQ; discriminate HQ);
            destruct v; try gleaf Hp; exfalso; vm_compute in Hsh; try contradiction; try discriminate Hsh;
            repeat (destruct Hsh as [Hsh | Hsh]; try discriminate Hsh). }
        destruct ((c =? k_Float32) || (c =? k_Float64)) eqn:E4.
        { apply N.eqb_eq in HQ. subst c.
          destruct t; try (vm_compute in E4; discriminate E4). cbn [kind_of wf_tyb] in *. apply N.ltb_lt in Hw.
          pose proof (typed_leaf env _ fl v Hw Hty) as Hsh.
          enum_kind k Hw; try (vm_compute in E4; discriminate E4);
            destruct v; try gleaf Hp; exfalso; vm_compute in Hsh; try contradiction; try discriminate Hsh;
            repeat (destruct Hsh as [Hsh | Hsh]; try discriminate Hsh). }
        destruct (c =? k_String) eqn:E5.
        { apply N.eqb_eq in HQ. destruct t; try (vm_compute in HQ; discriminate HQ). cbn [kind_of] in HQ. subst k.
          pose proof (typed_leaf env k_String fl v ltac:(vm_compute; reflexivity) Hty) as Hsh.
          destruct v; try gleaf Hp; try contradiction; try discriminate Hsh; try (vm_compute in Hsh; discriminate Hsh);
            repeat (destruct Hsh as [Hsh | Hsh]; try discriminate Hsh). }
        destruct (c =? k_Slice) eqn:E6.
        { apply andb_true_iff in HQ. destruct HQ as [Hk Helem].
          pose proof (typed_composite_kind env t v Hty) as Hck.
          destruct t; try (vm_compute in Hk; discriminate Hk).
          { cbn [kind_of] in Hk. apply N.eqb_eq in Hk. destruct Hck as [_ [Hck _]]. contradiction. }
          pose proof (asg_true_sound _ _ _ Hss Helem) as Hv. cbn [static_val] in Hv.
          assert (Hff : showfn_eqb f f = true) by (destruct f; reflexivity). rewrite Hff, Hrelem in Hv.
          assert (Hse : static_rec f (TSlice fl t :: env) t = OOk) by (destruct (static_rec f (TSlice fl t :: env) t); try discriminate Hv; reflexivity).
          destruct v; cbn [has_typeb] in Hty; apply andb_true_iff in Hty; destruct Hty as [_ Hty];
            destruct (flag (TSlice fl t) w_ByteSlice) eqn:Fb; try discriminate Hty; try gleaf Hp.
          cbn [kids_of]. apply (Harray env (TSlice fl t) t xs Hp); [exists fl; left; reflexivity |]. intros x Hx.
          rewrite forallb_forall in Hty. cbn [boxed_okb] in Hbox. rewrite forallb_forall in Hbox.
          apply (show_at_good n); try assumption;
            try solve [cbn [wf_tyb] in Hw; exact Hw | right; exact Hse | apply (Hty x Hx) | apply (Hbox x Hx)
                      | pose proof (in_list_sum vsize x xs Hx); cbn [vsize] in Hsz; lia]. }
        destruct (c =? k_Array) eqn:E7.
        { apply andb_true_iff in HQ. destruct HQ as [Hk Helem].
          pose proof (typed_composite_kind env t v Hty) as Hck.
          destruct t; try (vm_compute in Hk; discriminate Hk).
          { cbn [kind_of] in Hk. apply N.eqb_eq in Hk. destruct Hck as [Hck _]. contradiction. }
          pose proof (asg_true_sound _ _ _ Hss Helem) as Hv. cbn [static_val] in Hv.
          assert (Hff : showfn_eqb f f = true) by (destruct f; reflexivity). rewrite Hff, Hrelem in Hv.
          assert (Hse : static_rec f (TArr fl t :: env) t = OOk) by (destruct (static_rec f (TArr fl t :: env) t); try discriminate Hv; reflexivity).
          destruct v; cbn [has_typeb] in Hty; apply andb_true_iff in Hty; destruct Hty as [_ Hty]; try discriminate Hty.
          cbn [kids_of]. apply (Harray env (TArr fl t) t xs Hp); [exists fl; right; reflexivity |]. intros x Hx.
          rewrite forallb_forall in Hty. cbn [boxed_okb] in Hbox. rewrite forallb_forall in Hbox.
          apply (show_at_good n); try assumption;
            try solve [cbn [wf_tyb] in Hw; exact Hw | right; exact Hse | apply (Hty x Hx) | apply (Hbox x Hx)
                      | pose proof (in_list_sum vsize x xs Hx); cbn [vsize] in Hsz; lia]. }
        destruct (c =? k_Pointer) eqn:E8.
        { pose proof (typed_composite_kind env t v Hty) as Hck.
          apply andb_true_iff in HQ. destruct HQ as [Hk Helem].
          destruct t; try (vm_compute in Hk; discriminate Hk).
          { cbn [kind_of] in Hk. apply N.eqb_eq in Hk. destruct Hck as [_ [_ [Hck _]]]. contradiction. }
          pose proof (asg_true_sound _ _ _ Hss Helem) as Hv. cbn [static_val] in Hv.
          assert (Hff : showfn_eqb f f = true) by (destruct f; reflexivity). rewrite Hff, Hrelem in Hv.
          assert (Hse : static_rec f (TPtr fl t :: env) t = OOk) by (destruct (static_rec f (TPtr fl t :: env) t); try discriminate Hv; reflexivity).
          destruct v; cbn [has_typeb] in Hty; apply andb_true_iff in Hty; destruct Hty as [_ Hty]; try discriminate Hty; try gleaf Hp.
          cbn [kids_of]. cbn [boxed_okb] in Hbox. apply (Hptr env fl t v Hp).
          apply (show_at_good n); try assumption;
            try solve [cbn [wf_tyb] in Hw; exact Hw | right; exact Hse | cbn [vsize] in Hsz; lia]. }
        destruct (c =? k_Struct) eqn:E9.
        { apply andb_true_iff in HQ. destruct HQ as [HQ Hnt]. apply andb_true_iff in HQ. destruct HQ as [Hk Hl].
          pose proof (typed_composite_kind env t v Hty) as Hck.
          destruct t; try (vm_compute in Hk; discriminate Hk).
          { cbn [kind_of] in Hk. apply N.eqb_eq in Hk. destruct Hck as [_ [_ [_ [_ Hck]]]]. contradiction. }
          pose proof (asg_true_sound _ _ _ Hss Hl) as Hv. cbn [static_val] in Hv. specialize (Hloop Hv).
          pose proof (asg_false_sound _ _ _ Hsd Hnt) as Hv2. cbn [dyn_val] in Hv2.
          assert (Hft : flag (TStruct fl fs) w_Time = false) by (destruct (flag (TStruct fl fs) w_Time); [discriminate Hv2 | reflexivity]).
          destruct v; cbn [has_typeb] in Hty; apply andb_true_iff in Hty; destruct Hty as [_ Hty]; rewrite Hft in Hty; try discriminate Hty.
          cbn [kids_of]. cbn [boxed_okb] in Hbox. cbn [wf_tyb] in Hw. cbn [vsize] in Hsz.
          apply (Hstruct env fl fs fs0 Hp).
          apply (struct_fields_rel n env (TStruct fl fs) IHn He' fs fs0 Hw Hloop Hty Hbox ltac:(lia)). }
        destruct (c =? k_Map) eqn:E10; [| discriminate HQ].
        { apply andb_true_iff in HQ. destruct HQ as [HQ Hkey]. apply andb_true_iff in HQ. destruct HQ as [Hk Helem].
          pose proof (typed_composite_kind env t v Hty) as Hck.
          destruct t; try (vm_compute in Hk; discriminate Hk).
          { cbn [kind_of] in Hk. apply N.eqb_eq in Hk. destruct Hck as [_ [_ [_ [Hck _]]]]. contradiction. }
          pose proof (asg_true_sound _ _ _ Hss Helem) as Hv. cbn [static_val] in Hv.
          assert (Hff : showfn_eqb f f = true) by (destruct f; reflexivity). rewrite Hff, Hrelem in Hv.
          assert (Hse : static_rec f (TMap fl t1 t2 :: env) t2 = OOk) by (destruct (static_rec f (TMap fl t1 t2 :: env) t2); try discriminate Hv; reflexivity).
          cbn [wf_tyb] in Hw. apply andb_true_iff in Hw. destruct Hw as [Hw1 Hw2].
          destruct v; cbn [has_typeb] in Hty; apply andb_true_iff in Hty; destruct Hty as [_ Hty]; try discriminate Hty; try gleaf Hp.
          cbn [kids_of]. cbn [boxed_okb] in Hbox. rewrite forallb_forall in Hty, Hbox. cbn [vsize] in Hsz.
          set (kf := fun kx : value * value => (key_at L f (TMap fl t1 t2 :: env) t1 (fst kx), show_at_with f (show_val L f) (TMap fl t1 t2 :: env) t2 (snd kx))).
          assert (Hkeys : forall kx, In kx kvs -> exists b, key_at L f (TMap fl t1 t2 :: env) t1 (fst kx) = ROk b).
          { intros kx Hin. specialize (Hty kx Hin). apply andb_true_iff in Hty. destruct Hty as [Hty1 _].
            apply (key_at_ok L f env fl t1 t2 relem loop ss (fst kx) Hss Hkey Hw1 He' Hty1). }
          assert (Hvals : forall kx, In kx kvs -> Gat (TMap fl t1 t2 :: env) t2 (snd kx) (show_at_with f (show_val L f) (TMap fl t1 t2 :: env) t2 (snd kx))).
          { intros kx Hin. specialize (Hty kx Hin). apply andb_true_iff in Hty. destruct Hty as [_ Hty2].
            apply (show_at_good n); try assumption;
              try solve [right; exact Hse | apply (Hbox kx Hin)
                        | pose proof (in_list_sum (fun kx : value * value => (vsize (fst kx) + vsize (snd kx))%nat) kx kvs Hin) as Hle; cbv beta in Hle; lia]. }
          assert (Hfk : first_key_error (map fst (map kf kvs)) = None).
          { clear - Hkeys. induction kvs as [| kx r IH]; [reflexivity |]. cbn [map first_key_error]. unfold kf at 1. cbn [fst].
            destruct (Hkeys kx (or_introl eq_refl)) as [b Hb]. rewrite Hb. apply IH. intros y Hy. apply Hkeys. right. exact Hy. }
          rewrite Hfk. apply (Hmap env fl t1 t2 kvs Hp Hkeys Hvals). }
    - (* the leading type switch *)
      apply andb_true_iff in HQ. destruct HQ as [HQ Hhd]. apply andb_true_iff in HQ. destruct HQ as [Hc1 Hc2].
      pose proof (head_is_sound f t sd _ Hsd Hhd) as Hp. clear Hhd.
      destruct (c =? w_Time) eqn:Et.
      + cbn [negb orb] in Hc2. pose proof (asg_true_sound _ _ _ Hsd Hc2) as Hv. cbn [dyn_val] in Hv.
        assert (Hft : flag t w_Time = true) by (destruct (flag t w_Time); [reflexivity | discriminate Hv]).
        destruct v; cbn [has_typeb] in Hty; apply andb_true_iff in Hty; destruct Hty as [Hwf Hty];
          unfold wf_flags in Hwf; rewrite Hft in Hwf; cbn [negb orb] in Hwf; apply andb_true_iff in Hwf; destruct Hwf as [Hwf _];
          destruct t; try discriminate Hwf; rewrite Hft in Hty; try discriminate Hty.
        apply (Htime env _ x Hp).
      + apply negb_true_iff in Hc1. rewrite Hc1. apply (Htrusted env t v c Hp).
  Qed.
End Main.

(* ---- instance: a result predicate that does not look at the value ---- *)

Section Plain.
  Variable L : leaves.
  Variable f : showfn.
  Variable G0 : result -> Prop.
  Hypothesis Hnull : G0 (ROk s_null).
  Hypothesis Hbool : forall b : bool, G0 (ROk (if b then s_true else s_false)).
  Hypothesis HZ : forall z, G0 (ROk (dec_of_Z z)).
  Hypothesis HN : forall n, G0 (ROk (dec_of_N n)).
  Hypothesis Hfloat : forall c x, G0 (ROk (lf_float L c x)).
  Hypothesis Hquoted : forall s, G0 (ROk (quoted L f s)).
  Hypothesis Hb64 : forall b, G0 (ROk (q :: lf_base64 L b ++ [q])).
  Hypothesis Htime : forall x,
    G0 (match f with
        | FJS => match lf_time_js L x with Some b => ROk b | None => RPanic end
        | FJSON => ROk (q :: lf_time_json L x ++ [q])
        end).
  Hypothesis Htrusted : forall c t v, G0 (ROk (lf_trusted L f c t v)).
  Hypothesis Harray : forall rs, Forall G0 rs -> G0 (array_lit rs).
  Hypothesis Hobject : forall ms, Forall (fun m : bytes * result => G0 (snd m)) ms -> G0 (object_lit L f ms).

  Theorem show_val_plain : forall n, P L f (fun _ _ _ r => G0 r) n.
  Proof.
    apply (show_val_good L f (fun _ _ _ r => G0 r) (fun _ _ _ r => G0 r)); intros; try (solve [auto]).
    - (* array *) apply Harray. apply Forall_forall. intros r Hr. apply in_map_iff in Hr. destruct Hr as [x [Hx Hin]]. subst r. auto.
    - (* struct *)
      match goal with H : Forall2 _ _ _ |- _ => destruct (struct_members_all L f G0 env (TStruct fl fs) fs vs H) as [ms [Hms Hgood]] end.
      rewrite Hms. apply Hobject. exact Hgood.
    - (* map *)
      apply Hobject. apply sort_kv_Forall. apply Forall_forall. intros m Hm.
      apply in_map_iff in Hm. destruct Hm as [kr [Hkr Hin]]. subst m. cbn [snd].
      apply in_map_iff in Hin. destruct Hin as [kx [Hkx Hin]]. subst kr. cbn [snd]. auto.
  Qed.
End Plain.

(* C09: nothing but `not a cannot show error and the model applies` *)
Theorem show_val_good' L f : forall n, P L f (fun _ _ _ r => good r) n.
Proof.
  apply show_val_plain; intros; try apply good_ok.
  - destruct f; [destruct (lf_time_js L x); [apply good_ok | apply good_panic] | apply good_ok].
  - apply array_lit_good. assumption.
  - apply object_lit_good. assumption.
Qed.
