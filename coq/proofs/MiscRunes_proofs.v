(* Facts about the rune level view (lib/MiscRunes.v): sizes, and additivity of
   the decomposition into runes at a boundary followed by an ASCII byte. *)
From Coq Require Import Sorted.
From Verif Require Import Bytes Utf8 MiscRunes.
Open Scope N_scope.

Definition ascii_head (b : bytes) : Prop := match b with [] => True | c :: _ => c < 128 end.

Lemma cont_ascii c : c < 128 -> is_cont c = false.
Proof. intros H. unfold is_cont. destruct (N.leb_spec 128 c); [lia|reflexivity]. Qed.

Lemma leb_ascii_false lo c : c < 128 -> 128 <= lo -> (lo <=? c) = false.
Proof. intros. apply N.leb_gt. lia. Qed.

Lemma decode_ascii c r : c < 128 -> decode_rune (c :: r) = (c, 1%nat).
Proof. intros H. unfold decode_rune. destruct (N.ltb_spec c 128); [reflexivity|lia]. Qed.

Ltac kill_ascii Hc :=
  rewrite ?(cont_ascii _ Hc), ?andb_false_r;
  try (rewrite (leb_ascii_false 128 _ Hc) by lia);
  try (rewrite (leb_ascii_false 160 _ Hc) by lia);
  try (rewrite (leb_ascii_false 144 _ Hc) by lia);
  cbn [andb]; try reflexivity.

Lemma decode_app_ascii a b : a <> [] -> ascii_head b -> decode_rune (a ++ b) = decode_rune a.
Proof.
  intros Ha Hb. destruct a as [|x a]; [contradiction|]. clear Ha.
  destruct b as [|c b]; [rewrite app_nil_r; reflexivity|]. cbn [ascii_head] in Hb.
  cbn [app]. unfold decode_rune.
  destruct (x <? 128); [reflexivity|]. destruct (x <? 194); [reflexivity|].
  destruct (x <? 224).
  { destruct a as [|y a]; cbn [app]; [kill_ascii Hb|reflexivity]. }
  destruct (x <? 240).
  { destruct a as [|y [|z a]]; cbn [app]; try reflexivity.
    - destruct b as [|d b]; [reflexivity|]. destruct (x =? 224); kill_ascii Hb.
    - kill_ascii Hb. }
  destruct (x <? 245); [|reflexivity].
  destruct a as [|y [|z [|w a]]]; cbn [app]; try reflexivity.
  - destruct b as [|d [|e b]]; try reflexivity. destruct (x =? 240); kill_ascii Hb.
  - destruct b as [|d b]; [reflexivity|]. kill_ascii Hb.
  - kill_ascii Hb.
Qed.

Lemma rune_size_bounds s : s <> [] -> (1 <= rune_size s <= length s)%nat.
Proof.
  intros Hs. destruct s as [|x s]; [contradiction|]. unfold rune_size, decode_rune.
  cbn [length].
  destruct (x <? 128); [cbn [snd]; lia|]. destruct (x <? 194); [cbn [snd]; lia|].
  destruct (x <? 224).
  { destruct s as [|y s]; [cbn [snd]; lia|]. destruct (is_cont y); cbn [snd length]; lia. }
  destruct (x <? 240).
  { destruct s as [|y [|z s]]; try (cbn [snd length]; lia).
    match goal with |- context [if ?c then _ else _] => destruct c end; cbn [snd length]; lia. }
  destruct (x <? 245); [|cbn [snd]; lia].
  destruct s as [|y [|z [|w s]]]; try (cbn [snd length]; lia).
  match goal with |- context [if ?c then _ else _] => destruct c end; cbn [snd length]; lia.
Qed.

(* bytes of a multi-byte rune are all >= 128 *)
Lemma rune_size_1_ascii c r : c < 128 -> rune_size (c :: r) = 1%nat.
Proof. intros H. unfold rune_size. rewrite decode_ascii by exact H. reflexivity. Qed.

(* ---- range_aux ---- *)

Lemma range_aux_skip s : forall k i, (k <= length s)%nat ->
  range_aux s k i = range_aux (skipn k s) 0 (i + N.of_nat k).
Proof.
  induction s as [|c r IH]; intros k i Hk.
  - cbn [length] in Hk. assert (k = 0%nat) by lia. subst k. reflexivity.
  - destruct k as [|k]; [cbn [skipn]; rewrite N.add_0_r; reflexivity|].
    cbn [range_aux skipn]. cbn [length] in Hk. rewrite IH by lia. f_equal. lia.
Qed.

Lemma range_aux_cons s i : s <> [] ->
  range_aux s 0 i = (i, fst (decode_rune s)) :: range_aux (skipn (rune_size s) s) 0 (i + N.of_nat (rune_size s)).
Proof.
  intros Hs. pose proof (rune_size_bounds s Hs) as Hb. destruct s as [|c r]; [contradiction|].
  cbn [range_aux]. f_equal. cbn [length] in Hb. rewrite range_aux_skip by lia.
  replace (rune_size (c :: r)) with (S (rune_size (c :: r) - 1)) at 2 3 by lia.
  cbn [skipn]. f_equal. lia.
Qed.

Lemma range_app_ascii_len n : forall a b i, length a = n -> ascii_head b ->
  range_aux (a ++ b) 0 i = range_aux a 0 i ++ range_aux b 0 (i + nlen a).
Proof.
  induction n as [n IH] using lt_wf_ind. intros a b i Hn Hb.
  destruct a as [|x a'] eqn:Ha.
  - cbn [app range_aux]. rewrite nlen_nil, N.add_0_r. reflexivity.
  - rewrite <- Ha in *. assert (Hne : a <> []) by (rewrite Ha; discriminate).
    assert (Hne2 : a ++ b <> []) by (rewrite Ha; discriminate).
    rewrite (range_aux_cons (a ++ b) i Hne2), (range_aux_cons a i Hne).
    unfold rune_size. rewrite decode_app_ascii by assumption. fold (rune_size a).
    pose proof (rune_size_bounds a Hne) as Hsz.
    rewrite skipn_app. replace (rune_size a - length a)%nat with 0%nat by lia. cbn [skipn].
    cbn [app]. f_equal.
    rewrite (IH (length (skipn (rune_size a) a))); [|rewrite skipn_length; lia|reflexivity|exact Hb].
    f_equal. f_equal. rewrite !nlen_eq, skipn_length. lia.
Qed.

Lemma range_app_ascii a b i : ascii_head b ->
  range_aux (a ++ b) 0 i = range_aux a 0 i ++ range_aux b 0 (i + nlen a).
Proof. apply (range_app_ascii_len (length a)). reflexivity. Qed.

Lemma range_ascii_cons c r i : c < 128 -> range_aux (c :: r) 0 i = (i, c) :: range_aux r 0 (i + 1).
Proof.
  intros Hc. cbn [range_aux]. rewrite rune_size_1_ascii, decode_ascii by exact Hc. reflexivity.
Qed.

(* ---- rune_count ---- *)

Lemma rune_count_app_ascii a b : ascii_head b -> rune_count (a ++ b) = (rune_count a + rune_count b)%nat.
Proof.
  intros Hb. unfold rune_count, range_str. rewrite range_app_ascii by exact Hb. rewrite app_length.
  f_equal. clear. generalize (0 + nlen a). generalize 0 at 1.
  (* the number of runes does not depend on the start index *)
  assert (H : forall s k i j, length (range_aux s k i) = length (range_aux s k j)).
  { induction s as [|c r IH]; intros k i j; cbn [range_aux]; [reflexivity|].
    destruct k; [cbn [length]; f_equal|]; apply IH. }
  intros. apply H.
Qed.

Lemma rune_count_ascii_cons c r : c < 128 -> rune_count (c :: r) = S (rune_count r).
Proof.
  intros Hc.
  unfold rune_count, range_str. rewrite range_ascii_cons by exact Hc. cbn [length]. f_equal.
  assert (H : forall s k i j, length (range_aux s k i) = length (range_aux s k j)).
  { induction s as [|c' r' IH]; intros k i j; cbn [range_aux]; [reflexivity|].
    destruct k; [cbn [length]; f_equal|]; apply IH. }
  apply H.
Qed.

Lemma rune_count_all_ascii s : Forall (fun c => c < 128) s -> rune_count s = length s.
Proof.
  induction 1 as [|c r Hc Hr IH]; [reflexivity|]. rewrite rune_count_ascii_cons by exact Hc. cbn [length]. f_equal. exact IH.
Qed.

Lemma range_aux_len_le s : forall k i, (length (range_aux s k i) <= length s)%nat.
Proof.
  induction s as [|c r IH]; intros k i; cbn [range_aux length]; [lia|].
  destruct k; cbn [length]; [specialize (IH (rune_size (c :: r) - 1)%nat (i + 1))|specialize (IH k (i + 1))]; lia.
Qed.

Lemma rune_count_le s : (rune_count s <= length s)%nat.
Proof. apply range_aux_len_le. Qed.

(* ---- start indexes: strictly increasing, inside the string ---- *)

Lemma range_aux_bounds s : forall k i x, In x (map fst (range_aux s k i)) -> i <= x < i + nlen s.
Proof.
  induction s as [|c r IH]; intros k i x Hx; cbn [range_aux] in Hx; [destruct Hx|].
  rewrite nlen_cons. destruct k.
  - cbn [map fst In] in Hx. destruct Hx as [<-|Hx]; [lia|]. apply IH in Hx. lia.
  - apply IH in Hx. lia.
Qed.

Lemma range_aux_sorted s : forall k i, StronglySorted N.lt (map fst (range_aux s k i)).
Proof.
  induction s as [|c r IH]; intros k i; cbn [range_aux]; [constructor|].
  destruct k; [|apply IH]. cbn [map fst]. constructor; [apply IH|].
  apply Forall_forall. intros x Hx. apply range_aux_bounds in Hx. lia.
Qed.
