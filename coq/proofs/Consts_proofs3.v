(* Proofs about the 512 bit floats of the model (ConstsM.v): addition,
   subtraction and multiplication are exact whenever the exact result fits
   the precision. *)
From Coq Require Import ZArith List Bool Lia QArith Qpower.
From Verif Require Import Facts_consts ConstsM Consts_proofs Consts_proofs2.
Open Scope Z_scope.

Definition two : Q := 2 # 1.

Lemma two_nz : ~ (two == 0)%Q.
Proof. unfold two, Qeq. cbn. lia. Qed.

Lemma pow2_Q k : 0 <= k -> (inject_Z (2 ^ k) == two ^ k)%Q.
Proof. intros Hk. rewrite Zpower_Qpower by assumption. reflexivity. Qed.

Definition sgn (neg : bool) (p : positive) : Z := if neg then Zneg p else Zpos p.

Lemma flQ_FFin n m e : (flQ (FFin n m e) == inject_Z (sgn n m) * two ^ e)%Q.
Proof. reflexivity. Qed.

(* normalisation keeps the value *)
Lemma flQ_mkfl neg p e : (flQ (mkfl neg (Zpos p) e) == inject_Z (sgn neg p) * two ^ e)%Q.
Proof.
  unfold mkfl. destruct (pos_norm_spec p e) as [H1 H2]. destruct (pos_norm p e) as [p' e']. cbn [fst snd] in *.
  rewrite flQ_FFin.
  assert (Hs : sgn neg p = sgn neg p' * 2 ^ (e' - e)).
  { unfold sgn. destruct neg; [|exact H2]. change (Z.neg p) with (- Z.pos p). change (Z.neg p') with (- Z.pos p'). lia. }
  rewrite Hs, inject_Z_mult, pow2_Q by lia.
  replace e' with (e + (e' - e)) at 1 by lia. rewrite Qpower_plus by exact two_nz. ring.
Qed.

Lemma bitlen_pos p : bitlen (Zpos p) = Z.log2 (Zpos p) + 1.
Proof. reflexivity. Qed.

(* a magnitude that fits the precision is not rounded *)
Lemma round_big_exact neg p e : bitlen (Zpos p) <= gen_bigfloat_prec ->
  round_pos fmtbig neg p e false = Some (mkfl neg (Zpos p) e).
Proof.
  intros H. unfold round_pos, round_mag. cbn [f_prec f_emin f_maxexp fmtbig].
  rewrite bitlen_pos in H.
  replace (Z.log2 (Z.pos p) + 1 - gen_bigfloat_prec <=? 0) with true by (symmetry; apply Z.leb_le; lia).
  reflexivity.
Qed.

Lemma big_of_mz_exact m e : bitlen m <= gen_bigfloat_prec ->
  (flQ (big_of_mz m e) == inject_Z m * two ^ e)%Q.
Proof.
  intros H. destruct m as [|p|p]; unfold big_of_mz.
  - unfold flQ. cbn. ring.
  - rewrite round_big_exact by exact H. apply flQ_mkfl.
  - rewrite round_big_exact by exact H. apply (flQ_mkfl true).
Qed.

Lemma flQ_scaled f e0 : e0 <= fl_e f ->
  (flQ f == inject_Z (fl_m f * 2 ^ (fl_e f - e0)) * two ^ e0)%Q.
Proof.
  intros H. unfold flQ. rewrite inject_Z_mult, pow2_Q by lia.
  replace (fl_e f) with (e0 + (fl_e f - e0)) at 1 by lia. rewrite Qpower_plus by exact two_nz. fold two. ring.
Qed.

(* big.Float addition and subtraction at 512 bits are exact when the exact result has at most 512 bits *)
Theorem bigf_add_exact x y :
  bitlen (fst (fl_sum_mz x y false)) <= gen_bigfloat_prec ->
  fl_is_zero x = false -> fl_is_zero y = false ->
  (flQ (fl_add x y) == flQ x + flQ y)%Q.
Proof.
  intros H Hx Hy. destruct x as [|nx mx ex]; [discriminate|]. destruct y as [|ny my ey]; [discriminate|].
  unfold fl_add. unfold fl_sum_mz in *. cbn [fst] in H.
  set (e0 := Z.min (fl_e (FFin nx mx ex)) (fl_e (FFin ny my ey))) in *.
  rewrite big_of_mz_exact by exact H.
  rewrite (flQ_scaled (FFin nx mx ex) e0), (flQ_scaled (FFin ny my ey) e0) by (unfold e0; lia).
  rewrite inject_Z_plus. ring.
Qed.

Theorem bigf_sub_exact x y :
  bitlen (fst (fl_sum_mz x y true)) <= gen_bigfloat_prec ->
  fl_is_zero x = false -> fl_is_zero y = false ->
  (flQ (fl_sub x y) == flQ x - flQ y)%Q.
Proof.
  intros H Hx Hy. destruct x as [|nx mx ex]; [discriminate|]. destruct y as [|ny my ey]; [discriminate|].
  unfold fl_sub. unfold fl_sum_mz in *. cbn [fst] in H.
  set (e0 := Z.min (fl_e (FFin nx mx ex)) (fl_e (FFin ny my ey))) in *.
  rewrite big_of_mz_exact by exact H.
  rewrite (flQ_scaled (FFin nx mx ex) e0), (flQ_scaled (FFin ny my ey) e0) by (unfold e0; lia).
  rewrite inject_Z_plus, inject_Z_opp. ring.
Qed.

Theorem bigf_mul_exact x y :
  bitlen (fl_m x * fl_m y) <= gen_bigfloat_prec ->
  (flQ (fl_mul x y) == flQ x * flQ y)%Q.
Proof.
  intros H. destruct x as [nx|nx mx ex], y as [ny|ny my ey]; unfold fl_mul; try (unfold flQ; cbn; ring).
  assert (Hb : bitlen (Zpos (mx * my)) <= gen_bigfloat_prec).
  { cbn [fl_m] in H. unfold bitlen in *. destruct nx, ny; cbn in H |- *; exact H. }
  rewrite round_big_exact by exact Hb. rewrite flQ_mkfl, !flQ_FFin.
  rewrite Qpower_plus by exact two_nz.
  assert (Hs : sgn (xorb nx ny) (mx * my) = sgn nx mx * sgn ny my) by (destruct nx, ny; reflexivity).
  rewrite Hs, inject_Z_mult. ring.
Qed.
