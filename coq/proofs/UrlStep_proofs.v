(* C06 / C07, work package esc2: proofs about the URL attribute machine
   UrlStepM.url_step for ALL operation sequences of one attribute:
   - it is the renderer model RendererM.r_op with a writer that never fails,
   - no operation faults (no index out of range) when no text is empty,
   - the bytes written for a value are confined (alphabet of the component,
     no byte that ends the attribute value, every ampersand starts a reference),
   - the attribute value as a whole stays inside the value for a tokenizer,
   - which escaper a value gets, srcset included; what a comma text does. *)
From Coq Require Import List NArith Bool Lia.
From Verif Require Import Bytes Facts_render Facts_escapers Facts_esc RendererM Renderer_proofs TCalcM TCalc_proofs
  HtmlDecode Decoders RefScanners Roundtrip_proofs Confine_proofs UrlRefM UrlRef_proofs UrlAttr_proofs UrlStepM.
From Verif Require EscapersM Escapers_proofs.
Import ListNotations.
Open Scope N_scope.

(* ---------------------------------------------------------------- values *)

(* a plain string is HTML escaped by showInHTML and decoded back by html.UnescapeString *)
Lemma shown_text_untrusted s : shown_text s false = s.
Proof.
  unfold shown_text. pose proof (proj1 roundtrip_all s []) as H. rewrite app_nil_r in H. rewrite H.
  replace (html_decode []) with (@nil N) by (vm_compute; reflexivity). apply app_nil_r.
Qed.

(* ---------------------------------------------------------------- scripts *)

Lemma script_result_ok sc : forall acc, script_ok sc = true -> script_result sc acc = UOut (acc ++ script_bytes sc).
Proof.
  unfold script_bytes. induction sc as [|a sc IH]; intros acc H; cbn [script_result script_chunks concat].
  - rewrite app_nil_r. reflexivity.
  - destruct a as [c|]; [|discriminate]. cbn [script_ok] in H. rewrite (IH _ H).
    cbn [script_chunks concat]. rewrite app_assoc. reflexivity.
Qed.

Lemma path_result q s : script_result (pathEscape q s) [] = UOut (pe_flat q s).
Proof.
  rewrite script_result_ok by (unfold pathEscape; apply pe_loop_ok). unfold pathEscape.
  rewrite (pe_loop_bytes q s []). reflexivity.
Qed.

Lemma query_result s : script_result (queryEscape s) [] = UOut (qe_flat s).
Proof.
  rewrite script_result_ok by (unfold queryEscape; apply qe_loop_ok). unfold queryEscape.
  rewrite (qe_loop_bytes s []). reflexivity.
Qed.

(* ---------------------------------------------------------------- no fault *)

(* the output of a value: never a fault, and which bytes *)
Lemma url_show_out k st s :
  snd (url_show k st s) = UOut (if u_query st && negb (u_remq st) then qe_flat s else pe_flat (a_quoted k) s).
Proof.
  unfold url_show. destruct (u_query st); cbn [andb].
  - destruct (u_remq st); cbn [negb snd]; [apply path_result|apply query_result].
  - destruct (mem s 63) eqn:M; cbn [snd]; [|apply path_result].
    destruct (last_opt s) eqn:L; cbn [snd]; [apply path_result|].
    exfalso. exact (last_opt_mem _ _ M L).
Qed.

Lemma url_text_out k st t :
  t <> [] -> exists b, snd (url_text k st t) = UOut b.
Proof.
  intros Hne. unfold url_text.
  destruct (a_set k && mem t 44); [eexists; reflexivity|].
  destruct (u_query st); [|eexists; reflexivity].
  destruct t as [|c r]; [congruence|].
  destruct (u_remq st); eexists; reflexivity.
Qed.

Lemma url_step_no_fault k st o : uop_ok o = true -> exists b, snd (url_step k st o) = UOut b.
Proof.
  destruct o as [t|s tr]; intros H; cbn [url_step].
  - apply url_text_out. destruct t; [discriminate|discriminate].
  - rewrite url_show_out. eexists; reflexivity.
Qed.

Theorem url_run_no_fault k ops : forall st,
  forallb uop_ok ops = true ->
  has_fault (snd (url_run k st ops)) = false /\ length (snd (url_run k st ops)) = length ops.
Proof.
  induction ops as [|o r IH]; intros st H; [split; reflexivity|].
  cbn [forallb] in H. apply andb_prop in H. destruct H as [Ho Hr].
  cbn [url_run]. destruct (url_step_no_fault k st o Ho) as [b Hb].
  destruct (url_step k st o) as [st1 out]. cbn [snd] in Hb. subst out.
  specialize (IH st1 Hr). destruct (url_run k st1 r) as [st2 outs]. cbn [snd] in *.
  destruct IH as [IH1 IH2]. split; [cbn [has_fault existsb]; exact IH1|cbn [length]; rewrite IH2; reflexivity].
Qed.

(* the precondition is needed: an empty text after a value that brought the question mark *)
Lemma url_empty_text_faults :
  snd (url_run (mkA true false) u0 [UVal [120; 63; 121] false; UTxt []]) = [UOut [120; 63; 121]; UFault].
Proof. vm_compute. reflexivity. Qed.

(* ---------------------------------------------------------------- the renderer model *)

Definition lift (st : ustate) : rstate := mkR true (u_query st) (u_amp st) (u_remq st).

(* render context byte of Show: ContextQuotedAttr / ContextUnquotedAttr, URL flag, set flag *)
Definition ctx_byte (k : akind) : N := (if a_quoted k then 7 else 8) + 128 + (if a_set k then 64 else 0).

Definition rop (k : akind) (o : uop) : op :=
  match o with
  | UTxt t => OText t true (a_set k)
  | UVal s tr => OShow (ctx_byte k) (mkShown [] None (Some (shown_text s tr)))
  end.

Lemma decode_ctx_byte k :
  decode_ctx (ctx_byte k) = Some (if a_quoted k then gen_ContextQuotedAttr else gen_ContextUnquotedAttr, true, a_set k).
Proof. destruct k as [[|] [|]]; vm_compute; reflexivity. Qed.

Lemma switch_lift st : url_switch (lift st) true = lift st.
Proof. reflexivity. Qed.

Definition out_of (ws : wst) : bytes := concat (w_out ws).

Lemma wr_never_out ws c : wr never ws c = (mkW (w_calls ws + 1) (w_out ws ++ [c]), None).
Proof. apply wr_never. Qed.

Lemma out_of_snoc n ws c : out_of (mkW n (w_out ws ++ [c])) = out_of ws ++ c.
Proof. unfold out_of. cbn [w_out]. rewrite concat_app. cbn [concat]. rewrite app_nil_r. reflexivity. Qed.

Ltac solve_out := unfold out_of; cbn [w_out]; rewrite ?concat_app; cbn [concat app]; rewrite ?app_nil_r, <- ?app_assoc; reflexivity.

(* one operation: the renderer model with a writer that never fails does what url_step says *)
Theorem url_step_refines k st o ws :
  match url_step k st o with
  | (st', UOut b) =>
    exists ws', r_op never (lift st) ws (rop k o) = (lift st', ws', ROk) /\ out_of ws' = out_of ws ++ b
  | (_, UFault) => snd (r_op never (lift st) ws (rop k o)) = RFault
  end.
Proof.
  destruct o as [t|s tr]; cbn [url_step rop r_op].
  - unfold url_text, r_text. rewrite switch_lift. cbn [lift inURL query addAmp remQ].
    destruct (a_set k && mem t 44) eqn:S.
    + rewrite wr_never_out. eexists. split; [reflexivity|]. apply out_of_snoc.
    + destruct (u_query st) eqn:Q.
      * destruct (u_remq st) eqn:RQ.
        -- destruct t as [|c r]; [reflexivity|].
           destruct (u_amp st && match (if c =? 63 then r else c :: r) with [] => false | c0 :: _ => negb (c0 =? 38) end) eqn:A.
           ++ rewrite !wr_never_out. eexists. split; [reflexivity|]. solve_out.
           ++ rewrite wr_never_out. eexists. split; [reflexivity|]. solve_out.
        -- destruct (u_amp st && match t with [] => false | c0 :: _ => negb (c0 =? 38) end) eqn:A.
           ++ rewrite !wr_never_out. eexists. split; [reflexivity|]. solve_out.
           ++ rewrite wr_never_out. eexists. split; [reflexivity|]. solve_out.
      * rewrite wr_never_out. eexists. split; [reflexivity|]. apply out_of_snoc.
  - unfold r_show. rewrite decode_ctx_byte, switch_lift. cbn [sv_url].
    replace ((if a_quoted k then gen_ContextQuotedAttr else gen_ContextUnquotedAttr) =? gen_ContextQuotedAttr)
      with (a_quoted k) by (destruct (a_quoted k); vm_compute; reflexivity).
    set (s' := shown_text s tr).
    pose proof (r_show_url_ok (lift st) s' (a_quoted k)) as Hok.
    pose proof (url_show_out k st s') as Hout.
    assert (Hb : script_bytes (snd (r_show_url (lift st) s' (a_quoted k)))
                 = (if u_query st && negb (u_remq st) then qe_flat s' else pe_flat (a_quoted k) s')).
    { exact (proj1 (proj2 (show_url_confined (lift st) s' (a_quoted k)))). }
    assert (Hst : fst (r_show_url (lift st) s' (a_quoted k)) = lift (fst (url_show k st s'))).
    { unfold r_show_url, url_show, lift. cbn [query remQ inURL addAmp].
      destruct (u_query st) eqn:Q; [destruct (u_remq st) eqn:RQ|].
      - destruct (last_opt s'); cbn [fst u_query u_amp u_remq]; [reflexivity|rewrite Q, RQ; reflexivity].
      - cbn [fst]. rewrite Q, RQ. reflexivity.
      - destruct (mem s' 63); [destruct (last_opt s'); reflexivity|]. cbn [fst]. rewrite Q. reflexivity. }
    destruct (url_show k st s') as [st' o]. cbn [snd fst] in *. subst o.
    destruct (r_show_url (lift st) s' (a_quoted k)) as [rst sc]. cbn [fst snd] in *. subst rst.
    unfold never. rewrite (run_script_all sc ws Hok). eexists. split; [reflexivity|].
    unfold out_of. cbn [w_out]. rewrite concat_app. fold (script_bytes sc). rewrite Hb. reflexivity.
Qed.

(* ---------------------------------------------------------------- confinement of a value *)

(* the alphabet of pathEscape over the write scripts of RendererM *)
Definition pe_alpha_check (q : bool) (c : N) : bool :=
  match assoc_get (pe_tbl q) c with
  | None => path_byte_ok q c
  | Some rep => forallb (path_byte_ok q) rep && (if mem gen_pathEscape_lookbytes c then path_byte_ok q c else true)
  end.

Lemma fact_pe_alpha : forallb (fun c => pe_alpha_check true c && pe_alpha_check false c) all_bytes = true.
Proof. vm_compute. reflexivity. Qed.

Lemma pe_flat_alphabet q s : is_bytes s = true -> forallb (path_byte_ok q) (pe_flat q s) = true.
Proof.
  induction s as [|c r IH]; intros Hb; cbn [pe_flat]; [reflexivity|].
  cbn [is_bytes forallb] in Hb. apply andb_prop in Hb. destruct Hb as [Hc Hr]. apply N.ltb_lt in Hc.
  specialize (IH Hr).
  pose proof (forall_bytes _ fact_pe_alpha c Hc) as H. cbv beta in H. apply andb_prop in H.
  assert (Hq : pe_alpha_check q c = true) by (destruct q; tauto). clear H.
  unfold pe_alpha_check in Hq. unfold pe_byte.
  destruct (assoc_get (pe_tbl q) c) as [rep|].
  - apply andb_prop in Hq. destruct Hq as [Hrep Hkeep].
    assert (K1 : forallb (path_byte_ok q) (rep ++ pe_flat q r) = true) by (rewrite forallb_app, Hrep, IH; reflexivity).
    destruct (mem gen_pathEscape_lookbytes c); [|exact K1].
    assert (K2 : forallb (path_byte_ok q) (c :: pe_flat q r) = true) by (cbn [forallb]; rewrite Hkeep, IH; reflexivity).
    destruct (gen_pathEscape_look_need <=? 1 + nlen r); [|exact K1].
    destruct r as [|a r']; [exact K2|].
    destruct (mem gen_pathEscape_look1 a); [|exact K1].
    destruct r' as [|b r'']; [exact K2|].
    destruct (mem gen_pathEscape_look2 b); [exact K2|exact K1].
  - cbn [forallb]. rewrite Hq, IH. reflexivity.
Qed.

Lemma qe_flat_query_ok s : is_bytes s = true -> query_ok (qe_flat s) = true.
Proof. intros H. rewrite qe_flat_esc. apply query_confine, H. Qed.

(* no comma and no white space in the query escaping of any string *)
Definition nosep (c : N) : bool := negb (c =? 44) && negb (is_html_ws c).
Definition qe_nosep_check (c : N) : bool :=
  match assoc_get gen_queryEscape c with Some rep => forallb nosep rep | None => nosep c end.
Lemma fact_qe_nosep : forallb qe_nosep_check all_bytes = true.
Proof. vm_compute. reflexivity. Qed.

Lemma nosep_oob c : 256 <= c -> nosep c = true.
Proof.
  intros H. unfold nosep, is_html_ws.
  repeat match goal with |- context [c =? ?n] => replace (c =? n) with false by (symmetry; apply N.eqb_neq; lia) end.
  reflexivity.
Qed.

Lemma qe_flat_nosep s : forallb nosep (qe_flat s) = true.
Proof.
  induction s as [|c r IH]; cbn [qe_flat]; [reflexivity|].
  assert (H : qe_nosep_check c = true).
  { destruct (N.lt_ge_cases c 256) as [Hc|Hc].
    - exact (forall_bytes _ fact_qe_nosep c Hc).
    - unfold qe_nosep_check. rewrite (assoc_get_oob _ c qe_tbl_keys Hc). apply nosep_oob, Hc. }
  unfold qe_nosep_check in H. destruct (assoc_get gen_queryEscape c) as [rep|].
  - rewrite forallb_app, H, IH. reflexivity.
  - cbn [forallb]. rewrite H, IH. reflexivity.
Qed.

(* Whatever the state and the value (trusted or not), what Show writes: no
   fault; no byte that ends the attribute value or leaves it (no quote of
   either kind, no less-than, greater-than, backquote; no white space when the
   attribute is not quoted); every ampersand starts one of the three references
   the escapers write; in a query position only unreserved characters and
   percent triples, elsewhere only the alphabet of pathEscape. *)
Theorem url_show_confined k st s tr :
  exists b, snd (url_step k st (UVal s tr)) = UOut b /\
    forallb (url_safe (a_quoted k)) b = true /\ amp_ok b = true /\
    (is_bytes (shown_text s tr) = true ->
       if u_query st && negb (u_remq st) then query_ok b = true /\ forallb nosep b = true
       else forallb (path_byte_ok (a_quoted k)) b = true).
Proof.
  cbn [url_step]. rewrite url_show_out. eexists. split; [reflexivity|].
  destruct (u_query st && negb (u_remq st)).
  - destruct (qe_flat_confined (a_quoted k) (shown_text s tr)) as [H1 H2].
    split; [exact H1|]. split; [exact H2|]. intros Hb. split; [apply qe_flat_query_ok, Hb|apply qe_flat_nosep].
  - destruct (pe_flat_confined (a_quoted k) (shown_text s tr)) as [H1 H2].
    split; [exact H1|]. split; [exact H2|]. intros Hb. apply pe_flat_alphabet, Hb.
Qed.

(* ---------------------------------------------------------------- the attribute value as a whole *)

Inductive quoting := QDq | QSq | QUnq.
Definition quoted_of (qk : quoting) : bool := match qk with QUnq => false | _ => true end.

(* the characters that do not end an attribute value of this quoting *)
Definition val_safe (qk : quoting) (c : N) : bool :=
  match qk with
  | QDq => negb (c =? 34)
  | QSq => negb (c =? 39)
  | QUnq => negb (is_html_ws c) && negb (c =? 62)
  end.

Lemma url_safe_val_safe qk c : url_safe (quoted_of qk) c = true -> val_safe qk c = true.
Proof.
  unfold url_safe, val_safe, mem, is_html_ws. cbn [existsb]. intros H. apply andb_prop in H. destruct H as [H1 H2].
  rewrite !orb_false_r in H1. apply negb_true_iff in H1.
  repeat (apply orb_false_elim in H1; destruct H1 as [? H1]).
  destruct qk; cbn [quoted_of orb] in *.
  - rewrite H. reflexivity.
  - rewrite H0. reflexivity.
  - apply negb_true_iff in H2.
    repeat (apply orb_false_elim in H2; destruct H2 as [? H2]).
    repeat match goal with E : (c =? _) = false |- _ => rewrite E; clear E end. reflexivity.
Qed.

Lemma amp_entity_val_safe qk : forallb (val_safe qk) amp_entity = true.
Proof. destruct qk; vm_compute; reflexivity. Qed.

Lemma url_text_safe qk k st t :
  forallb (val_safe qk) t = true ->
  forall b, snd (url_text k st t) = UOut b -> forallb (val_safe qk) b = true.
Proof.
  intros Ht b. unfold url_text.
  destruct (a_set k && mem t 44); [cbn [snd]; intros E; injection E as <-; exact Ht|].
  destruct (u_query st); [|cbn [snd]; intros E; injection E as <-; exact Ht].
  assert (T : forall t', forallb (val_safe qk) t' = true ->
            forallb (val_safe qk) ((if u_amp st && match t' with [] => false | c0 :: _ => negb (c0 =? 38) end then amp_entity else []) ++ t') = true).
  { intros t' H'. rewrite forallb_app, H'. destruct (u_amp st && _); [rewrite amp_entity_val_safe|]; reflexivity. }
  destruct (u_remq st).
  - destruct t as [|c r]; [cbn [snd]; discriminate|].
    cbn [snd]. intros E. injection E as <-. apply T.
    destruct (c =? 63); [|exact Ht]. cbn [forallb] in Ht. apply andb_prop in Ht. tauto.
  - cbn [snd]. intros E. injection E as <-. apply T, Ht.
Qed.

(* For every sequence of operations, from every state: when the template
   texts of the attribute hold no character that ends a value of this quoting,
   neither does anything written for the attribute - whatever the values. *)
Theorem url_attr_value_safe qk set ops : forall st,
  (forall t, In (UTxt t) ops -> forallb (val_safe qk) t = true) ->
  forallb (val_safe qk) (outs_bytes (snd (url_run (mkA (quoted_of qk) set) st ops))) = true.
Proof.
  induction ops as [|o r IH]; intros st Ht; [reflexivity|].
  cbn [url_run].
  assert (Ho : forall b, snd (url_step (mkA (quoted_of qk) set) st o) = UOut b -> forallb (val_safe qk) b = true).
  { destruct o as [t|s tr]; cbn [url_step].
    - apply url_text_safe. apply Ht. left. reflexivity.
    - intros b Hb. destruct (url_show_confined (mkA (quoted_of qk) set) st s tr) as [b' [Hb' [Hs _]]].
      cbn [url_step] in Hb'. rewrite Hb in Hb'. injection Hb' as <-. cbn [a_quoted] in Hs.
      rewrite forallb_forall in *. intros x Hx. apply url_safe_val_safe, Hs, Hx. }
  destruct (url_step (mkA (quoted_of qk) set) st o) as [st1 [b|]]; [|reflexivity].
  specialize (IH st1 (fun t H => Ht t (or_intror H))).
  destruct (url_run (mkA (quoted_of qk) set) st1 r) as [st2 outs]. cbn [snd outs_bytes] in *.
  rewrite forallb_app, (Ho b eq_refl), IH. reflexivity.
Qed.

(* in the terms of the reference scanner of attribute values (RefScanners.arun):
   inside a double or single quoted value the scanner stays inside the value *)
Theorem url_attr_stays_dq set ops st :
  (forall t, In (UTxt t) ops -> forallb (val_safe QDq) t = true) ->
  attr_dq_ok (outs_bytes (snd (url_run (mkA true set) st ops))) = true.
Proof. intros H. apply stays_dq. exact (url_attr_value_safe QDq set ops st H). Qed.

Theorem url_attr_stays_sq set ops st :
  (forall t, In (UTxt t) ops -> forallb (val_safe QSq) t = true) ->
  attr_sq_ok (outs_bytes (snd (url_run (mkA true set) st ops))) = true.
Proof. intros H. apply stays_sq. exact (url_attr_value_safe QSq set ops st H). Qed.

(* an unquoted value ends at white space or a greater-than sign only (the other
   characters RefScanners.astep rejects are parse errors that stay in the value) *)
Fixpoint unq_inside (s : bytes) : bool :=
  match s with
  | [] => true
  | c :: r => if is_html_ws c || (c =? 62) then false else unq_inside r
  end.

Lemma unq_inside_safe s : forallb (val_safe QUnq) s = true -> unq_inside s = true.
Proof.
  induction s as [|c r IH]; [reflexivity|]. cbn [forallb unq_inside val_safe]. intros H.
  apply andb_prop in H. destruct H as [Hc Hr]. apply andb_prop in Hc. destruct Hc as [H1 H2].
  apply negb_true_iff in H1, H2. rewrite H1, H2. apply IH, Hr.
Qed.

Theorem url_attr_stays_unq set ops st :
  (forall t, In (UTxt t) ops -> forallb (val_safe QUnq) t = true) ->
  unq_inside (outs_bytes (snd (url_run (mkA false set) st ops))) = true.
Proof. intros H. apply unq_inside_safe. exact (url_attr_value_safe QUnq set ops st H). Qed.

(* ---------------------------------------------------------------- which escaper, srcset included *)

Definition UInv (st : ustate) (mark qtext : bool) : Prop :=
  u_query st = mark /\ u_remq st = mark && negb qtext /\ (qtext = true -> mark = true).

Lemma url_step_inv k st o mark qtext :
  uop_ok o = true ->
  UInv st mark qtext ->
  UInv (fst (url_step k st o)) (fst (qscan (a_set k) [view_op o] mark qtext)) (snd (qscan (a_set k) [view_op o] mark qtext)).
Proof.
  intros Hok [Hq [Hr Hm]].
  assert (Fin : forall (x y z : Prop), x -> y -> z -> x /\ y /\ z) by tauto.
  unfold UInv. destruct o as [t|s tr]; cbn [url_step view_op qscan fst snd].
  - destruct t as [|c0 t0]; [discriminate|]. set (t := c0 :: t0).
    unfold url_text. destruct (a_set k && mem t 44).
    + cbn [fst snd u_query u_remq]. apply Fin; [reflexivity|destruct (has_mark (after_last 44 t)); reflexivity|auto].
    + rewrite Hq. destruct mark; cbn [orb].
      * unfold t. destruct (u_remq st); cbn [fst u_query u_remq]; apply Fin; try reflexivity; auto.
      * cbn [fst u_query u_remq]. rewrite Hr. cbn [andb].
        destruct (has_mark t); apply Fin; try reflexivity; auto.
  - unfold url_show. rewrite Hq, Hr. destruct mark; cbn [orb andb].
    + destruct qtext; cbn [negb fst].
      * rewrite Hq, Hr. apply Fin; try reflexivity; auto.
      * destruct (last_opt (shown_text s tr)); cbn [fst u_query u_remq]; rewrite ?Hq, ?Hr; apply Fin; try reflexivity; auto.
    + assert (qtext = false) by (destruct qtext; [specialize (Hm eq_refl); discriminate|reflexivity]). subst qtext.
      destruct (mem (shown_text s tr) 63) eqn:M.
      * destruct (last_opt (shown_text s tr)); cbn [fst u_query u_remq]; apply Fin; try reflexivity; intros; discriminate.
      * cbn [fst]. rewrite Hq, Hr. apply Fin; try reflexivity; intros; discriminate.
Qed.

Lemma qscan_app set a : forall b m t, qscan set (a ++ b) m t = qscan set b (fst (qscan set a m t)) (snd (qscan set a m t)).
Proof.
  induction a as [|[[|] x] r IH]; intros b m t; cbn [app qscan]; [reflexivity| |apply IH].
  destruct (set && mem x 44); apply IH.
Qed.

(* the state after the operations, when none faults: the scan of the operations *)
Lemma url_run_inv k ops : forall st mark qtext,
  forallb uop_ok ops = true ->
  UInv st mark qtext ->
  UInv (fst (url_run k st ops)) (fst (qscan (a_set k) (map view_op ops) mark qtext)) (snd (qscan (a_set k) (map view_op ops) mark qtext)).
Proof.
  induction ops as [|o r IH]; intros st mark qtext Hok I; [exact I|].
  cbn [forallb] in Hok. apply andb_prop in Hok. destruct Hok as [Ho Hr].
  cbn [url_run map]. pose proof (url_step_inv k st o mark qtext Ho I) as I1.
  destruct (url_step_no_fault k st o Ho) as [b Hb].
  destruct (url_step k st o) as [st1 out]. cbn [fst snd] in *. subst out.
  specialize (IH st1 _ _ Hr I1). destruct (url_run k st1 r) as [st2 outs]. cbn [fst] in *.
  change (view_op o :: map view_op r) with ([view_op o] ++ map view_op r). rewrite qscan_app. exact IH.
Qed.

Lemma UInv_u0 : UInv u0 false false.
Proof. repeat split; try reflexivity. intros; discriminate. Qed.

(* Which escaper a value gets after the operations `before` of the attribute,
   srcset included: queryEscape exactly in the query positions (query_pos: in
   the current URL - the one after the last comma text of a set attribute -
   some template text lies at or after the first question mark or number sign),
   pathEscape otherwise; in a query position the state is left unchanged. *)
Theorem url_escaper_choice k before s tr :
  forallb uop_ok before = true ->
  let st := fst (url_run k u0 before) in
  snd (url_step k st (UVal s tr))
  = UOut (if query_pos (a_set k) before then qe_flat (shown_text s tr) else pe_flat (a_quoted k) (shown_text s tr))
  /\ (query_pos (a_set k) before = true -> fst (url_step k st (UVal s tr)) = st).
Proof.
  intros Hok. cbv zeta. pose proof (url_run_inv k before u0 false false Hok UInv_u0) as I.
  unfold query_pos. destruct (qscan (a_set k) (map view_op before) false false) as [mark qtext]. cbn [fst snd] in *.
  destruct I as [Hq [Hr Hm]]. cbn [url_step]. rewrite url_show_out, Hq, Hr. unfold url_show. rewrite Hq, Hr.
  destruct qtext.
  - rewrite (Hm eq_refl). cbn [andb negb]. split; [reflexivity|intros _; reflexivity].
  - destruct mark; cbn [andb negb]; (split; [reflexivity|intros; discriminate]).
Qed.

(* ---------------------------------------------------------------- srcset *)

(* A text with a comma in a set attribute: the text is written as it is and
   the state after it does not depend on the state before it - the URL after
   the comma is escaped on its own. *)
Theorem srcset_comma_text_resets q st st' t :
  mem t 44 = true ->
  url_step (mkA q true) st (UTxt t) = url_step (mkA q true) st' (UTxt t) /\
  url_step (mkA q true) st (UTxt t) = (mkU (has_mark (after_last 44 t)) false false, UOut t).
Proof. intros H. cbn [url_step]. unfold url_text. cbn [a_set andb]. rewrite H. split; reflexivity. Qed.

(* a comma inside a shown value does not start a new URL: the state machine does not look at the commas of values *)
Lemma srcset_value_comma_example :
  fst (url_run (mkA true true) u0 [UTxt [47; 97; 63; 120; 61]; UVal [49; 44; 50] false]) = mkU true false false.
Proof. vm_compute. reflexivity. Qed.

(* number of image candidates of a srcset value: the non-blank pieces between commas (after HTML decoding) *)
Definition blank (s : bytes) : bool := forallb is_html_ws s.
Definition candidates (attr : bytes) : nat :=
  length (filter (fun p => negb (blank p)) (split_all 44 (html_decode attr))).

(* a value shown in a path position of a srcset can add a candidate: srcset = {{ s }} 1x *)
Lemma srcset_path_value_adds_candidate :
  let k := mkA true true in
  candidates (url_attr_out k [UVal [97; 46; 112; 110; 103] false; UTxt [32; 49; 120]]) = 1%nat /\
  candidates (url_attr_out k [UVal [97; 46; 112; 110; 103; 32; 49; 120; 44; 32; 101; 46; 112; 110; 103] false; UTxt [32; 49; 120]]) = 2%nat /\
  url_attr_out k [UVal [97; 46; 112; 110; 103; 32; 49; 120; 44; 32; 101; 46; 112; 110; 103] false; UTxt [32; 49; 120]]
  = [97; 46; 112; 110; 103; 32; 49; 120; 44; 32; 101; 46; 112; 110; 103; 32; 49; 120].
Proof. vm_compute. repeat split; reflexivity. Qed.

(* the same in an unquoted srcset: the space is written as a character reference, which a browser decodes *)
Lemma srcset_path_value_adds_candidate_unquoted :
  let k := mkA false true in
  candidates (url_attr_out k [UVal [97; 32; 49; 120; 44; 101] false]) = 2%nat.
Proof. vm_compute. reflexivity. Qed.

(* in a query position a value cannot: what is written for it holds no comma and no white space *)
Theorem srcset_query_value_no_separator k before s tr :
  forallb uop_ok before = true ->
  query_pos (a_set k) before = true ->
  exists b, snd (url_step k (fst (url_run k u0 before)) (UVal s tr)) = UOut b /\ forallb nosep b = true.
Proof.
  intros Hok Hq. destruct (url_escaper_choice k before s tr Hok) as [H _]. cbv zeta in H. rewrite Hq in H.
  eexists. split; [exact H|apply qe_flat_nosep].
Qed.

(* ---------------------------------------------------------------- agreement with the view of C07 (UrlAttr_proofs.run_items) *)

Definition uop_of_item (i : item) : uop :=
  match i with UText t => UTxt t | UShow s => UVal s false end.

Lemma url_run_refines k ops : forall st ws,
  forallb uop_ok ops = true ->
  exists ws', r_run never (lift st) ws (map (rop k) ops) = (lift (fst (url_run k st ops)), ws', repeat ROk (length ops))
              /\ out_of ws' = out_of ws ++ outs_bytes (snd (url_run k st ops)).
Proof.
  induction ops as [|o r IH]; intros st ws Hok.
  - exists ws. cbn. rewrite app_nil_r. split; reflexivity.
  - cbn [forallb] in Hok. apply andb_prop in Hok. destruct Hok as [Ho Hr].
    cbn [map r_run url_run length repeat].
    pose proof (url_step_refines k st o ws) as R. destruct (url_step_no_fault k st o Ho) as [b Hb].
    destruct (url_step k st o) as [st1 out]. cbn [snd] in Hb. subst out.
    destruct R as [ws1 [E1 O1]]. rewrite E1.
    destruct (IH st1 ws1 Hr) as [ws2 [E2 O2]]. rewrite E2.
    destruct (url_run k st1 r) as [st2 outs]. cbn [fst snd outs_bytes] in *.
    exists ws2. split; [reflexivity|]. rewrite O2, O1, <- app_assoc. reflexivity.
Qed.

Lemma rop_of_item q i : rop (mkA q false) (uop_of_item i) = op_of q i.
Proof.
  destruct i as [t|s]; cbn [uop_of_item rop op_of a_set]; [reflexivity|].
  rewrite shown_text_untrusted. unfold ctx_byte, attr_ctx. cbn [a_quoted a_set]. destruct q; reflexivity.
Qed.

Lemma uop_ok_of_item i : uop_ok (uop_of_item i) = item_ok i.
Proof. destruct i as [[|c t]|s]; reflexivity. Qed.

(* the attribute value of C07 (attr_out, on which C07_url_partial is stated) is the one of url_run *)
Theorem url_attr_out_agrees q items :
  forallb item_ok items = true ->
  url_attr_out (mkA q false) (map uop_of_item items) = attr_out q items.
Proof.
  intros Hok.
  assert (Hok' : forallb uop_ok (map uop_of_item items) = true).
  { rewrite forallb_forall in *. intros o Ho. apply in_map_iff in Ho. destruct Ho as [i [<- Hi]].
    rewrite uop_ok_of_item. apply Hok, Hi. }
  destruct (url_run_refines (mkA q false) (map uop_of_item items) u0 w0 Hok') as [ws' [E O]].
  rewrite map_map in E. rewrite (map_ext _ (op_of q) (rop_of_item q)) in E. fold (attr_ops q items) in E.
  change (lift u0) with (url_switch r0 true) in E.
  pose proof (r_run_items q items r0 w0 Hok) as R.
  assert (Sw : r_run never (url_switch r0 true) w0 (attr_ops q items) = r_run never r0 w0 (attr_ops q items) \/ True) by (right; exact I).
  clear Sw.
  unfold url_attr_out, attr_out. unfold out_of in O. cbn [w0 w_out concat app] in O. rewrite <- O.
  (* r0 and its switched form give the same chunks: every operation of the attribute switches first *)
  assert (Hsw : forall ops st ws, (forall o, In o ops -> match o with OText _ u _ => u = true | OShow c _ => exists x s, decode_ctx c = Some (x, true, s) end) ->
            snd (fst (r_run never (url_switch st true) ws ops)) = snd (fst (r_run never st ws ops))).
  { intros ops. destruct ops as [|o r]; intros st ws Hu; [reflexivity|].
    cbn [r_run]. assert (E0 : r_op never (url_switch st true) ws o = r_op never st ws o).
    { specialize (Hu o (or_introl eq_refl)). destruct o as [t u s0|c v]; cbn [r_op].
      - subst u. unfold r_text. rewrite switch_idem. reflexivity.
      - destruct Hu as [x [s0 Hd]]. unfold r_show. rewrite Hd, switch_idem. reflexivity. }
    rewrite E0. reflexivity. }
  assert (Hu : forall o, In o (attr_ops q items) -> match o with OText _ u _ => u = true | OShow c _ => exists x s, decode_ctx c = Some (x, true, s) end).
  { intros o Ho. unfold attr_ops in Ho. apply in_map_iff in Ho. destruct Ho as [i [<- _]].
    destruct i as [t|s]; cbn [op_of]; [reflexivity|]. rewrite decode_attr_ctx. eexists. eexists. reflexivity. }
  pose proof (Hsw (attr_ops q items) r0 w0 Hu) as S1. rewrite E, R in S1. cbn [fst snd] in S1.
  rewrite S1. unfold add_chunks. cbn [w_out w0 app]. reflexivity.
Qed.
