(* Proofs about the runtime template calculus: a failing writer stops the
   rendering at the failing call (C13). *)
From Verif Require Import Bytes Facts_render RendererM Renderer_proofs TCalcM.
Open Scope N_scope.

(* the writer fails for the first time at its k-th call, with e *)
Definition first_fail (w : writer) (k : N) (e : werr) : Prop :=
  w k = Some e /\ forall j, j < k -> w j = None.

(* one chunk per accepted call so far *)
Definition wf (ws : wst) : Prop := nlen (w_out ws) = w_calls ws.

Lemma wf_w0 : wf w0.
Proof. reflexivity. Qed.

(* a run with the writer w against the same run with the writer that never
   fails: either the failing call is not reached and they coincide, or the run
   with w stops right after its k-th call having written the first k-1 chunks *)
Definition Spec {S O : Type} (k : N) (isfail : O -> Prop) (xw xok : S * wst * O) : Prop :=
  (w_calls (snd (fst xok)) < k /\ xw = xok) \/
  (k <= w_calls (snd (fst xok)) /\ w_calls (snd (fst xw)) = k /\
   w_out (snd (fst xw)) = firstn (N.to_nat (k - 1)) (w_out (snd (fst xok))) /\ isfail (snd xw)).

(* what a run with the never failing writer preserves *)
Definition Mono (ws0 ws1 : wst) : Prop :=
  wf ws1 /\ exists l, w_out ws1 = w_out ws0 ++ l.

Lemma Mono_refl ws : wf ws -> Mono ws ws.
Proof. intros H. split; [exact H|]. exists []. rewrite app_nil_r. reflexivity. Qed.

Lemma Mono_trans a b c : Mono a b -> Mono b c -> Mono a c.
Proof.
  intros [_ [l1 H1]] [W [l2 H2]]. split; [exact W|]. exists (l1 ++ l2). rewrite H2, H1, app_assoc. reflexivity.
Qed.

Lemma Mono_calls a b : wf a -> Mono a b -> w_calls a <= w_calls b.
Proof.
  unfold wf. intros Wa [Wb [l H]]. unfold wf in Wb. rewrite <- Wa, <- Wb, H, nlen_app. lia.
Qed.

Lemma firstn_prefix {A} (a l : list A) n : (n <= length a)%nat -> firstn n (a ++ l) = firstn n a.
Proof.
  intros H. rewrite firstn_app. replace (n - length a)%nat with 0%nat by lia. simpl. apply app_nil_r.
Qed.

Lemma firstn_all_app {A} (a l : list A) : firstn (length a) (a ++ l) = a.
Proof. rewrite firstn_app, Nat.sub_diag, firstn_all. simpl. apply app_nil_r. Qed.

Lemma wf_len ws : wf ws -> length (w_out ws) = N.to_nat (w_calls ws).
Proof. unfold wf. rewrite nlen_eq. intros H. rewrite <- H. rewrite Nat2N.id. reflexivity. Qed.

(* ---------------------------------------------------------------- one Write call *)

Lemma wr_never ws c : wr never ws c = (mkW (w_calls ws + 1) (w_out ws ++ [c]), None).
Proof. reflexivity. Qed.

Lemma wr_never_mono ws c : wf ws -> Mono ws (fst (wr never ws c)).
Proof.
  intros W. rewrite wr_never. simpl. split.
  - unfold wf in *. simpl. rewrite nlen_app, W, nlen_cons, nlen_nil. lia.
  - eexists. reflexivity.
Qed.

Lemma wr_cases w k e ws c :
  first_fail w k e -> w_calls ws < k ->
  (w_calls ws + 1 < k /\ wr w ws c = wr never ws c) \/
  (w_calls ws + 1 = k /\ wr w ws c = (mkW k (w_out ws), Some e)).
Proof.
  intros [Hk Hlt] Hc. destruct (N.lt_ge_cases (w_calls ws + 1) k) as [H|H].
  - left. split; [exact H|]. unfold wr. rewrite (Hlt _ H). reflexivity.
  - right. assert (E : w_calls ws + 1 = k) by lia. split; [exact E|]. unfold wr. rewrite E, Hk. reflexivity.
Qed.

(* the failing branch of Spec for a write that fails at k while the other run goes on *)
Lemma spec_fail_here {S O} (isfail : O -> Prop) k (s : S) (o : O) ws (xok : S * wst * O) :
  wf ws -> w_calls ws + 1 = k -> Mono (mkW (w_calls ws + 1) (w_out ws ++ [[]])) (snd (fst xok)) \/ True ->
  (exists l, w_out (snd (fst xok)) = w_out ws ++ l) -> k <= w_calls (snd (fst xok)) -> isfail o ->
  Spec k isfail (s, mkW k (w_out ws), o) xok.
Proof.
  intros W E _ [l Hl] Hk Hf. right. simpl. repeat split; try assumption.
  rewrite Hl. replace (N.to_nat (k - 1)) with (length (w_out ws)).
  - symmetry. apply firstn_all_app.
  - rewrite (wf_len _ W). lia.
Qed.

Definition is_err (e : werr) (r : res) : Prop := r = RErr e.

Section Fail.
  Variables (w : writer) (k : N) (e : werr).
  Hypothesis FF : first_fail w k e.

  (* a single Write whose result selects between two continuations *)
  Lemma leaf1 {S} (s1 s2 : S) ws c :
    wf ws -> w_calls ws < k ->
    Spec k (is_err e)
      (match wr w ws c with (ws', None) => (s1, ws', ROk) | (ws', Some e0) => (s2, ws', RErr e0) end)
      (match wr never ws c with (ws', None) => (s1, ws', ROk) | (ws', Some e0) => (s2, ws', RErr e0) end)
    /\ Mono ws (snd (fst (match wr never ws c with (ws', None) => (s1, ws', ROk) | (ws', Some e0) => (s2, ws', RErr e0) end))).
  Proof.
    intros W Hc. split.
    - destruct (wr_cases w k e ws c FF Hc) as [[Hlt ->]|[Hk ->]].
      + left. rewrite wr_never. simpl. split; [lia|reflexivity].
      + right. rewrite wr_never. simpl. repeat split; try lia; try reflexivity.
        replace (N.to_nat (k - 1)) with (length (w_out ws)) by (rewrite (wf_len _ W); lia).
        symmetry. apply firstn_all_app.
    - rewrite wr_never. simpl. apply (wr_never_mono ws c W).
  Qed.

  Lemma run_script_spec sc : forall ws,
    wf ws -> w_calls ws < k ->
    Spec k (is_err e) (tt, fst (run_script w ws sc), snd (run_script w ws sc))
                      (tt, fst (run_script never ws sc), snd (run_script never ws sc))
    /\ Mono ws (fst (run_script never ws sc)).
  Proof.
    induction sc as [|a sc IH]; intros ws W Hc.
    - simpl. split; [left; split; [exact Hc|reflexivity]|apply Mono_refl, W].
    - destruct a as [c|].
      + cbn [run_script]. pose proof (wr_never_mono ws c W) as M1. rewrite wr_never in M1 |- *. simpl in M1.
        set (ws1 := mkW (w_calls ws + 1) (w_out ws ++ [c])) in *.
        assert (W1 : wf ws1) by apply M1.
        destruct (wr_cases w k e ws c FF Hc) as [[Hlt ->]|[Hk ->]].
        * rewrite wr_never. fold ws1. destruct (IH ws1 W1 Hlt) as [S1 M2].
          split; [exact S1|]. eapply Mono_trans; eassumption.
        * assert (Hc1 : w_calls ws1 < k + 1) by (simpl; lia).
          (* the other run goes on from ws1 *)
          assert (M2 : Mono ws1 (fst (run_script never ws1 sc))).
          { clear -W1. revert W1. generalize ws1. clear ws1. induction sc as [|a sc IH2]; intros ws1 W1; cbn [run_script].
            - apply Mono_refl, W1.
            - destruct a as [c0|]; [|apply Mono_refl, W1]. cbn [run_script]. rewrite wr_never.
              eapply Mono_trans; [|apply IH2; apply (wr_never_mono ws1 c0 W1)].
              pose proof (wr_never_mono ws1 c0 W1) as M. rewrite wr_never in M. exact M. }
          split; [|eapply Mono_trans; eassumption].
          right. simpl. pose proof (Mono_calls _ _ W1 M2) as Hle. simpl in Hle.
          destruct M2 as [_ [l Hl]]. simpl in Hl.
          repeat split; try lia; try reflexivity.
          rewrite Hl, <- app_assoc.
          replace (N.to_nat (k - 1)) with (length (w_out ws)) by (rewrite (wf_len _ W); lia).
          symmetry. apply firstn_all_app.
      + simpl. split; [left; split; [exact Hc|reflexivity]|apply Mono_refl, W].
  Qed.
End Fail.

Section Fail2.
  Variables (w : writer) (k : N) (e : werr).
  Hypothesis FF : first_fail w k e.

  Lemma run_script_never_mono sc ws : wf ws -> Mono ws (fst (run_script never ws sc)).
  Proof.
    intros W. destruct (N.lt_ge_cases (w_calls ws) (w_calls ws + 1)) as [H|H]; [|lia].
    assert (F : first_fail (fun j => if j =? w_calls ws + 1 then Some 0 else None) (w_calls ws + 1) 0).
    { split; [rewrite N.eqb_refl; reflexivity|]. intros j Hj. destruct (N.eqb_spec j (w_calls ws + 1)); [lia|reflexivity]. }
    apply (run_script_spec _ _ _ F sc ws W H).
  Qed.

  Lemma r_text_spec st ws txt u s :
    wf ws -> w_calls ws < k ->
    Spec k (is_err e) (r_text w st ws txt u s) (r_text never st ws txt u s)
    /\ Mono ws (snd (fst (r_text never st ws txt u s))).
  Proof.
    intros W Hc. unfold r_text.
    destruct u; [|apply leaf1; assumption].
    destruct (s && mem txt 44); [apply leaf1; assumption|].
    destruct (query (url_switch st true)); [|apply leaf1; assumption].
    set (t1 := if remQ (url_switch st true) then _ else _).
    destruct t1 as [t|]; [|split; [left; split; [exact Hc|reflexivity]|apply Mono_refl, W]].
    match goal with |- context [if ?b then wr w ws amp_entity else _] => destruct b end.
    - (* the amp reference is written first *)
      destruct (wr_cases w k e ws amp_entity FF Hc) as [[Hlt ->]|[Hk ->]].
      + rewrite wr_never. cbn iota beta.
        pose proof (wr_never_mono ws amp_entity W) as M1. rewrite wr_never in M1. simpl in M1.
        set (ws1 := mkW (w_calls ws + 1) (w_out ws ++ [amp_entity])) in *.
        destruct (leaf1 w k e FF (mkR (inURL (url_switch st true)) true false false)
                         (mkR (inURL (url_switch st true)) true false false) ws1 t (proj1 M1) Hlt) as [S1 M2].
        split; [exact S1|]. eapply Mono_trans; eassumption.
      + rewrite wr_never. cbn iota beta.
        pose proof (wr_never_mono ws amp_entity W) as M1. rewrite wr_never in M1. simpl in M1.
        set (ws1 := mkW (w_calls ws + 1) (w_out ws ++ [amp_entity])) in *.
        rewrite wr_never. cbn iota beta.
        pose proof (wr_never_mono ws1 t (proj1 M1)) as M2. rewrite wr_never in M2. simpl in M2.
        split; [|eapply Mono_trans; eassumption].
        right. simpl. repeat split; try lia; try reflexivity.
        rewrite <- app_assoc.
        replace (N.to_nat (k - 1)) with (length (w_out ws)) by (rewrite (wf_len _ W); lia).
        symmetry. apply firstn_all_app.
    - apply leaf1; assumption.
  Qed.

  Lemma r_show_spec st ws c v :
    wf ws -> w_calls ws < k ->
    Spec k (is_err e) (r_show w st ws c v) (r_show never st ws c v)
    /\ Mono ws (snd (fst (r_show never st ws c v))).
  Proof.
    intros W Hc. unfold r_show.
    assert (Triv : forall (x : rstate * wst * res), snd (fst x) = ws ->
              Spec k (is_err e) x x /\ Mono ws (snd (fst x))).
    { intros [[a b] r] E. simpl in E. subst b. split; [left; split; [exact Hc|reflexivity]|apply Mono_refl, W]. }
    destruct (decode_ctx c) as [[[ctx u] s]|]; [|apply Triv; reflexivity].
    destruct u.
    - destruct (sv_url v) as [s'|]; [|apply Triv; reflexivity].
      destruct (r_show_url (url_switch st true) s' (ctx =? gen_ContextQuotedAttr)) as [st' sc].
      destruct (run_script_spec w k e FF sc ws W Hc) as [S1 M1].
      destruct (run_script w ws sc) as [wsa ra]. destruct (run_script never ws sc) as [wsb rb].
      simpl in *. split; [|exact M1].
      destruct S1 as [[H1 H2]|[H1 [H2 [H3 H4]]]]; simpl in *.
      + left. split; [exact H1|]. congruence.
      + right. simpl. repeat split; assumption.
    - destruct (mem gen_show_known_ctx ctx); [|apply Triv; reflexivity].
      destruct (run_script_spec w k e FF (map AWrite (sv_chunks v)) ws W Hc) as [S1 M1].
      destruct (run_script w ws (map AWrite (sv_chunks v))) as [wsa ra].
      destruct (run_script never ws (map AWrite (sv_chunks v))) as [wsb rb].
      simpl in *.
      destruct S1 as [[H1 H2]|[H1 [H2 [H3 H4]]]]; simpl in *.
      + injection H2 as -> ->. split.
        * left. split; [destruct rb; exact H1|reflexivity].
        * destruct rb; exact M1.
      + unfold is_err in H4. subst ra. split.
        * right. destruct rb; simpl; repeat split; try assumption; reflexivity.
        * destruct rb; exact M1.
  Qed.
End Fail2.

(* ---------------------------------------------------------------- induction over the tree *)

Section TnodeInd.
  Variable P : tnode -> Prop.
  Hypothesis HText : forall txt u s, P (TText txt u s).
  Hypothesis HShow : forall c v, P (TShow c v).
  Hypothesis HCall : forall fmt rec body b, Forall P body -> P (TCall (TFunc fmt rec body) b).
  Hypothesis HCallShow : forall fmt rec body c ty nat, Forall P body -> P (TCallShow (TFunc fmt rec body) c ty nat).

  Fixpoint tnode_ind' (n : tnode) : P n :=
    match n with
    | TText txt u s => HText txt u s
    | TShow c v => HShow c v
    | TCall (TFunc fmt rec body) b =>
      HCall fmt rec body b
        ((fix go (l : list tnode) : Forall P l :=
            match l with [] => Forall_nil P | x :: r => Forall_cons x (tnode_ind' x) (go r) end) body)
    | TCallShow (TFunc fmt rec body) c ty nat =>
      HCallShow fmt rec body c ty nat
        ((fix go (l : list tnode) : Forall P l :=
            match l with [] => Forall_nil P | x :: r => Forall_cons x (tnode_ind' x) (go r) end) body)
    end.
End TnodeInd.

Definition is_fail (cf : bool) (e : werr) (o : outcome) : Prop :=
  o = Panic e \/ (cf = true /\ o = Fatal (Some e)).

Lemma first_fail_next (n : N) : first_fail (fun j => if j =? n + 1 then Some 0 else None) (n + 1) 0.
Proof.
  split; [rewrite N.eqb_refl; reflexivity|]. intros j Hj. destruct (N.eqb_spec j (n + 1)); [lia|reflexivity].
Qed.

Section ExecSpec.
  Variable showf : N -> N -> bytes -> shown.
  Variable conv : option (bytes -> list bytes).
  Variable cf : bool.

  Notation xnode := (exec_node showf conv cf).
  Notation xlist := (exec_list showf conv cf).

  Definition node_ok (n : tnode) : Prop :=
    norec_node n = true -> forall w k e, first_fail w k e -> forall st ws, wf ws -> w_calls ws < k ->
    Spec k (is_fail cf e) (xnode w st ws n) (xnode never st ws n)
    /\ Mono ws (snd (fst (xnode never st ws n))).

  Definition list_spec (body : list tnode) : Prop :=
    forall w k e, first_fail w k e -> forall st ws, wf ws -> w_calls ws < k ->
    Spec k (is_fail cf e) (xlist w st ws body) (xlist never st ws body)
    /\ Mono ws (snd (fst (xlist never st ws body))).

  Lemma list_mono body : list_spec body -> forall st ws, wf ws -> Mono ws (snd (fst (xlist never st ws body))).
  Proof.
    intros H st ws W. apply (H _ _ _ (first_fail_next (w_calls ws)) st ws W). lia.
  Qed.

  Lemma Triv {S O} (isf : O -> Prop) k (x : S * wst * O) ws :
    wf ws -> w_calls ws < k -> snd (fst x) = ws -> Spec k isf x x /\ Mono ws (snd (fst x)).
  Proof.
    intros W Hc E. destruct x as [[a b] r]. simpl in E. subst b.
    split; [left; split; [exact Hc|reflexivity]|apply Mono_refl, W].
  Qed.

  (* from the renderer result to the outcome *)
  Lemma of_res_spec k e (xw xok : rstate * wst * res) ws :
    Spec k (is_err e) xw xok /\ Mono ws (snd (fst xok)) ->
    Spec k (is_fail cf e) (let '(a, b, r) := xw in (a, b, of_res r)) (let '(a, b, r) := xok in (a, b, of_res r))
    /\ Mono ws (snd (fst (let '(a, b, r) := xok in (a, b, of_res r)))).
  Proof.
    destruct xw as [[a1 b1] r1], xok as [[a2 b2] r2]. simpl. intros [[[H1 H2]|[H1 [H2 [H3 H4]]]] M]; simpl in *.
    - split; [left; simpl; split; [exact H1|congruence]|exact M].
    - split; [right; simpl; repeat split; try assumption|exact M].
      unfold is_err in H4. subst r1. left. reflexivity.
  Qed.

  (* the run that failed keeps its result whatever the other run does afterwards *)
  Lemma spec_extend {S O} k (isf : O -> Prop) (xw : S * wst * O) (s1 s2 : S) (o1 o2 : O) wsb wsc :
    wf wsb -> Mono wsb wsc ->
    Spec k isf xw (s1, wsb, o1) -> k <= w_calls wsb -> Spec k isf xw (s2, wsc, o2).
  Proof.
    intros W M [[H1 _]|[H1 [H2 [H3 H4]]]] Hk; simpl in *; [lia|].
    right. simpl. pose proof (Mono_calls _ _ W M) as Hle. destruct M as [_ [l Hl]].
    repeat split; try assumption; try lia.
    rewrite H3, Hl. symmetry. apply firstn_prefix. rewrite (wf_len _ W). lia.
  Qed.

  Lemma list_ok body : Forall node_ok body -> forallb norec_node body = true -> list_spec body.
  Proof.
    induction 1 as [|x r Hx Hr IH]; intros NR w k e FF st ws W Hc.
    - simpl. apply Triv; auto.
    - simpl in NR. apply andb_prop in NR. destruct NR as [NRx NRr].
      cbn [exec_list]. destruct (Hx NRx w k e FF st ws W Hc) as [S1 M1].
      destruct (xnode w st ws x) as [[sta wsa] oa]. destruct (xnode never st ws x) as [[stb wsb] ob].
      simpl in M1. destruct S1 as [[H1 H2]|[H1 [H2 [H3 H4]]]]; simpl in *.
      + injection H2 as -> -> ->. destruct ob.
        * destruct (IH NRr w k e FF stb wsb (proj1 M1) H1) as [S2 M2]. split; [exact S2|eapply Mono_trans; eassumption].
        * split; [left; split; [exact H1|reflexivity]|exact M1].
        * split; [left; split; [exact H1|reflexivity]|exact M1].
        * split; [left; split; [exact H1|reflexivity]|exact M1].
      + (* the run with w failed inside x; the other run may go on *)
        assert (Sx : Spec k (is_fail cf e) (sta, wsa, oa) (stb, wsb, ob))
          by (right; simpl; repeat split; assumption).
        assert (Hoa : (let '(_, _, o) := (sta, wsa, oa) in o) <> Done)
          by (simpl; destruct H4 as [->|[_ ->]]; discriminate).
        destruct oa; [simpl in Hoa; congruence| | |].
        all: destruct ob; try (split; [exact Sx|exact M1]).
        all: pose proof (list_mono r (IH NRr) stb wsb (proj1 M1)) as M2.
        all: split; [|eapply Mono_trans; eassumption].
        all: destruct (xlist never stb wsb r) as [[stc wsc] oc]; simpl in M2.
        all: eapply spec_extend; [apply M1|exact M2|exact Sx|exact H1].
  Qed.

  (* the local fixpoint of exec_node is exec_list *)
  Lemma exec_call w st ws fmt rec body b :
    xnode w st ws (TCall (TFunc fmt rec body) b) =
    if b =? fmt then
      match xlist w st ws body with
      | (st1, ws1, Panic e) => if rec then (st1, ws1, Done) else (st1, ws1, Panic e)
      | other => other
      end
    else if (fmt =? gen_FormatMarkdown) && (b =? gen_FormatHTML) then
      match conv with
      | None => (st, ws, Fatal None)
      | Some cv =>
        match xlist never r0 w0 body with
        | (_, bws, Done) =>
          if rec then (st, ws, Done) else
          match run_script w ws (map AWrite (cv (concat (w_out bws)))) with
          | (ws1, ROk) => (st, ws1, Done)
          | (ws1, RErr e) =>
            if cf then (st, ws1, Fatal (Some e))
            else if rec then (st, ws1, Done) else (st, ws1, Panic e)
          | (ws1, RFault) => (st, ws1, Fault)
          end
        | (_, _, Panic e) => if rec then (st, ws, Done) else (st, ws, Panic e)
        | (_, _, o) => (st, ws, o)
        end
      end
    else
      match xlist w r0 ws body with
      | (_, ws1, Panic e) => if rec then (st, ws1, Done) else (st, ws1, Panic e)
      | (_, ws1, o) => (st, ws1, o)
      end.
  Proof. reflexivity. Qed.

  Lemma exec_callshow w st ws fmt rec body c ty native :
    xnode w st ws (TCallShow (TFunc fmt rec body) c ty native) =
    match xlist never r0 w0 body with
    | (_, bws, Done) =>
      let s := if rec && negb native then [] else concat (w_out bws) in
      let '(st1, ws1, r) := r_show w st ws c (showf c ty s) in (st1, ws1, of_res r)
    | (_, bws, Panic e) =>
      if rec then
        let s := if native then concat (w_out bws) else [] in
        let '(st1, ws1, r) := r_show w st ws c (showf c ty s) in (st1, ws1, of_res r)
      else if native then (st, ws, Fatal (Some e))
      else (st, ws, Panic e)
    | (_, _, o) => (st, ws, o)
    end.
  Proof. reflexivity. Qed.

  Lemma all_nodes_ok : forall n, node_ok n.
  Proof.
    apply tnode_ind'.
    - (* Text *)
      intros txt u s _ w k e FF st ws W Hc. cbn [exec_node].
      apply (of_res_spec k e). apply r_text_spec; assumption.
    - (* Show *)
      intros c v _ w k e FF st ws W Hc. cbn [exec_node].
      apply (of_res_spec k e). apply r_show_spec; assumption.
    - (* macro call *)
      intros fmt rec body b IHb NR w k e FF st ws W Hc.
      cbn [norec_node] in NR. apply andb_prop in NR. destruct NR as [NR1 NR2].
      destruct rec; [discriminate|].
      pose proof (list_ok body IHb NR2) as LS.
      rewrite !exec_call.
      destruct (b =? fmt).
      + destruct (LS w k e FF st ws W Hc) as [S1 M1].
        destruct (xlist w st ws body) as [[sa wa] oa]. destruct (xlist never st ws body) as [[sb wb] ob].
        assert (Ea : match oa with Panic e0 => (sa, wa, Panic e0) | _ => (sa, wa, oa) end = (sa, wa, oa)) by (destruct oa; reflexivity).
        assert (Eb : match ob with Panic e0 => (sb, wb, Panic e0) | _ => (sb, wb, ob) end = (sb, wb, ob)) by (destruct ob; reflexivity).
        destruct oa, ob; split; assumption.
      + destruct ((fmt =? gen_FormatMarkdown) && (b =? gen_FormatHTML)).
        * destruct (xlist never r0 w0 body) as [[sb bws] ob].
          destruct conv as [cv|]; [|apply Triv; auto].
          destruct ob; try (apply Triv; auto; fail).
          destruct (run_script_spec w k e FF (map AWrite (cv (concat (w_out bws)))) ws W Hc) as [S1 M1].
          destruct (run_script w ws (map AWrite (cv (concat (w_out bws))))) as [wa ra].
          destruct (run_script never ws (map AWrite (cv (concat (w_out bws))))) as [wb rb].
          simpl in S1, M1.
          destruct S1 as [[H1 H2]|[H1 [H2 [H3 H4]]]]; simpl in *.
          -- injection H2 as -> ->. destruct rb; try destruct cf; (split; [left; simpl; split; [exact H1|reflexivity]|exact M1]).
          -- unfold is_err in H4. subst ra.
             destruct rb; destruct cf; (split; [right; simpl; repeat split; try assumption; unfold is_fail; auto|exact M1]).
        * destruct (LS w k e FF r0 ws W Hc) as [S1 M1].
          destruct (xlist w r0 ws body) as [[sa wa] oa]. destruct (xlist never r0 ws body) as [[sb wb] ob].
          simpl in M1.
          assert (Ea : forall (o : outcome) (sx : rstate) (wx : wst),
                    match o with Panic e0 => (st, wx, Panic e0) | _ => (st, wx, o) end = (st, wx, o)) by (intros []; reflexivity).
          destruct S1 as [[H1 H2]|[H1 [H2 [H3 H4]]]]; simpl in *.
          -- injection H2 as -> -> ->. split; [left|]; destruct ob; simpl; auto.
          -- split; [right|]; destruct oa, ob; simpl; auto.
    - (* macro call taken as a value *)
      intros fmt rec body c ty native IHb NR w k e FF st ws W Hc.
      cbn [norec_node] in NR. apply andb_prop in NR. destruct NR as [NR1 NR2].
      destruct rec; [discriminate|].
      rewrite !exec_callshow.
      destruct (xlist never r0 w0 body) as [[sb bws] ob].
      destruct ob; try (apply Triv; auto; fail).
      + apply (of_res_spec k e). apply r_show_spec; assumption.
      + destruct native; apply Triv; auto.
  Qed.
End ExecSpec.

(* ---------------------------------------------------------------- Template.Run *)

Theorem write_fail_stops_gen :
  forall (showf : N -> N -> bytes -> shown) (conv : option (bytes -> list bytes)) (cf : bool)
         (main : tfunc) (w : writer) (k : N) (e : werr),
  norec_func main = true -> first_fail w k e -> 0 < k ->
  let x := run_main showf conv cf w main in
  let xok := run_main showf conv cf never main in
  (w_calls (fst xok) < k /\ x = xok) \/
  (k <= w_calls (fst xok) /\ w_calls (fst x) = k /\
   w_out (fst x) = firstn (N.to_nat (k - 1)) (w_out (fst xok)) /\
   (snd x = RunErr e \/ (cf = true /\ snd x = RunHostPanic (Some e)))).
Proof.
  intros showf conv cf [fmt rec body] w k e NR FF Hk. cbn [norec_func] in NR.
  apply andb_prop in NR. destruct NR as [NR1 NR2]. destruct rec; [discriminate|].
  assert (LS : list_spec showf conv cf body).
  { apply list_ok; [|exact NR2]. apply Forall_forall. intros n _. apply all_nodes_ok. }
  destruct (LS w k e FF r0 w0 wf_w0 Hk) as [S1 _].
  cbn [run_main].
  destruct (exec_list showf conv cf w r0 w0 body) as [[sa wa] oa].
  destruct (exec_list showf conv cf never r0 w0 body) as [[sb wb] ob].
  destruct S1 as [[H1 H2]|[H1 [H2 [H3 H4]]]]; simpl in *.
  - injection H2 as -> -> ->. left. destruct ob; simpl; auto.
  - right. destruct H4 as [->|[Hcf ->]]; destruct ob; simpl; repeat split; auto.
Qed.

(* when the converter error is raised as a fatalError, a writer failing during
   the conversion makes Run panic: the witness is an HTML file rendering a
   Markdown file, with a converter that writes once *)
Lemma conv_fatal_refutes :
  let main := TFunc gen_FormatHTML false [TCall (TFunc gen_FormatMarkdown false [TText [35; 32; 116] false false]) gen_FormatHTML] in
  let w := fun j => if j =? 1 then Some 7 else None in
  norec_func main = true /\ first_fail w 1 7 /\
  snd (run_main (fun _ _ _ => mkShown [] None None) (Some (fun s => [s])) true w main) = RunHostPanic (Some 7) /\
  snd (run_main (fun _ _ _ => mkShown [] None None) (Some (fun s => [s])) false w main) = RunErr 7.
Proof.
  cbv zeta. split; [reflexivity|]. split; [|split; vm_compute; reflexivity].
  split; [reflexivity|]. intros j Hj. destruct (N.eqb_spec j 1); [lia|reflexivity].
Qed.

(* with a recover in the template the error does not reach Run: the macro
   recovers the panic raised by the failed write and the rendering goes on *)
Lemma recover_example :
  let main := TFunc gen_FormatHTML false
                [TCall (TFunc gen_FormatHTML true [TText [97] false false; TText [98] false false]) gen_FormatHTML;
                 TText [99] false false] in
  let w := fun j => if j =? 1 then Some 7 else None in
  run_main (fun _ _ _ => mkShown [] None None) None false w main = (mkW 2 [[99]], RunNil).
Proof. vm_compute. reflexivity. Qed.

(* the generated table of the renderer switch is the one exec_node implements *)
Lemma callmacro_switch_agrees :
  forallb (fun t => match t with (b, fmt, kind) => kind =? switch_kind b fmt end) gen_callmacro_switch = true
  /\ gen_callindirect_switch_same = true /\ gen_noconv_is_fatal = true.
Proof. vm_compute. auto. Qed.

Lemma conv_error_not_fatal : gen_conv_error_is_fatal = false.
Proof. reflexivity. Qed.
