From Verif Require Import GoInt GoBits Facts_limits LimitsM.
Open Scope Z_scope.

(* ---- operand encodings ---- *)

Definition oz_eqb (a : option Z) (b : Z) : bool := match a with Some x => x =? b | None => false end.

(* int16: every value survives encodeInt16 / decodeInt16 (exhaustive, 65536 cases) *)
Definition int16_rt (v : Z) : bool :=
  match gen_c_encodeInt16 (Some v) with
  | [a; b] => match gen_c_decodeInt16 a b with [r] => oz_eqb r v | _ => false end
  | _ => false
  end.
Lemma int16_roundtrip_all : allb 65536 (-32768) int16_rt = true.
Proof. vm_compute. reflexivity. Qed.
Lemma int16_roundtrip v : in_range I16 v -> int16_rt v = true.
Proof.
  intros H. apply (allb_spec _ _ _ int16_roundtrip_all). unfold in_range, tmin, tmax in H. cbn in H. lia.
Qed.

Definition uint16_rt (v : Z) : bool :=
  match gen_c_encodeUint16 (Some v) with
  | [a; b] => match gen_c_decodeUint16 a b with [r] => oz_eqb r v | _ => false end
  | _ => false
  end.
Lemma uint16_roundtrip_all : allb 65536 0 uint16_rt = true.
Proof. vm_compute. reflexivity. Qed.
Lemma uint16_roundtrip v : in_range U16 v -> uint16_rt v = true.
Proof.
  intros H. apply (allb_spec _ _ _ uint16_roundtrip_all). unfold in_range, tmin, tmax in H. cbn in H. lia.
Qed.

(* value index: register type t in 0..3 and index i below 2^14 (exhaustive, 4 x 16384 cases) *)
Definition valueindex_rt (t i : Z) : bool :=
  match gen_c_encodeValueIndex (Some t) (Some i) with
  | [a; b] => match gen_r_decodeValueIndex a b with [t'; i'] => oz_eqb t' t && oz_eqb i' i | _ => false end
  | _ => false
  end.
Lemma valueindex_roundtrip_all : allb 4 0 (fun t => allb 16384 0 (valueindex_rt t)) = true.
Proof. vm_compute. reflexivity. Qed.
Lemma valueindex_roundtrip t i : 0 <= t < 4 -> 0 <= i < 16384 -> valueindex_rt t i = true.
Proof.
  intros Ht Hi. pose proof (allb_spec _ _ _ valueindex_roundtrip_all t ltac:(lia)) as H. cbv beta in H.
  apply (allb_spec _ _ _ H). lia.
Qed.

