(* The cuts computed by the parser's bookkeeping remove only spaces, tabs,
   carriage returns and new lines, and never more than the text: for every
   token list. *)
From Verif Require Import Bytes Utf8 Facts_lexer LexBase LexCodeM LexerM LexTables CutM LexBase_proofs.
Open Scope N_scope.

Definition blank_or_lf (c : N) : bool := is_blank c || (c =? 10).

Definition rec_ok (src : bytes) (r : trec) : Prop :=
  x_left r + x_right r <= x_len r /\
  forallb blank_or_lf (take (x_left r) (text_of src r)) = true /\
  forallb is_blank (drop (x_len r - x_right r) (text_of src r)) = true.

Lemma forallb_take {A} (f : A -> bool) n l : forallb f l = true -> forallb f (firstn n l) = true.
Proof.
  revert n; induction l as [|x l IH]; intros n H; destruct n; simpl in *; auto.
  apply andb_prop in H. destruct H as [H1 H2]. rewrite H1. simpl. apply IH, H2.
Qed.
Lemma forallb_skip {A} (f : A -> bool) n l : forallb f l = true -> forallb f (skipn n l) = true.
Proof.
  revert n; induction l as [|x l IH]; intros n H; destruct n; simpl in *; auto.
  apply andb_prop in H. destruct H as [H1 H2]. apply IH, H2.
Qed.
Lemma blank_is_bol l : forallb is_blank l = true -> forallb blank_or_lf l = true.
Proof.
  induction l as [|x l IH]; simpl; auto. intros H. apply andb_prop in H. destruct H as [H1 H2].
  unfold blank_or_lf. rewrite H1. simpl. apply IH, H2.
Qed.

(* second loop of cutSpaces *)
Lemma last_cut_spec txt i n k :
  last_cut txt i n = Some k ->
  forallb blank_or_lf (take (k - i) txt) = true /\ (k = n \/ (i < k /\ k <= i + nlen txt)).
Proof.
  revert i; induction txt as [|c r IH]; intros i; simpl.
  - intros H; injection H as <-. split; [unfold take; destruct (N.to_nat (n - i)); reflexivity|left; reflexivity].
  - destruct (N.eqb_spec c 10) as [->|Hc].
    + intros H; injection H as <-. replace (i + 1 - i) with 1 by lia. split; [reflexivity|right; rewrite nlen_cons; lia].
    + destruct (is_blank c) eqn:Eb; [|discriminate]. intros H. destruct (IH _ H) as [H1 H2]. split.
      * destruct H2 as [->|[H2 H3]].
        { (* no new line: everything is blank *)
          assert (Hall : forall t j, last_cut t j n = Some n -> j <= n \/ True -> True) by auto.
          destruct (N.le_gt_cases n i) as [Hle|Hgt].
          - replace (n - i) with 0 by lia. reflexivity.
          - unfold take in *. replace (N.to_nat (n - i)) with (S (N.to_nat (n - (i + 1)))) by lia. simpl.
            unfold blank_or_lf at 1. rewrite Eb. simpl. exact H1. }
        { unfold take in *. replace (N.to_nat (k - i)) with (S (N.to_nat (k - (i + 1)))) by lia. simpl.
          unfold blank_or_lf at 1. rewrite Eb. simpl. exact H1. }
      * destruct H2 as [->|[H2 H3]]; [left; reflexivity|right; rewrite nlen_cons; lia].
Qed.

(* first loop of cutSpaces, on the reversed text *)
Lemma first_cut_spec rtxt n k :
  first_cut rtxt n = Some k -> k <= n /\ forallb is_blank (firstn (N.to_nat (n - k)) rtxt) = true.
Proof.
  revert n; induction rtxt as [|c r IH]; intros n; simpl.
  - intros H; injection H as <-. split; [lia|destruct (N.to_nat (n - 0)); reflexivity].
  - destruct (N.eqb_spec c 10) as [->|Hc].
    + intros H; injection H as <-. split; [lia|]. rewrite N.sub_diag. reflexivity.
    + destruct (is_blank c) eqn:Eb; [|discriminate]. intros H. destruct (IH _ H) as [H1 H2]. split; [lia|].
      destruct (N.eq_dec n 0) as [->|Hn].
      * simpl. reflexivity.
      * replace (N.to_nat (n - k)) with (S (N.to_nat (n - 1 - k))) by lia. simpl. rewrite Eb. exact H2.
Qed.

Lemma drop_rev_blank (txt : bytes) j :
  forallb is_blank (firstn j (rev txt)) = true -> forallb is_blank (skipn (length txt - j) txt) = true.
Proof.
  intros H. rewrite <- (rev_involutive txt) at 2. rewrite <- (firstn_skipn j (rev txt)) at 1.
  rewrite rev_app_distr.
  assert (Hl : (length txt - j = length (rev (skipn j (rev txt))))%nat) by (rewrite rev_length, skipn_length, rev_length; reflexivity).
  rewrite Hl, skipn_app, skipn_all, Nat.sub_diag. simpl.
  rewrite forallb_forall in *. intros x Hx. apply H. apply in_rev. exact Hx.
Qed.

Lemma text_of_len src r : nlen (text_of src r) <= x_len r.
Proof. unfold text_of, take. rewrite nlen_eq, firstn_length. lia. Qed.

Lemma upd_Forall {A} (P : A -> Prop) l i f :
  Forall P l -> (forall x, nth_error l i = Some x -> P x -> P (f x)) -> Forall P (upd l i f).
Proof.
  revert i; induction l as [|x l IH]; intros i H Hf; simpl; [destruct i; constructor|].
  inversion H; subst. destruct i; constructor; auto.
  all: try (apply Hf; [reflexivity|assumption]).
  all: try (apply IH; [assumption|]; intros y Hy; apply Hf; exact Hy).
Qed.
Lemma skipn_add {A} (a b : nat) (l : list A) : skipn a (skipn b l) = skipn (b + a) l.
Proof.
  revert l; induction b as [|b IH]; intros l; [reflexivity|]. destruct l; simpl; [destruct a; reflexivity|apply IH].
Qed.
Lemma upd_length {A} (l : list A) i f : length (upd l i f) = length l.
Proof. revert i; induction l; intros i; destruct i; simpl; auto. Qed.
Lemma upd_nth_other {A} (l : list A) i j f : i <> j -> nth_error (upd l i f) j = nth_error l j.
Proof. revert i j; induction l; intros i j H; destruct i, j; simpl; auto; congruence. Qed.

(* cutSpaces keeps the records well formed when the last text is still uncut *)
Lemma cut_spaces_ok src texts first last :
  Forall (rec_ok src) texts ->
  (forall j r, last = Some j -> nth_error texts j = Some r -> x_left r = 0 /\ x_right r = 0) ->
  (forall i j, first = Some i -> last = Some j -> i <> j) ->
  Forall (rec_ok src) (cut_spaces src texts first last).
Proof.
  intros Hall Hlast Hne. unfold cut_spaces.
  set (fc := match first with Some i => _ | None => _ end).
  destruct fc as [fk|] eqn:Efc; [|exact Hall].
  set (lc := match last with Some j => _ | None => _ end).
  destruct lc as [lk|] eqn:Elc; [|exact Hall].
  (* the update of the last text *)
  assert (H1 : Forall (rec_ok src)
            match last, lk with
            | Some j, Some k => upd texts j (fun r => mkT (x_start r) (x_len r) k (x_right r))
            | _, _ => texts end).
  { destruct last as [j|]; [|exact Hall]. destruct lk as [k|]; [|exact Hall].
    apply upd_Forall; [exact Hall|]. intros r Hr (Ha & Hb & Hc).
    unfold lc in Elc. rewrite Hr in Elc. destruct (last_cut (text_of src r) 0 (x_len r)) as [k'|] eqn:Ek; [|discriminate].
    assert (k' = k) by congruence. subst k'. clear Elc. destruct (Hlast j r eq_refl Hr) as [Hl0 Hr0].
    destruct (last_cut_spec _ _ _ _ Ek) as [Hs1 Hs2]. rewrite N.sub_0_r in Hs1.
    pose proof (text_of_len src r). unfold rec_ok. cbn. split; [|split].
    - rewrite Hr0. destruct Hs2 as [->|[_ Hs2]]; lia.
    - exact Hs1.
    - exact Hc. }
  destruct first as [i|]; [|exact H1]. destruct fk as [k|]; [|exact H1].
  apply upd_Forall; [exact H1|]. intros r Hr (Ha & Hb & Hc).
  (* r is the record at i, which is the original one *)
  assert (Hr0 : nth_error texts i = Some r).
  { destruct last as [j|]; [|exact Hr]. destruct lk; [|exact Hr].
    rewrite upd_nth_other in Hr; [exact Hr|]. intros E. apply (Hne i j eq_refl eq_refl). congruence. }
  unfold fc in Efc. rewrite Hr0 in Efc.
  destruct (first_cut (rev (text_of src r)) (x_len r)) as [k'|] eqn:Ek; [|discriminate].
  assert (k' = k) by congruence. subst k'. clear Efc. destruct (first_cut_spec _ _ _ Ek) as [Hk1 Hk2].
  unfold rec_ok. cbn. split; [lia|]. split; [exact Hb|].
  (* the right region lies inside the blank tail *)
  apply drop_rev_blank in Hk2.
  set (m := N.min (x_len r - k) (x_len r - x_left r)).
  pose proof (text_of_len src r) as Hlen. rewrite nlen_eq in Hlen.
  unfold drop. 
  replace (N.to_nat (x_len r - m)) with ((length (text_of src r) - N.to_nat (x_len r - k)) + (N.to_nat (x_len r - m) - (length (text_of src r) - N.to_nat (x_len r - k))))%nat by (unfold m; lia).
  rewrite <- skipn_add. apply forallb_skip. exact Hk2.
Qed.

Lemma cut_spaces_length src texts first last : length (cut_spaces src texts first last) = length texts.
Proof.
  unfold cut_spaces.
  repeat match goal with
  | |- context [match ?x with _ => _ end] => destruct x
  end; rewrite ?upd_length; reflexivity.
Qed.

Lemma fresh_ok src a n : rec_ok src (mkT a n 0 0).
Proof.
  unfold rec_ok. cbn. split; [lia|]. split; [reflexivity|].
  rewrite N.sub_0_r. unfold drop. rewrite skipn_all2; [reflexivity|].
  pose proof (text_of_len src (mkT a n 0 0)) as H. cbn in H. rewrite nlen_eq in H. lia.
Qed.

Definition walk_inv (src : bytes) (s : cstate) : Prop :=
  Forall (rec_ok src) (k_texts s) /\ (forall i, k_first s = Some i -> (i < length (k_texts s))%nat).

Lemma cut_walk_ok src fuel : forall toks s, walk_inv src s -> Forall (rec_ok src) (cut_walk fuel src toks s).
Proof.
  induction fuel as [|f IH]; intros toks s [Hall Hfirst]; [exact Hall|].
  simpl. destruct toks as [|t rest]; [exact Hall|].
  destruct (t_typ t =? gen_tokenEOF); [exact Hall|].
  set (istext := t_typ t =? gen_tokenText).
  set (texts0 := if istext then k_texts s ++ [mkT (t_start t) (t_len t) 0 0] else k_texts s).
  set (tidx := if istext then Some (length (k_texts s)) else None).
  assert (H0 : Forall (rec_ok src) texts0).
  { unfold texts0. destruct istext; [|exact Hall]. apply Forall_app. split; [exact Hall|]. constructor; [apply fresh_ok|constructor]. }
  assert (Hlen0 : (length (k_texts s) <= length texts0)%nat).
  { unfold texts0. destruct istext; [rewrite app_length; simpl; lia|lia]. }
  assert (Htidx : forall j, tidx = Some j -> (j < length texts0)%nat /\ nth_error texts0 j = Some (mkT (t_start t) (t_len t) 0 0) /\ j = length (k_texts s)).
  { unfold tidx, texts0. destruct istext; [|discriminate]. intros j Hj. injection Hj as <-.
    rewrite app_length. simpl. split; [lia|]. split; [|reflexivity]. rewrite nth_error_app2, Nat.sub_diag; [reflexivity|lia]. }
  set (s1 := if (k_line s <? t_lin t) || (t_end t + 1 =? nlen src)
             then mkCS (t_lin t) tidx 0 false (if k_cst s && (k_ntl s =? 1) then cut_spaces src texts0 (k_first s) tidx else texts0)
             else mkCS (k_line s) (k_first s) (k_ntl s) (k_cst s) texts0).
  assert (Hs1 : walk_inv src s1).
  { unfold s1. destruct ((k_line s <? t_lin t) || (t_end t + 1 =? nlen src)).
    - split; cbn.
      + destruct (k_cst s && (k_ntl s =? 1)); [|exact H0]. apply cut_spaces_ok; [exact H0| |].
        * intros j r Hj Hr. destruct (Htidx j Hj) as (_ & Hn & _). rewrite Hn in Hr. injection Hr as <-. split; reflexivity.
        * intros i j Hi Hj. destruct (Htidx j Hj) as (_ & _ & ->). specialize (Hfirst i Hi). lia.
      + intros i Hi. destruct (Htidx i Hi) as (Hlt & _).
        destruct (k_cst s && (k_ntl s =? 1)); [rewrite cut_spaces_length|]; exact Hlt.
    - split; cbn; [exact H0|]. intros i Hi. specialize (Hfirst i Hi). lia. }
  assert (Hs1' : forall n c, walk_inv src (mkCS (k_line s1) (k_first s1) n c (k_texts s1))) by (intros; exact Hs1).
  clearbody s1.
  destruct istext; [apply IH; exact Hs1|].
  repeat match goal with
  | |- context [if ?b then _ else _] => destruct b
  | |- context [let '(_, _) := ?x in _] => destruct x
  end; apply IH; auto.
Qed.

(* every text record computed for a token list: the cuts fit in the text and
   remove only spaces, tabs, carriage returns and new lines *)
Theorem cut_texts_ok src toks : Forall (rec_ok src) (cut_texts src toks).
Proof.
  unfold cut_texts. apply cut_walk_ok. split; [constructor|discriminate].
Qed.

