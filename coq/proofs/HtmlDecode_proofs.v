From Verif Require Import Bytes Utf8 HtmlDecode.
Open Scope N_scope.

Lemma hrun_app st a b :
  hrun st (a ++ b) = let '(st1, o1) := hrun st a in let '(st2, o2) := hrun st1 b in (st2, o1 ++ o2).
Proof.
  revert st; induction a as [|c a IH]; intros st; cbn [app hrun].
  - destruct (hrun st b). reflexivity.
  - destruct (hstep st c) as [st1 o1]. rewrite IH.
    destruct (hrun st1 a) as [st2 o2]. destruct (hrun st2 b) as [st3 o3].
    rewrite app_assoc. reflexivity.
Qed.

(* a byte other than '&' passes through the data state *)
Lemma hstep_data_plain c : c <> 38 -> hstep HData c = (HData, [c]).
Proof. intros H. cbn [hstep]. unfold data_step. destruct (N.eqb_spec c 38); [contradiction|reflexivity]. Qed.

(* a decoder run over blocks each of which decodes, from the data state, to
   one byte and returns to the data state *)
Definition block_ok (f : N -> bytes) : Prop := forall c, hrun HData (f c) = (HData, [c]).

Lemma hrun_blocks f s : block_ok f -> hrun HData (flat_map f s) = (HData, s).
Proof.
  intros Hf. induction s as [|c r IH]; cbn [flat_map]; [reflexivity|].
  rewrite hrun_app, Hf, IH. reflexivity.
Qed.

Lemma html_decode_blocks f s rest :
  block_ok f -> html_decode (flat_map f s ++ rest) = s ++ html_decode rest.
Proof.
  intros Hf. unfold html_decode. rewrite hrun_app, (hrun_blocks f s Hf).
  destruct (hrun HData rest) as [st o]. rewrite app_assoc. reflexivity.
Qed.
