(* C27 over the primary-expression grammar: induction principle for the nested
   expression type, the tree that the parser builds from a printed form
   (norm), its right spine, and the fuel measures. *)
From Coq Require Import List NArith Bool Lia Arith.
From Verif Require Import Bytes ExprFullM ExprFullOk.
Import ListNotations.
Open Scope N_scope.

(* ---- induction over expressions with their nested lists ---- *)
Section ExInd.
Variable Q : ex -> Prop.
Definition Qo (o : option ex) : Prop := match o with Some e => Q e | None => True end.
Hypothesis HIdent : forall p a, Q (XIdent p a).
Hypothesis HLit : forall p k s, Q (XLit p k s).
Hypothesis HUn : forall p op x, Q x -> Q (XUn p op x).
Hypothesis HBin : forall p op l r, Q l -> Q r -> Q (XBin p op l r).
Hypothesis HCall : forall p f args v, Q f -> Forall Q args -> Q (XCall p f args v).
Hypothesis HIndex : forall p x i, Q x -> Q i -> Q (XIndex p x i).
Hypothesis HSlicing : forall p x lo hi mx full, Q x -> Qo lo -> Qo hi -> Qo mx -> Q (XSlicing p x lo hi mx full).
Hypothesis HSel : forall p x n, Q x -> Q (XSel p x n).
Hypothesis HTypeAssert : forall p x t, Q x -> Qo t -> Q (XTypeAssert p x t).
Hypothesis HCompLit : forall p t kvs, Qo t -> Forall (fun kv => Qo (fst kv) /\ Q (snd kv)) kvs -> Q (XCompLit p t kvs).
Hypothesis HMap : forall p k v, Qo k -> Q v -> Q (XMap p k v).
Hypothesis HSlice : forall p e, Q e -> Q (XSlice p e).
Hypothesis HArray : forall p l e, Qo l -> Q e -> Q (XArray p l e).
Hypothesis HChan : forall p d e, Q e -> Q (XChan p d e).
Hypothesis HFunc : forall p m ps rs v,
  Forall (fun q : param => Qo (snd q)) ps -> Forall (fun q : param => Qo (snd q)) rs -> Q (XFunc p m ps rs v).
Hypothesis HStruct : forall p fs, Forall (fun fd : field => Q (snd (fst fd))) fs -> Q (XStruct p fs).
Hypothesis HInterface : forall p, Q (XInterface p).
Hypothesis HDefault : forall p l r, Q l -> Q r -> Q (XDefault p l r).
Hypothesis HRender : forall p s, Q (XRender p s).
Hypothesis HFuncLit : forall p, Q (XFuncLit p).

Fixpoint ex_ind2 (e : ex) : Q e :=
  let qo (o : option ex) : Qo o := match o with Some x => ex_ind2 x | None => I end in
  match e with
  | XIdent p a => HIdent p a
  | XLit p k s => HLit p k s
  | XUn p op x => HUn p op x (ex_ind2 x)
  | XBin p op l r => HBin p op l r (ex_ind2 l) (ex_ind2 r)
  | XCall p f args v =>
    HCall p f args v (ex_ind2 f)
      ((fix go (l : list ex) : Forall Q l :=
          match l with [] => Forall_nil Q | a :: r => Forall_cons a (ex_ind2 a) (go r) end) args)
  | XIndex p x i => HIndex p x i (ex_ind2 x) (ex_ind2 i)
  | XSlicing p x lo hi mx full => HSlicing p x lo hi mx full (ex_ind2 x) (qo lo) (qo hi) (qo mx)
  | XSel p x n => HSel p x n (ex_ind2 x)
  | XTypeAssert p x t => HTypeAssert p x t (ex_ind2 x) (qo t)
  | XCompLit p t kvs =>
    HCompLit p t kvs (qo t)
      ((fix go (l : list (option ex * ex)) : Forall (fun kv => Qo (fst kv) /\ Q (snd kv)) l :=
          match l with
          | [] => Forall_nil _
          | kv :: r => Forall_cons kv (conj (qo (fst kv)) (ex_ind2 (snd kv))) (go r)
          end) kvs)
  | XMap p k v => HMap p k v (qo k) (ex_ind2 v)
  | XSlice p e' => HSlice p e' (ex_ind2 e')
  | XArray p l e' => HArray p l e' (qo l) (ex_ind2 e')
  | XChan p d e' => HChan p d e' (ex_ind2 e')
  | XFunc p m ps rs v =>
    let go := fix go (l : list param) : Forall (fun q : param => Qo (snd q)) l :=
                match l with [] => Forall_nil _ | q :: r => Forall_cons q (qo (snd q)) (go r) end in
    HFunc p m ps rs v (go ps) (go rs)
  | XStruct p fs =>
    HStruct p fs
      ((fix go (l : list field) : Forall (fun fd : field => Q (snd (fst fd))) l :=
          match l with [] => Forall_nil _ | fd :: r => Forall_cons fd (ex_ind2 (snd (fst fd))) (go r) end) fs)
  | XInterface p => HInterface p
  | XDefault p l r => HDefault p l r (ex_ind2 l) (ex_ind2 r)
  | XRender p s => HRender p s
  | XFuncLit p => HFuncLit p
  end.
End ExInd.

(* ---- small facts ---- *)
Lemma toks_app a b : toks (a ++ b) = toks a ++ toks b.
Proof.
  induction a as [|p r IH]; [reflexivity|]. destruct p; cbn [app toks]; rewrite IH; reflexivity.
Qed.

Lemma tk_eqb_eq a b : tk_eqb a b = true -> a = b.
Proof.
  destruct a, b; cbn [tk_eqb]; try discriminate; try reflexivity; intros h.
  - apply bytes_eqb_eq in h. subst. reflexivity.
  - apply andb_prop in h. destruct h as [h1 h2]. apply N.eqb_eq in h1. apply bytes_eqb_eq in h2. subst. reflexivity.
  - apply bytes_eqb_eq in h. subst. reflexivity.
  - destruct w, w0; try discriminate; reflexivity.
Qed.

Lemma tks_eqb_eq a : forall b, tks_eqb a b = true -> a = b.
Proof.
  induction a as [|x a IH]; intros [|y b] h; cbn [tks_eqb] in h; try discriminate; [reflexivity|].
  apply andb_prop in h. destruct h as [h1 h2]. apply tk_eqb_eq in h1. apply IH in h2. subst. reflexivity.
Qed.

Lemma split_sp_nosp s : no_byte 32 s = true -> split_sp s = [s].
Proof.
  unfold no_byte. induction s as [|c r IH]; [reflexivity|]. cbn [existsb split_sp]. intros h.
  apply negb_true_iff in h. apply orb_false_iff in h. destruct h as [h1 h2].
  rewrite N.eqb_sym in h1. rewrite h1. rewrite IH; [reflexivity|]. apply negb_true_iff. exact h2.
Qed.

Lemma map_ext_F {A B} (f g : A -> B) (l : list A) : Forall (fun a => f a = g a) l -> map f l = map g l.
Proof. induction 1 as [|a r ha hr IH]; [reflexivity|]. cbn [map]. rewrite ha, IH. reflexivity. Qed.

Lemma removelast_snoc {A} (l : list A) (x : A) : removelast (l ++ [x]) = l.
Proof. apply removelast_last. Qed.

Lemma xerase_add_paren e : xerase (add_paren e) = xerase e.
Proof. destruct e; reflexivity. Qed.

Definition pw (b : bool) (e : ex) : ex := if b then add_paren e else e.
Lemma xerase_pw b e : xerase (pw b e) = xerase e.
Proof. destruct b; [apply xerase_add_paren|reflexivity]. Qed.

Lemma parens_add_paren e : parens_of (add_paren e) = S (parens_of e).
Proof. destruct e; reflexivity. Qed.

Lemma is_operator_add_paren e : is_operator (add_paren e) = is_operator e.
Proof. destruct e; reflexivity. Qed.

(* ---- the tree that the parser builds from the printed form ---- *)
Section Norm.
Variable bin_prec : list (N * N).
Variable un_prec : N.
Variable op_receive op_pointer : N.
Variable expanded : bool.   (* ast.expandedPrint: the elements of a composite literal are printed *)

Notation np_un := (np_un bin_prec un_prec op_receive).
Notation np_bin := (np_bin bin_prec un_prec).
Notation np_call := (np_call op_receive op_pointer).

Definition wrapped_un (op : N) (x : ex) : bool := match np_un op x with Some b => b | None => false end.
Definition wrapped_bin (op : N) (x : ex) : bool := match np_bin op x with Some b => b | None => false end.

Fixpoint norm (e : ex) : ex :=
  match e with
  | XIdent _ a => XIdent 0 a
  | XLit _ k s => XLit 0 k s
  | XUn _ op x => XUn 0 op (pw (wrapped_un op x) (norm x))
  | XBin _ op l r => XBin 0 op (pw (wrapped_bin op l) (norm l)) (pw (wrapped_bin op r) (norm r))
  | XCall _ f a v => XCall 0 (pw (np_call f) (norm f)) (map norm a) v
  | XIndex _ x i => XIndex 0 (norm x) (norm i)
  | XSlicing _ x a b c f => XSlicing 0 (norm x) (omap norm a) (omap norm b) (omap norm c) f
  | XSel _ x n => XSel 0 (norm x) n
  | XTypeAssert _ x t => XTypeAssert 0 (norm x) (omap norm t)
  | XCompLit _ t kvs => XCompLit 0 (omap norm t) (map (fun kv => (omap norm (fst kv), norm (snd kv))) kvs)
  | XMap _ k v => XMap 0 (omap norm k) (norm v)
  | XSlice _ e' => XSlice 0 (norm e')
  | XArray _ l e' => XArray 0 (omap norm l) (norm e')
  | XChan _ d e' => XChan 0 d (norm e')
  | XFunc _ m a r v =>
    XFunc 0 m (map (fun q => (fst q, omap norm (snd q))) a) (map (fun q => (fst q, omap norm (snd q))) r) v
  | XStruct _ fs => XStruct 0 (map (fun fd => (fst (fst fd), norm (snd (fst fd)), snd fd)) fs)
  | XInterface _ => XInterface 0
  | XDefault _ l r => XDefault 0 (norm l) (norm r)
  | XRender _ s => XRender 0 s
  | XFuncLit _ => XFuncLit 0
  end.

Fixpoint spine (e : ex) : list fr :=
  match e with
  | XUn _ op x => (if wrapped_un op x then [] else spine x) ++ [GUn op]
  | XBin _ op l r =>
    (if wrapped_bin op r then [] else spine r) ++ [GBin op (pw (wrapped_bin op l) (norm l))]
  | _ => []
  end.

Fixpoint lastop (e : ex) : ex :=
  match e with
  | XUn _ op x => if wrapped_un op x then add_paren (norm x) else lastop x
  | XBin _ op l r => if wrapped_bin op r then add_paren (norm r) else lastop r
  | _ => norm e
  end.

Lemma close_app A B o : close (A ++ B) o = close B (close A o).
Proof. revert o. induction A as [|f r IH]; intros o; [reflexivity|]. cbn [app close]. apply IH. Qed.

Lemma close_spine e : close (spine e) (lastop e) = norm e.
Proof.
  induction e as [p a|p k s|p op x IHx|p op l r IHl IHr|p f args v IHf Hargs|p x i IHx IHi|p x lo hi mx fl IHx Hlo Hhi Hmx|p x n IHx
    |p x t IHx Ht|p t kvs Ht Hkvs|p k v Hk IHv|p e' IHe|p l e' Hl IHe|p d e' IHe|p m ps rs v Hps Hrs|p fs Hfs|p|p l r IHl IHr|p s|p] using ex_ind2; try reflexivity.
  - cbn [spine lastop norm]. rewrite close_app. unfold pw. destruct (wrapped_un op x); cbn [close apply_frame]; [reflexivity|].
    rewrite IHx. reflexivity.
  - cbn [spine lastop norm]. rewrite close_app. unfold pw at 2. destruct (wrapped_bin op r); cbn [close apply_frame]; [reflexivity|].
    rewrite IHr. reflexivity.
Qed.

Lemma spine_nonop e : is_operator e = false -> spine e = [].
Proof. destruct e; cbn; try reflexivity; discriminate. Qed.
Lemma lastop_nonop e : is_operator e = false -> lastop e = norm e.
Proof. destruct e; cbn; try reflexivity; discriminate. Qed.

Lemma omap_xerase_norm o : Qo (fun e => xerase (norm e) = xerase e) o -> omap xerase (omap norm o) = omap xerase o.
Proof. destruct o; cbn; [intros ->; reflexivity|reflexivity]. Qed.

Lemma xerase_norm e : xerase (norm e) = xerase e.
Proof.
  induction e as [p a|p k s|p op x IHx|p op l r IHl IHr|p f args v IHf Hargs|p x i IHx IHi|p x lo hi mx fl IHx Hlo Hhi Hmx|p x n IHx
    |p x t IHx Ht|p t kvs Ht Hkvs|p k v Hk IHv|p e' IHe|p l e' Hl IHe|p d e' IHe|p m ps rs v Hps Hrs|p fs Hfs|p|p l r IHl IHr|p s|p] using ex_ind2; cbn [norm xerase]; rewrite ?xerase_pw;
    repeat match goal with h : xerase (norm _) = _ |- _ => rewrite h; clear h end;
    repeat match goal with h : Qo _ _ |- _ => rewrite (omap_xerase_norm _ h); clear h end;
    try reflexivity.
  - f_equal. rewrite map_map. apply map_ext_F. exact Hargs.
  - f_equal. rewrite map_map. apply map_ext_F. eapply Forall_impl; [|exact Hkvs]. intros kv [h1 h2]. cbn [fst snd].
    rewrite (omap_xerase_norm _ h1), h2. reflexivity.
  - f_equal; rewrite map_map; apply map_ext_F.
    + eapply Forall_impl; [|exact Hps]. intros q h. cbn [fst snd]. rewrite (omap_xerase_norm _ h). reflexivity.
    + eapply Forall_impl; [|exact Hrs]. intros q h. cbn [fst snd]. rewrite (omap_xerase_norm _ h). reflexivity.
  - f_equal. rewrite map_map. apply map_ext_F. eapply Forall_impl; [|exact Hfs]. intros fd h. cbn [fst snd]. rewrite h. reflexivity.
Qed.

Lemma norm_nonop e : is_operator (norm e) = is_operator e.
Proof. destruct e; reflexivity. Qed.

Lemma parens_norm e : parens_of (norm e) = 0%nat.
Proof. destruct e; reflexivity. Qed.

(* ---- fuel: iterations on the way from the operand switch to the postfix
   loop (cost), fuel that the nested calls need (need) ---- *)
Definition fullo (full : ex -> nat) (o : option ex) : nat := match o with Some e => full e | None => 3%nat end.

Fixpoint cost (ty : bool) (e : ex) : nat :=
  match e with
  | XUn _ op x => if wrapped_un op x then 2%nat else S (cost ty x)
  | XBin _ op l r =>
    ((if wrapped_bin op l then 1 else cost ty l) + 1 + (if wrapped_bin op r then 1 else cost ty r))%nat
  | XCall _ f _ _ => S (if np_call f then 1%nat else cost ty f)
  | XIndex _ x _ | XSlicing _ x _ _ _ _ | XTypeAssert _ x _ => S (cost ty x)
  | XSel _ x _ => if ty then 1%nat else S (cost ty x)
  | XCompLit _ t _ => match t with Some t' => S (cost ty t') | None => 2%nat end
  | XDefault _ l _ => S (cost ty l)
  | _ => 1%nat
  end.

Fixpoint need (ty : bool) (e : ex) : nat :=
  let full (t : bool) (x : ex) : nat := (cost t x + need t x + 2)%nat in
  let plist (l : list param) : nat :=
    fold_right (fun (q : param) (a : nat) => (4 + fullo (full true) (snd q) + a)%nat) 0%nat l in
  match e with
  | XUn _ op x => if wrapped_un op x then full ty x else need ty x
  | XBin _ op l r =>
    ((if wrapped_bin op l then full ty l else need ty l) + (if wrapped_bin op r then full ty r else need ty r))%nat
  | XCall _ f args _ =>
    ((if np_call f then full ty f else need ty f) +
     fold_right (fun a acc => S (full false a + acc)) 3%nat args)%nat
  | XIndex _ x i => (need ty x + full false i)%nat
  | XSlicing _ x a b c _ => (need ty x + fullo (full false) a + fullo (full false) b + fullo (full false) c)%nat
  | XSel _ x _ => if ty then 0%nat else need ty x
  | XTypeAssert _ x t => (need ty x + fullo (full true) t)%nat
  | XCompLit _ t kvs =>
    (match t with Some t' => need ty t' | None => 0 end +
     if expanded then
       fold_right (fun (kv : option ex * ex) acc =>
                     S (match fst kv with Some k => full false k | None => 0 end + full false (snd kv) + acc)) 3%nat kvs
     else 3)%nat
  | XMap _ k v => (fullo (full true) k + full true v)%nat
  | XSlice _ e' => full true e'
  | XArray _ l e' => (fullo (full false) l + full true e')%nat
  | XChan _ _ e' => full true e'
  | XFunc _ _ ps rs _ =>
    (8 + plist ps + match rs with [(None, Some t)] => full true t | _ => plist rs end)%nat
  | XStruct _ fs => (3 + fold_right (fun (fd : field) acc => (4 + full true (snd (fst fd)) + acc)%nat) 0%nat fs)%nat
  | XDefault _ l r => (need ty l + full false r)%nat
  | _ => 0%nat
  end.

Definition full (ty : bool) (e : ex) : nat := (cost ty e + need ty e + 2)%nat.

Lemma cost_pos ty e : (1 <= cost ty e)%nat.
Proof.
  destruct e; cbn [cost]; try lia.
  - destruct (wrapped_un op e); lia.
  - destruct ty; lia.
  - destruct t; lia.
Qed.

End Norm.
