(* expr_compile_correct: the code the emitter model (EmitExprM.compile_into)
   produces for an integer expression over local variables and constants, run
   by the VM model from a state whose variable registers hold canonical
   values, ends after exactly its own length in steps with the canonical form
   of the value MiniGoSem gives the expression in the destination register,
   every variable register unchanged; it panics with a division by zero
   exactly when the expression does. *)
From Coq Require Import FMapPositive.
From Verif Require Import GoInt GoBits Facts_alu Facts_limits VmBase Facts_vmexec AluM Alu_proofs VmExecM MiniGoSem EmitExprM.
From Verif Require Import VmAlu_proofs.
Open Scope Z_scope.

Arguments wrap : simpl never.
Arguments canon : simpl never.

(* ---- straight-line execution ---- *)

Fixpoint steps (p : program) (n : nat) (s : state) : sres :=
  match n with
  | O => SNext s
  | S m => match vm_step p s with SNext s' => steps p m s' | r => r end
  end.

Lemma steps_app p n m s :
  steps p (n + m) s = match steps p n s with SNext s' => steps p m s' | r => r end.
Proof.
  revert s. induction n as [|n IH]; intros s; cbn [steps Nat.add]; [reflexivity|].
  destruct (vm_step p s); try reflexivity. apply IH.
Qed.

(* a run with enough fuel goes through the same states *)
Lemma vm_run_steps p n s s' fuel :
  steps p n s = SNext s' -> vm_run p (n + fuel) s = vm_run p fuel s'.
Proof.
  revert s. induction n as [|n IH]; intros s H; cbn [steps Nat.add] in *.
  - injection H as <-. reflexivity.
  - cbn [vm_run]. destruct (vm_step p s); try discriminate. apply IH, H.
Qed.

(* the instructions code sit in the body of f from address pc on *)
Definition code_at (f : func) (pc : Z) (code : list instr) : Prop :=
  forall j i, nth_error code j = Some i -> nthZ (f_body f) (pc + Z.of_nat j) = Some i.

Lemma code_at_app f pc a b :
  code_at f pc (a ++ b) <-> code_at f pc a /\ code_at f (pc + Z.of_nat (length a)) b.
Proof.
  unfold code_at. split.
  - intros H. split; intros j i Hj.
    + apply H. rewrite nth_error_app1; [exact Hj|]. apply nth_error_Some. congruence.
    + replace (pc + Z.of_nat (length a) + Z.of_nat j) with (pc + Z.of_nat (length a + j)) by lia.
      apply H. rewrite nth_error_app2 by lia. replace (length a + j - length a)%nat with j by lia. exact Hj.
  - intros [Ha Hb] j i Hj. destruct (Nat.lt_ge_cases j (length a)).
    + apply Ha. rewrite nth_error_app1 in Hj by assumption. exact Hj.
    + rewrite nth_error_app2 in Hj by assumption.
      replace (pc + Z.of_nat j) with (pc + Z.of_nat (length a) + Z.of_nat (j - length a)) by lia.
      apply Hb, Hj.
Qed.

Lemma code_at_head f pc i rest : code_at f pc (i :: rest) -> nthZ (f_body f) pc = Some i.
Proof. intros H. specialize (H 0%nat i eq_refl). cbn in H. rewrite Z.add_0_r in H. exact H. Qed.
Lemma code_at_tail f pc i rest : code_at f pc (i :: rest) -> code_at f (pc + 1) rest.
Proof.
  intros H j x Hj. specialize (H (S j) x Hj). replace (pc + 1 + Z.of_nat j) with (pc + Z.of_nat (S j)) by lia. exact H.
Qed.

(* ---- states that differ only in the pc and the int registers ---- *)

Definition same_frame (s s' : state) : Prop :=
  s_fn s' = s_fn s /\ s_fp s' = s_fp s /\ s_st s' = s_st s /\ s_str s' = s_str s /\ s_gen s' = s_gen s /\
  s_calls s' = s_calls s /\ s_out s' = s_out s.

Lemma same_frame_refl s : same_frame s s.
Proof. unfold same_frame. tauto. Qed.
Lemma same_frame_trans a b c : same_frame a b -> same_frame b c -> same_frame a c.
Proof. unfold same_frame. intuition congruence. Qed.
Lemma same_frame_upd s pc r v : same_frame s (upd_int (set_pc s pc) r v).
Proof. unfold same_frame. cbn. tauto. Qed.

Lemma same_frame_valid s s' r : same_frame s s' -> valid_ireg s r -> valid_ireg s' r.
Proof. intros (_ & Hfp & Hst & _) H. unfold valid_ireg in *. rewrite Hfp, Hst. exact H. Qed.
Lemma same_frame_cur p s s' : same_frame s s' -> cur_func p s' = cur_func p s.
Proof. intros (Hfn & _). unfold cur_func. rewrite Hfn. reflexivity. Qed.

Lemma rd_upd_other s pc r r' v :
  0 <= q0 (s_fp s) -> valid_ireg s r -> r' <> r -> rd_int (upd_int (set_pc s pc) r v) r' = rd_int s r'.
Proof.
  intros Hfp [Hr _] Hne. unfold rd_int, upd_int. cbn.
  destruct (0 <? r') eqn:E; [|reflexivity]. apply Z.ltb_lt in E.
  destruct (q0 (s_fp s) + r' <? q0 (s_st s)); [|reflexivity].
  rewrite rf_gso by lia. reflexivity.
Qed.
Lemma rd_upd_this s pc r v : valid_ireg s r -> rd_int (upd_int (set_pc s pc) r v) r = XOk v.
Proof. intros H. apply (rd_upd_same (set_pc s pc) r v). apply valid_ireg_set_pc, H. Qed.

(* ---- single instructions of the emitter ---- *)

(* emitMove(false, x, z): z := x *)
Lemma move_step p s f x z v :
  cur_func p s = Some f -> nthZ (f_body f) (s_pc s) = Some (move_instr x z) ->
  rd_int s x = XOk v -> valid_ireg s z ->
  vm_step p s = SNext (upd_int (set_pc s (s_pc s + 1)) z v).
Proof.
  intros Hf Hi Hx Hz. rewrite (vm_step_fetch p s f _ Hf Hi).
  unfold exec_instr, move_instr. cbn [i_op].
  change (Z.abs gen_OpMove) with gen_OpMove. change (gen_OpMove <? 0) with false. cbn [andb].
  change (is_alu_op gen_OpMove) with false.
  change ((gen_OpMove =? gen_OpConvertInt) || (gen_OpMove =? gen_OpConvertUint)) with false.
  change (gen_OpMove =? gen_OpMove) with true. cbv iota.
  unfold gen_x_OpMove. cbn [i_a i_b i_c].
  change (wrap I8 gen_c_intRegister =? 0) with true. cbv iota.
  change (kneg (mkI gen_OpMove gen_c_intRegister x z)) with false. cbn [rd_intk].
  rewrite rd_int_set_pc, Hx. cbn [xbind]. rewrite wr_int_ok by (apply valid_ireg_set_pc, Hz). reflexivity.
Qed.

Definition oz_eqb (a : option Z) (b : Z) : bool := match a with Some x => x =? b | None => false end.

Lemma oz_eqb_true a b : oz_eqb a b = true -> a = Some b.
Proof. destruct a; cbn; [intros H; apply Z.eqb_eq in H; congruence|discriminate]. Qed.

(* emitLoad(idx, dst): dst := Values.Int[idx] *)
Lemma load_instr_shape idx dst i :
  load_instr idx dst = Some i ->
  exists a b, gen_c_encodeValueIndex (Some gen_c_intRegister) (Some idx) = [Some a; Some b] /\ i = mkI gen_OpLoad a b dst.
Proof.
  unfold load_instr.
  destruct (gen_c_encodeValueIndex (Some gen_c_intRegister) (Some idx)) as [|[a|] [|[b|] [|? ?]]]; try discriminate.
  intros H. injection H as <-. exists a, b. split; reflexivity.
Qed.

Lemma rt_generic (enc : list (option Z)) (dec : option Z -> option Z -> list (option Z)) t i a b :
  enc = [Some a; Some b] ->
  match enc with
  | [x; y] => match dec x y with [t'; i'] => oz_eqb t' t && oz_eqb i' i | _ => false end
  | _ => false
  end = true ->
  dec (Some a) (Some b) = [Some t; Some i].
Proof.
  intros -> H. destruct (dec (Some a) (Some b)) as [|t1 [|t2 [|? ?]]]; try discriminate.
  apply andb_prop in H. destruct H as [Ht Hi2].
  apply oz_eqb_true in Ht. apply oz_eqb_true in Hi2. rewrite Ht, Hi2. reflexivity.
Qed.

(* the kernel must not unfold the generated encoders when it compares the
   statement of valueindex_roundtrip with its unfolded form *)
Local Strategy 1000 [gen_c_encodeValueIndex gen_r_decodeValueIndex].

(* an integer constant index survives encodeValueIndex / decodeValueIndex: every index below 2^14 (exhaustive) *)
Definition load_rt (i : Z) : bool :=
  match gen_c_encodeValueIndex (Some gen_c_intRegister) (Some i) with
  | [a; b] => match gen_r_decodeValueIndex a b with [t'; i'] => oz_eqb t' gen_c_intRegister && oz_eqb i' i | _ => false end
  | _ => false
  end.
Lemma load_rt_all : allb 16384 0 load_rt = true.
Proof. vm_compute. reflexivity. Qed.

Lemma decode_of_encode idx a b :
  gen_c_encodeValueIndex (Some gen_c_intRegister) (Some idx) = [Some a; Some b] -> 0 <= idx < 16384 ->
  gen_r_decodeValueIndex (Some a) (Some b) = [Some gen_c_intRegister; Some idx].
Proof.
  intros Henc Hidx.
  pose proof (allb_spec _ _ _ load_rt_all idx ltac:(lia)) as Hrt.
  refine (rt_generic (gen_c_encodeValueIndex (Some gen_c_intRegister) (Some idx)) gen_r_decodeValueIndex gen_c_intRegister idx a b Henc _).
  exact Hrt.
Qed.

Lemma list2_inj {A} (a b c d : A) : [a; b] = [c; d] -> a = c /\ b = d.
Proof. intros H. injection H as -> ->. split; reflexivity. Qed.

Lemma load_instr_decode idx dst i :
  load_instr idx dst = Some i -> 0 <= idx < 16384 ->
  i_op i = gen_OpLoad /\ i_c i = dst /\
  gen_r_decodeValueIndex (Some (i_a i)) (Some (i_b i)) = [Some gen_c_intRegister; Some idx].
Proof.
  intros Hl Hidx. destruct (load_instr_shape idx dst i Hl) as (a & b & Henc & ->). cbn [i_op i_a i_b i_c].
  split; [reflexivity|split; [reflexivity|]]. exact (decode_of_encode idx a b Henc Hidx).
Qed.

Lemma exec_load p f s i idx v :
  i_op i = gen_OpLoad ->
  gen_r_decodeValueIndex (Some (i_a i)) (Some (i_b i)) = [Some gen_c_intRegister; Some idx] ->
  nthZ (f_ints f) idx = Some v -> valid_ireg s (i_c i) ->
  exec_instr p f s i = SNext (upd_int s (i_c i) v).
Proof.
  intros Hop Hdec Hv Hd. unfold exec_instr. rewrite Hop.
  change (Z.abs gen_OpLoad) with gen_OpLoad. change (gen_OpLoad <? 0) with false. cbn [andb].
  change (is_alu_op gen_OpLoad) with false.
  change ((gen_OpLoad =? gen_OpConvertInt) || (gen_OpLoad =? gen_OpConvertUint)) with false.
  change (gen_OpLoad =? gen_OpMove) with false. change (gen_OpLoad =? gen_OpIfInt) with false.
  change (gen_OpLoad =? gen_OpIfString) with false. change (gen_OpLoad =? gen_OpIndexString) with false.
  change (gen_OpLoad =? gen_OpTypify) with false. change (gen_OpLoad =? gen_OpNone) with false.
  change (gen_OpLoad =? gen_OpLoad) with true. cbv iota.
  unfold gen_r_decodeValueIndex in Hdec. apply list2_inj in Hdec. destruct Hdec as [H1 H2].
  unfold gen_x_OpLoad. rewrite H1, H2. cbn [xsome xbind].
  change (gen_c_intRegister =? 0) with true. cbv iota.
  unfold const_int. rewrite Hv. cbn [xbind].
  rewrite wr_int_ok by exact Hd. reflexivity.
Qed.

Lemma load_step p s f idx dst i v :
  cur_func p s = Some f -> nthZ (f_body f) (s_pc s) = Some i ->
  load_instr idx dst = Some i -> 0 <= idx < 16384 -> nthZ (f_ints f) idx = Some v -> valid_ireg s dst ->
  vm_step p s = SNext (upd_int (set_pc s (s_pc s + 1)) dst v).
Proof.
  intros Hf Hi Hl Hidx Hv Hd. rewrite (vm_step_fetch p s f _ Hf Hi).
  destruct (load_instr_decode idx dst i Hl Hidx) as (Hop & Hc & Hdec).
  rewrite (exec_load p f _ i idx v Hop Hdec Hv); rewrite Hc; [reflexivity|apply valid_ireg_set_pc, Hd].
Qed.

(* ---- the builder state ---- *)

Lemma pool_find_spec l v i j : pool_find l v i = Some j -> i <= j < i + Z.of_nat (length l) /\ nthZ l (j - i) = Some v.
Proof.
  revert i. induction l as [|x r IH]; intros i H; cbn [pool_find] in H; [discriminate|].
  destruct (Z.eqb_spec x v) as [->|Hne].
  - injection H as <-. split; [cbn [length]; lia|]. replace (i - i) with 0 by lia. reflexivity.
  - destruct (IH (i + 1) H) as [Hr Hn]. split; [cbn [length]; lia|].
    unfold nthZ in *. cbn [length].
    destruct ((j - (i + 1) <? 0) || (Z.of_nat (length r) <=? j - (i + 1))) eqn:E; [discriminate|].
    apply orb_false_elim in E. destruct E as [E1 E2]. apply Z.ltb_ge in E1. apply Z.leb_gt in E2.
    destruct ((j - i <? 0) || (Z.of_nat (S (length r)) <=? j - i)) eqn:E'.
    + apply orb_prop in E'. destruct E' as [E'|E']; [apply Z.ltb_lt in E'|apply Z.leb_le in E']; lia.
    + replace (Z.to_nat (j - i)) with (S (Z.to_nat (j - (i + 1)))) by lia. exact Hn.
Qed.

Lemma nthZ_app_l {A} (l1 l2 : list A) i v : nthZ l1 i = Some v -> nthZ (l1 ++ l2) i = Some v.
Proof.
  unfold nthZ. rewrite app_length.
  destruct ((i <? 0) || (Z.of_nat (length l1) <=? i)) eqn:E; [discriminate|].
  apply orb_false_elim in E. destruct E as [E1 E2]. apply Z.ltb_ge in E1. apply Z.leb_gt in E2.
  destruct ((i <? 0) || (Z.of_nat (length l1 + length l2) <=? i)) eqn:E'.
  - apply orb_prop in E'. destruct E' as [E'|E']; [apply Z.ltb_lt in E'|apply Z.leb_le in E']; lia.
  - intros H. assert (Hlt : (Z.to_nat i < length l1)%nat) by lia.
    revert Hlt H. generalize (Z.to_nat i). clear. intros n. revert n.
    induction l1 as [|x r IH]; intros n Hlt H; cbn in *; [lia|]. destruct n; [exact H|]. apply IH; [lia|exact H].
Qed.

Lemma nthZ_last {A} (l : list A) v : nthZ (l ++ [v]) (Z.of_nat (length l)) = Some v.
Proof.
  unfold nthZ. rewrite app_length. cbn [length].
  destruct ((Z.of_nat (length l) <? 0) || (Z.of_nat (length l + 1) <=? Z.of_nat (length l))) eqn:E.
  - apply orb_prop in E. destruct E as [E|E]; [apply Z.ltb_lt in E|apply Z.leb_le in E]; lia.
  - rewrite Nat2Z.id. clear. induction l; cbn; auto.
Qed.

(* makeIntValue: the builder state changes only in the pool, which grows at the end *)
Lemma make_int_value_spec st v idx st' :
  make_int_value st v = (idx, st') ->
  c_n st' = c_n st /\ c_code st' = c_code st /\ (exists ext, c_pool st' = c_pool st ++ ext) /\
  nthZ (c_pool st') idx = Some v /\ 0 <= idx < Z.of_nat (length (c_pool st')).
Proof.
  unfold make_int_value. destruct (pool_find (c_pool st) v 0) as [j|] eqn:E; intros H; injection H as <- <-.
  - destruct (pool_find_spec _ _ _ _ E) as [Hr Hn]. rewrite Z.sub_0_r in Hn.
    repeat split; auto; try lia. exists []. rewrite app_nil_r. reflexivity.
  - cbn. repeat split; auto; try lia.
    + exists [v]. reflexivity.
    + apply nthZ_last.
    + rewrite app_length. cbn. lia.
Qed.

(* the constant pool of the function contains the builder's pool *)
Definition pool_sub (f : func) (pool : list Z) : Prop :=
  Z.of_nat (length pool) <= 16384 /\ forall idx v, nthZ pool idx = Some v -> nthZ (f_ints f) idx = Some v.

Lemma pool_sub_prefix f p ext : pool_sub f (p ++ ext) -> pool_sub f p.
Proof.
  intros [Hl H]. split; [rewrite app_length in Hl; lia|]. intros idx v Hn. apply H, nthZ_app_l, Hn.
Qed.

(* ---- source expressions ---- *)

Fixpoint to_expr (kk : ikind) (e : iexpr) : expr :=
  match e with
  | IConst v => EConst kk v
  | IVar r => EVar r
  | IBin op a b => EBin op (to_expr kk a) (to_expr kk b)
  end.

Fixpoint isize (e : iexpr) : Z :=
  match e with IBin _ a b => 1 + isize a + isize b | _ => 1 end.
Lemma isize_pos e : 1 <= isize e.
Proof. induction e; cbn; lia. Qed.

(* every variable of e lives in a register 1 .. n *)
Fixpoint vars_le (e : iexpr) (n : Z) : Prop :=
  match e with
  | IConst _ => True
  | IVar r => 0 < r <= n
  | IBin _ a b => vars_le a n /\ vars_le b n
  end.

(* the variables 1 .. n of the source environment are integers of type kk, held
   in canonical form by the int registers of the same number *)
Definition env_regs (kk : ikind) (env : MiniGoSem.env) (n : Z) (s : state) : Prop :=
  forall r v, 0 < r <= n -> lookup env r = Some v ->
    exists x, v = VI kk x /\ in_range (ik_ity kk) x /\ rd_int s r = XOk (canon x).

(* what running the code of an expression achieves: after exactly its length
   in steps the value sits in `dst`, in canonical form; the frame and every
   register 1 .. n other than dst are as before *)
Definition exec_ok (p : program) (s : state) (code : list instr) (dst x n : Z) (s' : state) : Prop :=
  steps p (length code) s = SNext s' /\ s_pc s' = s_pc s + Z.of_nat (length code) /\ same_frame s s' /\
  rd_int s' dst = XOk (canon x) /\ (forall r, 0 < r <= n -> r <> dst -> rd_int s' r = rd_int s r).

Definition run_hyps (p : program) (f : func) (s : state) (code : list instr) (pool : list Z)
    (kk : ikind) (env : MiniGoSem.env) (nv n room : Z) : Prop :=
  cur_func p s = Some f /\ code_at f (s_pc s) code /\ pool_sub f pool /\
  nv <= n /\ 0 <= n /\ 0 <= q0 (s_fp s) /\ q0 (s_fp s) + n + room < q0 (s_st s) /\ env_regs kk env nv s.

(* the specification of compile_into for one expression *)
Definition compile_spec (e : iexpr) : Prop :=
  forall k t kk reg st0 st1,
    kind_ity k = Some t -> ik_ity kk = t -> compile_into k e reg st0 = Some st1 ->
    exists code,
      c_code st1 = c_code st0 ++ code /\ (exists ext, c_pool st1 = c_pool st0 ++ ext) /\
      c_n st0 <= c_n st1 <= c_n st0 + 2 * isize e - 1 /\ Z.of_nat (length code) <= 3 * isize e /\
      forall P env nv p f s fuel out,
        run_hyps p f s code (c_pool st1) kk env nv (c_n st0) (2 * isize e) ->
        vars_le e nv -> 0 < reg <= c_n st0 ->
        match eval P fuel env out (to_expr kk e) with
        | ROk (v, out') =>
            exists x, v = VI kk x /\ in_range t x /\ out' = out /\ exists s', exec_ok p s code reg x (c_n st0) s'
        | RPanic PanDivide out' =>
            out' = out /\ exists m s', (m <= length code)%nat /\ steps p m s = SPanic PDivide s'
        | _ => True
        end.

(* constants *)
Lemma compile_spec_const v : compile_spec (IConst v).
Proof.
  intros k t kk reg st0 st1 Hk Hkk H. cbn [compile_into] in H.
  destruct (make_int_value st0 (const64 v)) as [idx sta] eqn:Em.
  destruct (load_instr idx reg) as [i|] eqn:El; [|discriminate]. injection H as <-.
  destruct (make_int_value_spec _ _ _ _ Em) as (Hn & Hc & Hext & Hnth & Hidx).
  exists [i]. cbn [emit c_code c_pool c_n isize length]. rewrite Hc, Hn.
  split; [reflexivity|]. split; [exact Hext|]. split; [lia|]. split; [lia|].
  intros P env nv p f s fuel out (Hf & Hcode & [Hpl Hpool] & Hnv & Hn0 & Hfp & Hroom & Henv) _ Hreg.
  destruct fuel as [|fuel]; cbn [eval to_expr]; [exact I|].
  destruct (in_rangeb (ik_ity kk) v) eqn:Er; [|exact I].
  exists v. split; [reflexivity|]. split.
  { rewrite <- Hkk. unfold in_rangeb in Er. apply andb_prop in Er. destruct Er as [E1 E2].
    apply Z.leb_le in E1, E2. split; assumption. }
  split; [reflexivity|].
  assert (Hv : valid_ireg s reg) by (unfold valid_ireg; cbn [isize] in Hroom; lia).
  exists (upd_int (set_pc s (s_pc s + 1)) reg (canon v)).
  unfold exec_ok. cbn [steps length].
  rewrite (load_step p s f idx reg i (canon v) Hf (code_at_head _ _ _ _ Hcode) El ltac:(lia) (Hpool _ _ Hnth) Hv).
  split; [reflexivity|]. split; [cbn; lia|]. split; [apply same_frame_upd|].
  split; [apply rd_upd_this, Hv|]. intros r Hr Hne. apply rd_upd_other; assumption.
Qed.

(* variables *)
Lemma compile_spec_var r : compile_spec (IVar r).
Proof.
  intros k t kk reg st0 st1 Hk Hkk H. cbn [compile_into] in H. injection H as <-.
  destruct (Z.eqb_spec r reg) as [->|Hne].
  - exists []. rewrite app_nil_r. split; [reflexivity|]. split; [exists []; rewrite app_nil_r; reflexivity|].
    cbn [isize length]. split; [lia|]. split; [lia|].
    intros P env nv p f s fuel out (Hf & Hcode & Hpool & Hnv & Hn0 & Hfp & Hroom & Henv) Hvars Hreg.
    destruct fuel as [|fuel]; cbn [eval to_expr]; [exact I|].
    destruct (lookup env reg) as [v|] eqn:El; [|exact I].
    cbn [vars_le] in Hvars. destruct (Henv reg v Hvars El) as (x & -> & Hx & Hrd).
    exists x. rewrite <- Hkk. split; [reflexivity|]. split; [exact Hx|]. split; [reflexivity|].
    exists s. unfold exec_ok. cbn [steps length]. split; [reflexivity|]. split; [lia|]. split; [apply same_frame_refl|].
    split; [exact Hrd|]. auto.
  - exists [move_instr r reg]. cbn [emit c_code c_pool c_n isize length].
    split; [reflexivity|]. split; [exists []; rewrite app_nil_r; reflexivity|]. split; [lia|]. split; [lia|].
    intros P env nv p f s fuel out (Hf & Hcode & Hpool & Hnv & Hn0 & Hfp & Hroom & Henv) Hvars Hreg.
    destruct fuel as [|fuel]; cbn [eval to_expr]; [exact I|].
    destruct (lookup env r) as [v|] eqn:El; [|exact I].
    cbn [vars_le] in Hvars. destruct (Henv r v Hvars El) as (x & -> & Hx & Hrd).
    exists x. rewrite <- Hkk. split; [reflexivity|]. split; [exact Hx|]. split; [reflexivity|].
    assert (Hv : valid_ireg s reg) by (unfold valid_ireg; cbn [isize] in Hroom; lia).
    exists (upd_int (set_pc s (s_pc s + 1)) reg (canon x)).
    unfold exec_ok. cbn [steps length].
    rewrite (move_step p s f r reg (canon x) Hf (code_at_head _ _ _ _ Hcode) Hrd Hv).
    split; [reflexivity|]. split; [cbn; lia|]. split; [apply same_frame_upd|].
    split; [apply rd_upd_this, Hv|]. intros r' Hr' Hne'. apply rd_upd_other; assumption.
Qed.

(* ---- operands: emitExpr and emitExprK ---- *)

Definition operand_spec (e : iexpr) : Prop :=
  forall k t kk st0 x st1,
    kind_ity k = Some t -> ik_ity kk = t -> operand k e st0 = Some (x, st1) ->
    exists code,
      c_code st1 = c_code st0 ++ code /\ (exists ext, c_pool st1 = c_pool st0 ++ ext) /\
      c_n st0 <= c_n st1 <= c_n st0 + 2 * isize e /\ Z.of_nat (length code) <= 3 * isize e /\
      forall P env nv p f s fuel out,
        run_hyps p f s code (c_pool st1) kk env nv (c_n st0) (2 * isize e + 1) ->
        vars_le e nv ->
        match eval P fuel env out (to_expr kk e) with
        | ROk (v, out') =>
            exists xv, v = VI kk xv /\ in_range t xv /\ out' = out /\ 0 < x <= c_n st1 /\
              exists s', steps p (length code) s = SNext s' /\ s_pc s' = s_pc s + Z.of_nat (length code) /\
                same_frame s s' /\ rd_int s' x = XOk (canon xv) /\
                (forall r, 0 < r <= c_n st0 -> rd_int s' r = rd_int s r)
        | RPanic PanDivide out' =>
            out' = out /\ exists m s', (m <= length code)%nat /\ steps p m s = SPanic PDivide s'
        | _ => True
        end.

Lemma operand_of_compile e : compile_spec e -> operand_spec e.
Proof.
  intros IH k t kk st0 x st1 Hk Hkk H. unfold operand, operand_with in H.
  destruct e as [v|r|op e1 e2].
  - (* a constant: a new register *)
    cbn [new_reg] in H.
    destruct (compile_into k (IConst v) (c_n st0 + 1) (mkC (c_n st0 + 1) (c_pool st0) (c_code st0))) as [st2|] eqn:Ec; [|discriminate].
    injection H as <- <-.
    destruct (IH k t kk _ _ _ Hk Hkk Ec) as (code & Hcode & Hext & Hn & Hlen & Hrun).
    cbn [c_code c_pool c_n] in *. exists code. split; [exact Hcode|]. split; [exact Hext|]. split; [lia|]. split; [exact Hlen|].
    intros P env nv p f s fuel out (Hf & Hca & Hpool & Hnv & Hn0 & Hfp & Hroom & Henv) Hvars.
    specialize (Hrun P env nv p f s fuel out).
    assert (Hh : run_hyps p f s code (c_pool st2) kk env nv (c_n st0 + 1) (2 * isize (IConst v))).
    { refine (conj Hf (conj Hca (conj Hpool (conj _ (conj _ (conj Hfp (conj _ Henv))))))); lia. }
    specialize (Hrun Hh Hvars ltac:(lia)).
    destruct (eval P fuel env out (to_expr kk (IConst v))) as [[v' out']|c out'| |]; try exact I.
    + destruct Hrun as (xv & -> & Hx & -> & s' & Hs & Hpc & Hsf & Hrd & Hpres).
      exists xv. split; [reflexivity|]. split; [exact Hx|]. split; [reflexivity|]. split; [lia|].
      exists s'. split; [exact Hs|]. split; [exact Hpc|]. split; [exact Hsf|]. split; [exact Hrd|].
      intros r Hr. apply Hpres; lia.
    + destruct c; try exact I. exact Hrun.
  - (* a variable: its own register, no code *)
    injection H as <- <-. exists []. rewrite app_nil_r. split; [reflexivity|]. split; [exists []; rewrite app_nil_r; reflexivity|].
    cbn [isize length]. split; [lia|]. split; [lia|].
    intros P env nv p f s fuel out (Hf & Hca & Hpool & Hnv & Hn0 & Hfp & Hroom & Henv) Hvars.
    destruct fuel as [|fuel]; cbn [eval to_expr]; [exact I|].
    destruct (lookup env r) as [v|] eqn:El; [|exact I].
    cbn [vars_le] in Hvars. destruct (Henv r v Hvars El) as (xv & -> & Hx & Hrd).
    exists xv. rewrite <- Hkk. split; [reflexivity|]. split; [exact Hx|]. split; [reflexivity|]. split; [lia|].
    exists s. cbn [steps]. split; [reflexivity|]. split; [lia|]. split; [apply same_frame_refl|]. split; [exact Hrd|]. auto.
  - cbn [new_reg] in H.
    destruct (compile_into k (IBin op e1 e2) (c_n st0 + 1) (mkC (c_n st0 + 1) (c_pool st0) (c_code st0))) as [st2|] eqn:Ec; [|discriminate].
    injection H as <- <-.
    destruct (IH k t kk _ _ _ Hk Hkk Ec) as (code & Hcode & Hext & Hn & Hlen & Hrun).
    cbn [c_code c_pool c_n] in *. exists code. split; [exact Hcode|]. split; [exact Hext|]. split; [lia|]. split; [exact Hlen|].
    intros P env nv p f s fuel out (Hf & Hca & Hpool & Hnv & Hn0 & Hfp & Hroom & Henv) Hvars.
    specialize (Hrun P env nv p f s fuel out).
    assert (Hh : run_hyps p f s code (c_pool st2) kk env nv (c_n st0 + 1) (2 * isize (IBin op e1 e2))).
    { refine (conj Hf (conj Hca (conj Hpool (conj _ (conj _ (conj Hfp (conj _ Henv))))))); lia. }
    specialize (Hrun Hh Hvars ltac:(lia)).
    destruct (eval P fuel env out (to_expr kk (IBin op e1 e2))) as [[v' out']|c out'| |]; try exact I.
    + destruct Hrun as (xv & -> & Hx & -> & s' & Hs & Hpc & Hsf & Hrd & Hpres).
      exists xv. split; [reflexivity|]. split; [exact Hx|]. split; [reflexivity|]. split; [lia|].
      exists s'. split; [exact Hs|]. split; [exact Hpc|]. split; [exact Hsf|]. split; [exact Hrd|].
      intros r Hr. apply Hpres; lia.
    + destruct c; try exact I. exact Hrun.
Qed.

Definition operandK_spec (e : iexpr) : Prop :=
  forall k t kk st0 y ky st1,
    kind_ity k = Some t -> ik_ity kk = t -> operandK k e st0 = Some (y, ky, st1) ->
    exists code,
      c_code st1 = c_code st0 ++ code /\ (exists ext, c_pool st1 = c_pool st0 ++ ext) /\
      c_n st0 <= c_n st1 <= c_n st0 + 2 * isize e /\ Z.of_nat (length code) <= 3 * isize e /\
      forall P env nv p f s fuel out,
        run_hyps p f s code (c_pool st1) kk env nv (c_n st0) (2 * isize e + 1) ->
        vars_le e nv ->
        match eval P fuel env out (to_expr kk e) with
        | ROk (v, out') =>
            exists xv, v = VI kk xv /\ in_range t xv /\ out' = out /\
              (if ky then y = canon xv else 0 < y <= c_n st1) /\
              exists s', steps p (length code) s = SNext s' /\ s_pc s' = s_pc s + Z.of_nat (length code) /\
                same_frame s s' /\ (if ky then True else rd_int s' y = XOk (canon xv)) /\
                (forall r, 0 < r <= c_n st0 -> rd_int s' r = rd_int s r)
        | RPanic PanDivide out' =>
            out' = out /\ exists m s', (m <= length code)%nat /\ steps p m s = SPanic PDivide s'
        | _ => True
        end.

Lemma operandK_of_operand e : operand_spec e -> operandK_spec e.
Proof.
  intros IH k t kk st0 y ky st1 Hk Hkk H. unfold operandK, operandK_with in H.
  assert (Hgen : forall r sta, operand k e st0 = Some (r, sta) -> (y, ky, st1) = (r, false, sta) ->
    exists code,
      c_code st1 = c_code st0 ++ code /\ (exists ext, c_pool st1 = c_pool st0 ++ ext) /\
      c_n st0 <= c_n st1 <= c_n st0 + 2 * isize e /\ Z.of_nat (length code) <= 3 * isize e /\
      forall P env nv p f s fuel out,
        run_hyps p f s code (c_pool st1) kk env nv (c_n st0) (2 * isize e + 1) ->
        vars_le e nv ->
        match eval P fuel env out (to_expr kk e) with
        | ROk (v, out') =>
            exists xv, v = VI kk xv /\ in_range t xv /\ out' = out /\
              (if ky then y = canon xv else 0 < y <= c_n st1) /\
              exists s', steps p (length code) s = SNext s' /\ s_pc s' = s_pc s + Z.of_nat (length code) /\
                same_frame s s' /\ (if ky then True else rd_int s' y = XOk (canon xv)) /\
                (forall r, 0 < r <= c_n st0 -> rd_int s' r = rd_int s r)
        | RPanic PanDivide out' =>
            out' = out /\ exists m s', (m <= length code)%nat /\ steps p m s = SPanic PDivide s'
        | _ => True
        end).
  { intros r sta Ho Heq. injection Heq as -> -> ->.
    destruct (IH k t kk st0 r sta Hk Hkk Ho) as (code & Hc & Hext & Hn & Hlen & Hrun).
    exists code. split; [exact Hc|]. split; [exact Hext|]. split; [exact Hn|]. split; [exact Hlen|].
    intros P env nv p f s fuel out Hh Hvars. specialize (Hrun P env nv p f s fuel out Hh Hvars).
    destruct (eval P fuel env out (to_expr kk e)) as [[v' out']|c out'| |]; try exact I.
    - destruct Hrun as (xv & -> & Hx & -> & Hr & s' & Hs & Hpc & Hsf & Hrd & Hpres).
      exists xv. split; [reflexivity|]. split; [exact Hx|]. split; [reflexivity|]. split; [exact Hr|].
      exists s'. auto.
    - exact Hrun. }
  destruct e as [v|r|op e1 e2].
  - destruct (fits_int8 (const64 v)) eqn:Efit.
    + injection H as <- <- <-. exists []. rewrite app_nil_r. split; [reflexivity|]. split; [exists []; rewrite app_nil_r; reflexivity|].
      cbn [isize length]. split; [lia|]. split; [lia|].
      intros P env nv p f s fuel out Hh _.
      destruct fuel as [|fuel]; cbn [eval to_expr]; [exact I|].
      destruct (in_rangeb (ik_ity kk) v) eqn:Er; [|exact I].
      exists v. split; [reflexivity|]. split.
      { rewrite <- Hkk. unfold in_rangeb in Er. apply andb_prop in Er. destruct Er as [E1 E2].
        apply Z.leb_le in E1, E2. split; assumption. }
      split; [reflexivity|]. split; [reflexivity|].
      exists s. cbn [steps]. split; [reflexivity|]. split; [lia|]. split; [apply same_frame_refl|]. auto.
    + change (operand_with (compile_into k) (IConst v) st0) with (operand k (IConst v) st0) in H.
      destruct (operand k (IConst v) st0) as [[r sta]|] eqn:Eo; [|discriminate].
      apply (Hgen r sta eq_refl). congruence.
  - change (operand_with (compile_into k) (IVar r) st0) with (operand k (IVar r) st0) in H.
    destruct (operand k (IVar r) st0) as [[r' sta]|] eqn:Eo; [|discriminate].
    apply (Hgen r' sta eq_refl). congruence.
  - change (operand_with (compile_into k) (IBin op e1 e2) st0) with (operand k (IBin op e1 e2) st0) in H.
    destruct (operand k (IBin op e1 e2) st0) as [[r' sta]|] eqn:Eo; [|discriminate].
    apply (Hgen r' sta eq_refl). congruence.
Qed.

(* ---- binary operators: emitBinaryOp ---- *)

Lemma op_instr_spec op k ky x y z i :
  op_instr op k ky x y z = Some i ->
  exists opc a, zassoc (select_tbl op) k = Some (opc, a) /\
    i = mkI (if ky then - opc else opc) (if a =? gen_select_reg_x then x else a) y z /\
    direct_form op k = (a =? gen_select_reg_x).
Proof.
  unfold op_instr, direct_form. destruct (zassoc (select_tbl op) k) as [[opc a]|]; [|discriminate].
  intros H. injection H as <-. exists opc, a. auto.
Qed.

Lemma steps_seq p n m s s1 r : steps p n s = SNext s1 -> steps p m s1 = r -> steps p (n + m) s = r.
Proof. intros H1 H2. rewrite steps_app, H1. exact H2. Qed.

Lemma steps_1 p s : steps p 1 s = match vm_step p s with SNext s' => SNext s' | r => r end.
Proof. cbn [steps]. destruct (vm_step p s); reflexivity. Qed.

Lemma in_range_count t b : in_range t b -> 0 <= b -> in_range U64 b.
Proof.
  intros [_ H] H0. unfold in_range, tmin, tmax in *. cbn [signed bits].
  assert (tmax t <= 2 ^ 64 - 1) by (destruct t; cbn; lia).
  unfold tmax in H1. split; lia.
Qed.

Lemma ikind_eqb_refl k : ikind_eqb k k = true.
Proof. destruct k; reflexivity. Qed.

(* the selected instruction for x op y executed on a state where the operands are in place *)
Lemma op_step p f s i op k t a b opc aa (ky : bool) x y z :
  kind_ity k = Some t -> in_range t a -> (if is_shift op then in_range U64 b else in_range t b) ->
  zassoc (select_tbl op) k = Some (opc, aa) ->
  i = mkI (if ky then - opc else opc) (if aa =? gen_select_reg_x then x else aa) y z ->
  cur_func p s = Some f -> nthZ (f_body f) (s_pc s) = Some i ->
  (if ky then y = canon b else rd_int s y = XOk (canon b)) ->
  (if aa =? gen_select_reg_x then rd_int s x = XOk (canon a) else rd_int s z = XOk (canon a)) ->
  valid_ireg s z ->
  vm_step p s =
    match bin op t a b with
    | Some v => SNext (upd_int (set_pc s (s_pc s + 1)) z (canon v))
    | None => SPanic PDivide (set_pc s (s_pc s + 1))
    end.
Proof.
  intros Hk Ha Hb Htbl -> Hf Hi Hy Hx Hz.
  destruct (gen_alu_forms op k t opc aa Hk Htbl) as (_ & Hpos & _).
  apply (alu_step_sound p s f _ op k t a b opc aa Hk Ha Hb Htbl Hf Hi); cbn [i_op i_a i_b i_c].
  - destruct ky; auto.
  - unfold kneg. cbn [i_op]. destruct ky.
    + destruct (Z.ltb_spec (- opc) 0); [|lia]. cbn [rd_intk]. rewrite Hy. reflexivity.
    + destruct (Z.ltb_spec opc 0); [lia|]. cbn [rd_intk]. exact Hy.
  - destruct (aa =? gen_select_reg_x); [exact Hx|]. split; [reflexivity|exact Hx].
  - exact Hz.
Qed.

(* the last instruction(s) of a binary operation, from a state s2 in which the operands are in place *)
Definition final_ok (p : program) (f : func) (op : binop) (t : ity) (final : list instr) (reg x y : Z) (ky : bool) (z : Z) : Prop :=
  forall s2 a b,
    cur_func p s2 = Some f -> code_at f (s_pc s2) final -> 0 <= q0 (s_fp s2) ->
    valid_ireg s2 reg -> valid_ireg s2 z ->
    in_range t a -> (if is_shift op then in_range U64 b else in_range t b) ->
    rd_int s2 x = XOk (canon a) -> (if ky then y = canon b else rd_int s2 y = XOk (canon b)) ->
    match bin op t a b with
    | Some v =>
        exists s', steps p (length final) s2 = SNext s' /\ s_pc s' = s_pc s2 + Z.of_nat (length final) /\
          same_frame s2 s' /\ rd_int s' reg = XOk (canon v) /\
          (forall r, r <> reg -> r <> z -> rd_int s' r = rd_int s2 r)
    | None => exists m s', (m <= length final)%nat /\ steps p m s2 = SPanic PDivide s'
    end.

Lemma final_direct p f op k t opc (ky : bool) x y reg i :
  kind_ity k = Some t -> zassoc (select_tbl op) k = Some (opc, gen_select_reg_x) ->
  i = mkI (if ky then - opc else opc) x y reg ->
  final_ok p f op t [i] reg x y ky reg.
Proof.
  intros Hk Htbl Hi s2 a b Hf Hca Hfp Hreg _ Ha Hb Hx Hy.
  pose proof (op_step p f s2 i op k t a b opc gen_select_reg_x ky x y reg Hk Ha Hb Htbl Hi Hf (code_at_head _ _ _ _ Hca) Hy Hx Hreg) as Hstep.
  destruct (bin op t a b) as [v|].
  - exists (upd_int (set_pc s2 (s_pc s2 + 1)) reg (canon v)). cbn [steps length]. rewrite Hstep.
    split; [reflexivity|]. split; [cbn; lia|]. split; [apply same_frame_upd|]. split; [apply rd_upd_this, Hreg|].
    intros r Hr _. apply rd_upd_other; assumption.
  - exists 1%nat, (set_pc s2 (s_pc s2 + 1)). split; [cbn; lia|]. cbn [steps]. rewrite Hstep. reflexivity.
Qed.

Lemma final_indirect p f op k t opc aa (ky : bool) x y z reg i :
  kind_ity k = Some t -> zassoc (select_tbl op) k = Some (opc, aa) -> (aa =? gen_select_reg_x) = false ->
  i = mkI (if ky then - opc else opc) aa y z ->
  z <> x -> (ky = false -> z <> y) -> z <> reg ->
  final_ok p f op t [move_instr x z; i; move_instr z reg] reg x y ky z.
Proof.
  intros Hk Htbl Haa Hi Hzx Hzy Hzr s2 a b Hf Hca Hfp Hreg Hz Ha Hb Hx Hy.
  (* move x -> z *)
  pose proof (move_step p s2 f x z (canon a) Hf (code_at_head _ _ _ _ Hca) Hx Hz) as H1.
  set (s3 := upd_int (set_pc s2 (s_pc s2 + 1)) z (canon a)) in *.
  assert (Hsf3 : same_frame s2 s3) by apply same_frame_upd.
  assert (Hca3 : code_at f (s_pc s3) [i; move_instr z reg]).
  { apply code_at_tail in Hca. exact Hca. }
  assert (Hz3 : valid_ireg s3 z) by exact (same_frame_valid _ _ _ Hsf3 Hz).
  assert (Hf3 : cur_func p s3 = Some f) by (rewrite (same_frame_cur p _ _ Hsf3); exact Hf).
  assert (Hy3 : if ky then y = canon b else rd_int s3 y = XOk (canon b)).
  { destruct ky; [exact Hy|]. unfold s3. rewrite rd_upd_other; auto. intros E. apply (Hzy eq_refl). congruence. }
  assert (Hx3 : rd_int s3 z = XOk (canon a)) by (apply rd_upd_this, Hz).
  assert (Hi' : i = mkI (if ky then - opc else opc) (if aa =? gen_select_reg_x then z else aa) y z) by (rewrite Haa; exact Hi).
  pose proof (op_step p f s3 i op k t a b opc aa ky z y z Hk Ha Hb Htbl Hi' Hf3 (code_at_head _ _ _ _ Hca3) Hy3) as H2.
  rewrite Haa in H2. specialize (H2 Hx3 Hz3).
  destruct (bin op t a b) as [v|].
  - set (s4 := upd_int (set_pc s3 (s_pc s3 + 1)) z (canon v)) in *.
    assert (Hsf4 : same_frame s3 s4) by apply same_frame_upd.
    assert (Hf4 : cur_func p s4 = Some f) by (rewrite (same_frame_cur p _ _ Hsf4); exact Hf3).
    assert (Hca4 : code_at f (s_pc s4) [move_instr z reg]) by (apply code_at_tail in Hca3; exact Hca3).
    assert (Hreg4 : valid_ireg s4 reg).
    { apply (same_frame_valid s3 s4); [exact Hsf4|]. apply (same_frame_valid s2 s3); assumption. }
    assert (Hfp3 : 0 <= q0 (s_fp s3)) by (destruct Hsf3 as (_ & E & _); rewrite E; exact Hfp).
    assert (Hz4 : rd_int s4 z = XOk (canon v)) by (apply rd_upd_this, Hz3).
    pose proof (move_step p s4 f z reg (canon v) Hf4 (code_at_head _ _ _ _ Hca4) Hz4 Hreg4) as H3.
    set (s5 := upd_int (set_pc s4 (s_pc s4 + 1)) reg (canon v)) in *.
    exists s5. cbn [steps length]. rewrite H1, H2, H3.
    split; [reflexivity|]. split; [cbn; lia|].
    split. { apply (same_frame_trans s2 s3); [exact Hsf3|]. apply (same_frame_trans s3 s4); [exact Hsf4|apply same_frame_upd]. }
    split; [apply rd_upd_this, Hreg4|].
    intros r Hr Hrz.
    assert (Hfp4 : 0 <= q0 (s_fp s4)) by (destruct Hsf4 as (_ & E & _); rewrite E; exact Hfp3).
    unfold s5. rewrite rd_upd_other by assumption.
    unfold s4. rewrite rd_upd_other by assumption.
    unfold s3. rewrite rd_upd_other by assumption. reflexivity.
  - exists 2%nat, (set_pc s3 (s_pc s3 + 1)). split; [cbn; lia|]. cbn [steps]. rewrite H1, H2. reflexivity.
Qed.

(* operands, then the final instructions *)
Lemma bin_assemble op e1 e2 k t kk reg z st0 x sta y (ky : bool) stb code1 code2 final :
  kind_ity k = Some t -> ik_ity kk = t ->
  (forall p f, final_ok p f op t final reg x y ky z) ->
  z = reg \/ z = c_n stb + 1 ->
  forall P env nv p f s fuel out,
    run_hyps p f s (code1 ++ code2 ++ final) (c_pool stb) kk env nv (c_n st0) (2 * isize (IBin op e1 e2)) ->
    vars_le (IBin op e1 e2) nv -> 0 < reg <= c_n st0 ->
    c_n st0 <= c_n sta <= c_n st0 + 2 * isize e1 -> c_n sta <= c_n stb <= c_n sta + 2 * isize e2 ->
    (exists ext, c_pool stb = c_pool sta ++ ext) ->
    (forall P env nv p f s fuel out,
        run_hyps p f s code1 (c_pool sta) kk env nv (c_n st0) (2 * isize e1 + 1) -> vars_le e1 nv ->
        match eval P fuel env out (to_expr kk e1) with
        | ROk (v, out') =>
            exists xv, v = VI kk xv /\ in_range t xv /\ out' = out /\ 0 < x <= c_n sta /\
              exists s', steps p (length code1) s = SNext s' /\ s_pc s' = s_pc s + Z.of_nat (length code1) /\
                same_frame s s' /\ rd_int s' x = XOk (canon xv) /\
                (forall r, 0 < r <= c_n st0 -> rd_int s' r = rd_int s r)
        | RPanic PanDivide out' => out' = out /\ exists m s', (m <= length code1)%nat /\ steps p m s = SPanic PDivide s'
        | _ => True
        end) ->
    (forall P env nv p f s fuel out,
        run_hyps p f s code2 (c_pool stb) kk env nv (c_n sta) (2 * isize e2 + 1) -> vars_le e2 nv ->
        match eval P fuel env out (to_expr kk e2) with
        | ROk (v, out') =>
            exists xv, v = VI kk xv /\ in_range t xv /\ out' = out /\ (if ky then y = canon xv else 0 < y <= c_n stb) /\
              exists s', steps p (length code2) s = SNext s' /\ s_pc s' = s_pc s + Z.of_nat (length code2) /\
                same_frame s s' /\ (if ky then True else rd_int s' y = XOk (canon xv)) /\
                (forall r, 0 < r <= c_n sta -> rd_int s' r = rd_int s r)
        | RPanic PanDivide out' => out' = out /\ exists m s', (m <= length code2)%nat /\ steps p m s = SPanic PDivide s'
        | _ => True
        end) ->
    match eval P fuel env out (to_expr kk (IBin op e1 e2)) with
    | ROk (v, out') =>
        exists xv, v = VI kk xv /\ in_range t xv /\ out' = out /\
          exists s', exec_ok p s (code1 ++ code2 ++ final) reg xv (c_n st0) s'
    | RPanic PanDivide out' =>
        out' = out /\ exists m s', (m <= length (code1 ++ code2 ++ final))%nat /\ steps p m s = SPanic PDivide s'
    | _ => True
    end.
Proof.
  intros Hk Hkk Hfinal Hz P env nv p f s fuel out
    (Hf & Hca & Hpool & Hnv & Hn0 & Hfp & Hroom & Henv) [Hv1 Hv2] Hreg Hna Hnb [ext2 Hp2] Hrun1 Hrun2.
  cbn [isize] in Hroom.
  pose proof (isize_pos e1) as Hi1. pose proof (isize_pos e2) as Hi2.
  apply code_at_app in Hca. destruct Hca as [Hca1 Hca23]. apply code_at_app in Hca23. destruct Hca23 as [Hca2 Hca3].
  destruct fuel as [|fuel]; cbn [eval to_expr]; [exact I|].
  (* e1 *)
  assert (Hh1 : run_hyps p f s code1 (c_pool sta) kk env nv (c_n st0) (2 * isize e1 + 1)).
  { refine (conj Hf (conj Hca1 (conj _ (conj Hnv (conj Hn0 (conj Hfp (conj _ Henv))))))); [|lia].
    rewrite Hp2 in Hpool. exact (pool_sub_prefix _ _ _ Hpool). }
  specialize (Hrun1 P env nv p f s fuel out Hh1 Hv1).
  destruct (eval P fuel env out (to_expr kk e1)) as [[va o1]|c1 o1| |]; cbn [bindr]; try exact I.
  2: { destruct c1; try exact I. destruct Hrun1 as (-> & m & s' & Hm & Hs). split; [reflexivity|].
       exists m, s'. split; [rewrite app_length; lia|exact Hs]. }
  destruct Hrun1 as (a & -> & Ha & -> & Hx & s1 & Hs1 & Hpc1 & Hsf1 & Hrdx & Hpres1).
  (* e2, from s1 *)
  assert (Hfp1 : s_fp s1 = s_fp s) by (destruct Hsf1 as (_ & E & _); exact E).
  assert (Hst1 : s_st s1 = s_st s) by (destruct Hsf1 as (_ & _ & E & _); exact E).
  assert (Hh2 : run_hyps p f s1 code2 (c_pool stb) kk env nv (c_n sta) (2 * isize e2 + 1)).
  { refine (conj _ (conj _ (conj Hpool (conj _ (conj _ (conj _ (conj _ _))))))); try lia.
    - rewrite (same_frame_cur p s s1 Hsf1). exact Hf.
    - rewrite Hpc1. exact Hca2.
    - rewrite Hfp1. exact Hfp.
    - rewrite Hfp1, Hst1. lia.
    - intros r v Hr Hl. destruct (Henv r v Hr Hl) as (xv & Hv & Hxr & Hrd). exists xv. split; [exact Hv|]. split; [exact Hxr|].
      rewrite Hpres1 by lia. exact Hrd. }
  specialize (Hrun2 P env nv p f s1 fuel out Hh2 Hv2).
  destruct (eval P fuel env out (to_expr kk e2)) as [[vb o2]|c2 o2| |]; cbn [bindr]; try exact I.
  2: { destruct c2; try exact I. destruct Hrun2 as (-> & m & s' & Hm & Hs). split; [reflexivity|].
       exists (length code1 + m)%nat, s'. split; [rewrite !app_length; lia|]. exact (steps_seq p _ _ s s1 _ Hs1 Hs). }
  destruct Hrun2 as (b & -> & Hb & -> & Hy & s2 & Hs2 & Hpc2 & Hsf2 & Hrdy & Hpres2).
  (* the operator *)
  assert (Hsf02 : same_frame s s2) by exact (same_frame_trans _ _ _ Hsf1 Hsf2).
  assert (Hfp2 : s_fp s2 = s_fp s) by (destruct Hsf02 as (_ & E & _); exact E).
  assert (Hst2 : s_st s2 = s_st s) by (destruct Hsf02 as (_ & _ & E & _); exact E).
  assert (Hf2 : cur_func p s2 = Some f) by (rewrite (same_frame_cur p s s2 Hsf02); exact Hf).
  assert (Hca3' : code_at f (s_pc s2) final).
  { rewrite Hpc2, Hpc1. replace (s_pc s + Z.of_nat (length code1) + Z.of_nat (length code2)) with
      (s_pc s + Z.of_nat (length code1) + Z.of_nat (length code2)) by lia. exact Hca3. }
  assert (Hvreg : valid_ireg s2 reg) by (unfold valid_ireg; rewrite Hfp2, Hst2; lia).
  assert (Hvz : valid_ireg s2 z) by (unfold valid_ireg; rewrite Hfp2, Hst2; destruct Hz as [-> | ->]; lia).
  assert (Hx2 : rd_int s2 x = XOk (canon a)) by (rewrite Hpres2 by lia; exact Hrdx).
  assert (Hy2 : if ky then y = canon b else rd_int s2 y = XOk (canon b)) by (destruct ky; assumption).
  unfold eval_bin.
  assert (Hcount : is_shift op = true -> b <? 0 = false -> in_range U64 b).
  { intros _ Hb0. apply Z.ltb_ge in Hb0. exact (in_range_count t b Hb Hb0). }
  assert (Hfin : forall Hbr : (if is_shift op then in_range U64 b else in_range t b),
    match bin op t a b with
    | Some v =>
        exists s', steps p (length final) s2 = SNext s' /\ s_pc s' = s_pc s2 + Z.of_nat (length final) /\
          same_frame s2 s' /\ rd_int s' reg = XOk (canon v) /\ (forall r, r <> reg -> r <> z -> rd_int s' r = rd_int s2 r)
    | None => exists m s', (m <= length final)%nat /\ steps p m s2 = SPanic PDivide s'
    end).
  { intros Hbr. apply (Hfinal p f s2 a b Hf2 Hca3'); auto. rewrite Hfp2. exact Hfp. }
  assert (Hok : forall v, bin op t a b = Some v -> (if is_shift op then in_range U64 b else in_range t b) ->
    exists xv, VI kk v = VI kk xv /\ in_range t xv /\ out = out /\
      exists s', exec_ok p s (code1 ++ code2 ++ final) reg xv (c_n st0) s').
  { intros v Hbin Hbr. exists v. split; [reflexivity|]. split; [exact (bin_in_range op t a b v Ha Hbr Hbin)|]. split; [reflexivity|].
    specialize (Hfin Hbr). rewrite Hbin in Hfin. destruct Hfin as (s' & Hs3 & Hpc3 & Hsf3 & Hrd3 & Hpres3).
    exists s'. unfold exec_ok. rewrite !app_length.
    split. { exact (steps_seq p _ _ s s1 _ Hs1 (steps_seq p _ _ s1 s2 _ Hs2 Hs3)). }
    split; [rewrite Hpc3, Hpc2, Hpc1; lia|].
    split; [exact (same_frame_trans _ _ _ Hsf02 Hsf3)|]. split; [exact Hrd3|].
    intros r Hr Hne. rewrite Hpres3; [|exact Hne|destruct Hz as [-> | ->]; [exact Hne|lia]].
    rewrite Hpres2 by lia. apply Hpres1. exact Hr. }
  assert (Hdiv : bin op t a b = None -> (if is_shift op then in_range U64 b else in_range t b) ->
    out = out /\ exists m s', (m <= length (code1 ++ code2 ++ final))%nat /\ steps p m s = SPanic PDivide s').
  { intros Hbin Hbr. split; [reflexivity|]. specialize (Hfin Hbr). rewrite Hbin in Hfin. destruct Hfin as (m & s' & Hm & Hs3).
    exists (length code1 + (length code2 + m))%nat, s'. split; [rewrite !app_length; lia|].
    exact (steps_seq p _ _ s s1 _ Hs1 (steps_seq p _ _ s1 s2 _ Hs2 Hs3)). }
  rewrite Hkk.
  destruct (is_shift op) eqn:Esh.
  - destruct (b <? 0) eqn:Eb; cbn [bindr]; [exact I|].
    destruct (bin op t a b) as [v|] eqn:Ebin; cbn [bindr].
    + apply (Hok v eq_refl). exact (Hcount eq_refl eq_refl).
    + exact I.
  - rewrite ikind_eqb_refl.
    destruct (bin op t a b) as [v|] eqn:Ebin; cbn [bindr].
    + apply (Hok v eq_refl). exact Hb.
    + apply Hdiv; [reflexivity|exact Hb].
Qed.

(* the register of an operand is in use afterwards *)
Lemma operand_reg_le e k t kk st0 x sta nv :
  compile_spec e -> kind_ity k = Some t -> ik_ity kk = t ->
  operand k e st0 = Some (x, sta) -> vars_le e nv -> nv <= c_n st0 -> x <= c_n sta.
Proof.
  intros IH Hk Hkk H Hv Hnv. unfold operand, operand_with in H.
  assert (Hnew : forall e', compile_into k e' (c_n st0 + 1) (mkC (c_n st0 + 1) (c_pool st0) (c_code st0)) = Some sta ->
                 compile_spec e' -> c_n st0 + 1 <= c_n sta).
  { intros e' Hc IH'. destruct (IH' k t kk _ _ _ Hk Hkk Hc) as (_ & _ & _ & Hn & _). cbn [c_n] in Hn. lia. }
  destruct e as [v|r|o a b].
  - cbn [new_reg] in H. destruct (compile_into k (IConst v) _ _) as [c|] eqn:Ec; [|discriminate].
    injection H as <- <-. exact (Hnew _ Ec IH).
  - injection H as <- <-. cbn [vars_le] in Hv. lia.
  - cbn [new_reg] in H. destruct (compile_into k (IBin o a b) _ _) as [c|] eqn:Ec; [|discriminate].
    injection H as <- <-. exact (Hnew _ Ec IH).
Qed.

Lemma operandK_reg_le e k t kk st0 y stb nv :
  compile_spec e -> kind_ity k = Some t -> ik_ity kk = t ->
  operandK k e st0 = Some (y, false, stb) -> vars_le e nv -> nv <= c_n st0 -> y <= c_n stb.
Proof.
  intros IH Hk Hkk H Hv Hnv. unfold operandK, operandK_with in H.
  destruct e as [v|r|o a b].
  - destruct (fits_int8 (const64 v)); [discriminate|].
    change (operand_with (compile_into k) (IConst v) st0) with (operand k (IConst v) st0) in H.
    destruct (operand k (IConst v) st0) as [[r sta]|] eqn:Eo; [|discriminate]. injection H as <- <-.
    exact (operand_reg_le _ k t kk st0 r sta nv IH Hk Hkk Eo Hv Hnv).
  - change (operand_with (compile_into k) (IVar r) st0) with (operand k (IVar r) st0) in H.
    destruct (operand k (IVar r) st0) as [[r' sta]|] eqn:Eo; [|discriminate]. injection H as <- <-.
    exact (operand_reg_le _ k t kk st0 r' sta nv IH Hk Hkk Eo Hv Hnv).
  - change (operand_with (compile_into k) (IBin o a b) st0) with (operand k (IBin o a b) st0) in H.
    destruct (operand k (IBin o a b) st0) as [[r' sta]|] eqn:Eo; [|discriminate]. injection H as <- <-.
    exact (operand_reg_le _ k t kk st0 r' sta nv IH Hk Hkk Eo Hv Hnv).
Qed.

Lemma compile_spec_bin op e1 e2 : compile_spec e1 -> compile_spec e2 -> compile_spec (IBin op e1 e2).
Proof.
  intros IH1 IH2 k t kk reg st0 st1 Hk Hkk H.
  pose proof (operand_of_compile e1 IH1) as O1.
  pose proof (operandK_of_operand e2 (operand_of_compile e2 IH2)) as O2.
  cbn [compile_into] in H.
  change (operand_with (compile_into k) e1 st0) with (operand k e1 st0) in H.
  destruct (operand k e1 st0) as [[x sta]|] eqn:E1; [|discriminate].
  change (operandK_with (compile_into k) e2 sta) with (operandK k e2 sta) in H.
  destruct (operandK k e2 sta) as [[[y ky] stb]|] eqn:E2; [|discriminate].
  destruct (O1 k t kk st0 x sta Hk Hkk E1) as (code1 & Hc1 & [ext1 Hp1] & Hn1 & Hl1 & Hrun1).
  destruct (O2 k t kk sta y ky stb Hk Hkk E2) as (code2 & Hc2 & [ext2 Hp2] & Hn2 & Hl2 & Hrun2).
  pose proof (isize_pos e1) as Hi1. pose proof (isize_pos e2) as Hi2.
  destruct (direct_form op k) eqn:Edir.
  - (* one instruction writing the destination *)
    destruct (op_instr op k ky x y reg) as [i|] eqn:Ei; [|discriminate]. injection H as <-.
    destruct (op_instr_spec _ _ _ _ _ _ _ Ei) as (opc & aa & Htbl & Hi & Hd). rewrite Edir in Hd.
    symmetry in Hd. apply Z.eqb_eq in Hd. subst aa.
    exists (code1 ++ code2 ++ [i]). cbn [emit c_code c_pool c_n].
    split. { rewrite Hc2, Hc1, <- !app_assoc. reflexivity. }
    split. { exists (ext1 ++ ext2). rewrite Hp2, Hp1, app_assoc. reflexivity. }
    cbn [isize]. split; [lia|]. split. { rewrite !app_length. cbn [length]. lia. }
    intros P env nv p f s fuel out Hh Hvars Hreg.
    refine (bin_assemble op e1 e2 k t kk reg reg st0 x sta y ky stb code1 code2 [i] Hk Hkk _ (or_introl eq_refl)
              P env nv p f s fuel out Hh Hvars Hreg Hn1 Hn2 (ex_intro _ ext2 Hp2) Hrun1 Hrun2).
    intros p' f'. apply (final_direct p' f' op k t opc ky x y reg i Hk Htbl).
    rewrite Hi. change (gen_select_reg_x =? gen_select_reg_x) with true. reflexivity.
  - (* a temporary: move, operate in place, move *)
    unfold new_reg in H.
    destruct (op_instr op k ky (c_n stb + 1) y (c_n stb + 1)) as [i|] eqn:Ei; [|discriminate]. injection H as <-.
    destruct (op_instr_spec _ _ _ _ _ _ _ Ei) as (opc & aa & Htbl & Hi & Hd). rewrite Edir in Hd. symmetry in Hd.
    rewrite Hd in Hi.
    exists (code1 ++ code2 ++ [move_instr x (c_n stb + 1); i; move_instr (c_n stb + 1) reg]). cbn [emit set_n c_code c_pool c_n].
    split. { rewrite Hc2, Hc1, <- !app_assoc. reflexivity. }
    split. { exists (ext1 ++ ext2). rewrite Hp2, Hp1, app_assoc. reflexivity. }
    cbn [isize]. split; [lia|]. split. { rewrite !app_length. cbn [length]. lia. }
    intros P env nv p f s fuel out Hh Hvars Hreg.
    (* the operand registers are at most c_n stb: the temporary is none of them *)
    destruct Hh as (Hf & Hca & Hpool & Hnv & Hn0 & Hfp & Hroom & Henv). destruct Hvars as [Hv1 Hv2].
    refine (bin_assemble op e1 e2 k t kk reg (c_n stb + 1) st0 x sta y ky stb code1 code2 _ Hk Hkk _ (or_intror eq_refl)
              P env nv p f s fuel out
              (conj Hf (conj Hca (conj Hpool (conj Hnv (conj Hn0 (conj Hfp (conj Hroom Henv)))))))
              (conj Hv1 Hv2) Hreg Hn1 Hn2 (ex_intro _ ext2 Hp2) Hrun1 Hrun2).
    intros p' f'. apply (final_indirect p' f' op k t opc aa ky x y (c_n stb + 1) reg i Hk Htbl Hd Hi).
    + pose proof (operand_reg_le e1 k t kk st0 x sta nv IH1 Hk Hkk E1 Hv1 Hnv). lia.
    + intros Hky. subst ky. pose proof (operandK_reg_le e2 k t kk sta y stb nv IH2 Hk Hkk E2 Hv2 ltac:(lia)). lia.
    + lia.
Qed.

Theorem compile_spec_all e : compile_spec e.
Proof.
  induction e as [v|r|op e1 IH1 e2 IH2].
  - apply compile_spec_const.
  - apply compile_spec_var.
  - apply compile_spec_bin; assumption.
Qed.

(* expr_compile_correct, in one piece *)
Theorem expr_compile_correct e k t kk reg st0 st1 :
  kind_ity k = Some t -> ik_ity kk = t -> compile_into k e reg st0 = Some st1 ->
  exists code,
    c_code st1 = c_code st0 ++ code /\ Z.of_nat (length code) <= 3 * isize e /\
    forall P env p f s fuel out,
      cur_func p s = Some f -> code_at f (s_pc s) code -> pool_sub f (c_pool st1) ->
      vars_le e (c_n st0) -> 0 < reg <= c_n st0 ->
      0 <= q0 (s_fp s) -> q0 (s_fp s) + c_n st0 + 2 * isize e < q0 (s_st s) ->
      env_regs kk env (c_n st0) s ->
      match eval P fuel env out (to_expr kk e) with
      | ROk (v, out') =>
          exists x, v = VI kk x /\ in_range t x /\ out' = out /\ exists s', exec_ok p s code reg x (c_n st0) s'
      | RPanic PanDivide out' =>
          out' = out /\ exists m s', (m <= length code)%nat /\ steps p m s = SPanic PDivide s'
      | _ => True
      end.
Proof.
  intros Hk Hkk H.
  destruct (compile_spec_all e k t kk reg st0 st1 Hk Hkk H) as (code & Hc & _ & _ & Hlen & Hrun).
  exists code. split; [exact Hc|]. split; [exact Hlen|].
  intros P env p f s fuel out Hf Hca Hpool Hvars Hreg Hfp Hroom Henv.
  apply (Hrun P env (c_n st0) p f s fuel out); auto.
  refine (conj Hf (conj Hca (conj Hpool (conj _ (conj _ (conj Hfp (conj Hroom Henv))))))); lia.
Qed.

(* the reference semantics is defined on these expressions: with enough fuel
   an expression whose variables are bound to integers of the type and whose
   constants are in range evaluates to a value or panics, it is never stuck *)
Fixpoint consts_ok (t : ity) (e : iexpr) : Prop :=
  match e with
  | IConst v => in_range t v
  | IVar _ => True
  | IBin _ a b => consts_ok t a /\ consts_ok t b
  end.
Fixpoint idepth (e : iexpr) : nat :=
  match e with IBin _ a b => S (Nat.max (idepth a) (idepth b)) | _ => 1%nat end.

Fixpoint ivars (e : iexpr) : list Z :=
  match e with IVar r => [r] | IBin _ a b => ivars a ++ ivars b | IConst _ => [] end.

Lemma eval_defined P kk env out e fuel :
  consts_ok (ik_ity kk) e ->
  (forall r, In r (ivars e) -> exists x, lookup env r = Some (VI kk x) /\ in_range (ik_ity kk) x) ->
  (idepth e <= fuel)%nat ->
  (exists x, eval P fuel env out (to_expr kk e) = ROk (VI kk x, out) /\ in_range (ik_ity kk) x) \/
  (exists c, eval P fuel env out (to_expr kk e) = RPanic c out).
Proof.
  intros Hc Hv. revert fuel. induction e as [v|r|op e1 IH1 e2 IH2]; intros fuel Hf.
  - destruct fuel as [|fuel]; [cbn in Hf; lia|]. cbn [eval to_expr]. cbn [consts_ok] in Hc.
    left. exists v. destruct Hc as [H1 H2]. unfold in_rangeb.
    destruct (Z.leb_spec (tmin (ik_ity kk)) v); [|lia]. destruct (Z.leb_spec v (tmax (ik_ity kk))); [|lia].
    split; [reflexivity|split; assumption].
  - destruct fuel as [|fuel]; [cbn in Hf; lia|]. cbn [eval to_expr].
    destruct (Hv r (or_introl eq_refl)) as (x & Hl & Hx). rewrite Hl. left. exists x. split; [reflexivity|exact Hx].
  - destruct fuel as [|fuel]; [cbn in Hf; lia|]. cbn [eval to_expr]. cbn [consts_ok] in Hc. destruct Hc as [Hc1 Hc2].
    cbn [idepth] in Hf.
    destruct (IH1 Hc1 (fun r Hr => Hv r (in_or_app _ _ _ (or_introl Hr))) fuel ltac:(lia)) as [(a & Ea & Ha)|(c & Ea)]; rewrite Ea; cbn [bindr].
    2: { right. exists c. reflexivity. }
    destruct (IH2 Hc2 (fun r Hr => Hv r (in_or_app _ _ _ (or_intror Hr))) fuel ltac:(lia)) as [(b & Eb & Hb)|(c & Eb)]; rewrite Eb; cbn [bindr].
    2: { right. exists c. reflexivity. }
    unfold eval_bin. destruct (is_shift op) eqn:Es.
    + destruct (b <? 0) eqn:Eb0; cbn [bindr]; [right; exists PanShift; reflexivity|].
      destruct (bin op (ik_ity kk) a b) as [v|] eqn:Ebin; cbn [bindr].
      * left. exists v. split; [reflexivity|]. apply (bin_in_range op _ a b v Ha); [|exact Ebin]. rewrite Es.
        apply Z.ltb_ge in Eb0. exact (in_range_count _ b Hb Eb0).
      * destruct op; cbn in Es, Ebin; discriminate.
    + rewrite ikind_eqb_refl. destruct (bin op (ik_ity kk) a b) as [v|] eqn:Ebin; cbn [bindr].
      * left. exists v. split; [reflexivity|]. apply (bin_in_range op _ a b v Ha); [|exact Ebin]. rewrite Es. exact Hb.
      * right. exists PanDivide. reflexivity.
Qed.
