(* C30: the generated list of map-range sites equals the classified list, and
   every classification names one of the patterns proved order independent in
   lib/Perm.v (or a reviewed reason why the order cannot reach the output). *)
From Coq Require Import List NArith Bool String.
From Verif Require Import Facts_maprange.
Import ListNotations.

Inductive pattern := NoReach | PointUpdate | MaxMin | SetInsert | Count | CollectSort | AnyWitnessError.

Definition pattern_of (n : N) : option pattern :=
  match n with
  | 0%N => Some NoReach | 1%N => Some PointUpdate | 2%N => Some MaxMin | 3%N => Some SetInsert
  | 4%N => Some Count | 5%N => Some CollectSort | 6%N => Some AnyWitnessError | _ => None
  end.

Definition mem_str (s : string) (l : list string) : bool := existsb (String.eqb s) l.

Fixpoint nodup_str (l : list string) : bool :=
  match l with [] => true | x :: r => negb (mem_str x r) && nodup_str r end.

(* every generated site is classified, every classified site still exists,
   no key is listed twice, every pattern number is known *)
Definition sites_classified : bool :=
  forallb (fun s => mem_str s (map fst gen_map_range_classified)) gen_map_range_sites &&
  forallb (fun c => mem_str (fst c) gen_map_range_sites) gen_map_range_classified &&
  nodup_str (map fst gen_map_range_classified) && nodup_str gen_map_range_sites &&
  forallb (fun c => match pattern_of (snd c) with Some _ => true | None => false end) gen_map_range_classified.

Lemma sites_classified_ok : sites_classified = true.
Proof. vm_compute. reflexivity. Qed.

Lemma mem_str_In s l : mem_str s l = true -> In s l.
Proof.
  unfold mem_str. intros H. apply existsb_exists in H. destruct H as (x & Hx & He).
  apply String.eqb_eq in He. subst. exact Hx.
Qed.

Lemma sites_split :
  forallb (fun s => mem_str s (map fst gen_map_range_classified)) gen_map_range_sites = true /\
  forallb (fun c => mem_str (fst c) gen_map_range_sites) gen_map_range_classified = true /\
  forallb (fun c => match pattern_of (snd c) with Some _ => true | None => false end) gen_map_range_classified = true.
Proof.
  pose proof sites_classified_ok as H. unfold sites_classified in H.
  apply andb_prop in H. destruct H as [H H5]. apply andb_prop in H. destruct H as [H H4].
  apply andb_prop in H. destruct H as [H H3]. apply andb_prop in H. destruct H as [H1 H2]. auto.
Qed.

Theorem every_site_has_a_pattern : forall s, In s gen_map_range_sites ->
  exists n p, In (s, n) gen_map_range_classified /\ pattern_of n = Some p.
Proof.
  intros s Hs. destruct sites_split as (H1 & _ & H5).
  pose proof (proj1 (forallb_forall _ _) H1 s Hs) as Hm. apply mem_str_In in Hm.
  apply in_map_iff in Hm. destruct Hm as ([s' n] & He & Hin). cbn in He. subst s'.
  pose proof (proj1 (forallb_forall _ _) H5 (s, n) Hin) as Hp. cbn in Hp.
  destruct (pattern_of n) as [p|] eqn:Hpn; [|discriminate]. exists n, p. auto.
Qed.

Theorem every_classified_site_exists : forall c, In c gen_map_range_classified -> In (fst c) gen_map_range_sites.
Proof.
  intros c Hc. destruct sites_split as (_ & H2 & _).
  apply mem_str_In. exact (proj1 (forallb_forall _ _) H2 c Hc).
Qed.
