(* Proofs about the model of constant.go (ConstsM.v): integer arithmetic across
   the two integer classes, rationals, conversions of floats and rationals to
   integer kinds, strings, booleans, float64 shortcuts, complex arithmetic. *)
From Coq Require Import ZArith List Bool Lia Znumtheory QArith.
From Verif Require Import Facts_consts ConstsM Consts_proofs.
Import ListNotations.
Open Scope Z_scope.

(* ------------------------------------------------------------------ integer constants of either class *)

Definition rc_int (c : rc) : option Z :=
  match c with I64 z | Big z => Some z | _ => None end.

(* well formed: an int64Const holds an int64 *)
Definition wf_int (c : rc) : Prop :=
  match c with I64 z => in64 z | Big _ => True | _ => False end.

Lemma int_norm_int z : rc_int (int_norm z) = Some z /\ wf_int (int_norm z).
Proof.
  unfold int_norm. destruct (is_int64 z) eqn:H; split; try reflexivity; try exact I.
  apply is_int64_spec. exact H.
Qed.

Definition arith_spec (o : op) (a b : Z) : option Z :=
  match o with
  | OAdd => Some (a + b) | OSub => Some (a - b) | OMul => Some (a * b)
  | ODiv => if b =? 0 then None else Some (Z.quot a b)
  | OMod => if b =? 0 then None else Some (Z.rem a b)
  | _ => None
  end.

Lemma bin_big_ok o a b c : bin_big o a b = Ok (Num c) ->
  forall v, arith_spec o a b = Some v -> rc_int c = Some v /\ wf_int c.
Proof.
  intros H v Hv. destruct o; cbn in Hv; try discriminate; cbn in H.
  - destruct (big_overflow (a + b)); inversion H; subst. inversion Hv. split; [reflexivity|exact I].
  - destruct (big_overflow (a - b)); inversion H; subst. inversion Hv. split; [reflexivity|exact I].
  - destruct (big_overflow (a * b)); inversion H; subst. inversion Hv. split; [reflexivity|exact I].
  - destruct (b =? 0); inversion H; subst. inversion Hv. split; [reflexivity|exact I].
  - destruct (b =? 0); inversion H; subst. inversion Hv. split; [reflexivity|exact I].
Qed.

Lemma bin_i64_ok o a b c : in64 a -> in64 b -> bin_i64 o a b = Ok (Num c) ->
  forall v, arith_spec o a b = Some v -> rc_int c = Some v /\ wf_int c.
Proof.
  intros Ha Hb H v Hv. destruct o; cbn in Hv; try discriminate.
  - rewrite i64_add_exact in H by assumption. inversion H; inversion Hv; subst. apply int_norm_int.
  - rewrite i64_sub_exact in H by assumption. inversion H; inversion Hv; subst. apply int_norm_int.
  - rewrite i64_mul_exact in H by assumption. inversion H; inversion Hv; subst. apply int_norm_int.
  - destruct (Z.eqb_spec b 0); [discriminate|].
    rewrite i64_div_exact in H by assumption. inversion H; inversion Hv; subst. apply int_norm_int.
  - destruct (Z.eqb_spec b 0); [discriminate|].
    destruct (i64_rem_exact a b Ha Hb n) as [E R]. rewrite E in H. inversion H; inversion Hv; subst.
    split; [reflexivity|exact R].
Qed.

(* + - * / % on integer constants of any class mix: whenever the operation
   yields a constant, it is the exact result *)
Theorem int_arith_exact o x y a b c :
  rc_int x = Some a -> rc_int y = Some b -> wf_int x -> wf_int y ->
  bin_arith o x y = Ok (Num c) ->
  forall v, arith_spec o a b = Some v -> rc_int c = Some v /\ wf_int c.
Proof.
  intros Hx Hy Wx Wy H v Hv.
  destruct x as [x|x| | |], y as [y|y| | |]; try discriminate; cbn in Hx, Hy; inversion Hx; inversion Hy; subst;
    unfold bin_arith in H; cbn in H.
  - exact (bin_i64_ok o a b c Wx Wy H v Hv).
  - exact (bin_big_ok o a b c H v Hv).
  - exact (bin_big_ok o a b c H v Hv).
  - exact (bin_big_ok o a b c H v Hv).
Qed.

(* and it yields a constant unless the exact result exceeds 512 bits (or the divisor is zero) *)
Theorem int_arith_total o x y a b v :
  rc_int x = Some a -> rc_int y = Some b -> wf_int x -> wf_int y ->
  arith_spec o a b = Some v -> Z.abs v < 2 ^ 512 ->
  exists c, bin_arith o x y = Ok (Num c).
Proof.
  intros Hx Hy Wx Wy Hv Hs.
  assert (Hbig : exists c, bin_big o a b = Ok (Num c)).
  { destruct o; cbn in Hv; try discriminate; cbn.
    - inversion Hv; subst. apply big_overflow_false in Hs. rewrite Hs. eexists; reflexivity.
    - inversion Hv; subst. apply big_overflow_false in Hs. rewrite Hs. eexists; reflexivity.
    - inversion Hv; subst. apply big_overflow_false in Hs. rewrite Hs. eexists; reflexivity.
    - destruct (b =? 0); [discriminate|eexists; reflexivity].
    - destruct (b =? 0); [discriminate|eexists; reflexivity]. }
  destruct x as [x|x| | |], y as [y|y| | |]; try discriminate; cbn in Hx, Hy; inversion Hx; inversion Hy; subst;
    unfold bin_arith; cbn; try exact Hbig.
  destruct o; cbn in Hv; try discriminate.
  - rewrite i64_add_exact by assumption. eexists; reflexivity.
  - rewrite i64_sub_exact by assumption. eexists; reflexivity.
  - rewrite i64_mul_exact by assumption. eexists; reflexivity.
  - destruct (Z.eqb_spec b 0); [discriminate|]. rewrite i64_div_exact by assumption. eexists; reflexivity.
  - destruct (Z.eqb_spec b 0); [discriminate|]. destruct (i64_rem_exact a b Wx Wy n) as [E _]. rewrite E. eexists; reflexivity.
Qed.

(* comparison of integer constants is the comparison of the integers *)
Theorem int_cmp_exact o x y a b : is_cmp_op o = true ->
  rc_int x = Some a -> rc_int y = Some b ->
  bin_arith o x y = Ok (Bool (cmp_result o (Z.compare a b))).
Proof.
  intros Ho Hx Hy.
  destruct x as [x|x| | |], y as [y|y| | |]; try discriminate; cbn in Hx, Hy; inversion Hx; inversion Hy; subst;
    unfold bin_arith; cbn; destruct o; try discriminate; reflexivity.
Qed.

Lemma cmp_result_spec a b :
  cmp_result OEq (Z.compare a b) = (a =? b) /\ cmp_result ONe (Z.compare a b) = negb (a =? b) /\
  cmp_result OLt (Z.compare a b) = (a <? b) /\ cmp_result OLe (Z.compare a b) = (a <=? b) /\
  cmp_result OGt (Z.compare a b) = (b <? a) /\ cmp_result OGe (Z.compare a b) = (b <=? a).
Proof.
  destruct (Z.compare_spec a b); cbn;
    destruct (Z.eqb_spec a b), (Z.ltb_spec a b), (Z.leb_spec a b), (Z.ltb_spec b a), (Z.leb_spec b a);
    try lia; repeat split; reflexivity.
Qed.

(* ------------------------------------------------------------------ rationals *)

Lemma mkrat_spec n d : 0 < d ->
  (fst (mkrat n d) # snd (mkrat n d) == n # Z.to_pos d)%Q /\
  Z.gcd (fst (mkrat n d)) (Zpos (snd (mkrat n d))) = 1.
Proof.
  intros Hd. unfold mkrat.
  pose proof (Z.gcd_nonneg n d) as Hg0.
  destruct (Z.eqb_spec (Z.gcd n d) 0) as [E|E].
  - apply Z.gcd_eq_0 in E. lia.
  - set (g := Z.gcd n d) in *.
    assert (Hg : 0 < g) by lia.
    destruct (Z.gcd_divide_l n d) as [n' Hn]. destruct (Z.gcd_divide_r n d) as [d' Hd']. fold g in Hn, Hd'.
    assert (Hnq : n / g = n') by (rewrite Hn; apply Z.div_mul; lia).
    assert (Hdq : d / g = d') by (rewrite Hd'; apply Z.div_mul; lia).
    assert (Hd'0 : 0 < d') by nia.
    cbn [fst snd]. split.
    + unfold Qeq. cbn [Qnum Qden]. rewrite Hnq, Hdq, !Z2Pos.id by lia. nia.
    + rewrite Z2Pos.id by (rewrite Hdq; lia). apply Z.gcd_div_gcd; [lia|reflexivity].
Qed.

Definition qop (o : op) (x y : Q) : Q :=
  match o with
  | OAdd => x + y | OSub => x - y | OMul => x * y | ODiv => x / y | _ => 0
  end%Q.

Definition is_field_op (o : op) : bool :=
  match o with OAdd | OSub | OMul | ODiv => true | _ => false end.

Lemma mk_rat_cst_spec n d : 0 < d ->
  exists n' d', mk_rat_cst n d = Num (Rat n' d') /\ (n' # d' == n # Z.to_pos d)%Q /\ Z.gcd n' (Zpos d') = 1.
Proof.
  intros Hd. unfold mk_rat_cst. destruct (mkrat_spec n d Hd) as [H1 H2].
  destruct (mkrat n d) as [n' d']. exists n', d'. split; [reflexivity|]. split; assumption.
Qed.

(* ratConst + - * /: the result is the exact rational, in lowest terms *)
Theorem rat_arith_exact o n1 d1 n2 d2 : is_field_op o = true -> (o = ODiv -> n2 <> 0) ->
  exists n d, bin_rat o n1 d1 n2 d2 = Ok (Num (Rat n d)) /\
              (n # d == qop o (n1 # d1) (n2 # d2))%Q /\ Z.gcd n (Zpos d) = 1.
Proof.
  intros Ho Hz. destruct o; try discriminate; cbn [bin_rat qop].
  - destruct (mk_rat_cst_spec (n1 * Zpos d2 + n2 * Zpos d1) (Zpos d1 * Zpos d2) ltac:(lia)) as (n & d & E & Q1 & G).
    exists n, d. rewrite E. split; [reflexivity|]. split; [|exact G]. rewrite Q1. reflexivity.
  - destruct (mk_rat_cst_spec (n1 * Zpos d2 - n2 * Zpos d1) (Zpos d1 * Zpos d2) ltac:(lia)) as (n & d & E & Q1 & G).
    exists n, d. rewrite E. split; [reflexivity|]. split; [|exact G]. rewrite Q1.
    unfold Qminus, Qplus, Qopp, Qeq. cbn. lia.
  - destruct (mk_rat_cst_spec (n1 * n2) (Zpos d1 * Zpos d2) ltac:(lia)) as (n & d & E & Q1 & G).
    exists n, d. rewrite E. split; [reflexivity|]. split; [|exact G]. rewrite Q1. reflexivity.
  - specialize (Hz eq_refl). destruct (Z.eqb_spec n2 0) as [E0|E0]; [contradiction|].
    destruct n2 as [|p|p]; [contradiction| |].
    + cbn [Z.ltb Z.compare].
      destruct (mk_rat_cst_spec (n1 * Zpos d2) (Zpos d1 * Zpos p) ltac:(lia)) as (n & d & E & Q1 & G).
      exists n, d. rewrite E. split; [reflexivity|]. split; [|exact G]. rewrite Q1.
      unfold Qdiv, Qmult, Qinv, Qeq. cbn. lia.
    + cbn [Z.ltb Z.compare].
      destruct (mk_rat_cst_spec (- (n1 * Zpos d2)) (Zpos d1 * - Zneg p) ltac:(lia)) as (n & d & E & Q1 & G).
      exists n, d. rewrite E. split; [reflexivity|]. split; [|exact G]. rewrite Q1.
      unfold Qdiv, Qmult, Qinv, Qeq. cbn. lia.
Qed.

Theorem rat_div_by_zero n1 d1 d2 : bin_rat ODiv n1 d1 0 d2 = Err EDiv0.
Proof. reflexivity. Qed.

Theorem rat_cmp_exact o n1 d1 n2 d2 : is_cmp_op o = true ->
  bin_rat o n1 d1 n2 d2 = Ok (Bool (cmp_result o ((n1 # d1) ?= (n2 # d2))%Q)).
Proof. intros Ho. destruct o; try discriminate; reflexivity. Qed.

(* an integer meets a rational: the integer is promoted exactly *)
Theorem int_rat_promote z n d :
  to_same (I64 z) (Rat n d) = (Rat z 1, Rat n d) /\ to_same (Big z) (Rat n d) = (Rat z 1, Rat n d) /\
  to_same (Rat n d) (I64 z) = (Rat n d, Rat z 1) /\ to_same (Rat n d) (Big z) = (Rat n d, Rat z 1).
Proof. repeat split; reflexivity. Qed.

(* ------------------------------------------------------------------ float / rational -> integer kinds *)

(* value of an integral float *)
Lemma fl_int_cases f : fl_is_int f = true ->
  f = FZero (fl_neg_sign f) \/ exists n m e, f = FFin n m e /\ 0 <= e.
Proof.
  destruct f as [n|n m e]; cbn; intros H; [left; reflexivity|right].
  exists n, m, e. split; [reflexivity|]. apply Z.leb_le. exact H.
Qed.

Lemma fl_to_Z_int n m e : 0 <= e ->
  fl_to_Z (FFin n m e) = (if n then Zneg m else Zpos m) * 2 ^ e.
Proof. intros He. unfold fl_to_Z. rewrite (proj2 (Z.leb_le 0 e) He). reflexivity. Qed.

(* floatConst -> integer kind: rejected as truncated iff not integral (or
   outside the 64 bit range), otherwise exactly the range check of the kind *)
Theorem repr_bigf_int k f : is_integer_kind k = true ->
  repr_bigf k f =
    if fl_is_int f then
      (if fits k (fl_to_Z f) then Ok (int_norm (fl_to_Z f))
       else if (if is_signed_kind k then is_int64 (fl_to_Z f) else is_uint64 (fl_to_Z f)) then Err EOverflows
       else Err ETruncInt)
    else Err ETruncInt.
Proof.
  intros Hk. unfold repr_bigf.
  destruct (fl_is_int f) eqn:Hi; [|destruct k; try discriminate; reflexivity].
  set (v := fl_to_Z f).
  assert (Hneg : fl_neg_sign f && negb (fl_is_zero f) = true -> v < 0).
  { intros H. apply andb_true_iff in H. destruct H as [H1 H2].
    destruct f as [n|n m e]; [discriminate|]. cbn in H1, Hi. subst n. apply Z.leb_le in Hi.
    unfold v. rewrite fl_to_Z_int by assumption.
    assert (0 < 2 ^ e) by (apply Z.pow_pos_nonneg; lia). nia. }
  assert (Hpos : fl_neg_sign f && negb (fl_is_zero f) = false -> 0 <= v).
  { intros H. destruct f as [n|n m e]; [unfold v; cbn; lia|].
    cbn in H, Hi. rewrite andb_true_r in H. subst n. apply Z.leb_le in Hi.
    unfold v. rewrite fl_to_Z_int by assumption.
    assert (0 < 2 ^ e) by (apply Z.pow_pos_nonneg; lia). nia. }
  destruct (is_signed_kind k) eqn:Hs.
  - cbn [andb]. destruct (is_int64 v) eqn:H64.
    + apply is_int64_spec in H64. rewrite repr_i64_int by assumption.
      unfold int_norm. apply is_int64_spec in H64. rewrite H64. destruct (fits k v); reflexivity.
    + replace (fits k v) with false; [reflexivity|].
      apply is_int64_false in H64. symmetry. unfold fits.
      destruct k; try discriminate; norm_kind KInt; norm_kind KInt8; norm_kind KInt16; norm_kind KInt32; norm_kind KInt64;
        unfold64; split_cmps; cbn; try reflexivity; exfalso; lia.
  - assert (Hu : is_unsigned_kind k = true) by (unfold is_integer_kind in Hk; rewrite Hs in Hk; exact Hk).
    rewrite Hu. cbn [andb].
    destruct (fl_neg_sign f && negb (fl_is_zero f)) eqn:Hn.
    + specialize (Hneg eq_refl). rewrite andb_false_r.
      replace (is_uint64 v) with false by (symmetry; unfold is_uint64; apply andb_false_iff; left; apply Z.leb_gt; lia).
      replace (fits k v) with false; [reflexivity|].
      symmetry. unfold fits. apply andb_false_iff. left. apply Z.leb_gt.
      unfold kind_min. rewrite Hs. lia.
    + specialize (Hpos eq_refl). rewrite andb_true_r.
      destruct (is_uint64 v) eqn:Hu64.
      * change gen_maxInt64 with max64.
        destruct (Z.leb_spec v max64).
        -- rewrite repr_i64_int by (assumption || (unfold64; unfold is_uint64 in Hu64; lia)).
           unfold int_norm. replace (is_int64 v) with true by (symmetry; apply is_int64_spec; unfold64; lia).
           destruct (fits k v); reflexivity.
        -- rewrite repr_big_int by assumption. destruct (fits k v); reflexivity.
      * replace (fits k v) with false; [reflexivity|].
        symmetry. unfold fits, is_uint64 in *.
        destruct k; try discriminate; norm_kind KUint; norm_kind KUint8; norm_kind KUint16; norm_kind KUint32; norm_kind KUint64; norm_kind KUintptr;
          unfold64; revert Hu64; split_cmps; cbn; intros; try reflexivity; try discriminate; exfalso; lia.
Qed.

(* ratConst -> integer kind: a non-integer is truncated, an integer goes through the range check *)
Theorem repr_rat_int k n d : is_integer_kind k = true ->
  repr_rat k n d =
    if (d =? 1)%positive then (if fits k n then Ok (int_norm n) else Err EOverflows) else Err ETruncInt.
Proof.
  intros Hk. unfold repr_rat. destruct (Pos.eqb d 1).
  - apply repr_big_int. exact Hk.
  - rewrite Hk. reflexivity.
Qed.

(* ------------------------------------------------------------------ float64Const -> integer kinds *)

Lemma pos_norm_spec p e :
  e <= snd (pos_norm p e) /\ Zpos p = Zpos (fst (pos_norm p e)) * 2 ^ (snd (pos_norm p e) - e).
Proof.
  revert e. induction p as [p IH|p IH|]; intros e; cbn [pos_norm fst snd].
  - rewrite Z.sub_diag. cbn. lia.
  - destruct (IH (e + 1)) as [H1 H2]. split; [lia|].
    replace (snd (pos_norm p (e + 1)) - e) with (Z.succ (snd (pos_norm p (e + 1)) - (e + 1))) by lia.
    rewrite Z.pow_succ_r by lia. rewrite (Pos2Z.inj_xO p), H2. ring.
  - rewrite Z.sub_diag. cbn. lia.
Qed.

Lemma fl_of_Z_spec z : fl_is_int (fl_of_Z z) = true /\ fl_to_Z (fl_of_Z z) = z.
Proof.
  unfold fl_of_Z, mkfl. destruct z as [|p|p]; cbn [Z.abs]; [split; reflexivity| |].
  - destruct (pos_norm_spec p 0) as [H1 H2]. destruct (pos_norm p 0) as [p' e']. cbn [fst snd] in *.
    cbn [fl_is_int]. split; [apply Z.leb_le; assumption|].
    rewrite fl_to_Z_int by assumption. cbn [Z.ltb Z.compare]. rewrite Z.sub_0_r in H2. lia.
  - destruct (pos_norm_spec p 0) as [H1 H2]. destruct (pos_norm p 0) as [p' e']. cbn [fst snd] in *.
    cbn [fl_is_int]. split; [apply Z.leb_le; assumption|].
    rewrite fl_to_Z_int by assumption. cbn [Z.ltb Z.compare]. rewrite Z.sub_0_r in H2.
    change (Z.neg p') with (- Z.pos p'). change (Z.neg p) with (- Z.pos p). lia.
Qed.

Lemma fl_int_value f : fl_is_int f = true -> 0 <= fl_e f /\ fl_to_Z f = fl_m f * 2 ^ fl_e f.
Proof.
  destruct f as [n|n m e]; cbn [fl_is_int fl_e fl_m]; intros H; [split; [lia|reflexivity]|].
  apply Z.leb_le in H. split; [assumption|]. rewrite fl_to_Z_int by assumption. reflexivity.
Qed.

(* comparison of integral floats is the comparison of their integer values *)
Lemma fl_cmp_int a b : fl_is_int a = true -> fl_is_int b = true ->
  fl_cmp a b = Z.compare (fl_to_Z a) (fl_to_Z b).
Proof.
  intros Ha Hb. destruct (fl_int_value a Ha) as [Ea Va]. destruct (fl_int_value b Hb) as [Eb Vb].
  unfold fl_cmp. rewrite Va, Vb.
  set (e := Z.min (fl_e a) (fl_e b)).
  assert (He : 0 <= e) by (unfold e; lia).
  assert (Hp : 2 ^ e > 0) by (apply Z.lt_gt, Z.pow_pos_nonneg; lia).
  rewrite (Zmult_compare_compat_r _ _ (2 ^ e) Hp).
  rewrite <- !Z.mul_assoc, <- !Z.pow_add_r by (unfold e; lia).
  replace (fl_e a - e + e) with (fl_e a) by lia. replace (fl_e b - e + e) with (fl_e b) by lia.
  reflexivity.
Qed.

Lemma fl_le_int a b : fl_is_int a = true -> fl_is_int b = true ->
  fl_le a b = (fl_to_Z a <=? fl_to_Z b).
Proof.
  intros Ha Hb. unfold fl_le. rewrite fl_cmp_int by assumption. unfold Z.leb.
  destruct (fl_to_Z a ?= fl_to_Z b); reflexivity.
Qed.

(* an integer with at most 53 significant bits that is at least 2^(52+j) in
   magnitude is a multiple of 2^j *)
Lemma f64_gap j f : 0 < j -> fl_is_int f = true -> fl_minprec f <= 53 -> 2 ^ (52 + j) <= Z.abs (fl_to_Z f) ->
  exists q, fl_to_Z f = 2 ^ j * q.
Proof.
  intros Hj Hi Hp Hbig. destruct f as [n|n m e].
  - exists 0. cbn [fl_to_Z]. ring.
  - cbn [fl_is_int] in Hi. apply Z.leb_le in Hi. rewrite fl_to_Z_int in * by assumption.
    cbn [fl_minprec] in Hp.
    assert (Hm : Z.pos m < 2 ^ 53) by (apply Z.log2_lt_pow2; lia).
    destruct (Z.lt_ge_cases e j) as [Hlt|Hge].
    + exfalso. assert (H1 : 2 ^ e <= 2 ^ (j - 1)) by (apply Z.pow_le_mono_r; lia).
      assert (H0 : 0 < 2 ^ e) by (apply Z.pow_pos_nonneg; lia).
      assert (H2 : Z.pos m * 2 ^ e < 2 ^ 53 * 2 ^ (j - 1)).
      { assert (Z.pos m * 2 ^ e <= Z.pos m * 2 ^ (j - 1)) by (apply Z.mul_le_mono_nonneg_l; lia).
        assert (Z.pos m * 2 ^ (j - 1) < 2 ^ 53 * 2 ^ (j - 1)) by (apply Z.mul_lt_mono_pos_r; [apply Z.pow_pos_nonneg; lia|lia]).
        lia. }
      rewrite <- Z.pow_add_r in H2 by lia. replace (53 + (j - 1)) with (52 + j) in H2 by lia.
      destruct n; rewrite Z.abs_mul in Hbig; cbn [Z.abs] in Hbig; rewrite (Z.abs_eq (2 ^ e)) in Hbig by lia; lia.
    + exists ((if n then Z.neg m else Z.pos m) * 2 ^ (e - j)).
      replace e with (j + (e - j)) at 1 by lia. rewrite Z.pow_add_r by lia. ring.
Qed.

Definition f64_int_ok (k : kind) (f : fl) : bool :=
  fl_is_int f &&
  (if is_signed_kind k then is_int64 (fl_to_Z f) else is_uint64 (fl_to_Z f)).

(* float64Const -> integer kind, for every float64 (at most 53 significant
   bits): rejected as truncated iff not an integer of the 64 bit range, else
   exactly the range check of the kind; the bounds are the generated ones *)
Theorem repr_f64_int k f : is_integer_kind k = true -> fl_minprec f <= 53 ->
  repr_f64 k f =
    if f64_int_ok k f then (if fits k (fl_to_Z f) then Ok (int_norm (fl_to_Z f)) else Err EOverflows)
    else Err ETruncInt.
Proof.
  intros Hk Hp. unfold repr_f64, f64_int_ok.
  destruct (fl_is_int f) eqn:Hi; [|destruct k; try discriminate; cbn [is_signed_kind is_unsigned_kind]; rewrite !andb_false_r; reflexivity].
  set (v := fl_to_Z f) in *.
  destruct (fl_of_Z_spec gen_f64_int_lo) as [I1 V1]. destruct (fl_of_Z_spec gen_f64_int_hi) as [I2 V2].
  destruct (fl_of_Z_spec gen_f64_uint_lo) as [I3 V3]. destruct (fl_of_Z_spec gen_f64_uint_hi) as [I4 V4].
  rewrite !fl_le_int by assumption. rewrite V1, V2, V3, V4. fold v. rewrite !andb_true_r. cbn [andb].
  assert (Hgap : 2 ^ 62 <= Z.abs v -> exists q, v = 1024 * q) by (apply (f64_gap 10); (assumption || lia)).
  assert (Hgap2 : 2 ^ 63 <= Z.abs v -> exists q, v = 2048 * q) by (apply (f64_gap 11); (assumption || lia)).
  change (2 ^ 62) with 4611686018427387904 in Hgap. change (2 ^ 63) with 9223372036854775808 in Hgap2.
  clearbody v.
  unfold gen_f64_int_lo, gen_f64_int_hi, gen_f64_uint_lo, gen_f64_uint_hi.
  destruct (is_signed_kind k) eqn:Hs.
  - destruct (is_int64 v) eqn:H64.
    + apply is_int64_spec in H64.
      replace ((-9223372036854775808 <=? v) && (v <=? 9223372036854774784)) with true.
      * rewrite repr_i64_int by assumption. unfold int_norm.
        apply is_int64_spec in H64. rewrite H64. destruct (fits k v); reflexivity.
      * symmetry. apply andb_true_iff. split; apply Z.leb_le; [unfold64; lia|].
        destruct (Z.le_gt_cases v 9223372036854774784); [assumption|exfalso].
        destruct Hgap as [q Hq]; [lia|]. unfold64. lia.
    + apply is_int64_false in H64.
      replace ((-9223372036854775808 <=? v) && (v <=? 9223372036854774784)) with false; [reflexivity|].
      symmetry. apply andb_false_iff. unfold64.
      destruct (Z.lt_ge_cases v (-9223372036854775808)); [left; apply Z.leb_gt; lia|right; apply Z.leb_gt; lia].
  - assert (Hu : is_unsigned_kind k = true) by (unfold is_integer_kind in Hk; rewrite Hs in Hk; exact Hk).
    rewrite Hu. change gen_maxInt64 with max64. change gen_intsize with 64.
    destruct (is_uint64 v) eqn:Hu64.
    + unfold is_uint64 in Hu64. apply andb_true_iff in Hu64. destruct Hu64 as [U1 U2].
      apply Z.leb_le in U1. apply Z.leb_le in U2.
      replace ((0 <=? v) && (v <=? 18446744073709549568)) with true.
      * destruct (Z.ltb_spec max64 v).
        -- assert (is_int64 v = false) by (apply is_int64_false; unfold64; lia).
           unfold fits, int_norm. rewrite H0.
           destruct k; try discriminate; norm_kind KUint; norm_kind KUint8; norm_kind KUint16; norm_kind KUint32; norm_kind KUint64; norm_kind KUintptr;
             unfold64; cbn -[Z.leb]; split_cmps; cbn; try reflexivity; exfalso; lia.
        -- rewrite repr_i64_int by (assumption || (unfold64; lia)). unfold int_norm.
           replace (is_int64 v) with true by (symmetry; apply is_int64_spec; unfold64; lia).
           destruct (fits k v); reflexivity.
      * symmetry. apply andb_true_iff. split; apply Z.leb_le; [lia|].
        destruct (Z.le_gt_cases v 18446744073709549568); [assumption|exfalso].
        destruct Hgap2 as [q Hq]; [lia|]. unfold64. lia.
    + assert (E : (0 <=? v) && (v <=? 18446744073709549568) = false).
      { unfold is_uint64 in Hu64. apply andb_false_iff in Hu64. apply andb_false_iff.
        destruct Hu64 as [U|U]; [left; exact U|right]. apply Z.leb_gt in U. apply Z.leb_gt.
        change maxu64 with 18446744073709551615 in U. lia. }
      rewrite E. reflexivity.
Qed.

(* ------------------------------------------------------------------ strings and booleans *)

Lemma bytes_compare_eq a b : bytes_compare a b = Eq <-> a = b.
Proof.
  revert b. induction a as [|x a IH]; intros [|y b]; cbn; split; intros H; try reflexivity; try discriminate.
  - destruct (N.compare_spec x y); try discriminate. subst. f_equal. apply IH. exact H.
  - inversion H; subst. rewrite N.compare_refl. apply IH. reflexivity.
Qed.

Lemma bytes_compare_antisym a b : bytes_compare b a = CompOpp (bytes_compare a b).
Proof.
  revert b. induction a as [|x a IH]; intros [|y b]; cbn; try reflexivity.
  rewrite (N.compare_antisym x y). destruct (N.compare x y); cbn; [apply IH|reflexivity|reflexivity].
Qed.

(* lexicographic order on byte strings: the first differing byte decides, a proper prefix is smaller *)
Inductive lex_lt : list N -> list N -> Prop :=
| lex_nil y b : lex_lt [] (y :: b)
| lex_head x y a b : (x < y)%N -> lex_lt (x :: a) (y :: b)
| lex_tail x a b : lex_lt a b -> lex_lt (x :: a) (x :: b).

Lemma bytes_compare_lt a b : bytes_compare a b = Lt <-> lex_lt a b.
Proof.
  revert b. induction a as [|x a IH]; intros [|y b]; cbn; split; intros H; try discriminate; try (inversion H; fail).
  - constructor.
  - reflexivity.
  - destruct (N.compare_spec x y); try discriminate; [subst; apply lex_tail, IH, H|apply lex_head; assumption].
  - inversion H; subst.
    + apply N.compare_lt_iff in H1. rewrite H1. reflexivity.
    + rewrite N.compare_refl. apply IH. assumption.
Qed.

Theorem str_ops a b :
  binary_op OAdd (Str a) (Str b) = Ok (Str (a ++ b)) /\
  (binary_op OEq (Str a) (Str b) = Ok (Bool true) <-> a = b) /\
  (binary_op OLt (Str a) (Str b) = Ok (Bool true) <-> lex_lt a b) /\
  (binary_op OGt (Str a) (Str b) = Ok (Bool true) <-> lex_lt b a) /\
  binary_op ONe (Str a) (Str b) = Ok (Bool (negb (cmp_result OEq (bytes_compare a b)))) /\
  binary_op OLe (Str a) (Str b) = Ok (Bool (negb (cmp_result OGt (bytes_compare a b)))) /\
  binary_op OGe (Str a) (Str b) = Ok (Bool (negb (cmp_result OLt (bytes_compare a b)))).
Proof.
  cbn [binary_op]. split; [reflexivity|]. split; [|split; [|split]].
  - rewrite <- bytes_compare_eq. destruct (bytes_compare a b); cbn; split; intros H; congruence.
  - rewrite <- bytes_compare_lt. destruct (bytes_compare a b); cbn; split; intros H; congruence.
  - rewrite <- bytes_compare_lt, (bytes_compare_antisym a b). destruct (bytes_compare a b); cbn; split; intros H; congruence.
  - repeat split; destruct (bytes_compare a b); reflexivity.
Qed.

Theorem bool_ops a b :
  binary_op OAnd (Bool a) (Bool b) = Ok (Bool (a && b)) /\
  binary_op OOr (Bool a) (Bool b) = Ok (Bool (a || b)) /\
  binary_op OEq (Bool a) (Bool b) = Ok (Bool (Bool.eqb a b)) /\
  binary_op ONe (Bool a) (Bool b) = Ok (Bool (xorb a b)) /\
  unary_op ONot None (Bool a) = Ok (Bool (negb a)).
Proof. destruct a, b; repeat split; reflexivity. Qed.

(* ------------------------------------------------------------------ float64 shortcuts *)

(* the value of a float as a rational *)
Definition flQ (f : fl) : Q := (inject_Z (fl_m f) * (2 # 1) ^ fl_e f)%Q.

Lemma flQ_zero f : fl_is_zero f = true -> (flQ f == 0)%Q.
Proof. destruct f; [|discriminate]. intros _. unfold flQ. cbn. reflexivity. Qed.

Lemma flQ_one f : fl_is_one f = true -> (flQ f == 1)%Q.
Proof.
  destruct f as [|n m e]; [discriminate|]. destruct n; [discriminate|].
  destruct m; try discriminate. destruct e; try discriminate. intros _. reflexivity.
Qed.

(* the shortcuts of float64Const (x+0, 0+x, x-0, x*0, x*1, 1*x, x/1) return the exact result *)
Theorem f64_shortcuts x y :
  (fl_is_zero y = true -> exists r, bin_f64 OAdd x y = Ok (Num (F64 r)) /\ (flQ r == flQ x + flQ y)%Q) /\
  (fl_is_zero x = true -> exists r, bin_f64 OAdd x y = Ok (Num (F64 r)) /\ (flQ r == flQ x + flQ y)%Q) /\
  (fl_is_zero y = true -> exists r, bin_f64 OSub x y = Ok (Num (F64 r)) /\ (flQ r == flQ x - flQ y)%Q) /\
  (fl_is_zero x || fl_is_zero y = true -> exists r, bin_f64 OMul x y = Ok (Num (F64 r)) /\ (flQ r == flQ x * flQ y)%Q) /\
  (fl_is_one y = true -> exists r, bin_f64 OMul x y = Ok (Num (F64 r)) /\ (flQ r == flQ x * flQ y)%Q) /\
  (fl_is_one x = true -> exists r, bin_f64 OMul x y = Ok (Num (F64 r)) /\ (flQ r == flQ x * flQ y)%Q) /\
  (fl_is_one y = true -> exists r, bin_f64 ODiv x y = Ok (Num (F64 r)) /\ (flQ r == flQ x / flQ y)%Q) /\
  (fl_is_zero y = true -> bin_f64 ODiv x y = Err EDiv0).
Proof.
  repeat split; intros H; unfold bin_f64.
  - destruct (fl_is_zero x) eqn:Hx.
    + exists y. split; [reflexivity|]. rewrite (flQ_zero x Hx). ring.
    + rewrite H. exists x. split; [reflexivity|]. rewrite (flQ_zero y H). ring.
  - rewrite H. exists y. split; [reflexivity|]. rewrite (flQ_zero x H). ring.
  - rewrite H. exists x. split; [reflexivity|]. rewrite (flQ_zero y H). ring.
  - rewrite H. exists (FZero false). split; [reflexivity|].
    apply orb_true_iff in H. destruct H as [H|H]; rewrite (flQ_zero _ H); unfold flQ; cbn; ring.
  - destruct (fl_is_zero x || fl_is_zero y) eqn:Hz.
    + exists (FZero false). split; [reflexivity|]. rewrite (flQ_one y H).
      apply orb_true_iff in Hz. destruct Hz as [Hz|Hz].
      * rewrite (flQ_zero _ Hz). unfold flQ; cbn; ring.
      * destruct y; discriminate.
    + destruct (fl_is_one x) eqn:Hx.
      * exists y. split; [reflexivity|]. rewrite (flQ_one x Hx). ring.
      * rewrite H. exists x. split; [reflexivity|]. rewrite (flQ_one y H). ring.
  - destruct (fl_is_zero x || fl_is_zero y) eqn:Hz.
    + exists (FZero false). split; [reflexivity|]. rewrite (flQ_one x H).
      apply orb_true_iff in Hz. destruct Hz as [Hz|Hz].
      * destruct x; discriminate.
      * rewrite (flQ_zero _ Hz). unfold flQ; cbn; ring.
    + rewrite H. exists y. split; [reflexivity|]. rewrite (flQ_one x H). ring.
  - assert (fl_is_zero y = false) by (destruct y as [|n m e]; [discriminate|reflexivity]).
    rewrite H0, H. exists x. split; [reflexivity|]. rewrite (flQ_one y H). field.
  - rewrite H. reflexivity.
Qed.

(* ------------------------------------------------------------------ complex arithmetic on integer parts *)

Lemma part_ok o x y r : part o x y = Ok r -> bin_arith o x y = Ok (Num r).
Proof.
  unfold part, get_rc. destruct (bin_arith o x y) as [[r'| | |]| |]; intros H; try discriminate. inversion H. reflexivity.
Qed.

Ltac step_part H :=
  match type of H with
  | context [bind (part ?o ?x ?y) _] =>
    let E := fresh "E" in let r := fresh "r" in
    destruct (part o x y) as [r| |] eqn:E; cbn [bind] in H; try discriminate; apply part_ok in E
  end.

Section ComplexInt.
  Variables a b c d : rc.
  Variables va vb vc vd : Z.
  Hypothesis Ia : rc_int a = Some va.
  Hypothesis Ib : rc_int b = Some vb.
  Hypothesis Ic : rc_int c = Some vc.
  Hypothesis Id : rc_int d = Some vd.
  Hypothesis Wa : wf_int a.
  Hypothesis Wb : wf_int b.
  Hypothesis Wc : wf_int c.
  Hypothesis Wd : wf_int d.

  (* (a+bi) + (c+di), (a+bi) - (c+di) *)
  Theorem cplx_add_exact re im : bin_cplx OAdd a b c d = Ok (Cplx re im) ->
    rc_int re = Some (va + vc) /\ rc_int im = Some (vb + vd).
  Proof.
    intros H. unfold bin_cplx in H. step_part H. step_part H. inversion H; subst.
    split.
    - exact (proj1 (int_arith_exact OAdd a c va vc re Ia Ic Wa Wc E _ eq_refl)).
    - exact (proj1 (int_arith_exact OAdd b d vb vd im Ib Id Wb Wd E0 _ eq_refl)).
  Qed.

  Theorem cplx_sub_exact re im : bin_cplx OSub a b c d = Ok (Cplx re im) ->
    rc_int re = Some (va - vc) /\ rc_int im = Some (vb - vd).
  Proof.
    intros H. unfold bin_cplx in H. step_part H. step_part H. inversion H; subst.
    split.
    - exact (proj1 (int_arith_exact OSub a c va vc re Ia Ic Wa Wc E _ eq_refl)).
    - exact (proj1 (int_arith_exact OSub b d vb vd im Ib Id Wb Wd E0 _ eq_refl)).
  Qed.

  (* (a+bi)(c+di) = (ac - bd) + (bc + ad)i *)
  Theorem cplx_mul_exact re im : bin_cplx OMul a b c d = Ok (Cplx re im) ->
    rc_int re = Some (va * vc - vb * vd) /\ rc_int im = Some (vb * vc + va * vd).
  Proof.
    intros H. unfold bin_cplx, sum_of_products in H.
    step_part H. step_part H. step_part H. step_part H. step_part H. step_part H.
    inversion H; subst.
    destruct (int_arith_exact OMul a c va vc _ Ia Ic Wa Wc E _ eq_refl) as [V1 W1].
    destruct (int_arith_exact OMul b d vb vd _ Ib Id Wb Wd E0 _ eq_refl) as [V2 W2].
    destruct (int_arith_exact OMul b c vb vc _ Ib Ic Wb Wc E2 _ eq_refl) as [V3 W3].
    destruct (int_arith_exact OMul a d va vd _ Ia Id Wa Wd E3 _ eq_refl) as [V4 W4].
    split.
    - exact (proj1 (int_arith_exact OSub _ _ _ _ re V1 V2 W1 W2 E1 _ eq_refl)).
    - exact (proj1 (int_arith_exact OAdd _ _ _ _ im V3 V4 W3 W4 E4 _ eq_refl)).
  Qed.
End ComplexInt.

(* ------------------------------------------------------------------ the complex operations never fault
   (fix: complexConst.binaryOp returns the errors of the operations on the
   parts): for constants of any representation class every operation yields a
   constant or an error.  Before the repair (2^511+0i)*(2^511+0i) faulted. *)

Lemma to_same_ordered_rank c1 c2 : class_rank c1 < class_rank c2 ->
  class_rank (fst (to_same_ordered c1 c2)) = class_rank (snd (to_same_ordered c1 c2)).
Proof.
  destruct c1, c2; cbn [class_rank]; intros H; try lia; cbn [to_same_ordered fst snd class_rank]; try reflexivity.
  destruct (rat_of_fl f); reflexivity.
Qed.

Lemma to_same_rank c1 c2 : class_rank c1 <> class_rank c2 ->
  class_rank (fst (to_same c1 c2)) = class_rank (snd (to_same c1 c2)).
Proof.
  intros H. unfold to_same. destruct (class_rank c1 <=? class_rank c2) eqn:E.
  - apply Z.leb_le in E. apply to_same_ordered_rank. lia.
  - apply Z.leb_gt in E. pose proof (to_same_ordered_rank c2 c1 E) as R.
    destruct (to_same_ordered c2 c1) as [d2 d1]. cbn [fst snd] in *. symmetry. exact R.
Qed.

Definition res_num (r : res cst) : Prop := (exists x, r = Ok (Num x)) \/ (exists e, r = Err e).
Definition res_bool (r : res cst) : Prop := exists b, r = Ok (Bool b).

Lemma res_num_if (t : bool) a b : res_num a -> res_num b -> res_num (if t then a else b).
Proof. destruct t; auto. Qed.
Lemma res_num_ok x : res_num (Ok (Num x)).
Proof. left. eexists. reflexivity. Qed.
Lemma res_num_err e : res_num (Err e).
Proof. right. eexists. reflexivity. Qed.

Lemma bin_big_num o a b : is_field_op o = true -> res_num (bin_big o a b).
Proof.
  destruct o; try discriminate; intros _; cbn [bin_big];
    apply res_num_if; auto using res_num_ok, res_num_err.
Qed.

Lemma bin_i64_num o a b : is_field_op o = true -> res_num (bin_i64 o a b).
Proof.
  intros F. pose proof (bin_big_num o a b F) as B.
  destruct o; try discriminate; cbn [bin_i64]; cbn [bin_big] in B.
  - apply res_num_if; auto using res_num_ok.
  - apply res_num_if; auto using res_num_ok.
  - apply res_num_if; [apply res_num_ok|]. apply res_num_if; auto using res_num_ok.
  - apply res_num_if; [apply res_num_err|]. apply res_num_if; auto using res_num_ok.
Qed.

Lemma bin_bigf_num o x y : is_field_op o = true -> res_num (bin_bigf o x y).
Proof.
  destruct o; try discriminate; intros _; cbn [bin_bigf]; auto using res_num_ok.
  apply res_num_if; auto using res_num_ok, res_num_err.
Qed.

Lemma bin_f64_num o x y : is_field_op o = true -> res_num (bin_f64 o x y).
Proof.
  intros F. pose proof (bin_bigf_num o x y F) as B.
  destruct o; try discriminate; cbn [bin_f64]; repeat apply res_num_if; auto using res_num_ok, res_num_err.
Qed.

Lemma mk_rat_cst_num n d : res_num (Ok (mk_rat_cst n d)).
Proof. unfold mk_rat_cst. destruct (mkrat n d). apply res_num_ok. Qed.

Lemma bin_rat_num o n1 d1 n2 d2 : is_field_op o = true -> res_num (bin_rat o n1 d1 n2 d2).
Proof.
  destruct o; try discriminate; intros _; cbn [bin_rat]; repeat apply res_num_if;
    auto using mk_rat_cst_num, res_num_err.
Qed.

Lemma bin_same_num o c1 c2 : is_field_op o = true -> class_rank c1 = class_rank c2 ->
  res_num (bin_same o c1 c2).
Proof.
  intros F R. destruct c1, c2; cbn [class_rank] in R; try discriminate; cbn [bin_same];
    auto using bin_i64_num, bin_big_num, bin_f64_num, bin_bigf_num, bin_rat_num.
Qed.

Lemma bin_arith_num o x y : is_field_op o = true -> res_num (bin_arith o x y).
Proof.
  intros F. unfold bin_arith. destruct (class_rank x =? class_rank y) eqn:E.
  - apply Z.eqb_eq in E. apply bin_same_num; assumption.
  - apply Z.eqb_neq in E. pose proof (to_same_rank x y E) as R.
    destruct (to_same x y) as [d1 d2]. apply bin_same_num; assumption.
Qed.

Lemma bin_same_eq_bool c1 c2 : class_rank c1 = class_rank c2 -> res_bool (bin_same OEq c1 c2).
Proof.
  intros R. destruct c1, c2; cbn [class_rank] in R; try discriminate; cbn; eexists; reflexivity.
Qed.

Lemma bin_arith_eq_bool x y : res_bool (bin_arith OEq x y).
Proof.
  unfold bin_arith. destruct (class_rank x =? class_rank y) eqn:E.
  - apply Z.eqb_eq in E. apply bin_same_eq_bool; assumption.
  - apply Z.eqb_neq in E. pose proof (to_same_rank x y E) as R.
    destruct (to_same x y) as [d1 d2]. apply bin_same_eq_bool; assumption.
Qed.

(* a part operation yields a number constant or the error of the operation *)
Lemma part_cases o x y : is_field_op o = true ->
  (exists r, part o x y = Ok r /\ bin_arith o x y = Ok (Num r)) \/
  (exists e, part o x y = Err e /\ bin_arith o x y = Err e).
Proof.
  intros F. unfold part. destruct (bin_arith_num o x y F) as [[r H]|[e H]]; rewrite H; cbn.
  - left. exists r. split; reflexivity.
  - right. exists e. split; reflexivity.
Qed.

Definition no_fault {A} (r : res A) : Prop := r <> Fault.

Lemma no_fault_bind {A B} (r : res A) (f : A -> res B) :
  no_fault r -> (forall a, r = Ok a -> no_fault (f a)) -> no_fault (bind r f).
Proof.
  unfold no_fault. destruct r; cbn; intros H1 H2; auto; discriminate.
Qed.

Lemma part_no_fault o x y : is_field_op o = true -> no_fault (part o x y).
Proof.
  intros F. destruct (part_cases o x y F) as [[r [H _]]|[e [H _]]]; rewrite H; discriminate.
Qed.

Lemma sum_of_products_no_fault a b o c d : is_field_op o = true ->
  no_fault (sum_of_products a b o c d).
Proof.
  intros F. unfold sum_of_products.
  apply no_fault_bind; [apply part_no_fault; reflexivity|intros ab _].
  apply no_fault_bind; [apply part_no_fault; reflexivity|intros cd _].
  apply part_no_fault; assumption.
Qed.

Theorem cplx_no_fault o a b c d : bin_cplx o a b c d <> Fault.
Proof.
  change (no_fault (bin_cplx o a b c d)).
  assert (HB : forall x y, no_fault (get_bool (bin_arith OEq x y))).
  { intros x y. destruct (bin_arith_eq_bool x y) as [t H]. rewrite H. discriminate. }
  destruct o; cbn [bin_cplx]; try discriminate.
  - apply no_fault_bind; [apply HB|intros re _]. apply no_fault_bind; [apply HB|intros im _]. discriminate.
  - apply no_fault_bind; [apply HB|intros re _]. apply no_fault_bind; [apply HB|intros im _]. discriminate.
  - apply no_fault_bind; [apply part_no_fault; reflexivity|intros re _].
    apply no_fault_bind; [apply part_no_fault; reflexivity|intros im _]. discriminate.
  - apply no_fault_bind; [apply part_no_fault; reflexivity|intros re _].
    apply no_fault_bind; [apply part_no_fault; reflexivity|intros im _]. discriminate.
  - apply no_fault_bind; [apply sum_of_products_no_fault; reflexivity|intros re _].
    apply no_fault_bind; [apply sum_of_products_no_fault; reflexivity|intros im _]. discriminate.
  - destruct (rc_zero c && rc_zero d); [discriminate|].
    apply no_fault_bind; [apply sum_of_products_no_fault; reflexivity|intros s _].
    destruct (rc_zero s); [discriminate|].
    apply no_fault_bind; [apply sum_of_products_no_fault; reflexivity|intros re _].
    apply no_fault_bind; [apply sum_of_products_no_fault; reflexivity|intros im _].
    apply no_fault_bind; [apply part_no_fault; reflexivity|intros qr _].
    apply no_fault_bind; [apply part_no_fault; reflexivity|intros qi _]. discriminate.
Qed.

Theorem cplx_no_fault_big o a b c d : is_field_op o = true ->
  Z.abs a < 2 ^ 512 -> Z.abs b < 2 ^ 512 -> Z.abs c < 2 ^ 512 -> Z.abs d < 2 ^ 512 ->
  bin_cplx o (Big a) (Big b) (Big c) (Big d) <> Fault.
Proof. intros _ _ _ _ _. apply cplx_no_fault. Qed.

(* the products of the parts may exceed 512 bits although the operands do
   not: the operation is then rejected with the overflow error of the part
   operation (before the repair: a fault) *)
Theorem cplx_mul_overflow_witness :
  bin_cplx OMul (Big (2 ^ 511)) (I64 0) (Big (2 ^ 511)) (I64 0) = Err EMulOverflow.
Proof. vm_compute. reflexivity. Qed.

Theorem cplx_div_overflow_witness :
  bin_cplx ODiv (I64 0) (I64 1000) (Big (2 ^ 256 + 1)) (I64 0) = Err EMulOverflow.
Proof. vm_compute. reflexivity. Qed.

(* float arithmetic is not exact beyond 512 bits: 2 + 2^-1074 is 2 *)
Theorem bigf_add_rounds_witness :
  exists x y, bin_f64 OAdd x y = Ok (Num (BigF x)) /\ fl_is_zero y = false.
Proof. exists (FFin false 1 1), (FFin false 1 (-1074)). split; vm_compute; reflexivity. Qed.
