(* C07: decoding the output of each escaper (followed by any text) with the
   reference decoder of its context gives back the input (followed by the
   decoding of that text). *)
From Verif Require Import Bytes Utf8 Facts_escapers Facts_esc EscapersM HtmlDecode HtmlDecode_proofs
  Decoders Trans_proofs Utf8_proofs Escapers_proofs.
Open Scope N_scope.

Definition tbl_keys_ok (t : tbl) : bool := forallb (fun kv => fst kv <? 256) t.

Lemma esc_or_self_oob (t : tbl) c : tbl_keys_ok t = true -> 256 <= c -> esc_or_self t c = [c].
Proof. intros Hk Hc. apply esc_or_self_none. apply assoc_get_oob; assumption. Qed.

(* ---------------- HTML text and attribute values ---------------- *)
Definition html_block_check (t : tbl) (c : N) : bool :=
  match hrun HData (esc_or_self t c) with
  | (HData, o) => bytes_eqb o [c]
  | _ => false
  end.

Lemma html_tbl_block_ok t :
  tbl_keys_ok t = true -> forallb (html_block_check t) all_bytes = true -> block_ok (esc_or_self t).
Proof.
  intros Hk Hb c. destruct (N.lt_ge_cases c 256) as [Hc|Hc].
  - pose proof (forall_bytes _ Hb c Hc) as H. unfold html_block_check in H.
    destruct (hrun HData (esc_or_self t c)) as [st o]. destruct st; try discriminate.
    apply bytes_eqb_eq in H. subst o. reflexivity.
  - rewrite esc_or_self_oob by assumption. cbn [hrun]. rewrite hstep_data_plain by lia. reflexivity.
Qed.

(* obligations on the generated tables (finite, by computation) *)
Lemma fact_html_keys : tbl_keys_ok gen_htmlEscape_tbl = true. Proof. vm_compute. reflexivity. Qed.
Lemma fact_html_blocks : forallb (html_block_check gen_htmlEscape_tbl) all_bytes = true. Proof. vm_compute. reflexivity. Qed.
Lemma fact_attr_unq_keys : tbl_keys_ok gen_attrUnquoted_entities_tbl = true. Proof. vm_compute. reflexivity. Qed.
Lemma fact_attr_unq_blocks : forallb (html_block_check gen_attrUnquoted_entities_tbl) all_bytes = true. Proof. vm_compute. reflexivity. Qed.

Theorem html_slot s rest :
  html_decode (flat (htmlEscape s) ++ rest) = s ++ html_decode rest.
Proof.
  rewrite htmlEscape_flat. apply html_decode_blocks. apply html_tbl_block_ok; [exact fact_html_keys|exact fact_html_blocks].
Qed.

Theorem attr_slot quoted s rest :
  html_decode (flat (attributeEscape true quoted s) ++ rest) = s ++ html_decode rest.
Proof.
  rewrite attributeEscape_flat. apply html_decode_blocks. destruct quoted; cbn [attr_tbl].
  - apply html_tbl_block_ok; [exact fact_html_keys|exact fact_html_blocks].
  - apply html_tbl_block_ok; [exact fact_attr_unq_keys|exact fact_attr_unq_blocks].
Qed.

(* ---------------- URL query value ---------------- *)
Definition pct_block_check (plus : bool) (c : N) : bool :=
  match prun plus PData (esc_or_self gen_queryEscape_tbl c) with
  | (PData, o) => bytes_eqb o [c]
  | _ => false
  end.

Lemma fact_query_keys : tbl_keys_ok gen_queryEscape_tbl = true. Proof. vm_compute. reflexivity. Qed.
Lemma fact_query_blocks : forallb (fun c => pct_block_check false c && pct_block_check true c) all_bytes = true.
Proof. vm_compute. reflexivity. Qed.

Lemma query_block plus c : prun plus PData (esc_or_self gen_queryEscape_tbl c) = (PData, [c]).
Proof.
  destruct (N.lt_ge_cases c 256) as [Hc|Hc].
  - pose proof (forall_bytes _ fact_query_blocks c Hc) as H. cbv beta in H.
    apply andb_prop in H. destruct H as [H0 H1].
    assert (H : pct_block_check plus c = true) by (destruct plus; assumption).
    unfold pct_block_check in H.
    destruct (prun plus PData (esc_or_self gen_queryEscape_tbl c)) as [st o]. destruct st; try discriminate.
    apply bytes_eqb_eq in H. subst o. reflexivity.
  - rewrite esc_or_self_oob by (assumption || exact fact_query_keys).
    unfold prun. cbn [trun pstep]. unfold pdata.
    destruct (N.eqb_spec c 37); [lia|]. destruct (N.eqb_spec c 43); [lia|].
    rewrite andb_false_r. reflexivity.
Qed.

Theorem query_slot plus s rest :
  pct_decode_gen plus (flat (queryEscape s) ++ rest) = s ++ pct_decode_gen plus rest.
Proof.
  unfold pct_decode_gen, prun. rewrite queryEscape_flat.
  rewrite (trun_prefix (pstep plus) PData _ s rest).
  - destruct (trun (pstep plus) PData rest) as [st o]. unfold prepend. cbn [fst snd]. rewrite app_assoc. reflexivity.
  - apply trun_blocks. intros c. apply query_block.
Qed.

(* ---------------- CSS string ---------------- *)
Definition css_byte_check (c : N) : bool :=
  match assoc_get gen_cssStringEscape_tbl c with
  | Some e =>
    (match e with 92 :: _ => true | _ => false end) &&
    (if c =? 92 then
       match crun CData e with (CData, o) => bytes_eqb o [92] | _ => false end
     else
       match crun CData e with
       | (CHex _ v, []) => (v =? c) && (c <? 128)
       | _ => false
       end)
  | None => negb (c =? 92) && negb (c =? 0) && negb (c =? 12) && negb (c =? 13)
  end.

Lemma fact_css_keys : tbl_keys_ok gen_cssStringEscape_tbl = true. Proof. vm_compute. reflexivity. Qed.
Lemma fact_css_bytes : forallb css_byte_check all_bytes = true. Proof. vm_compute. reflexivity. Qed.

(* THE obligation on prefixWithSpace: a byte that would continue a hex escape
   (a hex digit) or be swallowed by it (whitespace) is announced by prefixWithSpace *)
Definition prefixWithSpace_check (d : N) : bool :=
  implb (is_hex d || is_css_ws d) (mem gen_prefixWithSpace d).
Lemma fact_prefixWithSpace : forallb prefixWithSpace_check all_bytes = true.
Proof. vm_compute. reflexivity. Qed.

Lemma is_hex_oob d : 256 <= d -> is_hex d = false.
Proof.
  intros H. unfold is_hex, hex_val, is_digit.
  repeat match goal with |- context [?a <=? ?b] => destruct (N.leb_spec a b); try lia end; reflexivity.
Qed.
Lemma is_css_ws_oob d : 256 <= d -> is_css_ws d = false.
Proof.
  intros H. unfold is_css_ws.
  repeat match goal with |- context [?a =? ?b] => destruct (N.eqb_spec a b); try lia end; reflexivity.
Qed.

Lemma prefixWithSpace_covers d :
  mem gen_prefixWithSpace d = false -> is_hex d = false /\ is_css_ws d = false.
Proof.
  intros Hm. destruct (N.lt_ge_cases d 256) as [Hd|Hd].
  - pose proof (forall_bytes _ fact_prefixWithSpace d Hd) as H. unfold prefixWithSpace_check in H.
    rewrite Hm in H. destruct (is_hex d), (is_css_ws d); try discriminate; auto.
  - split; [apply is_hex_oob|apply is_css_ws_oob]; assumption.
Qed.

Lemma css_byte_cases c :
  (assoc_get gen_cssStringEscape_tbl c = None /\ c <> 92 /\ c <> 12 /\ c <> 13 /\ (c <> 0 -> cdata c = (CData, [c]))) \/
  (exists e e', assoc_get gen_cssStringEscape_tbl c = Some e /\ e = 92 :: e' /\
     ((c = 92 /\ crun CData e = (CData, [92])) \/
      (c <> 92 /\ c < 128 /\ exists n, crun CData e = (CHex n c, [])))).
Proof.
  destruct (N.lt_ge_cases c 256) as [Hc|Hc].
  - pose proof (forall_bytes _ fact_css_bytes c Hc) as H. unfold css_byte_check in H.
    destruct (assoc_get gen_cssStringEscape_tbl c) as [e|].
    + right. apply andb_prop in H. destruct H as [Hh H].
      destruct e as [|h e']; [discriminate|]. destruct (N.eq_dec h 92) as [->|Hne].
      2:{ exfalso. destruct h as [|p]; [discriminate|].
          repeat (destruct p as [p|p|]; try discriminate). contradiction. }
      exists (92 :: e'), e'. split; [reflexivity|]. split; [reflexivity|].
      destruct (N.eqb_spec c 92) as [->|Hn].
      * left. split; [reflexivity|].
        destruct (crun CData (92 :: e')) as [st o]. destruct st; try discriminate.
        apply bytes_eqb_eq in H. subst o. reflexivity.
      * right. split; [assumption|].
        destruct (crun CData (92 :: e')) as [st o]. destruct st as [| |n v|]; try discriminate.
        destruct o; [|discriminate]. apply andb_prop in H. destruct H as [H1 H2].
        apply N.eqb_eq in H1. apply N.ltb_lt in H2. subst v. split; [assumption|]. exists n. reflexivity.
    + left. split; [reflexivity|].
      apply andb_prop in H. destruct H as [H H4]. apply andb_prop in H. destruct H as [H H3].
      apply andb_prop in H. destruct H as [H1 H2].
      apply negb_true_iff in H1, H2, H3, H4. apply N.eqb_neq in H1, H2, H3, H4.
      repeat split; try assumption.
      intros _. unfold cdata.
      destruct (N.eqb_spec c 92); [contradiction|]. destruct (N.eqb_spec c 0); [contradiction|].
      destruct (N.eqb_spec c 12); [contradiction|]. destruct (N.eqb_spec c 13); [contradiction|]. reflexivity.
  - left. split; [apply assoc_get_oob; [exact fact_css_keys|assumption]|].
    repeat split; try lia. intros _. unfold cdata.
    destruct (N.eqb_spec c 92); [lia|]. destruct (N.eqb_spec c 0); [lia|].
    destruct (N.eqb_spec c 12); [lia|]. destruct (N.eqb_spec c 13); [lia|]. reflexivity.
Qed.

Lemma css_cp_ascii c : c <> 0 -> c < 128 -> css_cp c = [c].
Proof.
  intros H0 H1. unfold css_cp, valid_rune, is_surrogate, utf8_encode.
  destruct (N.eqb_spec c 0); [contradiction|].
  destruct (N.leb_spec c 1114111); [|lia]. destruct (N.leb_spec 55296 c); [lia|].
  cbn [andb negb orb]. destruct (N.ltb_spec c 128); [reflexivity|lia].
Qed.

(* a hex escape ends at a byte that is neither a hex digit nor whitespace, which is then read as data *)
Lemma crun_hex_end n v x X :
  is_hex x = false -> is_css_ws x = false ->
  crun (CHex n v) (x :: X) = prepend (css_cp v) (crun CData (x :: X)).
Proof.
  intros Hh Hw. unfold crun. rewrite !trun_cons. cbn [cstep].
  unfold is_hex in Hh. destruct (hex_val x); [discriminate|].
  assert (H13 : (x =? 13) = false).
  { unfold is_css_ws in Hw. destruct (x =? 13); [|reflexivity]. rewrite !orb_true_r in Hw. cbn in Hw. discriminate. }
  rewrite H13, Hw. destruct (cdata x) as [st o]. unfold prepend at 2. cbn [fst snd].
  rewrite prepend_prepend. reflexivity.
Qed.

(* ... or at one space, which is swallowed *)
Lemma crun_hex_space n v X :
  crun (CHex n v) (32 :: X) = prepend (css_cp v) (crun CData X).
Proof. unfold crun. rewrite trun_cons. reflexivity. Qed.

(* the first byte of what cssStringEscape writes for d :: r', when no space was announced for d *)
Lemma css_view_head d r' rest :
  mem gen_prefixWithSpace d = false ->
  exists x X, css_view (d :: r') ++ rest = x :: X /\ is_hex x = false /\ is_css_ws x = false.
Proof.
  intros Hm. cbn [css_view]. unfold css_esc1.
  destruct (css_byte_cases d) as [(Hn & _)|(e & e' & He & -> & _)].
  - rewrite Hn. cbn [app]. eexists _, _. split; [reflexivity|]. apply prefixWithSpace_covers, Hm.
  - rewrite He. cbn [app]. eexists _, _. split; [reflexivity|]. split; reflexivity.
Qed.

Lemma css_run s : forall rest, ~ In 0 s ->
  crun CData (css_view s ++ rest) = prepend s (crun CData rest).
Proof.
  induction s as [|c r IH]; intros rest H0.
  - cbn [css_view app]. rewrite prepend_nil. reflexivity.
  - assert (Hc0 : c <> 0) by (intros ->; apply H0; left; reflexivity).
    assert (Hr0 : ~ In 0 r) by (intros Hi; apply H0; right; exact Hi).
    specialize (IH rest Hr0).
    cbn [css_view]. rewrite <- app_assoc. unfold css_esc1.
    destruct (css_byte_cases c) as [(Hn & _ & _ & _ & Hd)|(e & e' & He & Hee & [[-> Hrun]|(Hn92 & H128 & n & Hrun)])].
    + rewrite Hn. cbn [app]. unfold crun in *. rewrite trun_cons. cbn [cstep]. rewrite (Hd Hc0), IH.
      rewrite prepend_prepend. reflexivity.
    + rewrite He. unfold css_space. cbn [N.eqb Pos.eqb negb andb app]. rewrite app_nil_r.
      unfold crun in *. rewrite (trun_prefix cstep CData e [92] _ Hrun), IH, prepend_prepend. reflexivity.
    + rewrite He. rewrite <- app_assoc.
      unfold crun in *. rewrite trun_app, Hrun. cbn [app].
      assert (Hgoal : trun cstep (CHex n c) ((if css_space c r then [32] else []) ++ css_view r ++ rest)
                      = prepend [c] (trun cstep CData (css_view r ++ rest))).
      { fold crun. destruct (css_space c r) eqn:Hsp.
        - cbn [app]. rewrite (crun_hex_space n c). rewrite css_cp_ascii by assumption. reflexivity.
        - cbn [app]. unfold css_space in Hsp.
          destruct (N.eqb_spec c 92); [contradiction|]. cbn [negb andb] in Hsp.
          destruct r as [|d r']; [discriminate|].
          destruct (css_view_head d r' rest Hsp) as (x & X & HX & Hh & Hw).
          rewrite HX. rewrite (crun_hex_end n c x X Hh Hw). rewrite css_cp_ascii by assumption. reflexivity. }
      rewrite Hgoal, IH. destruct (trun cstep CData rest) as [st o]. reflexivity.
Qed.

Theorem css_slot s rest : ~ In 0 s ->
  css_decode (flat (cssStringEscape s) ++ rest) = s ++ css_decode rest.
Proof.
  intros H0. unfold css_decode. rewrite cssStringEscape_flat, (css_run s rest H0).
  destruct (crun CData rest) as [st o]. unfold prepend. cbn [fst snd]. rewrite app_assoc. reflexivity.
Qed.

(* the exclusion is needed: CSS cannot represent NUL *)
Lemma css_nul_refuted : css_decode (flat (cssStringEscape [0])) <> [0].
Proof. vm_compute. discriminate. Qed.

(* ---------------- JavaScript and JSON strings ---------------- *)
Definition js_byte_check (json : bool) (c : N) : bool :=
  match assoc_get gen_jsStringEscape_tbl c with
  | Some e => match jrun json JData e with (JData, o) => bytes_eqb o [c] | _ => false end
  | None => negb (c =? 92)
  end.
(* the escape of U+2028 / U+2029, when there is one, decodes to the three bytes of that rune *)
Definition js_ls_check (json : bool) (b2 : N) : bool :=
  match assoc_get gen_jsStringEscape_tbl (8064 + b2) with
  | Some e => match jrun json JData e with (JData, o) => bytes_eqb o [226; 128; b2] | _ => false end
  | None => true
  end.

Definition ascii_bytes : list N := map N.of_nat (seq 0 128).
Lemma ascii_bytes_complete c : c < 128 -> In c ascii_bytes.
Proof.
  intros H. unfold ascii_bytes. apply in_map_iff. exists (N.to_nat c). split; [apply N2Nat.id|]. apply in_seq. lia.
Qed.

Lemma fact_js_bytes : forallb (fun c => js_byte_check false c && js_byte_check true c) ascii_bytes = true.
Proof. vm_compute. reflexivity. Qed.
Lemma fact_js_ls : js_ls_check false 168 && js_ls_check false 169 && js_ls_check true 168 && js_ls_check true 169 = true.
Proof. vm_compute. reflexivity. Qed.

Lemma js_esc1_block json c : jrun json JData (js_esc1 c) = (JData, [c]).
Proof.
  unfold js_esc1. destruct (N.ltb_spec c 128) as [Hc|Hc].
  - pose proof fact_js_bytes as H. rewrite forallb_forall in H. specialize (H c (ascii_bytes_complete c Hc)).
    cbv beta in H. apply andb_prop in H. destruct H as [H0 H1].
    assert (H : js_byte_check json c = true) by (destruct json; assumption). unfold js_byte_check in H.
    revert H. destruct (assoc_get gen_jsStringEscape_tbl c) as [e|] eqn:He; intros H.
    + rewrite (esc_or_self_some _ _ _ He).
      destruct (jrun json JData e) as [st o]. destruct st; try discriminate.
      apply bytes_eqb_eq in H. subst o. reflexivity.
    + rewrite (esc_or_self_none _ _ He).
      apply negb_true_iff, N.eqb_neq in H. unfold jrun. cbn [trun jstep]. unfold jdata.
      destruct (N.eqb_spec c 92); [contradiction|]. reflexivity.
  - unfold jrun. cbn [trun jstep]. unfold jdata. destruct (N.eqb_spec c 92); [lia|]. reflexivity.
Qed.

Lemma js_ls_block json b2 e : b2 = 168 \/ b2 = 169 ->
  assoc_get gen_jsStringEscape_tbl (8064 + b2) = Some e -> jrun json JData e = (JData, [226; 128; b2]).
Proof.
  intros Hb He. pose proof fact_js_ls as H.
  apply andb_prop in H. destruct H as [H H4]. apply andb_prop in H. destruct H as [H H3].
  apply andb_prop in H. destruct H as [H1 H2].
  assert (Hc : js_ls_check json b2 = true) by (destruct json, Hb; subst; assumption).
  unfold js_ls_check in Hc. rewrite He in Hc.
  destruct (jrun json JData e) as [st o]. destruct st; try discriminate.
  apply bytes_eqb_eq in Hc. subst o. reflexivity.
Qed.

(* the two shapes of js_view (b0 :: r) *)
Lemma js_view_cases b0 r :
  (exists b2 r' e, b0 = 226 /\ r = 128 :: b2 :: r' /\ (b2 = 168 \/ b2 = 169) /\
     assoc_get gen_jsStringEscape_tbl (8064 + b2) = Some e /\ js_view (b0 :: r) = e ++ js_view r') \/
  js_view (b0 :: r) = js_esc1 b0 ++ js_view r.
Proof.
  rewrite js_view_cons. destruct r as [|b1 [|b2 r']]; try (right; reflexivity).
  destruct ((b0 =? 226) && (b1 =? 128) && ((b2 =? 168) || (b2 =? 169))) eqn:Hc; [|right; reflexivity].
  apply andb_prop in Hc. destruct Hc as [Hc Hc2]. apply andb_prop in Hc. destruct Hc as [Hc0 Hc1].
  apply N.eqb_eq in Hc0, Hc1. subst b0 b1.
  assert (Hb2 : b2 = 168 \/ b2 = 169) by (apply orb_prop in Hc2; destruct Hc2 as [H|H]; apply N.eqb_eq in H; auto).
  destruct (assoc_get gen_jsStringEscape_tbl (8064 + b2)) as [e|] eqn:He.
  - left. exists b2, r', e. repeat split; try assumption; reflexivity.
  - right. reflexivity.
Qed.

Lemma js_run json n : forall s rest, (length s <= n)%nat ->
  jrun json JData (js_view s ++ rest) = prepend s (jrun json JData rest).
Proof.
  induction n as [|n IH]; intros s rest Hl.
  - destruct s; [|cbn [length] in Hl; lia]. cbn [js_view app]. rewrite prepend_nil. reflexivity.
  - destruct s as [|b0 r]; [cbn [js_view app]; rewrite prepend_nil; reflexivity|].
    cbn [length] in Hl.
    destruct (js_view_cases b0 r) as [(b2 & r' & e & -> & -> & Hb2 & He & Hv)|Hv]; rewrite Hv, <- app_assoc.
    + unfold jrun in *. rewrite (trun_prefix (jstep json) JData e _ _ (js_ls_block json b2 e Hb2 He)).
      rewrite IH by (cbn [length] in Hl; lia). rewrite prepend_prepend. reflexivity.
    + unfold jrun in *. rewrite (trun_prefix (jstep json) JData _ _ _ (js_esc1_block json b0)).
      rewrite IH by lia. rewrite prepend_prepend. reflexivity.
Qed.

Theorem js_slot_gen json s rest :
  exists cs, jsStringEscape s = Some cs /\
             js_decode_gen json (flat cs ++ rest) = s ++ js_decode_gen json rest.
Proof.
  destruct (jsStringEscape_view s) as (cs & Hcs & Hf). exists cs. split; [exact Hcs|].
  unfold js_decode_gen. rewrite Hf, (js_run json (length s) s rest (le_n _)).
  destruct (jrun json JData rest) as [st o]. unfold prepend. cbn [fst snd]. rewrite app_assoc. reflexivity.
Qed.

(* the obligation on prefixWithSpace, for every number (bytes by computation, larger numbers are neither hex digits nor whitespace) *)
Lemma prefixWithSpace_obligation d :
  is_hex d || is_css_ws d = true -> mem gen_prefixWithSpace d = true.
Proof.
  intros H. destruct (mem gen_prefixWithSpace d) eqn:Hm; [reflexivity|].
  destruct (prefixWithSpace_covers d Hm) as [H1 H2]. rewrite H1, H2 in H. discriminate.
Qed.

(* all contexts together *)
Lemma roundtrip_all :
  (forall s rest, html_decode (flat (htmlEscape s) ++ rest) = s ++ html_decode rest) /\
  (forall quoted s rest, html_decode (flat (attributeEscape true quoted s) ++ rest) = s ++ html_decode rest) /\
  (forall s rest, exists cs, jsStringEscape s = Some cs /\ js_decode (flat cs ++ rest) = s ++ js_decode rest) /\
  (forall s rest, exists cs, jsonStringEscape s = Some cs /\ json_decode (flat cs ++ rest) = s ++ json_decode rest) /\
  (forall s rest, ~ In 0 s -> css_decode (flat (cssStringEscape s) ++ rest) = s ++ css_decode rest) /\
  (forall s rest, query_decode (flat (queryEscape s) ++ rest) = s ++ query_decode rest) /\
  (forall s rest, pct_decode (flat (queryEscape s) ++ rest) = s ++ pct_decode rest).
Proof.
  split; [exact html_slot|]. split; [exact attr_slot|].
  split; [exact (js_slot_gen false)|]. split; [exact (js_slot_gen true)|].
  split; [exact css_slot|]. split; [exact (query_slot true)|exact (query_slot false)].
Qed.

Lemma roundtrip_closed :
  (forall s, html_decode (flat (htmlEscape s)) = s) /\
  (forall quoted s, html_decode (flat (attributeEscape true quoted s)) = s) /\
  (forall s, exists cs, jsStringEscape s = Some cs /\ js_decode (flat cs) = s) /\
  (forall s, exists cs, jsonStringEscape s = Some cs /\ json_decode (flat cs) = s) /\
  (forall s, ~ In 0 s -> css_decode (flat (cssStringEscape s)) = s) /\
  (forall s, query_decode (flat (queryEscape s)) = s) /\
  (forall s, pct_decode (flat (queryEscape s)) = s).
Proof.
  destruct roundtrip_all as (H1 & H2 & H3 & H4 & H5 & H6 & H7).
  split; [intros s; rewrite <- (app_nil_r (flat _)), H1; apply app_nil_r|].
  split; [intros q s; rewrite <- (app_nil_r (flat _)), H2; apply app_nil_r|].
  split; [intros s; destruct (H3 s []) as (cs & Ha & Hb); exists cs; split; [exact Ha|]; rewrite app_nil_r in Hb; rewrite Hb; apply app_nil_r|].
  split; [intros s; destruct (H4 s []) as (cs & Ha & Hb); exists cs; split; [exact Ha|]; rewrite app_nil_r in Hb; rewrite Hb; apply app_nil_r|].
  split; [intros s Hs; rewrite <- (app_nil_r (flat _)), H5 by exact Hs; apply app_nil_r|].
  split; [intros s; rewrite <- (app_nil_r (flat _)), H6; apply app_nil_r|].
  intros s; rewrite <- (app_nil_r (flat _)), H7; apply app_nil_r.
Qed.

(* the write sequences concatenate to the per-byte views *)
Lemma chunks_views :
  (forall s, flat (htmlEscape s) = flat_map (esc_or_self gen_htmlEscape_tbl) s) /\
  (forall s, flat (htmlNoEntitiesEscape s) = flat_map (esc_or_self gen_htmlNoEntitiesEscape_tbl) s) /\
  (forall e q s, flat (attributeEscape e q s) = flat_map (esc_or_self (attr_tbl e q)) s) /\
  (forall s, flat (cssStringEscape s) = css_view s) /\
  (forall s, exists cs, jsStringEscape s = Some cs /\ flat cs = js_view s) /\
  (forall s, flat (queryEscape s) = flat_map (esc_or_self gen_queryEscape_tbl) s) /\
  (forall q s, flat (pathEscape q s) = path_view q s).
Proof.
  split; [exact htmlEscape_flat|]. split; [exact htmlNoEntitiesEscape_flat|]. split; [exact attributeEscape_flat|].
  split; [exact cssStringEscape_flat|]. split; [exact jsStringEscape_view|]. split; [exact queryEscape_flat|exact pathEscape_flat].
Qed.
