From Coq Require Import List Bool NArith.
From Verif Require Import Facts_checker BuildWrapM.
Import ListNotations.

(* a panic of a rejection class (CheckingError, SyntaxError, LimitExceededError)
   leaves Build as a *BuildError; finite check on the generated lists *)
Lemma rejection_is_builderror c : rejection_class c = true -> panic_outcome c = OBuildError.
Proof. destruct c; simpl; intros H; try discriminate; vm_compute; reflexivity. Qed.

Lemma classified_sites_are_builderrors :
  forall s, In s gen_panic_sites -> rejection_class (snd s) = true -> panic_outcome (snd s) = OBuildError.
Proof. intros s _ H. apply rejection_is_builderror. assumption. Qed.

(* the generated classification of every panic site equals the committed one *)
Lemma panic_sites_match : gen_panic_sites = committed_panic_sites.
Proof. vm_compute. reflexivity. Qed.

(* there are sites of the rejection classes (non vacuity) *)
Lemma some_checking_site : existsb (fun s => rejection_class (snd s)) gen_panic_sites = true.
Proof. vm_compute. reflexivity. Qed.
