(* Lines and columns of the text scan (C21 token_pos_correct): the helpers of
   scan (lexComment, raw blocks, code blocks, scanTag, scanAttribute), the
   context specific steps and the main loop keep the line and column of the
   lexer in sync with the scanned offset, up to the ghost deviation flags. *)
From Verif Require Import Bytes Utf8 Facts_lexer LexBase LexCodeM LexerM LexTables LexPos LexBase_proofs Utf8_proofs
  LexTile_proofs LexCode_proofs Lexer_proofs LexPosBase_proofs LexPosCode_proofs.
Open Scope N_scope.

Lemma isASCIISpace_plain c : isASCIISpace c = true -> c <> 10 -> plain c = true.
Proof.
  unfold isASCIISpace, mem. cbn [gen_lex_isASCIISpace existsb]. intros H Hc.
  repeat (apply orb_prop in H; destruct H as [H|H]); try discriminate; apply N.eqb_eq in H; subst c; try reflexivity; congruence.
Qed.
Lemma get_take s n i : i < n -> get (take n s) i = get s i.
Proof.
  unfold get, take. intros H. assert (Hn : (N.to_nat i < N.to_nat n)%nat) by lia. revert Hn.
  generalize (N.to_nat i) (N.to_nat n). clear. intros a b. revert s b. induction a as [|a IH]; intros s b Hb.
  - destruct b; [lia|]. destruct s; reflexivity.
  - destruct b; [lia|]. destruct s; [reflexivity|]. cbn. apply IH. lia.
Qed.
Lemma isASCIISpace_10 : isASCIISpace 10 = true.
Proof. reflexivity. Qed.

(* the bytes accepted by isEndScript / isEndStyle *)
Lemma in_sets_plain sets : forall s, forallb (forallb plain) sets = true -> in_sets sets s = true -> plain_at s 0 (nlen sets).
Proof.
  induction sets as [|st sets IH]; intros s Hp H; [apply plain_at_0|].
  destruct s as [|c s]; [discriminate|]. cbn [in_sets forallb] in *. apply andb_prop in Hp, H. destruct Hp as [Hp1 Hp2], H as [H1 H2].
  rewrite nlen_cons. apply plain_at_app.
  - eapply plain_at_1; [reflexivity|eapply mem_plain; eassumption].
  - specialize (IH s Hp2 H2). exact IH.
Qed.
Lemma in_sets_firstn k : forall sets s, in_sets sets s = true -> in_sets (firstn k sets) s = true.
Proof.
  induction k as [|k IH]; intros sets s H; [reflexivity|]. destruct sets as [|st sets]; [reflexivity|].
  destruct s as [|c s]; [discriminate|]. cbn [firstn in_sets] in *. apply andb_prop in H. destruct H as [H1 H2].
  rewrite H1. apply IH, H2.
Qed.
Lemma in_sets_get i : forall sets s st, in_sets sets s = true -> nth_error sets i = Some st ->
  exists c, get s (N.of_nat i) = Some c /\ mem st c = true.
Proof.
  induction i as [|i IH]; intros sets s st H Hn; destruct sets as [|st0 sets]; try discriminate;
    destruct s as [|c s]; try discriminate; cbn [in_sets] in H; apply andb_prop in H; destruct H as [H1 H2].
  - injection Hn as <-. exists c. split; [reflexivity|exact H1].
  - cbn [nth_error] in Hn. destruct (IH sets s st H2 Hn) as (c' & Hg & Hm). exists c'. split; [|exact Hm].
    unfold get in *. rewrite Nat2N.id in *. exact Hg.
Qed.

Definition end_bytes (k : N) (s : bytes) : Prop :=
  plain_at s 0 k /\ exists c, get s k = Some c /\ (c = 10 \/ plain c = true).

Lemma isEndStyle_bytes s : isEndStyle s = true -> end_bytes 7 s.
Proof.
  unfold isEndStyle. intros H. apply andb_prop in H. destruct H as [_ H]. split.
  - apply (in_sets_firstn 7) in H. apply in_sets_plain in H; [exact H|reflexivity].
  - destruct (in_sets_get 7 _ _ _ H eq_refl) as (c & Hg & Hm). exists c. split; [exact Hg|].
    unfold mem in Hm. cbn [existsb] in Hm. repeat (apply orb_prop in Hm; destruct Hm as [Hm|Hm]); try discriminate;
      apply N.eqb_eq in Hm; subst c; auto.
Qed.
Lemma isEndScript_bytes s : isEndScript s = true -> end_bytes 8 s.
Proof.
  unfold isEndScript. intros H. apply andb_prop in H. destruct H as [_ H]. split.
  - apply (in_sets_firstn 8) in H. apply in_sets_plain in H; [exact H|reflexivity].
  - destruct (in_sets_get 8 _ _ _ H eq_refl) as (c & Hg & Hm). exists c. split; [exact Hg|].
    unfold mem in Hm. cbn [existsb] in Hm. repeat (apply orb_prop in Hm; destruct Hm as [Hm|Hm]); try discriminate;
      apply N.eqb_eq in Hm; subst c; auto.
Qed.

Section PosScan.
Variable U : unitab.
Variable noshow : bool.
Variable text : bytes.
Hypothesis HU : U_sane U.
Hypothesis Hbytes : is_bytes text = true.

Local Notation psafe := (psafeE (TOK text)).
Local Notation PC := (PC text).

Ltac tok_tac :=
  unfold TOK; lcbn;
  repeat match goal with Hs : same_core _ ?l1 |- Forall _ (l_out ?l1) => rewrite (proj2 (proj2 Hs)) end;
  first [ assumption
        | match goal with H : PC ?l |- Forall _ (l_out ?l) => exact (proj2 (proj1 H)) end
        | match goal with H : WO _ ?l |- Forall _ (l_out ?l) => exact (proj2 H) end ].
Ltac pe := first [exact I | (cbn [psafeE bind negb]; tok_tac)].
Ltac noerr H :=
  exfalso; first [exact (emit_noerr _ _ _ _ H) | exact (emit_at_noerr _ _ _ _ _ _ _ _ H) | exact (advance_noerr _ _ _ H)
                 | exact (emitc_noerr _ _ _ _ H)].
Tactic Notation "pbe" ident(a) ident(H) := apply psafe_bind_eq; [let l := fresh "lerr" in let Herr := fresh "Herr" in intros l Herr; noerr Herr|intros a H].

Lemma text_byte off c : get text off = Some c -> c < 256.
Proof. apply is_bytes_get. exact Hbytes. Qed.

(* the lexer handles one byte as the reference does *)
Lemma SY_byte off l c :
  SY text off l -> get text off = Some c ->
  SY text (off + 1) (if c =? 10 then newline l else if isStartChar c then addcol 1 l else l).
Proof.
  intros Hsy Hg. pose proof (text_byte _ _ Hg) as Hc. rewrite (isStartChar_is_start _ Hc).
  assert (Htk : take 1 (drop off text) = [c]) by (apply take_1; rewrite get_drop0; exact Hg).
  unfold SY in *. destruct (N.eqb_spec c 10) as [->|N10].
  - lcbn. eapply synced_adv; [exact Hsy|exact Htk|reflexivity|reflexivity].
  - assert (E10 : (c =? 10) = false) by (apply N.eqb_neq; exact N10).
    destruct (is_start c) eqn:Es; lcbn;
      (eapply synced_adv; [exact Hsy|exact Htk|rewrite adv_str_cons, E10, Es; reflexivity|cbn [nolf forallb]; rewrite E10; reflexivity]).
Qed.

(* the same for a byte that behaves like c for the reference (see bottom) *)
Lemma SY_byte_like off l c c' :
  SY text off l -> get text off = Some c' -> (c' =? 10) = (c =? 10) -> is_start c' = is_start c -> c < 256 ->
  SY text (off + 1) (if c =? 10 then newline l else if isStartChar c then addcol 1 l else l).
Proof.
  intros Hsy Hg H10 Hst Hc. pose proof (SY_byte off l c' Hsy Hg) as H.
  rewrite (isStartChar_is_start _ (text_byte _ _ Hg)) in H. rewrite (isStartChar_is_start _ Hc), <- H10, <- Hst. exact H.
Qed.

(* ---- count_range ---- *)
Lemma count_range_pos n : forall i l,
  wf text l -> SY text (l_base l + i) l ->
  psafe (count_range n i l) (fun l' => same_core l l' /\ SY text (l_base l + i + N.of_nat n) l').
Proof.
  induction n as [|n IH]; intros i l Hw Hsy.
  - cbn. split; [auto with sc|]. rewrite N.add_0_r. exact Hsy.
  - cbn [count_range]. pget c Hc.
    set (l1 := if c =? 10 then newline l else if isStartChar c then addcol 1 l else l).
    assert (Hs1 : same_core l l1) by (unfold l1; destruct (c =? 10); [|destruct (isStartChar c)]; auto with sc).
    assert (Hw1 : wf text l1) by (destruct Hs1 as (A & [B _] & _); destruct Hw as [pre [Ht Hp]]; exists pre; rewrite A, B; auto).
    assert (Hb1 : l_base l1 = l_base l) by apply Hs1.
    assert (Hsy1 : SY text (l_base l1 + (i + 1)) l1).
    { rewrite Hb1, N.add_assoc. apply SY_byte; [exact Hsy|]. eapply wf_get; eassumption. }
    eapply psafe_mono; [apply (IH (i + 1) l1 Hw1 Hsy1)|].
    intros l' [A B]. split; [eapply same_core_trans; eauto|]. rewrite Hb1 in B.
    replace (l_base l + i + N.of_nat (S n)) with (l_base l + (i + 1) + N.of_nat n) by lia. exact B.
Qed.

(* ---- the delimiters ---- *)
Lemma lex_delim_pos typ1 n endt typ2 l :
  (endt = gen_tokenRightBraces /\ n = 2) \/ (endt = gen_tokenEndStatement /\ n = 2) \/ (endt = gen_tokenEndStatements /\ n = 3) ->
  PC l -> plain_at (l_src l) 0 n ->
  psafe (let* l1 := emitc typ1 n l in let* l2 := lex_code U endt l1 in emitc typ2 n l2) PC.
Proof.
  intros Hn Hp Hpl. assert (Hn1 : 1 <= n) by (destruct Hn as [[_ ->]|[[_ ->]|[_ ->]]]; lia).
  eapply psafe_bind; [apply emitc_plain; assumption|]. intros l1 [Hp1 _].
  eapply psafe_bind; [apply (lex_code_pos U text HU endt l1 Hp1)|]. intros l2 [Hp2 Hcl].
  eapply psafe_mono; [apply emitc_plain; [exact Hp2|exact Hn1|]|intros l3 [A _]; exact A].
  unfold closingP in Hcl. destruct Hn as [[-> ->]|[[-> ->]|[-> ->]]]; exact Hcl.
Qed.

Lemma lex_show_pos l : PC l -> plain_at (l_src l) 0 2 -> psafe (lex_show U l) PC.
Proof. intros. apply lex_delim_pos; auto. Qed.
Lemma lex_statement_pos l : PC l -> plain_at (l_src l) 0 2 -> psafe (lex_statement U l) PC.
Proof. intros. apply lex_delim_pos; auto. Qed.
Lemma lex_statements_pos l : PC l -> plain_at (l_src l) 0 3 -> psafe (lex_statements U l) PC.
Proof. intros. apply lex_delim_pos; auto. Qed.

(* the position after count_range, as a function of the bytes it went over *)
Lemma count_range_bytes n : forall i l l',
  wf text l -> count_range n i l = Ok l' ->
  let bs := take (N.of_nat n) (drop i (l_src l)) in
  (l_line l', l_col l') = adv_str (l_line l, l_col l) bs /\ l_ldev l' = l_ldev l /\
  l_cdev l' = (if nolf bs then l_cdev l else false) /\ nlen bs = N.of_nat n.
Proof.
  induction n as [|n IH]; intros i l l' Hw H.
  - cbn in H. injection H as <-. cbn. auto.
  - cbn [count_range] in H. unfold idx in H. destruct (get (l_src l) i) as [c|] eqn:Hc; [|discriminate]. cbn [bind] in H.
    set (l1 := if c =? 10 then newline l else if isStartChar c then addcol 1 l else l) in H.
    assert (Hs1 : l_src l1 = l_src l) by (unfold l1; destruct (c =? 10); [|destruct (isStartChar c)]; reflexivity).
    assert (Hw1 : wf text l1).
    { destruct Hw as [pre [Ht Hp]]. exists pre. unfold l1. destruct (c =? 10); [|destruct (isStartChar c)]; auto. }
    destruct (IH (i + 1) l1 l' Hw1 H) as (A & B & C & D). rewrite Hs1 in A, C, D.
    assert (Hc256 : c < 256) by exact (text_byte _ _ (wf_get _ _ _ _ Hw Hc)).
    assert (Hbs : take (N.of_nat (S n)) (drop i (l_src l)) = c :: take (N.of_nat n) (drop (i + 1) (l_src l))).
    { replace (N.of_nat (S n)) with (1 + N.of_nat n) by lia. rewrite take_add, drop_drop.
      rewrite (take_1 _ c) by (rewrite get_drop0; exact Hc). reflexivity. }
    cbv zeta. rewrite Hbs. rewrite adv_str_cons. cbn [nolf forallb].
    subst l1. rewrite (isStartChar_is_start _ Hc256) in A, B, C.
    destruct (c =? 10) eqn:E10; [|destruct (is_start c) eqn:Es]; lcbn_in A; lcbn_in B; lcbn_in C; cbn [negb andb];
      (split; [exact A|]); (split; [exact B|]); (split; [|rewrite nlen_cons, D; lia]).
    + rewrite C. destruct (nolf _); reflexivity.
    + exact C.
    + exact C.
Qed.

Lemma count_range_noerr n : forall i l l', count_range n i l = Err l' -> False.
Proof.
  induction n as [|n IH]; intros i l l'; cbn [count_range]; [discriminate|].
  unfold idx. destruct (get (l_src l) i); [|discriminate]. cbn [bind]. apply IH.
Qed.

(* ---- comments ---- *)
Lemma lex_comment_pos l :
  PC l -> get (l_src l) 0 = Some 123 -> get (l_src l) 1 = Some 35 -> psafe (lex_comment l) PC.
Proof.
  intros Hp H0 H1. pose proof Hp as [[Hw Hf] Hsy]. unfold lex_comment. eapply psafe_bind.
  - apply (psafe_loop (comment_body l)
             (fun st => 2 <= snd st /\ (fst st = 0 -> 4 <= snd st /\ get (l_src l) (snd st - 2) = Some 35 /\ get (l_src l) (snd st - 1) = Some 125))
             (fun st => 4 <= snd st /\ get (l_src l) (snd st - 2) = Some 35 /\ get (l_src l) (snd st - 1) = Some 125)).
    + intros [nest1 p] [H2 H3]. cbn [fst snd] in *. unfold comment_body.
      destruct (N.eqb_spec nest1 0) as [Hz|Hnz]; [cbn; auto|].
      destruct (len l <? p); [pe|].
      destruct (index_byte (drop p (l_src l)) 35) as [i|] eqn:Ei; [|pe].
      pose proof (index_byte_get _ _ _ Ei) as Hgi. rewrite get_drop in Hgi.
      pstep; [pgetis x Hx; destruct (x =? 123); [cbn [psafeE fst snd]; split; [lia|intros C; lia]|]|].
      all: pstep; [pgetis y Hy; destruct (N.eqb_spec y 125) as [->|Ny]|]; cbn [psafeE fst snd].
      all: try (split; [lia|intros C; try lia]).
      all: replace (p + 1 + i + 1 - 2) with (p + i) by lia; replace (p + 1 + i + 1 - 1) with (p + i + 1) by lia.
      all: split; [lia|split; assumption].
    + cbn [fst snd]. split; [lia|discriminate].
  - intros [nest1 p] (H4 & Hq1 & Hq2). cbn [fst snd] in *.
    pose proof (get_some _ _ _ Hq2) as Hlen.
    assert (Hw4 : wf text (addcol 4 l)) by (destruct Hw as [pre [Ht Hb]]; exists pre; auto).
    destruct (count_range (N.to_nat (p - 2 - 2)) 2 (addcol 4 l)) as [l2|lerr| |] eqn:Ecr; try pe;
      [|exfalso; exact (count_range_noerr _ _ _ _ Ecr)].
    rewrite bind_ok.
    destruct (count_range_bytes _ _ _ _ Hw4 Ecr) as (A & B & C & D). lcbn_in A. lcbn_in B. lcbn_in C. lcbn_in D.
    rewrite N2Nat.id in *. set (mid := take (p - 2 - 2) (drop 2 (l_src l))) in *.
    assert (Hsc : same_core l l2).
    { pose proof (count_range_ok (N.to_nat (p - 2 - 2)) 2 (addcol 4 l)) as Hok. rewrite Ecr in Hok.
      destruct Hok as (l2' & E2 & Hs2); [change (len (addcol 4 l)) with (len l); unfold len; lia|].
      injection E2 as <-. eapply same_core_trans; [apply sc_addcol|exact Hs2]. }
    (* the bytes of the comment *)
    assert (Hall : take p (l_src l) = [123; 35] ++ mid ++ [35; 125]).
    { replace p with (2 + ((p - 2 - 2) + 2)) at 1 by lia. rewrite take_add. f_equal.
      - change 2 with (1 + 1). rewrite (take_snoc _ _ _ H1), (take_1 _ _ H0). reflexivity.
      - rewrite take_add. f_equal. rewrite drop_drop. replace (2 + (p - 2 - 2)) with (p - 2) by lia.
        change 2 with (1 + 1) at 1. rewrite (take_snoc _ 1 125), (take_1 _ 35); [reflexivity| |];
          rewrite get_drop; [rewrite N.add_0_r; exact Hq1|replace (p - 2 + 1) with (p - 1) by lia; exact Hq2]. }
    set (l3 := if l_line l2 =? l_line (addcol 4 l) then l2 else mark_cdev l2).
    assert (Hs3 : same_core l l3) by (unfold l3; destruct (_ =? _); [exact Hsc|eapply same_core_trans; [exact Hsc|auto with sc]]).
    assert (Hw3 : WO text l3) by (eapply same_core_WO; [exact Hs3|split; assumption]).
    assert (Hb3 : l_base l3 = l_base l) by apply Hs3.
    assert (Hline : l_line l2 = l_line l + cnl mid).
    { replace (l_line l2) with (fst (l_line l2, l_col l2)) by reflexivity. rewrite A, adv_str_line. reflexivity. }
    assert (Hsy3 : SY text (l_base l + p) l3).
    { unfold SY. destruct (nolf mid) eqn:Enl.
      - (* no new line in the comment: every character is counted *)
        pose proof Enl as Ez. apply nolf_cnl in Ez. rewrite Ez, N.add_0_r in Hline.
        rewrite (adv_str_nolf _ _ _ Enl) in A. injection A as _ Acol.
        unfold l3. lcbn. rewrite Hline, N.eqb_refl, Hline, Acol, C, B.
        eapply synced_adv; [exact Hsy|rewrite (wf_take _ _ _ Hw); exact Hall| |].
        + rewrite adv_str_nolf by (rewrite !nolf_app, Enl; reflexivity). rewrite !cstart_app. cbn [cstart is_start N.ltb N.compare Pos.compare Pos.compare_cont orb].
          f_equal. lia.
        + rewrite !nolf_app, Enl. reflexivity.
      - (* a new line in the comment: the closing delimiter is not counted *)
        assert (Hne : cnl mid <> 0) by (intros Ez; apply nolf_cnl in Ez; congruence).
        unfold l3. lcbn. destruct (N.eqb_spec (l_line l2) (l_line l)) as [El|_]; [lia|]. lcbn. rewrite Hline, B.
        eapply synced_cd; [exact Hsy|rewrite (wf_take _ _ _ Hw); exact Hall|].
        rewrite !cnl_app. cbn [cnl N.eqb Pos.eqb]. lia. }
    destruct (emit_at (l_line l) (l_col l) (l_cdev l) (l_ldev l) gen_tokenComment p l3) as [l4|lerr| |] eqn:E4; try pe; [|noerr E4].
    cbn [psafeE].
    destruct (emit_at_WO text _ _ _ _ _ _ _ _ E4 Hw3) as (Hw4' & _ & _ & Hb4 & Hl4 & Hc4 & Hcd4 & Hld4 & _).
    { rewrite Hb3. exact Hsy. }
    { intros _ Cc. discriminate. }
    split; [exact Hw4'|]. rewrite Hb4, Hb3. eapply SY_eq; [exact Hl4|exact Hc4|exact Hcd4|exact Hld4|exact Hsy3].
Qed.

Lemma same_core_wf l l' : same_core l l' -> wf text l -> wf text l'.
Proof. intros (A & [B _] & _) [pre [Ht Hp]]. exists pre. rewrite A, B. auto. Qed.

(* ---- raw blocks ---- *)
Lemma skip_raw_content_pos l :
  wf text l -> SY text (l_base l) l ->
  psafe (skip_raw_content U l) (fun r => same_core l (fst r) /\ SY text (l_base l + snd r) (fst r)).
Proof.
  intros Hw Hsy. unfold skip_raw_content. destruct (l_raw l) as [marker|]; [|pe].
  destruct (safe_inv _ _ _ (end_raw_index_safe U (l_src l) marker)) as [(r & -> & _)|(le & _ & [])].
  rewrite bind_ok. assert (Hsy0 : SY text (l_base l + 0) l) by (rewrite N.add_0_r; exact Hsy).
  destruct r as [p|].
  - destruct (p =? 0); [cbn; split; [auto with sc|exact Hsy0]|].
    eapply psafe_bind; [apply (count_range_pos (N.to_nat p) 0 l Hw Hsy0)|].
    intros l1 [A B]. cbn. split; [exact A|]. rewrite N.add_0_r, N2Nat.id in B. exact B.
  - eapply psafe_bind; [apply (count_range_pos (length (l_src l)) 0 l Hw Hsy0)|].
    intros l1 [A B]. cbn. split; [exact A|]. rewrite N.add_0_r in B. unfold len. rewrite nlen_eq. exact B.
Qed.

(* ---- Markdown code blocks ---- *)
Lemma apply_code_block_pos l p :
  wf text l -> SY text (l_base l + p) l ->
  psafe (apply_code_block l p) (fun r => same_core l (fst r) /\ SY text (l_base l + snd r) (fst r)).
Proof.
  intros Hw Hsy. unfold apply_code_block, scan_code_block.
  assert (Hstay : forall cx, same_core l (fst (set_ctx cx (if p <? p then mark_cdev l else l), p)) /\
                        SY text (l_base l + snd (set_ctx cx (if p <? p then mark_cdev l else l), p)) (fst (set_ctx cx (if p <? p then mark_cdev l else l), p))).
  { intros cx. rewrite N.ltb_irrefl. cbn [fst snd]. split; [repeat split|exact Hsy]. }
  destruct (p <? len l); [|rewrite bind_ok; cbn [psafeE]; apply Hstay].
  pget c Hc.
  assert (Hmove : forall cx k, 1 <= k -> nolf (take k (drop (l_base l + p) text)) = true ->
            same_core l (fst (set_ctx cx (if p <? p + k then mark_cdev l else l), p + k)) /\
            SY text (l_base l + snd (set_ctx cx (if p <? p + k then mark_cdev l else l), p + k)) (fst (set_ctx cx (if p <? p + k then mark_cdev l else l), p + k))).
  { intros cx k Hk Hnl. assert (E : (p <? p + k) = true) by (apply N.ltb_lt; lia). rewrite E. cbn [fst snd].
    split; [repeat split|]. rewrite N.add_assoc. eapply SY_move_cd; [exact Hsy|exact Hnl|reflexivity|reflexivity|reflexivity]. }
  pose proof (wf_get _ _ _ _ Hw Hc) as Hgc.
  destruct (N.eqb_spec c 9) as [->|N9].
  { cbn [psafeE]. apply Hmove; [lia|]. rewrite (take_1 _ 9) by (rewrite get_drop0; exact Hgc). reflexivity. }
  destruct (N.eqb_spec c 32) as [->|N32]; [|cbn [psafeE]; apply Hstay].
  rewrite !bind_assoc. pstep; [|rewrite !bind_ok; cbn [psafeE]; apply Hstay].
  pgetis a Ha'. destruct (N.eqb_spec a 32) as [->|Na]; cbn [negb]; [|rewrite !bind_ok; cbn [psafeE]; apply Hstay].
  pgetis b Hb'. destruct (N.eqb_spec b 32) as [->|Nb]; cbn [negb]; [|rewrite !bind_ok; cbn [psafeE]; apply Hstay].
  pgetis d Hd'. destruct (N.eqb_spec d 32) as [->|Nd]; [|rewrite ?bind_ok; cbn [psafeE]; apply Hstay].
  rewrite ?bind_ok. cbn [psafeE]. apply Hmove; [lia|].
  assert (Hpl : plain_at (l_src l) p 4) by (eapply plain_at_4; [exact Hc|exact Ha'|exact Hb'|exact Hd'|reflexivity|reflexivity|reflexivity|reflexivity]).
  apply (wf_plain_at text l p 4 Hw) in Hpl. destruct Hpl as [Hpl _]. apply plain_all in Hpl. apply Hpl.
Qed.

(* ---- tags ---- *)
Lemma scan_tag_pos l p :
  wf text l -> SY text (l_base l + p) l ->
  psafe (scan_tag U l p) (fun r => same_core l (fst (fst r)) /\ SY text (l_base l + snd r) (fst (fst r))).
Proof.
  intros Hw Hsy. unfold scan_tag.
  eapply psafe_bind with (Q' := fun isa : bool => isa = true -> exists c, get (l_src l) p = Some c /\ isAlpha c = true).
  { destruct (p =? len l); [cbn; discriminate|]. pget c Hc. cbn. intros E. eauto. }
  intros isa Hisa. destruct isa; cbn [negb]; [|cbn; split; [auto with sc|exact Hsy]].
  destruct (Hisa eq_refl) as (c0 & Hc0 & Ha0).
  eapply psafe_bind.
  - apply (psafe_loop tag_body (fun st => same_core l (fst st) /\ SY text (l_base l + snd st) (fst st))
             (fun st => same_core l (fst st) /\ SY text (l_base l + snd st) (fst st))).
    + intros [l1 q] [Hs Hsy1]. cbn [fst snd] in *. unfold tag_body.
      assert (Hsrc : l_src l1 = l_src l) by apply Hs.
      destruct (negb (q <? len l1)); [cbn; auto|]. pget c Hc. rewrite Hsrc in Hc.
      pose proof (wf_get _ _ _ _ Hw Hc) as Hgc.
      destruct ((c =? 62) || (c =? 47) || isASCIISpace c || (c =? 123)) eqn:Estop; [cbn; auto|].
      assert (Hc10 : c <> 10).
      { intros ->. rewrite isASCIISpace_10 in Estop. cbn in Estop. discriminate. }
      cbv zeta. destruct (N.ltb_spec c 128) as [Hlt|Hge].
      * cbn [psafeE fst snd]. split; [eapply same_core_trans; [exact Hs|auto with sc]|]. rewrite N.add_assoc.
        eapply SY_plain; [exact Hsy1|eapply plain_at_1; [exact Hgc|apply plain_lt; assumption]|lcbn; reflexivity|lcbn; reflexivity|lcbn; reflexivity|lcbn; reflexivity].
      * pose proof (get_some _ _ _ Hc) as Hlt.
        destruct (drop_cons_get _ _ Hlt) as (b0 & r0 & Hdr & Hg). rewrite Hc in Hg. injection Hg as <-.
        change (l_src (addcol 1 l1)) with (l_src l1). rewrite Hsrc, Hdr.
        destruct (decode_rune (c :: r0)) as [r w] eqn:Hd. cbn [psafeE fst snd].
        destruct (decode_chunk _ _ _ _ Hd Hc10) as [A1 A2].
        assert (Htk : take (N.of_nat w) (drop (l_base l + q) text) = firstn w (c :: r0)).
        { rewrite (wf_drop_at _ _ _ Hw), Hdr. apply take_nat. }
        rewrite (isStartChar_is_start _ (text_byte _ _ Hgc)). rewrite N.add_assoc.
        destruct (is_start c) eqn:Es.
        -- split; [eapply same_core_trans; [exact Hs|auto with sc]|].
           eapply SY_move; [exact Hsy1|rewrite Htk; exact A1|lcbn; reflexivity|lcbn; rewrite Htk, A2; reflexivity|lcbn; reflexivity|lcbn; reflexivity].
        -- split; [eapply same_core_trans; [exact Hs|repeat split]|].
           eapply SY_move_cd; [exact Hsy1|rewrite Htk; exact A1|lcbn; reflexivity|lcbn; reflexivity|lcbn; reflexivity].
    + cbn [fst snd]. split; [auto with sc|]. rewrite N.add_assoc.
      eapply SY_plain; [exact Hsy|eapply plain_at_1; [eapply wf_get; eassumption|apply isAlpha_plain; exact Ha0]
                       |lcbn; reflexivity|lcbn; reflexivity|lcbn; reflexivity|lcbn; reflexivity].
  - intros [l1 q] [Hs Hsy1]. cbn [fst snd] in *. destruct (len l <? q); [pe|]. cbn. auto.
Qed.

(* ---- attributes ---- *)
Definition attrP (l : lexer) (p : N) (l1 : lexer) (q : N) : Prop :=
  same_core l l1 /\ p <= q /\ SY text (l_base l + q) l1.

Lemma attr_name_body_pos l p st :
  wf text l -> attrP l p (fst (fst st)) (snd (fst st)) ->
  psafe (attr_name_body U st)
    (fun r => match r with Again s' => attrP l p (fst (fst s')) (snd (fst s')) | Stop s' => attrP l p (fst (fst s')) (snd (fst s')) end).
Proof.
  destruct st as [[l1 q] b]. cbn [fst snd]. intros Hw (Hs & Hpq & Hsy). unfold attr_name_body.
  assert (HI : attrP l p l1 q) by (split; [exact Hs|split; [exact Hpq|exact Hsy]]).
  assert (Hsrc : l_src l1 = l_src l) by apply Hs.
  destruct (negb (q <? len l1)); [cbn; exact HI|]. pget c Hc. rewrite Hsrc in Hc.
  pose proof (wf_get _ _ _ _ Hw Hc) as Hgc.
  destruct ((c =? 61) || isASCIISpace c); [cbn; exact HI|].
  destruct ((c <=? 31) || (c =? 34) || (c =? 39) || (c =? 62) || (c =? 47) || (c =? 127)) eqn:Esp; [cbn; exact HI|].
  assert (Hc31 : 31 < c) by (repeat (apply orb_false_elim in Esp; destruct Esp as [Esp ?]); apply N.leb_gt in Esp; exact Esp).
  assert (Hc10 : c <> 10) by lia.
  pose proof (get_some _ _ _ Hc) as Hlt.
  destruct (drop_cons_get _ _ Hlt) as (b0 & r0 & Hdr & Hg). rewrite Hc in Hg. injection Hg as <-.
  (* the bytes of the character, and the position after it *)
  eapply psafe_bind with (Q' := fun r => match r with
      | Some p1 => exists w, p1 + 1 = q + N.of_nat w /\ nolf (firstn w (c :: r0)) = true /\ cstart (firstn w (c :: r0)) = 1
                             /\ (c < 128 -> p1 = q)
      | None => True end).
  { destruct (N.leb_spec 128 c) as [Hge|Hlt128].
    - rewrite Hsrc, Hdr. destruct (decode_rune (c :: r0)) as [r w] eqn:Hd.
      destruct ((r =? rune_error) && Nat.eqb w 1) eqn:Ev; [cbn; exact I|].
      destruct (((127 <=? r) && (r <=? 159)) || u_nonchar U r); cbn; [exact I|].
      destruct (decode_chunk _ _ _ _ Hd Hc10) as [A1 A2]. rewrite (decode_valid_start _ _ _ _ Hd Ev) in A2.
      destruct (decode_rune_width (c :: r0) r w ltac:(discriminate) Hd) as [Hw1 _].
      exists w. split; [lia|]. split; [exact A1|]. split; [exact A2|lia].
    - cbn. exists 1%nat. split; [lia|]. cbn [firstn nolf forallb cstart].
      assert (E10 : (c =? 10) = false) by (apply N.eqb_neq; exact Hc10). rewrite E10.
      assert (Es : is_start c = true) by (unfold is_start; apply orb_true_intro; left; apply N.ltb_lt; exact Hlt128).
      rewrite Es. auto. }
  intros [p1|] Hp1; [|cbn; exact HI]. destruct Hp1 as (w & Hpw & A1 & A2 & Hasc).
  eapply psafe_bind with (Q' := fun delim : bool => delim = true -> p1 = q).
  { destruct (N.eqb_spec c 123) as [->|N123]; cbn [andb]; [|cbn; discriminate].
    destruct (p1 + 1 <? len l1); cbn [andb andm]; [|cbn; discriminate]. pget d Hd. cbn. intros _. apply Hasc. lia. }
  intros delim Hdl. destruct delim; cbn [psafeE fst snd].
  - rewrite (Hdl eq_refl). exact HI.
  - unfold attrP. split; [eapply same_core_trans; [exact Hs|auto with sc]|]. split; [lia|].
    rewrite Hpw, N.add_assoc.
    assert (Htk : take (N.of_nat w) (drop (l_base l + q) text) = firstn w (c :: r0)).
    { rewrite (wf_drop_at _ _ _ Hw), Hdr. apply take_nat. }
    eapply SY_move; [exact Hsy|rewrite Htk; exact A1|lcbn; reflexivity|lcbn; rewrite Htk, A2; reflexivity|lcbn; reflexivity|lcbn; reflexivity].
Qed.

Lemma attr_sp_body_pos mode l p st :
  wf text l -> attrP l p (fst (fst st)) (snd (fst st)) ->
  psafe (attr_sp_body mode st)
    (fun r => match r with Again s' => attrP l p (fst (fst s')) (snd (fst s')) | Stop s' => attrP l p (fst (fst s')) (snd (fst s')) end).
Proof.
  destruct st as [[l1 q] b]. cbn [fst snd]. intros Hw (Hs & Hpq & Hsy). unfold attr_sp_body.
  assert (HI : attrP l p l1 q) by (split; [exact Hs|split; [exact Hpq|exact Hsy]]).
  assert (Hsrc : l_src l1 = l_src l) by apply Hs.
  destruct (negb (q <? len l1)); [cbn; exact HI|]. pget c Hc. rewrite Hsrc in Hc.
  pose proof (wf_get _ _ _ _ Hw Hc) as Hgc.
  assert (Hplain : forall l2, plain c = true -> l_line l2 = l_line l1 -> l_col l2 = l_col l1 + 1 -> l_cdev l2 = l_cdev l1 -> l_ldev l2 = l_ldev l1 ->
            same_core l1 l2 -> attrP l p l2 (q + 1)).
  { intros l2 Hpl E1 E2 E3 E4 Hs2. split; [eapply same_core_trans; eauto|]. split; [lia|]. rewrite N.add_assoc.
    eapply SY_plain; [exact Hsy|eapply plain_at_1; [exact Hgc|exact Hpl]|exact E1|exact E2|exact E3|exact E4]. }
  destruct ((mode =? 0) && (c =? 61)) eqn:E61.
  { apply andb_prop in E61. destruct E61 as [_ E61]. apply N.eqb_eq in E61. subst c.
    cbn [psafeE fst snd]. apply Hplain; try reflexivity. auto with sc. }
  destruct ((mode =? 1) && (c =? 62)); [cbn; exact HI|].
  destruct (isASCIISpace c) eqn:Esp; [|destruct (mode =? 0); cbn; exact HI].
  cbn [psafeE fst snd]. destruct (N.eqb_spec c 10) as [->|N10].
  - split; [eapply same_core_trans; [exact Hs|auto with sc]|]. split; [lia|]. rewrite N.add_assoc.
    eapply SY_nl; [exact Hsy|exact Hgc|lcbn; reflexivity|lcbn; reflexivity|lcbn; reflexivity|lcbn; reflexivity].
  - apply Hplain; try reflexivity; [apply isASCIISpace_plain; assumption|auto with sc].
Qed.

Lemma attr_loop_pos {T} (body : lexer * N * T -> res (step (lexer * N * T))) l p fuel (b0 : T) l1 q :
  (forall st, attrP l p (fst (fst st)) (snd (fst st)) ->
     psafe (body st)
       (fun r => match r with Again s' => attrP l p (fst (fst s')) (snd (fst s')) | Stop s' => attrP l p (fst (fst s')) (snd (fst s')) end)) ->
  attrP l p l1 q ->
  psafe (loop fuel body (l1, q, b0)) (fun s' => attrP l p (fst (fst s')) (snd (fst s'))).
Proof.
  intros Hb HI. apply (psafe_loop body (fun st => attrP l p (fst (fst st)) (snd (fst st)))); [exact Hb|exact HI].
Qed.

Lemma scan_attribute_pos l p :
  wf text l -> SY text (l_base l + p) l ->
  psafe (scan_attribute U l p)
    (fun r => same_core l (fst (fst r)) /\ p <= snd r /\ SY text (l_base l + snd r) (fst (fst r))).
Proof.
  intros Hw Hsy. unfold scan_attribute. cbv zeta.
  assert (HI0 : attrP l p l p) by (split; [auto with sc|split; [lia|exact Hsy]]).
  eapply psafe_bind; [apply (attr_loop_pos (attr_name_body U) l p); [intros st; apply attr_name_body_pos; exact Hw|exact HI0]|].
  intros [[l1 p1] ret] HI1. cbn [fst snd] in HI1. destruct ret; [cbn; exact HI1|].
  destruct ((p1 =? p) || (p1 =? len l)); [cbn; exact HI1|].
  destruct (len l <? p1); [pe|].
  eapply psafe_bind; [apply (attr_loop_pos (attr_sp_body 0) l p); [intros st; apply attr_sp_body_pos; exact Hw|exact HI1]|].
  intros [[l2 p2] k2] HI2. cbn [fst snd] in HI2. destruct (k2 =? 2); [cbn; exact HI2|].
  eapply psafe_bind; [apply (attr_loop_pos (attr_sp_body 1) l p); [intros st; apply attr_sp_body_pos; exact Hw|exact HI2]|].
  intros [[l3 p3] k3] HI3. cbn [fst snd] in HI3. destruct (k3 =? 2); [cbn; exact HI3|].
  destruct (p3 =? len l); cbn; exact HI3.
Qed.

(* ---- the main loop ---- *)
(* tokens right so far; the line and column of the lexer are those of the
   scanned offset; lin and col are those of the start of the pending text *)
Definition MP (st : mst) : Prop :=
  WO text (m_l st) /\ SY text (l_base (m_l st) + m_p st) (m_l st) /\
  synced text (l_base (m_l st)) (m_lin st) (m_col st) (m_lcd st) (m_lld st).

(* the byte at the scanned offset counts as c does for the reference (or the
   lexer has announced that its line is off): what `bottom` relies on *)
Definition BC (c : N) (st : mst) : Prop :=
  l_ldev (m_l st) = true \/
  exists c', get (l_src (m_l st)) (m_p st) = Some c' /\ (c' =? 10) = (c =? 10) /\ is_start c' = is_start c.

Definition swP (c : N) (r : mst * bool) : Prop := MP (fst r) /\ (snd r = false -> BC c (fst r)).

Lemma BC_same c st : get (l_src (m_l st)) (m_p st) = Some c -> BC c st.
Proof. intros H. right. exists c. auto. Qed.

(* a step that changes neither the source, nor the tokens, nor the position *)
Lemma MP_same st l' :
  MP st -> same_pos (m_l st) l' -> MP (mset_lp l' (m_p st) st).
Proof.
  intros (Hw & Hsy & Hlc) (Hs & E1 & E2 & E3 & E4). unfold MP. cbn [m_l m_p m_lin m_col m_lcd m_lld mset_lp].
  assert (Hb : l_base l' = l_base (m_l st)) by apply Hs. rewrite Hb.
  split; [eapply same_core_WO; eauto|]. split; [eapply SY_eq; eauto|exact Hlc].
Qed.

(* the same when the index of the attribute value changes too *)
Definition same_mp (l l' : lexer) : Prop :=
  l_src l' = l_src l /\ l_base l' = l_base l /\ l_out l' = l_out l /\
  l_line l' = l_line l /\ l_col l' = l_col l /\ l_cdev l' = l_cdev l /\ l_ldev l' = l_ldev l.
Lemma MP_eq st l' : MP st -> same_mp (m_l st) l' -> MP (mset_lp l' (m_p st) st).
Proof.
  intros ([[pre [Ht Hp]] Hf] & Hsy & Hlc) (A & B & C & E1 & E2 & E3 & E4). unfold MP. cbn [m_l m_p m_lin m_col m_lcd m_lld mset_lp].
  rewrite B. split; [split; [exists pre; rewrite A, B; auto|rewrite C; exact Hf]|]. split; [eapply SY_eq; eauto|exact Hlc].
Qed.

(* a step forward over k plain bytes, counted *)
Lemma MP_plain st l' k :
  MP st -> same_core (m_l st) l' -> plain_at (l_src (m_l st)) (m_p st) k ->
  l_line l' = l_line (m_l st) -> l_col l' = l_col (m_l st) + k -> l_cdev l' = l_cdev (m_l st) -> l_ldev l' = l_ldev (m_l st) ->
  MP (mset_lp l' (m_p st + k) st).
Proof.
  intros (Hw & Hsy & Hlc) Hs Hpl E1 E2 E3 E4. unfold MP. cbn [m_l m_p m_lin m_col m_lcd m_lld mset_lp].
  assert (Hb : l_base l' = l_base (m_l st)) by apply Hs. rewrite Hb.
  split; [eapply same_core_WO; eauto|]. split; [|exact Hlc]. rewrite N.add_assoc.
  eapply SY_plain; [exact Hsy|apply wf_plain_at; [apply Hw|exact Hpl]|exact E1|exact E2|exact E3|exact E4].
Qed.

Lemma emit_text_pos st l :
  WO text l -> SY text (l_base l + m_p st) l -> synced text (l_base l) (m_lin st) (m_col st) (m_lcd st) (m_lld st) ->
  psafe (emit_text st l) (fun l1 => PC l1 /\ l_src l1 = drop (m_p st) (l_src l)).
Proof.
  intros Hw Hsy Hlc. unfold emit_text.
  destruct (emit_at (m_lin st) (m_col st) (m_lcd st) (m_lld st) gen_tokenText (m_p st) l) as [l1|lerr| |] eqn:E; try pe; [|noerr E].
  cbn [psafeE]. destruct (emit_at_WO text _ _ _ _ _ _ _ _ E Hw Hlc) as (Hw1 & _ & Hs1 & Hb1 & Hl1 & Hc1 & Hcd1 & Hld1 & _).
  { intros _ C. discriminate. }
  split; [|exact Hs1]. split; [exact Hw1|]. rewrite Hb1. eapply SY_eq; [exact Hl1|exact Hc1|exact Hcd1|exact Hld1|exact Hsy].
Qed.

Lemma flush_text_pos st :
  MP st -> psafe (flush_text st) (fun l1 => PC l1 /\ l_src l1 = drop (m_p st) (l_src (m_l st))).
Proof.
  intros (Hw & Hsy & Hlc). unfold flush_text. destruct (N.ltb_spec 0 (m_p st)) as [Hlt|Hge].
  - apply emit_text_pos; assumption.
  - assert (m_p st = 0) by lia. cbn. rewrite H, N.add_0_r in *. split; [split; assumption|reflexivity].
Qed.

Lemma emit0_pos typ l :
  PC l -> typ <> gen_tokenSemicolon -> psafe (emit typ 0 l) (fun l1 => PC l1 /\ l_src l1 = l_src l).
Proof.
  intros Hp Hty. destruct (emit typ 0 l) as [l1|lerr| |] eqn:E; try pe; [|noerr E]. cbn [psafeE].
  destruct (emit_PC text _ _ _ _ E Hp) as (Hw1 & _ & Hs1 & Hb1 & Hl1 & Hc1 & Hcd1 & Hld1 & _); [intros _ C; contradiction|].
  rewrite N.add_0_r in Hb1. split; [|exact Hs1]. split; [exact Hw1|]. rewrite Hb1.
  eapply SY_eq; [exact Hl1|exact Hc1|exact Hcd1|exact Hld1|apply Hp].
Qed.

Lemma MP_resync st0 l : PC l -> MP (resync l st0).
Proof.
  intros [Hw Hsy]. unfold MP. cbn [m_l m_p m_lin m_col m_lcd m_lld resync]. rewrite N.add_0_r. auto.
Qed.

Lemma get_drop_at s p : get (drop p s) 0 = get s p.
Proof. apply get_drop0. Qed.

(* Markdown URLs *)
Lemma md_url_pos st c :
  MP st -> get (l_src (m_l st)) (m_p st) = Some c ->
  psafe (md_url st) (fun r => MP (fst r) /\ (snd r = false -> get (l_src (m_l (fst r))) (m_p (fst r)) = Some c)).
Proof.
  intros HM Hgc. pose proof HM as (Hw & Hsy & Hlc). unfold md_url. cbv zeta.
  destruct (m_url st).
  - destruct (isMarkdownEndURL (drop (m_p st) (l_src (m_l st)))); [|cbn; auto].
    eapply psafe_bind; [apply flush_text_pos; exact HM|]. intros l1 [Hp1 Hs1].
    eapply psafe_bind; [apply emit0_pos; [exact Hp1|discriminate]|]. intros l2 [Hp2 Hs2].
    cbn [psafeE fst snd]. split; [apply MP_resync; exact Hp2|]. intros _. cbn [m_l m_p mset_url resync].
    rewrite Hs2, Hs1, get_drop_at. exact Hgc.
  - eapply psafe_bind with (Q' := fun _ => True).
    { destruct (m_p st =? 0); [cbn; exact I|]. pget y Hy. cbn. exact I. }
    intros okprev _.
    destruct (okprev && isMarkdownStartURL (drop (m_p st) (l_src (m_l st)))) eqn:Eok; [|cbn; auto].
    apply andb_prop in Eok. destruct Eok as [_ Eok].
    eapply psafe_bind; [apply flush_text_pos; exact HM|]. intros l1 [Hp1 Hs1].
    eapply psafe_bind; [apply emit0_pos; [exact Hp1|discriminate]|]. intros l2 [Hp2 Hs2].
    pget c4 Hc4. cbn [psafeE fst snd]. split; [|discriminate].
    set (k := if c4 =? 115 then 8 else 7).
    (* the bytes of the scheme hold no new line *)
    assert (Hnl : nolf (take k (l_src l2)) = true).
    { rewrite Hs2, Hs1. unfold isMarkdownStartURL in Eok. apply orb_prop in Eok. rewrite Hs2, Hs1 in Hc4.
      destruct Eok as [E|E]; pose proof (has_prefix_take _ _ E) as Ht.
      - change (nlen gen_lex_https) with 8 in Ht. unfold k. destruct (c4 =? 115).
        + rewrite Ht. reflexivity.
        + rewrite <- (take_take 7 8) by lia. rewrite Ht. reflexivity.
      - change (nlen gen_lex_http) with 7 in Ht. unfold k. destruct (N.eqb_spec c4 115) as [->|_]; [|rewrite Ht; reflexivity].
        exfalso. assert (Hg4 : get (take 7 (drop (m_p st) (l_src (m_l st)))) 4 = Some 115).
        { rewrite get_take by lia. exact Hc4. }
        rewrite Ht in Hg4. discriminate. }
    destruct Hp2 as [[Hw2 Hf2] Hsy2]. unfold MP. cbn [m_l m_p m_lin m_col m_lcd m_lld].
    split; [eapply same_core_WO; [|split; eassumption]; repeat split|].
    split.
    + lcbn. eapply SY_move_cd; [exact Hsy2|rewrite (wf_take _ _ _ Hw2); exact Hnl|reflexivity|reflexivity|reflexivity].
    + lcbn. eapply synced_mark. exact Hsy2.
Qed.

Lemma sc_mark_if_nl' l i : same_core l (mark_if_nl l i).
Proof. unfold mark_if_nl. destruct (get (l_src l) i); [destruct (_ =? 10)|]; repeat split. Qed.

(* the end tag of a script or style element: k bytes are skipped and counted, the byte
   after them is counted by `bottom` as the less-than sign is *)
Lemma endtag_step st fc k st' :
  MP st -> end_bytes k (drop (m_p st) (l_src (m_l st))) ->
  m_l st' = addcol k (set_ctx fc (mark_if_nl (m_l st) (m_p st + k))) -> m_p st' = m_p st + k ->
  m_lin st' = m_lin st -> m_col st' = m_col st -> m_lcd st' = m_lcd st -> m_lld st' = m_lld st ->
  MP st' /\ BC 60 st'.
Proof.
  intros (Hw & Hsy & Hlc) [Hpl (c' & Hg & Hc')] El Ep E1 E2 E3 E4. rewrite get_drop in Hg.
  assert (Hsc : same_core (m_l st) (m_l st')).
  { rewrite El. eapply same_core_trans; [apply sc_mark_if_nl'|repeat split]. }
  assert (Hb : l_base (m_l st') = l_base (m_l st)) by apply Hsc.
  assert (Hsrc : l_src (m_l st') = l_src (m_l st)) by apply Hsc.
  unfold MP, BC. rewrite Ep, E1, E2, E3, E4, Hb, Hsrc.
  split; [split; [eapply same_core_WO; eauto|split; [|exact Hlc]]|].
  - rewrite El. unfold mark_if_nl. rewrite Hg. destruct (N.eqb_spec c' 10) as [->|N10].
    + apply SY_ld. reflexivity.
    + rewrite N.add_assoc. eapply SY_plain; [exact Hsy| |lcbn; reflexivity|lcbn; reflexivity|lcbn; reflexivity|lcbn; reflexivity].
      apply wf_plain_at; [apply Hw|]. destruct Hpl as [A B]. split; [rewrite drop_drop, N.add_0_r in A; exact A|rewrite drop_drop, N.add_0_r in B; exact B].
  - rewrite El. unfold mark_if_nl. rewrite Hg. destruct (N.eqb_spec c' 10) as [->|N10]; [left; reflexivity|].
    right. exists c'. split; [first [exact Hg|reflexivity]|]. destruct Hc' as [->|Hc']; [contradiction|].
    apply plain_inv in Hc'. destruct Hc' as [H128 _]. split; [apply N.eqb_neq in N10; rewrite N10; reflexivity|].
    unfold is_start. apply N.ltb_lt in H128. rewrite H128. reflexivity.
Qed.

(* one more plain byte is skipped and counted (escapes in strings, comment delimiters) *)
Lemma skip1_step st c d st' :
  MP st -> get (l_src (m_l st)) (m_p st) = Some c -> get (l_src (m_l st)) (m_p st + 1) = Some d ->
  plain c = true -> plain d = true ->
  m_l st' = addcol 1 (m_l st) -> m_p st' = m_p st + 1 ->
  m_lin st' = m_lin st -> m_col st' = m_col st -> m_lcd st' = m_lcd st -> m_lld st' = m_lld st ->
  MP st' /\ BC c st'.
Proof.
  intros HM Hgc Hgd Hpc Hpd El Ep E1 E2 E3 E4.
  assert (HM' : MP (mset_lp (addcol 1 (m_l st)) (m_p st + 1) st)).
  { apply MP_plain; try reflexivity; [exact HM|auto with sc|eapply plain_at_1; [exact Hgc|exact Hpc]]. }
  split.
  - unfold MP in *. rewrite El, Ep, E1, E2, E3, E4. exact HM'.
  - right. exists d. rewrite El, Ep. split; [exact Hgd|].
    apply plain_inv in Hpc, Hpd. destruct Hpc as [A1 A2], Hpd as [B1 B2]. apply N.eqb_neq in A2, B2. rewrite A2, B2.
    split; [reflexivity|]. unfold is_start. apply N.ltb_lt in A1, B1. rewrite A1, B1. reflexivity.
Qed.

Lemma css_ctx_pos fc isHTML st c :
  MP st -> get (l_src (m_l st)) (m_p st) = Some c -> swP c (css_ctx fc isHTML st c, false).
Proof.
  intros HM Hgc. unfold css_ctx, swP. cbv zeta. cbn [fst snd].
  destruct (isHTML && (c =? 60) && isEndStyle (drop (m_p st) (l_src (m_l st)))) eqn:E.
  - apply andb_prop in E. destruct E as [E1 E]. apply andb_prop in E1. destruct E1 as [_ E1]. apply N.eqb_eq in E1. subst c.
    match goal with |- MP ?s' /\ _ => destruct (endtag_step st fc 7 s' HM (isEndStyle_bytes _ E) eq_refl eq_refl eq_refl eq_refl eq_refl eq_refl) as [A B] end. auto.
  - destruct ((c =? 34) || (c =? 39)).
    + split; [apply (MP_same st); [exact HM|repeat split]|]. intros _. apply BC_same. exact Hgc.
    + split; [exact HM|]. intros _. apply BC_same. exact Hgc.
Qed.

Lemma json_ctx_pos fc isHTML st c :
  MP st -> get (l_src (m_l st)) (m_p st) = Some c -> swP c (json_ctx fc isHTML st c, false).
Proof.
  intros HM Hgc. unfold json_ctx, swP. cbv zeta. cbn [fst snd].
  destruct (isHTML && (c =? 60) && isEndScript (drop (m_p st) (l_src (m_l st)))) eqn:E.
  - apply andb_prop in E. destruct E as [E1 E]. apply andb_prop in E1. destruct E1 as [_ E1]. apply N.eqb_eq in E1. subst c.
    match goal with |- MP ?s' /\ _ => destruct (endtag_step st fc 8 s' HM (isEndScript_bytes _ E) eq_refl eq_refl eq_refl eq_refl eq_refl eq_refl) as [A B] end. auto.
  - destruct (c =? 34).
    + split; [apply (MP_same st); [exact HM|repeat split]|]. intros _. apply BC_same. exact Hgc.
    + split; [exact HM|]. intros _. apply BC_same. exact Hgc.
Qed.

Lemma str_ctx_pos fc isHTML back quote json isend skip st c :
  (forall s, isend s = true -> end_bytes skip s) -> quote <> 10 -> quote < 128 ->
  MP st -> get (l_src (m_l st)) (m_p st) = Some c ->
  psafe (str_ctx fc isHTML back quote json isend skip st c) (fun s => swP c (s, false)).
Proof.
  intros Hend Hq10 Hq128 HM Hgc. unfold str_ctx, swP. cbv zeta.
  assert (Hstay : MP st /\ (false = false -> BC c st)) by (split; [exact HM|intros _; apply BC_same; exact Hgc]).
  destruct (N.eqb_spec c 92) as [->|N92].
  { pstep; [|cbn; exact Hstay]. pget x Hx. destruct ((x =? quote) || (x =? 92)) eqn:Eq; cbn [psafeE fst snd]; [|exact Hstay].
    assert (Hpx : plain x = true).
    { apply orb_prop in Eq. destruct Eq as [Eq|Eq]; apply N.eqb_eq in Eq; subst x; [apply plain_lt; assumption|reflexivity]. }
    match goal with |- MP ?s' /\ _ => destruct (skip1_step st 92 x s' HM Hgc Hx eq_refl Hpx eq_refl eq_refl eq_refl eq_refl eq_refl eq_refl) as [A B] end. auto. }
  destruct (c =? quote).
  { cbn [psafeE fst snd]. split; [apply (MP_same st); [exact HM|repeat split]|]. intros _. apply BC_same. exact Hgc. }
  destruct (N.eqb_spec c 60) as [->|N60]; [|cbn; exact Hstay].
  destruct (isHTML && isend (drop (m_p st) (l_src (m_l st)))) eqn:E; [|cbn; exact Hstay].
  apply andb_prop in E. destruct E as [_ E]. cbn [psafeE fst snd].
  match goal with |- MP ?s' /\ _ => destruct (endtag_step st fc skip s' HM (Hend _ E) eq_refl eq_refl eq_refl eq_refl eq_refl eq_refl) as [A B] end. auto.
Qed.

Lemma js_ctx_pos fc isHTML st c :
  MP st -> get (l_src (m_l st)) (m_p st) = Some c ->
  psafe (js_ctx fc isHTML st c) (fun s => swP c (s, false)).
Proof.
  intros HM Hgc. unfold js_ctx, swP. cbv zeta.
  assert (Hstay : forall st', m_l st' = m_l st -> m_p st' = m_p st -> m_lin st' = m_lin st -> m_col st' = m_col st ->
             m_lcd st' = m_lcd st -> m_lld st' = m_lld st -> MP (fst (st', false)) /\ (snd (st', false) = false -> BC c (fst (st', false)))).
  { intros st' E0 E1 E2 E3 E4 E5. cbn [fst snd]. unfold MP, BC. rewrite E0, E1, E2, E3, E4, E5. split; [exact HM|]. intros _. apply BC_same. exact Hgc. }
  destruct (isHTML && (c =? 60) && isEndScript (drop (m_p st) (l_src (m_l st)))) eqn:E.
  { apply andb_prop in E. destruct E as [E1 E]. apply andb_prop in E1. destruct E1 as [_ E1]. apply N.eqb_eq in E1. subst c.
    cbn [psafeE fst snd].
    match goal with |- MP ?s' /\ _ => destruct (endtag_step st fc 8 s' HM (isEndScript_bytes _ E) eq_refl eq_refl eq_refl eq_refl eq_refl eq_refl) as [A B] end. auto. }
  destruct (m_jsc st =? 1).
  { cbn [psafeE]. destruct ((c =? 10) || (c =? 13)); apply Hstay; reflexivity. }
  destruct (m_jsc st =? 2).
  { pstep; [|cbn [psafeE]; apply Hstay; reflexivity]. b2p. subst c.
    pstep; [|cbn [psafeE]; apply Hstay; reflexivity]. pgetis x Hx. destruct (N.eqb_spec x 47) as [->|N47]; cbn [psafeE fst snd]; [|apply Hstay; reflexivity].
    match goal with |- MP ?s' /\ _ => destruct (skip1_step st 42 47 s' HM Hgc Hx eq_refl eq_refl eq_refl eq_refl eq_refl eq_refl eq_refl eq_refl) as [A B] end. auto. }
  destruct ((c =? 47) && (m_p st + 1 <? len (m_l st))) eqn:E2.
  { apply andb_prop in E2. destruct E2 as [E2 _]. apply N.eqb_eq in E2. subst c. pget d Hd.
    destruct (N.eqb_spec d 47) as [->|N47].
    { cbn [psafeE fst snd]. match goal with |- MP ?s' /\ _ => destruct (skip1_step st 47 47 s' HM Hgc Hd eq_refl eq_refl eq_refl eq_refl eq_refl eq_refl eq_refl eq_refl) as [A B] end. auto. }
    destruct (N.eqb_spec d 42) as [->|N42]; cbn [psafeE fst snd]; [|apply Hstay; reflexivity].
    match goal with |- MP ?s' /\ _ => destruct (skip1_step st 47 42 s' HM Hgc Hd eq_refl eq_refl eq_refl eq_refl eq_refl eq_refl eq_refl eq_refl) as [A B] end. auto. }
  destruct ((c =? 34) || (c =? 39)); cbn [psafeE fst snd]; [|apply Hstay; reflexivity].
  split; [apply (MP_same st); [exact HM|repeat split]|]. intros _. apply BC_same. exact Hgc.
Qed.

(* '<' in HTML and Markdown *)
Lemma html_lt_pos st c :
  MP st -> get (l_src (m_l st)) (m_p st) = Some c -> psafe (html_lt U st c) (swP c).
Proof.
  intros HM Hgc. pose proof HM as (Hw & Hsy & Hlc). unfold html_lt, swP.
  destruct (N.eqb_spec c 60) as [->|N60]; cbn [negb]; [|cbn; split; [exact HM|intros _; apply BC_same; exact Hgc]].
  cbv zeta.
  eapply psafe_bind with (Q' := fun _ => True).
  { destruct ((l_ctx (m_l st) =? gen_ContextHTML) && (m_p st + 8 <? len (m_l st))); [|exact I].
    cbn [andm]. unfold idx_is, idx. destruct (get (l_src (m_l st)) (m_p st + 1)); exact I. }
  intros iscd _.
  assert (Hlt1 : plain_at (l_src (m_l st)) (m_p st) 1) by (eapply plain_at_1; [exact Hgc|reflexivity]).
  destruct (iscd && has_prefix (drop (m_p st) (l_src (m_l st))) gen_lex_cdataStart) eqn:Ecd.
  - (* CDATA *)
    apply andb_prop in Ecd. destruct Ecd as [_ Ecd]. apply has_prefix_take in Ecd. change (nlen gen_lex_cdataStart) with 9 in Ecd.
    set (p6 := m_p st + 6). set (l6 := addcol 6 (m_l st)).
    assert (HM6 : MP (mset_lp l6 p6 st)).
    { apply MP_plain; try reflexivity; [exact HM|exact (sc_addcol 6 (m_l st))|]. split.
      - rewrite <- (take_take 6 9) by lia. rewrite Ecd. reflexivity.
      - rewrite <- (take_take 6 9) by lia. rewrite Ecd. reflexivity. }
    destruct HM6 as (Hw6 & Hsy6 & Hlc6). cbn [m_l m_p m_lin m_col m_lcd m_lld mset_lp] in Hw6, Hsy6, Hlc6.
    match goal with |- context [count_range (N.to_nat (?tt - p6)) p6 l6] => set (t := tt) end.
    eapply psafe_bind; [apply (count_range_pos _ p6 l6 (proj1 Hw6) Hsy6)|].
    intros l1 [Hs1 Hsy1]. cbn [psafeE fst snd]. split; [|discriminate].
    unfold MP. cbn [m_l m_p m_lin m_col m_lcd m_lld mset_lp].
    assert (Hb1 : l_base l1 = l_base (m_l st)) by apply Hs1. rewrite Hb1.
    split; [eapply same_core_WO; [exact Hs1|exact Hw6]|]. split; [|exact Hlc].
    rewrite N2Nat.id in Hsy1. change (l_base l6) with (l_base (m_l st)) in Hsy1.
    destruct (N.le_ge_cases p6 t) as [Hle|Hge].
    + rewrite N.max_r by exact Hle. replace (l_base (m_l st) + t) with (l_base (m_l st) + p6 + (t - p6)) by lia. exact Hsy1.
    + rewrite N.max_l by exact Hge. replace (t - p6) with 0 in Hsy1 by lia. rewrite N.add_0_r in Hsy1. exact Hsy1.
  - (* a tag *)
    assert (HM1 : MP (mset_lp (addcol 1 (m_l st)) (m_p st + 1) st)).
    { apply MP_plain; try reflexivity; [exact HM|auto with sc|exact Hlt1]. }
    destruct HM1 as (Hw1 & Hsy1 & Hlc1). cbn [m_l m_p m_lin m_col m_lcd m_lld mset_lp] in Hw1, Hsy1, Hlc1.
    eapply psafe_bind; [apply (scan_tag_pos (addcol 1 (m_l st)) (m_p st + 1) (proj1 Hw1) Hsy1)|].
    intros [[l1 name] q] [Hs1 Hsyq]. cbn [fst snd] in Hs1, Hsyq.
    match goal with |- context [mset_lp ?l3 q st] => set (L3 := l3) end.
    assert (Hsp : same_pos l1 L3).
    { unfold L3. destruct (nonempty name); [destruct (bytes_eqb name s_script); [|destruct (bytes_eqb name s_style)]|]; repeat split. }
    cbn [psafeE fst snd]. split; [|discriminate].
    unfold MP. cbn [m_l m_p m_lin m_col m_lcd m_lld mset_lp].
    destruct Hsp as (Hsc3 & E1 & E2 & E3 & E4).
    assert (Hb3 : l_base L3 = l_base (m_l st)) by (destruct Hsc3 as (_ & [B _] & _); destruct Hs1 as (_ & [B' _] & _); rewrite B, B'; reflexivity).
    rewrite Hb3. split; [eapply same_core_WO; [exact Hsc3|eapply same_core_WO; [exact Hs1|exact Hw1]]|]. split; [|exact Hlc].
    eapply SY_eq; [exact E1|exact E2|exact E3|exact E4|exact Hsyq].
Qed.

(* inside a tag *)
Lemma tag_ctx_pos fc st c :
  MP st -> get (l_src (m_l st)) (m_p st) = Some c -> psafe (tag_ctx U fc st c) (swP c).
Proof.
  intros HM Hgc. pose proof HM as (Hw & Hsy & Hlc). unfold tag_ctx, swP. cbv zeta.
  assert (Hstay : forall l', same_pos (m_l st) l' -> MP (fst (mset_lp l' (m_p st) st, false)) /\ (snd (mset_lp l' (m_p st) st, false) = false -> BC c (fst (mset_lp l' (m_p st) st, false)))).
  { intros l' Hsp. cbn [fst snd]. split; [apply MP_same; assumption|]. intros _. right. exists c. cbn [m_l m_p mset_lp].
    destruct Hsp as ((A & _) & _). rewrite A. auto. }
  eapply psafe_bind with (Q' := fun e : bool => e = true -> c = 62).
  { unfold orm, andm. destruct (N.eqb_spec c 62); [cbn; auto|].
    destruct (c =? 47); [|cbn; discriminate]. destruct (m_p st <? len (m_l st)); [|cbn; discriminate].
    unfold idx_is, idx. rewrite Hgc. cbn. destruct (N.eqb_spec c 62); [contradiction|discriminate]. }
  intros endtag He. destruct endtag.
  { rewrite (He eq_refl). change (62 =? 47) with false. cbn [psafeE]. rewrite <- (He eq_refl). apply Hstay. repeat split. }
  destruct (negb (isASCIISpace c)); [|cbn [psafeE fst snd]; split; [exact HM|intros _; apply BC_same; exact Hgc]].
  eapply psafe_bind; [apply (scan_attribute_pos (m_l st) (m_p st) (proj1 Hw) Hsy)|].
  intros [[l1 attr] next] (Hs1 & Hnext & Hsy1). cbn [fst snd] in Hs1, Hnext, Hsy1.
  set (l1a := set_att attr l1).
  assert (Hsa : same_core (m_l st) l1a) by (eapply same_core_trans; [exact Hs1|repeat split]).
  assert (Hba : l_base l1a = l_base (m_l st)) by apply Hsa.
  assert (Hsrca : l_src l1a = l_src (m_l st)) by apply Hsa.
  assert (Hsya : SY text (l_base (m_l st) + next) l1a) by exact Hsy1.
  assert (Hwa : WO text l1a) by (eapply same_core_WO; eauto).
  assert (HMa : MP (mset_lp l1a next st)).
  { unfold MP. cbn [m_l m_p m_lin m_col m_lcd m_lld mset_lp]. rewrite Hba. auto. }
  clearbody l1a.
  destruct (N.ltb_spec (m_p st) next) as [Hlt|Hge].
  2:{ assert (next = m_p st) by lia. subst next. cbn [psafeE fst snd]. split; [exact HMa|]. intros _. right. exists c.
      cbn [m_l m_p mset_lp]. rewrite Hsrca. auto. }
  destruct (nonempty attr && (next <? len l1a)) eqn:Ene; [|cbn [psafeE fst snd]; split; [exact HMa|discriminate]].
  pget q Hq. cbv zeta.
  set (isq := (q =? 34) || (q =? 39)).
  set (l2 := if isq then addcol 1 l1a else l1a). set (p2 := if isq then next + 1 else next).
  assert (HM2 : MP (mset_lp l2 p2 st)).
  { unfold l2, p2. destruct isq eqn:Eq; [|exact HMa].
    assert (Hpq : plain q = true) by (unfold isq in Eq; destruct (orb_eqb2 _ _ _ Eq) as [-> | ->]; reflexivity).
    apply (MP_plain (mset_lp l1a next st) (addcol 1 l1a) 1); try reflexivity; [exact HMa|auto with sc|].
    cbn [m_l m_p mset_lp]. eapply plain_at_1; [exact Hq|exact Hpq]. }
  destruct HM2 as (Hw2 & Hsy2 & Hlc2). cbn [m_l m_p m_lin m_col m_lcd m_lld mset_lp] in Hw2, Hsy2, Hlc2.
  destruct (containsURL (l_tag l2) attr).
  - eapply psafe_bind; [apply (emit_text_pos (mset_lp l2 p2 st) l2 Hw2 Hsy2 Hlc2)|]. intros l3 [Hp3 _].
    set (l4 := set_ctx _ l3). assert (Hp4 : PC l4) by (eapply same_pos_PC; [|exact Hp3]; repeat split).
    eapply psafe_bind; [apply (emit0_pos gen_tokenStartURL l4 Hp4); discriminate|]. intros l5 [Hp5 _].
    cbn [psafeE fst snd]. split; [apply MP_resync; exact Hp5|discriminate].
  - cbn [psafeE fst snd]. split; [|discriminate].
    apply (MP_eq (mset_lp l2 p2 st)); [unfold MP; cbn [m_l m_p m_lin m_col m_lcd m_lld mset_lp]; auto|repeat split].
Qed.

(* end of an attribute value *)
Lemma attr_ctx_pos fc st c :
  MP st -> get (l_src (m_l st)) (m_p st) = Some c -> psafe (attr_ctx U fc st c) (swP c).
Proof.
  intros HM Hgc. unfold attr_ctx, swP. cbv zeta.
  match goal with |- context [if negb ?b then _ else _] => destruct b end; cbn [negb];
    [|cbn [psafeE fst snd]; split; [exact HM|intros _; apply BC_same; exact Hgc]].
  eapply psafe_bind with (Q' := fun st1 => MP st1 /\ get (l_src (m_l st1)) (m_p st1) = Some c).
  - destruct (m_url (mset_quote 0 st)).
    + eapply psafe_bind; [apply (flush_text_pos (mset_quote 0 st)); exact HM|]. intros l1 [Hp1 Hs1].
      eapply psafe_bind; [apply emit0_pos; [exact Hp1|discriminate]|]. intros l2 [Hp2 Hs2].
      cbn [psafeE]. split; [apply MP_resync; exact Hp2|]. cbn [m_l m_p mset_url resync]. rewrite Hs2, Hs1, get_drop_at. exact Hgc.
    + assert (Hsame : MP (mset_quote 0 st) /\ get (l_src (m_l (mset_quote 0 st))) (m_p (mset_quote 0 st)) = Some c) by (split; [exact HM|exact Hgc]).
      assert (Hset : forall v, MP (mset_lp (set_tctx v (m_l st)) (m_p st) (mset_quote 0 st)) /\
                     get (l_src (m_l (mset_lp (set_tctx v (m_l st)) (m_p st) (mset_quote 0 st)))) (m_p (mset_lp (set_tctx v (m_l st)) (m_p st) (mset_quote 0 st))) = Some c).
      { intros v. split; [apply (MP_same (mset_quote 0 st)); [exact HM|repeat split]|exact Hgc]. }
      destruct (bytes_eqb (l_att (m_l st)) s_type); [|cbn; exact Hsame].
      destruct (bytes_eqb (l_tag (m_l st)) s_script).
      { unfold attr_value. destruct ((m_p st <? l_tidx (m_l st)) || (len (m_l st) <? m_p st)); [pe|]. rewrite bind_ok.
        destruct (bytes_eqb _ gen_lex_moduleType); [cbn; exact Hsame|].
        destruct (nonempty _); [|cbn; exact Hsame].
        destruct (equal_fold U _ gen_lex_jsonLDMimeType); [cbn; apply Hset|].
        destruct (negb (equal_fold U _ gen_lex_jsMimeType)); cbn; [apply Hset|exact Hsame]. }
      destruct (bytes_eqb (l_tag (m_l st)) s_style); [|cbn; exact Hsame].
      unfold attr_value. destruct ((m_p st <? l_tidx (m_l st)) || (len (m_l st) <? m_p st)); [pe|]. rewrite bind_ok.
      destruct (nonempty _ && negb (equal_fold U _ gen_lex_cssMimeType)); cbn; [apply Hset|exact Hsame].
  - intros st1 [HM1 Hg1]. cbn [psafeE fst snd]. split.
    + apply (MP_eq st1); [exact HM1|repeat split].
    + intros _. right. exists c. cbn [m_l m_p mset_lp]. auto.
Qed.

(* the quote of the current string or attribute value: none, or one of the two quotes *)
Definition QI (st : mst) : Prop := m_quote st = 0 \/ m_quote st = 34 \/ m_quote st = 39.

Lemma ctx_switch_pos fc isHTML st c :
  MP st -> QI st -> get (l_src (m_l st)) (m_p st) = Some c -> psafe (ctx_switch U fc isHTML st c) (swP c).
Proof.
  intros HM HQ Hgc. unfold ctx_switch. cbv zeta.
  assert (Hq : m_quote st <> 10 /\ m_quote st < 128) by (destruct HQ as [-> | [-> | ->]]; split; lia).
  destruct (l_ctx (m_l st) =? gen_ContextMarkdown).
  { eapply psafe_bind; [apply (md_url_pos st c HM Hgc)|]. intros [st1 cont] [HM1 Hg1]. cbn [fst snd] in *.
    destruct cont; [cbn; split; [exact HM1|discriminate]|]. apply html_lt_pos; [exact HM1|apply Hg1; reflexivity]. }
  destruct (l_ctx (m_l st) =? gen_ContextHTML); [apply html_lt_pos; assumption|].
  destruct (l_ctx (m_l st) =? gen_ContextTag); [apply tag_ctx_pos; assumption|].
  destruct ((l_ctx (m_l st) =? gen_ContextQuotedAttr) || (l_ctx (m_l st) =? gen_ContextUnquotedAttr)); [apply attr_ctx_pos; assumption|].
  destruct (l_ctx (m_l st) =? gen_ContextCSS); [cbn [psafeE]; apply css_ctx_pos; assumption|].
  destruct (l_ctx (m_l st) =? gen_ContextCSSString).
  { eapply psafe_bind; [apply str_ctx_pos; [exact isEndStyle_bytes|apply Hq|apply Hq|exact HM|exact Hgc]|]. intros s0 Hs0. exact Hs0. }
  destruct (l_ctx (m_l st) =? gen_ContextJS).
  { eapply psafe_bind; [apply js_ctx_pos; assumption|]. intros s0 Hs0. exact Hs0. }
  destruct (l_ctx (m_l st) =? gen_ContextJSString).
  { eapply psafe_bind; [apply str_ctx_pos; [exact isEndScript_bytes|apply Hq|apply Hq|exact HM|exact Hgc]|]. intros s0 Hs0. exact Hs0. }
  destruct (l_ctx (m_l st) =? gen_ContextJSON); [cbn [psafeE]; apply json_ctx_pos; assumption|].
  destruct (l_ctx (m_l st) =? gen_ContextJSONString).
  { eapply psafe_bind; [apply str_ctx_pos; [exact isEndScript_bytes|lia|lia|exact HM|exact Hgc]|]. intros s0 Hs0. exact Hs0. }
  cbn. split; [exact HM|]. intros _. apply BC_same. exact Hgc.
Qed.

(* the end of an iteration *)
Lemma bottom_pos st c :
  MP st -> BC c st -> c < 256 ->
  psafe (bottom st c) (fun r => match r with Again s' => MP s' | Stop _ => False end).
Proof.
  intros HM HB Hc. pose proof HM as (Hw & Hsy & Hlc). unfold bottom. cbv zeta.
  (* the byte at the scanned offset, handled as the reference does *)
  assert (Hstep : SY text (l_base (m_l st) + (m_p st + 1))
                    (if c =? 10 then newline (m_l st) else if isStartChar c then addcol 1 (m_l st) else m_l st)).
  { rewrite N.add_assoc. destruct HB as [Hld|(c' & Hg & H10 & Hst)].
    - apply SY_ld. destruct (c =? 10); [|destruct (isStartChar c)]; exact Hld.
    - eapply SY_byte_like; [exact Hsy|eapply wf_get; [apply Hw|exact Hg]|exact H10|exact Hst|exact Hc]. }
  assert (Hmk : forall l' q, same_core (m_l st) l' -> SY text (l_base (m_l st) + q) l' -> forall s', m_l s' = l' -> m_p s' = q ->
             m_lin s' = m_lin st -> m_col s' = m_col st -> m_lcd s' = m_lcd st -> m_lld s' = m_lld st -> MP s').
  { intros l' q Hs' Hsy' s' E0 E1 E2 E3 E4 E5. unfold MP. rewrite E0, E1, E2, E3, E4, E5.
    assert (Hb' : l_base l' = l_base (m_l st)) by apply Hs'. rewrite Hb'.
    split; [eapply same_core_WO; eauto|]. split; assumption. }
  destruct (N.eqb_spec c 10) as [->|N10].
  2:{ cbn [psafeE]. eapply Hmk; [|exact Hstep|reflexivity|reflexivity|reflexivity|reflexivity|reflexivity|reflexivity].
      destruct (isStartChar c); auto with sc. }
  set (l1 := newline (m_l st)) in *.
  assert (Hs1 : same_core (m_l st) l1) by (unfold l1; auto with sc).
  assert (Hsy1 : SY text (l_base (m_l st) + (m_p st + 1)) l1) by exact Hstep.
  eapply psafe_bind with (Q' := fun cr : bool => cr = true -> get (l_src (m_l st)) (m_p st + 1) = Some 13).
  { change (len l1) with (len (m_l st)). destruct (m_p st + 1 <? len (m_l st)); cbn [andm]; [|cbn; discriminate].
    unfold idx_is, idx. change (l_src l1) with (l_src (m_l st)).
    destruct (get (l_src (m_l st)) (m_p st + 1)) as [x|]; cbn; [|exact I]. intros E. apply N.eqb_eq in E. subst x. reflexivity. }
  intros cr Hcr.
  set (L := if cr then mark_cdev l1 else l1). set (P := if cr then m_p st + 1 + 1 else m_p st + 1).
  assert (HsL : same_core (m_l st) L) by (unfold L; destruct cr; [eapply same_core_trans; [exact Hs1|auto with sc]|exact Hs1]).
  assert (HsyL : SY text (l_base (m_l st) + P) L).
  { unfold L, P. destruct cr; [|exact Hsy1]. rewrite N.add_assoc.
    eapply SY_move_cd; [exact Hsy1| |reflexivity|reflexivity|reflexivity].
    rewrite (take_1 _ 13); [reflexivity|]. rewrite get_drop0. eapply wf_get; [apply Hw|apply Hcr; reflexivity]. }
  assert (HwL : wf text L) by (eapply same_core_wf; [exact HsL|apply Hw]).
  assert (HbL : l_base L = l_base (m_l st)) by apply HsL.
  assert (Hacb : psafe (let* (l2, q) := apply_code_block L P in Ok (Again (mset_lp l2 q st)))
            (fun r => match r with Again s' => MP s' | Stop _ => False end)).
  { eapply psafe_bind; [apply (apply_code_block_pos L P HwL); rewrite HbL; exact HsyL|].
    intros [l2 q] [Hs2 Hsy2]. cbn [fst snd] in *. cbn [psafeE]. rewrite HbL in Hsy2.
    eapply Hmk; [eapply same_core_trans; [exact HsL|exact Hs2]|exact Hsy2|reflexivity|reflexivity|reflexivity|reflexivity|reflexivity|reflexivity]. }
  destruct ((l_ctx L =? gen_ContextTabCodeBlock) || (l_ctx L =? gen_ContextSpacesCodeBlock)); [exact Hacb|].
  destruct (l_ctx L =? gen_ContextMarkdown); [destruct (m_sol st); [exact Hacb|]|]; cbn [psafeE];
    (eapply Hmk; [exact HsL|exact HsyL|reflexivity|reflexivity|reflexivity|reflexivity|reflexivity|reflexivity]).
Qed.

(* ---- the quote kept by the scan is none or one of the two quotes ---- *)
Local Notation psafeT := (psafeE (fun _ : lexer => True)).
Lemma pt_bind {A B} (r : res A) (k : A -> res B) Q : (forall a, psafeT (k a) Q) -> psafeT (bind r k) Q.
Proof. intros H. destruct r; cbn; auto. Qed.
Lemma psafe_and {A} E (r : res A) (Q1 Q2 : A -> Prop) :
  psafeE E r Q1 -> psafeT r Q2 -> psafeE E r (fun a => Q1 a /\ Q2 a).
Proof. destruct r; cbn; auto. Qed.

Ltac qi :=
  unfold QI in *; cbn [m_quote mset_quote mset_lp mset_jsc mset_url mset_sol resync fst snd] in *;
  first [assumption | left; reflexivity | right; left; reflexivity | right; right; reflexivity].
Ltac qi2 :=
  first [ qi
        | match goal with H : (?c =? 34) || (?c =? 39) = true |- _ => destruct (orb_eqb2 _ _ _ H) as [-> | ->]; qi end ].
Ltac qstep :=
  first
  [ exact I
  | apply pt_bind; intros
  | match goal with |- psafeE _ (if ?b then _ else _) _ => destruct b eqn:? end
  | match goal with |- psafeE _ (match ?x with _ => _ end) _ => destruct x eqn:? end
  | match goal with |- psafeE _ (Ok _) _ => cbn [psafeE] end ].

Ltac qifs := repeat match goal with |- context [if ?b then _ else _] => destruct b eqn:? end; qi2.

Lemma md_url_qi st : QI st -> psafeT (md_url st) (fun r => QI (fst r)).
Proof. intros HQ. unfold md_url. cbv zeta. repeat qstep. all: try qi2. Qed.
Lemma html_lt_qi st c : QI st -> psafeT (html_lt U st c) (fun r => QI (fst r)).
Proof. intros HQ. unfold html_lt. cbv zeta. repeat qstep. all: try qi2. Qed.
Lemma tag_ctx_qi fc st c : QI st -> psafeT (tag_ctx U fc st c) (fun r => QI (fst r)).
Proof.
  intros HQ. unfold tag_ctx. cbv zeta. repeat qstep. all: try qi2.
  all: match goal with |- context [if (?q =? 34) || (?q =? 39) then ?q else _] => destruct ((q =? 34) || (q =? 39)) eqn:Eq end; qi2.
Qed.
Lemma attr_ctx_qi fc st c : QI st -> psafeT (attr_ctx U fc st c) (fun r => QI (fst r)).
Proof.
  intros HQ. unfold attr_ctx. cbv zeta.
  match goal with |- context [if negb ?b then _ else _] => destruct b end; cbn [negb]; [|cbn; exact HQ].
  eapply psafe_bind with (Q' := QI); [|intros st1 H1; cbn; exact H1].
  unfold attr_value. repeat qstep. all: try qi2.
Qed.
Lemma css_ctx_qi fc isHTML st c : QI st -> QI (css_ctx fc isHTML st c).
Proof. intros HQ. unfold css_ctx. cbv zeta. qifs. Qed.
Lemma json_ctx_qi fc isHTML st c : QI st -> QI (json_ctx fc isHTML st c).
Proof. intros HQ. unfold json_ctx. cbv zeta. qifs. Qed.
Lemma str_ctx_qi fc isHTML back quote json isend skip st c :
  QI st -> psafeT (str_ctx fc isHTML back quote json isend skip st c) QI.
Proof. intros HQ. unfold str_ctx. cbv zeta. repeat qstep. all: try qi2. Qed.
Lemma js_ctx_qi fc isHTML st c : QI st -> psafeT (js_ctx fc isHTML st c) QI.
Proof. intros HQ. unfold js_ctx. cbv zeta. repeat qstep. all: try qi2. all: qifs. Qed.

Lemma ctx_switch_qi fc isHTML st c :
  QI st -> psafeT (ctx_switch U fc isHTML st c) (fun r => QI (fst r)).
Proof.
  intros HQ. unfold ctx_switch. cbv zeta.
  destruct (l_ctx (m_l st) =? gen_ContextMarkdown).
  { eapply psafe_bind; [apply md_url_qi; exact HQ|]. intros [st1 cont] H1. cbn [fst] in H1.
    destruct cont; [cbn; exact H1|apply html_lt_qi; exact H1]. }
  destruct (l_ctx (m_l st) =? gen_ContextHTML); [apply html_lt_qi; exact HQ|].
  destruct (l_ctx (m_l st) =? gen_ContextTag); [apply tag_ctx_qi; exact HQ|].
  destruct ((l_ctx (m_l st) =? gen_ContextQuotedAttr) || (l_ctx (m_l st) =? gen_ContextUnquotedAttr)); [apply attr_ctx_qi; exact HQ|].
  destruct (l_ctx (m_l st) =? gen_ContextCSS); [cbn; apply css_ctx_qi; exact HQ|].
  destruct (l_ctx (m_l st) =? gen_ContextCSSString); [eapply psafe_bind; [apply str_ctx_qi; exact HQ|intros s0 H0; exact H0]|].
  destruct (l_ctx (m_l st) =? gen_ContextJS); [eapply psafe_bind; [apply js_ctx_qi; exact HQ|intros s0 H0; exact H0]|].
  destruct (l_ctx (m_l st) =? gen_ContextJSString); [eapply psafe_bind; [apply str_ctx_qi; exact HQ|intros s0 H0; exact H0]|].
  destruct (l_ctx (m_l st) =? gen_ContextJSON); [cbn; apply json_ctx_qi; exact HQ|].
  destruct (l_ctx (m_l st) =? gen_ContextJSONString); [eapply psafe_bind; [apply str_ctx_qi; exact HQ|intros s0 H0; exact H0]|].
  cbn. exact HQ.
Qed.

Lemma bottom_qi st c : QI st -> psafeT (bottom st c) (fun r => match r with Again s' => QI s' | Stop s' => QI s' end).
Proof. intros HQ. unfold bottom, apply_code_block. cbv zeta. repeat qstep. all: try qi2. Qed.

Lemma scan_body_qi fc isHTML st :
  QI st -> psafeT (scan_body U noshow fc isHTML st) (fun r => match r with Again s' => QI s' | Stop s' => QI s' end).
Proof.
  intros HQ. unfold scan_body. cbv zeta.
  destruct (negb (m_p st <? len (m_l st))); [cbn; exact HQ|]. apply pt_bind. intros c.
  set (st1 := if l_ctx (m_l st) =? gen_ContextMarkdown then mset_sol (m_sol st && isSpace c) st else st).
  assert (HQ1 : QI st1) by (unfold st1; destruct (_ =? gen_ContextMarkdown); exact HQ). clearbody st1.
  destruct ((l_ctx (m_l st) =? gen_ContextMarkdown) && (c =? 92)).
  { repeat qstep. all: try qi2. }
  apply pt_bind. intros d.
  destruct (oeq d 123 && negb noshow); [repeat qstep; qi2|].
  destruct (oeq d 37); [repeat qstep; qi2|].
  destruct (oeq d 35); [repeat qstep; qi2|].
  apply pt_bind. intros bad. destruct bad; [exact I|].
  eapply psafe_bind; [apply ctx_switch_qi; exact HQ1|]. intros [st2 cont] H2. cbn [fst] in H2.
  destruct cont; [cbn; exact H2|apply bottom_qi; exact H2].
Qed.

Lemma scan_body_pos fc isHTML st :
  MP st -> QI st ->
  psafe (scan_body U noshow fc isHTML st) (fun r => match r with Again s' => MP s' | Stop s' => MP s' end).
Proof.
  intros HM HQ. pose proof HM as (Hw & Hsy & Hlc). unfold scan_body. cbv zeta.
  destruct (negb (m_p st <? len (m_l st))); [cbn; exact HM|]. pget c Hc.
  set (st1 := if l_ctx (m_l st) =? gen_ContextMarkdown then mset_sol (m_sol st && isSpace c) st else st).
  assert (HM1 : MP st1) by (unfold st1; destruct (_ =? gen_ContextMarkdown); exact HM).
  assert (HQ1 : QI st1) by (unfold st1; destruct (_ =? gen_ContextMarkdown); exact HQ).
  assert (Hl1 : m_l st1 = m_l st) by (unfold st1; destruct (_ =? gen_ContextMarkdown); reflexivity).
  assert (Hp1 : m_p st1 = m_p st) by (unfold st1; destruct (_ =? gen_ContextMarkdown); reflexivity).
  assert (Hlp : forall l p, mset_lp l p st1 = mset_sol (m_sol st1) (mset_lp l p st)) by
    (intros l p; unfold st1; destruct (_ =? gen_ContextMarkdown); reflexivity).
  clearbody st1.
  pose proof (wf_get _ _ _ _ (proj1 Hw) Hc) as Hgc.
  destruct ((l_ctx (m_l st) =? gen_ContextMarkdown) && (c =? 92)) eqn:Emd.
  { (* Markdown backslash *)
    apply andb_prop in Emd. destruct Emd as [_ Emd]. apply N.eqb_eq in Emd. subst c.
    assert (HMb : MP (mset_lp (addcol 1 (m_l st)) (m_p st + 1) st)).
    { apply MP_plain; try reflexivity; [exact HM|auto with sc|eapply plain_at_1; [exact Hc|reflexivity]]. }
    change (len (addcol 1 (m_l st))) with (len (m_l st)).
    eapply psafe_bind with (Q' := fun t : bool => t = true -> exists d, get (l_src (m_l st)) (m_p st + 1) = Some d /\ d <> 10).
    { destruct (m_p st + 1 <? len (m_l st)); cbn [andm]; [|cbn; discriminate].
      unfold idx. change (l_src (addcol 1 (m_l st))) with (l_src (m_l st)).
      destruct (get (l_src (m_l st)) (m_p st + 1)) as [d|]; cbn; [|exact I]. intros E. exists d. split; [reflexivity|].
      apply andb_prop in E. destruct E as [E _]. apply negb_true_iff, N.eqb_neq in E. exact E. }
    intros t Ht. destruct t; [|cbn [psafeE]; rewrite Hlp; exact HMb].
    destruct (Ht eq_refl) as (d & Hd & Hd10).
    change (l_src (addcol 1 (m_l st))) with (l_src (m_l st)). rewrite Hd.
    pose proof (get_some _ _ _ Hd) as Hlt.
    destruct (drop_cons_get _ _ Hlt) as (b0 & r0 & Hdr & Hg). rewrite Hd in Hg. injection Hg as <-.
    rewrite Hdr. destruct (decode_rune (d :: r0)) as [r w] eqn:Hdec. cbn [psafeE]. rewrite Hlp.
    destruct (decode_chunk _ _ _ _ Hdec Hd10) as [A1 A2].
    destruct HMb as (Hwb & Hsyb & Hlcb). cbn [m_l m_p m_lin m_col m_lcd m_lld mset_lp] in Hwb, Hsyb, Hlcb.
    assert (Htk : take (N.of_nat w) (drop (l_base (m_l st) + (m_p st + 1)) text) = firstn w (d :: r0)).
    { rewrite (wf_drop_at _ _ _ (proj1 Hw)), Hdr. apply take_nat. }
    pose proof (wf_get _ _ _ _ (proj1 Hw) Hd) as Hgd.
    rewrite (isStartChar_is_start _ (text_byte _ _ Hgd)).
    unfold MP. cbn [m_l m_p m_lin m_col m_lcd m_lld mset_lp mset_sol].
    destruct (is_start d) eqn:Es.
    - split; [eapply same_core_WO; [|exact Hw]; repeat split|]. split; [|exact Hlc]. lcbn. rewrite N.add_assoc.
      eapply SY_move; [exact Hsyb|rewrite Htk; exact A1|lcbn; reflexivity|lcbn; rewrite Htk, A2; reflexivity|lcbn; reflexivity|lcbn; reflexivity].
    - split; [eapply same_core_WO; [|exact Hw]; repeat split|]. split; [|exact Hlc]. lcbn. rewrite N.add_assoc.
      eapply SY_move_cd; [exact Hsyb|rewrite Htk; exact A1|lcbn; reflexivity|lcbn; reflexivity|lcbn; reflexivity]. }
  eapply psafe_bind with (Q' := fun d => forall x, d = Some x -> c = 123 /\ get (l_src (m_l st)) (m_p st + 1) = Some x).
  { destruct ((c =? 123) && (m_p st + 1 <? len (m_l st))) eqn:Ecc; [|cbn; discriminate]. apply andb_prop in Ecc. destruct Ecc as [Ecc _].
    apply N.eqb_eq in Ecc. pget x Hx. cbn. intros y E. injection E as <-. auto. }
  intros d Hd.
  (* what follows a delimiter: the text is flushed, the block is lexed *)
  assert (Hflush : forall (f : lexer -> res lexer) (k : lexer -> res (step mst)) x,
            d = Some x -> plain x = true ->
            (forall l1, PC l1 -> plain_at (l_src l1) 0 2 -> get (l_src l1) 0 = Some 123 -> get (l_src l1) 1 = Some x -> psafe (f l1) PC) ->
            (forall l2, PC l2 -> psafe (k l2) (fun r => match r with Again s' => MP s' | Stop s' => MP s' end)) ->
            psafe (let* l1 := flush_text st1 in let* l2 := f l1 in k l2) (fun r => match r with Again s' => MP s' | Stop s' => MP s' end)).
  { intros f k x Ex Hpx Hf Hk. destruct (Hd x Ex) as [-> Hx].
    eapply psafe_bind; [apply flush_text_pos; exact HM1|]. intros l1 [Hp1' Hs1']. rewrite Hl1, Hp1 in Hs1'.
    assert (G0 : get (l_src l1) 0 = Some 123) by (rewrite Hs1', get_drop_at; exact Hc).
    assert (G1 : get (l_src l1) 1 = Some x) by (rewrite Hs1', get_drop; exact Hx).
    eapply psafe_bind; [apply Hf; [exact Hp1'| |exact G0|exact G1]|intros l2 Hp2; apply Hk; exact Hp2].
    eapply plain_at_2; [exact G0|exact G1|reflexivity|exact Hpx]. }
  assert (Hres : forall l2, PC l2 -> psafe (Ok (Again (resync l2 st1))) (fun r => match r with Again s' => MP s' | Stop s' => MP s' end))
    by (intros l2 Hp2; cbn; apply MP_resync; exact Hp2).
  destruct (oeq d 123 && negb noshow) eqn:E1.
  { apply andb_prop in E1. destruct E1 as [E1 _]. destruct d as [x|]; [|discriminate]. cbn [oeq] in E1. apply N.eqb_eq in E1. subst x.
    apply (Hflush (lex_show U) (fun l2 => Ok (Again (resync l2 st1))) 123 eq_refl eq_refl); [|exact Hres].
    intros l1 Hp1' Hpl _ _. apply lex_show_pos; assumption. }
  destruct (oeq d 37) eqn:E2.
  { destruct d as [x|]; [|discriminate]. cbn [oeq] in E2. apply N.eqb_eq in E2. subst x. destruct (Hd 37 eq_refl) as [-> Hx].
    eapply psafe_bind; [apply flush_text_pos; exact HM1|]. intros l1 [Hp1' Hs1']. rewrite Hl1, Hp1 in Hs1'.
    assert (G0 : get (l_src l1) 0 = Some 123) by (rewrite Hs1', get_drop_at; exact Hc).
    assert (G1 : get (l_src l1) 1 = Some 37) by (rewrite Hs1', get_drop; exact Hx).
    eapply psafe_bind with (Q' := fun three : bool => three = true -> get (l_src l1) 2 = Some 37).
    { destruct (2 <? len l1); cbn [andm]; [|cbn; discriminate]. unfold idx_is, idx. destruct (get (l_src l1) 2) as [y|]; cbn; [|exact I].
      intros E. apply N.eqb_eq in E. subst y. reflexivity. }
    intros three H3.
    eapply psafe_bind with (Q' := PC).
    { destruct three; [apply lex_statements_pos; [exact Hp1'|eapply plain_at_3; [exact G0|exact G1|apply H3; reflexivity|reflexivity|reflexivity|reflexivity]]
                      |apply lex_statement_pos; [exact Hp1'|eapply plain_at_2; [exact G0|exact G1|reflexivity|reflexivity]]]. }
    intros l2 Hp2. destruct (l_raw l2); [|apply Hres; exact Hp2].
    eapply psafe_bind; [apply (skip_raw_content_pos l2 (proj1 (proj1 Hp2)) (proj2 Hp2))|].
    intros [l3 q] [Hs3 Hsy3]. cbn [fst snd] in *. cbn [psafeE].
    unfold MP. cbn [m_l m_p m_lin m_col m_lcd m_lld mset_lp resync].
    assert (Hb3 : l_base l3 = l_base l2) by apply Hs3. rewrite Hb3.
    split; [eapply same_core_WO; [exact Hs3|apply Hp2]|]. split; [exact Hsy3|apply Hp2]. }
  destruct (oeq d 35) eqn:E3.
  { destruct d as [x|]; [|discriminate]. cbn [oeq] in E3. apply N.eqb_eq in E3. subst x.
    apply (Hflush lex_comment (fun l2 => Ok (Again (resync l2 st1))) 35 eq_refl eq_refl); [|exact Hres].
    intros l1 Hp1' _ G0 G1. apply lex_comment_pos; assumption. }
  eapply psafe_bind with (Q' := fun _ => True).
  { destruct (c =? 35); cbn [andm]; [|exact I]. destruct (m_p st + 1 <? len (m_l st)); cbn [andm]; [|exact I].
    unfold idx_is, idx. destruct (get (l_src (m_l st)) (m_p st + 1)); exact I. }
  intros bad _. destruct bad.
  { cbn [psafeE]. destruct (0 <? m_p st); unfold TOK; lcbn; apply Hw. }
  eapply psafe_bind; [apply (ctx_switch_pos fc isHTML st1 c HM1 HQ1); rewrite Hl1, Hp1; exact Hc|].
  intros [st2 cont] [HM2 HB2]. cbn [fst snd] in *.
  destruct cont; [cbn; exact HM2|].
  eapply psafe_mono; [apply (bottom_pos st2 c HM2 (HB2 eq_refl) (text_byte _ _ Hgc))|].
  intros [s'|s']; [auto|intros []].
Qed.

(* ---- the whole scan ---- *)
Lemma PC_start fmt : PC (scan_start fmt text).
Proof.
  split; [split; [exists []; split; reflexivity|constructor]|]. unfold SY, synced. cbn. intros _. split; reflexivity.
Qed.

Lemma shebang_pos l : PC l -> l_base l = 0 -> l_line l = 1 -> l_col l = 1 -> l_cdev l = false -> psafe (shebang l) PC.
Proof.
  intros Hp Hb0 Hl1 Hc1 Hcd. pose proof Hp as [[Hw Hf] Hsy]. unfold shebang.
  destruct (1 <? len l); [|cbn; exact Hp]. pget a Ha.
  pstep; [|cbn; exact Hp]. pgetis b Hb'. destruct (b =? 33); [|cbn; exact Hp].
  set (nl := index_byte (l_src l) 10). set (t := match nl with Some t => t | None => len l - 1 end).
  destruct (emit gen_tokenShebangLine (t + 1) l) as [l1|lerr| |] eqn:E; try pe; [|noerr E]. rewrite bind_ok. cbn [psafeE].
  destruct (emit_PC text _ _ _ _ E Hp) as (Hw1 & _ & _ & Hb1 & Hl1' & Hc1' & Hcd1 & Hld1 & _); [intros C; lia|].
  destruct nl as [k|] eqn:Enl.
  - (* the line ends with a new line: the next line starts at column 1 *)
    split; [eapply same_core_WO; [|exact Hw1]; repeat split|]. lcbn. rewrite Hb1, Hb0, N.add_0_l. unfold t.
    unfold SY. lcbn. rewrite Hl1', Hc1', Hcd1, Hld1, Hl1, Hc1, Hcd.
    pose proof (index_byte_nolf _ _ Enl) as Hnl. pose proof (index_byte_get _ _ _ Enl) as Hg.
    unfold SY in Hsy. rewrite Hb0, Hl1, Hc1, Hcd in Hsy.
    assert (Hsrc : l_src l = text) by (rewrite <- (wf_drop_base _ _ Hw), Hb0; reflexivity).
    rewrite Hsrc in Hnl, Hg.
    replace (k + 1) with (0 + (k + 1)) by lia.
    eapply synced_adv; [exact Hsy|change (drop 0 text) with text; apply (take_snoc _ _ _ Hg)| |].
    + rewrite adv_str_app, (adv_str_nolf _ _ _ Hnl). reflexivity.
    + rewrite nolf_app. cbn. rewrite andb_false_r. reflexivity.
  - split; [eapply same_core_WO; [|exact Hw1]; repeat split|]. apply SY_ld. reflexivity.
Qed.

Theorem scan_run_pos fmt : psafe (scan_run U noshow fmt text) (WO text).
Proof.
  unfold scan_run.
  eapply psafe_bind; [apply (shebang_pos (scan_start fmt text) (PC_start fmt)); reflexivity|]. intros l1 Hp1. cbv zeta.
  pose proof Hp1 as [[Hw1 Hf1] Hsy1].
  eapply psafe_bind with (Q' := fun r => same_core l1 (fst r) /\ SY text (l_base l1 + snd r) (fst r)).
  { destruct (l_ctx l1 =? gen_ContextMarkdown).
    - apply apply_code_block_pos; [exact Hw1|rewrite N.add_0_r; exact Hsy1].
    - cbn. split; [auto with sc|rewrite N.add_0_r; exact Hsy1]. }
  intros [l2 p0] [Hs2 Hsy2]. cbn [fst snd] in *.
  set (st0 := mkM l2 p0 (l_line l1) (l_col l1) (l_cdev l1) (l_ldev l1) 0 false 0 true).
  assert (Hb2 : l_base l2 = l_base l1) by apply Hs2.
  assert (HM0 : MP st0 /\ QI st0).
  { split; [|left; reflexivity]. unfold MP, st0. cbn [m_l m_p m_lin m_col m_lcd m_lld]. rewrite Hb2.
    split; [eapply same_core_WO; [exact Hs2|split; assumption]|]. split; [exact Hsy2|exact Hsy1]. }
  match goal with |- context [loop ?fuel (scan_body U noshow ?fc ?ih) _] => set (FC := fc); set (IH := ih) end.
  eapply psafe_bind.
  - apply (psafe_loop (scan_body U noshow FC IH) (fun st => MP st /\ QI st) (fun st => MP st /\ QI st)); [|exact HM0].
    intros st [HM HQ]. eapply psafe_mono.
    + apply psafe_and; [apply (scan_body_pos FC IH st HM HQ)|apply (scan_body_qi FC IH st HQ)].
    + intros [s'|s'] [A B]; auto.
  - intros st [(Hw & Hsy & Hlc) _].
    eapply psafe_bind with (Q' := PC).
    { destruct (0 <? len (m_l st)) eqn:Hlen0.
      - eapply psafe_mono; [apply (emit_text_pos st (m_l st) Hw Hsy Hlc)|intros l3 [A _]; exact A].
      - (* nothing is left: every offset from the base on is the end of the source *)
        cbn. split; [exact Hw|]. apply N.ltb_ge in Hlen0.
        pose proof (wf_len _ _ (proj1 Hw)) as Hwl.
        assert (Hend : forall a, nlen text <= a -> linecol text a = linecol text (nlen text)).
        { intros a Ha. unfold linecol. rewrite !take_all by lia. reflexivity. }
        unfold SY, synced in *. rewrite (Hend (l_base (m_l st))) by lia. rewrite (Hend (l_base (m_l st) + m_p st)) in Hsy by lia. exact Hsy. }
    intros l3 Hp3. eapply psafe_bind with (Q' := PC).
    { destruct ((l_ctx l3 =? gen_ContextMarkdown) && m_url st); [|cbn; exact Hp3].
      eapply psafe_mono; [apply emit0_pos; [exact Hp3|discriminate]|intros l4 [A _]; exact A]. }
    intros l4 Hp4. eapply psafe_mono; [apply emit0_pos; [exact Hp4|discriminate]|intros l5 [A _]; apply A].
Qed.
End PosScan.

(* ---- C21 token_pos_correct ---- *)
Theorem scan_tokens_pos U noshow fmt text toks e :
  U_sane U -> is_bytes text = true ->
  scan_template U noshow fmt text = Done toks e -> Forall (tok_ok text) toks.
Proof.
  intros HU Hb H. pose proof (scan_run_pos U noshow text HU Hb fmt) as Hs. unfold scan_template in H.
  destruct (scan_run U noshow fmt text) as [l|l| |]; try discriminate; injection H as <- _; cbn in Hs.
  - apply Forall_rev. apply Hs.
  - apply Forall_rev. exact Hs.
Qed.

Lemma tok_ok_pos_ok text t : tok_ok text t -> tok_pos_ok text t = true.
Proof.
  unfold tok_ok, synced, tok_pos_ok. intros H. destruct (linecol text (tok_off t)) as [ln cl] eqn:E. cbn [fst snd] in H.
  destruct (t_ldev t); [reflexivity|]. destruct (H eq_refl) as [H1 H2]. cbn [orb]. rewrite H1, N.eqb_refl. cbn [andb].
  destruct (t_cdev t); [reflexivity|]. rewrite (H2 eq_refl), N.eqb_refl. reflexivity.
Qed.

Theorem token_pos_correct U noshow fmt text toks e :
  U_sane U -> is_bytes text = true ->
  scan_template U noshow fmt text = Done toks e ->
  forall t, In t toks -> t_ldev t = false ->
    t_line t = fst (linecol text (tok_off t)) /\ (t_cdev t = false -> t_col t = snd (linecol text (tok_off t))).
Proof.
  intros HU Hb H t Ht Hld. pose proof (scan_tokens_pos U noshow fmt text toks e HU Hb H) as Hf.
  rewrite Forall_forall in Hf. exact (Hf t Ht Hld).
Qed.

Theorem token_pos_check U noshow fmt text toks e :
  U_sane U -> is_bytes text = true ->
  scan_template U noshow fmt text = Done toks e -> forallb (tok_pos_ok text) toks = true.
Proof.
  intros HU Hb H. apply forallb_forall. intros t Ht. apply tok_ok_pos_ok.
  pose proof (scan_tokens_pos U noshow fmt text toks e HU Hb H) as Hf. rewrite Forall_forall in Hf. exact (Hf t Ht).
Qed.

Lemma go_unicode_sane : U_sane go_unicode.
Proof. repeat split; vm_compute; reflexivity. Qed.

(* ---- the same for programs (scanProgram) ---- *)
Theorem program_tokens_pos U text toks e :
  U_sane U -> scan_program U text = Done toks e -> Forall (tok_ok text) toks.
Proof.
  intros HU H. unfold scan_program, scan_program_run in H.
  assert (Hp0 : PC text (prog_start text)).
  { split; [split; [exists []; split; reflexivity|constructor]|]. unfold SY, synced. cbn. intros _. split; reflexivity. }
  pose proof (lex_code_pos U text HU gen_tokenEOF (prog_start text) Hp0) as Hs.
  destruct (lex_code U gen_tokenEOF (prog_start text)) as [l1|l1| |]; cbn [bind] in H; try discriminate.
  - cbn in Hs. destruct Hs as [Hp1 _].
    destruct (emit gen_tokenEOF 0 l1) as [l2|l2| |] eqn:E; try discriminate; [|exfalso; exact (emit_noerr _ _ _ _ E)].
    injection H as <- _. apply Forall_rev.
    destruct (emit_PC text _ _ _ _ E Hp1) as (Hw2 & _); [intros _ C; discriminate|]. apply Hw2.
  - injection H as <- _. apply Forall_rev. exact Hs.
Qed.
