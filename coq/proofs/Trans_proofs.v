(* Generic lemmas about byte transducers (Decoders.trun). *)
From Verif Require Import Bytes Decoders.
Open Scope N_scope.

Section Trans.
  Context {St : Type}.
  Variable step : St -> N -> St * bytes.

  Lemma trun_app st a b :
    trun step st (a ++ b) =
    let '(st1, o1) := trun step st a in let '(st2, o2) := trun step st1 b in (st2, o1 ++ o2).
  Proof.
    revert st; induction a as [|c a IH]; intros st; cbn [app trun].
    - destruct (trun step st b). reflexivity.
    - destruct (step st c) as [st1 o1]. rewrite IH.
      destruct (trun step st1 a) as [st2 o2]. destruct (trun step st2 b) as [st3 o3].
      rewrite app_assoc. reflexivity.
  Qed.

  (* a prefix that is run from st0 back to st0 with output o *)
  Lemma trun_prefix st0 a o b :
    trun step st0 a = (st0, o) -> trun step st0 (a ++ b) = prepend o (trun step st0 b).
  Proof.
    intros H. rewrite trun_app, H. destruct (trun step st0 b). reflexivity.
  Qed.

  Lemma trun_cons st c r :
    trun step st (c :: r) = let '(st1, o1) := step st c in prepend o1 (trun step st1 r).
  Proof. cbn [trun]. destruct (step st c), (trun step s r). reflexivity. Qed.

  (* blocks: each f c runs from st0 back to st0 and yields [c] *)
  Lemma trun_blocks st0 f s :
    (forall c, trun step st0 (f c) = (st0, [c])) ->
    trun step st0 (flat_map f s) = (st0, s).
  Proof.
    intros Hf. induction s as [|c r IH]; cbn [flat_map]; [reflexivity|].
    rewrite trun_app, Hf, IH. reflexivity.
  Qed.
End Trans.

Lemma prepend_prepend {St} a b (r : St * bytes) : prepend a (prepend b r) = prepend (a ++ b) r.
Proof. unfold prepend. cbn [fst snd]. rewrite app_assoc. reflexivity. Qed.
Lemma prepend_nil {St} (r : St * bytes) : prepend [] r = r.
Proof. destruct r. reflexivity. Qed.
