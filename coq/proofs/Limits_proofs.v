From Verif Require Import GoInt GoBits Facts_limits LimitsM.
Open Scope Z_scope.

Arguments wrap : simpl never.

(* ---- pools ---- *)

Section PoolProofs.
  Variable A : Type.
  Variable eqb : A -> A -> bool.
  Hypothesis eqb_eq : forall a b, eqb a b = true -> a = b.

  Lemma index_of_spec v pool : forall i j, index_of A eqb v pool i = Some j ->
    i <= j < i + Z.of_nat (length pool) /\ nth_error pool (Z.to_nat (j - i)) = Some v.
  Proof.
    induction pool as [|x r IH]; intros i j H; cbn [index_of] in H; [discriminate|].
    destruct (eqb v x) eqn:E.
    - injection H as <-. apply eqb_eq in E. subst x. split; [cbn [length]; lia|].
      replace (i - i) with 0 by lia. reflexivity.
    - apply IH in H. destruct H as [H1 H2]. split; [cbn [length]; lia|].
      replace (Z.to_nat (j - i)) with (S (Z.to_nat (j - (i + 1)))) by lia. exact H2.
  Qed.

  (* one add: within the limit, the returned index designates v, the old
     elements keep their indexes, and the size never exceeds max *)
  Lemma pool_add_spec dedup max pool v i pool' :
    0 <= max -> Z.of_nat (length pool) <= max ->
    pool_add A eqb dedup max pool v = Some (i, pool') ->
    0 <= i < max /\ nth_error pool' (Z.to_nat i) = Some v /\
    Z.of_nat (length pool') <= max /\ (exists ext, pool' = pool ++ ext).
  Proof.
    intros Hmax Hlen H. unfold pool_add in H.
    destruct (if dedup then index_of A eqb v pool 0 else None) as [j|] eqn:Ei.
    - injection H as <- <-. destruct dedup; [|discriminate].
      apply index_of_spec in Ei. destruct Ei as [H1 H2]. rewrite Z.sub_0_r in H2.
      repeat split; try lia; try assumption. exists []. symmetry. apply app_nil_r.
    - destruct (Z.eqb_spec (Z.of_nat (length pool)) max) as [|Hne]; [discriminate|].
      injection H as <- <-. repeat split; try lia.
      + rewrite Nat2Z.id, nth_error_app2, Nat.sub_diag by lia. reflexivity.
      + rewrite app_length. cbn [length]. lia.
      + exists [v]. reflexivity.
  Qed.

  Lemma pool_add_limit dedup max pool v :
    pool_add A eqb dedup max pool v = None -> Z.of_nat (length pool) = max.
  Proof.
    unfold pool_add. destruct (if dedup then index_of A eqb v pool 0 else None); [discriminate|].
    destruct (Z.eqb_spec (Z.of_nat (length pool)) max); [auto|discriminate].
  Qed.

  (* every history of adds: each returned index is below max and designates
     its value in the final pool *)
  Theorem pool_adds_spec dedup max : 0 <= max -> forall vs pool is pool',
    Z.of_nat (length pool) <= max ->
    pool_adds A eqb dedup max pool vs = Some (is, pool') ->
    length is = length vs /\ Z.of_nat (length pool') <= max /\
    Forall2 (fun i v => 0 <= i < max /\ nth_error pool' (Z.to_nat i) = Some v) is vs.
  Proof.
    intros Hmax. induction vs as [|v r IH]; intros pool is pool' Hlen H; cbn [pool_adds] in H.
    - injection H as <- <-. repeat split; auto.
    - destruct (pool_add A eqb dedup max pool v) as [[i p1]|] eqn:E1; [|discriminate].
      destruct (pool_adds A eqb dedup max p1 r) as [[is1 p2]|] eqn:E2; [|discriminate].
      injection H as <- <-.
      destruct (pool_add_spec _ _ _ _ _ _ Hmax Hlen E1) as (Hi & Hn & Hl1 & _).
      assert (Hext : exists ext, p2 = p1 ++ ext).
      { clear - E2. revert p1 is1 p2 E2. induction r as [|w r IHr]; intros p1 is1 p2 E2; cbn [pool_adds] in E2.
        - injection E2 as <- <-. exists []. symmetry. apply app_nil_r.
        - destruct (pool_add A eqb dedup max p1 w) as [[j q]|] eqn:Ea; [|discriminate].
          destruct (pool_adds A eqb dedup max q r) as [[js q2]|] eqn:Eb; [|discriminate].
          injection E2 as <- <-. apply IHr in Eb. destruct Eb as [e2 ->].
          unfold pool_add in Ea. destruct (if dedup then index_of A eqb w p1 0 else None).
          + injection Ea as <- <-. exists e2. reflexivity.
          + destruct (Z.of_nat (length p1) =? max); [discriminate|]. injection Ea as <- <-.
            exists ([w] ++ e2). rewrite app_assoc. reflexivity. }
      destruct (IH _ _ _ Hl1 E2) as (Hlen2 & Hl2 & Hall).
      repeat split; [cbn [length]; lia|exact Hl2|].
      constructor; [|exact Hall]. split; [exact Hi|].
      destruct Hext as [ext ->]. rewrite nth_error_app1; [exact Hn|].
      apply nth_error_Some. rewrite Hn. discriminate.
  Qed.
End PoolProofs.

(* ---- indexes survive their trip through an int8 operand ---- *)

Lemma int8_uint8_roundtrip r : 0 <= r < 256 -> wrap U8 (wrap I8 r) = r.
Proof.
  intros H. rewrite wrap_wrap by (cbn; lia). apply wrap_id. unfold in_range, tmin, tmax. cbn. lia.
Qed.

(* the limits fit the operand widths (computed on the generated constants) *)
Definition limits_fit : bool :=
  (fst gen_pool_Type <=? 256) && (fst gen_pool_NativeFunction <=? 256) && (fst gen_pool_Function <=? 256)
  && (fst gen_pool_StringValue <=? 256) && (fst gen_pool_GeneralValue <=? 256) && (fst gen_pool_FieldIndex <=? 256)
  && (fst gen_pool_IntValue <=? 16384) && (fst gen_pool_FloatValue <=? 16384)
  && (gen_newRegister_limit <=? 127) && (0 <=? gen_newRegister_limit)
  && (gen_maxRegistersCount =? gen_newRegister_limit)
  && (fst gen_pool_Type =? gen_maxTypesCount) && (fst gen_pool_IntValue =? gen_maxIntValuesCount)
  && (fst gen_pool_FloatValue =? gen_maxFloatValuesCount) && (fst gen_pool_StringValue =? gen_maxStringValuesCount)
  && (fst gen_pool_GeneralValue =? gen_maxGeneralValuesCount) && (fst gen_pool_FieldIndex =? gen_maxFieldIndexesCount)
  && (fst gen_pool_Function =? gen_maxScriggoFunctionsCount) && (fst gen_pool_NativeFunction =? gen_maxNativeFunctionsCount)
  && (gen_c_intRegister =? gen_r_intRegister) && (gen_c_floatRegister =? gen_r_floatRegister)
  && (gen_c_stringRegister =? gen_r_stringRegister) && (gen_c_generalRegister =? gen_r_generalRegister)
  && (0 <=? gen_c_intRegister) && (gen_c_intRegister <? 4) && (0 <=? gen_c_floatRegister) && (gen_c_floatRegister <? 4)
  && (0 <=? gen_c_stringRegister) && (gen_c_stringRegister <? 4) && (0 <=? gen_c_generalRegister) && (gen_c_generalRegister <? 4).

Lemma limits_fit_ok : limits_fit = true.
Proof. vm_compute. reflexivity. Qed.

Lemma new_register_fits num r : 0 <= num -> new_register gen_newRegister_limit num = Some r ->
  num < gen_newRegister_limit -> r = num + 1 /\ 1 <= r <= 127.
Proof.
  intros H0 H Hlt. unfold new_register in H.
  destruct (Z.eqb_spec num gen_newRegister_limit); [discriminate|]. injection H as <-.
  assert (Hl : gen_newRegister_limit <= 127) by (vm_compute; discriminate).
  rewrite wrap_id; [lia|]. unfold in_range, tmin, tmax. cbn. lia.
Qed.

(* the runtime's decoders are the compiler's decoders *)
Lemma decoders_agree :
  (forall a b, gen_r_decodeInt16 a b = gen_c_decodeInt16 a b) /\
  (forall a b, gen_r_decodeUint16 a b = gen_c_decodeUint16 a b) /\
  (forall a b c, gen_r_decodeUint24 a b c = gen_c_decodeUint24 a b c) /\
  (forall a b, gen_r_decodeValueIndex a b = gen_c_decodeValueIndex a b).
Proof. repeat split; intros; reflexivity. Qed.

(* uint24 (jump addresses): symbolic, for every v below 2^24 *)
Lemma wrap_U8_I8_U8 z : wrap U8 (wrap I8 (wrap U8 z)) = z mod 256.
Proof. rewrite !wrap_wrap by (cbn; lia). reflexivity. Qed.

Theorem uint24_roundtrip v : 0 <= v < 16777216 ->
  match gen_c_encodeUint24 (Some v) with
  | [a; b; c] => gen_r_decodeUint24 a b c = [Some v]
  | _ => False
  end.
Proof.
  intros Hv. unfold gen_c_encodeUint24, gen_r_decodeUint24. cbn [oconv obin bin bits Z.leb Z.compare].
  rewrite !wrap_U8_I8_U8.
  change (32 <=? 16) with false. change (32 <=? 8) with false. cbv iota.
  set (A := (v / 2 ^ 16) mod 256). set (B := (v / 2 ^ 8) mod 256). set (C := v mod 256).
  assert (HA : 0 <= A < 256) by (apply Z.mod_pos_bound; lia).
  assert (HB : 0 <= B < 256) by (apply Z.mod_pos_bound; lia).
  assert (HC : 0 <= C < 256) by (apply Z.mod_pos_bound; lia).
  assert (HU : forall z, 0 <= z < 4294967296 -> wrap U32 z = z).
  { intros z Hz. apply wrap_id. unfold in_range, tmin, tmax. cbn. lia. }
  rewrite (HU A), (HU B), (HU C) by lia.
  rewrite (HU (A * 2 ^ 16)), (HU (B * 2 ^ 8)) by lia.
  change (2 ^ 16) with (2 ^ 8 * 2 ^ 8) at 1.
  replace (A * (2 ^ 8 * 2 ^ 8)) with ((A * 2 ^ 8) * 2 ^ 8) by ring.
  rewrite (Z.lor_comm _ (B * 2 ^ 8)).
  assert (E1 : Z.lor (B * 2 ^ 8) (A * 2 ^ 8 * 2 ^ 8) = (A * 2 ^ 8 + B) * 2 ^ 8).
  { rewrite Z.lor_comm. replace (A * 2 ^ 8 * 2 ^ 8) with (A * 2 ^ 16) by ring.
    rewrite lor_shifted_low by lia. ring. }
  rewrite E1. rewrite (HU ((A * 2 ^ 8 + B) * 2 ^ 8)) by lia.
  rewrite lor_shifted_low by lia.
  rewrite HU by lia.
  do 2 f_equal. unfold A, B, C. change (2 ^ 16) with 65536. change (2 ^ 8) with 256.
  pose proof (Z.div_mod v 256 ltac:(lia)). pose proof (Z.div_mod (v / 256) 256 ltac:(lia)).
  assert (v / 65536 = v / 256 / 256) by (rewrite Z.div_div by lia; reflexivity).
  assert ((v / 65536) mod 256 = v / 65536) by (apply Z.mod_small; split; [apply Z.div_pos; lia|apply Z.div_lt_upper_bound; lia]).
  lia.
Qed.
