From Verif Require Import Bytes Facts_HTMLEscape HTMLEscapeM.
Open Scope N_scope.

(* The specification, written independently of the tables. *)
Definition esc5 (c : N) : bytes :=
  if c =? 34 then [38; 35; 51; 52; 59]        (* dquote &#34; *)
  else if c =? 39 then [38; 35; 51; 57; 59]   (* squote &#39; *)
  else if c =? 38 then [38; 97; 109; 112; 59] (* &  &amp; *)
  else if c =? 60 then [38; 108; 116; 59]     (* <  &lt; *)
  else if c =? 62 then [38; 103; 116; 59]     (* >  &gt; *)
  else [c].

Definition is_special (c : N) : bool :=
  (c =? 34) || (c =? 39) || (c =? 38) || (c =? 60) || (c =? 62).

(* ---- obligations on the generated tables (finite, by computation) ---- *)

Definition he_rep_or_self (c : N) : bytes :=
  match assoc_get gen_HTMLEscape_rep c with Some r => r | None => [c] end.

Definition he_inc (c : N) : N :=
  match assoc_get gen_HTMLEscape_inc c with Some k => k | None => 0 end.

Definition fact_rep_keys : bool := forallb (fun kv => fst kv <? 256) gen_HTMLEscape_rep.
Definition fact_inc_keys : bool := forallb (fun kv => fst kv <? 256) gen_HTMLEscape_inc.
Definition fact_byte (c : N) : bool :=
  bytes_eqb (he_rep_or_self c) (esc5 c)
  && (match assoc_get gen_HTMLEscape_rep c, assoc_get gen_HTMLEscape_inc c with
      | Some r, Some k => (he_adv c =? nlen r) && ((k + 1 =? nlen r)
                          && ((3 <=? k) && (k <=? gen_HTMLEscape_first_bound)))
      | None, None => true
      | _, _ => false
      end).
Definition fact_bytes : bool := forallb fact_byte all_bytes.
Definition fact_bound : bool := gen_HTMLEscape_first_bound <? 6.

(* The four obligations on the generated facts. *)
Lemma fact_rep_keys_ok : fact_rep_keys = true. Proof. vm_compute. reflexivity. Qed.
Lemma fact_inc_keys_ok : fact_inc_keys = true. Proof. vm_compute. reflexivity. Qed.
Lemma fact_bytes_ok : fact_bytes = true. Proof. vm_compute. reflexivity. Qed.
Lemma fact_bound_ok : fact_bound = true. Proof. vm_compute. reflexivity. Qed.

Lemma facts_split :
  forallb (fun kv => fst kv <? 256) gen_HTMLEscape_rep = true /\
  forallb (fun kv => fst kv <? 256) gen_HTMLEscape_inc = true /\
  (forall c, c < 256 ->
     bytes_eqb (he_rep_or_self c) (esc5 c) = true /\
     match assoc_get gen_HTMLEscape_rep c, assoc_get gen_HTMLEscape_inc c with
     | Some r, Some k => he_adv c = nlen r /\ k + 1 = nlen r /\ 3 <= k /\ k <= gen_HTMLEscape_first_bound
     | None, None => True
     | _, _ => False
     end) /\
  gen_HTMLEscape_first_bound < 6.
Proof.
  split; [exact fact_rep_keys_ok|]. split; [exact fact_inc_keys_ok|].
  split; [|apply N.ltb_lt; exact fact_bound_ok].
  intros c Hc. pose proof (forall_bytes _ fact_bytes_ok c Hc) as H. unfold fact_byte in H.
  apply andb_prop in H. destruct H as [He Hm]. split; [exact He|].
  destruct (assoc_get gen_HTMLEscape_rep c), (assoc_get gen_HTMLEscape_inc c); try discriminate; auto.
  apply andb_prop in Hm. destruct Hm as [H1 Hm].
  apply andb_prop in Hm. destruct Hm as [H2 Hm].
  apply andb_prop in Hm. destruct Hm as [H3 H4].
  repeat split; try apply N.eqb_eq; try apply N.leb_le; assumption.
Qed.

Lemma esc5_oob c : 256 <= c -> esc5 c = [c].
Proof.
  intros H. unfold esc5.
  repeat match goal with |- context [?a =? ?b] => destruct (N.eqb_spec a b); [lia|] end.
  reflexivity.
Qed.

(* per-byte characterisation used by the inductions *)
Lemma byte_cases c :
  (assoc_get gen_HTMLEscape_rep c = None /\ assoc_get gen_HTMLEscape_inc c = None /\ esc5 c = [c]) \/
  (exists r k, assoc_get gen_HTMLEscape_rep c = Some r /\ assoc_get gen_HTMLEscape_inc c = Some k /\
               esc5 c = r /\ he_adv c = nlen r /\ k + 1 = nlen r /\ 3 <= k /\ k <= gen_HTMLEscape_first_bound).
Proof.
  destruct facts_split as (Hr & Hi & Hb & _).
  destruct (N.lt_ge_cases c 256) as [Hc|Hc].
  - destruct (Hb c Hc) as [He Hm]. apply bytes_eqb_eq in He. unfold he_rep_or_self in He.
    destruct (assoc_get gen_HTMLEscape_rep c) as [r|], (assoc_get gen_HTMLEscape_inc c) as [k|]; try contradiction.
    + right. exists r, k. intuition.
    + left. intuition.
  - left. rewrite (assoc_get_oob _ c Hr Hc), (assoc_get_oob _ c Hi Hc), (esc5_oob c Hc). auto.
Qed.

Fixpoint total_inc (s : bytes) : N :=
  match s with [] => 0 | c :: r => he_inc c + total_inc r end.

Lemma total_inc_01 s : total_inc s = 0 \/ 3 <= total_inc s.
Proof.
  induction s as [|c r IH]; simpl; [left; reflexivity|].
  unfold he_inc. destruct (byte_cases c) as [(_ & -> & _)|(r0 & k & _ & -> & _ & _ & _ & Hk & _)]; lia.
Qed.

Lemma flat_len s : nlen (flat_map esc5 s) = nlen s + total_inc s.
Proof.
  induction s as [|c r IH]; cbn [flat_map total_inc]; [rewrite !nlen_nil; reflexivity|].
  rewrite nlen_app, nlen_cons, IH. unfold he_inc.
  destruct (byte_cases c) as [(_ & -> & ->)|(r0 & k & _ & -> & -> & _ & Hk & _)]; rewrite ?nlen_cons, ?nlen_nil; lia.
Qed.

Lemma total_inc_0_id s : total_inc s = 0 -> flat_map esc5 s = s.
Proof.
  induction s as [|c r IH]; simpl; [reflexivity|]. unfold he_inc.
  destruct (byte_cases c) as [(_ & -> & ->)|(r0 & k & _ & -> & _ & _ & _ & Hk & _)]; intros H; [|lia].
  simpl. f_equal. apply IH. lia.
Qed.

(* ---- pass 1 ---- *)

Lemma pass1_n s : forall i n j, fst (he_pass1 s i n j) = n + total_inc s.
Proof.
  induction s as [|c r IH]; intros i n j; cbn [he_pass1 total_inc fst]; [lia|]. unfold he_inc.
  destruct (assoc_get gen_HTMLEscape_inc c); rewrite IH; lia.
Qed.

(* once n >= 3, j no longer changes *)
Lemma pass1_j_stable s : forall i n j, 3 <= n -> snd (he_pass1 s i n j) = j.
Proof.
  destruct facts_split as (_ & _ & _ & Hb).
  induction s as [|c r IH]; intros i n j Hn; simpl; [reflexivity|].
  destruct (byte_cases c) as [(_ & -> & _)|(r0 & k & _ & -> & _ & _ & _ & Hk & Hk2)].
  - apply IH, Hn.
  - rewrite IH by lia. destruct (N.leb_spec (n + k) gen_HTMLEscape_first_bound); [lia|reflexivity].
Qed.

(* with n = 0, j ends at a position before which there is no special byte *)
Lemma pass1_j_prefix s : forall i j,
  let j' := snd (he_pass1 s i 0 j) in
  (j' = j /\ total_inc s = 0) \/
  (i <= j' /\ j' - i <= nlen s /\ total_inc (firstn (N.to_nat (j' - i)) s) = 0).
Proof.
  induction s as [|c r IH]; intros i j; simpl; [left; auto|].
  destruct (byte_cases c) as [(_ & Hi & _)|(r0 & k & _ & Hi & _ & _ & _ & Hk & Hk2)].
  - rewrite Hi. unfold he_inc. rewrite Hi. simpl.
    destruct (IH (i + 1) j) as [[H1 H2]|(H1 & H2 & H3)].
    + left. split; [exact H1|]. lia.
    + right. split; [lia|]. split; [rewrite ?nlen_eq in *; simpl length; lia|].
      replace (N.to_nat (snd (he_pass1 r (i + 1) 0 j) - i)) with (S (N.to_nat (snd (he_pass1 r (i + 1) 0 j) - (i + 1)))) by lia.
      simpl. unfold he_inc. rewrite Hi. simpl. exact H3.
  - rewrite Hi. simpl. rewrite pass1_j_stable by lia.
    destruct (N.leb_spec k gen_HTMLEscape_first_bound); [|lia].
    right. split; [lia|]. split; [rewrite ?nlen_eq; simpl length; lia|].
    replace (i - i) with 0 by lia. reflexivity.
Qed.

(* ---- array lemmas ---- *)

Lemma copy_at_app pre k src :
  (length src <= k)%nat ->
  copy_at (pre ++ repeat 0 k) (nlen pre) src = Some (pre ++ src ++ repeat 0 (k - length src)).
Proof.
  intros H. unfold copy_at. rewrite ?nlen_eq. rewrite app_length, repeat_length.
  destruct (N.ltb_spec (N.of_nat (length pre + k)) (N.of_nat (length pre))); [lia|].
  rewrite Nat2N.id. f_equal.
  rewrite firstn_app, firstn_all, Nat.sub_diag. simpl. rewrite app_nil_r. f_equal.
  replace (length pre + k - length pre)%nat with k by lia.
  rewrite firstn_all2 by lia. f_equal.
  rewrite Nat.min_r by lia. rewrite skipn_app, skipn_all2 by lia. simpl.
  replace (length pre + length src - length pre)%nat with (length src) by lia.
  rewrite skipn_repeat. reflexivity.
Qed.

Lemma set_at_app pre k c :
  (1 <= k)%nat ->
  set_at (pre ++ repeat 0 k) (nlen pre) c = Some (pre ++ [c] ++ repeat 0 (k - 1)).
Proof.
  intros H. unfold set_at. rewrite ?nlen_eq. rewrite app_length, repeat_length.
  destruct (N.ltb_spec (N.of_nat (length pre)) (N.of_nat (length pre + k))); [|lia].
  rewrite Nat2N.id. f_equal.
  rewrite firstn_app, firstn_all, Nat.sub_diag. cbn [firstn]. rewrite app_nil_r. f_equal.
  cbn [app]. f_equal.
  rewrite skipn_app, skipn_all2 by lia. cbn [app].
  replace (S (length pre) - length pre)%nat with 1%nat by lia.
  rewrite skipn_repeat. reflexivity.
Qed.

(* ---- pass 2 ---- *)

Lemma pass2_spec r : forall i n j pre k,
  j = nlen pre ->
  k = length (flat_map esc5 r) ->
  j + total_inc r = i + n ->
  he_pass2 r i n j (pre ++ repeat 0 k) = Some (pre ++ flat_map esc5 r).
Proof.
  induction r as [|c r IH]; intros i n j pre k Hj Hk Hn; cbn [he_pass2 flat_map total_inc] in *.
  - subst k. cbn [length repeat]. reflexivity.
  - unfold he_inc in Hn.
    destruct (byte_cases c) as [(Hr & Hi & He)|(r0 & k0 & Hr & Hi & He & Ha & Hl & Hk3 & Hk4)];
      rewrite Hr; rewrite Hi in Hn; rewrite He in *.
    + subst j. cbn [app length] in Hk.
      rewrite set_at_app by lia.
      replace (pre ++ [c] ++ repeat 0 (k - 1)) with ((pre ++ [c]) ++ repeat 0 (k - 1)) by (rewrite <- app_assoc; reflexivity).
      rewrite IH with (pre := pre ++ [c]); [rewrite <- app_assoc; reflexivity| ..];
        rewrite ?nlen_app, ?nlen_cons, ?nlen_nil; lia.
    + subst j. rewrite app_length in Hk. rewrite copy_at_app by lia.
      rewrite Ha.
      destruct (N.eqb_spec (nlen pre + nlen r0) (i + n)) as [Heq|Hne].
      * exfalso. destruct (total_inc_01 r) as [H0|H3]; lia.
      * replace (pre ++ r0 ++ repeat 0 (k - length r0)) with ((pre ++ r0) ++ repeat 0 (k - length r0)) by (rewrite <- app_assoc; reflexivity).
        rewrite IH with (pre := pre ++ r0); [rewrite <- !app_assoc; reflexivity| ..];
          rewrite ?nlen_app; lia.
Qed.

Lemma flat_map_firstn_skipn {A B} (f : A -> list B) n l :
  flat_map f l = flat_map f (firstn n l) ++ flat_map f (skipn n l).
Proof. rewrite <- flat_map_app, firstn_skipn. reflexivity. Qed.

Lemma total_inc_app a b : total_inc (a ++ b) = total_inc a + total_inc b.
Proof. induction a as [|c a IH]; cbn [app total_inc]; [reflexivity|]. rewrite IH. lia. Qed.

Theorem HTMLEscape_spec s : HTMLEscape s = Some (flat_map esc5 s).
Proof.
  unfold HTMLEscape.
  destruct (he_pass1 s 0 0 0) as [n j] eqn:Hp.
  pose proof (pass1_n s 0 0 0) as Hn. rewrite Hp in Hn. simpl in Hn.
  pose proof (pass1_j_prefix s 0 0) as Hj. simpl in Hj. rewrite Hp in Hj. simpl in Hj.
  destruct (N.eqb_spec n 0) as [Hz|Hnz].
  - rewrite total_inc_0_id by lia. reflexivity.
  - destruct Hj as [[Hj0 Ht]|(_ & Hjl & Hpre)]; [lia|].
    rewrite N.sub_0_r in *.
    set (jn := N.to_nat j) in *.
    assert (Hjn : (jn <= length s)%nat) by (rewrite ?nlen_eq in Hjl; lia).
    pose proof (total_inc_app (firstn jn s) (skipn jn s)) as Hsplit. rewrite firstn_skipn, Hpre in Hsplit.
    assert (Hb1 : (if 0 <? j
                   then if (nlen (repeat 0 (length s + N.to_nat n)) <? j) || (nlen s <? j) then None
                        else Some (firstn jn s ++ skipn jn (repeat 0 (length s + N.to_nat n)))
                   else Some (repeat 0 (length s + N.to_nat n)))
                  = Some (firstn jn s ++ repeat 0 (length s + N.to_nat n - jn))).
    { destruct (N.ltb_spec 0 j).
      - rewrite ?nlen_eq. rewrite repeat_length.
        destruct (N.ltb_spec (N.of_nat (length s + N.to_nat n)) j); [lia|].
        destruct (N.ltb_spec (N.of_nat (length s)) j); [lia|]. simpl.
        rewrite skipn_repeat. reflexivity.
      - assert (jn = 0%nat) by lia. rewrite H0. simpl. rewrite Nat.sub_0_r. reflexivity. }
    rewrite Hb1.
    rewrite pass2_spec.
    + rewrite (flat_map_firstn_skipn esc5 jn s). rewrite (total_inc_0_id _ Hpre). reflexivity.
    + rewrite ?nlen_eq. rewrite firstn_length_le by lia. lia.
    + pose proof (flat_len (skipn jn s)) as Hfl. rewrite ?nlen_eq in Hfl. rewrite skipn_length in Hfl.
      lia.
    + lia.
Qed.

(* Positional reading of "nothing else changed": the output is the
   concatenation, in order, of one block per input byte; the block of a byte
   other than the five is that byte itself. *)
Lemma esc5_other c : is_special c = false -> esc5 c = [c].
Proof.
  unfold is_special, esc5. intros H.
  repeat match goal with |- context [?a =? ?b] => destruct (N.eqb_spec a b); [subst; discriminate|] end.
  reflexivity.
Qed.

From Verif Require Import Utf8 HtmlDecode HtmlDecode_proofs.

Lemma esc5_block_ok : block_ok esc5.
Proof.
  intros c. unfold esc5.
  repeat match goal with |- context [?a =? ?b] => destruct (N.eqb_spec a b); [subst; vm_compute; reflexivity|] end.
  cbn [hrun]. rewrite hstep_data_plain by assumption. reflexivity.
Qed.

Theorem HTMLEscape_decodes s :
  exists out, HTMLEscape s = Some out /\ html_decode out = s.
Proof.
  exists (flat_map esc5 s). split; [apply HTMLEscape_spec|].
  rewrite <- (app_nil_r (flat_map esc5 s)). rewrite (html_decode_blocks esc5 s [] esc5_block_ok).
  apply app_nil_r.
Qed.
